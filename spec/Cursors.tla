------------------------------- MODULE Cursors -------------------------------
(***************************************************************************)
(* Consumer cursors (server/cursors.go on top of the internal, compacted   *)
(* __cursors stream, api.go SetCursor/FetchCursor).  Property C11.         *)
(*                                                                         *)
(* Abstract state                                                          *)
(*   clog    retained entries [off, key, val] of the cursors partition     *)
(*           in offset order (val = the cursor offset that was stored)     *)
(*   segs    base offsets of its segments; next = next offset to assign    *)
(*   hw      its high watermark                                            *)
(*   cache   the cursor manager's LRU as a sequence [key, val], least      *)
(*           recently used first; cacheOn = FALSE models disableCache      *)
(*           (lookups skipped, results still stored)                       *)
(*   paused  the cursors partition is paused (its log closed); the next    *)
(*           Set (publish) or Fetch that has to read it resumes it, and    *)
(*           becoming its leader again purges the cache                    *)
(*   pend    client -> pending Fetch that already scanned the log but has  *)
(*           not stored its result yet: [on, key, val, allowed]            *)
(*   cur     key -> value of the last SetCursor that succeeded (-1 none):  *)
(*           the register the property talks about                         *)
(*   obs     result of the last call [a, ret, err]                         *)
(*                                                                         *)
(* SetCursor: under the manager's lock, publish (AckPolicy ALL) then add   *)
(* to the cache.  FetchCursor: cache hit, or scan the partition in reverse *)
(* from the latest committed entry and add the result to the cache.  The   *)
(* scan runs without the lock, so a Fetch is two steps (DoFetchBegin up to *)
(* the end of the scan, DoFetchEnd storing the result) and SetCursor calls *)
(* of other clients can run in between.                                    *)
(*                                                                         *)
(* Do<X> the step as the code performs it, P_<X> what C11 demands.         *)
(* FixStale selects the behaviour before (FALSE) / after (TRUE) the repair *)
(* of the stale cache fill found by this specification.                    *)
(***************************************************************************)
EXTENDS Integers, Sequences, FiniteSets

CONSTANTS Cap,        \* capacity of the LRU
          SegCap,     \* entries per segment of the cursors partition
          FixStale

VARIABLES clog, segs, next, hw, cache, cacheOn, paused, pend, cur, gen, obs
vars == <<clog, segs, next, hw, cache, cacheOn, paused, pend, cur, gen, obs>>

Keys == {"k1", "k2", "k3"}
Clients == {"c1", "c2"}
NoPend == [on |-> FALSE, key |-> "k1", val |-> -1, allowed |-> {}, gen |-> 0]

Last(s) == s[Len(s)]
MaxS(S) == CHOOSE x \in S : \A y \in S : x >= y

-----------------------------------------------------------------------------
(* LRU (hashicorp/golang-lru): sequence, least recently used first *)

Without(c, k) == SelectSeq(c, LAMBDA e : e.key # k)
Has(c, k) == \E i \in 1..Len(c) : c[i].key = k
ValOf(c, k) == c[CHOOSE i \in 1..Len(c) : c[i].key = k].val
CacheAdd(c, k, v) == LET n == Append(Without(c, k), [key |-> k, val |-> v])
                     IN IF Len(n) > Cap THEN Tail(n) ELSE n
CacheTouch(c, k) == Append(Without(c, k), [key |-> k, val |-> ValOf(c, k)])

-----------------------------------------------------------------------------
(* the cursors partition *)

SegRecs(l, ss, k) ==
  SelectSeq(l, LAMBDA r : r.off >= ss[k] /\ (k = Len(ss) \/ r.off < ss[k + 1]))

\* publish one entry: roll when the active segment is full, append, commit
Published(k, v) ==
  LET full == Len(SegRecs(clog, segs, Len(segs))) >= SegCap IN
  [clog |-> Append(clog, [off |-> next, key |-> k, val |-> v]),
   segs |-> IF full THEN Append(segs, next) ELSE segs]

\* getLatestCursorOffset: newest committed entry of the key, -1 if none
Scan(k) == LET I == {i \in 1..Len(clog) : clog[i].key = k /\ clog[i].off <= hw}
           IN IF hw = -1 \/ clog = <<>> \/ I = {} THEN -1 ELSE clog[MaxS(I)].val

\* compaction: in every segment but the active one, an entry is removed when a
\* later committed entry has the same key; emptied segments disappear
Compacted ==
  LET n == Len(segs)
      dead(r) == r.off < segs[n] /\ \E j \in 1..Len(clog) :
                   clog[j].key = r.key /\ clog[j].off > r.off /\ clog[j].off <= hw
      nl == SelectSeq(clog, LAMBDA r : ~dead(r))
      keep == {k \in 1..n : k = n \/ SegRecs(nl, segs, k) # <<>>}
  IN [clog |-> nl, segs |-> SelectSeq(segs, LAMBDA b : \E k \in keep : segs[k] = b)]

\* the partition is resumed by whoever needs it; this server becomes its leader
\* again and purges the cache
Resumed(c) == IF paused THEN <<>> ELSE c

-----------------------------------------------------------------------------
(* Actions as the code performs them *)

Init ==
  /\ clog = <<>> /\ segs = <<0>> /\ next = 0 /\ hw = -1
  /\ cache = <<>> /\ cacheOn \in BOOLEAN /\ paused = FALSE
  /\ pend = [c \in Clients |-> NoPend]
  /\ cur = [k \in Keys |-> -1]
  /\ gen = 0
  /\ obs = [a |-> "Open", ret |-> -1, err |-> ""]

\* every pending Fetch of key k may return v from now on
Note(k, v) == [c \in Clients |-> IF pend[c].on /\ pend[c].key = k
                                 THEN [pend[c] EXCEPT !.allowed = @ \cup {v}] ELSE pend[c]]

DoSet(k, v) ==
  LET p == Published(k, v) IN
  /\ clog' = p.clog /\ segs' = p.segs /\ next' = next + 1 /\ hw' = next
  /\ cache' = CacheAdd(Resumed(cache), k, v)
  /\ paused' = FALSE
  /\ gen' = gen + (IF paused THEN 2 ELSE 1)     \* the purge on resume counts as a write
  /\ cur' = [cur EXCEPT ![k] = v]
  /\ pend' = Note(k, v)
  /\ obs' = [a |-> "Set", ret |-> v, err |-> ""]
  /\ UNCHANGED cacheOn

\* a complete FetchCursor with no other call in between
DoFetch(k) ==
  IF cacheOn /\ Has(cache, k) THEN
    /\ cache' = CacheTouch(cache, k)
    /\ obs' = [a |-> "Fetch", ret |-> ValOf(cache, k), err |-> ""]
    /\ UNCHANGED <<clog, segs, next, hw, cacheOn, paused, pend, cur, gen>>
  ELSE
    \* (the scan resumes a paused partition; the purge that follows invalidates
    \* the value this very call has read)
    /\ cache' = IF FixStale /\ paused THEN <<>> ELSE CacheAdd(Resumed(cache), k, Scan(k))
    /\ paused' = FALSE
    /\ gen' = IF paused THEN gen + 1 ELSE gen
    /\ obs' = [a |-> "Fetch", ret |-> Scan(k), err |-> ""]
    /\ UNCHANGED <<clog, segs, next, hw, cacheOn, pend, cur>>

\* FetchCursor of client c up to the end of its scan (or to its end on a cache hit)
DoFetchBegin(c, k) ==
  /\ ~pend[c].on
  /\ IF cacheOn /\ Has(cache, k) THEN
       /\ cache' = CacheTouch(cache, k)
       /\ obs' = [a |-> "FetchBegin", ret |-> ValOf(cache, k), err |-> "done"]
       /\ UNCHANGED <<clog, segs, next, hw, cacheOn, paused, pend, cur, gen>>
     ELSE
       /\ cache' = Resumed(cache)
       /\ paused' = FALSE
       /\ pend' = [pend EXCEPT ![c] = [on |-> TRUE, key |-> k, val |-> Scan(k), allowed |-> {cur[k]}, gen |-> gen]]
       /\ gen' = IF paused THEN gen + 1 ELSE gen
       /\ obs' = [a |-> "FetchBegin", ret |-> -1, err |-> "pending"]
       /\ UNCHANGED <<clog, segs, next, hw, cacheOn, cur>>

\* ... and its end: the scanned value is stored in the cache and returned
DoFetchEnd(c) ==
  /\ pend[c].on
  /\ cache' = IF FixStale /\ pend[c].gen # gen THEN cache
              ELSE CacheAdd(cache, pend[c].key, pend[c].val)
  /\ pend' = [pend EXCEPT ![c] = NoPend]
  /\ obs' = [a |-> "FetchEnd", ret |-> pend[c].val, err |-> ""]
  /\ UNCHANGED <<clog, segs, next, hw, cacheOn, paused, cur, gen>>

DoClean ==
  /\ ~paused
  /\ clog' = Compacted.clog /\ segs' = Compacted.segs
  /\ obs' = [a |-> "Clean", ret |-> -1, err |-> ""]
  /\ UNCHANGED <<next, hw, cache, cacheOn, paused, pend, cur, gen>>

DoPause ==
  /\ ~paused
  /\ paused' = TRUE
  /\ obs' = [a |-> "Pause", ret |-> -1, err |-> ""]
  /\ UNCHANGED <<clog, segs, next, hw, cache, cacheOn, pend, cur, gen>>

\* server restart over the same data directory (no call in flight)
DoRestart ==
  /\ \A c \in Clients : ~pend[c].on
  /\ cache' = <<>> /\ gen' = 0
  /\ obs' = [a |-> "Restart", ret |-> -1, err |-> ""]
  /\ UNCHANGED <<clog, segs, next, hw, cacheOn, paused, pend, cur>>

-----------------------------------------------------------------------------
(* What property C11 demands *)

\* a SetCursor that returned success is the latest one of its key
P_Set(k, v) == obs'.err = "" => cur'[k] = v

\* a FetchCursor that ran alone returns the last stored value (-1 if none)
P_Fetch(k) == obs'.err = "" /\ obs'.ret = cur[k]

\* a FetchCursor that completed at once (cache hit) likewise
P_FetchBegin(c, k) == obs'.err = "done" => obs'.ret = cur[k]

\* a FetchCursor that overlapped SetCursor calls returns the value stored
\* before it was invoked or one stored while it ran
P_FetchEnd(c) == obs'.err = "" /\ obs'.ret \in pend[c].allowed

\* the register itself changes only by successful SetCursor calls
P_Other == cur' = cur

TypeOK == /\ Len(cache) <= Cap
          /\ \A i \in 1..Len(clog) - 1 : clog[i].off < clog[i + 1].off
          /\ hw < next
=============================================================================
