------------------------------- MODULE Cursors -------------------------------
(***************************************************************************)
(* Consumer cursors (server/cursors.go on top of the internal, compacted   *)
(* __cursors stream, api.go SetCursor/FetchCursor).  Property C11.         *)
(*                                                                         *)
(* Abstract state                                                          *)
(*   clog    retained entries [off, key, val] of the cursors partition     *)
(*           in offset order (val = the cursor offset that was stored)     *)
(*   segs    base offsets of its segments; next = next offset to assign    *)
(*   segCap  entries a segment takes before the next append rolls it       *)
(*           (fixed per behaviour, like cacheOn)                           *)
(*   hw      its high watermark                                            *)
(*   cache   the cursor manager's LRU as a sequence [key, val], least      *)
(*           recently used first; cacheOn = FALSE models disableCache      *)
(*           (lookups skipped, results still stored)                       *)
(*   ldr     the server that leads the cursors partition ("a" / "b": with  *)
(*           two servers the partition is replicated by both); clog, segs, *)
(*           hw and cache are the LEADER's log and cache, ocache is the    *)
(*           cache of the other server (what it cached while it led)       *)
(*   paused  the cursors partition is paused (its log closed); the next    *)
(*           Set (publish) or Fetch that has to read it resumes it, and    *)
(*           becoming its leader again purges the cache                    *)
(*   pend    client -> pending Fetch that already scanned the log but has  *)
(*           not stored its result yet: [on, key, val, allowed]            *)
(*   cur     key -> value of the last SetCursor that succeeded (-1 none):  *)
(*           the register the property talks about                         *)
(*   fails   SetCursor calls that failed after their record had been       *)
(*           appended to the leader's log: [key, val, off]; the record is   *)
(*           above the HW until a later commit passes it                    *)
(*   cln     a clean of the cursors partition between its two steps:        *)
(*           [on, dead, n] = offsets the compaction decided to remove and   *)
(*           the number of segments when it took its snapshot               *)
(*   obs     result of the last call [a, ret, err]                         *)
(*                                                                         *)
(* SetCursor: under the manager's lock, publish (AckPolicy ALL) then add   *)
(* to the cache.  FetchCursor: cache hit, or scan the partition in reverse *)
(* from the latest committed entry and add the result to the cache.  The   *)
(* scan runs without the lock, so a Fetch is two steps (DoFetchBegin up to *)
(* the end of the scan, DoFetchEnd storing the result) and SetCursor calls *)
(* of other clients can run in between.                                    *)
(*                                                                         *)
(* Do<X> the step as the code performs it, P_<X> what C11 demands.         *)
(* FixStale selects the behaviour before (FALSE) / after (TRUE) the repair *)
(* of the stale cache fill found by this specification.                    *)
(***************************************************************************)
EXTENDS Integers, Sequences, FiniteSets

CONSTANTS Cap,        \* capacity of the LRU
          SegCaps,    \* entries per segment of the cursors partition: the values a behaviour may run with
          FixStale

VARIABLES clog, segs, next, hw, cache, cacheOn, segCap, ldr, ocache, paused, pend, cur, gen, fails, cln, obs
vars == <<clog, segs, next, hw, cache, cacheOn, segCap, ldr, ocache, paused, pend, cur, gen, fails, cln, obs>>

Keys == {"k1", "k2", "k3"}
Clients == {"c1", "c2"}
NoCln == [on |-> FALSE, dead |-> {}, n |-> 0]
NoPend == [on |-> FALSE, key |-> "k1", val |-> -1, allowed |-> {}, gen |-> 0]

Last(s) == s[Len(s)]
MaxS(S) == CHOOSE x \in S : \A y \in S : x >= y

-----------------------------------------------------------------------------
(* LRU (hashicorp/golang-lru): sequence, least recently used first *)

Without(c, k) == SelectSeq(c, LAMBDA e : e.key # k)
Has(c, k) == \E i \in 1..Len(c) : c[i].key = k
ValOf(c, k) == c[CHOOSE i \in 1..Len(c) : c[i].key = k].val
CacheAdd(c, k, v) == LET n == Append(Without(c, k), [key |-> k, val |-> v])
                     IN IF Len(n) > Cap THEN Tail(n) ELSE n
CacheTouch(c, k) == Append(Without(c, k), [key |-> k, val |-> ValOf(c, k)])

-----------------------------------------------------------------------------
(* the cursors partition *)

SegRecs(l, ss, k) ==
  SelectSeq(l, LAMBDA r : r.off >= ss[k] /\ (k = Len(ss) \/ r.off < ss[k + 1]))

\* publish one entry: roll when the active segment is full, append, commit
Published(k, v) ==
  LET full == Len(SegRecs(clog, segs, Len(segs))) >= segCap IN
  [clog |-> Append(clog, [off |-> next, key |-> k, val |-> v]),
   segs |-> IF full THEN Append(segs, next) ELSE segs]

\* getLatestCursorOffset: newest committed entry of the key, -1 if none
Scan(k) == LET I == {i \in 1..Len(clog) : clog[i].key = k /\ clog[i].off <= hw}
           IN IF hw = -1 \/ clog = <<>> \/ I = {} THEN -1 ELSE clog[MaxS(I)].val

\* While a clean is between its two steps the segments it has rewritten are marked
\* replaced but still listed, and the reverse reader of the scan does not recover
\* from that (the forward reader retries until the swap): the scan succeeds only if
\* it starts in a segment that was not rewritten and finds the key before it has to
\* step down into a rewritten one; otherwise the fetch fails with Internal.
\* (Before fix a85cb4c a scan starting inside a rewritten segment read it as empty and
\* could answer "no cursor" (-1), which was then cached.)
ScanErr(k) ==
  /\ cln.on /\ cln.n >= 2 /\ cln.n <= Len(segs) /\ hw # -1 /\ clog # <<>>
  /\ ~\E i \in 1..Len(clog) : clog[i].key = k /\ clog[i].off <= hw /\ clog[i].off >= segs[cln.n]
ScanVal(k) == Scan(k)

\* compaction: in every segment but the active one, an entry is removed when a
\* later committed entry has the same key; emptied segments disappear
Compacted ==
  LET n == Len(segs)
      dead(r) == r.off < segs[n] /\ \E j \in 1..Len(clog) :
                   clog[j].key = r.key /\ clog[j].off > r.off /\ clog[j].off <= hw
      nl == SelectSeq(clog, LAMBDA r : ~dead(r))
      keep == {k \in 1..n : k = n \/ SegRecs(nl, segs, k) # <<>>}
  IN [clog |-> nl, segs |-> SelectSeq(segs, LAMBDA b : \E k \in keep : segs[k] = b)]

\* what a compaction that starts now removes
CompactDead ==
  {clog[i].off : i \in {i \in 1..Len(clog) :
      /\ clog[i].off < segs[Len(segs)]
      /\ \E j \in 1..Len(clog) : clog[j].key = clog[i].key /\ clog[j].off > clog[i].off /\ clog[j].off <= hw}}

\* the swap at the end of a clean that took its snapshot when there were n segments
\* and decided to remove `dead`: segments rolled since then are kept as they are
Swapped(dead, n) ==
  LET nl == SelectSeq(clog, LAMBDA r : r.off \notin dead)
      keep == {k \in 1..Len(segs) : k >= n \/ SegRecs(nl, segs, k) # <<>>}
  IN [clog |-> nl, segs |-> SelectSeq(segs, LAMBDA b : \E k \in keep : segs[k] = b)]

\* the partition is resumed by whoever needs it; this server becomes its leader
\* again and purges the cache
Resumed(c) == IF paused THEN <<>> ELSE c

-----------------------------------------------------------------------------
(* Actions as the code performs them *)

Init ==
  /\ clog = <<>> /\ segs = <<0>> /\ next = 0 /\ hw = -1
  /\ cache = <<>> /\ cacheOn \in BOOLEAN /\ segCap \in SegCaps /\ paused = FALSE
  /\ ldr = "a" /\ ocache = <<>>
  /\ pend = [c \in Clients |-> NoPend]
  /\ cur = [k \in Keys |-> -1]
  /\ gen = 0 /\ fails = {} /\ cln = NoCln
  /\ obs = [a |-> "Open", ret |-> -1, err |-> ""]

\* values of failed SetCursor calls of key k whose record is committed (as of HW h)
Undet(k, h) == {f.val : f \in {g \in fails : g.key = k /\ g.off <= h}}

\* a successful SetCursor(k, v) commits everything before it: every pending Fetch of
\* key k may return v from now on, and every pending Fetch may return the value of a
\* failed SetCursor of its key that has just been committed
Note(k, v) == [c \in Clients |->
  IF ~pend[c].on THEN pend[c]
  ELSE [pend[c] EXCEPT !.allowed = @ \cup (IF pend[c].key = k THEN {v} ELSE {}) \cup Undet(pend[c].key, next)]]

\* what a Fetch of key k invoked now may return if nothing else happens
AllowedNow(k) == {cur[k]} \cup Undet(k, hw)

DoSet(k, v) ==
  LET p == Published(k, v) IN
  /\ clog' = p.clog /\ segs' = p.segs /\ next' = next + 1 /\ hw' = next
  /\ cache' = CacheAdd(Resumed(cache), k, v)
  /\ paused' = FALSE
  /\ gen' = gen + (IF paused THEN 2 ELSE 1)     \* the purge on resume counts as a write
  /\ cur' = [cur EXCEPT ![k] = v]
  /\ pend' = Note(k, v)
  /\ fails' = {f \in fails : f.key # k}       \* superseded; the others are committed now
  /\ obs' = [a |-> "Set", ret |-> v, err |-> ""]
  /\ UNCHANGED <<cacheOn, segCap, ldr, ocache, cln>>

\* a SetCursor whose publish is appended to the leader's log but cannot be committed
\* (ISR below the minimum ISR size / follower not acknowledging): it fails with a
\* deadline error, the record stays above the HW, the cache is not touched
DoSetFail(k, v) ==
  LET p == Published(k, v) IN
  /\ ~paused
  /\ clog' = p.clog /\ segs' = p.segs /\ next' = next + 1
  /\ fails' = fails \cup {[key |-> k, val |-> v, off |-> next]}
  /\ obs' = [a |-> "SetFail", ret |-> v, err |-> "Internal"]
  /\ UNCHANGED <<hw, cache, cacheOn, segCap, ldr, ocache, paused, pend, cur, gen, cln>>

\* a complete FetchCursor with no other call in between
DoFetch(k) ==
  IF cacheOn /\ Has(cache, k) THEN
    /\ cache' = CacheTouch(cache, k)
    /\ obs' = [a |-> "Fetch", ret |-> ValOf(cache, k), err |-> ""]
    /\ UNCHANGED <<clog, segs, next, hw, cacheOn, segCap, ldr, ocache, paused, pend, cur, gen, fails, cln>>
  ELSE IF ScanErr(k) THEN
    /\ obs' = [a |-> "Fetch", ret |-> -1, err |-> "Internal"]
    /\ UNCHANGED <<clog, segs, next, hw, cache, cacheOn, segCap, ldr, ocache, paused, pend, cur, gen, fails, cln>>
  ELSE
    \* (the scan resumes a paused partition; the purge that follows invalidates
    \* the value this very call has read)
    /\ cache' = IF FixStale /\ paused THEN <<>> ELSE CacheAdd(Resumed(cache), k, ScanVal(k))
    /\ paused' = FALSE
    /\ gen' = IF paused THEN gen + 1 ELSE gen
    /\ obs' = [a |-> "Fetch", ret |-> ScanVal(k), err |-> ""]
    /\ UNCHANGED <<clog, segs, next, hw, cacheOn, segCap, ldr, ocache, pend, cur, fails, cln>>

\* FetchCursor of client c up to the end of its scan (or to its end on a cache hit)
DoFetchBegin(c, k) ==
  /\ ~pend[c].on
  /\ IF cacheOn /\ Has(cache, k) THEN
       /\ cache' = CacheTouch(cache, k)
       /\ obs' = [a |-> "FetchBegin", ret |-> ValOf(cache, k), err |-> "done"]
       /\ UNCHANGED <<clog, segs, next, hw, cacheOn, segCap, ldr, ocache, paused, pend, cur, gen, fails, cln>>
     ELSE IF ScanErr(k) THEN
       /\ obs' = [a |-> "FetchBegin", ret |-> -1, err |-> "Internal"]
       /\ UNCHANGED <<clog, segs, next, hw, cache, cacheOn, segCap, ldr, ocache, paused, pend, cur, gen, fails, cln>>
     ELSE
       /\ cache' = Resumed(cache)
       /\ paused' = FALSE
       /\ pend' = [pend EXCEPT ![c] = [on |-> TRUE, key |-> k, val |-> ScanVal(k), allowed |-> AllowedNow(k), gen |-> gen]]
       /\ gen' = IF paused THEN gen + 1 ELSE gen
       /\ obs' = [a |-> "FetchBegin", ret |-> -1, err |-> "pending"]
       /\ UNCHANGED <<clog, segs, next, hw, cacheOn, segCap, ldr, ocache, cur, fails, cln>>

\* ... and its end: the scanned value is stored in the cache and returned
DoFetchEnd(c) ==
  /\ pend[c].on
  /\ cache' = IF FixStale /\ pend[c].gen # gen THEN cache
              ELSE CacheAdd(cache, pend[c].key, pend[c].val)
  /\ pend' = [pend EXCEPT ![c] = NoPend]
  /\ obs' = [a |-> "FetchEnd", ret |-> pend[c].val, err |-> ""]
  /\ UNCHANGED <<clog, segs, next, hw, cacheOn, segCap, ldr, ocache, paused, cur, gen, fails, cln>>

DoClean ==
  /\ ~paused /\ ~cln.on
  /\ clog' = Compacted.clog /\ segs' = Compacted.segs
  /\ obs' = [a |-> "Clean", ret |-> -1, err |-> ""]
  /\ UNCHANGED <<next, hw, cache, cacheOn, segCap, ldr, ocache, paused, pend, cur, gen, fails, cln>>

\* the clean in its two steps: the compaction works on a snapshot of the segment
\* list without the log mutex; appends and segment rolls go on meanwhile
DoCleanBegin ==
  /\ ~paused /\ ~cln.on
  /\ cln' = [on |-> TRUE, dead |-> CompactDead, n |-> Len(segs)]
  /\ obs' = [a |-> "CleanBegin", ret |-> -1, err |-> ""]
  /\ UNCHANGED <<clog, segs, next, hw, cache, cacheOn, segCap, ldr, ocache, paused, pend, cur, gen, fails>>

\* ... then the cleaned segments are swapped in and the segments rolled meanwhile
\* are put behind them
DoCleanEnd ==
  /\ cln.on
  /\ clog' = Swapped(cln.dead, cln.n).clog /\ segs' = Swapped(cln.dead, cln.n).segs
  /\ cln' = NoCln
  /\ obs' = [a |-> "CleanEnd", ret |-> -1, err |-> ""]
  /\ UNCHANGED <<next, hw, cache, cacheOn, segCap, ldr, ocache, paused, pend, cur, gen, fails>>

\* a tick of the partition's cleaner loop first checks the active segment: one that
\* is full (the last write filled it) or older than the segment age limit is rolled,
\* which leaves an EMPTY active segment behind - the HW then lies in a segment that
\* is no longer the active one and that the next clean may compact.  (The age is
\* not modelled: any non-empty active segment may be found old enough.)
DoRoll ==
  /\ ~paused
  /\ segs' = IF SegRecs(clog, segs, Len(segs)) # <<>> THEN Append(segs, next) ELSE segs
  /\ obs' = [a |-> "Roll", ret |-> -1, err |-> ""]
  /\ UNCHANGED <<clog, next, hw, cache, cacheOn, segCap, ldr, ocache, paused, pend, cur, gen, fails, cln>>

DoPause ==
  /\ ~paused /\ ~cln.on /\ hw = next - 1
  /\ paused' = TRUE
  /\ obs' = [a |-> "Pause", ret |-> -1, err |-> ""]
  /\ UNCHANGED <<clog, segs, next, hw, cache, cacheOn, segCap, ldr, ocache, pend, cur, gen, fails, cln>>

\* server restart over the same data directory (no call in flight)
DoRestart ==
  /\ \A c \in Clients : ~pend[c].on
  /\ ~cln.on /\ hw = next - 1
  /\ cache' = <<>> /\ gen' = 0
  /\ obs' = [a |-> "Restart", ret |-> -1, err |-> ""]
  /\ UNCHANGED <<clog, segs, next, hw, cacheOn, segCap, ldr, ocache, paused, pend, cur, fails, cln>>

\* The cursors partition changes its leader between two live servers (the controller
\* elects the other in-sync replica; nothing is in flight and the follower has caught
\* up, so both logs are the same): the new leader purges whatever it cached when it
\* led before, the old leader keeps its cache while it only follows.
Other(s) == IF s = "a" THEN "b" ELSE "a"
DoHandover ==
  /\ ~paused /\ ~cln.on /\ hw = next - 1
  /\ \A c \in Clients : ~pend[c].on
  /\ ldr' = Other(ldr)
  /\ cache' = <<>> /\ ocache' = cache
  /\ gen' = gen + 1
  /\ obs' = [a |-> "Handover", ret |-> -1, err |-> ""]
  /\ UNCHANGED <<clog, segs, next, hw, cacheOn, segCap, paused, pend, cur, fails, cln>>

\* a FetchCursor sent to the server that does not lead the cursors partition is refused
DoFetchOther(k) ==
  /\ obs' = [a |-> "FetchOther", ret |-> -1, err |-> "FailedPrecondition"]
  /\ UNCHANGED <<clog, segs, next, hw, cache, cacheOn, segCap, ldr, ocache, paused, pend, cur, gen, fails, cln>>

-----------------------------------------------------------------------------
(* What property C11 demands *)

\* a SetCursor that returned success is the latest one of its key; one that failed
\* leaves the register alone
P_Set(k, v) == IF obs'.err = "" THEN cur'[k] = v ELSE cur' = cur

\* whether a SetCursor that failed took effect is undetermined once its record has
\* been committed after all (never before)
Maybe(k) == Undet(k, hw')

\* a FetchCursor that ran alone returns the last stored value (-1 if none)
P_Fetch(k) == obs'.err = "" /\ obs'.ret \in {cur[k]} \cup Maybe(k)

\* a FetchCursor that completed at once (cache hit) likewise
P_FetchBegin(c, k) == /\ obs'.err \in {"done", "pending"}
                      /\ obs'.err = "done" => obs'.ret \in {cur[k]} \cup Maybe(k)

\* a FetchCursor that overlapped SetCursor calls returns the value stored
\* before it was invoked or one stored while it ran
P_FetchEnd(c) == obs'.err = "" /\ obs'.ret \in pend[c].allowed \cup Maybe(pend[c].key)

\* a server that does not lead the cursors partition may refuse; if it answers, then
\* with the last stored value like everybody else
P_FetchOther(k) == obs'.err # "" \/ obs'.ret \in {cur[k]} \cup Maybe(k)

\* the register itself changes only by successful SetCursor calls
P_Other == cur' = cur

TypeOK == /\ Len(cache) <= Cap
          /\ \A i \in 1..Len(clog) - 1 : clog[i].off < clog[i + 1].off
          /\ hw < next
=============================================================================
