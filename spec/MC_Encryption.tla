--------------------------- MODULE MC_Encryption ---------------------------
(* Bounded instance of Encryption.tla.                                      *)
(*  - table part (TableOn): from the initial state one transition per value *)
(*    length x corruption case (MCRead), per value length (MCSeal) and per  *)
(*    master key length (MCNew): TLC enumerates the whole abstract product  *)
(*    and checks P_Read / P_Seal on the transcription;                      *)
(*  - pipeline part: sequences of publishes (batches of up to MaxBatch      *)
(*    values, with injected seal failures), subscribers, pause / resume,    *)
(*    restart, change of the environment variable, tampering, and - with    *)
(*    two replicas - subscribers served by the follower and leader changes; *)
(*    metadata snapshots, restart from a snapshot or by replay, a running   *)
(*    server installing a snapshot.                                         *)
(*    Also the                                                              *)
(*    stimulus generator (-simulate with Sim_Encryption.cfg).               *)
EXTENDS Encryption, TLC

CONSTANTS Lens,        \* value lengths of the table
          MKLens,      \* master key lengths tried by NewLocalEncryptionHandler
          TableOn,
          MaxPub,      \* values published in a behaviour
          MaxBatch,
          MaxSteps,
          MaxFailBatches, MaxRestart, MaxTamper, MaxEnv, MaxPause, MaxSub, MaxLead, MaxSnap, MaxInstall,
          PubClasses,  \* value classes drawn for published values (the stimulus generator draws one and the
          Hows,        \* check re-draws class, scheduling and tampered region itself: decoration that the
          TamperRegs   \* model's outcome does not depend on)

VARIABLES last, nPub, nStep, nFail, nRestart, nTamper, nEnv, nPause, nSub, nLead, nSnap, nInstall
budget == <<nPub, nStep, nFail, nRestart, nTamper, nEnv, nPause, nSub, nLead, nSnap, nInstall>>
mcvars == <<vars, last, budget>>

MCInit ==
  /\ Init /\ env = "k1" /\ lead = [s \in Streams |-> CHOOSE r \in Replicas : TRUE]
  /\ last = [a |-> "Open"]
  /\ nPub = 0 /\ nStep = 0 /\ nFail = 0 /\ nRestart = 0 /\ nTamper = 0 /\ nEnv = 0 /\ nPause = 0 /\ nSub = 0 /\ nLead = 0 /\ nSnap = 0 /\ nInstall = 0

\* ---- table part
MCRead(n, c) ==
  /\ obs' = [a |-> "Read", out |-> ReadT(Abs(c, n))]
  /\ last' = [a |-> "Read", n |-> n, c |-> c]
  /\ UNCHANGED <<up, env, lead, hk, paused, log, menc, snap, budget>>

MCSeal(n) ==
  /\ obs' = [a |-> "Seal", s |-> SealT(n)]
  /\ last' = [a |-> "Seal", n |-> n]
  /\ UNCHANGED <<up, env, lead, hk, paused, log, menc, snap, budget>>

MCNew(m) ==
  /\ obs' = [a |-> "New", ok |-> NewT(m)]
  /\ last' = [a |-> "New", m |-> m]
  /\ UNCHANGED <<up, env, lead, hk, paused, log, menc, snap, budget>>

\* ---- pipeline part
Step == nStep < MaxSteps /\ last.a \notin {"Read", "Seal", "New"}
Tick == nStep' = nStep + 1

Batches == UNION {[1..k -> PubClasses] : k \in 1..MaxBatch}
Vals(b) == [i \in 1..Len(b) |-> [id |-> nPub + i, cls |-> b[i]]]

MCPublish(s, b, fails, how) ==
  /\ nPub + Len(b) <= MaxPub
  /\ fails \subseteq 1..Len(b)
  /\ fails # {} => (s = "enc" /\ nFail < MaxFailBatches)
  /\ how = "api" => Len(b) = 1
  /\ DoPublish(s, Vals(b), fails)
  /\ last' = [a |-> "Publish", s |-> s, vals |-> Vals(b), fails |-> fails, how |-> how]
  /\ nPub' = nPub + Len(b) /\ nFail' = (IF fails # {} THEN nFail + 1 ELSE nFail) /\ Tick
  /\ UNCHANGED <<nRestart, nTamper, nEnv, nPause, nSub, nLead, nSnap, nInstall>>

MCSubscribe(s, from, rev, at) ==
  /\ nSub < MaxSub
  /\ DoSubscribe(s, from, rev, at)
  /\ last' = [a |-> "Subscribe", s |-> s, from |-> from, rev |-> rev, at |-> at]
  /\ nSub' = nSub + 1 /\ Tick /\ UNCHANGED <<nPub, nFail, nRestart, nTamper, nEnv, nPause, nLead, nSnap, nInstall>>

MCPause(s) ==
  /\ nPause < MaxPause
  /\ DoPause(s)
  /\ last' = [a |-> "Pause", s |-> s]
  /\ nPause' = nPause + 1 /\ Tick /\ UNCHANGED <<nPub, nFail, nRestart, nTamper, nEnv, nSub, nLead, nSnap, nInstall>>

MCResume(s) ==
  /\ DoResume(s)
  /\ last' = [a |-> "Resume", s |-> s]
  /\ Tick /\ UNCHANGED <<nPub, nFail, nRestart, nTamper, nEnv, nPause, nSub, nLead, nSnap, nInstall>>

MCSetEnv(k) ==
  /\ nEnv < MaxEnv /\ k # env
  /\ DoSetEnv(k)
  /\ last' = [a |-> "SetEnv", k |-> k]
  /\ nEnv' = nEnv + 1 /\ Tick /\ UNCHANGED <<nPub, nFail, nRestart, nTamper, nPause, nSub, nLead, nSnap, nInstall>>

\* (the harness restarts a one-server cluster only)
MCRestart ==
  /\ nRestart < MaxRestart /\ Cardinality(Replicas) = 1
  /\ DoRestart
  /\ last' = [a |-> "Restart"]
  /\ nRestart' = nRestart + 1 /\ Tick /\ UNCHANGED <<nPub, nFail, nTamper, nEnv, nPause, nSub, nLead, nSnap, nInstall>>

MCTamper(r, j, reg) ==
  /\ nTamper < MaxTamper
  /\ log[r]["enc"][j].k # "none"
  /\ DoTamper(r, j)
  /\ last' = [a |-> "Tamper", r |-> r, j |-> j, reg |-> reg]
  /\ nTamper' = nTamper + 1 /\ Tick /\ UNCHANGED <<nPub, nFail, nRestart, nEnv, nPause, nSub, nLead, nSnap, nInstall>>

\* a snapshot is persisted by a server (one-server clusters: followed by a restart it decides how the
\* metadata is recovered)
MCSnapshot(r) ==
  /\ nSnap < MaxSnap
  /\ DoSnapshot(r)
  /\ last' = [a |-> "Snapshot", r |-> r]
  /\ nSnap' = nSnap + 1 /\ Tick /\ UNCHANGED <<nPub, nFail, nRestart, nTamper, nEnv, nPause, nSub, nLead, nInstall>>

MCInstall(r) ==
  /\ nInstall < MaxInstall
  /\ DoInstall(r)
  /\ last' = [a |-> "Install", r |-> r]
  /\ nInstall' = nInstall + 1 /\ Tick /\ UNCHANGED <<nPub, nFail, nRestart, nTamper, nEnv, nPause, nSub, nLead, nSnap>>

MCLeaderChange(s) ==
  /\ nLead < MaxLead
  /\ DoLeaderChange(s)
  /\ last' = [a |-> "LeaderChange", s |-> s]
  /\ nLead' = nLead + 1 /\ Tick /\ UNCHANGED <<nPub, nFail, nRestart, nTamper, nEnv, nPause, nSub, nSnap, nInstall>>

MCCreateProbe ==
  /\ last.a = "SetEnv"
  /\ DoCreateProbe
  /\ last' = [a |-> "CreateProbe"]
  /\ Tick /\ UNCHANGED <<nPub, nFail, nRestart, nTamper, nEnv, nPause, nSub, nLead, nSnap, nInstall>>

MCNext ==
  \/ (TableOn /\ last.a = "Open") /\ \E n \in Lens : \E c \in Cases(n) : MCRead(n, c)
  \/ (TableOn /\ last.a = "Open") /\ \E n \in Lens : MCSeal(n)
  \/ (TableOn /\ last.a = "Open") /\ \E m \in MKLens : MCNew(m)
  \/ (Step /\ up /\ nPub < MaxPub) /\ \E s \in Streams, b \in Batches, how \in Hows :
        \E fails \in SUBSET (1..Len(b)) : MCPublish(s, b, fails, how)
  \/ (Step /\ up) /\ \E s \in Streams : \E at \in Replicas : \E from \in 0..(Len(log[at][s]) - 1), rev \in BOOLEAN : MCSubscribe(s, from, rev, at)
  \/ (Step /\ up) /\ \E s \in Streams : MCPause(s)
  \/ (Step /\ up) /\ \E s \in Streams : MCResume(s)
  \/ Step /\ \E k \in Keys \cup {"bad"} : MCSetEnv(k)
  \/ Step /\ MCRestart
  \/ (Step /\ up) /\ \E r \in Replicas : \E j \in 1..Len(log[r]["enc"]) : \E reg \in TamperRegs : MCTamper(r, j, reg)
  \/ Step /\ MCCreateProbe
  \/ (Step /\ up) /\ \E s \in Streams : MCLeaderChange(s)
  \/ (Step /\ up) /\ \E r \in Replicas : MCSnapshot(r)
  \/ (Step /\ up) /\ \E r \in Replicas : MCInstall(r)

MCSpec == MCInit /\ [][MCNext]_mcvars

StepOK ==
  LET a == last' IN
  CASE a.a = "Read" -> P_Read(obs'.out, a.c)
    [] a.a = "Seal" -> P_Seal(obs'.s, a.n)
    [] a.a = "Publish" -> P_Publish(a.s, a.vals, a.fails)
    [] a.a = "Subscribe" -> P_Subscribe(a.s, a.from, a.rev, a.at)
    [] a.a = "Tamper" -> P_Tamper
    [] a.a \in {"Pause", "Resume", "SetEnv", "Restart", "CreateProbe", "LeaderChange", "Snapshot", "Install"} -> P_Quiet
    [] OTHER -> TRUE
StepsOK == [][StepOK]_mcvars

\* a subscriber is never handed anything but published values: ids of readable entries
C17_NoGarbage == obs.a = "Subscribe" => \A j \in 1..Len(obs.got) : obs.got[j] > 0

\* an injected seal failure leaves no trace in the log: every entry carries a value that was acknowledged
MCView == <<up, env, lead, hk, paused, log, menc, snap, obs, last, budget>>
=============================================================================
