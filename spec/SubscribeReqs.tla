--------------------------- MODULE SubscribeReqs ---------------------------
(* The request space of a subscription on a log whose offsets lie in       *)
(* 0..n-1 and whose message with offset o is stamped 10*(o+1):             *)
(* start OFFSET o for every o in -1..n+1 | EARLIEST | LATEST | NEW_ONLY |  *)
(* TIMESTAMP at / between / outside the message times, x stop ON_CANCEL |  *)
(* OFFSET 0..n+1 | LATEST | TIMESTAMP, x forward / reverse.                *)
(* Shared by the design check (MC_Subscribe) and by the generation of the  *)
(* cases replayed on the real server (Gen_Subscribe).                      *)
EXTENDS Integers

StampsFor(n) == {5 * i : i \in 1..(2 * n + 3)}

StartsFor(n) ==
       [start : {"OFFSET"}, so : -1..n + 1, stt : {0}]
  \cup [start : {"EARLIEST", "LATEST", "NEW_ONLY"}, so : {0}, stt : {0}]
  \cup [start : {"TIMESTAMP"}, so : {0}, stt : StampsFor(n)]

StopsFor(n) ==
       [stop : {"ON_CANCEL", "LATEST"}, po : {0}, pt : {0}]
  \cup [stop : {"OFFSET"}, po : 0..n + 1, pt : {0}]
  \cup [stop : {"TIMESTAMP"}, po : {0}, pt : StampsFor(n)]

ReqsFor(n) ==
  { [start |-> a.start, so |-> a.so, stt |-> a.stt, stop |-> b.stop, po |-> b.po, pt |-> b.pt, rev |-> r] :
      a \in StartsFor(n), b \in StopsFor(n), r \in BOOLEAN }
=============================================================================
