SPECIFICATION MCSpec
CONSTANTS
  Cap = 2
  SegCaps = {2}
  FixStale = TRUE
  MaxSets = 4
  MaxOps = 6
  MaxFails = 2
  MaxFaults = 2
  UseKeys = {"k1", "k2", "k3"}
  MaxHand = 0
  UseClients = {"c1"}
INVARIANTS TypeOK
PROPERTIES StepsOK
VIEW MCView
CHECK_DEADLOCK FALSE
