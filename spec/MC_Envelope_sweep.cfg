SPECIFICATION MCSpec
CONSTANTS
  Lens = {0}
  HLs = {0}
  BoundsChecked = TRUE
  MaxPub = 0
  PubLens = {8, 28}
  PubHLs = {8, 12, 255}
  MaxN = 0
  MaxInt = 1
  MaxShape = 0
  IntAnywhere = FALSE
  TableOn = FALSE
INVARIANTS TypeOK C14_ServerUp
PROPERTIES StepsOK
CHECK_DEADLOCK FALSE
