SPECIFICATION MCSpec
CONSTANTS
  F = {"b", "c"}
  MaxRec = 4
  MaxEp = 2
  FetchMax = 2
  WideEvery = 3
  SlowTimeouts = TRUE
  ZombieSteals = FALSE
  MaxTick = 2
  MaxSlow = 1
  MaxIdleT = 2
  MaxKill = 0
  TrackLast = TRUE

CHECK_DEADLOCK FALSE
