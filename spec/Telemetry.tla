------------------------------ MODULE Telemetry ------------------------------
(* C19 - telemetry can be switched off and never carries user data.         *)
(*                                                                          *)
(* A small configuration / life-cycle automaton (a decision table for the   *)
(* configuration routes plus the collector's life cycle), not a deep        *)
(* behavioural model.  Code: server/config.go (NewConfig,                   *)
(* parseTelemetryConfig), server/server.go (Start: collector created only   *)
(* when Config.Telemetry.Enabled; Stop), server/telemetry/telemetry.go      *)
(* (Start, run, sendTelemetry, collectPayload, Stop).                       *)
(*                                                                          *)
(* Routes by which an operator sets telemetry.enabled:                      *)
(*   file  the `telemetry.enabled` key of the YAML configuration file       *)
(*   env   the environment variable LIFTBRIDGE_TELEMETRY_ENABLED            *)
(*   prog  an embedding program assigns Config.Telemetry.Enabled after      *)
(*         NewConfig returned                                               *)
(* hasFile: the server is started with a configuration file at all.         *)
(*                                                                          *)
(* Two further dimensions of a run:                                         *)
(*   ival / ivalBy  the reporting interval (telemetry.interval.seconds):    *)
(*         "default" (not set anywhere: 24 h), "custom" (a positive value), *)
(*         "zero", "negative"; set through the file or programmatically    *)
(*         (a hand-built `TelemetryConfig{Enabled: false}` is prog = false  *)
(*         with ival = zero by prog).  The interval must never influence    *)
(*         WHETHER reports are sent.                                        *)
(*   idfile   state of <data dir>/.instance_id when the server starts: "ok"  *)
(*         (absent or readable: a random UUID is created / loaded) or       *)
(*         "unusable" (can be neither read nor written, e.g. it is a        *)
(*         directory): telemetry.New fails and the server runs WITHOUT a    *)
(*         collector - it must not report under some other identity.        *)
EXTENDS Integers, Sequences, FiniteSets

CONSTANTS EnvHonoured     \* TRUE: NewConfig as repaired (fix: commit); FALSE: as pinned (env ignored)

Tri == {"unset", "true", "false"}
(* The file and the environment carry TEXT.  Spellings the pinned code reads *)
(* as "on" (Go's strconv.ParseBool true values, which is what viper's       *)
(* GetBool accepts) and spellings an operator uses to say "off": the Go     *)
(* false values and the YAML / shell habits off, no ... which GetBool,      *)
(* failing to parse them, also turns into false.  Every "off" spelling must *)
(* switch telemetry off.                                                    *)
TrueSp == {"true", "TRUE", "1", "t"}
FalseSp == {"false", "FALSE", "False", "0", "f", "off", "no", "Off", "NO"}
Vals == {"unset"} \cup TrueSp \cup FalseSp
Ivals == {"default", "custom", "zero", "negative"}
(* entry: how the server is launched - "api": an embedding program calls    *)
(* NewConfig / server.New itself; "cli": the command line entry point       *)
(* (main.start through the cli.App: --config and the other flags).          *)
(* progAt: WHEN the embedding program assigns Config.Telemetry - before it   *)
(* calls server.New(cfg), or between server.New(cfg) and Start() (the       *)
(* Config is handed over by pointer; both are "programmatic config").       *)
(* other: what else stands in the configuration file next to telemetry.* -  *)
(* nothing, the activity stream switched on / off, a fuller configuration.  *)
(* Neither may influence whether reports are sent.                          *)
Others == {"none", "activityOn", "activityOff", "full"}
Routes == [file : Vals, env : Vals, prog : Tri, hasFile : BOOLEAN,
          ival : Ivals, ivalBy : {"file", "prog"}, idfile : {"ok", "unusable"}, entry : {"api", "cli"},
          progAt : {"before", "between"}, other : Others]
B(t) == t \in TrueSp

\* documented fields of a report (CHANGELOG "Anonymous Telemetry"): instance id,
\* version, OS information, CPU cores, total memory - pinned to the key paths of
\* TelemetryPayload; `timestamp` (time of the report) is accepted as report metadata
Whitelist == {"instance_id", "timestamp", "liftbridge_version",
              "os", "os.name", "os.version", "os.architecture", "os.platform",
              "cpu", "cpu.physical_cores", "cpu.logical_cores", "cpu.frequency_mhz",
              "memory", "memory.total_gb"}
PayloadKeys == Whitelist             \* collectPayload fills every field of the struct
HeaderWhitelist == {"Content-Type", "User-Agent", "Content-Length", "Accept-Encoding"}
SentHeaders == {"Content-Type", "User-Agent"}

-----------------------------------------------------------------------------
(* Documented precedence: the default is enabled; the file sets it; the     *)
(* environment variable overrides the file; a programmatic assignment is    *)
(* made last and wins.                                                      *)
FileValue(r) == IF r.hasFile /\ r.file # "unset" THEN B(r.file) ELSE TRUE
DocConfig(r) == IF r.env # "unset" THEN B(r.env) ELSE FileValue(r)
DocEnabled(r) == IF r.prog # "unset" THEN B(r.prog) ELSE DocConfig(r)

(* NewConfig as the code computes it.  Pinned code: viper has no key        *)
(* replacer, so LIFTBRIDGE_TELEMETRY_ENABLED never matches the key          *)
(* `telemetry.enabled`, and without a configuration file NewConfig returns  *)
(* the defaults before looking at the environment.                          *)
CodeConfig(r) == IF EnvHonoured THEN DocConfig(r) ELSE FileValue(r)

(* What the property statement demands: a route asks for "off" and no route *)
(* of higher precedence asks for "on" => no request, ever.                  *)
MustBeSilent(r) == ~DocEnabled(r)

(* An ENABLED collector with a non-positive interval is outside the         *)
(* property (and outside the runs): time.NewTicker panics on it in the      *)
(* pinned code.  A file cannot set the interval when there is no file.      *)
Feasible(r) ==
  /\ (r.ival \in {"zero", "negative"}) => ~DocEnabled(r)
  /\ (r.ivalBy = "file") => (r.hasFile /\ r.ival # "default")
  /\ (r.ival = "default") => r.ivalBy = "prog"
  /\ (r.progAt = "between") => (r.prog # "unset" /\ r.entry = "api")
  /\ (r.other # "none") => r.hasFile
  \* the command line has no telemetry flag: nothing is assigned programmatically
  /\ (r.entry = "cli") => (r.prog = "unset" /\ r.idfile = "ok" /\ (r.ival = "default" \/ r.ivalBy = "file"))

-----------------------------------------------------------------------------
VARIABLES route,      \* the configuration routes of this run
          phase,      \* "init" -> "loaded" -> "started" -> "stopped"
          enabled,    \* Config.Telemetry.Enabled
          collector,  \* Server.telemetry # nil
          running,    \* the collector goroutine exists
          userData,   \* streams / subjects / messages / credentials exist on the server
          sent,       \* number of HTTP requests made
          keys,       \* key paths of the body of the last request
          hdrs,       \* header names of the last request
          leaks,      \* classes of server strings found in any request (body, headers, URL)
          idsOK,      \* every request so far carried an instance_id of random-UUID (v4) shape
          aged        \* the collector has been up for a long time (more than a day)

vars == <<route, phase, enabled, collector, running, userData, sent, keys, hdrs, leaks, idsOK, aged>>

Init ==
  /\ route \in {r \in Routes : Feasible(r)}
  /\ phase = "init" /\ enabled = TRUE /\ collector = FALSE /\ running = FALSE
  /\ userData = FALSE /\ sent = 0 /\ keys = {} /\ hdrs = {} /\ leaks = {} /\ idsOK = TRUE /\ aged = FALSE

Request == /\ sent' = sent + 1 /\ keys' = PayloadKeys /\ hdrs' = SentHeaders /\ leaks' = leaks /\ idsOK' = idsOK
Silent  == UNCHANGED <<sent, keys, hdrs, leaks, idsOK>>

\* NewConfig(file) under the environment, then the embedding program's assignment
DoLoadConfig ==
  /\ phase = "init"
  /\ phase' = "loaded"
  /\ enabled' = IF route.prog # "unset" THEN B(route.prog) ELSE CodeConfig(route)
  /\ Silent /\ UNCHANGED <<route, collector, running, userData, aged>>

\* Server.Start: the collector is created only when enabled (the interval plays no part) and when
\* telemetry.New could load or create the instance id; it is started, and its goroutine sends the
\* initial beacon at once
DoStart ==
  /\ phase = "loaded"
  /\ phase' = "started"
  /\ collector' = (enabled /\ route.idfile = "ok") /\ running' = collector'
  /\ IF collector' THEN Request ELSE Silent
  /\ UNCHANGED <<route, enabled, userData, aged>>

\* streams are created, messages published, credentials configured
DoUserData ==
  /\ phase = "started"
  /\ userData' = TRUE
  /\ Silent /\ UNCHANGED <<route, phase, enabled, collector, running, aged>>

\* a long time passes (the server has been up for more than a day); what a report contains must not
\* depend on it
DoAge ==
  /\ phase = "started" /\ ~aged
  /\ aged' = TRUE
  /\ Silent /\ UNCHANGED <<route, phase, enabled, collector, running, userData>>

\* one reporting interval elapses
DoTick ==
  /\ phase \in {"started", "stopped"}
  /\ IF running THEN Request ELSE Silent
  /\ UNCHANGED <<route, phase, enabled, collector, running, userData, aged>>

\* Server.Stop: the collector's context is cancelled and its goroutine joined
DoStop ==
  /\ phase = "started"
  /\ phase' = "stopped" /\ running' = FALSE
  /\ Silent /\ UNCHANGED <<route, enabled, collector, userData, aged>>

Next == DoLoadConfig \/ DoStart \/ DoUserData \/ DoAge \/ DoTick \/ DoStop
Spec == Init /\ [][Next]_vars

-----------------------------------------------------------------------------
(* Property C19 *)
C19_Silent    == MustBeSilent(route) => sent = 0
\* "collector only created and started when enabled": a server that must be silent runs no collector
C19_NoCollector == MustBeSilent(route) => (~collector /\ ~running)
C19_Whitelist == keys \subseteq Whitelist /\ hdrs \subseteq HeaderWhitelist
C19_NoLeak    == leaks = {}
C19_InstanceId == idsOK      \* the instance id of a report is a random UUID, never a host / server string
\* route and count only move forward
C19_Step == [][route' = route /\ sent' >= sent]_vars

(* conformance only: the configured value is the documented one, a stopped  *)
(* collector stays silent                                                   *)
ConfigAsDocumented == phase # "init" => enabled = DocEnabled(route)

TypeOK ==
  /\ route \in Routes /\ phase \in {"init", "loaded", "started", "stopped"}
  /\ enabled \in BOOLEAN /\ collector \in BOOLEAN /\ running \in BOOLEAN /\ userData \in BOOLEAN
  /\ sent \in Nat /\ aged \in BOOLEAN
=============================================================================
