------------------------- MODULE Trace_Lifecycle -------------------------
(* Trace validation for Lifecycle.tla: every line of trace.ndjson is one    *)
(* step executed on the real one-node server with the state projected from  *)
(* the real objects after it.  P_* / X02_* failures are printed as FAIL "P" *)
(* (violation on real behaviour), Do* mismatches as FAIL "I" (drift).       *)
(* In behaviours with a real auto-pause timer the recorded clock fact mf[p] *)
(* says whether the timer of p can have fired by the end of the step; the   *)
(* partitions for which it can may be paused silently before or after the   *)
(* call (variants), and step predicates are applied only when none can.     *)
EXTENDS Lifecycle, Json

Trace == ndJsonDeserialize("trace.ndjson")

VARIABLES l
tvars == <<vars, l>>

B(q) == [p \in Parts |-> q[p + 1]]             \* JSON arrays: partition p is element p + 1
SetOf(q) == {q[i] : i \in DOMAIN q}
SubOf(e, s) == IF s \in DOMAIN e.st.subs
               THEN [p |-> e.st.subs[s].p, st |-> e.st.subs[s].st, got |-> e.st.subs[s].got] ELSE NoSub

Flag(e, k) == IF k \in DOMAIN e.args THEN e.args[k] ELSE FALSE
Fail(kind, e, name) == PrintT(<<"FAIL", kind, e.t, l, e.a, name>>)
Chk(ok, kind, e, name) == IF ok THEN TRUE ELSE Fail(kind, e, name)

\* --- the model's result of the recorded call on the state S0
PhaseAfter(g) == CASE g = "checked" -> "B1" [] g = "applied" -> "B2" [] g = "resumed" -> "C"

ModelRes(S0, e) ==
  CASE e.a = "Publish" -> (IF e.args.path = "subject" THEN SubjectRun(S0, e.args.p, e.args.m)
                           ELSE PubRun(S0, "A", e.args.p, e.args.m, {}, ""))
    [] e.a = "PubStart" -> PubRun(S0, "A", e.args.p, e.args.m, {}, e.args.gate)
    [] e.a = "PubEnd" -> (IF pend.on /\ pend.kind = "pub" THEN PubRun(S0, pend.ph, pend.p, pend.m, pend.R, "")
                          ELSE [s |-> S0, res |-> "nopending"])
    [] e.a = "Sub" -> SubRun(S0, e.args.s, e.args.p, Flag(e, "resume"), FALSE)
    [] e.a = "SubStart" -> SubRun(S0, e.args.s, e.args.p, TRUE, TRUE)
    [] e.a = "SubEnd" -> (IF pend.on /\ pend.kind = "sub" THEN SubB(S0, pend.s, pend.p) ELSE [s |-> S0, res |-> "nopending"])
    [] e.a = "Unsub" -> [s |-> [S0 EXCEPT !.subs[e.args.s] = NoSub], res |-> "ok"]
    [] e.a = "Pause" -> PauseFn(S0, SetOf(e.args.ps), e.args.ra)
    [] e.a = "Readonly" -> ReadonlyFn(S0, SetOf(e.args.ps), e.args.b)
    [] e.a = "Delete" -> DeleteFn(S0)
    [] e.a = "Create" -> CreateFn(S0)
    [] e.a = "Idle" -> [s |-> AutoPausedSet(S0, Eligible(S0)), res |-> "ok"]
    [] e.a = "Restart" -> RestartFn(S0, Flag(e, "snap"))
    [] e.a = "Wait" -> [s |-> S0, res |-> "ok"]
    [] OTHER -> [s |-> S0, res |-> e.obs.res]       \* "Stop" / "Cleanup": the end of the run (recorded only when it fails)

\* --- silent auto pauses
MayFire(e) == {p \in Parts : cfg.auto /\ e.st.mf[p + 1]}
\* (a pause proposed by a timer can also land after its partition was paused by somebody else: PausePartitions
\* then only clears the stream's ResumeAll flag)
LateLanding(S) == [S EXCEPT !.resumeAll = FALSE, !.lastRA = FALSE]
Variants(S, F) == {AutoPausedSet(S, Q \cap Eligible(S)) : Q \in SUBSET F}
                  \cup (IF F # {} /\ S.exists THEN {LateLanding(AutoPausedSet(S, Q \cap Eligible(S))) : Q \in SUBSET F} ELSE {})

RecSubs(e) == [s \in SubIds |-> SubOf(e, s)]
Match(S, e) == /\ S.exists = e.st.exists /\ S.paused = B(e.st.paused) /\ S.ro = B(e.st.ro)
               /\ S.leading = B(e.st.leading) /\ S.resumeAll = e.st.ra /\ S.log = B(e.st.log)
               /\ S.subs = RecSubs(e)

\* a silent auto pause in the middle of a publish over the API (after the resume decision, before the message
\* reaches the leader loop): the publish parked at the gate "resumed", the timers, the rest of the publish
Mid(S0, e) ==
  IF e.a = "Publish" /\ e.args.path # "subject" /\ MayFire(e) # {}
  THEN LET a == PubRun(S0, "A", e.args.p, e.args.m, {}, "resumed") IN
       IF a.res = "parked" THEN {PubRun(S, "C", e.args.p, e.args.m, {}, "") : S \in Variants(a.s, MayFire(e))} ELSE {}
  ELSE {}

\* outcomes of the call: on a variant of the state before (timers fired before the call), possibly with timers
\* firing in the middle; Fits = variants of an outcome's state (timers fired after the call) that match the record
Outs(e) == UNION { {ModelRes(S0, e)} \cup Mid(S0, e) : S0 \in Variants(Cur, MayFire(e)) }
Fits(e) == {S1 \in UNION { Variants(o.s, MayFire(e)) : o \in {x \in Outs(e) : x.res = e.obs.res} } : Match(S1, e)}

Ghost(e) == IF Fits(e) # {} THEN CHOOSE S1 \in Fits(e) : TRUE ELSE ModelRes(Cur, e).s

IsPub(e) == e.a \in {"Publish", "PubStart", "PubEnd"} /\ "m" \in DOMAIN e.args
AckedNext(e) == IF IsPub(e) /\ e.obs.res = "ok" THEN acked \cup {<<e.args.p, e.args.m>>}
                ELSE IF e.a = "Delete" /\ e.obs.res = "ok" THEN {} ELSE acked
RefusedNext(e) == IF IsPub(e) /\ e.obs.res \in {"readonly", "notfound"} THEN refused \cup {e.args.m} ELSE refused

PendNext(e) ==
  CASE e.a = "PubStart" ->
         (IF e.obs.res = "parked"
          THEN LET a == ModelRes(Cur, e) IN
               [on |-> TRUE, kind |-> "pub", p |-> e.args.p, m |-> e.args.m, s |-> "", ph |-> PhaseAfter(e.args.gate),
                R |-> IF a.res = "parked" THEN a.R ELSE {}]
          ELSE NoPend)
    [] e.a = "SubStart" ->
         (IF e.obs.res = "parked"
          THEN [on |-> TRUE, kind |-> "sub", p |-> e.args.p, m |-> 0, s |-> e.args.s, ph |-> "SB", R |-> {}]
          ELSE NoPend)
    [] e.a \in {"PubEnd", "SubEnd"} -> NoPend
    [] OTHER -> pend

PropOf(e) ==
  CASE e.a = "Publish" -> P_Publish(e.args.p, e.args.path, e.args.m)
    [] e.a = "PubStart" -> P_PubStart(e.args.p, e.args.gate, e.args.m)
    [] e.a = "PubEnd" -> pend.on /\ pend.kind = "pub" /\ P_PubEnd
    [] e.a = "Sub" -> P_Sub(e.args.s, e.args.p, Flag(e, "resume"))
    [] e.a = "SubEnd" -> pend.on /\ pend.kind = "sub" /\ P_SubEnd
    [] e.a = "Unsub" -> P_Unsub
    [] e.a = "Pause" -> P_Pause(SetOf(e.args.ps), e.args.ra)
    [] e.a = "Readonly" -> P_Readonly(SetOf(e.args.ps), e.args.b)
    [] e.a = "Delete" -> P_Delete
    [] e.a = "Create" -> P_Create
    [] e.a = "Idle" -> P_Idle
    [] e.a = "Restart" -> P_Restart
    [] e.a = "Wait" -> P_Wait
    [] OTHER -> TRUE

\* no timer can have fired silently around this call
Calm(e) == \A p \in MayFire(e) : p \notin Eligible(Cur) /\ p \notin Eligible(Cur')

\* facts that are recorded but are not variables of the specification
ProtoAgrees(e) == B(e.st.ppaused) = paused' /\ B(e.st.pro) = ro'
NoResurrection(e) == ~exists' => ~e.st.dir
LoopsAgree(e) == \A p \in Parts : /\ e.st.nsub[p + 1] = leading'[p]
                                  /\ e.st.subc[p + 1] = SubCount(Cur', p)
PausedNoNats(e) == \A p \in Parts : paused'[p] => ~e.st.nsub[p + 1]
SubsSettled(e) == \A s \in SubIds : SubOf(e, s).st \in {"", "wait", "paused", "readonly", "deleted"}

Bind(e) ==
  /\ exists' = e.st.exists /\ paused' = B(e.st.paused) /\ ro' = B(e.st.ro) /\ leading' = B(e.st.leading)
  /\ resumeAll' = e.st.ra /\ log' = B(e.st.log) /\ subs' = RecSubs(e)
  /\ obs' = [a |-> e.a, res |-> e.obs.res]

OpenOK == /\ exists' /\ paused' = AllF /\ ro' = AllF /\ leading' = [q \in Parts |-> TRUE] /\ ~resumeAll'
          /\ log' = [q \in Parts |-> <<>>] /\ subs' = [s \in SubIds |-> NoSub]

TraceInit ==
  LET e == Trace[1] IN
  /\ e.a = "Open"
  /\ cfg = [auto |-> e.cfg.auto, dis |-> e.cfg.dis]
  /\ exists = e.st.exists /\ paused = B(e.st.paused) /\ ro = B(e.st.ro) /\ leading = B(e.st.leading)
  /\ resumeAll = e.st.ra /\ log = B(e.st.log) /\ subs = RecSubs(e)
  /\ obs = [a |-> "Open", res |-> "ok"]
  /\ lastRA = FALSE /\ acked = {} /\ refused = {} /\ pend = NoPend
  /\ l = 2

TraceNext ==
  /\ Trace[l].a # "End"
  /\ l' = l + 1
  /\ LET e == Trace[l] IN
     /\ Bind(e)
     /\ IF e.a = "Open"
        THEN /\ cfg' = [auto |-> e.cfg.auto, dis |-> e.cfg.dis]
             /\ lastRA' = FALSE /\ acked' = {} /\ refused' = {} /\ pend' = NoPend
             /\ Chk(OpenOK, "I", e, "InitWith")
        ELSE /\ cfg' = cfg
             /\ lastRA' = Ghost(e).lastRA /\ acked' = AckedNext(e) /\ refused' = RefusedNext(e) /\ pend' = PendNext(e)
             /\ Chk(e.obs.res \in {"panic", "hang"} \/ Fits(e) # {}, "I", e, "step")
             /\ Chk(e.st.logerr = "", "P", e, "X02_LogReadable")
             /\ Chk((Calm(e) /\ e.obs.res \notin {"panic", "hang"}) => PropOf(e), "P", e, "step")
             /\ Chk((e.a = "Restart" /\ Calm(e)) => P_RestartResumeAll, "P", e, "P_RestartResumeAll")
             /\ Chk(LoopsAgree(e), "I", e, "LoopsAgree")
     /\ Chk(X02_AckedStored', "P", e, "X02_AckedStored")
     /\ Chk(X02_PausedQuiet', "P", e, "X02_PausedQuiet")
     /\ Chk(PausedNoNats(e), "P", e, "X02_PausedQuiet_nats")
     /\ Chk(X02_ActiveServed', "P", e, "X02_ActiveServed")
     /\ Chk(X02_DeletedGone', "P", e, "X02_DeletedGone")
     /\ Chk(NoResurrection(e), "P", e, "X02_NoResurrection")
     /\ Chk(X02_SubsSeeLog', "P", e, "X02_SubsSeeLog")
     /\ Chk(SubsSettled(e), "P", e, "X02_SubsSettled")
     /\ Chk(X02_NoCrash', "P", e, "X02_NoCrash")
     /\ Chk(ProtoAgrees(e), "P", e, "X02_ProtoAgrees")
     /\ Chk(TypeOK', "I", e, "TypeOK")

TraceSpec == TraceInit /\ [][TraceNext]_tvars

Done == PrintT(<<"DONE", TLCGet("stats").diameter, Len(Trace)>>)
=============================================================================
