SPECIFICATION MCSpec
CONSTANTS
  MaxRecs = 11
  MaxBatch = 2
  MaxOps = 20
  MaxEpoch = 2
  CapSet = {1, 2, 3}
  KeySet = {"nil", "empty", "a", "b"}
  AgeSet = {0}
  MsgsSet = {0, 3, 5}
  BytesSet = {0, 4}
  CompactSet = {TRUE}
  LagSet = {0}
  BigSet = {FALSE, TRUE}
  MaxCleans = 3
  MaxTicks = 0
  UseWindow = TRUE
  UseReopen = TRUE
  UseEpochs = TRUE
  OccSet = {FALSE, TRUE}
  MinCleanSegs = 1
  UseRevReaders = TRUE
  UseFaults = FALSE
  UseReaders = TRUE
CHECK_DEADLOCK FALSE
