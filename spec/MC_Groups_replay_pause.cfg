SPECIFICATION MCSpec
CONSTANTS
  Servers = {"A", "B"}
  ConsumerSet = {"c1", "c2"}
  StreamSet = {"sa", "sb"}
  MaxParts = 2
  MaxOps = 3
  MaxDeletes = 1
  Coords = {"A"}
  MaxRestores = 1
  MaxPauseOps = 2
  Shapes = {"plain"}
  GetDs = {}
VIEW MCView
CHECK_DEADLOCK FALSE
