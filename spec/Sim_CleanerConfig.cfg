SPECIFICATION MCSpec
CONSTANTS
  Vals = {0, 3, 7}
  MaxOps = 12
CHECK_DEADLOCK FALSE
