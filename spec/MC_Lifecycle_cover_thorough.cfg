\* transition cover instance: every transition of two calls deep
SPECIFICATION MCSpec
CONSTANTS
  Parts = {0, 1}
  SubIds = {"s1"}
  NilFix = TRUE
  MaxOps = 3
  MaxMsgs = 2
  Paths <- AllPaths
  Gates <- AllGates
  Cfgs <- NoAuto
  SubsetsOf <- PartSets
INVARIANTS TypeOK
VIEW MCView
CHECK_DEADLOCK FALSE
