-------------------------- MODULE Trace_Encryption --------------------------
(* Trace validation for Encryption.tla.  Lines of trace.ndjson:             *)
(*   Open      start of a behaviour (pipeline state reset to e.st)          *)
(*   Codec     one value (n bytes) sealed by the real codec and every case  *)
(*             of Cases(n) concretised for every byte position and read by  *)
(*             the real codec: recs = (case, number of byte strings,        *)
(*             distinct outcomes)                                           *)
(*   Keys      NewLocalEncryptionHandler under master keys of given lengths *)
(*   Publish / Subscribe / Pause / Resume / SetEnv / Restart / Tamper /     *)
(*   CreateProbe / LeaderChange / Snapshot / Install: a step on a running   *)
(*             cluster (one or two                                           *)
(*             servers) with the projected state after                      *)
(*             it (raw partition logs read back and decoded independently)  *)
(* FAIL "P": the property is violated on real behaviour; FAIL "I": the real *)
(* code differs from the transcription (drift); FAIL "C": the harness did   *)
(* not execute what the specification enumerates.                           *)
EXTENDS Encryption, TLC, Json

Trace == ndJsonDeserialize("trace.ndjson")

VARIABLES l
tvars == <<vars, l>>

Fail(kind, e, name, j) == PrintT(<<"FAIL", kind, e.t, l, e.a, name, j>>)
Chk(ok, kind, e, name, j) == IF ok THEN TRUE ELSE Fail(kind, e, name, j)

\* ---- codec table
OutOf(o) == [k |-> o.k, why |-> o.why]
RecP(r) == \A x \in 1..Len(r.outs) : P_Read(OutOf(r.outs[x]), r.c)
RecNoCrash(r) == \A x \in 1..Len(r.outs) : r.outs[x].k # "Crash"
Sum(outs) == LET F[i \in 0..Len(outs)] == IF i = 0 THEN 0 ELSE F[i - 1] + outs[i].cnt IN F[Len(outs)]
StripO(o) == [k |-> o.k, why |-> IF o.k = "Crash" THEN "" ELSE o.why]
RecI(r, n) ==
  LET exp == StripO(ReadT(Abs(r.c, n))) IN
  /\ \A x \in 1..Len(r.outs) : OutOf(r.outs[x]) = exp
  /\ r.npos > 0 => Len(r.outs) = 1
\* every position of the region was executed (times the number of key alterations for key case 3)
RecC(r, n, mk) ==
  /\ Sum(r.outs) = r.npos
  /\ r.npos = (IF r.c.cor = "none" /\ r.c.key = "other" /\ r.c.q = 3 THEN mk * Cardinality(Masks) ELSE Positions(r.c, n))

Complete(e) ==
  e.partial \/ {CaseKey(e.recs[j].c) : j \in 1..Len(e.recs)} = {CaseKey(c) : c \in Cases(e.n)}

JudgeCodec(e) ==
  /\ Chk(P_Seal(e.seal, e.n), "P", e, IF e.seal.k = "Crash" THEN "C17_NoCrash" ELSE "C17_SealHides", 0)
  \* a value of 1..15 bytes may occur in the stored bytes by chance: not compared
  /\ Chk([e.seal EXCEPT !.contains = IF e.n \in 1..15 THEN FALSE ELSE @] = SealT(e.n), "I", e, "Seal", 0)
  /\ Chk(Complete(e), "C", e, "complete", 0)
  /\ \A j \in 1..Len(e.recs) :
       LET r == e.recs[j] IN
       /\ Chk(RecC(r, e.n, e.mk), "C", e, "positions", j)
       /\ Chk(RecNoCrash(r), "P", e, "C17_NoCrash", j)
       /\ Chk(RecNoCrash(r) => RecP(r), "P", e, "C17_Read", j)
       /\ Chk(RecI(r, e.n), "I", e, "Read", j)

JudgeKeys(e) ==
  \A j \in 1..Len(e.recs) :
    LET r == e.recs[j] IN
    /\ Chk(r.k # "Crash", "P", e, "C17_NoCrash", j)
    /\ Chk((r.k = "Ok") = NewT(r.m), "I", e, "New", j)

\* ---- running server
BindSrv(e) ==
  /\ up' = e.st.up /\ env' = e.st.env /\ lead' = e.st.lead /\ hk' = e.st.hk /\ paused' = e.st.paused /\ log' = e.st.log
  /\ menc' = e.st.menc /\ snap' = e.st.snap

ToSet(s) == {s[i] : i \in 1..Len(s)}

Always(e) ==
  /\ Chk(up', "P", e, "C17_ServerUp", 0)
  /\ Chk(C17_NoPlaintext', "P", e, "C17_NoPlaintext", 0)

\* the first line is an Open line: it is consumed here
TraceInit ==
  LET e == Trace[1] IN
  /\ l = 2 /\ obs = [a |-> "Open"]
  /\ IF "st" \in DOMAIN e
     THEN /\ up = e.st.up /\ env = e.st.env /\ lead = e.st.lead /\ hk = e.st.hk /\ paused = e.st.paused /\ log = e.st.log
          /\ menc = e.st.menc /\ snap = e.st.snap
     ELSE /\ up = TRUE /\ env = "k1" /\ lead = [s \in Streams |-> CHOOSE r \in Replicas : TRUE]
          /\ hk = [r \in Replicas |-> [s \in Streams |-> IF s = "enc" THEN "k1" ELSE "none"]]
          /\ paused = [s \in Streams |-> FALSE] /\ log = [r \in Replicas |-> [s \in Streams |-> <<>>]]
          /\ menc = [r \in Replicas |-> [s \in Streams |-> s = "enc"]] /\ snap = [r \in Replicas |-> [s \in Streams |-> "none"]]

TraceNext ==
  /\ Trace[l].a # "End"
  /\ l' = l + 1
  /\ LET e == Trace[l] IN
     CASE e.a = "Open" /\ "st" \in DOMAIN e -> BindSrv(e) /\ obs' = [a |-> "Open"]
       [] e.a = "Open" -> UNCHANGED vars
       [] e.a = "Codec" -> JudgeCodec(e) /\ UNCHANGED vars
       [] e.a = "Keys" -> JudgeKeys(e) /\ UNCHANGED vars
       [] e.a = "Publish" ->
            /\ BindSrv(e) /\ obs' = [a |-> "Publish", acks |-> e.obs.acks]
            /\ Always(e)
            /\ Chk(up' => P_Publish(e.args.s, e.args.vals, ToSet(e.args.fails)), "P", e, "C17_Publish", 0)
            /\ Chk(DoPublish(e.args.s, e.args.vals, ToSet(e.args.fails)), "I", e, "Publish", 0)
       [] e.a = "Subscribe" ->
            /\ BindSrv(e) /\ obs' = [a |-> "Subscribe", got |-> e.obs.got, end |-> e.obs.end]
            /\ Always(e)
            /\ Chk(up' => P_Subscribe(e.args.s, e.args.from, e.args.rev, e.args.at), "P", e, "C17_Subscribe", 0)
            /\ Chk(DoSubscribe(e.args.s, e.args.from, e.args.rev, e.args.at), "I", e, "Subscribe", 0)
       [] e.a = "Tamper" ->
            /\ BindSrv(e) /\ obs' = [a |-> "Tamper"]
            /\ Always(e)
            /\ Chk(up' => P_Tamper, "P", e, "C17_Quiet", 0)
            /\ Chk(DoTamper(e.args.r, e.args.j), "I", e, "Tamper", 0)
       [] e.a \in {"Pause", "Resume", "SetEnv", "Restart", "CreateProbe", "LeaderChange", "Snapshot", "Install"} ->
            /\ BindSrv(e)
            /\ obs' = (IF e.a = "CreateProbe" THEN [a |-> e.a, ok |-> e.obs.ok] ELSE [a |-> e.a])
            /\ Always(e)
            /\ Chk(up' => P_Quiet, "P", e, "C17_Quiet", 0)
            /\ Chk(CASE e.a = "Pause" -> DoPause(e.args.s)
                     [] e.a = "Resume" -> DoResume(e.args.s)
                     [] e.a = "SetEnv" -> DoSetEnv(e.args.k)
                     [] e.a = "Restart" -> DoRestart
                     [] e.a = "LeaderChange" -> DoLeaderChange(e.args.s)
                     [] e.a = "Snapshot" -> DoSnapshot(e.args.r)
                     [] e.a = "Install" -> DoInstall(e.args.r)
                     [] OTHER -> DoCreateProbe, "I", e, e.a, 0)
       [] OTHER -> Fail("C", e, "unknown-line", 0) /\ UNCHANGED vars

TraceSpec == TraceInit /\ [][TraceNext]_tvars

Done == PrintT(<<"DONE", TLCGet("stats").diameter, Len(Trace)>>)
=============================================================================
