SPECIFICATION TraceSpec
CONSTANTS
  Servers = {"A", "B"}
POSTCONDITION Done
CHECK_DEADLOCK FALSE
