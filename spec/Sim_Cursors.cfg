SPECIFICATION MCSpec
CONSTANTS
  Cap = 2
  SegCap = 2
  FixStale = TRUE
  MaxSets = 9
  MaxOps = 16
  MaxFails = 3
  MaxFaults = 4
  UseKeys = {"k1", "k2", "k3"}
  UseClients = {"c1", "c2"}
CHECK_DEADLOCK FALSE
