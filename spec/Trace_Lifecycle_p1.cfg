SPECIFICATION TraceSpec
CONSTANTS
  Parts = {0}
  SubIds = {"s1", "s2"}
  NilFix = TRUE
POSTCONDITION Done
CHECK_DEADLOCK FALSE
