--------------------------- MODULE Trace_Envelope ---------------------------
(* Trace validation for Envelope.tla.  Lines of trace.ndjson:               *)
(*   Open       start of a behaviour (server state reset)                   *)
(*   Table      one row group of the decision table executed on the real    *)
(*              decoders: key = abstract input without hl, recs = one       *)
(*              record per (hl, pbOK, filling) with the DISTINCT outcomes   *)
(*              the decoders produced                                       *)
(*   RoundTrip  marshalled messages decoded again                           *)
(*   Nats       natsToProtoMessage on the same table (package server)       *)
(*   Subject    bytes published to one of the server's NATS subjects       *)
(*   Inventory  the live subscription list / the source's call sites        *)
(*   PublishRaw a raw NATS publish to a running server, with the stream's   *)
(*              log after it                                                *)
(* P-level failures are printed as FAIL "P" (violations of the property on  *)
(* real behaviour), differences from the transcription as FAIL "I" (drift), *)
(* harness incompleteness as FAIL "C".                                      *)
EXTENDS Envelope, TLC, Json

Trace == ndJsonDeserialize("trace.ndjson")

VARIABLES l
tvars == <<vars, l>>

In(key, hl) == [len |-> key.len, magicOK |-> key.magicOK, verOK |-> key.verOK, hl |-> hl,
                crcFlag |-> key.crcFlag, otherFlags |-> key.otherFlags, typeOK |-> key.typeOK,
                crcOK |-> key.crcOK]

Fail(kind, e, name, j) == PrintT(<<"FAIL", kind, e.t, l, e.a, name, j>>)
Chk(ok, kind, e, name, j) == IF ok THEN TRUE ELSE Fail(kind, e, name, j)

\* ---- decision table, package protocol
RecP(r, i) ==
  /\ \A x \in 1..Len(r.pb) : P_CheckEnvelope(r.pb[x].ce, i) /\ P_Unmarshal(r.pb[x].um, "pb", i, r.pbOK)
  /\ \A x \in 1..Len(r.repl) : P_CheckEnvelope(r.repl[x].ce, i) /\ P_Unmarshal(r.repl[x].um, "repl", i, TRUE)
RecNoCrash(r) ==
  /\ \A x \in 1..Len(r.pb) : r.pb[x].ce.k # "Crash" /\ r.pb[x].um.k # "Crash"
  /\ \A x \in 1..Len(r.repl) : r.repl[x].ce.k # "Crash" /\ r.repl[x].um.k # "Crash"
Strip(c) == [k |-> c.k, why |-> IF c.k = "Crash" THEN "" ELSE c.why, off |-> c.off, n |-> c.n]
StripU(u) == [k |-> u.k, why |-> IF u.k = "Crash" THEN "" ELSE u.why, same |-> u.same]
RecI(r, i) ==
  /\ Len(r.pb) = 1 /\ r.npb = 14
  /\ Strip(r.pb[1].ce) = Strip(CheckEnvelope(i)) /\ StripU(r.pb[1].um) = StripU(Unmarshal("pb", i, r.pbOK))
  /\ r.pbOK => /\ Len(r.repl) = 1 /\ r.nrepl = 1
               /\ Strip(r.repl[1].ce) = Strip(CheckEnvelope(i))
               /\ StripU(r.repl[1].um) = StripU(Unmarshal("repl", i, TRUE))
  /\ ~r.pbOK => r.repl = <<>>

\* ---- decision table, natsToProtoMessage
NatsP(r, i) == \A x \in 1..Len(r.st) : P_Store(r.st[x], i, r.pbOK)
NatsI(r, i) == Len(r.st) = 1 /\ r.st[1] = Store(i, r.pbOK)

\* every feasible (hl, pbOK) of the row group was executed
Complete(e) ==
  e.partial \/
  {<<e.recs[j].hl, e.recs[j].pbOK>> : j \in 1..Len(e.recs)} =
     {hb \in HLs \X BOOLEAN : PbFeasible(In(e.key, hb[1]), hb[2])}

JudgeTable(e) ==
  /\ Chk(e.key.len \in Lens, "C", e, "len-domain", 0)
  /\ Chk(Complete(e), "C", e, "complete", 0)
  /\ \A j \in 1..Len(e.recs) :
       LET r == e.recs[j]  i == In(e.key, r.hl) IN
       IF e.level = "protocol"
       THEN /\ Chk(RecNoCrash(r), "P", e, "C14_NoCrash", j)
            /\ Chk(RecNoCrash(r) => RecP(r, i), "P", e, "C14_Decode", j)
            /\ Chk(RecI(r, i), "I", e, "Decode", j)
       ELSE /\ Chk(\A x \in 1..Len(r.st) : r.st[x].k # "Crash", "P", e, "C14_NoCrash", j)
            /\ Chk((\A x \in 1..Len(r.st) : r.st[x].k # "Crash") => NatsP(r, i), "P", e, "C14_Store", j)
            /\ Chk(NatsI(r, i), "I", e, "Store", j)

\* ---- round trips
JudgeRT(e) ==
  \A j \in 1..Len(e.recs) :
    LET r == e.recs[j] IN
    /\ Chk(r.k # "Crash", "P", e, "C14_NoCrash", j)
    /\ Chk(r.k = "Ok" /\ r.same, "P", e, "C14_RoundTrip", j)
    /\ Chk(r.k = "Ok" => r.i = Encoded(r.n, r.i.crcOK), "I", e, "Encoded", j)

\* ---- running server
BindSrv(e) == up' = e.st.up /\ stored' = e.st.stored /\ obs' = e.obs

TraceInit == Init /\ l = 2

TraceNext ==
  /\ Trace[l].a # "End"
  /\ l' = l + 1
  /\ LET e == Trace[l] IN
     CASE e.a = "Open" -> up' = TRUE /\ stored' = <<>> /\ obs' = [a |-> "Open"]
       [] e.a = "Table" -> JudgeTable(e) /\ UNCHANGED vars
       [] e.a = "RoundTrip" -> JudgeRT(e) /\ UNCHANGED vars
       [] e.a = "PublishRaw" ->
            /\ BindSrv(e)
            /\ Chk(up', "P", e, "C14_ServerUp", 0)
            /\ Chk(up' => P_PublishRaw(e.args.i, e.args.pbOK, e.args.id), "P", e, "C14_PublishRaw", 0)
            /\ Chk(DoPublishRaw(e.args.i, e.args.pbOK, e.args.id), "I", e, "PublishRaw", 0)
       [] e.a = "ReadBack" ->
            /\ BindSrv(e)
            /\ Chk(up', "P", e, "C14_ServerUp", 0)
            /\ Chk(up' => P_ReadBack, "P", e, "C14_ReadBack", 0)
            /\ Chk(DoReadBack, "I", e, "ReadBack", 0)
       [] e.a = "Internal" ->
            /\ BindSrv(e)
            /\ Chk(up', "P", e, "C14_ServerUp", 0)
            /\ Chk(up' => P_Internal, "P", e, "C14_Internal", 0)
            /\ Chk(DoInternal(e.args.h, e.args.i, e.args.pbOK, e.args.shape), "I", e, "Internal", 0)
       [] e.a = "Subject" ->
            /\ BindSrv(e)
            /\ Chk(up', "P", e, "C14_ServerUp", 0)
            /\ Chk(up' => P_Subject(e.args.h, e.args.i, e.args.pbOK), "P", e, "C14_Subject", 0)
            /\ Chk(SubjectConforms(e.args.h, e.args.i, e.args.pbOK, e.args.ent), "I", e, "Subject", 0)
       [] e.a = "Inventory" ->
            \* the subscriptions of the live server (embedded NATS server's list) and the subscribe / request
            \* call sites of the source against the inventory of the specification
            /\ Chk({e.subs[j] : j \in 1..Len(e.subs)} = LivePatterns, "I", e, "LiveSubjects", 0)
            /\ Chk({e.sites[j] : j \in 1..Len(e.sites)} = SourceSites, "I", e, "SourceSites", 0)
            /\ UNCHANGED vars
       [] OTHER -> Fail("C", e, "unknown-line", 0) /\ UNCHANGED vars

TraceSpec == TraceInit /\ [][TraceNext]_tvars

Done == PrintT(<<"DONE", TLCGet("stats").diameter, Len(Trace)>>)
=============================================================================
