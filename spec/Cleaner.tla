----------------------------- MODULE Cleaner -----------------------------
(***************************************************************************)
(* Log cleaning of one partition commit log (server/commitlog):            *)
(* retention (delete_cleaner.go), compaction (compact_cleaner.go) and      *)
(* commitLog.Clean()/rebaseSegments (commitlog.go), on top of the commit   *)
(* log of CommitLog.tla (same variables, same records, same segment        *)
(* layout: segs = <<[base, bytes]>>, the records of segment k are those    *)
(* with base_k <= off < base_{k+1}; its message count, byte size and       *)
(* last-write time are derived from them exactly as the code derives them  *)
(* from the index: count = number of index entries, bytes = Position(),    *)
(* lastWriteTime = timestamp of the last entry).                           *)
(*                                                                         *)
(* Additional state                                                        *)
(*   cc   = [age, msgs, bytes, compact, workers]  cleaner options (0=off)  *)
(*   now  = the clock read by computeTTL (cut-off = now - age)             *)
(*   pend = the clean that is between its snapshot of the segment list     *)
(*          and the swap: [on, log, segs, hw, now] (the snapshot)          *)
(*                                                                         *)
(* Clean() is two steps: DoCleanBegin (l.mu.RLock: snapshot; then          *)
(* retention and compaction run on the snapshot with the HW read at that   *)
(* moment) and DoCleanEnd (l.mu.Lock: segments appended meanwhile are      *)
(* rebased onto the cleaned list, the epoch cache is replaced/trimmed).    *)
(* Appends (and rolls), HW moves, new leader epochs and clock ticks may    *)
(* happen in between.  DoClean is the two steps back to back.              *)
(*                                                                         *)
(* As everywhere: Do<A> = the action exactly as the code performs it       *)
(* (conformance), P_<A> = what properties C08 / C09 demand (verdict).      *)
(***************************************************************************)
EXTENDS CommitLog

VARIABLES cc, now, pend, rr
cvars == <<vars, cc, now, pend, rr>>

NoPend == [on |-> FALSE, log |-> <<>>, segs |-> <<>>, hw |-> -1, now |-> 0]

\* persistent reverse readers (ReverseReader): next = offset to deliver next (start,
\* then last delivered - 1), floor = segment objects of the segment list the reader
\* took when it was created with a base below it have been closed by a clean since
\* (replaced, removed or deleted), dlow = lowest offset of a record those closed
\* objects held (NoDead if none): the reader touches a closed object - and fails -
\* only when it still has such a record to go to
RevReaders == {"v1", "v2"}
NoDead == 1000000
NoRev == [alive |-> FALSE, next |-> -1, floor |-> -1, dlow |-> NoDead]

SetMax(S) == CHOOSE x \in S : \A y \in S : y <= x
SetMin(S) == CHOOSE x \in S : \A y \in S : x <= y

HasLimits(c) == c.age > 0 \/ c.msgs > 0 \/ c.bytes > 0

-----------------------------------------------------------------------------
(* What the cleaners measure on a segment *)

SegCount(l, ss, k) == Len(SegRecs(l, ss, k))                \* MessageCount()
SegBytes(l, ss, k) == ss[k].bytes                            \* Position()
SegLwt(l, ss, k) == LET r == SegRecs(l, ss, k)               \* lastWriteTime
                    IN IF r = <<>> THEN 0 ELSE Last(r).ts

\* records at or after the base of segment k
FromSeg(l, ss, k) == SelectSeq(l, LAMBDA r : r.off >= ss[k].base)

-----------------------------------------------------------------------------
(* Retention as deleteCleaner.Clean performs it.  Every function returns   *)
(* the number of leading segments dropped so far.                          *)

\* applyAgeLimit: the maximal run of leading non-last segments whose last
\* write time is before the cut-off t (stops at the first younger segment)
AgeDrop(l, ss, t) ==
  LET n == Len(ss)
      Old(k) == k < n /\ SegLwt(l, ss, k) < t
  IN SetMax({k \in 0..n - 1 : \A j \in 1..k : Old(j)})

\* applyMessagesLimit / applyBytesLimit on the segments d0+1..n: start with
\* the last segment, walk backwards, stop at the first segment that makes
\* the running total exceed the limit; everything before it is dropped
LimitDrop(f, n, d0, lim) ==
  LET Tot(k) == SeqSum([j \in 1..n - k + 1 |-> f[k + j - 1]], n - k + 1)   \* f[k] + .. + f[n]
      Keep == {k \in d0 + 1..n : k = n \/ \A j \in k..n - 1 : Tot(j) <= lim}
  IN IF n - d0 <= 1 THEN d0 ELSE SetMin(Keep) - 1

RetainDrop(l, ss, c, t) ==
  LET n  == Len(ss)
      d1 == IF c.age > 0 THEN AgeDrop(l, ss, t) ELSE 0
      d2 == IF c.msgs > 0
            THEN LimitDrop([k \in 1..n |-> SegCount(l, ss, k)], n, d1, c.msgs) ELSE d1
      d3 == IF c.bytes > 0
            THEN LimitDrop([k \in 1..n |-> SegBytes(l, ss, k)], n, d2, c.bytes) ELSE d2
  IN IF ~HasLimits(c) THEN 0 ELSE d3

-----------------------------------------------------------------------------
(* Compaction as compactCleaner.compact performs it *)

\* scanKeys: highest offset <= h among the records whose key is k.  Records
\* without a key (nil) are not tracked, so an empty key is a key of its own
\* (before fix be650a5 the map was indexed by string(key) for every record and
\* a nil key shadowed the empty key).  The number of workers does not change
\* the result: offsets only grow under the per-key lock.
LatestOff(l, h, k) ==
  LET S == {l[i].off : i \in {i \in DOMAIN l : l[i].key = k /\ l[i].off <= h}}
  IN IF S = {} THEN 0 ELSE SetMax(S)

\* cleanSegment: retain if key == nil, offset == latest for the key, or offset >= hw
Retained(l, h, r) == r.key = "nil" \/ r.off = LatestOff(l, h, r.key) \/ r.off >= h

\* result of compact(hw, segments) for a list of >= 2 segments: the last
\* segment is not touched, a segment without survivors disappears, the byte
\* size of a rewritten segment is the size of its survivors, the epoch cache
\* is rebuilt from the leader epochs of the surviving records
CompactLog(l, ss, h) ==
  LET n  == Len(ss)
      l2 == SelectSeq(l, LAMBDA r : r.off >= ss[n].base \/ Retained(l, h, r))
      re == [k \in 1..n |-> IF k = n THEN ss[k]
                            ELSE [base |-> ss[k].base, bytes |-> Bytes(SegRecs(l2, ss, k))]]
      ks == {k \in 1..n : k = n \/ SegRecs(l2, ss, k) # <<>>}
      RECURSIVE Pick(_)
      Pick(k) == IF k > n THEN <<>>
                 ELSE IF k \in ks THEN <<re[k]>> \o Pick(k + 1) ELSE Pick(k + 1)
  IN [log |-> l2, segs |-> Pick(1), ec |-> AssignRecs(<<>>, l2), hasEc |-> TRUE]

\* commitLog.clean(segments): retention, then (if enabled and more than one
\* segment is left) compaction; p is the snapshot [log, segs, hw, now]
CleanResult(p, c) ==
  LET n  == Len(p.segs)
      d  == RetainDrop(p.log, p.segs, c, p.now - c.age)
      l1 == FromSeg(p.log, p.segs, d + 1)
      s1 == SubSeq(p.segs, d + 1, n)
  IN IF c.compact /\ Len(s1) > 1 THEN CompactLog(l1, s1, p.hw)
     ELSE [log |-> l1, segs |-> s1, ec |-> <<>>, hasEc |-> FALSE]

\* leaderEpochCache.Rebase(from, off): entries of the live cache that start
\* at or after off are appended when their epoch is newer
RECURSIVE RebaseEp(_, _, _)
RebaseEp(c, from, off) ==
  IF from = <<>> THEN c
  ELSE LET x == Head(from) IN
       RebaseEp(IF x.s >= off /\ x.e > LatestEpoch(c) THEN Assign(c, x.e, x.s) ELSE c,
                Tail(from), off)

\* the swap under l.mu.Lock for a clean whose snapshot was p
CleanSwap(p) ==
  LET res    == CleanResult(p, cc)
      n      == Len(p.segs)
      newr   == SubSeq(log, Len(p.log) + 1, Len(log))         \* appended meanwhile
      rebase == SubSeq(segs, n + 1, Len(segs))                \* rolled meanwhile
      m      == Len(res.segs)
      kept   == [res.segs EXCEPT ![m].bytes = segs[n].bytes]  \* the snapshot's active segment is shared
      ns     == kept \o rebase
  IN [log  |-> res.log \o newr,
      segs |-> ns,
      \* since /repo 3ee1c3a: every live entry newer than what compaction saw is carried over
      \* (Rebase from the start offset of the newest epoch compaction found), whether or not a
      \* segment was rolled meanwhile; before, only entries at or after the base offset of the
      \* first rolled segment were
      epochs |-> IF res.hasEc
                 THEN RebaseEp(res.ec, epochs, LatestStart(res.ec))
                 ELSE ClearEarliest(epochs, ns[1].base)]

Snapshot == [on |-> TRUE, log |-> log, segs |-> segs, hw |-> hw, now |-> now]

\* reverse reader started at s: survivors at or below s, newest first; a
\* committed one starts at the HW when s is beyond it (or s = -1)
RevStart(h, s, committed) == IF committed /\ (s > h \/ s = -1) THEN h ELSE s
ExpectedRev(l, h, s, committed) ==
  LET e  == RevStart(h, s, committed)
      up == SelectSeq(l, LAMBDA r : r.off <= e)
  IN [i \in 1..Len(up) |-> up[Len(up) - i + 1]]

\* NewReverseReader fails when no segment ends after the start offset
RevKind(l, ss, h, s, committed) ==
  IF committed /\ h = -1 THEN "err"
  ELSE IF FindSeg(l, ss, RevStart(h, s, committed)) = 0 THEN "err" ELSE "ok"

\* ---- persistent reverse readers and cleans
\* A ReverseReader keeps the segment list (the segment objects) it found when it
\* was created and never re-initialises.  A clean closes segment objects: the ones
\* retention deletes and, when compaction runs, every non-last one (replaced by
\* its rewritten copy or removed).  Reading such an object fails
\* (ErrSegmentReplaced / ErrSegmentClosed): the reader delivers what it can read
\* from the objects that are still open and then ends with that error, never
\* with a silent end of the log.
FloorOf(p) ==
  LET n  == Len(p.segs)
      d  == RetainDrop(p.log, p.segs, cc, p.now - cc.age)
  IN IF cc.compact /\ n - d > 1 THEN Last(p.segs).base ELSE p.segs[d + 1].base

DeadLow(p) == LET D == {p.log[i].off : i \in {i \in DOMAIN p.log : p.log[i].off < FloorOf(p)}}
              IN IF D = {} THEN NoDead ELSE SetMin(D)

RevAfterClean(p) ==
  [r \in RevReaders |->
     IF rr[r].alive
     THEN [rr[r] EXCEPT !.floor = IF FloorOf(p) > @ THEN FloorOf(p) ELSE @,
                        !.dlow  = IF DeadLow(p) < @ THEN DeadLow(p) ELSE @]
     ELSE rr[r]]

\* NewReverseReader(s, committed); between snapshot and swap of a clean the segment
\* list still names the objects that clean has closed
RevNewVal(r, s, c) ==
  [rr EXCEPT ![r] = IF RevKind(log, segs, hw, s, c) = "ok"
      THEN [alive |-> TRUE, next |-> RevStart(hw, s, c),
            floor |-> IF pend.on THEN FloorOf(pend) ELSE -1,
            \* created between snapshot and swap: locating the start entry already
            \* searches the index of the start segment - if that object is closed (and
            \* not empty) the reader fails on its first read whatever its position
            dlow  |-> IF ~pend.on THEN NoDead
                      ELSE LET k == FindSeg(log, segs, RevStart(hw, s, c)) IN
                           IF segs[k].base < FloorOf(pend) /\ SegRecs(log, segs, k) # <<>>
                           THEN -2 ELSE DeadLow(pend)]
      ELSE NoRev]
DoNewRev(r, s, c) ==
  /\ rr' = RevNewVal(r, s, c)
  /\ obs' = [a |-> "NewRev", ret |-> <<>>,
             err |-> IF RevKind(log, segs, hw, s, c) = "ok" THEN "" ELSE "reader"]
  /\ UNCHANGED <<cfg, log, segs, hw, epochs, ro, rd, cc, now, pend>>

RevAvail(r) == LET up == SelectSeq(log, LAMBDA x : x.off <= rr[r].next /\ x.off >= rr[r].floor)
               IN [i \in 1..Len(up) |-> up[Len(up) - i + 1]]
RevGot(r, all) == LET av == RevAvail(r) IN IF all \/ av = <<>> THEN av ELSE <<av[1]>>
RevDone(r, all) == all \/ RevAvail(r) = <<>>
RevReadVal(r, all) ==
  [rr EXCEPT ![r] = IF RevDone(r, all) THEN NoRev ELSE [@ EXCEPT !.next = RevGot(r, all)[1].off - 1]]

\* read one message (all = FALSE) or drain (all = TRUE)
DoRevRead(r, all) ==
  /\ rr[r].alive
  /\ rr' = RevReadVal(r, all)
  /\ obs' = [a |-> "RevRead", ret |-> Fps(RevGot(r, all)),
             err |-> IF RevDone(r, all) /\ rr[r].dlow <= rr[r].next THEN "dead" ELSE ""]
  /\ UNCHANGED <<cfg, log, segs, hw, epochs, ro, rd, cc, now, pend>>

\* C08 for a persistent reverse reader: what it delivers is, in order, the retained
\* records at or below its position; it may stop early only with an explicit error
IsPrefixOf(a, b) == Len(a) <= Len(b) /\ a = SubSeq(b, 1, Len(a))
P_RevRead(r, all) ==
  LET up  == SelectSeq(log, LAMBDA x : x.off <= rr[r].next)
      exp == Fps([i \in 1..Len(up) |-> up[Len(up) - i + 1]])
  IN /\ log' = log /\ hw' >= hw
     /\ IF obs'.err = ""
        THEN obs'.ret = (IF all \/ exp = <<>> THEN exp ELSE <<exp[1]>>)
        ELSE IsPrefixOf(obs'.ret, exp)

OldestOf(l, ss) == IF SegRecs(l, ss, 1) = <<>> THEN -1 ELSE l[1].off     \* segments[0].FirstOffset()
NewestOf(l, ss) == (IF SegRecs(l, ss, Len(ss)) = <<>> THEN Last(ss).base ELSE Last(l).off + 1) - 1

-----------------------------------------------------------------------------
(* Actions as the code performs them *)

CInit ==
  /\ Init
  /\ cc \in [age : {0}, msgs : {0}, bytes : {0}, compact : BOOLEAN, workers : {1}]
  /\ now = 10
  /\ pend = NoPend
  /\ rr = [r \in RevReaders |-> NoRev]

DoCleanBegin ==
  /\ ~pend.on
  /\ pend' = Snapshot
  /\ rr' = RevAfterClean(Snapshot)
  /\ obs' = [a |-> "CleanBegin", ret |-> <<>>, err |-> ""]
  /\ UNCHANGED <<cfg, log, segs, hw, epochs, ro, rd, cc, now>>

DoCleanEnd ==
  /\ pend.on
  /\ LET r == CleanSwap(pend) IN
     /\ log' = r.log /\ segs' = r.segs /\ epochs' = r.epochs
     /\ obs' = [a |-> "CleanEnd", ret |-> <<OldestOf(r.log, r.segs), NewestOf(r.log, r.segs)>>, err |-> ""]
  /\ pend' = NoPend
  /\ UNCHANGED <<cfg, hw, ro, rd, cc, now, rr>>

DoClean ==
  /\ ~pend.on
  /\ LET r == CleanSwap(Snapshot) IN
     /\ log' = r.log /\ segs' = r.segs /\ epochs' = r.epochs
     /\ obs' = [a |-> "Clean", ret |-> <<OldestOf(r.log, r.segs), NewestOf(r.log, r.segs)>>, err |-> ""]
  /\ rr' = RevAfterClean(Snapshot)
  /\ UNCHANGED <<cfg, hw, ro, rd, cc, now, pend>>

\* Clean() during which the removal of the files of one doomed segment (the k-th of the
\* list) fails once (transient I/O error): deleteSegments goes on with the other
\* doomed segments and returns the error, Clean() returns it WITHOUT swapping the
\* segment list ("the actual file deletion can be retried on the next cleanup
\* cycle").  The log's segment list - the abstract state - is unchanged; the
\* segment objects are closed.  The retry is an ordinary DoClean on that list: it
\* must succeed (segment.Delete is idempotent) and leave what one clean would.
DoCleanFail(k) ==
  /\ ~pend.on
  /\ k \in 1..RetainDrop(log, segs, cc, now - cc.age)
  /\ rr' = RevAfterClean(Snapshot)
  /\ obs' = [a |-> "CleanFail", ret |-> <<>>, err |-> "delete-failed"]
  /\ UNCHANGED <<cfg, log, segs, hw, epochs, ro, rd, cc, now, pend>>

DoTick(d) ==
  /\ now' = now + d
  /\ obs' = [a |-> "Tick", ret |-> <<>>, err |-> ""]
  /\ UNCHANGED <<cfg, log, segs, hw, epochs, ro, rd, cc, pend, rr>>

\* the commit-log actions, usable while a clean is pending.  Messages are
\* stamped by the environment: the clock is never behind the newest timestamp
\* that was appended.
ClockAfter(recs) == SetMax({now} \cup {recs[i].ts : i \in DOMAIN recs})
CAppend(recs) == /\ DoAppend(recs)
                 /\ now' = (IF obs'.err = "" THEN ClockAfter(recs) ELSE now)
                 /\ UNCHANGED <<cc, pend, rr>>
CAppendSet(recs) == DoAppendSet(recs) /\ now' = ClockAfter(recs) /\ UNCHANGED <<cc, pend, rr>>
CSetHW(h) == DoSetHW(h) /\ UNCHANGED <<cc, now, pend, rr>>
\* NewLeaderEpoch(e): recorded at NewestOffset() = NextOffset() - 1 of the active
\* segment (on a log emptied by retention that is base - 1, not -1)
CNewLeaderEpoch(e) ==
  /\ epochs' = Assign(epochs, e, NewestOf(log, segs))
  /\ obs' = [a |-> "NewLeaderEpoch", ret |-> <<>>, err |-> ""]
  /\ UNCHANGED <<cfg, log, segs, hw, ro, rd, cc, now, pend, rr>>
\* Persistent readers (reader.go).  A clean does not touch the abstract reader
\* state: a reader whose segment was replaced by compaction (or removed because
\* nothing in it survived: cleanupEmptySegment marks it replaced) gets
\* ErrSegmentReplaced on its next read and re-initialises at its own offset, so
\* it goes on with the survivors at or after its position.  (A reader inside a
\* segment that RETENTION deleted fails with ErrSegmentClosed; the bounded
\* models only use persistent readers without retention limits.)  Not used
\* while a clean is between snapshot and swap: the segment list still names
\* the closed segments then and re-initialisation fails.
CNewReader(r, s, c) == ~pend.on /\ DoNewReader(r, s, c) /\ UNCHANGED <<cc, now, pend, rr>>
CDrain(r) == ~pend.on /\ DoDrain(r) /\ UNCHANGED <<cc, now, pend, rr>>

\* Close + New with the same options (not while a clean is pending)
CReopen == /\ ~pend.on /\ DoReopen
           /\ rr' = [r \in RevReaders |-> NoRev]       \* readers of the closed log are gone
           /\ UNCHANGED <<cc, now, pend>>

-----------------------------------------------------------------------------
(* C08: what compaction must keep.  b = snapshot [log, segs, hw, now],      *)
(* la = log after the clean, nn = number of records appended meanwhile.     *)
(* Interpretation (the reading that demands less): a message whose key is   *)
(* nil is "without a key"; an EMPTY key is a key like any other, so only    *)
(* its most recent committed message must survive.                          *)

Required(l, ss, h) ==
  {l[i] : i \in {i \in DOMAIN l :
      \/ l[i].key = "nil"                         \* without a key
      \/ l[i].off >= h                            \* at or above the high watermark
      \/ l[i].off >= Last(ss).base                \* in the newest segment
      \/ ~\E j \in DOMAIN l : /\ l[j].key = l[i].key          \* most recent committed
                              /\ l[j].off <= h /\ l[j].off > l[i].off}}

InSeq(s, x) == \E i \in DOMAIN s : s[i] = x

\* nothing is altered, moved, reordered or invented; what was appended
\* meanwhile is all there
C08_Unchanged(b, la, nn) ==
  LET snap == SubSeq(la, 1, Len(la) - nn) IN
  /\ Len(la) >= nn
  /\ \A i \in DOMAIN snap : InSeq(b.log, snap[i])
  /\ \A i \in 1..Len(la) - 1 : la[i].off < la[i + 1].off

\* everything that must survive survives; records may only be missing
\* together with a whole prefix of segments, and only when a retention limit
\* is configured (whether that removal was right is C09's business)
C08_Survivors(b, la, nn, c) ==
  LET snap == SubSeq(la, 1, Len(la) - nn) IN
  \E d \in 0..Len(b.segs) - 1 :
     /\ d > 0 => HasLimits(c)
     /\ \A i \in DOMAIN snap : snap[i].off >= b.segs[d + 1].base
     /\ \A r \in Required(b.log, b.segs, b.hw) : r.off >= b.segs[d + 1].base => InSeq(snap, r)

-----------------------------------------------------------------------------
(* C09: what retention may and must remove (compaction off).  sa = segment  *)
(* list after the clean, nr = number of segments rolled meanwhile.          *)
(* Sizes, counts and ages are those of the snapshot.  Age limit on          *)
(* non-monotone write times, permissive reading: removal of a segment is    *)
(* "needed" when its last write is not younger than the cut-off, and the    *)
(* limit "holds" when the oldest retained segment is the newest one, is not *)
(* older than the cut-off, or lies behind a segment that is younger than    *)
(* the cut-off (age is judged oldest-first and stops at the first young     *)
(* segment); equality with the cut-off is left free both ways.              *)

TotCount(l, ss, k) == SeqSum([j \in 1..Len(ss) |-> IF j >= k THEN SegCount(l, ss, j) ELSE 0], Len(ss))
TotBytes(l, ss, k) == SeqSum([j \in 1..Len(ss) |-> IF j >= k THEN SegBytes(l, ss, j) ELSE 0], Len(ss))

\* keeping the segments k..n would break a configured limit
Breaks(l, ss, k, c, t) ==
  \/ c.msgs > 0 /\ TotCount(l, ss, k) > c.msgs
  \/ c.bytes > 0 /\ TotBytes(l, ss, k) > c.bytes
  \/ c.age > 0 /\ SegLwt(l, ss, k) <= t

\* the limits hold on the segments k..n
Holds(l, ss, k, c, t) ==
  /\ c.msgs > 0 => TotCount(l, ss, k) <= c.msgs
  /\ c.bytes > 0 => TotBytes(l, ss, k) <= c.bytes
  /\ c.age > 0 => \/ k = Len(ss)
                   \/ SegLwt(l, ss, k) >= t
                   \/ \E j \in 1..k - 1 : SegLwt(l, ss, j) >= t    \* hidden behind a younger segment

\* the number of segments dropped, as far as the segment list shows it: the
\* first nr' = Len(sa) - nr segments of sa must be the last ones of b.segs
C09_Drops(b, sa, nr) ==
  {d \in 0..Len(b.segs) - 1 :
     /\ Len(sa) - nr = Len(b.segs) - d
     /\ \A k \in 1..Len(sa) - nr : sa[k].base = b.segs[d + k].base}

C09_Prefix(b, sa, nr) == C09_Drops(b, sa, nr) # {}

C09_Minimal(b, sa, nr, c) ==
  \A d \in C09_Drops(b, sa, nr) :
     d > 0 => Breaks(b.log, b.segs, d, c, b.now - c.age)

C09_LimitsHold(b, sa, nr, c) ==
  \A d \in C09_Drops(b, sa, nr) :
     d = Len(b.segs) - 1 \/ Holds(b.log, b.segs, d + 1, c, b.now - c.age)

\* the surviving log is exactly the records of the surviving segments
\* (plus what was appended meanwhile), unchanged
C09_Suffix(b, sa, nr, la, nn) ==
  \A d \in C09_Drops(b, sa, nr) :
     la = FromSeg(b.log, b.segs, d + 1) \o SubSeq(la, Len(la) - nn + 1, Len(la))

\* OldestOffset()/NewestOffset() after the clean
C09_Oldest(la, o) == o[1] = (IF la = <<>> THEN -1 ELSE la[1].off)

-----------------------------------------------------------------------------
(* What C08 / C09 demand of a clean whose snapshot was b (evaluated on the  *)
(* transition of the swap).  The pieces are named so that a verdict says    *)
(* which one failed.                                                        *)

NewRecs(b) == Len(log) - Len(b.log)       \* appended between snapshot and swap
NewSegs(b) == Len(segs) - Len(b.segs)     \* rolled between snapshot and swap

P_C08_Unchanged(b) == C08_Unchanged(b, log', NewRecs(b))
P_C08_Survivors(b) == cc.compact => C08_Survivors(b, log', NewRecs(b), cc)
P_C09_Prefix(b)     == ~cc.compact => C09_Prefix(b, segs', NewSegs(b))
P_C09_Minimal(b)    == ~cc.compact => C09_Minimal(b, segs', NewSegs(b), cc)
P_C09_LimitsHold(b) == ~cc.compact => C09_LimitsHold(b, segs', NewSegs(b), cc)
P_C09_Suffix(b)     == ~cc.compact => C09_Suffix(b, segs', NewSegs(b), log', NewRecs(b))
P_C09_Oldest        == C09_Oldest(log', obs'.ret)

P_Clean(b) ==
  /\ hw' = hw
  /\ P_C08_Unchanged(b) /\ P_C08_Survivors(b)
  /\ P_C09_Prefix(b) /\ P_C09_Minimal(b) /\ P_C09_LimitsHold(b) /\ P_C09_Suffix(b)
  /\ P_C09_Oldest

-----------------------------------------------------------------------------
(* Read-back: what a fresh reader must deliver on any (sparse) log *)

\* (reverse readers: RevStart, ExpectedRev, RevKind are defined with the actions above)

\* timestamp look-ups (monotone timestamps): the offset returned must lead a
\* reader to the right survivor; between survivors any offset will do
FirstAtOrAfterTs(l, t) == LET I == {i \in DOMAIN l : l[i].ts >= t} IN IF I = {} THEN 0 ELSE SetMin(I)
LastAtOrBeforeTs(l, t) == LET I == {i \in DOMAIN l : l[i].ts <= t} IN IF I = {} THEN 0 ELSE SetMax(I)
TsMonotone(l) == \A i \in 1..Len(l) - 1 : l[i].ts < l[i + 1].ts

\* EarliestOffsetAfterTimestamp(t) = o: a forward reader from o starts with
\* the first survivor whose timestamp is >= t (or at the log end)
EarliestOK(l, next, t, o) ==
  LET i == FirstAtOrAfterTs(l, t) IN
  IF i = 0 THEN o >= next \/ (l # <<>> /\ o > Last(l).off)
  ELSE o <= l[i].off /\ (i > 1 => o > l[i - 1].off)

\* LatestOffsetBeforeTimestamp(t) = o: a reverse reader from o starts with
\* the last survivor whose timestamp is <= t
LatestOK(l, t, o) ==
  LET i == LastAtOrBeforeTs(l, t) IN
  IF i = 0 THEN TRUE
  ELSE o >= l[i].off /\ (i < Len(l) => o < l[i + 1].off)

-----------------------------------------------------------------------------
(* State invariants *)

SegsConsistent == \A k \in 1..Len(segs) : segs[k].bytes = Bytes(SegRecs(log, segs, k))
NoEmptyInnerSegment == \A k \in 1..Len(segs) - 1 : SegRecs(log, segs, k) # <<>>
CTypeOK == TypeOK /\ now \in Int /\ pend.on \in BOOLEAN

\* Since /repo 3ee1c3a (found by check X05, see design_notes/X05.md) an invariant of the code (not
\* demanded by C08/C09; it matters for C02): the epoch cache knows the newest leader epoch present in
\* the log.  Before, a message with a new leader epoch appended to the snapshot's active segment
\* between DoCleanBegin and DoCleanEnd of a compacting clean was in the live cache but not in the
\* cache compaction built, and Replace dropped it.  MC_Cleaner_epochloss.cfg now passes;
\* harness/commitlog/c08/regression_stimuli/epoch_entry_lost_in_window.json is the old demonstration.
EpochCacheKnowsLatest ==
  pend.on \/ \A i \in DOMAIN log : log[i].ep <= LatestEpoch(epochs)
=============================================================================
