SPECIFICATION MCSpec
CONSTANTS
  Pubs = {"p1", "p2", "p3"}
  MaxMsgs = 10
  MaxPerPub = 4
  MaxReads = 3
  OccSet = {TRUE, FALSE}
  BatchSet = {1, 2}
  PathSet = {"async", "sync"}
  MaxPauses = 2
  MaxRestarts = 1
  Kinds = {"waive", "stale", "equal", "future", "far", "neg", "negbig"}
  Pols = {"leader", "none"}
  Mut = "none"
CHECK_DEADLOCK FALSE
