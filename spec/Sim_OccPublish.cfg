SPECIFICATION MCSpec
CONSTANTS
  Pubs = {"p1", "p2", "p3"}
  MaxMsgs = 10
  MaxPerPub = 4
  MaxReads = 3
  OccSet = {TRUE, FALSE}
  BatchSet = {1, 2}
  PathSet = {"async", "sync"}
  MaxPauses = 2
  MaxRestarts = 1
  Kinds = {"waive", "stale", "equal", "future", "far", "neg", "negbig"}
  Pols = {"leader", "none"}
  SrcSet = {"request", "server", "override"}
  Vias = {"api", "subj", "nats", "natsq", "plain"}
  MaxHolds = 2
  MaxSnaps = 1
  MaxInstalls = 1
  Snap0Set = {"none", "pred", "cur"}
  SnapKeeps = TRUE
  Mut = "none"
CHECK_DEADLOCK FALSE
