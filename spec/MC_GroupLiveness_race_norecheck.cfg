SPECIFICATION MCSpec
CONSTANTS
  Brokers = {"a", "b", "c"}
  Servers = {"a", "b"}
  Members = {"m1", "m2", "m3"}
  Dense = TRUE
  RecheckAtApply = FALSE
  KeepTimers = FALSE
  CountAllWit = FALSE
  MaxOps = 6
  MaxPend = 1
  MaxWaits = 2
  EpochSels = {"cur"}
  PairSels = {"cur"}
  WaitModes = {"none", "good"}
  ReqServers = {"a"}
  EffectiveOnly = FALSE
INVARIANTS TypeOK X01_TimersOnlyAtCoordinator TimersComplete StatusLive WitnessesAreGood
PROPERTIES StepsOK
VIEW MCView
CHECK_DEADLOCK FALSE
