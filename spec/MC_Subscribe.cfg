SPECIFICATION MCSpec
CONSTANTS
  N = 3
  MaxSegs = 2
  MaxOps = 3
  Ids = {"s1"}
  TakeNs <- TakeQuick
  Fix <- FixRepo
INVARIANTS TypeOK
PROPERTIES StepsOK MonotoneOK
VIEW MCView
CHECK_DEADLOCK FALSE
