--------------------------- MODULE CleanerConfig ---------------------------
(***************************************************************************)
(* The route by which the retention limits (and the compaction switch) a   *)
(* stream is configured with reach the cleaner of its commit log           *)
(* (properties C09, C08 - "for every combination of the three limits"):    *)
(*                                                                         *)
(*   server-wide defaults   streams.retention.max.{age,messages,bytes},    *)
(*                          streams.compact.enabled      (Config.Streams)  *)
(*   per-stream overrides   StreamConfig of CreateStream (nullable fields) *)
(*   Server.newPartition -> StreamsConfig.ApplyOverrides                   *)
(*                       -> commitlog.Options{MaxLogAge,MaxLogMessages,    *)
(*                          MaxLogBytes,Compact} -> deleteCleaner.Retention*)
(*                                                                         *)
(* A field that is absent from the StreamConfig keeps the server default;  *)
(* a field that is present replaces it - also with 0 ("no limit") or       *)
(* false: that is the only way to switch a server-wide limit off for one   *)
(* stream.  What arrives at the cleaner must be exactly these effective    *)
(* values: otherwise segments are removed that no limit configured for the *)
(* stream requires to go (or kept although one does).                      *)
(* Ages are in milliseconds on this route.                                 *)
(***************************************************************************)
EXTENDS Integers

Unset == -1                       \* the field is absent from the StreamConfig

Eff(d, o) == IF o = Unset THEN d ELSE o

\* def = [age, msgs, bytes, compact (BOOLEAN)], ovr = [age, msgs, bytes (Unset or a
\* value >= 0), compact ("unset" | "true" | "false")]
Effective(def, ovr) ==
  [age     |-> Eff(def.age, ovr.age),
   msgs    |-> Eff(def.msgs, ovr.msgs),
   bytes   |-> Eff(def.bytes, ovr.bytes),
   compact |-> IF ovr.compact = "unset" THEN def.compact ELSE ovr.compact = "true"]

\* what the options of the commit log (opts) and the retention settings of its
\* delete cleaner (ret) must be
C09_Route(def, ovr, opts, ret) ==
  LET e == Effective(def, ovr) IN
  /\ opts = e
  /\ ret = [age |-> e.age, msgs |-> e.msgs, bytes |-> e.bytes]
=============================================================================
