SPECIFICATION MCSpec
CONSTANTS
  Fix = {"tail", "suffix", "epoch"}
  Taints = {}
  GenMode = TRUE
  MaxSkip = 1
  MaxOps = 6
  MaxPost = 3
  MaxRecs = 9
  MaxBatch = 2
  MaxEpoch = 3
  MaxHit = 1
  MaxRecCrash = 0
  CapSet = {2, 3}
  RetSet = {0, 2, 3}
  CompactSet = {FALSE, TRUE}
  AgeSet = {0, 3}
  Keys = {"a", "b", "nil"}
CHECK_DEADLOCK FALSE
