SPECIFICATION MCSpec
CONSTANTS
  Replicas = {"r1", "r2", "r3", "r4"}
  Outsider = "x"
  Dense = TRUE
  KeepStatus = FALSE
  RecheckAtApply = TRUE
  RecheckElect = TRUE
  RecheckISR = TRUE
  KeepOnFail = FALSE
  CountAll = FALSE
  InitISRs = {{"r1", "r2"}, {"r1", "r2", "r3"}, {"r1", "r2", "r3", "r4"}}
  L0 = "r1"
  PairSels = {"cur"}
  MaxOps = 3
  Faults = TRUE
  EffectiveOnly = TRUE
  MaxPend = 0
INVARIANTS TypeOK C07_LeaderInISR StatusLive WitnessesAreGood PersistedISR
PROPERTIES StepsOK
VIEW MCPathView
CHECK_DEADLOCK FALSE
