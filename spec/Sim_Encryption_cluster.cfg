SPECIFICATION MCSpec
CONSTANTS
  BoundsChecked = TRUE
  Masks = {1}
  KSValues = {0}
  Keys = {"k1", "k2"}
  SnapKeeps = TRUE
  Replicas = {"a", "b"}
  Lens = {0}
  MKLens = {16}
  TableOn = FALSE
  MaxPub = 8
  MaxBatch = 3
  MaxSteps = 10
  MaxFailBatches = 2
  MaxRestart = 0
  MaxTamper = 2
  MaxEnv = 3
  MaxPause = 2
  MaxSub = 4
  MaxLead = 2
  MaxSnap = 1
  MaxInstall = 2
  PubClasses = {"long"}
  Hows = {"b2b"}
  TamperRegs = {"KS"}
CHECK_DEADLOCK FALSE
