SPECIFICATION RdFamSpec
CONSTANTS
  MaxRecs = 16
  MaxBatch = 2
  MaxOps = 15
  MaxEpoch = 1
  CapSet = {2, 3, 4}
  OccSet = {FALSE}
  UseReaders = TRUE
CHECK_DEADLOCK FALSE
