SPECIFICATION TraceSpec
CONSTANTS
  Nodes = {"a", "b", "c"}
  SnapCarriesLP = TRUE
POSTCONDITION Done
CHECK_DEADLOCK FALSE
