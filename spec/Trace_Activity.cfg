SPECIFICATION TraceSpec
CONSTANTS
  Nodes = {"a", "b", "c"}
POSTCONDITION Done
CHECK_DEADLOCK FALSE
