------------------------- MODULE MC_MetadataFSM -------------------------
(* Bounded instance of MetadataFSM: the Raft log (`log`), budgets and the   *)
(* generator of VALID operation sequences (leader-side preconditions as     *)
(* guards).  Scenario families are selected with OpKinds.                   *)
EXTENDS MetadataFSM, Json

CONSTANTS StreamSet, MaxParts, Brokers, ConsumerSet, Coords, OpKinds, MaxOps, MaxSnaps, MaxRestarts, Variants, Extras
VARIABLES log, last, nSnap, nRestart
mcvars == <<vars, log, last, nSnap, nRestart>>

Ldr == CHOOSE b \in Brokers : \A c \in Brokers : RankIn(<<"r1", "r2", "r3">>, b) <= RankIn(<<"r1", "r2", "r3">>, c)
\* "plain": subject = name, no stream-level configuration; "custom": another subject and overrides
SubjOf(s, v) == IF v = "plain" THEN s ELSE CASE s = "sa" -> "x.sa" [] s = "sb" -> "x.sb" [] OTHER -> "x.other"
Existing == DOMAIN streams
PidsOf(s) == {i - 1 : i \in DOMAIN streams[s].parts}

Candidates ==
  (IF "CreateStream" \in OpKinds THEN {[op |-> "CreateStream", s |-> s, n |-> n, R |-> Brokers, ldr |-> Ldr, subj |-> SubjOf(s, v),
                                               cfg |-> IF v = "custom" THEN "k1" ELSE "none", ts |-> 7] : s \in StreamSet, n \in 1..MaxParts, v \in Variants} ELSE {})
  \cup (IF "DeleteStream" \in OpKinds THEN {[op |-> "DeleteStream", s |-> s] : s \in StreamSet} ELSE {})
  \cup (IF "Pause" \in OpKinds THEN {[op |-> "Pause", s |-> s, pids |-> P, resumeAll |-> FALSE] : s \in StreamSet, P \in {{}, {0}}} ELSE {})
  \cup (IF "Resume" \in OpKinds THEN {[op |-> "Resume", s |-> s, pids |-> P] : s \in StreamSet, P \in {{0}, 0..(MaxParts - 1)}} ELSE {})
  \cup (IF "SetReadonly" \in OpKinds THEN {[op |-> "SetReadonly", s |-> s, pids |-> {}, b |-> b] : s \in StreamSet, b \in BOOLEAN} ELSE {})
  \cup (IF "ShrinkISR" \in OpKinds THEN {[op |-> "ShrinkISR", s |-> s, p |-> 0, r |-> r] : s \in StreamSet, r \in Brokers} ELSE {})
  \cup (IF "ExpandISR" \in OpKinds THEN {[op |-> "ExpandISR", s |-> s, p |-> 0, r |-> r] : s \in StreamSet, r \in Brokers} ELSE {})
  \cup (IF "ChangeLeader" \in OpKinds THEN {[op |-> "ChangeLeader", s |-> s, p |-> 0, ldr |-> r] : s \in StreamSet, r \in Brokers} ELSE {})
  \cup (IF "CreateGroup" \in OpKinds THEN {[op |-> "CreateGroup", g |-> g, c |-> c, S |-> S, coord |-> k] : g \in GroupIds, c \in ConsumerSet, S \in SUBSET StreamSet, k \in Coords} ELSE {})
  \cup (IF "JoinGroup" \in OpKinds THEN {[op |-> "JoinGroup", g |-> g, c |-> c, S |-> S] : g \in GroupIds, c \in ConsumerSet, S \in SUBSET StreamSet} ELSE {})
  \cup (IF "LeaveGroup" \in OpKinds THEN {[op |-> "LeaveGroup", g |-> g, c |-> c] : g \in GroupIds, c \in ConsumerSet} ELSE {})
  \cup (IF "ChangeCoordinator" \in OpKinds THEN {[op |-> "ChangeCoordinator", g |-> g, coord |-> k] : g \in GroupIds, k \in Coords} ELSE {})
  \cup (IF "PublishActivity" \in OpKinds THEN {[op |-> "PublishActivity", i |-> applied]} ELSE {})

\* a partition leader never shrinks itself out; requests may be retried, so a
\* shrink of a replica that is already out / an expand of one that is already in
\* are part of the valid sequences
Sensible(o) ==
  CASE o.op = "ShrinkISR" -> o.r # Part(o.s, o.p).leader     \* incl. a retried shrink of a replica already out
    [] o.op = "ExpandISR" -> TRUE                               \* incl. a retried expand of a replica already in
    [] o.op = "Resume" -> o.pids \subseteq PidsOf(o.s)
    [] o.op = "PublishActivity" -> applied > 0 /\ lastPub < applied
    [] OTHER -> TRUE

MCInit ==
  /\ Init /\ log = <<>> /\ last = [a |-> "Open"] /\ nSnap = 0 /\ nRestart = 0

MCApply(o) ==
  /\ mode = "live" /\ Len(log) < MaxOps /\ Valid(o) /\ Sensible(o)
  /\ DoApply(o)
  /\ log' = Append(log, o) /\ last' = [a |-> "Apply", o |-> o]
  /\ UNCHANGED <<nSnap, nRestart>>
MCReplay ==
  /\ mode = "replay" /\ applied < Len(log)
  /\ DoReplay(log[applied + 1])
  /\ last' = [a |-> "Replay", o |-> log[applied + 1]] /\ UNCHANGED <<log, nSnap, nRestart>>
MCSnapshot(ord) ==
  /\ nSnap < MaxSnaps /\ ~sref.has /\ applied > 0 /\ DoSnapshot(ord)
  /\ nSnap' = nSnap + 1 /\ last' = [a |-> "Snapshot"] /\ UNCHANGED <<log, nRestart>>
MCPersist == DoPersist /\ last' = [a |-> "Persist"] /\ UNCHANGED <<log, nSnap, nRestart>>
\* Persist with an operation applied while it writes (scenario families that list "PersistWith" in Extras)
MCPersistWith(o) ==
  /\ "PersistWith" \in Extras /\ Len(log) < MaxOps /\ Valid(o) /\ Sensible(o)
  /\ DoPersistWith(o)
  /\ log' = Append(log, o) /\ last' = [a |-> "PersistWith", o |-> o]
  /\ UNCHANGED <<nSnap, nRestart>>
MCRestart ==
  /\ nRestart < MaxRestarts /\ applied > 0 /\ DoRestart
  /\ nRestart' = nRestart + 1 /\ last' = [a |-> "Restart"] /\ UNCHANGED <<log, nSnap>>
MCInstall ==
  /\ nRestart < MaxRestarts /\ applied > 0 /\ DoInstall
  /\ nRestart' = nRestart + 1 /\ last' = [a |-> "Install"] /\ UNCHANGED <<log, nSnap>>
MCCatchup ==
  /\ mode = "catchup" /\ applied < Len(log)
  /\ DoCatchup(log[applied + 1])
  /\ last' = [a |-> "Catchup", o |-> log[applied + 1]] /\ UNCHANGED <<log, nSnap, nRestart>>
MCCaughtUp == applied = Len(log) /\ DoCaughtUp /\ last' = [a |-> "CaughtUp"] /\ UNCHANGED <<log, nSnap, nRestart>>
MCRestore == DoRestore /\ last' = [a |-> "Restore"] /\ UNCHANGED <<log, nSnap, nRestart>>
MCFinish(ord) == applied = Len(log) /\ DoFinish(ord) /\ last' = [a |-> "Finish"] /\ UNCHANGED <<log, nSnap, nRestart>>
MCGoLive == applied = Len(log) /\ DoGoLive /\ last' = [a |-> "GoLive"] /\ UNCHANGED <<log, nSnap, nRestart>>

\* orders in which Go map iteration may deliver group members / tombstoned
\* streams (quantified over constant sets so that TLC labels the actions)
AllCPerms == UNION {Perms(S) : S \in SUBSET ConsumerSet}
AllSPerms == UNION {Perms(S) : S \in SUBSET StreamSet}
GoodSnapOrder(ord) == \A g \in GroupIds : Seq2Set(ord[g]) = Members(groups[g]) /\ Len(ord[g]) = Cardinality(Members(groups[g]))
SnapOrd(ord) == [g \in {h \in GroupIds : groups[h].exists} |-> ord[g]]
GoodTombOrder(ord) == \A g \in GroupIds : Seq2Set(ord[g]) = Tombs /\ Len(ord[g]) = Cardinality(Tombs)

MCNext ==
  \/ \E o \in Candidates : MCApply(o)
  \/ MCReplay
  \/ \E ord \in [GroupIds -> AllCPerms] : GoodSnapOrder(ord) /\ MCSnapshot(SnapOrd(ord))
  \/ MCPersist
  \/ \E o \in Candidates : MCPersistWith(o)
  \/ MCRestart
  \/ MCInstall
  \/ MCCatchup
  \/ MCCaughtUp
  \/ MCRestore
  \/ \E ord \in [GroupIds -> AllSPerms] : GoodTombOrder(ord) /\ MCFinish(ord)
  \/ MCGoLive

MCSpec == MCInit /\ [][MCNext]_mcvars

A_RS_Streams == [][RS_Streams]_mcvars
A_RS_RoEff == [][RS_RoEff]_mcvars
A_RS_GroupMembers == [][RS_GroupMembers]_mcvars
A_RS_GroupEpoch == [][RS_GroupEpoch]_mcvars
A_RS_GroupAsg == [][RS_GroupAsg]_mcvars
A_NoDataLoss == [][NoDataLoss]_mcvars
A_NoResurrection == [][NoResurrection]_mcvars
A_NoApplyError == [][NoApplyError]_mcvars
A_RS_Started == [][RS_Started]_mcvars

MCView == <<vars, log, nSnap, nRestart>>
=============================================================================
