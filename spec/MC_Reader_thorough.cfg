SPECIFICATION MCSpec
CONSTANTS
  MaxApp = 4
  MaxTog = 2
  Starts = {0, 1, 2, 3}
  CapSet = {1, 2}
  AtomicSet = {TRUE}
  TrackLast = FALSE
  UseRoller = TRUE
  SplitNew = TRUE
  NewLoads = 1
INVARIANTS TypeOK C03_Run C03_NoDeath C03_NoLostWakeup C03_Wakeable
PROPERTIES StepsOK
CHECK_DEADLOCK FALSE
