SPECIFICATION MCSpec
CONSTANTS
  GroupIds = {"g1"}
  StreamSet = {"sa", "sb"}
  MaxParts = 2
  Brokers = {"r1", "r2", "r3"}
  ConsumerSet = {"c1", "c2"}
  Coords = {"A", "X"}
  OpKinds = {"CreateStream", "DeleteStream", "Pause", "Resume", "SetReadonly", "ShrinkISR", "ExpandISR", "ChangeLeader", "PublishActivity"}
  Variants = {"plain", "custom"}
  Extras = {"PersistWith"}
  MaxOps = 9
  MaxSnaps = 2
  MaxRestarts = 2
INVARIANTS NoTombLive NoRecLive GroupsFine EpochsFine


CHECK_DEADLOCK FALSE
