-------------------------- MODULE MC_Cleaner --------------------------
(* Bounded instance of Cleaner for the exhaustive design check and for    *)
(* stimulus generation (simulation).  `last` = arguments of the last      *)
(* action (replayed on the real code), n* = budgets; not part of the VIEW.*)
EXTENDS Cleaner, TLC, Json

CONSTANTS MaxRecs, MaxBatch, MaxOps, MaxEpoch, CapSet, KeySet, AgeSet, MsgsSet, BytesSet,
          CompactSet, LagSet, BigSet, MaxCleans, MaxTicks, UseWindow, UseReopen, UseEpochs, UseReaders, UseRevReaders, UseFaults, OccSet,
          MinCleanSegs   \* stimulus generation: cleans start only on logs with at least this many segments
VARIABLES last, nRecs, nOps, nCleans, nTicks,
          dirty,    \* ghost: a clean failed (deletion error) and has not been retried successfully yet
          recUpTo   \* ghost: segments with a base below this offset were opened from disk (reopen) or
                    \* swapped in by Replace (compaction) - their write times come from the index
mcvars == <<cvars, last, nRecs, nOps, nCleans, nTicks, recUpTo, dirty>>

Rec(i, k, big, e, t, x) == [ep |-> e, ts |-> t, key |-> k, val |-> i, hdr |-> "h",
                            sz |-> IF big THEN 2 ELSE 1, fp |-> i, exp |-> x]

CurEpoch == IF log = <<>> THEN LatestEpoch(epochs)
            ELSE IF Last(log).ep > LatestEpoch(epochs) THEN Last(log).ep ELSE LatestEpoch(epochs)

RecAfter(name) ==
  LET mx(x, y) == IF x > y THEN x ELSE y IN
  CASE name = "Reopen" -> NextOff
    [] name = "Clean" /\ cc.compact /\ Len(segs) > 1 -> mx(recUpTo, Last(segs).base)
    [] name = "CleanEnd" /\ cc.compact /\ Len(pend.segs) > 1 -> mx(recUpTo, Last(pend.segs).base)
    [] OTHER -> recUpTo
Step(a) == /\ nOps < MaxOps /\ nOps' = nOps + 1 /\ last' = a /\ recUpTo' = RecAfter(a.a)
           /\ dirty' = (a.a = "CleanFail" \/ (dirty /\ a.a # "Clean"))

MCInit ==
  /\ cfg \in [maxBytes : CapSet, occ : OccSet]
  /\ log = <<>> /\ segs = <<[base |-> 0, bytes |-> 0]>>
  /\ hw = -1 /\ epochs = <<>> /\ ro = FALSE
  /\ rd = [r \in Readers |-> NoReader]
  /\ obs = [a |-> "Open", ret |-> <<>>, err |-> ""]
  /\ cc \in [age : AgeSet, msgs : MsgsSet, bytes : BytesSet, compact : CompactSet, workers : {1}]
  /\ (cc.compact \/ HasLimits(cc))
  /\ now = 10 /\ pend = NoPend /\ rr = [r \in RevReaders |-> NoRev]
  /\ last = [a |-> "Open"] /\ nRecs = 0 /\ nOps = 0 /\ nCleans = 0 /\ nTicks = 0 /\ recUpTo = 0 /\ dirty = FALSE

\* a batch of n records with keys ks[1..n]; the clock advances by one per record,
\* timestamps = clock - lag (lag > 0: non-monotone write times)
\* With optimistic concurrency control (single-message batches) the expected offset
\* may be wrong (miss): the append is refused AFTER the split check, which can leave
\* an empty active segment behind - a segment with 0 messages for the cleaners.
MCAppend(n, ks, big, de, lag, miss) ==
  /\ nRecs + n <= MaxRecs
  /\ CurEpoch + de <= MaxEpoch
  /\ cfg.occ => n = 1
  /\ miss => cfg.occ
  /\ LET x    == IF miss THEN NextOff + 1 ELSE -1
         recs == [i \in 1..n |-> Rec(nRecs + i, ks[i], big /\ i = 1, CurEpoch + de, now + i - lag, x)] IN
     /\ CAppend(recs)
     /\ Step([a |-> "Append", recs |-> recs])
  /\ nRecs' = nRecs + n
  /\ UNCHANGED <<nCleans, nTicks>>

MCSetHW(h) == CSetHW(h) /\ Step([a |-> "SetHW", h |-> h]) /\ UNCHANGED <<nRecs, nCleans, nTicks>>

MCNewLeaderEpoch ==
  /\ UseEpochs /\ LatestEpoch(epochs) < MaxEpoch /\ CurEpoch < MaxEpoch
  /\ CNewLeaderEpoch(CurEpoch + 1)
  /\ Step([a |-> "NewLeaderEpoch", e |-> CurEpoch + 1]) /\ UNCHANGED <<nRecs, nCleans, nTicks>>

MCTick(d) ==
  /\ nTicks < MaxTicks /\ cc.age > 0
  /\ DoTick(d) /\ Step([a |-> "Tick", d |-> d])
  /\ nTicks' = nTicks + 1 /\ UNCHANGED <<nRecs, nCleans>>

\* The situation a clean finds, as classes (for coverage-guided selection of the
\* behaviours that are replayed; carried in `last`, ignored by the driver):
\* n = segments, av = per non-last segment whether its last write is Older than /
\* Equal to / Younger than the age cut-off, d1 = segments dropped by the age step,
\* d = dropped by all limits, lim = which limits are configured, e = the active
\* segment is empty, cnt = messages per segment, kv = per record what compaction
\* makes of it: "T" newest segment, "H" at or above the HW, "N" no key, "L" latest
\* committed of its key, "D" dominated (removable), "" when compaction is off
CleanClass ==
  LET n == Len(segs)
      t == now - cc.age
  IN [n   |-> n,
      cnt |-> [k \in 1..n |-> SegCount(log, segs, k)],
      kv  |-> IF cc.compact
              THEN [i \in DOMAIN log |->
                      IF log[i].off >= segs[n].base THEN "T"
                      ELSE IF log[i].off >= hw THEN "H"
                      ELSE IF log[i].key = "nil" THEN "N"
                      ELSE IF log[i].off = LatestOff(log, hw, log[i].key) THEN "L" ELSE "D"]
              ELSE <<>>,
      \* fv = the same classes for the FIRST write of each non-last segment (a segment
      \* may straddle the cut-off), rv = "r" if the segment object was set up from
      \* the index (after a reopen / Replace), "w" if it was written in this process
      fv  |-> IF cc.age > 0
              THEN [k \in 1..n - 1 |-> LET r == SegRecs(log, segs, k) IN
                      IF r = <<>> THEN "-" ELSE IF r[1].ts < t THEN "O"
                      ELSE IF r[1].ts = t THEN "E" ELSE "Y"]
              ELSE <<>>,
      rv  |-> [k \in 1..n - 1 |-> IF segs[k].base < recUpTo THEN "r" ELSE "w"],
      av  |-> IF cc.age > 0
              THEN [k \in 1..n - 1 |-> IF SegLwt(log, segs, k) < t THEN "O"
                                       ELSE IF SegLwt(log, segs, k) = t THEN "E" ELSE "Y"]
              ELSE <<>>,
      d1  |-> IF cc.age > 0 THEN AgeDrop(log, segs, t) ELSE 0,
      d   |-> RetainDrop(log, segs, cc, t),
      lim |-> <<cc.age > 0, cc.msgs > 0, cc.bytes > 0>>,
      e   |-> SegRecs(log, segs, n) = <<>>]

MCClean ==
  /\ nCleans < MaxCleans /\ Len(segs) >= MinCleanSegs
  /\ DoClean /\ Step([a |-> "Clean", cls |-> CleanClass])
  /\ nCleans' = nCleans + 1 /\ UNCHANGED <<nRecs, nTicks>>

\* a clean with a transient deletion error; it is always followed (not necessarily
\* at once: appends, HW moves and ticks may come first) by a retry
MCCleanFail(k) ==
  /\ UseFaults /\ ~dirty /\ nCleans < MaxCleans - 1 /\ nOps < MaxOps - 1
  /\ DoCleanFail(k) /\ Step([a |-> "CleanFail", k |-> k, cls |-> CleanClass])
  /\ nCleans' = nCleans + 1 /\ UNCHANGED <<nRecs, nTicks>>

MCCleanBegin ==
  /\ ~dirty /\ UseWindow /\ nCleans < MaxCleans /\ Len(segs) >= MinCleanSegs
  /\ DoCleanBegin /\ Step([a |-> "CleanBegin", cls |-> CleanClass])
  /\ nCleans' = nCleans + 1 /\ UNCHANGED <<nRecs, nTicks>>

MCCleanEnd == DoCleanEnd /\ Step([a |-> "CleanEnd"]) /\ UNCHANGED <<nRecs, nCleans, nTicks>>

MCReopen == ~dirty /\ UseReopen /\ CReopen /\ Step([a |-> "Reopen"]) /\ UNCHANGED <<nRecs, nCleans, nTicks>>

\* persistent readers: created at any offset, drained at any time outside a pending
\* clean; only without retention limits (see CDrain)
MCNewReader(r, s, c) ==
  /\ ~dirty /\ UseReaders /\ ~HasLimits(cc) /\ ~rd[r].alive
  /\ c => s >= 0        \* a committed reader is only ever started at a real offset
  /\ CNewReader(r, s, c) /\ Step([a |-> "NewReader", r |-> r, s |-> s, c |-> c])
  /\ UNCHANGED <<nRecs, nCleans, nTicks>>
MCDrain(r) ==
  /\ ~dirty /\ UseReaders /\ CDrain(r) /\ Step([a |-> "Drain", r |-> r])
  /\ UNCHANGED <<nRecs, nCleans, nTicks>>

\* persistent reverse readers: created at any offset at any time - also between the
\* snapshot and the swap of a clean -, read message by message or drained, so that a
\* clean can overtake them
MCNewRev(r, s, c) ==
  /\ ~dirty /\ UseRevReaders /\ ~rr[r].alive
  /\ DoNewRev(r, s, c) /\ Step([a |-> "NewRev", r |-> r, s |-> s, c |-> c])
  /\ UNCHANGED <<nRecs, nCleans, nTicks>>
MCRevRead(r, all) ==
  /\ ~dirty /\ UseRevReaders /\ DoRevRead(r, all) /\ Step([a |-> "RevRead", r |-> r, all |-> all])
  /\ UNCHANGED <<nRecs, nCleans, nTicks>>

\* a pending clean is always completed: when the budget is nearly used up only
\* CleanEnd remains
Room == (pend.on \/ dirty) => nOps < MaxOps - 1

MCNext ==
  \/ Room /\ \E n \in 1..MaxBatch, ks \in [1..MaxBatch -> KeySet], big \in BigSet, de \in 0..1, lag \in LagSet, miss \in BOOLEAN :
        /\ \A i \in n + 1..MaxBatch : ks[i] = ks[1]        \* unused positions do not multiply choices
        /\ MCAppend(n, ks, big, de, lag, miss)
  \/ Room /\ \E h \in (hw + 1)..Newest : MCSetHW(h)
  \/ Room /\ MCNewLeaderEpoch
  \/ Room /\ \E d \in 1..2 : MCTick(d)
  \/ MCClean
  \/ \E k \in 1..Len(segs) : MCCleanFail(k)
  \/ MCCleanBegin
  \/ MCCleanEnd
  \/ MCReopen
  \/ \E r \in Readers, s \in -1..(Newest + 1), c \in BOOLEAN : MCNewReader(r, s, c)
  \/ \E r \in Readers : MCDrain(r)
  \/ Room /\ \E r \in RevReaders, s \in -1..(Newest + 1), c \in BOOLEAN : MCNewRev(r, s, c)
  \/ Room /\ \E r \in RevReaders, all \in BOOLEAN : MCRevRead(r, all)

MCSpec == MCInit /\ [][MCNext]_mcvars

StepOK ==
  LET a == last' IN
  CASE a.a = "Append" -> P_Append(a.recs)
    [] a.a = "SetHW" -> P_SetHW(a.h)
    [] a.a = "Clean" -> P_Clean(Snapshot)
    [] a.a = "CleanEnd" -> P_Clean(pend)
    [] a.a = "Drain" -> P_Drain(a.r)
    [] a.a = "RevRead" -> P_RevRead(a.r, a.all)
    [] OTHER -> P_Same
StepsOK == [][StepOK]_mcvars

\* the key-map confusion of nil and empty keys (known finding C08-empty-key):
\* the only way the specification of the code may break C08_Survivors
Tainted(b) == \E i \in DOMAIN b.log : b.log[i].key = "empty"

MCView == <<cfg, log, segs, hw, epochs, ro, rd, rr, cc, now, pend, nRecs, nOps, nCleans, nTicks>>
=============================================================================
