SPECIFICATION MCSpec
CONSTANTS
  SageFix = TRUE
  FocusSize = 2
  MaxOps = 1
  Streams = {1}
  ChangeOne = TRUE
VIEW MCView
CHECK_DEADLOCK FALSE
