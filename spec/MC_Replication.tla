------------------------- MODULE MC_Replication -------------------------
(* Bounded instance of Replication for the exhaustive design check and for *)
(* stimulus generation.                                                     *)
EXTENDS Replication, TLC

CONSTANTS MaxMsgs, MaxElect, MaxCrash, MaxIsrOps, MaxRejects, Policies, UseCheckpoint, IgnoreTaints, Batch, MaxPause, MaxHold
VARIABLES last, nMsgs, nElect, nCrash, nIsr, nRej, nPause, nHold
mcvars == <<vars, last, nMsgs, nElect, nCrash, nIsr, nRej, nPause, nHold>>
budget == <<nMsgs, nElect, nCrash, nIsr, nRej, nPause, nHold>>

MCInit == Init /\ last = [a |-> "Init"] /\ nMsgs = 0 /\ nElect = 0 /\ nCrash = 0 /\ nIsr = 0 /\ nRej = 0 /\ nPause = 0 /\ nHold = 0

\* one batch of 1..Batch messages with any mix of ack policies; in a batch of more
\* than one message any member but the first may be too large (rejected)
MCPublish(pols, bigs) ==
  LET recs == [i \in 1..Len(pols) |-> [v |-> nMsgs + i, pol |-> pols[i], big |-> bigs[i]]]
      nb == Cardinality({i \in 1..Len(pols) : bigs[i]}) IN
  /\ nMsgs + Len(pols) <= MaxMsgs
  /\ ~bigs[1] /\ nRej + nb <= MaxRejects
  /\ DoPublish(recs)
  /\ last' = [a |-> "Publish", recs |-> recs]
  /\ nMsgs' = nMsgs + Len(pols) /\ nRej' = nRej + nb /\ UNCHANGED <<nElect, nCrash, nIsr, nPause, nHold>>
MCReject ==
  /\ nRej < MaxRejects
  /\ DoPublishRejected(100 + nRej)
  /\ last' = [a |-> "PublishRejected", v |-> 100 + nRej]
  /\ nRej' = nRej + 1 /\ UNCHANGED <<nMsgs, nElect, nCrash, nIsr, nPause, nHold>>
MCFetch(f, late) == DoFetch(f, late) /\ last' = [a |-> "Fetch", f |-> f, late |-> late] /\ UNCHANGED budget
MCFetchLost(f) == nCrash < MaxCrash /\ DoFetchLost(f) /\ last' = [a |-> "FetchLost", f |-> f]
                  /\ nCrash' = nCrash + 1 /\ UNCHANGED <<nMsgs, nElect, nIsr, nRej, nPause, nHold>>
\* a round trip cut in two: the response is held on its way (at most MaxHold times per behaviour)
MCFetchHold(f, late) == nHold < MaxHold /\ DoFetchHold(f, IF late THEN "late" ELSE "early")
                        /\ last' = [a |-> "FetchHold", f |-> f, late |-> late]
                        /\ nHold' = nHold + 1 /\ UNCHANGED <<nMsgs, nElect, nCrash, nIsr, nRej, nPause>>
MCDeliver(f) == DoDeliver(f, TRUE) /\ last' = [a |-> "Deliver", f |-> f] /\ UNCHANGED budget
MCLagExpire(f) == DoLagExpire(f) /\ last' = [a |-> "LagExpire", f |-> f] /\ UNCHANGED budget
MCShrink(f) == nIsr < MaxIsrOps /\ DoShrink(f) /\ last' = [a |-> "Shrink", f |-> f]
               /\ nIsr' = nIsr + 1 /\ UNCHANGED <<nMsgs, nElect, nCrash, nRej, nPause, nHold>>
MCExpand(f) == nIsr < MaxIsrOps /\ DoExpand(f) /\ last' = [a |-> "Expand", f |-> f]
               /\ nIsr' = nIsr + 1 /\ UNCHANGED <<nMsgs, nElect, nCrash, nRej, nPause, nHold>>
MCCheckpoint(r) == UseCheckpoint /\ DoCheckpoint(r) /\ last' = [a |-> "Checkpoint", r |-> r] /\ UNCHANGED budget
MCCrash(r) == nCrash < MaxCrash /\ DoCrash(r) /\ last' = [a |-> "Crash", r |-> r]
              /\ nCrash' = nCrash + 1 /\ UNCHANGED <<nMsgs, nElect, nIsr, nRej, nPause, nHold>>
MCRestart(r, reach) == DoRestart(r, reach) /\ last' = [a |-> "Restart", r |-> r, reach |-> reach] /\ UNCHANGED budget
MCElect(n, reach, lag) == nElect < MaxElect /\ DoElect(n, reach, lag)
                     /\ last' = [a |-> "Elect", n |-> n, reach |-> reach, lag |-> lag]
                     /\ nElect' = nElect + 1 /\ UNCHANGED <<nMsgs, nCrash, nIsr, nRej, nPause, nHold>>
MCStaleFetch(f) == DoStaleFetch(f) /\ obs.acks = obs.acks /\ last.a # "StaleFetch"
                   /\ last' = [a |-> "StaleFetch", f |-> f] /\ UNCHANGED budget
MCApplyMeta(f, reach) == DoApplyMeta(f, reach) /\ last' = [a |-> "ApplyMeta", f |-> f, reach |-> reach] /\ UNCHANGED budget

MCPauseResume == nPause < MaxPause /\ DoPauseResume /\ last' = [a |-> "PauseResume"]
                 /\ nPause' = nPause + 1 /\ UNCHANGED <<nMsgs, nElect, nCrash, nIsr, nRej, nHold>>

MCNext ==
  \/ MCPauseResume
  \/ \E n \in 1..Batch : \E pols \in [1..n -> Policies], bigs \in [1..n -> BOOLEAN] : MCPublish(pols, bigs)
  \/ MCReject
  \/ \E f \in R, late \in BOOLEAN : MCFetch(f, late) \/ MCFetchHold(f, late)
  \/ \E f \in R : MCDeliver(f)
  \/ \E f \in R : MCLagExpire(f) \/ MCShrink(f) \/ MCExpand(f) \/ MCCheckpoint(f) \/ MCCrash(f) \/ MCFetchLost(f)
  \/ \E r \in R, reach \in BOOLEAN : MCRestart(r, reach) \/ MCApplyMeta(r, reach)
  \/ \E r \in R, reach \in BOOLEAN, lag \in SUBSET R : MCElect(r, reach, lag)
  \/ \E f \in R : MCStaleFetch(f)

MCSpec == MCInit /\ [][MCNext]_mcvars

Clean == IgnoreTaints \/ taint = {}
Inv_CommittedSurvives == Clean => C02_CommittedSurvives
Inv_NoDivergence == Clean => C02_NoDivergence
Inv_HWBacked == Clean => C02_HWBacked
Inv_Nacked == C04_NackedNeverStored
Inv_Struct == EpochCachesWellFormed /\ LeaderInISR
AcksOK == [][Clean' => C04_AcksOK]_mcvars
HWMono == [][HWMonotoneWhileUp]_mcvars

\* reachability probes for the known-defect tags (violated = reachable; the
\* counterexample is the stimulus that reproduces the defect on the real code)
NoTaint_EpochConvention == "epoch-convention" \notin taint
NoTaint_EpochGap == "epoch-gap" \notin taint
NoTaint_HWFallback == "hw-fallback" \notin taint
NoTaint_ExpandLagging == "expand-lagging" \notin taint
\* the other direction of the HW fallback (it keeps something the serving leader does not hold) never is the
\* FIRST thing that goes wrong in the action as specified
NoTaint_HWFallbackKeptAlone == taint # {"hw-fallback-kept"}
NoTaint_HWFallbackReported == "hw-fallback-reported" \notin taint
NoTaint_StaleIsrOffset == "stale-isr-offset" \notin taint
\* ... and of an actual property violation behind each tag
Bad == ~C02_CommittedSurvives \/ ~C02_NoDivergence
NoBad_EpochConvention == ~(taint = {"epoch-convention"} /\ Bad)
NoBad_EpochGap == ~(taint = {"epoch-gap"} /\ Bad)
NoBad_HWFallback == ~(taint = {"hw-fallback"} /\ Bad)
NoBad_ExpandLagging == ~(taint = {"expand-lagging"} /\ Bad)
\* (the HW of the serving leader passes what an in-sync member holds: the state form of "committed")
NoBad_HWFallbackReported == ~("hw-fallback-reported" \in taint /\ taint \subseteq {"hw-fallback-reported", "stale-isr-offset"} /\ ~C02_HWBacked)
NoBad_StaleIsrOffset == ~(taint = {"stale-isr-offset"} /\ Bad)

\* an ALL-policy ack just emitted although some in-sync member lacks the record
AckBad == \E a \in obs.acks : a.pol = "ALL" /\
            (~(a.off < Len(log[Leader])) \/ \E r \in meta.isr : ~Has(r, a.off, log[Leader][a.off + 1]))
NoBadAck_EpochConvention == ~(taint = {"epoch-convention"} /\ AckBad)
NoBadAck_EpochGap == ~(taint = {"epoch-gap"} /\ AckBad)
NoBadAck_HWFallback == ~(taint = {"hw-fallback"} /\ AckBad)
NoBadAck_ExpandLagging == ~(taint = {"expand-lagging"} /\ AckBad)
NoBadAck_StaleIsrOffset == ~(taint = {"stale-isr-offset"} /\ AckBad)

MCView == <<meta, up, role, log, hw, hwDisk, ec, isrOff, pend, caught, committed, nacked, taint, lagging, inflight, nMsgs, nElect, nCrash, nIsr, nRej, nPause, nHold>>
=============================================================================
