SPECIFICATION MCSpec
CONSTANTS
  Lens = {0}
  HLs = {0}
  BoundsChecked = TRUE
  MaxPub = 6
  PubLens = {0, 7, 8, 9, 10, 12, 13, 14, 24, 28, 40}
  PubHLs = {0, 7, 8, 9, 10, 12, 13, 14, 16, 255}
  MaxN = 0
  MaxInt = 4
  MaxShape = 3
  IntAnywhere = TRUE
  TableOn = FALSE
CHECK_DEADLOCK FALSE
