SPECIFICATION MCSpec
CONSTANTS
  SageFix = TRUE
  FocusSize = 2
  MaxOps = 3
  Streams = {1, 2}
  ChangeOne = FALSE
CHECK_DEADLOCK FALSE
