SPECIFICATION MCSpec
CONSTANTS
  F = {"b", "c"}
  MaxRec = 3
  MaxEp = 3
  FetchMax = 1
  WideEvery = 0
  SlowTimeouts = TRUE
  ZombieSteals = FALSE
  MaxTick = 2
  MaxSlow = 1
  MaxIdleT = 2
  MaxKill = 1
  TrackLast = TRUE

CHECK_DEADLOCK FALSE
