--------------------------- MODULE Replication ---------------------------
(***************************************************************************)
(* ISR replication of one partition over three replicas                    *)
(* (server/partition.go, server/replicator.go, controller ops applied      *)
(* through server/fsm.go + server/metadata.go, server/commitlog epochs).   *)
(*                                                                         *)
(* The controller (Raft-replicated metadata) is a linearised sequence of   *)
(* operations; every operation is applied to all replicas that are up in   *)
(* one step (a replica that is down learns the current metadata when it    *)
(* restarts).  Each step of the model is an external stimulus followed by  *)
(* the internal loops of the code run to quiescence (the commit loop runs  *)
(* right after whatever signalled it), which is exactly how the step-tier  *)
(* harness drives the real code.                                           *)
(*                                                                         *)
(*   meta      controller view [leader, lepoch, isr, idx]  (idx = Raft     *)
(*             index of the last partition op = epoch source)              *)
(*   up, role  per replica: process alive; "leader" / "follower" / "none"  *)
(*   log       per replica: sequence of [e, v] (offset = index - 1)        *)
(*   hw        per replica high watermark; hwDisk = checkpointed value     *)
(*   ec        per replica leader-epoch cache: sequence of [e, s]          *)
(*   isrOff    per replica: the partition's isr map  member -> latest      *)
(*             offset known (kept by every replica, survives role changes) *)
(*   pend      commit queue of the leader: sequence of [off, pol, v]       *)
(*   caught    leader's health view: follower caught up within the lag     *)
(*             window (set by a fetch at the log end, cleared by LagExpire)*)
(*   obs       observable output of the last step: acks sent, nacks        *)
(*   committed history: [o, rec] once stored by every in-sync replica and  *)
(*             covered by the serving leader's HW                          *)
(*   nacked    history: ids negatively acknowledged                        *)
(*   taint     ghost: known-defect tags whose culprit step has occurred    *)
(*   lagging   followers that are up but have not applied the latest leader *)
(*             change yet: they still follow the old leader in the old      *)
(*             epoch (their fetch requests must be ignored by the new one)  *)
(*   inflight  per follower: <<>> or <<r>>, r = a replication response the    *)
(*             leader has sent and the follower has not acted upon yet      *)
(*             [ok, hwE, hwL, base, data]: ok = the follower still is the   *)
(*             incarnation that asked, following the leader epoch it asked  *)
(*                                                                         *)
(* Every action X is given as a guard G_X(args) and a record N_X(args) of  *)
(* the next value of every variable (so that trace validation can test     *)
(* each recorded variable separately and compute the unrecorded ones).     *)
(***************************************************************************)
EXTENDS Integers, Sequences, FiniteSets, LogDefs

CONSTANTS R,            \* replicas (strings)
          MinISR,       \* minimum in-sync replicas for a commit
          FetchMax,     \* capacity of one replication response, in size units (a plain record is 1)
          OffsetReset,  \* becomeLeader: "all" = replica offsets of earlier terms are forgotten (the code);
                        \* defective variants used to derive directed scenarios: "none" keeps them,
                        \* "ahead" forgets only those beyond the new leader's log end
          WideEvery,    \* > 0: every record whose value is a multiple of it takes 2 units; 0: all plain
          HWFallback,   \* BOOLEAN: a follower may fail to reach a serving leader when reconciling
          ElectAlive,   \* BOOLEAN: a leader may be replaced while it is still up
          ElectDown,    \* BOOLEAN: a replica that is down may be elected
          AllowLag,     \* BOOLEAN: followers may apply a leader change later than the new leader
          LateResp      \* a replication response that reaches a follower late: "drop" = it is acted upon only by
                        \* the follower that asked for it, while it still follows the leader (epoch) it asked (the
                        \* code); defective variant "accept": whoever follows when it arrives stores it

VARIABLES meta, up, role, log, hw, hwDisk, ec, isrOff, pend, caught, obs, committed, nacked, taint, lagging, inflight
vars == <<meta, up, role, log, hw, hwDisk, ec, isrOff, pend, caught, obs, committed, nacked, taint, lagging, inflight>>

NoAcks == [acks |-> {}, nacks |-> {}]

\* the current value of every variable except the history `committed`
Cur == [meta |-> meta, up |-> up, role |-> role, log |-> log, hw |-> hw, hwDisk |-> hwDisk,
        ec |-> ec, isrOff |-> isrOff, pend |-> pend, caught |-> caught, obs |-> NoAcks,
        nacked |-> nacked, taint |-> taint, lagging |-> lagging, inflight |-> inflight]

-----------------------------------------------------------------------------
Min(S) == CHOOSE x \in S : \A y \in S : x <= y
Max2(a, b) == IF a > b THEN a ELSE b
Newest(r) == Len(log[r]) - 1
NewestAll == [x \in R |-> Len(log[x]) - 1]
HasIn(lg, r, o, rec) == o < Len(lg[r]) /\ lg[r][o + 1] = rec
Has(r, o, rec) == HasIn(log, r, o, rec)
Prefix(l, n) == IF n >= Len(l) THEN l ELSE IF n <= 0 THEN <<>> ELSE SubSeq(l, 1, n)
IsPrefixOf(a, b) == Len(a) <= Len(b) /\ \A i \in 1..Len(a) : a[i] = b[i]

\* commitLog.append on replicated / published records: a record whose epoch
\* exceeds the latest cached epoch starts that epoch AT ITS OWN offset
RECURSIVE AssignFrom(_, _, _)
AssignFrom(c, msgs, base) ==
  IF msgs = <<>> THEN c
  ELSE AssignFrom(Assign(c, Head(msgs).e, base), Tail(msgs), base + 1)

\* Truncate(o): drop records with offset >= o, clear newer epoch entries
TruncLog(l, o) == Prefix(l, o)
TruncEc(c, o) == ClearLatest(c, o)

\* commitlog.New on restart trims the epoch cache to the log
ReopenEc(c, l) == ClearEarliest(ClearLatest(c, Len(l)), IF l = <<>> THEN -1 ELSE 0)

\* reference answer to "last offset of epoch e": the offset of the last record
\* of the newest epoch <= e that the answering log actually holds
RefAnswer(l, e) ==
  LET I == {i \in 1..Len(l) : l[i].e <= e} IN
  IF I = {} THEN -1 ELSE (CHOOSE i \in I : \A j \in I : i >= j) - 1

\* the commit loop run to quiescence on queue q with isr offsets io at HW h, where
\* nw[x] is the real newest offset of replica x at that moment:
\* <<new hw, new queue, set of ALL-policy acks, known-defect tags>>
\* (tag: the commit point exceeds what some in-sync member really holds, which
\* happens when an isr offset learned in an earlier leadership term is still in the map)
CommitRun(io, q, h, nw) ==
  IF Cardinality(DOMAIN io) < MinISR THEN <<h, q, {}, {}>>
  ELSE LET m == Min({io[x] : x \in DOMAIN io})
           n == Cardinality({i \in 1..Len(q) : \A j \in 1..i : q[j].off <= m})
           taken == SubSeq(q, 1, n)
       IN <<Max2(h, m), SubSeq(q, n + 1, Len(q)),
            {[v |-> taken[i].v, off |-> taken[i].off, pol |-> "ALL"] :
               i \in {j \in 1..n : taken[j].pol = "ALL"}},
            IF m > h /\ m > Min({nw[x] : x \in DOMAIN io}) THEN {"stale-isr-offset"} ELSE {}>>

\* size of a record in units, and of the records lg[a..b]
Sz(v) == IF WideEvery > 0 /\ v % WideEvery = 0 THEN 2 ELSE 1
RECURSIVE SzSum(_, _, _)
SzSum(lg, a, b) == IF a > b THEN 0 ELSE Sz(lg[a].v) + SzSum(lg, a + 1, b)

Leader == meta.leader
Leading(l) == up[l] /\ role[l] = "leader"

-----------------------------------------------------------------------------
Init ==
  LET l0 == CHOOSE r \in R : TRUE IN
  /\ meta = [leader |-> l0, lepoch |-> 1, isr |-> R, idx |-> 1]
  /\ up = [r \in R |-> TRUE]
  /\ role = [r \in R |-> IF r = l0 THEN "leader" ELSE "follower"]
  /\ log = [r \in R |-> <<>>]
  /\ hw = [r \in R |-> -1] /\ hwDisk = [r \in R |-> -1]
  /\ ec = [r \in R |-> IF r = l0 THEN <<[e |-> 1, s |-> -1]>> ELSE <<>>]
  /\ isrOff = [r \in R |-> [x \in R |-> -1]]
  /\ pend = [r \in R |-> <<>>]
  /\ caught = [r \in R |-> FALSE]
  /\ obs = NoAcks /\ committed = {} /\ nacked = {} /\ taint = {} /\ lagging = {}
  /\ inflight = [r \in R |-> <<>>]

\* committed = stored by every in-sync replica AND covered by the HW of the serving
\* leader (the moment an ALL-policy acknowledgement can be sent); n = next values
NewlyCommitted(n) ==
  LET l == n.meta.leader IN
  IF ~(n.up[l] /\ n.role[l] = "leader") THEN {}
  ELSE {[o |-> o, rec |-> n.log[l][o + 1]] :
          o \in {x \in 0..(Len(n.log[l]) - 1) :
                   x <= n.hw[l] /\ \A r \in n.meta.isr : HasIn(n.log, r, x, n.log[l][x + 1])}}

\* take the step described by the record n
Step(n) ==
  /\ meta' = n.meta /\ up' = n.up /\ role' = n.role /\ log' = n.log /\ hw' = n.hw
  /\ hwDisk' = n.hwDisk /\ ec' = n.ec /\ isrOff' = n.isrOff /\ pend' = n.pend
  /\ caught' = n.caught /\ obs' = n.obs /\ nacked' = n.nacked /\ taint' = n.taint
  /\ lagging' = n.lagging /\ inflight' = n.inflight
  /\ committed' = committed \cup NewlyCommitted(n)

\* ---- publish: the leader's message processing loop handles one batch
\* recs: sequence of [v, pol, big]; a message larger than the replication limit
\* (big) is negatively acknowledged and left out of the batch, the others are
\* stored at consecutive offsets
G_Publish(recs) == Leading(Leader)
N_Publish(recs) ==
  LET l == Leader
      okr == SelectSeq(recs, LAMBDA r : ~r.big)
      bad == {recs[i].v : i \in {j \in 1..Len(recs) : recs[j].big}}
      base == Len(log[l])
      new == [i \in 1..Len(okr) |-> [e |-> meta.lepoch, v |-> okr[i].v]]
      \* replication factor 1 (fast path): messages that do not ask for an ALL ack are not queued for
      \* the commit loop, and a batch without any ALL message moves the HW to its last offset at once
      \* (whatever the minimum ISR is); ALL messages take the normal route
      fast == Cardinality(R) = 1
      ents == [i \in 1..Len(okr) |-> [off |-> base + i - 1, pol |-> okr[i].pol, v |-> okr[i].v]]
      q == pend[l] \o (IF fast THEN SelectSeq(ents, LAMBDA x : x.pol = "ALL") ELSE ents)
      io == IF l \in DOMAIN isrOff[l]
            THEN [isrOff[l] EXCEPT ![l] = Max2(@, base + Len(okr) - 1)] ELSE isrOff[l]
      cr0 == CommitRun(io, q, hw[l], [NewestAll EXCEPT ![l] = base + Len(okr) - 1])
      cr == IF fast /\ \A i \in 1..Len(okr) : okr[i].pol # "ALL"
            THEN <<Max2(cr0[1], base + Len(okr) - 1), cr0[2], cr0[3], cr0[4]>> ELSE cr0
      lacks == {[v |-> okr[i].v, off |-> base + i - 1, pol |-> "LEADER"] : i \in {j \in 1..Len(okr) : okr[j].pol = "LEADER"}}
  IN IF okr = <<>>
     THEN [Cur EXCEPT !.obs = [acks |-> {}, nacks |-> bad], !.nacked = nacked \cup bad]
     ELSE [Cur EXCEPT !.log = [log EXCEPT ![l] = @ \o new],
                      !.ec = [ec EXCEPT ![l] = AssignFrom(@, new, base)],
                      !.isrOff = [isrOff EXCEPT ![l] = io],
                      !.hw = [hw EXCEPT ![l] = cr[1]],
                      !.pend = [pend EXCEPT ![l] = cr[2]],
                      !.obs = [acks |-> lacks \cup cr[3], nacks |-> bad],
                      !.nacked = nacked \cup bad,
                      !.taint = taint \cup cr[4]]

\* a message the leader refuses (too large / failed seal): negative ack, nothing stored
G_PublishRejected(v) == Leading(Leader)
N_PublishRejected(v) == [Cur EXCEPT !.obs = [acks |-> {}, nacks |-> {v}], !.nacked = nacked \cup {v}]

\* ---- one replication round trip of follower f (request + response)
\* late: the response carries the HW after (TRUE) or before (FALSE) the commit
\* loop ran on the leader (the two run concurrently in the code)
\* the replication loop of f is at the top of its loop (not waiting inside the handler of a response)
LoopFree(f) == IF inflight[f] = <<>> THEN TRUE ELSE ~inflight[f][1].ok
\* the follower's view of a leader change moved on / its partition object was replaced: a response
\* still on its way to it was asked for by somebody who no longer exists
Outdated(r) == IF inflight[r] = <<>> THEN <<>> ELSE <<[inflight[r][1] EXCEPT !.ok = FALSE]>>
\* replicator.replicate: records are packed in order while the next one still fits;
\* the first that does not fit ends the response (it leads the next one)
Packed(l, req) ==
  LET rest == Len(log[l]) - (req + 1)
      n == IF req >= Newest(l) THEN 0
           ELSE Cardinality({k \in 1..rest : SzSum(log[l], req + 2, req + 1 + k) <= FetchMax})
  IN IF n = 0 THEN <<>> ELSE SubSeq(log[l], req + 2, req + 1 + n)

G_Fetch(f) == f # Leader /\ up[f] /\ role[f] = "follower" /\ Leading(Leader) /\ f \notin lagging /\ LoopFree(f)
N_Fetch(f, late) ==
  LET l == Leader
      req == Newest(f)
      io == IF f \in DOMAIN isrOff[l] THEN [isrOff[l] EXCEPT ![f] = Max2(@, req)] ELSE isrOff[l]
      cr == CommitRun(io, pend[l], hw[l], NewestAll)
      atEnd == req >= Newest(l)
      data == Packed(l, req)
      sent == IF late THEN cr[1] ELSE hw[l]
  IN [Cur EXCEPT !.isrOff = [isrOff EXCEPT ![l] = io],
                 !.pend = [pend EXCEPT ![l] = cr[2]],
                 !.caught = [caught EXCEPT ![f] = IF atEnd THEN TRUE ELSE @],
                 !.hw = [hw EXCEPT ![l] = cr[1], ![f] = Max2(@, sent)],    \* HW adopted before the append
                 !.log = [log EXCEPT ![f] = @ \o data],
                 !.ec = [ec EXCEPT ![f] = AssignFrom(@, data, req + 1)],
                 !.obs = [acks |-> cr[3], nacks |-> {}],
                 !.taint = taint \cup cr[4]]

\* ---- a replication round trip whose response is lost: the leader handled the request
\* (recorded the offset the follower REPORTED, ran the commit loop, sent data), the
\* follower process died after receiving the response and before storing anything.
\* What the leader has sent never counts as stored.
G_FetchLost(f) == G_Fetch(f)
N_FetchLost(f) ==
  LET l == Leader
      req == Newest(f)
      io == IF f \in DOMAIN isrOff[l] THEN [isrOff[l] EXCEPT ![f] = Max2(@, req)] ELSE isrOff[l]
      cr == CommitRun(io, pend[l], hw[l], NewestAll)
      atEnd == req >= Newest(l)
  IN [Cur EXCEPT !.isrOff = [isrOff EXCEPT ![l] = io],
                 !.pend = [pend EXCEPT ![l] = cr[2], ![f] = <<>>],
                 !.caught = [caught EXCEPT ![f] = IF atEnd THEN TRUE ELSE @],
                 !.hw = [hw EXCEPT ![l] = cr[1], ![f] = hwDisk[f]],
                 !.up = [up EXCEPT ![f] = FALSE],
                 !.role = [role EXCEPT ![f] = "none"],
                 !.lagging = lagging \ {f},
                 !.inflight = [inflight EXCEPT ![f] = <<>>],
                 !.obs = [acks |-> cr[3], nacks |-> {}],
                 !.taint = taint \cup cr[4]]

\* ---- a replication round trip cut in two.  FetchHold: the leader handles the request of f
\* (records the offset f reported, runs the commit loop, sends the response); the response is on
\* its way.  Deliver: it reaches f - possibly after f crashed, after a leader change f has
\* applied (or not yet: a lagging follower still follows the deposed leader and stores what it
\* sent), after the partition was paused and resumed.  The specification: a response is acted
\* upon only by the follower that asked for it while it still follows the leader epoch it asked;
\* otherwise it is dropped whole (neither its HW nor its records are taken).
\* mode: which HW the response carries ("late" = after the commit loop ran, "early" = before,
\* "both" = undetermined until the delivery shows it: trace validation)
G_FetchHold(f) == G_Fetch(f) /\ inflight[f] = <<>>
N_FetchHold(f, mode) ==
  LET l == Leader
      req == Newest(f)
      io == IF f \in DOMAIN isrOff[l] THEN [isrOff[l] EXCEPT ![f] = Max2(@, req)] ELSE isrOff[l]
      cr == CommitRun(io, pend[l], hw[l], NewestAll)
      atEnd == req >= Newest(l)
  IN [Cur EXCEPT !.isrOff = [isrOff EXCEPT ![l] = io],
                 !.pend = [pend EXCEPT ![l] = cr[2]],
                 !.caught = [caught EXCEPT ![f] = IF atEnd THEN TRUE ELSE @],
                 !.hw = [hw EXCEPT ![l] = cr[1]],
                 !.inflight = [inflight EXCEPT ![f] =
                      <<[ok |-> TRUE, base |-> req + 1, data |-> Packed(l, req),
                         hwE |-> IF mode = "late" THEN cr[1] ELSE hw[l],
                         hwL |-> IF mode = "early" THEN hw[l] ELSE cr[1]]>>],
                 !.obs = [acks |-> cr[3], nacks |-> {}],
                 !.taint = taint \cup cr[4]]

G_Deliver(f) == inflight[f] # <<>>
N_Deliver(f, useLate) ==
  LET r == inflight[f][1]
      sent == IF useLate THEN r.hwL ELSE r.hwE
      acc == up[f] /\ role[f] = "follower" /\ (r.ok \/ LateResp = "accept")
      fits == r.base = Len(log[f])
  IN IF ~acc THEN [Cur EXCEPT !.inflight = [inflight EXCEPT ![f] = <<>>]]
     ELSE [Cur EXCEPT !.inflight = [inflight EXCEPT ![f] = <<>>],
                      !.hw = [hw EXCEPT ![f] = Max2(@, sent)],
                      !.log = [log EXCEPT ![f] = IF fits THEN @ \o r.data ELSE @],
                      !.ec = [ec EXCEPT ![f] = IF fits THEN AssignFrom(@, r.data, r.base) ELSE @]]

\* ---- leader's health view of follower f: the lag window passed without f
\* having been seen caught up
G_LagExpire(f) == f # Leader /\ caught[f]
N_LagExpire(f) == [Cur EXCEPT !.caught = [caught EXCEPT ![f] = FALSE]]

\* ---- the leader's periodic health check of follower f (replicator.tick): it
\* changes nothing by itself; it decides "out of sync" exactly when f was not seen
\* caught up within the lag window, and then asks the controller to shrink (f in
\* the ISR) or, when in sync and f outside the ISR, to expand
G_Tick(f) == Leading(Leader) /\ f # Leader
N_Tick(f) == Cur
TickOutOfSync(f) == ~caught[f]

\* ---- ISR shrink requested by the leader, committed by the controller,
\* applied by every replica that is up (RemoveFromISR + commit check)
G_Shrink(f) == Leading(Leader) /\ f # Leader /\ f \in meta.isr /\ ~caught[f]
N_Shrink(f) ==
  LET l == Leader
      rm(io) == [x \in (DOMAIN io) \ {f} |-> io[x]]
      cr == CommitRun(rm(isrOff[l]), pend[l], hw[l], NewestAll)
  IN [Cur EXCEPT !.meta = [meta EXCEPT !.isr = @ \ {f}, !.idx = @ + 1],
                 !.isrOff = [r \in R |-> IF up[r] /\ r \notin lagging THEN rm(isrOff[r]) ELSE isrOff[r]],
                 !.hw = [hw EXCEPT ![l] = cr[1]],
                 !.pend = [pend EXCEPT ![l] = cr[2]],
                 !.obs = [acks |-> cr[3], nacks |-> {}],
                 !.taint = taint \cup cr[4]]

\* ---- ISR expand: the code's guard is time based (seen and caught up within
\* the lag window), not "log end >= HW"
G_Expand(f) == Leading(Leader) /\ f # Leader /\ f \notin meta.isr /\ up[f] /\ caught[f]
N_Expand(f) ==
  LET add(io) == [x \in (DOMAIN io) \cup {f} |-> IF x = f THEN -1 ELSE io[x]]
      lacks == \E c \in committed : ~Has(f, c.o, c.rec)
  IN [Cur EXCEPT !.meta = [meta EXCEPT !.isr = @ \cup {f}, !.idx = @ + 1],
                 !.isrOff = [r \in R |-> IF up[r] /\ r \notin lagging THEN add(isrOff[r]) ELSE isrOff[r]],
                 !.taint = IF lacks THEN taint \cup {"expand-lagging"} ELSE taint]

G_Checkpoint(r) == up[r] /\ hwDisk[r] # hw[r]
N_Checkpoint(r) == [Cur EXCEPT !.hwDisk = [hwDisk EXCEPT ![r] = hw[r]]]

\* ---- process crash: volatile state is lost, the HW falls back to its checkpoint
G_Crash(r) == up[r]
N_Crash(r) == [Cur EXCEPT !.up = [up EXCEPT ![r] = FALSE],
                          !.role = [role EXCEPT ![r] = "none"],
                          !.pend = [pend EXCEPT ![r] = <<>>],
                          !.hw = [hw EXCEPT ![r] = hwDisk[r]],
                          !.inflight = [inflight EXCEPT ![r] = <<>>],
                          !.lagging = lagging \ {r}]

\* follower f reconciles with leader n (truncateUncommitted): <<log, ec, tags>>
\* reach: the leader answered; otherwise fall back to the local HW.
\* Known-defect tags (ghost): what is left must be a prefix of the leader's log
\* and no committed record may be cut; when that fails the tag names the cause:
\*   epoch-convention  the answer differs from the reference answer (elected
\*                     leaders record an epoch at the LAST offset before it,
\*                     replicated epochs are recorded at their FIRST offset)
\*   epoch-gap         the leader's log has no record of the follower's last
\*                     epoch (the protocol returns no epoch, so the follower
\*                     cannot see that its own tail is from a foreign epoch)
\*   hw-fallback       leader unreachable: truncation to the local, lagging HW deleted a
\*                     committed record the follower held
\*   hw-fallback-reported  leader unreachable (but serving): the truncation to the local HW deleted
\*                     records the follower had reported to that leader as held
\*   hw-fallback-kept  leader unreachable: what the truncation to the local HW left is not
\*                     a prefix of the serving leader's log (an orphan was kept)
Reconcile(f, n, ecn, lf, ecf, reach) ==
  IF reach
  THEN LET e == LatestEpoch(ecf)
           ans == LastOffsetForEpoch(ecn, e, Len(log[n]) - 1)
           ref == RefAnswer(log[n], e)
           after == TruncLog(lf, ans + 1)
           cut == \E c \in committed : c.o >= ans + 1 /\ c.o < Len(lf) /\ lf[c.o + 1] = c.rec
           bad == cut \/ ~IsPrefixOf(after, log[n])
       IN <<after, TruncEc(ecf, ans + 1),
            IF ~bad THEN {} ELSE IF ans # ref THEN {"epoch-convention"} ELSE {"epoch-gap"}>>
  ELSE LET h == hw[f]
           \* truncateToHW, three branches: the log ends at the HW - nothing to do; the HW is still -1 (no
           \* commit ever seen by this replica, or its checkpoint is missing): NOTHING in the log is known
           \* to be committed, the log is emptied completely (Truncate(0)) and refetched; otherwise
           \* everything above the HW goes
           noop == Len(lf) - 1 = h
           at == IF h < 0 THEN 0 ELSE h + 1
           after == IF noop THEN lf ELSE IF h < 0 THEN <<>> ELSE TruncLog(lf, at)
           \* the two directions in which the fallback can go wrong:
           \*   cut   it DELETES a committed record the follower holds (the open finding hw-fallback)
           \*   kept  what it KEEPS is not a prefix of the serving leader's log (an orphan stays below
           \*         whatever HW the follower adopts next) - never the case for the action as specified
           \*         unless another defect put the orphan below the follower's HW before
           \*   reported  it deletes records the follower had REPORTED to the serving leader as held (not
           \*         committed yet): the leader only ever raises a replica's offset (updateLatestOffset), so
           \*         it goes on counting them for the commit point (found in round 5, open finding)
           cut == \E c \in committed : c.o >= at /\ c.o < Len(lf) /\ lf[c.o + 1] = c.rec
           kept == Leading(n) /\ ~IsPrefixOf(after, log[n])
           reported == Leading(n) /\ f \in DOMAIN isrOff[n] /\ isrOff[n][f] > Len(after) - 1
       IN <<after, IF noop THEN ecf ELSE TruncEc(ecf, at),
            (IF cut THEN {"hw-fallback"} ELSE {}) \cup (IF kept THEN {"hw-fallback-kept"} ELSE {})
              \cup (IF reported THEN {"hw-fallback-reported"} ELSE {})>>

\* ---- restart of a crashed replica: reopen the log, rebuild the partition from
\* the current metadata, resume as leader (same epoch continues: NewLeaderEpoch
\* is skipped for a recovered partition) or as follower (reconcile)
G_Restart(r, reach) ==
  /\ ~up[r]
  /\ r # Leader => ((reach => Leading(Leader)) /\ (~reach => (HWFallback \/ ~Leading(Leader))))
  /\ r = Leader => reach
N_Restart(r, reach) ==
  LET l == Leader
      ecr == ReopenEc(ec[r], log[r])
      io == [x \in meta.isr |-> IF x = r THEN Newest(r) ELSE -1]
      res == Reconcile(r, l, ec[l], log[r], ecr, reach)
  IN IF l = r
     THEN [Cur EXCEPT !.up = [up EXCEPT ![r] = TRUE],
                      !.isrOff = [isrOff EXCEPT ![r] = io],
                      !.role = [role EXCEPT ![r] = "leader"],
                      !.ec = [ec EXCEPT ![r] = ecr],
                      !.caught = [x \in R |-> FALSE]]
     ELSE [Cur EXCEPT !.up = [up EXCEPT ![r] = TRUE],
                      !.isrOff = [isrOff EXCEPT ![r] = io],
                      !.role = [role EXCEPT ![r] = "follower"],
                      !.log = [log EXCEPT ![r] = res[1]],
                      !.ec = [ec EXCEPT ![r] = res[2]],
                      !.taint = taint \cup res[3]]

\* ---- leader change committed by the controller: new leader n from the ISR,
\* never the current leader; epoch = Raft index.  Applied first by n (if up),
\* then by the other replicas that are up (they reconcile against n).
G_Elect(n, reach, lag) ==
  /\ n \in meta.isr /\ n # Leader
  /\ lagging = {}
  /\ lag \subseteq {f \in R : up[f] /\ f # n /\ f # Leader /\ role[f] = "follower"}
  /\ (lag # {} => (AllowLag /\ up[n] /\ reach))
  /\ (ElectAlive \/ ~up[Leader])
  /\ (ElectDown \/ up[n])
  /\ (reach => up[n]) /\ (~reach => (HWFallback \/ ~up[n]))
N_Elect(n, reach, lag) ==
  LET e == meta.idx + 1
      ecn == IF up[n] THEN Assign(ec[n], e, Newest(n)) ELSE ec[n]
      res(f) == Reconcile(f, n, ecn, log[f], ec[f], reach)
      fol == {f \in R : up[f] /\ f # n /\ f \notin lag}
  IN [Cur EXCEPT !.meta = [meta EXCEPT !.leader = n, !.lepoch = e, !.idx = e],
                 !.lagging = lag,
                 !.role = [r \in R |-> IF ~up[r] THEN "none" ELSE IF r = n THEN "leader" ELSE "follower"],
                 !.log = [r \in R |-> IF r \in fol THEN res(r)[1] ELSE log[r]],
                 !.ec = [r \in R |-> IF r = n THEN ecn ELSE IF r \in fol THEN res(r)[2] ELSE ec[r]],
                 \* becomeLeader: offsets learned in an earlier term are forgotten
                 !.isrOff = [isrOff EXCEPT ![n] = IF up[n]
                                                   THEN [x \in DOMAIN @ |-> IF x = n THEN Newest(n)
                                                           ELSE IF OffsetReset = "none" THEN @[x]
                                                           ELSE IF OffsetReset = "ahead" /\ @[x] <= Newest(n) THEN @[x]
                                                           ELSE -1] ELSE @],
                 !.pend = [r \in R |-> <<>>],
                 !.caught = [r \in R |-> FALSE],
                 !.inflight = [r \in R |-> IF r \in lag THEN inflight[r] ELSE Outdated(r)],
                 !.taint = taint \cup UNION {res(f)[3] : f \in fol}]

\* ---- the stream is paused and resumed (PAUSE_STREAM then RESUME_STREAM applied by
\* every live replica): each partition object is closed (HW checkpointed) and REPLACED
\* by a new one built from the current metadata, the leader starts leading again,
\* then the followers reconcile against it.  Volatile state (commit queue, replica
\* offsets, health flags) starts afresh.
G_PauseResume == Leading(Leader) /\ lagging = {}
N_PauseResume ==
  LET l == Leader
      ecl == Assign(ReopenEc(ec[l], log[l]), meta.lepoch, Newest(l))
      fol == {f \in R : up[f] /\ f # l}
      res(f) == Reconcile(f, l, ecl, log[f], ReopenEc(ec[f], log[f]), TRUE)
  IN [Cur EXCEPT !.meta = [meta EXCEPT !.idx = @ + 2],
                 !.pend = [r \in R |-> IF up[r] THEN <<>> ELSE pend[r]],
                 !.hwDisk = [r \in R |-> IF up[r] THEN hw[r] ELSE hwDisk[r]],
                 !.isrOff = [r \in R |-> IF up[r] THEN [x \in meta.isr |-> IF x = r THEN Newest(r) ELSE -1] ELSE isrOff[r]],
                 !.caught = [r \in R |-> FALSE],
                 !.inflight = [r \in R |-> Outdated(r)],
                 !.log = [r \in R |-> IF r \in fol THEN res(r)[1] ELSE log[r]],
                 !.ec = [r \in R |-> IF r = l THEN ecl ELSE IF r \in fol THEN res(r)[2] ELSE ec[r]],
                 !.taint = taint \cup UNION {res(f)[3] : f \in fol}]

DoPauseResume == G_PauseResume /\ Step(N_PauseResume)
DoPublish(recs) == G_Publish(recs) /\ Step(N_Publish(recs))
DoPublishRejected(v) == G_PublishRejected(v) /\ Step(N_PublishRejected(v))
DoFetch(f, late) == G_Fetch(f) /\ Step(N_Fetch(f, late))
DoFetchLost(f) == G_FetchLost(f) /\ Step(N_FetchLost(f))
DoFetchHold(f, mode) == G_FetchHold(f) /\ Step(N_FetchHold(f, mode))
DoDeliver(f, useLate) == G_Deliver(f) /\ Step(N_Deliver(f, useLate))
DoLagExpire(f) == G_LagExpire(f) /\ Step(N_LagExpire(f))
DoShrink(f) == G_Shrink(f) /\ Step(N_Shrink(f))
DoExpand(f) == G_Expand(f) /\ Step(N_Expand(f))
DoCheckpoint(r) == G_Checkpoint(r) /\ Step(N_Checkpoint(r))
DoCrash(r) == G_Crash(r) /\ Step(N_Crash(r))
DoRestart(r, reach) == G_Restart(r, reach) /\ Step(N_Restart(r, reach))
\* ---- a lagging follower's fetch: it still carries the old leader epoch, the
\* new leader must ignore it (no progress is recorded, nothing is sent back)
G_StaleFetch(f) == f \in lagging /\ up[f] /\ role[f] = "follower" /\ LoopFree(f)
N_StaleFetch(f) == Cur

\* ---- a lagging follower applies the leader change: it reconciles with the leader
G_ApplyMeta(f, reach) ==
  /\ f \in lagging /\ up[f]
  /\ (reach => Leading(Leader)) /\ (~reach => (HWFallback \/ ~Leading(Leader)))
N_ApplyMeta(f, reach) ==
  LET res == Reconcile(f, Leader, ec[Leader], log[f], ec[f], reach) IN
  [Cur EXCEPT !.lagging = lagging \ {f},
              !.inflight = [inflight EXCEPT ![f] = Outdated(f)],
              \* ISR changes committed meanwhile are applied too
              !.isrOff = [isrOff EXCEPT ![f] = [x \in meta.isr |-> IF x \in DOMAIN @ THEN @[x] ELSE -1]],
              !.role = [role EXCEPT ![f] = "follower"],
              !.log = [log EXCEPT ![f] = res[1]],
              !.ec = [ec EXCEPT ![f] = res[2]],
              !.taint = taint \cup res[3]]

DoElect(n, reach, lag) == G_Elect(n, reach, lag) /\ Step(N_Elect(n, reach, lag))
DoStaleFetch(f) == G_StaleFetch(f) /\ Step(N_StaleFetch(f))
DoApplyMeta(f, reach) == G_ApplyMeta(f, reach) /\ Step(N_ApplyMeta(f, reach))

-----------------------------------------------------------------------------
(* Properties *)

\* C02a: every committed record is served, unchanged, by whoever leads now
C02_CommittedSurvives ==
  Leading(Leader) => \A c \in committed : Has(Leader, c.o, c.rec)

\* C02b: no two replicas differ at an offset at or below both high watermarks
C02_NoDivergence ==
  \A a, b \in R : \A o \in 0..(Len(log[a]) - 1) :
     (o <= hw[a] /\ o <= hw[b] /\ o < Len(log[b])) => log[a][o + 1] = log[b][o + 1]

\* C02c: what the serving leader treats as committed (everything at or below its
\* HW: that is what consumers are given and what ALL acks are sent for) really is
\* stored by every in-sync replica
C02_HWBacked ==
  Leading(Leader) =>
    \A o \in 0..hw[Leader] : o < Len(log[Leader]) => \A r \in meta.isr : Has(r, o, log[Leader][o + 1])

\* C04 (evaluated on the step that emits the acks): an ALL ack only when every
\* member of the in-sync set holds exactly that record at that offset and the
\* set is large enough; a LEADER ack only when the leader holds it; the ack's
\* offset is where that very record is stored
C04_AcksOK ==
  \A a \in obs'.acks :
     LET l == meta'.leader IN
     /\ a.off >= 0 /\ a.off < Len(log'[l]) /\ log'[l][a.off + 1].v = a.v
     /\ a.pol = "ALL" =>
          /\ Cardinality(meta'.isr) >= MinISR
          /\ \A r \in meta'.isr : a.off < Len(log'[r]) /\ log'[r][a.off + 1] = log'[l][a.off + 1]
     /\ a.pol # "NONE"

\* C04: a negatively acknowledged message is never stored
C04_NackedNeverStored ==
  \A r \in R : \A i \in 1..Len(log[r]) : log[r][i].v \notin nacked

\* structural
EpochCachesWellFormed == \A r \in R : EpochsWellFormed(ec[r])
LeaderInISR == meta.leader \in meta.isr
HWMonotoneWhileUp == \A r \in R : (up[r] /\ up'[r]) => hw'[r] >= hw[r]
=============================================================================
