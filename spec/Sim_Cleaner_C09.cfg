SPECIFICATION MCSpec
CONSTANTS
  MaxRecs = 9
  MaxBatch = 3
  MaxOps = 16
  MaxEpoch = 2
  CapSet = {1, 2, 3}
  KeySet = {"nil", "a"}
  AgeSet = {0, 2, 4}
  MsgsSet = {0, 1, 3, 5}
  BytesSet = {0, 2, 4, 6}
  CompactSet = {FALSE}
  LagSet = {0, 3}
  BigSet = {FALSE, TRUE}
  MaxCleans = 3
  MaxTicks = 2
  UseWindow = TRUE
  UseReopen = TRUE
  UseEpochs = TRUE
  OccSet = {FALSE, TRUE}
  MinCleanSegs = 1
  UseRevReaders = FALSE
  UseFaults = TRUE
  UseReaders = FALSE
CHECK_DEADLOCK FALSE
