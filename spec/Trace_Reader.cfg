SPECIFICATION TraceSpec
CONSTANTS NewLoads = 1
POSTCONDITION Done
CHECK_DEADLOCK FALSE
