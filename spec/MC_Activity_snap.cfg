SPECIFICATION MCSpec
CONSTANTS
  Nodes = {"a"}
  SnapCarriesLP = TRUE
  Kinds = {"E"}
  MaxOps = 3
  MaxSys = 0
  MaxFail = 0
  MaxRecFail = 0
  MaxBlock = 1
  MaxTake = 0
  MaxCrash = 1
  MaxStep = 0
  MaxZombie = 0
  MaxSnap = 1
  MaxForeign = 1
  Keeps = {10240}
  Eager = TRUE
INVARIANTS TypeOK C18_ControllerDispatches C18_IdleMeansPublished C18_IdContent C18_NoSkip C18_FirstOrder C18_LPSound I_DispAboveLP C18_Obtainable NoPanic
PROPERTIES StepsOK
VIEW MCView
CHECK_DEADLOCK FALSE
