------------------------------ MODULE LogDefs ------------------------------
(* Constant-level operators shared by the commit-log and replication        *)
(* specifications: sequences and the leader-epoch cache                      *)
(* (server/commitlog/leader_epoch_cache.go).                                 *)
EXTENDS Integers, Sequences, FiniteSets

Last(s) == s[Len(s)]

(* Leader epoch cache (leader_epoch_cache.go) *)

LatestEpoch(c) == IF c = <<>> THEN 0 ELSE Last(c).e
LatestStart(c) == IF c = <<>> THEN -1 ELSE Last(c).s
EarliestStart(c) == IF c = <<>> THEN -1 ELSE c[1].s

Assign(c, e, s) == IF e > LatestEpoch(c) /\ s >= LatestStart(c)
                   THEN Append(c, [e |-> e, s |-> s]) ELSE c

\* commitLog.append: every entry whose epoch exceeds the latest one starts it
RECURSIVE AssignRecs(_, _)
AssignRecs(c, recs) == IF recs = <<>> THEN c
                       ELSE AssignRecs(Assign(c, Head(recs).ep, Head(recs).off), Tail(recs))

ClearLatest(c, off) == IF off > LatestStart(c) THEN c
                       ELSE SelectSeq(c, LAMBDA x : x.s < off)

ClearEarliest(c, off) ==
  IF EarliestStart(c) >= off THEN c
  ELSE LET early == SelectSeq(c, LAMBDA x : x.s < off)
           rest  == SelectSeq(c, LAMBDA x : x.s >= off)
       IN IF early = <<>> THEN c
          ELSE IF rest = <<>> \/ off < rest[1].s
               THEN <<[e |-> Last(early).e, s |-> off]>> \o rest
               ELSE rest

\* commitLog.LastOffsetForLeaderEpoch: the start offset of the first epoch larger
\* than e, or the newest offset if there is none (a later epoch that started on
\* an empty log has start offset -1 and is answered with -1; before /repo commit
\* f0026b7 that case was confused with "none").
LastOffsetForEpoch(c, e, newest) ==
  LET I == {i \in 1..Len(c) : c[i].e >= e + 1}
  IN IF I = {} THEN newest ELSE c[CHOOSE i \in I : \A j \in I : i <= j].s

EpochsWellFormed(c) ==
  \A i \in 1..Len(c) - 1 : c[i].e < c[i + 1].e /\ c[i].s <= c[i + 1].s

=============================================================================
