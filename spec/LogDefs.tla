------------------------------ MODULE LogDefs ------------------------------
(* Constant-level operators shared by the commit-log and replication        *)
(* specifications: sequences and the leader-epoch cache                      *)
(* (server/commitlog/leader_epoch_cache.go).                                 *)
EXTENDS Integers, Sequences, FiniteSets

Last(s) == s[Len(s)]

(* Leader epoch cache (leader_epoch_cache.go) *)

LatestEpoch(c) == IF c = <<>> THEN 0 ELSE Last(c).e
LatestStart(c) == IF c = <<>> THEN -1 ELSE Last(c).s
EarliestStart(c) == IF c = <<>> THEN -1 ELSE c[1].s

Assign(c, e, s) == IF e > LatestEpoch(c) /\ s >= LatestStart(c)
                   THEN Append(c, [e |-> e, s |-> s]) ELSE c

\* commitLog.append: every entry whose epoch exceeds the latest one starts it
RECURSIVE AssignRecs(_, _)
AssignRecs(c, recs) == IF recs = <<>> THEN c
                       ELSE AssignRecs(Assign(c, Head(recs).ep, Head(recs).off), Tail(recs))

ClearLatest(c, off) == IF off > LatestStart(c) THEN c
                       ELSE SelectSeq(c, LAMBDA x : x.s < off)

ClearEarliest(c, off) ==
  IF EarliestStart(c) >= off THEN c
  ELSE LET early == SelectSeq(c, LAMBDA x : x.s < off)
           rest  == SelectSeq(c, LAMBDA x : x.s >= off)
       IN IF early = <<>> THEN c
          ELSE IF rest = <<>> \/ off < rest[1].s
               THEN <<[e |-> Last(early).e, s |-> off]>> \o rest
               ELSE rest

\* commitLog.LastOffsetForLeaderEpoch: the start offset of the first epoch larger
\* than e, or the newest offset if there is none.  The cache reports "none" as
\* -1, so a real start offset of -1 (an epoch that began on an empty log) is
\* indistinguishable from "none" and is answered with the newest offset too.
EpochStartAfter(c, e) ==
  LET I == {i \in 1..Len(c) : c[i].e >= e + 1}
  IN IF I = {} THEN -1 ELSE c[CHOOSE i \in I : \A j \in I : i <= j].s
LastOffsetForEpoch(c, e, newest) ==
  IF EpochStartAfter(c, e) = -1 THEN newest ELSE EpochStartAfter(c, e)
\* TRUE when the -1 ambiguity above is hit
EpochStartAmbiguous(c, e) == \E i \in 1..Len(c) : c[i].e >= e + 1 /\ EpochStartAfter(c, e) = -1

EpochsWellFormed(c) ==
  \A i \in 1..Len(c) - 1 : c[i].e < c[i + 1].e /\ c[i].s <= c[i + 1].s

=============================================================================
