SPECIFICATION MCSpec
CONSTANTS
  Clients = {"alice", "bob"}
  Streams = {"s1", "s2", "__cursors"}
  AuthFirst = TRUE
  GroupAuthz = TRUE
  Callers = {"alice", "bob"}
  DeepReload = FALSE
  Canon = TRUE
  LenSet = {0, 1}
  PolicyClients = {"alice"}
VIEW MCView
INVARIANTS TypeOK
PROPERTIES StepsOK
CHECK_DEADLOCK FALSE
