SPECIFICATION MCSpec
CONSTANTS
  Clients = {"alice", "bob"}
  Streams = {"s1", "s2", "__cursors"}
  AuthFirst = TRUE
  GroupAuthz = FALSE
  Callers = {"alice"}
  DeepReload = FALSE
  LenSet = {1}
  PolicyClients = {"alice"}
INVARIANTS TypeOK
PROPERTIES StepsOK
CHECK_DEADLOCK FALSE
