SPECIFICATION MCSpec
CONSTANTS
  Servers = {"A", "B"}
  ConsumerSet = {"c1", "c2"}
  StreamSet = {"sa", "sb"}
  MaxParts = 2
  MaxOps = 5
  MaxDeletes = 1
  Coords = {"A"}
  MaxRestores = 1
  Shapes = {"plain", "dup"}
  GetDs = {}
INVARIANTS Raw_Converged
VIEW MCView
CHECK_DEADLOCK FALSE
