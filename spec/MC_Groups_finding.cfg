SPECIFICATION MCSpec
CONSTANTS
  Servers = {"A", "B"}
  ConsumerSet = {"c1", "c2"}
  StreamSet = {"sa", "sb"}
  MaxParts = 2
  MaxOps = 4
  MaxDeletes = 1
  Coords = {"A"}
  MaxRestores = 0
  GetDs = {}
INVARIANTS Raw_SameEpochSame
VIEW MCView
CHECK_DEADLOCK FALSE
