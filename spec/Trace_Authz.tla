----------------------------- MODULE Trace_Authz -----------------------------
(* Trace validation for Authz.tla: one line per step executed on the real   *)
(* apiServer (Open = the start situation after set-up, Call, EditPolicy,    *)
(* Reload) with the projected world and the loaded / on-file policy.        *)
(* FAIL "P" = property violated on real behaviour; "I" = the code differs   *)
(* from the transcribed handlers (drift).                                   *)
EXTENDS Authz, TLC, Json

Trace == ndJsonDeserialize("trace.ndjson")

VARIABLES l
tvars == <<vars, l>>

ToSet(s) == {s[j] : j \in 1..Len(s)}
Gsub(g) == [cid |-> g.cid, epoch |-> g.epoch]
Rec(r) == [exists |-> r.exists, paused |-> r.paused, readonly |-> r.readonly, len |-> r.len, plain |-> r.plain,
           gsub |-> Gsub(r.gsub)]

Fail(kind, e, name) == PrintT(<<"FAIL", kind, e.t, l, e.a, name>>)
Chk(ok, kind, e, name) == IF ok THEN TRUE ELSE Fail(kind, e, name)

Bind(e) ==
  /\ policy' = ToSet(e.st.policy) /\ policyFile' = ToSet(e.st.policyFile) /\ fileOK' = e.st.fileOK
  /\ st' = [s \in Streams |-> Rec(e.st.st[s])]
  /\ cursors' = [s \in Streams |-> e.st.cursors[s]]
  /\ members' = ToSet(e.st.members)
  /\ sessions' = ToSet(e.st.sessions) /\ enforcer' = e.st.enforcer /\ clientAuth' = e.st.clientAuth
  /\ obs' = [a |-> e.obs.a, res |-> e.obs.res]

CallOf(e) == [m |-> e.args.call.m, c |-> e.args.call.c, s |-> e.args.call.s, resume |-> e.args.call.resume,
              grp |-> e.args.call.grp, epoch |-> e.args.call.epoch, ro |-> e.args.call.ro, cred |-> e.args.call.cred]

TraceInit ==
  LET e == Trace[1] IN
  /\ policy = ToSet(e.st.policy) /\ policyFile = ToSet(e.st.policyFile) /\ fileOK = e.st.fileOK
  /\ st = [s \in Streams |-> Rec(e.st.st[s])]
  /\ cursors = [s \in Streams |-> e.st.cursors[s]]
  /\ members = ToSet(e.st.members)
  /\ sessions = ToSet(e.st.sessions) /\ enforcer = e.st.enforcer /\ clientAuth = e.st.clientAuth
  /\ obs = [a |-> "Open", res |-> "Ok"]
  /\ l = 2

TraceNext ==
  /\ Trace[l].a # "End"
  /\ l' = l + 1
  /\ LET e == Trace[l] IN
     /\ Bind(e)
     /\ CASE e.a = "Open" -> Chk(policy' = policyFile' /\ (~enforcer' => policy' = {}), "I", e, "loaded")
          [] e.a = "Call" ->
               /\ Chk(obs'.res # "Crash", "P", e, "C15_NoCrash")
               /\ Chk(P_Call(CallOf(e)), "P", e, "C15_DeniedNoEffect")
               /\ Chk(P_Denial, "P", e, "C15_DenialClean")
               /\ Chk(policy' = policy /\ policyFile' = policyFile, "P", e, "C15_PolicyStable")
               /\ IF e.args.call.m \in Methods THEN Chk(DoCall(CallOf(e)), "I", e, "Call") ELSE TRUE
          [] e.a = "EditPolicy" ->
               /\ Chk(P_Edit, "P", e, "C15_EditNotLoaded")
               /\ Chk(policy' = policy /\ World' = World, "I", e, "Edit")
          [] e.a = "BreakFile" ->
               /\ Chk(P_Edit, "P", e, "C15_EditNotLoaded")
               /\ Chk(DoBreakFile(policyFile'), "I", e, "BreakFile")
          [] e.a = "Cancel" ->
               /\ Chk(policy' = policy /\ policyFile' = policyFile, "P", e, "C15_PolicyStable")
               /\ Chk(DoCancel(CallOf(e), e.args.held), "I", e, "Cancel")
          [] e.a = "Reload" ->
               /\ Chk(P_Reload, "P", e, "C15_ReloadEffective")
               /\ Chk(DoReload, "I", e, "Reload")
          [] OTHER -> Fail("C", e, "unknown-line")

TraceSpec == TraceInit /\ [][TraceNext]_tvars

Done == PrintT(<<"DONE", TLCGet("stats").diameter, Len(Trace)>>)
=============================================================================
