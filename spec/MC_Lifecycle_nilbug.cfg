\* the code before the repair 87f7b57 (ResumeStream dereferences a partition that was deleted after the apply):
\* expected to violate X02_NoCrash; the counterexample is replayed on the real server in every run
SPECIFICATION MCSpec
CONSTANTS
  Parts = {0, 1}
  SubIds = {"s1"}
  NilFix = FALSE
  MaxOps = 4
  MaxMsgs = 1
  Paths <- SyncOnly
  Gates <- AllGates
  Cfgs <- NoAuto
  SubsetsOf <- PartSets
INVARIANTS X02_NoCrash
VIEW MCView
CHECK_DEADLOCK FALSE
