\* Directed family for the age limit: small segments (1-3 messages, so first and last
\* write of a segment may lie on different sides of the cut-off), reopen, non-monotone last-write
\* times (several lags), clock ticks, the age limit always configured, cleans only
\* on logs with at least three segments.
SPECIFICATION MCSpec
CONSTANTS
  MaxRecs = 10
  MaxBatch = 3
  MaxOps = 16
  MaxEpoch = 1
  CapSet = {1, 2, 3}
  KeySet = {"a"}
  AgeSet = {2, 3, 5}
  MsgsSet = {0, 6}
  BytesSet = {0, 6}
  CompactSet = {FALSE}
  LagSet = {0, 2, 3, 5}
  BigSet = {FALSE}
  MaxCleans = 3
  MaxTicks = 3
  UseWindow = TRUE
  UseReopen = TRUE
  UseEpochs = FALSE
  OccSet = {FALSE}
  MinCleanSegs = 3
  UseRevReaders = FALSE
  UseFaults = TRUE
  UseReaders = FALSE
CHECK_DEADLOCK FALSE
