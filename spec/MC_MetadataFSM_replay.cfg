SPECIFICATION MCSpec
CONSTANTS
  GroupIds = {"g1"}
  StreamSet = {"sa", "sb"}
  MaxParts = 1
  Brokers = {"r1", "r2", "r3"}
  ConsumerSet = {"c1", "c2"}
  Coords = {"A", "X"}
  OpKinds = {"CreateStream", "DeleteStream", "Pause", "Resume", "SetReadonly", "ShrinkISR", "ExpandISR", "ChangeLeader", "PublishActivity", "CreateGroup", "JoinGroup", "LeaveGroup", "ChangeCoordinator"}
  Variants = {"custom"}
  Extras = {}
  MaxOps = 2
  MaxSnaps = 1
  MaxRestarts = 1
INVARIANTS NoTombLive NoRecLive GroupsValid GroupsFine EpochsFine FlagsConsistent


CHECK_DEADLOCK FALSE
