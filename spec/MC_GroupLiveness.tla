------------------------- MODULE MC_GroupLiveness -------------------------
(* Bounded instance of GroupLiveness: exhaustive design check and stimulus  *)
(* generation.  Requests name epochs and (coordinator, epoch) pairs by      *)
(* selectors that the driver resolves against the real state (real epochs   *)
(* are Raft indices):                                                       *)
(*   epoch selectors  cur | old (an outdated one) | next (one ahead)        *)
(*   pair selectors   cur | sc (another broker, current epoch) | old | next *)
(* `srv` of a request = the server that receives it (the controller or a    *)
(* server that forwards it to the controller); the effect is the same.      *)
(* `last` = the intent of the step with the resolved values, nOps = budget, *)
(* hist = the step sequence (path enumeration); outside the VIEW.           *)
EXTENDS GroupLiveness

CONSTANTS MaxOps, MaxPend, MaxWaits, MaxParks, EpochSels, PairSels, WaitModes, ReqServers, EffectiveOnly
VARIABLES last, nOps, nWaits, nParks, hist
mcvars == <<vars, last, nOps, nWaits, nParks, hist>>

BrokerOrder == <<"a", "b", "c">>      \* the driver uses the same order
OtherThan(x) == BrokerOrder[CHOOSE i \in 1..Len(BrokerOrder) :
                   /\ BrokerOrder[i] # x /\ BrokerOrder[i] \in Brokers
                   /\ \A j \in 1..(i - 1) : BrokerOrder[j] = x \/ BrokerOrder[j] \notin Brokers]

OldEpoch == IF epoch = 0 THEN epoch + 2 ELSE epoch - 1
EpochOf(es) == CASE es = "cur" -> epoch [] es = "old" -> OldEpoch [] es = "next" -> epoch + 1
PairOf(ps) == CASE ps = "cur" -> <<coord, epoch>>
                [] ps = "sc" -> <<OtherThan(coord), epoch>>
                [] ps = "old" -> <<coord, OldEpoch>>
                [] ps = "next" -> <<coord, epoch + 1>>

Step(a) == /\ nOps < MaxOps /\ nOps' = nOps + 1 /\ last' = a
           /\ nWaits' = IF a.a = "Wait" THEN nWaits + 1 ELSE nWaits
           /\ nParks' = IF a.a = "Wait" /\ a.park THEN nParks + 1 ELSE nParks
           /\ hist' = Append(hist, a)

MCInit ==
  /\ exists = FALSE /\ members = {} /\ coord = NoCoord /\ epoch = 0
  /\ tmr = [s \in Servers |-> {}]
  /\ fo = NoFo /\ armed = FALSE /\ good = {} /\ pend = <<>>
  /\ pendx = {} /\ gen = [m \in Members |-> 0] /\ xgen = [m \in Members |-> 0]
  /\ taint = FALSE /\ crashed = FALSE
  /\ obs = [a |-> "Open", err |-> ""]
  /\ last = [a |-> "Open"] /\ nOps = 0 /\ nWaits = 0 /\ nParks = 0 /\ hist = <<>>

\* c0: only meaningful when the group is created ("none" otherwise)
MCJoin(srv, m, c0) ==
  /\ (exists => c0 = "none") /\ (~exists => c0 \in Brokers)
  /\ EffectiveOnly => m \notin members
  /\ DoJoin(m, c0)
  /\ Step([a |-> "Join", srv |-> srv, m |-> m, c0 |-> c0])

MCLeave(srv, m) ==
  /\ members = {m} => pend = <<>>          \* domain: no report is inside the call when the group goes
  /\ EffectiveOnly => m \in members
  /\ DoLeave(m)
  /\ Step([a |-> "Leave", srv |-> srv, m |-> m])

MCHeartbeat(s, m, es) ==
  /\ exists
  /\ \A x \in pendx : x[2] # m       \* domain: a member whose expiry is in flight stays silent
  /\ EffectiveOnly => FALSE
  /\ DoHeartbeat(s, m, EpochOf(es))
  /\ Step([a |-> "Heartbeat", s |-> s, m |-> m, es |-> es, e |-> EpochOf(es)])

MCReport(srv, m, ps, pref) ==
  /\ exists
  /\ EffectiveOnly => (ps = "cur" /\ m \in members)
  /\ LET p == PairOf(ps) IN
     /\ DoReport(m, p[1], p[2], pref)
     /\ pref = (IF coord' # coord THEN coord' ELSE "none")
     /\ Step([a |-> "Report", srv |-> srv, m |-> m, ps |-> ps, c |-> p[1], e |-> p[2], pref |-> pref])

MCReportCheck(m, ps) ==
  /\ exists /\ Len(pend) < MaxPend
  /\ LET p == PairOf(ps) IN
     /\ DoReportCheck(m, p[1], p[2])
     /\ Step([a |-> "ReportCheck", m |-> m, ps |-> ps, c |-> p[1], e |-> p[2]])

MCReportApply(i, pref) ==
  /\ i \in 1..Len(pend)
  /\ DoReportApply(i, pref)
  /\ pref = (IF coord' # coord THEN coord' ELSE "none")
  /\ Step([a |-> "ReportApply", i |-> i, pref |-> pref])

\* parks = number of periods whose expiries are held in flight
MCWait(hb, park) ==
  /\ exists /\ pend = <<>> /\ pendx = {} /\ nWaits < MaxWaits
  /\ park => (nParks < MaxParks /\ AllFired(hb) # {})
  /\ \A m \in Members : hb[m] \in WaitModes /\ (m \notin members => hb[m] = "none")
  /\ DoWait(hb, park)
  /\ Step([a |-> "Wait", hb |-> hb, park |-> park])

MCExpireApply(s, m) ==
  /\ DoExpireApply(s, m)
  /\ Step([a |-> "ExpireApply", s |-> s, m |-> m])

MCLose == exists /\ DoLose /\ Step([a |-> "Lose"])
MCRestart(s) == exists /\ pendx = {} /\ DoRestart(s) /\ Step([a |-> "Restart", s |-> s])

Prefs == Brokers \cup {"none"}

MCNext ==
  \/ \E srv \in ReqServers, m \in Members, c0 \in Prefs : MCJoin(srv, m, c0)
  \/ \E srv \in ReqServers, m \in Members : MCLeave(srv, m)
  \/ \E s \in Servers, m \in Members, es \in EpochSels : MCHeartbeat(s, m, es)
  \/ \E srv \in ReqServers, m \in Members, ps \in PairSels, pref \in Prefs : MCReport(srv, m, ps, pref)
  \/ \E m \in Members, ps \in PairSels : MCReportCheck(m, ps)
  \/ \E i \in 1..MaxPend, pref \in Prefs : MCReportApply(i, pref)
  \/ \E hb \in [Members -> WaitModes], park \in BOOLEAN : MCWait(hb, park)
  \/ \E s \in Servers, m \in Members : MCExpireApply(s, m)
  \/ MCLose
  \/ \E s \in Servers \ {"a"} : MCRestart(s)

MCSpec == MCInit /\ [][MCNext]_mcvars

\* every step, as the code performs it, satisfies what X01 demands of it
\* (steps at or after the known finding - an expiry in flight that ended a LATER membership of the same
\* consumer id - are exempt; reachability of the taint is reported separately)
StepOK ==
  LET a == last' IN
  taint' \/
  /\ P_Epochs
  /\ CASE a.a = "Join" -> P_Join(a.m)
       [] a.a = "Leave" -> P_Leave(a.m)
       [] a.a = "Heartbeat" -> P_Heartbeat(a.s, a.m, a.e)
       [] a.a = "Report" -> P_Report(a.m, a.c, a.e)
       [] a.a = "ReportCheck" -> P_ReportCheck(a.m, a.c, a.e)
       [] a.a = "ReportApply" -> P_ReportApply(a.i)
       [] a.a = "Wait" -> P_Wait(a.hb, a.park)
       [] a.a = "ExpireApply" -> P_ExpireApply(a.s, a.m)
       [] a.a = "Restart" -> P_Restart
       [] OTHER -> P_Quiet
StepsOK == [][StepOK]_mcvars

\* with the history in the view the state graph is the tree of all step sequences
MCPathView == <<hist, exists, members, coord>>
MCView == <<exists, members, coord, epoch, tmr, fo, armed, good, pend, pendx, gen, xgen, taint, crashed, nOps, nWaits, nParks>>
NoTaint == ~taint
=============================================================================
