SPECIFICATION MCSpec
CONSTANTS
  Groups = {"g1"}
  GroupOnFollower = FALSE
  OnlyOpenEnded = FALSE
  CleanupById = FALSE
  Consumers = {"c1", "c2"}
  MaxEpoch = 2
  MaxSubs = 3
  MaxOps = 4
  UsePlain = FALSE
  UseBurst = FALSE
  UseFollower = FALSE
  UseBounded = FALSE
  C0 = "c1"
  UseGrpc = TRUE
  UseRace = TRUE
  MaxElect = 2
  StrandedKnown = TRUE
  UseBad = FALSE
INVARIANTS TypeOK MC_OneActive C13_StreamEnded ActiveRegistered RegOK
PROPERTIES StepsOK
VIEW MCView
CHECK_DEADLOCK FALSE
