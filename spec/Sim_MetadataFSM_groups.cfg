SPECIFICATION MCSpec
CONSTANTS
  GroupIds = {"g1"}
  StreamSet = {"sa", "sb"}
  MaxParts = 2
  Brokers = {"r1", "r2", "r3"}
  ConsumerSet = {"c1", "c2", "c3"}
  Coords = {"A", "X"}
  OpKinds = {"CreateStream", "DeleteStream", "Pause", "Resume", "SetReadonly", "ShrinkISR", "ExpandISR", "ChangeLeader", "PublishActivity", "CreateGroup", "JoinGroup", "LeaveGroup", "ChangeCoordinator"}
  Variants = {"plain", "custom"}
  Extras = {"PersistWith"}
  MaxOps = 10
  MaxSnaps = 2
  MaxRestarts = 2
INVARIANTS NoTombLive NoRecLive GroupsFine EpochsFine


CHECK_DEADLOCK FALSE
