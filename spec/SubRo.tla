------------------------------ MODULE SubRo ------------------------------
(* Property C03 at the subscriber level (server/partition.go subscribe loop *)
(* on top of the committed reader): subscriptions without a stop position  *)
(* on a partition whose log has an uncommitted tail and which is made      *)
(* read-only while subscribers are positioned before that tail.            *)
(*                                                                         *)
(*   n    records in the log (offsets 0..n-1), hw the high watermark,      *)
(*   ro   the partition is read-only,                                      *)
(*   sub  subscription id -> [st, next]: st = "none" | "live" | "ended"    *)
(*        (told "end of read-only partition"), next = next offset owed     *)
(*                                                                         *)
(* What the subscribe loop does (DoSub/DoDrain): it delivers every         *)
(* committed record from the subscriber's position; it ends with           *)
(* ResourceExhausted only on a read-only partition and only when the       *)
(* subscriber has received the whole log (HW = log end).  The same rules   *)
(* as predicates over recorded rounds are in Trace_SubRo.tla.              *)
EXTENDS Integers, Sequences

CONSTANTS Subs, MaxRecs, MaxOps
VARIABLES n, hw, ro, sub, last, nOps
vars == <<n, hw, ro, sub, last, nOps>>

Step(a) == nOps < MaxOps /\ nOps' = nOps + 1 /\ last' = a

Deliver(s) ==   \* everything committed from next on; ended iff read-only and the log end was reached
  LET nx == IF hw + 1 > sub[s].next THEN hw + 1 ELSE sub[s].next
  IN [st |-> IF ro /\ nx = n /\ hw = n - 1 THEN "ended" ELSE "live", next |-> nx]

Init == n = 0 /\ hw = -1 /\ ro = FALSE /\ sub = [s \in Subs |-> [st |-> "none", next |-> 0]]
        /\ last = [a |-> "Open"] /\ nOps = 0

\* acknowledged publishes (committed at once on a single node)
DoPublish(k) == ~ro /\ n + k <= MaxRecs /\ hw = n - 1 /\ n' = n + k /\ hw' = n + k - 1
                /\ UNCHANGED <<ro, sub>> /\ Step([a |-> "Publish", k |-> k])
\* records the ISR has not replicated yet
DoTail(k) == ~ro /\ n + k <= MaxRecs /\ n' = n + k /\ UNCHANGED <<hw, ro, sub>> /\ Step([a |-> "Tail", k |-> k])
DoCommit == hw < n - 1 /\ hw' = n - 1 /\ UNCHANGED <<n, ro, sub>> /\ Step([a |-> "Commit"])
DoReadonly == ~ro /\ ro' = TRUE /\ UNCHANGED <<n, hw, sub>> /\ Step([a |-> "Readonly", b |-> TRUE])
DoSub(s, o) == /\ sub[s].st = "none" /\ (o < n \/ (n = 0 /\ o = 0))
               /\ sub' = [sub EXCEPT ![s] = [st |-> "live", next |-> o]]
               /\ UNCHANGED <<n, hw, ro>> /\ Step([a |-> "Sub", id |-> s, so |-> o])
DoDrain(s) == /\ sub[s].st = "live"
              /\ sub' = [sub EXCEPT ![s] = Deliver(s)]
              /\ UNCHANGED <<n, hw, ro>> /\ Step([a |-> "Drain", id |-> s])

Next == \/ \E k \in 1..2 : DoPublish(k) \/ DoTail(k)
        \/ DoCommit \/ DoReadonly
        \/ \E s \in Subs, o \in 0..MaxRecs : DoSub(s, o)
        \/ \E s \in Subs : DoDrain(s)
Spec == Init /\ [][Next]_vars

\* C03: nothing above the HW is ever owed as delivered; an ended subscriber got the whole log
NextOK == \A s \in Subs : sub[s].st # "none" => sub[s].next <= hw + 1 \/ sub[s].next <= n
EndOK == \A s \in Subs : sub[s].st = "ended" => (ro /\ sub[s].next = n /\ hw = n - 1)
=============================================================================
