SPECIFICATION Spec
CONSTANTS
  Fixed = TRUE
  WithReader = TRUE
INVARIANTS TypeOK
CONSTRAINT ReportDeadlocks
CHECK_DEADLOCK FALSE
