SPECIFICATION MCSpec
CONSTANTS
  F = {"b", "c"}
  MaxRec = 2
  MaxEp = 1
  FetchMax = 1
  WideEvery = 0
  SlowTimeouts = TRUE
  ZombieSteals = FALSE
  MaxTick = 1
  MaxSlow = 1
  MaxIdleT = 1
  MaxKill = 0
  TrackLast = FALSE
INVARIANTS Inv
PROPERTIES StepsOK
CHECK_DEADLOCK FALSE
