SPECIFICATION MCSpec
CONSTANTS
  Brokers = {"a", "b", "c"}
  Servers = {"a", "b"}
  Members = {"m1", "m2", "m3"}
  Dense = TRUE
  RecheckAtApply = TRUE
  KeepTimers = TRUE
  CountAllWit = FALSE
  RetryBlind = FALSE
  MaxOps = 6
  MaxPend = 0
  MaxWaits = 2
  MaxParks = 0
  EpochSels = {"cur", "old", "next"}
  PairSels = {"cur", "sc", "old", "next"}
  WaitModes = {"none", "good", "stale", "wrong"}
  ReqServers = {"a"}
  EffectiveOnly = FALSE
INVARIANTS TypeOK X01_TimersOnlyAtCoordinator X01_NoCrash TimersComplete StatusLive WitnessesAreGood
PROPERTIES StepsOK
VIEW MCView
CHECK_DEADLOCK FALSE
