------------------------- MODULE Trace_Cleaner -------------------------
(* Trace validation for Cleaner.tla (properties C08, C09): every line of    *)
(* trace.ndjson is one call executed on the real commit log with its        *)
(* arguments, results, the projected abstract state after the call and a    *)
(* full read-back (fresh forward and reverse readers from every start       *)
(* offset, timestamp look-ups).  The variables are bound to the recorded    *)
(* state; then                                                              *)
(*   - the P_* predicates / invariants are evaluated: a failure is a        *)
(*     property violation on real behaviour, printed as FAIL "P" ... name,  *)
(*   - the action as the specification performs it is evaluated as a test:  *)
(*     a failure is conformance drift, printed as FAIL "I" ...              *)
(* `pend` (the snapshot of a clean in progress) is not an observable of the *)
(* implementation: the trace specification keeps it itself, from the state  *)
(* recorded just before CleanBegin.                                         *)
EXTENDS Cleaner, TLC, Json

Trace == ndJsonDeserialize("trace.ndjson")

VARIABLES l, rb, rv, tl, win
tvars == <<cvars, l, rb, rv, tl, win>>

Bind(e) ==
  /\ cfg' = e.st.cfg /\ log' = e.st.log /\ segs' = e.st.segs /\ hw' = e.st.hw
  /\ epochs' = e.st.epochs /\ ro' = e.st.ro /\ rd' = e.st.rd
  /\ cc' = e.st.cc /\ now' = e.st.now
  /\ obs' = e.obs /\ rb' = e.rb /\ rv' = e.rv /\ tl' = e.tl /\ win' = e.win

TraceInit ==
  LET e == Trace[1] IN
  /\ cfg = e.st.cfg /\ log = e.st.log /\ segs = e.st.segs /\ hw = e.st.hw
  /\ epochs = e.st.epochs /\ ro = e.st.ro /\ rd = e.st.rd
  /\ cc = e.st.cc /\ now = e.st.now /\ pend = NoPend /\ rr = [r \in RevReaders |-> NoRev]
  /\ obs = e.obs /\ rb = e.rb /\ rv = e.rv /\ tl = e.tl /\ win = e.win
  /\ l = 2

Fail(kind, e, name) == PrintT(<<"FAIL", kind, e.t, l, e.a, name>>)
\* IF-THEN-ELSE (not a disjunction) so that TLC evaluates the test as a predicate
Chk(ok, kind, e, name) == IF ok THEN TRUE ELSE Fail(kind, e, name)

\* the snapshot the clean of this line worked on
SnapOf(e) == IF e.a = "CleanEnd" THEN pend ELSE Snapshot

IsClean(e) == (e.a = "Clean" \/ (e.a = "CleanEnd" /\ pend.on)) /\ e.obs.err = ""

\* the recorded log can be compared with the snapshot at all: nothing vanished
\* between snapshot and swap, and what was appended meanwhile fits in the result
\* (otherwise the predicates below would index outside the sequences)
Comparable(b) == /\ NewRecs(b) >= 0 /\ NewSegs(b) >= 0 /\ b.segs # <<>>
                 /\ Len(log') >= NewRecs(b) /\ Len(segs') >= NewSegs(b) /\ segs' # <<>>

PropOther(e) ==
  CASE e.a = "Append" -> P_Append(e.args.recs)
    [] e.a = "SetHW" -> P_SetHW(e.args.h)
    [] e.a = "Drain" -> P_Drain(e.args.r)
    [] e.a = "RevRead" -> P_RevRead(e.args.r, e.args.all)
    [] OTHER -> P_Same

ImplOf(e) ==
  CASE e.a = "Append" -> CAppend(e.args.recs)
    [] e.a = "SetHW" -> CSetHW(e.args.h)
    [] e.a = "NewLeaderEpoch" -> CNewLeaderEpoch(e.args.e)
    [] e.a = "Tick" -> DoTick(e.args.d)
    [] e.a = "Clean" -> DoClean
    [] e.a = "CleanBegin" -> DoCleanBegin
    [] e.a = "CleanEnd" -> DoCleanEnd
    [] e.a = "CleanFail" -> DoCleanFail(e.args.k)
    [] e.a = "Reopen" -> CReopen
    [] e.a = "NewReader" -> CNewReader(e.args.r, e.args.s, e.args.c)
    [] e.a = "Drain" -> CDrain(e.args.r)
    [] e.a = "NewRev" -> DoNewRev(e.args.r, e.args.s, e.args.c)
    [] e.a = "RevRead" -> DoRevRead(e.args.r, e.args.all)
    [] OTHER -> UNCHANGED <<cfg, log, segs, hw, epochs, ro, rd, cc, now, pend, rr>>

\* ---- read-back (evaluated on the state of a line outside a pending clean)

\* forward: every fresh reader, from every start offset, delivers exactly the
\* retained records at or after it (up to the HW when committed), in order
FwdOK == \A i \in 1..Len(rb) :
            rb[i].fps = Fps(ExpectedRead(log, segs, hw, rb[i].s, rb[i].c).recs)
FwdKindOK == \A i \in 1..Len(rb) :
            rb[i].kind = ExpectedRead(log, segs, hw, rb[i].s, rb[i].c).kind

\* reverse: a reader that could be created delivers exactly the retained
\* records at or below its start, newest first; inside the retained range an
\* uncommitted reverse reader can always be created
RevOK == \A i \in 1..Len(rv) :
            /\ rv[i].kind # "panic"
            /\ rv[i].kind = "ok" => rv[i].fps = Fps(ExpectedRev(log, hw, rv[i].s, rv[i].c))
            /\ (~rv[i].c /\ log # <<>> /\ rv[i].s >= log[1].off /\ rv[i].s <= Last(log).off)
                  => rv[i].kind = "ok"
RevKindOK == \A i \in 1..Len(rv) : rv[i].kind = RevKind(log, segs, hw, rv[i].s, rv[i].c)

\* timestamp look-ups that returned an offset lead a reader to the right
\* survivor (judged when the timestamps of the log are strictly increasing)
TsOK == TsMonotone(log) =>
          \A i \in 1..Len(tl) :
             /\ tl[i].eerr = "" => EarliestOK(log, NextOff, tl[i].t, tl[i].e)
             /\ tl[i].lerr = "" => LatestOK(log, tl[i].t, tl[i].l)

\* argument class of a C08_Survivors failure (for known-finding signatures):
\* which required records are missing from the log after the clean
LostBy(b) ==
  LET snap == SubSeq(log', 1, Len(log') - NewRecs(b))
      \* the most lenient reading: the longest prefix of segments without a survivor
      ds   == {d \in 0..Len(b.segs) - 1 :
                  \A i \in DOMAIN snap : snap[i].off >= b.segs[d + 1].base}
      dmax == IF ds = {} THEN 0 ELSE SetMax(ds)
      cut  == b.segs[IF HasLimits(cc) THEN dmax + 1 ELSE 1].base
      lost == {r \in Required(b.log, b.segs, b.hw) : r.off >= cut /\ ~InSeq(snap, r)}
      \* an empty-keyed record hidden by a later nil-keyed one at or below the HW
      Shadowed(r) == r.key = "empty" /\ \E i \in DOMAIN b.log :
                        b.log[i].key = "nil" /\ b.log[i].off > r.off /\ b.log[i].off <= b.hw
  IN IF lost # {} /\ \A r \in lost : Shadowed(r) THEN "C08_Survivors:empty-key-shadowed-by-nil"
     ELSE "C08_Survivors:other"

\* argument class of a reverse read-back failure: does the log have a sparse segment
Sparse == \E k \in 1..Len(segs) : LET r == SegRecs(log, segs, k) IN
             r # <<>> /\ (r[1].off # segs[k].base \/ Last(r).off - r[1].off + 1 # Len(r))
RevName == IF Sparse THEN "ReadRev:sparse-segment" ELSE "ReadRev:dense"

\* argument class of a timestamp look-up failure: an empty active segment behind
\* other segments (left by an append that optimistic concurrency control refused)
TsName == IF Len(segs) > 1 /\ SegRecs(log, segs, Len(segs)) = <<>>
          THEN "TsLookup:empty-active-segment" ELSE "TsLookup"

TraceNext ==
  /\ Trace[l].a # "End"
  /\ l' = l + 1
  /\ LET e == Trace[l] IN
     /\ Bind(e)
     /\ pend' = IF e.a = "Open" \/ e.a = "CleanEnd" THEN NoPend
                ELSE IF e.a = "CleanBegin" /\ e.win THEN Snapshot ELSE pend
     \* like `pend`, the state of the persistent reverse readers (which segment objects
     \* of their list have been closed) is not observable: the specification keeps it
     /\ rr' = CASE e.a = "Open" \/ e.a = "Reopen" -> [r \in RevReaders |-> NoRev]
                [] e.a = "Clean" /\ e.obs.err = "" -> RevAfterClean(Snapshot)
                [] e.a = "CleanBegin" /\ e.win -> RevAfterClean(Snapshot)
                [] e.a = "CleanFail" -> RevAfterClean(Snapshot)
                [] e.a = "NewRev" -> RevNewVal(e.args.r, e.args.s, e.args.c)
                [] e.a = "RevRead" /\ rr[e.args.r].alive -> RevReadVal(e.args.r, e.args.all)
                [] OTHER -> rr
     /\ IF e.a = "Open" THEN TRUE
        ELSE /\ IF IsClean(e) /\ ~Comparable(SnapOf(e))
                THEN Fail("P", e, "C08_Unchanged:not-comparable")
                ELSE IF IsClean(e)
                THEN LET b == SnapOf(e) IN
                     /\ Chk(hw' = hw, "P", e, "HW")
                     /\ Chk(P_C08_Unchanged(b), "P", e, "C08_Unchanged")
                     /\ Chk(P_C08_Survivors(b), "P", e, LostBy(b))
                     /\ Chk(P_C09_Prefix(b), "P", e, "C09_Prefix")
                     /\ Chk(P_C09_Minimal(b), "P", e, "C09_Minimal")
                     /\ Chk(P_C09_LimitsHold(b), "P", e, "C09_LimitsHold")
                     /\ Chk(P_C09_Suffix(b), "P", e, "C09_Suffix")
                     /\ Chk(P_C09_Oldest, "P", e, "C09_Oldest")
                ELSE IF e.a = "Clean"
                THEN \* a clean without an injected fault (also the retry after a failed one) succeeds
                     Fail("P", e, "CleanError")
                ELSE Chk(PropOther(e), "P", e, "step")
             /\ IF IsClean(e) /\ ~Comparable(SnapOf(e)) THEN TRUE
                ELSE Chk(ImplOf(e), "I", e, "step")
     /\ Chk(C01_Ordered', "P", e, "C01_Ordered")
     /\ Chk(CTypeOK', "I", e, "TypeOK")
     /\ Chk(SegsConsistent', "I", e, "SegsConsistent")
     /\ IF e.win THEN TRUE
        ELSE /\ Chk(FwdOK', "P", e, "ReadFwd")
             /\ Chk(RevOK', "P", e, RevName')
             /\ Chk(TsOK', "P", e, TsName')
             /\ Chk(FwdKindOK', "I", e, "ReadFwdKind")
             /\ Chk(RevKindOK', "I", e, "ReadRevKind")

TraceSpec == TraceInit /\ [][TraceNext]_tvars

Done == PrintT(<<"DONE", TLCGet("stats").diameter, Len(Trace)>>)
=============================================================================
