SPECIFICATION MCSpec
CONSTANTS
  Brokers = {"a", "b", "c"}
  Servers = {"a", "b"}
  Members = {"m1", "m2", "m3"}
  Dense = TRUE
  RecheckAtApply = TRUE
  KeepTimers = FALSE
  CountAllWit = FALSE
  MaxOps = 9
  MaxPend = 0
  MaxWaits = 2
  EpochSels = {"cur", "old", "next"}
  PairSels = {"cur", "sc", "old", "next"}
  WaitModes = {"none", "good", "stale", "wrong"}
  ReqServers = {"a", "b"}
  EffectiveOnly = FALSE
INVARIANTS TypeOK X01_TimersOnlyAtCoordinator TimersComplete StatusLive WitnessesAreGood
PROPERTIES StepsOK
VIEW MCView
CHECK_DEADLOCK FALSE
