----------------------- MODULE Trace_CommitLogRd -----------------------
(* Trace validation of the sequential, reader-focused part of property C03  *)
(* (MC_CommitLogRd behaviours executed lock-step by C01's driver): same      *)
(* binding, P_* and Do* as Trace_CommitLog, plus what C03 adds for a         *)
(* persistent committed reader that lives through appends, HW advances and   *)
(* truncations: it never fails (any reader error ends the subscription), and *)
(* the read-back of fresh committed readers; the read-back of uncommitted    *)
(* readers and the log-shape invariants are C01's and are not re-evaluated.  *)
EXTENDS Trace_CommitLog

\* a drain of a live committed reader returns no error
C03_DrainOK(e) == e.a = "Drain" => obs'.err = ""

RbCommittedOK == \A i \in 1..Len(rb) :
   rb[i].c => rb[i].fps = Fps(ExpectedRead(log, segs, hw, rb[i].s, TRUE).recs)

RdTraceNext ==
  /\ Trace[l].a # "End"
  /\ l' = l + 1
  /\ LET e == Trace[l] IN
     /\ Bind(e)
     /\ IF e.a = "Open" THEN TRUE
        ELSE /\ Chk(PropOf(e), "P", e, "step")
             /\ Chk(ImplOf(e), "I", e, "step")
             /\ Chk(C03_DrainOK(e), "P", e, "C03_ReaderFailed")
     /\ Chk(TypeOK', "I", e, "TypeOK")
     /\ Chk(RbCommittedOK', "P", e, "C03_ReadBack")

RdTraceSpec == TraceInit /\ [][RdTraceNext]_tvars
=============================================================================
