--------------------------- MODULE Activity ---------------------------
(***************************************************************************)
(* The activity stream of liftbridge (server/activity.go, fsm.go           *)
(* PUBLISH_ACTIVITY apply, server.go leadership hooks, raft.go).           *)
(*                                                                         *)
(* Every metadata operation is an entry of the controller's Raft log.  The *)
(* controller (metadata leader) runs a dispatcher goroutine that walks the *)
(* committed log in index order, starting behind the replicated            *)
(* `lastPublishedRaftIndex`, publishes one event (id = Raft index) per     *)
(* stream / consumer-group operation to the stream `__activity` and THEN   *)
(* records the index with a PUBLISH_ACTIVITY entry.  A failed publish or   *)
(* record is retried after a back-off; nothing behind it is published      *)
(* before it succeeds (head-of-line blocking).                             *)
(*                                                                         *)
(* Abstract state                                                          *)
(*   rlog    committed Raft log, position = Raft index.  Entry [k, c, pi]: *)
(*             k = "S" raft-internal entry (no-op, configuration)          *)
(*                 "E" command with an activity event, c = its content     *)
(*                 "N" command without event (ISR, leader, coordinator)    *)
(*                 "P" PUBLISH_ACTIVITY, pi = index recorded as published  *)
(*   up      process of server n is running                                *)
(*   lp      in-memory lastPublishedRaftIndex of server n (set by the FSM  *)
(*           when a "P" entry is applied, and by the restore of a snapshot:*)
(*           the snapshot carries the value as of its index - repair of    *)
(*           finding C18-snapshot-loses-lastpublished; SnapCarriesLP =     *)
(*           FALSE is the behaviour before the repair)                     *)
(*   rs      index of the snapshot server n restored when its process      *)
(*           started (0 = none): only entries behind it were re-applied    *)
(*   snap    index of the newest snapshot on server n's disk               *)
(*   first   first index still present in server n's log store: the        *)
(*           dispatcher READS the entries from lastPublished + 1 out of    *)
(*           this store; a snapshot compacts it up to (snapshot index -    *)
(*           configured TrailingLogs), see DoSnapshot                      *)
(*   ctl     the controller (Raft leader) or "none"                        *)
(*   disp    dispatcher goroutine of server n: [st, idx, base, lost]       *)
(*             st   "off"  no goroutine                                    *)
(*                  "init" elected, leadershipAcquired not yet run         *)
(*                  "run"  at the top of the loop with local `index` = idx *)
(*                  "pub"  inside handleRaftLog: event idx published,      *)
(*                         PUBLISH_ACTIVITY not yet proposed               *)
(*                  "wait" sleeping in the back-off before a retry         *)
(*             base lastPublished the goroutine started from (ghost)       *)
(*             lost leadershipLostCh of this goroutine has been closed     *)
(*   blocked the `__activity` partition rejects publishes (fault)          *)
(*   pub     the activity stream (history): sequence of [id, c]            *)
(*   dead    servers whose dispatcher panicked (ghost, known finding)      *)
(*                                                                         *)
(* Do<Action> = the step as the code performs it; P_* / C18_* = what       *)
(* property C18 demands.                                                   *)
(***************************************************************************)
EXTENDS Integers, Sequences, FiniteSets

CONSTANTS Nodes,
          SnapCarriesLP   \* TRUE: the FSM snapshot carries lastPublishedRaftIndex (the code as repaired);
                          \* FALSE: it does not (variant = the code before the repair: generator of
                          \* directed scenarios and model of the revert mutant)

VARIABLES rlog, up, lp, rs, snap, first, ctl, disp, blocked, pub, dead
vars == <<rlog, up, lp, rs, snap, first, ctl, disp, blocked, pub, dead>>

None == "none"
ActC == "CREATE_STREAM:__activity:0"     \* content of the op that creates the activity stream

SysE     == [k |-> "S", c |-> "", pi |-> 0]
OpE(k, c) == [k |-> k, c |-> c, pi |-> 0]
PubE(i)  == [k |-> "P", c |-> "", pi |-> i]
Off      == [st |-> "off", idx |-> 0, base |-> 0, lost |-> FALSE]

Max(S) == CHOOSE x \in S : \A y \in S : x >= y
Elig(log, i) == i \in 1..Len(log) /\ log[i].k = "E"
EligIds(log) == {i \in 1..Len(log) : log[i].k = "E"}
Ids(p) == {p[q].id : q \in 1..Len(p)}

\* last index recorded by the "P" entries behind position `from`; 0 = none
LastP(log, from) == LET I == {i \in (from + 1)..Len(log) : log[i].k = "P"}
                    IN IF I = {} THEN 0 ELSE log[Max(I)].pi
\* the replicated value (what a server that applied the whole log holds)
LP(log) == LastP(log, 0)

ActExists(log) == \E i \in 1..Len(log) : log[i].k = "E" /\ log[i].c = ActC

-----------------------------------------------------------------------------
(* Actions as the code performs them *)

Init ==
  /\ rlog = <<SysE>>                       \* bootstrap configuration entry
  /\ up = [n \in Nodes |-> TRUE]
  /\ lp = [n \in Nodes |-> 0] /\ rs = [n \in Nodes |-> 0]
  /\ snap = [n \in Nodes |-> 0] /\ first = [n \in Nodes |-> 1]
  /\ ctl = None
  /\ disp = [n \in Nodes |-> Off]
  /\ blocked = FALSE /\ pub = <<>> /\ dead = {}

\* A metadata operation is committed through the controller (API call ->
\* metadata.go -> raft Apply).  k = "E" | "N".
DoCommitOp(k, c) ==
  /\ ctl # None /\ up[ctl]
  /\ rlog' = Append(rlog, OpE(k, c))
  /\ UNCHANGED <<up, lp, rs, snap, first, ctl, disp, blocked, pub, dead>>

\* Raft commits entries of its own (membership changes)
DoSysEntry ==
  /\ ctl # None /\ up[ctl]
  /\ rlog' = Append(rlog, SysE)
  /\ UNCHANGED <<up, lp, rs, snap, first, ctl, disp, blocked, pub, dead>>

\* Server n wins the Raft election: its no-op entry commits everything before it.
\* The leadership loop of server.go has not run yet ("init").  The previous
\* controller is not told here: its dispatcher keeps running until
\* DoNoticeLost / DoDispatchExit.
DoControllerChange(n) ==
  /\ up[n] /\ ctl # n /\ disp[n].st = "off"
  /\ rlog' = Append(rlog, SysE)
  /\ disp' = [disp EXCEPT ![n] = [st |-> "init", idx |-> 0, base |-> 0, lost |-> FALSE]]
  /\ ctl' = n
  /\ UNCHANGED <<up, lp, rs, snap, first, blocked, pub, dead>>

\* what the FSM of server n holds as lastPublished once it has applied the whole
\* committed log: the value recorded by the last "P" entry.  A restarted FSM
\* re-applies only the entries behind the snapshot it restored (rs[n]); the value
\* recorded by entries covered by the snapshot comes with the snapshot.
StartLP(n) == IF SnapCarriesLP THEN LP(rlog) ELSE LastP(rlog, rs[n])

\* leadershipAcquired on server n: Barrier (the FSM has applied everything
\* committed - but a restarted FSM re-applied only what is behind the snapshot
\* it restored), BecomeLeader: create the activity stream if it does not exist,
\* start the dispatcher from the in-memory lastPublished + 1.
DoBecomeLeader(n) ==
  /\ up[n] /\ ctl = n /\ disp[n].st = "init"
  /\ LET l == StartLP(n)
     IN /\ rlog' = IF ActExists(rlog) THEN rlog ELSE Append(rlog, OpE("E", ActC))
        /\ lp' = [lp EXCEPT ![n] = l]
        /\ disp' = [disp EXCEPT ![n] = [st |-> "run", idx |-> l + 1, base |-> l, lost |-> FALSE]]
  /\ UNCHANGED <<up, rs, snap, first, ctl, blocked, pub, dead>>

\* The controller loses the Raft leadership without dying (step-down, lost
\* quorum, leadership transfer).  Nothing in the activity manager changes yet:
\* its dispatcher keeps running until DoNoticeLost / DoDispatchExit; the same
\* server may be elected again later (DoControllerChange) in the same process.
DoStepDown(n) ==
  /\ up[n] /\ ctl = n
  /\ ctl' = None
  /\ UNCHANGED <<rlog, up, lp, rs, snap, first, disp, blocked, pub, dead>>

\* leadershipLost -> BecomeFollower closes leadershipLostCh of the old goroutine
DoNoticeLost(n) ==
  /\ up[n] /\ ctl # n /\ disp[n].st # "off" /\ ~disp[n].lost
  /\ disp' = [disp EXCEPT ![n].lost = TRUE]
  /\ UNCHANGED <<rlog, up, lp, rs, snap, first, ctl, blocked, pub, dead>>

\* the goroutine sees the closed channel at the loop top or in a wait
DoDispatchExit(n) ==
  /\ up[n] /\ disp[n].lost /\ disp[n].st \in {"run", "wait", "init"}
  /\ disp' = [disp EXCEPT ![n] = Off]
  /\ UNCHANGED <<rlog, up, lp, rs, snap, first, ctl, blocked, pub, dead>>

Ready(n) == up[n] /\ disp[n].st = "run" /\ disp[n].idx <= Len(rlog)
Present(n) == disp[n].idx >= first[n]

\* raft-internal entry (log.Type # LogCommand) or command without event
\* (handleRaftLog returns nil): index++
DoDispatchSkip(n) ==
  /\ Ready(n) /\ Present(n) /\ rlog[disp[n].idx].k # "E"
  /\ disp' = [disp EXCEPT ![n].idx = @ + 1]
  /\ UNCHANGED <<rlog, up, lp, rs, snap, first, ctl, blocked, pub, dead>>

Event(i) == [id |-> i, c |-> rlog[i].c]

\* publishActivityEvent, first half: the event (id = Raft index) is appended to
\* the activity stream
DoDispatchPublish(n) ==
  /\ Ready(n) /\ Present(n) /\ rlog[disp[n].idx].k = "E" /\ ~blocked
  /\ pub' = Append(pub, Event(disp[n].idx))
  /\ disp' = [disp EXCEPT ![n].st = "pub"]
  /\ UNCHANGED <<rlog, up, lp, rs, snap, first, ctl, blocked, dead>>

\* the publish returns an error (partition read-only, no ack in time ...).
\* landed: the message was stored although the caller saw an error (lost ack).
DoPublishFail(n, landed) ==
  /\ Ready(n) /\ Present(n) /\ rlog[disp[n].idx].k = "E"
  /\ blocked => ~landed
  /\ pub' = IF landed THEN Append(pub, Event(disp[n].idx)) ELSE pub
  /\ disp' = [disp EXCEPT ![n].st = "wait"]
  /\ UNCHANGED <<rlog, up, lp, rs, snap, first, ctl, blocked, dead>>

\* publishActivityEvent, second half: PUBLISH_ACTIVITY committed and applied on
\* the controller (the future returns after the FSM apply), then index++
DoRecordPublished(n) ==
  /\ up[n] /\ disp[n].st = "pub" /\ ctl = n
  /\ rlog' = Append(rlog, PubE(disp[n].idx))
  /\ lp' = [lp EXCEPT ![n] = disp[n].idx]
  /\ disp' = [disp EXCEPT ![n].st = "run", ![n].idx = @ + 1]
  /\ UNCHANGED <<up, rs, snap, first, ctl, blocked, pub, dead>>

\* the Raft proposal returns an error (not leader any more, deadline).
\* committed: the entry made it into the log nevertheless.
DoRecordFail(n, committed) ==
  /\ up[n] /\ disp[n].st = "pub"
  /\ committed => ctl = n
  /\ IF committed
     THEN rlog' = Append(rlog, PubE(disp[n].idx)) /\ lp' = [lp EXCEPT ![n] = disp[n].idx]
     ELSE UNCHANGED <<rlog, lp>>
  /\ disp' = [disp EXCEPT ![n].st = "wait"]
  /\ UNCHANGED <<up, rs, snap, first, ctl, blocked, pub, dead>>

\* back-off timer fires: goto RETRY (same index)
DoBackoff(n) ==
  /\ up[n] /\ disp[n].st = "wait"
  /\ disp' = [disp EXCEPT ![n].st = "run"]
  /\ UNCHANGED <<rlog, up, lp, rs, snap, first, ctl, blocked, pub, dead>>

DoBlock ==
  /\ ~blocked /\ blocked' = TRUE
  /\ UNCHANGED <<rlog, up, lp, rs, snap, first, ctl, disp, pub, dead>>
DoUnblock ==
  /\ blocked /\ blocked' = FALSE
  /\ UNCHANGED <<rlog, up, lp, rs, snap, first, ctl, disp, pub, dead>>

\* the process of server n dies / is stopped: every in-memory value is gone
DoCrash(n) ==
  /\ up[n]
  /\ up' = [up EXCEPT ![n] = FALSE]
  /\ lp' = [lp EXCEPT ![n] = 0]
  /\ disp' = [disp EXCEPT ![n] = Off]
  /\ ctl' = IF ctl = n THEN None ELSE ctl
  /\ blocked' = FALSE
  /\ UNCHANGED <<rlog, rs, snap, first, pub, dead>>

\* restart over the same data directory: Raft restores the newest snapshot
\* (streams, groups, lastPublished as of the snapshot index) and re-applies only
\* the entries behind it
DoStart(n) ==
  /\ ~up[n]
  /\ up' = [up EXCEPT ![n] = TRUE]
  /\ rs' = [rs EXCEPT ![n] = snap[n]]
  /\ UNCHANGED <<rlog, lp, snap, first, ctl, disp, blocked, pub, dead>>

\* Raft snapshot of the FSM on server n (streams, groups, lastPublished), log
\* store compacted up to `keep` trailing entries.  keep = the TrailingLogs the
\* server configured its Raft node with (raft.go createRaftNode): hashicorp/raft's
\* default 10240 whatever `clustering.raft.snapshot.threshold` says - compaction
\* (raft compactLogs) deletes [first, min(snapshot index, last - TrailingLogs)].
\* It does NOT look at lastPublished (C18_Obtainable is what C18 needs of it).
DoSnapshot(n, keep) ==
  /\ up[n] /\ Len(rlog) > snap[n]
  /\ snap' = [snap EXCEPT ![n] = Len(rlog)]
  /\ first' = [first EXCEPT ![n] = IF Len(rlog) - keep + 1 > @ THEN Len(rlog) - keep + 1 ELSE @]
  /\ UNCHANGED <<rlog, up, lp, rs, ctl, disp, blocked, pub, dead>>

\* KNOWN LIMIT: the dispatcher starts below the first retained log entry:
\* store.GetLog fails, panic(err) kills the process.  Before the repair that
\* happened whenever lastPublished was lost with a snapshot; since the repair
\* only when the log was compacted above the replicated lastPublished, i.e. a
\* snapshot with fewer trailing logs than the backlog of unpublished operations
\* (log compaction does not look at lastPublished).
DoDispatchPanic(n) ==
  /\ Ready(n) /\ ~Present(n)
  /\ up' = [up EXCEPT ![n] = FALSE]
  /\ lp' = [lp EXCEPT ![n] = 0]
  /\ disp' = [disp EXCEPT ![n] = Off]
  /\ ctl' = IF ctl = n THEN None ELSE ctl
  /\ dead' = dead \cup {n}
  /\ UNCHANGED <<rlog, rs, snap, first, blocked, pub>>

-----------------------------------------------------------------------------
(* What C18 demands *)

\* an event carries the Raft index of an operation that has an event, and the
\* content of exactly that operation - on every delivery
C18_IdContent ==
  \A q \in 1..Len(pub) : Elig(rlog, pub[q].id) /\ pub[q].c = rlog[pub[q].id].c

\* when an event with id j appears, every operation with an event committed
\* before j has appeared: nothing is skipped
C18_NoSkip ==
  \A q \in 1..Len(pub) : \A i \in EligIds(rlog) :
     i < pub[q].id => \E r \in 1..(q - 1) : pub[r].id = i

FirstPos(p, i) == CHOOSE q \in 1..Len(p) : p[q].id = i /\ \A r \in 1..(q - 1) : p[r].id # i
\* first occurrences are in commit (= id) order
C18_FirstOrder ==
  \A i, j \in Ids(pub) : i < j => FirstPos(pub, i) < FirstPos(pub, j)

\* the replicated lastPublished never runs ahead of the stream: an operation at
\* or below it will never be published again, so it must be there already
\* (the finite-trace core of "at least once")
C18_LPSound ==
  \A i \in EligIds(rlog) : i <= LP(rlog) => i \in Ids(pub)

\* the stream is append-only and the committed log is never rewritten
IsPrefix(s, t) == Len(s) <= Len(t) /\ SubSeq(t, 1, Len(s)) = s
C18_AppendOnly == IsPrefix(pub, pub') /\ IsPrefix(rlog, rlog')

\* redeliveries resume behind the recorded index: an event published now has an
\* id above `floor` (the replicated lastPublished a still-running dispatcher
\* can have started from)
NewEvents == SubSeq(pub', Len(pub) + 1, Len(pub'))
C18_ResumeAbove(floor) == \A q \in 1..Len(NewEvents) : NewEvents[q].id > floor

\* model level: a dispatcher never publishes at or below the index it started from
P_Publish(n) == disp[n].idx > disp[n].base /\ disp[n].base >= 0

\* started with controller leadership: a controller whose promotion has run has a
\* dispatcher goroutine (without one nothing committed under it is ever
\* published - the finite-trace core of "at least once" for a stable controller)
C18_ControllerDispatches == \A n \in Nodes : (ctl = n /\ up[n]) => disp[n].st # "off"

\* bounded "at least once": a controller whose dispatcher has walked the whole
\* committed log and is waiting for the next commit, with nothing blocking the
\* activity partition, has left nothing unpublished (on recorded behaviour: a state
\* in which the controller was observed doing nothing for longer than any retry
\* interval)
Pending == {i \in EligIds(rlog) : i \notin Ids(pub)}
Idle(n) == up[n] /\ ctl = n /\ ~blocked /\ disp[n].st = "run" /\ ~disp[n].lost /\ disp[n].idx > Len(rlog)
C18_IdleMeansPublished == \A n \in Nodes : Idle(n) => Pending = {}

\* The dispatcher lists an operation by READING its entry from the Raft log store
\* (from lastPublished + 1 on); the entry is the only place the operation can be
\* listed from (a snapshot holds the resulting metadata, not the operations).  An
\* operation with an event that is committed and not in the stream whose entry is
\* below the first retained index of a server's log store can never be listed by
\* that server: at-least-once is lost (and `dispatch` panics on GetLog, on every
\* restart and new controller - DoDispatchPanic).  Demanded reading (the weaker one):
\* only operations NOT YET IN THE STREAM must be obtainable - an entry at or below
\* lastPublished, or one whose event is in the stream and only its record is missing,
\* may be gone as far as the statement is concerned.
Obtainable(f) == \A i \in Pending : i >= f
C18_Obtainable == \A n \in Nodes : Obtainable(first[n])

\* Another cluster (own Raft log, own controller and dispatcher, another
\* `clustering.namespace`) on the SAME NATS deployment commits an operation and
\* publishes its event.  Every subject of a cluster carries its namespace, the
\* activity subject included: nothing of this cluster changes - its activity
\* stream lists the operations of THIS cluster's Raft log and nothing else
\* (C18_IdContent), whoever else publishes.
DoForeignPublish == UNCHANGED vars
C18_ForeignIsolated == pub' = pub

\* What DoDispatchPublish assumes of the configuration: the event is committed to the
\* stream (acknowledged by every in-sync replica) when the publish returns; with an
\* acknowledgement by the partition leader alone a recorded event can still be lost with
\* that leader and is never published again.
A_DurablePublish(ackPolicy) == ackPolicy = "ALL"

TypeOK ==
  /\ \A i \in 1..Len(rlog) : rlog[i].k \in {"S", "E", "N", "P"}
  /\ ctl \in Nodes \cup {None}
  /\ \A n \in Nodes : disp[n].st \in {"off", "init", "run", "pub", "wait"}
  /\ \A n \in Nodes : ~up[n] => disp[n].st = "off"

\* implementation-level invariants (conformance, not demanded by C18)
I_DispAboveLP == \A n \in Nodes : disp[n].st \in {"run", "pub", "wait"} => disp[n].idx > disp[n].base
=============================================================================
