SPECIFICATION Spec
CONSTANTS
  Subs = {"s1", "s2"}
  MaxRecs = 6
  MaxOps = 12
INVARIANTS EndOK
CHECK_DEADLOCK FALSE
