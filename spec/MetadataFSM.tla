--------------------------- MODULE MetadataFSM ---------------------------
(***************************************************************************)
(* The controller state machine of one server (server/fsm.go, the apply    *)
(* side of server/metadata.go, stream.go, partition.go, groups.go):        *)
(* committed operations applied with their Raft index, snapshots that hold *)
(* REFERENCES to the live partition records and are persisted later,       *)
(* restart = restore the last persisted snapshot, replay the suffix with   *)
(* recovered = TRUE, finishedRecovery (or, when nothing is replayed,       *)
(* finishRestore: what Restore added is started all the same).             *)
(*                                                                         *)
(*   streams  name -> [tomb, subj, cfg, ts, parts]; subj = NATS subject,   *)
(*            cfg = id of the stream-level configuration (overrides of     *)
(*            MinISR, concurrency control, retention, ...), ts = creation  *)
(*            time - all three come with CREATE_STREAM and are copied into *)
(*            snapshots BY VALUE at Snapshot() time;                       *)
(*            parts = sequence (partition id + 1)                          *)
(*            of [replicas, isr, leader, lepoch, epoch,                    *)
(*                paused   (partition.paused: the partition is closed),    *)
(*                ppaused  (proto Partition.Paused: what FetchMetadata     *)
(*                          reports and what a snapshot carries),          *)
(*                ro       (proto Partition.Readonly: reported/snapshot),  *)
(*                roeff    (commit log read-only flag: what publishes see), *)
(*                rec      (partition.recovered: added during recovery and *)
(*                          not started yet)]                               *)
(*            tomb = marked for deletion during replay                     *)
(*   groups   group id -> group value of GroupOps (or NoGroup)             *)
(*   grec     group id -> consumerGroup.recovered: added during recovery   *)
(*            and not started yet (liveness timers of its members are not  *)
(*            armed, it does not answer as coordinator)                    *)
(*   lastPub  activity manager: last published Raft index                  *)
(*   disk     stream name -> (partition id + 1 -> data marker); a marker   *)
(*            is the index of the CREATE_STREAM under which the data was   *)
(*            written, 0 = directory without data                          *)
(*   applied  index of the last operation applied (or covered by the       *)
(*            restored snapshot)                                           *)
(*   mode     "live" | "boot" (restarted, snapshot not yet restored) |     *)
(*            "replay" | "catchup" (live server that installed a snapshot  *)
(*            and applies the entries behind it);  nrep = operations       *)
(*            replayed since the restart                                   *)
(*   sref     Snapshot() result not yet persisted: [has, idx, live, frozen,*)
(*            groups]: partition records of the streams in `live` are      *)
(*            still the live ones (Persist will see their CURRENT values), *)
(*            those in DOMAIN frozen were deleted since (values at         *)
(*            deletion); groups are copied at Snapshot() time              *)
(*   snap     last persisted snapshot [has, idx, streams, groups]          *)
(*   pre      streams/groups/disk at the moment of the last restart        *)
(*   obs      result of the last call                                      *)
(*                                                                         *)
(* Operations are records [op |-> "CreateStream", ...].  The StreamDeleted  *)
(* announcement to the groups is part of the step that removes the stream  *)
(* (metadataAPI.removeStream returns it, the callers run it before the     *)
(* apply returns).                                                         *)
(***************************************************************************)
EXTENDS GroupOps, TLC

CONSTANTS GroupIds
VARIABLES streams, groups, grec, lastPub, disk, applied, mode, nrep, sref, snap, pre, obs
vars == <<streams, groups, grec, lastPub, disk, applied, mode, nrep, sref, snap, pre, obs>>

NoRef == [has |-> FALSE]
NoSnap == [has |-> FALSE]
Seq2Set(q) == {q[i] : i \in DOMAIN q}
Perms(S) == {q \in [1..Cardinality(S) -> S] : \A i, j \in DOMAIN q : i # j => q[i] # q[j]}

\* what newPartition derives from the stream configuration (ApplyOverrides): the
\* minimum ISR size in force (server default 1)
MinIsrOf(cfg) == IF cfg = "k1" THEN 2 ELSE 1
NewPart(R, ldr, e, rec, cfg) == [replicas |-> R, isr |-> R, leader |-> ldr, lepoch |-> e, epoch |-> e,
                                 paused |-> FALSE, ppaused |-> FALSE, ro |-> FALSE, roeff |-> FALSE, rec |-> rec,
                                 minisr |-> MinIsrOf(cfg)]
HeadOf(st) == [subj |-> st.subj, cfg |-> st.cfg, ts |-> st.ts]
Proto(p) == [replicas |-> p.replicas, isr |-> p.isr, leader |-> p.leader, lepoch |-> p.lepoch,
             epoch |-> p.epoch, ppaused |-> p.ppaused, ro |-> p.ro]
ProtoParts(ps) == [i \in DOMAIN ps |-> Proto(ps[i])]
\* addPartition from a proto: re-paused when the proto says so; a NEW commit
\* log is opened and made read-only when the proto says so
FromProto(q, cfg) == [replicas |-> q.replicas, isr |-> q.isr, leader |-> q.leader, lepoch |-> q.lepoch,
                 epoch |-> q.epoch, paused |-> q.ppaused, ppaused |-> q.ppaused, ro |-> q.ro, roeff |-> q.ro,
                 rec |-> TRUE, minisr |-> MinIsrOf(cfg)]

\* getStreamPartitions: tombstoned streams are still in the store
PC(ss) == [s \in DOMAIN ss |-> Len(ss[s].parts)]
Pids(ss, s, pids) == IF pids = {} THEN DOMAIN ss[s].parts ELSE {p + 1 : p \in pids}

\* StreamDeleted(s, e) announced to every group
Announce(gg, s, e, ss) == [g \in DOMAIN gg |-> IF gg[g].exists THEN GStreamDeleted(gg[g], s, e, PC(ss)) ELSE gg[g]]
RECURSIVE GAnnounceSeq(_, _, _, _)
GAnnounceSeq(g, q, e, pc) == IF q = <<>> THEN g ELSE GAnnounceSeq(GStreamDeleted(g, Head(q), e, pc), Tail(q), e, pc)

\* commitlog.New creates the directories of a partition that has none
WithDirs(d, s, n) ==
  LET old == IF s \in DOMAIN d THEN d[s] ELSE <<>>
  IN Put(d, s, [i \in (DOMAIN old) \cup (1..n) |-> IF i \in DOMAIN old THEN old[i] ELSE 0])

Init ==
  /\ streams = <<>> /\ groups = [g \in GroupIds |-> NoGroup] /\ grec = [g \in GroupIds |-> FALSE] /\ lastPub = 0 /\ disk = <<>>
  /\ applied = 0 /\ mode = "live" /\ nrep = 0 /\ sref = NoRef /\ snap = NoSnap
  /\ pre = [streams |-> <<>>, groups |-> [g \in GroupIds |-> NoGroup], disk |-> <<>>]
  /\ obs = [a |-> "Open", err |-> ""]

-----------------------------------------------------------------------------
(* Server.apply(op, index, recovered): the effect on (streams, groups,     *)
(* lastPub, disk, sref) as a record; err # "" = apply returns an error     *)
(* (Server.Apply would panic) and nothing changes.                          *)

St == [streams |-> streams, groups |-> groups, grec |-> grec, lastPub |-> lastPub, disk |-> disk, sref |-> sref, err |-> ""]
Err(e) == [St EXCEPT !.err = e]

\* a live delete detaches the partition records a pending snapshot refers to
Detach(r, s) == IF r.has /\ s \in r.live
                THEN [r EXCEPT !.live = @ \ {s}, !.frozen = Put(@, s, ProtoParts(streams[s].parts))]
                ELSE r

ApplyCreate(o, e, rec) ==
  LET fresh(ss, gg) ==
        [St EXCEPT !.streams = Put(ss, o.s, [tomb |-> FALSE, subj |-> o.subj, cfg |-> o.cfg, ts |-> o.ts,
                                                 parts |-> [i \in 1..o.n |-> NewPart(o.R, o.ldr, e, rec, o.cfg)]]),
                   !.groups = gg,
                   \* a live create is followed by data written under this incarnation
                   \* (directories that are already there - possible when a live server installed a
                   \* snapshot - are opened, partition directories beyond o.n stay)
                   !.disk = IF rec THEN WithDirs(disk, o.s, o.n)
                            ELSE Put(disk, o.s, [i \in DOMAIN WithDirs(disk, o.s, o.n)[o.s] |->
                                                    IF i <= o.n THEN e ELSE disk[o.s][i]])]
  IN IF o.s \notin DOMAIN streams THEN fresh(streams, groups)
     ELSE IF ~rec \/ ~streams[o.s].tomb THEN Err("stream_exists")
     \* un-tombstone: the old stream object is closed and removed (which
     \* announces a deletion with the index of THIS create), data stays
     ELSE LET ss == Del(streams, o.s) IN fresh(ss, Announce(groups, o.s, e, ss))

\* a replayed delete only tombstones the stream (the data waits for the end of
\* the replay), but the groups hear of it at once, with the index of the delete
\* (fix 2da7ea8; the later announcements - un-tombstone, finishedRecovery - then
\* find no subscriber of the name and change nothing)
ApplyDelete(o, e, rec) ==
  IF o.s \notin DOMAIN streams THEN Err("stream_not_found")
  ELSE IF rec THEN LET ss == [streams EXCEPT ![o.s].tomb = TRUE] IN
                   [St EXCEPT !.streams = ss, !.groups = Announce(groups, o.s, e, ss)]
  ELSE LET ss == Del(streams, o.s) IN
       [St EXCEPT !.streams = ss, !.disk = Del(disk, o.s), !.groups = Announce(groups, o.s, e, ss),
                  !.sref = Detach(sref, o.s)]

ApplyPause(o) ==
  IF o.s \notin DOMAIN streams THEN Err("stream_not_found")
  ELSE IF ~(Pids(streams, o.s, o.pids) \subseteq DOMAIN streams[o.s].parts) THEN Err("partition_not_found")
  ELSE [St EXCEPT !.streams[o.s].parts = [i \in DOMAIN @ |->
          IF i \in Pids(streams, o.s, o.pids) THEN [@[i] EXCEPT !.paused = TRUE, !.ppaused = TRUE] ELSE @[i]]]

\* ResumePartition: a paused partition is REPLACED by a new partition object
\* built from the same proto (new commit log, which takes the proto's
\* read-only flag); the proto's Paused flag is cleared
ApplyResume(o, rec) ==
  IF o.s \notin DOMAIN streams THEN Err("stream_not_found")
  ELSE IF ~({p + 1 : p \in o.pids} \subseteq DOMAIN streams[o.s].parts) THEN Err("partition_not_found")
  ELSE [St EXCEPT !.streams[o.s].parts = [i \in DOMAIN @ |->
          IF i - 1 \in o.pids /\ @[i].paused
          THEN [@[i] EXCEPT !.paused = FALSE, !.ppaused = FALSE, !.roeff = streams[o.s].parts[i].ro, !.rec = rec] ELSE @[i]]]

ApplyReadonly(o) ==
  IF o.s \notin DOMAIN streams THEN Err("stream_not_found")
  ELSE IF ~(Pids(streams, o.s, o.pids) \subseteq DOMAIN streams[o.s].parts) THEN Err("partition_not_found")
  ELSE [St EXCEPT !.streams[o.s].parts = [i \in DOMAIN @ |->
          IF i \in Pids(streams, o.s, o.pids) THEN [@[i] EXCEPT !.ro = o.b, !.roeff = o.b] ELSE @[i]]]

HasPart(s, p) == s \in DOMAIN streams /\ p + 1 \in DOMAIN streams[s].parts
Part(s, p) == streams[s].parts[p + 1]

\* SHRINK_ISR / EXPAND_ISR / CHANGE_LEADER: idempotency guard epoch >= index
ApplyISR(o, e, add) ==
  IF ~HasPart(o.s, o.p) THEN Err("no_partition")
  ELSE IF Part(o.s, o.p).epoch >= e THEN St
  ELSE IF o.r \notin Part(o.s, o.p).replicas THEN Err("not_replica")
  ELSE [St EXCEPT !.streams[o.s].parts[o.p + 1] =
          [@ EXCEPT !.isr = IF add THEN @ \cup {o.r} ELSE @ \ {o.r}, !.epoch = e]]

ApplyLeader(o, e) ==
  IF ~HasPart(o.s, o.p) THEN Err("no_partition")
  ELSE IF Part(o.s, o.p).epoch >= e THEN St
  ELSE IF e < Part(o.s, o.p).lepoch THEN Err("leader_epoch")
  ELSE [St EXCEPT !.streams[o.s].parts[o.p + 1] = [@ EXCEPT !.leader = o.ldr, !.lepoch = e, !.epoch = e]]

ApplyCreateGroup(o, rec) ==
  IF groups[o.g].exists THEN Err("group_exists")
  ELSE [St EXCEPT !.groups[o.g] = GAddMember(NewGroup(o.coord, 0), o.c, o.S, PC(streams)), !.grec[o.g] = rec]

ApplyJoin(o, e) ==
  IF ~groups[o.g].exists THEN Err("group_not_found")
  ELSE IF e < groups[o.g].epoch THEN Err("group_epoch")
  ELSE [St EXCEPT !.groups[o.g] = [GAddMember(@, o.c, o.S, PC(streams)) EXCEPT !.epoch = e]]

ApplyLeave(o, e) ==
  IF ~groups[o.g].exists THEN Err("group_not_found")
  ELSE IF e < groups[o.g].epoch THEN Err("group_epoch")
  ELSE IF o.c \notin Members(groups[o.g]) THEN Err("not_member")
  ELSE LET g1 == [GRemoveMember(groups[o.g], o.c, PC(streams)) EXCEPT !.epoch = e]
       IN [St EXCEPT !.groups[o.g] = IF Members(g1) = {} THEN NoGroup ELSE g1,
                     !.grec[o.g] = IF Members(g1) = {} THEN FALSE ELSE @]

ApplyCoordinator(o, e) ==
  IF ~groups[o.g].exists THEN Err("group_not_found")
  ELSE IF groups[o.g].epoch >= e THEN St
  ELSE [St EXCEPT !.groups[o.g] = [@ EXCEPT !.coord = o.coord, !.epoch = e]]

ApplyOp(o, e, rec) ==
  CASE o.op = "CreateStream" -> ApplyCreate(o, e, rec)
    [] o.op = "DeleteStream" -> ApplyDelete(o, e, rec)
    [] o.op = "Pause" -> ApplyPause(o)
    [] o.op = "Resume" -> ApplyResume(o, rec)
    [] o.op = "SetReadonly" -> ApplyReadonly(o)
    [] o.op = "ShrinkISR" -> ApplyISR(o, e, FALSE)
    [] o.op = "ExpandISR" -> ApplyISR(o, e, TRUE)
    [] o.op = "ChangeLeader" -> ApplyLeader(o, e)
    [] o.op = "CreateGroup" -> ApplyCreateGroup(o, rec)
    [] o.op = "JoinGroup" -> ApplyJoin(o, e)
    [] o.op = "LeaveGroup" -> ApplyLeave(o, e)
    [] o.op = "ChangeCoordinator" -> ApplyCoordinator(o, e)
    [] o.op = "PublishActivity" -> [St EXCEPT !.lastPub = o.i]

\* what the metadata leader checks before proposing (metadata.go check*Preconditions,
\* ShrinkISR/ExpandISR/electNew*): the sequences for which the property is claimed
Valid(o) ==
  CASE o.op = "CreateStream" -> o.s \notin DOMAIN streams /\ o.n >= 1 /\ o.ldr \in o.R
    [] o.op = "DeleteStream" -> o.s \in DOMAIN streams
    [] o.op \in {"Pause", "SetReadonly"} -> o.s \in DOMAIN streams /\ Pids(streams, o.s, o.pids) \subseteq DOMAIN streams[o.s].parts
    [] o.op = "Resume" -> o.s \in DOMAIN streams /\ o.pids # {} /\ {p + 1 : p \in o.pids} \subseteq DOMAIN streams[o.s].parts
    [] o.op \in {"ShrinkISR", "ExpandISR"} -> HasPart(o.s, o.p) /\ o.r \in Part(o.s, o.p).replicas
    [] o.op = "ChangeLeader" -> HasPart(o.s, o.p) /\ o.ldr \in Part(o.s, o.p).isr \ {Part(o.s, o.p).leader}
    [] o.op = "CreateGroup" -> ~groups[o.g].exists /\ o.S # {} /\ o.S \subseteq DOMAIN streams
    [] o.op = "JoinGroup" -> groups[o.g].exists /\ o.c \notin Members(groups[o.g]) /\ o.S # {} /\ o.S \subseteq DOMAIN streams
    [] o.op = "LeaveGroup" -> groups[o.g].exists /\ o.c \in Members(groups[o.g])
    [] o.op = "ChangeCoordinator" -> groups[o.g].exists /\ o.coord # groups[o.g].coord
    [] o.op = "PublishActivity" -> o.i <= applied

Install(r, a) ==
  /\ streams' = r.streams /\ groups' = r.groups /\ grec' = r.grec /\ lastPub' = r.lastPub /\ disk' = r.disk /\ sref' = r.sref
  /\ obs' = [a |-> a, err |-> r.err]

\* a newly committed operation (index applied + 1, recovered = FALSE)
DoApply(o) ==
  /\ mode = "live"
  /\ Install(ApplyOp(o, applied + 1, FALSE), o.op)
  /\ applied' = applied + 1
  /\ UNCHANGED <<mode, nrep, snap, pre>>

\* a replayed operation (recovered = TRUE)
DoReplay(o) ==
  /\ mode = "replay"
  /\ Install(ApplyOp(o, applied + 1, TRUE), o.op)
  /\ applied' = applied + 1 /\ nrep' = nrep + 1
  /\ UNCHANGED <<mode, snap, pre>>

-----------------------------------------------------------------------------
(* Snapshot / Persist / restart *)

\* Server.Snapshot(): partition records by reference, groups by value; the
\* member list of a group comes out of a Go map: any order (ord[g])
DoSnapshot(ord) ==
  /\ mode = "live"
  /\ sref' = [has |-> TRUE, idx |-> applied, live |-> DOMAIN streams, frozen |-> <<>>,
              lastPub |-> lastPub,     \* (b7ccaa8: the snapshot carries the last published activity index, by value)
              heads |-> [s \in DOMAIN streams |-> HeadOf(streams[s])],
              groups |-> [g \in {h \in GroupIds : groups[h].exists} |->
                            [members |-> [i \in DOMAIN ord[g] |-> [c |-> ord[g][i], S |-> groups[g].subs[ord[g][i]]]],
                             epoch |-> groups[g].epoch, coord |-> groups[g].coord]]]
  /\ obs' = [a |-> "Snapshot", err |-> ""]
  /\ UNCHANGED <<streams, groups, grec, lastPub, disk, applied, mode, nrep, snap, pre>>

\* what fsmSnapshot.Persist marshals NOW
Preview(r) == [s \in r.live \cup DOMAIN r.frozen |->
                 IF s \in r.live THEN ProtoParts(streams[s].parts) ELSE r.frozen[s]]

DoPersist ==
  /\ sref.has
  /\ snap' = [has |-> TRUE, idx |-> sref.idx, streams |-> Preview(sref), heads |-> sref.heads, groups |-> sref.groups, lastPub |-> sref.lastPub]
  /\ sref' = NoRef
  /\ obs' = [a |-> "Persist", err |-> ""]
  /\ UNCHANGED <<streams, groups, grec, lastPub, disk, applied, mode, nrep, pre>>

\* fsmSnapshot.Persist running CONCURRENTLY with Server.apply (Raft calls Persist in its snapshot
\* goroutine while the FSM goroutine goes on applying): the snapshot is marshalled first (what it holds
\* is the state at that moment), operation o is applied while the bytes are being written to the sink.
\* The persisted snapshot must be a well-formed one (size header = payload) whatever o changes.
DoPersistWith(o) ==
  /\ mode = "live" /\ sref.has
  /\ snap' = [has |-> TRUE, idx |-> sref.idx, streams |-> Preview(sref), heads |-> sref.heads, groups |-> sref.groups, lastPub |-> sref.lastPub]
  /\ LET r == ApplyOp(o, applied + 1, FALSE) IN
       /\ streams' = r.streams /\ groups' = r.groups /\ grec' = r.grec /\ lastPub' = r.lastPub /\ disk' = r.disk
       /\ obs' = [a |-> "PersistWith", err |-> r.err]
  /\ sref' = NoRef /\ applied' = applied + 1
  /\ UNCHANGED <<mode, nrep, pre>>

\* the process stops and a new Server is created over the same data directory
DoRestart ==
  /\ mode = "live"
  /\ pre' = [streams |-> streams, groups |-> groups, disk |-> disk]
  /\ streams' = <<>> /\ groups' = [g \in GroupIds |-> NoGroup] /\ grec' = [g \in GroupIds |-> FALSE] /\ lastPub' = 0
  /\ applied' = 0 /\ nrep' = 0 /\ sref' = NoRef
  /\ mode' = IF snap.has THEN "boot" ELSE "replay"
  /\ obs' = [a |-> "Restart", err |-> ""]
  /\ UNCHANGED <<disk, snap>>

RECURSIVE AddMembers(_, _, _)
AddMembers(g, ms, pc) == IF ms = <<>> THEN g ELSE AddMembers(GAddMember(g, Head(ms).c, Head(ms).S, pc), Tail(ms), pc)

\* startRecovered (the body of finishedRecovery, also reached through
\* finishRestore): partition.StartRecovered - a paused partition stays in
\* recovery mode (it is replaced when it is resumed)
Started(ss) == [s \in DOMAIN ss |->
                  [ss[s] EXCEPT !.parts = [i \in DOMAIN @ |-> IF @[i].paused THEN @[i] ELSE [@[i] EXCEPT !.rec = FALSE]]]]

\* Server.Restore: every stream and group of the snapshot is added as
\* "recovered"; the groups are rebuilt by adding the members one by one in
\* the order of the snapshot.  running = the server is already serving
\* (IsRunning): nothing will be replayed, Restore ends with finishRestore.
RestoreEffect(running) ==
  LET s0 == [s \in DOMAIN snap.streams |->
               [tomb |-> FALSE, subj |-> snap.heads[s].subj, cfg |-> snap.heads[s].cfg, ts |-> snap.heads[s].ts,
                parts |-> [i \in DOMAIN snap.streams[s] |-> FromProto(snap.streams[s][i], snap.heads[s].cfg)]]]
      ss == IF running THEN Started(s0) ELSE s0
      dd == [s \in DOMAIN disk \cup DOMAIN ss |->
               IF s \in DOMAIN ss THEN WithDirs(disk, s, Len(ss[s].parts))[s] ELSE disk[s]]
  IN /\ streams' = ss /\ disk' = dd
     /\ groups' = [g \in GroupIds |-> IF g \in DOMAIN snap.groups
                     THEN AddMembers(NewGroup(snap.groups[g].coord, snap.groups[g].epoch), snap.groups[g].members, PC(ss))
                     ELSE NoGroup]
     /\ grec' = [g \in GroupIds |-> g \in DOMAIN snap.groups /\ ~running]
     \* the activity index of the snapshot is taken over (0 = a snapshot that carries none)
     /\ lastPub' = IF snap.lastPub > 0 THEN snap.lastPub ELSE lastPub
     /\ applied' = snap.idx

DoRestore ==
  /\ mode = "boot" /\ snap.has
  /\ RestoreEffect(FALSE)
  /\ mode' = "replay"
  /\ obs' = [a |-> "Restore", err |-> ""]
  /\ UNCHANGED <<nrep, sref, snap, pre>>

\* A LIVE server is handed a snapshot (Raft InstallSnapshot on a follower whose
\* log was compacted away): Server.Restore on a server that HAS state.  "The FSM
\* must discard all previous state": whatever it held, afterwards it holds the
\* snapshot (metadata.Reset closes streams and groups; directories stay).  The
\* entries behind the snapshot then arrive as NEW entries (recovered = FALSE:
\* the replay range was determined at start-up), so nothing is replayed and
\* Restore itself starts what it added (finishRestore, the server is running).
\* Because the previous state is discarded, the step is modelled on the
\* server's own last persisted snapshot.
DoInstall ==
  /\ mode = "live" /\ snap.has /\ ~sref.has
  /\ pre' = [streams |-> streams, groups |-> groups, disk |-> disk]
  /\ RestoreEffect(TRUE)
  /\ mode' = "catchup"
  /\ obs' = [a |-> "Install", err |-> ""]
  /\ UNCHANGED <<nrep, sref, snap>>

DoCatchup(o) ==
  /\ mode = "catchup"
  /\ Install(ApplyOp(o, applied + 1, FALSE), o.op)
  /\ applied' = applied + 1
  /\ UNCHANGED <<mode, nrep, snap, pre>>

DoCaughtUp ==
  /\ mode = "catchup"
  /\ mode' = "live"
  /\ obs' = [a |-> "CaughtUp", err |-> ""]
  /\ UNCHANGED <<streams, groups, grec, lastPub, disk, applied, nrep, sref, snap, pre>>

Tombs == {s \in DOMAIN streams : streams[s].tomb}

\* finishedRecovery(index of the last replayed operation): tombstoned streams
\* are deleted (data included) and announced with THAT index; the store is a
\* Go map: any order (ord = permutation of Tombs, per group)
DoFinish(ord) ==
  /\ mode = "replay" /\ nrep > 0
  /\ LET ss == Started([s \in DOMAIN streams \ Tombs |-> streams[s]]) IN
     /\ streams' = ss
     /\ disk' = [s \in DOMAIN disk \ Tombs |-> disk[s]]
     /\ groups' = [g \in GroupIds |-> IF groups[g].exists THEN GAnnounceSeq(groups[g], ord[g], applied, PC(ss)) ELSE groups[g]]
  \* consumerGroup.StartRecovered
  /\ grec' = [g \in GroupIds |-> FALSE]
  /\ mode' = "live"
  /\ obs' = [a |-> "Finish", err |-> ""]
  /\ UNCHANGED <<lastPub, applied, nrep, sref, snap, pre>>

\* nothing was replayed (the snapshot covers the whole log: the log store
\* holds no command entry behind it): Server.Start ends the recovery with
\* finishRestore once the API server is initialised (at the latest
\* Server.Apply does before the first entry it applies as a new one): what
\* Restore added is started; there are no tombstones, nothing is announced
DoGoLive ==
  /\ mode = "replay" /\ nrep = 0
  /\ streams' = Started(streams) /\ grec' = [g \in GroupIds |-> FALSE]
  /\ mode' = "live"
  /\ obs' = [a |-> "GoLive", err |-> ""]
  /\ UNCHANGED <<groups, lastPub, disk, applied, nrep, sref, snap, pre>>

-----------------------------------------------------------------------------
(* What C06 demands.  Evaluated on the step that returns to live operation  *)
(* (Finish / GoLive) against `pre`, the state the server had before.        *)

Meta(p) == [replicas |-> p.replicas, isr |-> p.isr, leader |-> p.leader, lepoch |-> p.lepoch,
            epoch |-> p.epoch, paused |-> p.paused, ppaused |-> p.ppaused, ro |-> p.ro, minisr |-> p.minisr]
MetaOf(ss) == [s \in DOMAIN ss |-> [tomb |-> ss[s].tomb, subj |-> ss[s].subj, cfg |-> ss[s].cfg, ts |-> ss[s].ts, parts |-> [i \in DOMAIN ss[s].parts |-> Meta(ss[s].parts[i])]]]
\* after recovery every partition that is not paused has been started
RS_Started == (mode' = "live" /\ mode \in {"replay", "catchup"}) =>
   /\ \A s \in DOMAIN streams' : \A i \in DOMAIN streams'[s].parts : streams'[s].parts[i].paused \/ ~streams'[s].parts[i].rec
   /\ \A g \in GroupIds : ~grec'[g]
\* ... and a server that serves never holds a partition that waits for the end of a recovery
NoRecLive == mode \in {"live", "catchup"} =>
   /\ \A s \in DOMAIN streams : \A i \in DOMAIN streams[s].parts : streams[s].parts[i].paused \/ ~streams[s].parts[i].rec
   /\ \A g \in GroupIds : ~grec[g]
RoEffOf(ss) == [s \in DOMAIN ss |-> [i \in DOMAIN ss[s].parts |-> ss[s].parts[i].roeff]]

BackLive == mode' = "live" /\ mode \in {"replay", "catchup"}

RS_Streams == BackLive => MetaOf(streams') = MetaOf(pre.streams)
RS_RoEff == BackLive => (DOMAIN streams' = DOMAIN pre.streams => RoEffOf(streams') = RoEffOf(pre.streams))
RS_GroupMembers == BackLive => \A g \in GroupIds :
   /\ groups'[g].exists = pre.groups[g].exists
   /\ groups'[g].exists => (groups'[g].subs = pre.groups[g].subs /\ groups'[g].coord = pre.groups[g].coord)
RS_GroupEpoch == BackLive => \A g \in GroupIds :
   (groups'[g].exists /\ pre.groups[g].exists) => groups'[g].epoch = pre.groups[g].epoch
RS_GroupAsg == BackLive => \A g \in GroupIds :
   (groups'[g].exists /\ pre.groups[g].exists /\ groups'[g].subs = pre.groups[g].subs) => groups'[g].asg = pre.groups[g].asg
\* replay never deletes data of a stream that still exists at the end of the log
NoDataLoss == BackLive => \A s \in DOMAIN pre.streams :
   s \in DOMAIN disk' /\ \A i \in DOMAIN pre.streams[s].parts : i \in DOMAIN disk'[s] /\ disk'[s][i] = pre.disk[s][i]
\* ... and never brings back a stream that was deleted
NoResurrection == BackLive => (DOMAIN streams' \subseteq DOMAIN pre.streams /\ DOMAIN disk' \subseteq DOMAIN pre.disk)
\* replay of a valid log never fails (Server.Apply would panic)
NoApplyError == obs'.err = ""

\* whatever its history (live, replayed, restored), a group holds a VALID assignment
\* (C12: exactly one subscribed holder per partition, nothing foreign, no ghost partitions)
GroupsValid == \A g \in GroupIds : groups[g].exists =>
   /\ NoForeign(groups[g])
   /\ \A s \in DOMAIN streams : ExactlyOneFor(groups[g], s, Len(streams[s].parts)) /\ AssignedExistFor(groups[g], s, Len(streams[s].parts))

\* state invariants
NoTombLive == mode = "live" => Tombs = {}
GroupsFine == \A g \in GroupIds : groups[g].exists => (NoForeign(groups[g]) /\ CountersOK(groups[g]) /\ HeapsOK(groups[g]))
\* what is reported/snapshotted is what is in force
FlagsConsistent == \A s \in DOMAIN streams : \A i \in DOMAIN streams[s].parts :
   streams[s].parts[i].paused = streams[s].parts[i].ppaused /\ streams[s].parts[i].roeff = streams[s].parts[i].ro
EpochsFine == \A s \in DOMAIN streams : \A i \in DOMAIN streams[s].parts :
   streams[s].parts[i].lepoch <= streams[s].parts[i].epoch /\ (mode = "live" => streams[s].parts[i].epoch <= applied)
=============================================================================
