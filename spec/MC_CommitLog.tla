------------------------- MODULE MC_CommitLog -------------------------
(* Bounded instance of CommitLog for the exhaustive design check and for  *)
(* stimulus generation (simulation).  `last` carries the arguments of the *)
(* last action as a JSON string so that behaviours can be replayed on the *)
(* real code; `n*` are budgets.  Neither is part of the VIEW.             *)
EXTENDS CommitLog, TLC, Json

CONSTANTS MaxRecs, MaxBatch, MaxOps, MaxEpoch, CapSet, OccSet, UseReaders
VARIABLES last, nRecs, nOps
mcvars == <<vars, last, nRecs, nOps>>

Rec(i, big, e, exp) == [ep |-> e, ts |-> i, key |-> "k", val |-> i, hdr |-> "h",
                        sz |-> IF big THEN 3 ELSE 1, fp |-> i, exp |-> exp]
Batch(n, big, e, exp) == [i \in 1..n |-> Rec(nRecs + i, big /\ i = 1, e, exp)]
WithOff(recs, n) == [i \in 1..Len(recs) |->
   [off |-> n + i - 1, ep |-> recs[i].ep, ts |-> recs[i].ts, key |-> recs[i].key,
    val |-> recs[i].val, hdr |-> recs[i].hdr, sz |-> recs[i].sz, fp |-> recs[i].fp]]

CurEpoch == IF log = <<>> THEN LatestEpoch(epochs)
            ELSE IF Last(log).ep > LatestEpoch(epochs) THEN Last(log).ep ELSE LatestEpoch(epochs)

Step(a) == /\ nOps < MaxOps /\ nOps' = nOps + 1 /\ last' = a

MCInit ==
  /\ cfg \in [maxBytes : CapSet, occ : OccSet]
  /\ log = <<>> /\ segs = <<[base |-> 0, bytes |-> 0]>>
  /\ hw = -1 /\ epochs = <<>> /\ ro = FALSE
  /\ rd = [r \in Readers |-> NoReader]
  /\ obs = [a |-> "Open", ret |-> <<>>, err |-> ""]
  /\ last = [a |-> "Open"] /\ nRecs = 0 /\ nOps = 0

MCAppend(n, big, de, dx) ==
  /\ nRecs + n <= MaxRecs
  /\ cfg.occ => n = 1
  /\ ~cfg.occ => dx = 9
  /\ CurEpoch + de <= MaxEpoch
  \* dx: 9 = check waived (-1); 92, 93 = negative expected offsets other than -1 (only -1
  \* waives the check: they are expectations like any other and are never met); otherwise
  \* relative to the next offset (stale / equal / future)
  /\ LET exp == CASE dx = 9 -> -1 [] dx = 92 -> -2 [] dx = 93 -> -1000000 [] OTHER -> NextOff + dx
         recs == Batch(n, big, CurEpoch + de, exp) IN
     /\ dx \notin {92, 93} => exp >= -1
     /\ DoAppend(recs)
     /\ Step([a |-> "Append", recs |-> recs])
     /\ nRecs' = nRecs + n

\* g > 0: a replica that joins late - the first replicated set of an empty log starts above 0
MCAppendSet(n, big, de, g) ==
  /\ nRecs + n <= MaxRecs
  /\ CurEpoch + de <= MaxEpoch
  /\ g > 0 => (log = <<>> /\ hw = -1)
  /\ LET recs == WithOff(Batch(n, big, CurEpoch + de, -1), NextOff + g) IN
     /\ DoAppendSet(recs)
     /\ Step([a |-> "AppendSet", recs |-> recs])
     /\ nRecs' = nRecs + n

MCTruncate(o) == DoTruncate(o) /\ Step([a |-> "Truncate", o |-> o]) /\ UNCHANGED nRecs
MCSetHW(h) == DoSetHW(h) /\ Step([a |-> "SetHW", h |-> h]) /\ UNCHANGED nRecs
MCNewLeaderEpoch ==
  /\ LatestEpoch(epochs) < MaxEpoch /\ CurEpoch < MaxEpoch
  /\ DoNewLeaderEpoch(CurEpoch + 1)
  /\ Step([a |-> "NewLeaderEpoch", e |-> CurEpoch + 1]) /\ UNCHANGED nRecs
MCSetReadonly(b) == ro # b /\ DoSetReadonly(b) /\ Step([a |-> "SetReadonly", b |-> b]) /\ UNCHANGED nRecs
MCReopen == DoReopen /\ Step([a |-> "Reopen"]) /\ UNCHANGED nRecs
MCNewReader(r, s, c) ==
  /\ UseReaders /\ ~rd[r].alive
  /\ c => s >= 0        \* a committed reader is only ever started at a real offset
  /\ DoNewReader(r, s, c) /\ Step([a |-> "NewReader", r |-> r, s |-> s, c |-> c]) /\ UNCHANGED nRecs
MCDrain(r) == UseReaders /\ DoDrain(r) /\ Step([a |-> "Drain", r |-> r]) /\ UNCHANGED nRecs
MCRead(r, k) == UseReaders /\ DoRead(r, k) /\ Step([a |-> "Read", r |-> r, k |-> k]) /\ UNCHANGED nRecs
\* Tail: from now on the driver reads r from its own goroutine with a live context, so the
\* reader really blocks at the end of the log / at the HW and is woken by later steps; what it
\* delivers after each later step is recorded as a Drain.  For the model a Tail is a Drain.
MCTail(r) == UseReaders /\ DoDrain(r) /\ Step([a |-> "Tail", r |-> r]) /\ UNCHANGED nRecs

MCNext ==
  \/ \E n \in 1..MaxBatch, big \in BOOLEAN, de \in 0..1, dx \in {-1, 0, 1, 9, 92, 93} : MCAppend(n, big, de, dx)
  \/ \E n \in 1..MaxBatch, big \in BOOLEAN, de \in 0..1, g \in {0, 2} : MCAppendSet(n, big, de, g)
  \/ \E o \in 0..(Newest + 1) : o > hw /\ MCTruncate(o)
  \/ \E h \in (hw + 1)..Newest : h >= Oldest /\ MCSetHW(h)
  \/ MCNewLeaderEpoch
  \/ \E b \in BOOLEAN : MCSetReadonly(b)
  \/ MCReopen
  \/ \E r \in Readers, s \in -1..(Newest + 2), c \in BOOLEAN : MCNewReader(r, s, c)
  \/ \E r \in Readers : MCDrain(r) \/ MCTail(r)
  \/ \E r \in Readers, k \in 1..2 : MCRead(r, k)

MCSpec == MCInit /\ [][MCNext]_mcvars

\* every call, as the code performs it, satisfies what the properties demand
StepOK ==
  LET a == last' IN
  CASE a.a = "Append" -> P_Append(a.recs)
    [] a.a = "AppendSet" -> P_AppendSet(a.recs)
    [] a.a = "Truncate" -> P_Truncate(a.o)
    [] a.a = "SetHW" -> P_SetHW(a.h)
    [] a.a = "Drain" -> P_Drain(a.r)
    [] a.a = "Read" -> P_Read(a.r, a.k)
    [] OTHER -> P_Same
StepsOK == [][StepOK]_mcvars

\* a persistent reader never skips or repeats: its position only moves forward
\* (a parked reader - created beyond the HW - resumes from the HW it saw at creation, see CommitLog.tla)
ReaderMonotone == [][\A r \in Readers : (rd[r].alive /\ rd'[r].alive /\ ~rd[r].parked) => rd'[r].next >= rd[r].next]_mcvars

MCView == <<cfg, log, segs, hw, epochs, ro, rd, nRecs, nOps>>
LastJson == ToJson(last)
=============================================================================
