SPECIFICATION MCSpec
CONSTANTS
  GroupIds = {"g1"}
  StreamSet = {"sa", "sb"}
  MaxParts = 1
  Brokers = {"r1", "r2", "r3"}
  ConsumerSet = {"c1", "c2"}
  Coords = {"A", "X"}
  OpKinds = {"CreateStream", "DeleteStream", "CreateGroup", "JoinGroup", "LeaveGroup", "ChangeCoordinator"}
  Variants = {"plain", "custom"}
  Extras = {}
  MaxOps = 4
  MaxSnaps = 1
  MaxRestarts = 1
INVARIANTS NoTombLive NoRecLive GroupsValid GroupsFine EpochsFine FlagsConsistent
PROPERTIES A_RS_GroupAsg
VIEW MCView
CHECK_DEADLOCK FALSE
