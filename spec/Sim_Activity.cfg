SPECIFICATION MCSpec
CONSTANTS
  Nodes = {"a"}
  Kinds = {"E"}
  MaxOps = 5
  MaxSys = 0
  MaxFail = 0
  MaxRecFail = 0
  MaxBlock = 2
  MaxTake = 0
  MaxCrash = 2
  MaxStep = 2
  MaxZombie = 0
  MaxSnap = 0
  Keeps = {0}
  Eager = TRUE
CHECK_DEADLOCK FALSE
