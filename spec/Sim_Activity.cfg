SPECIFICATION MCSpec
CONSTANTS
  Nodes = {"a"}
  SnapCarriesLP = TRUE
  Kinds = {"E"}
  MaxOps = 5
  MaxSys = 0
  MaxFail = 0
  MaxRecFail = 0
  MaxBlock = 2
  MaxTake = 0
  MaxCrash = 2
  MaxStep = 2
  MaxZombie = 0
  MaxSnap = 1
  MaxForeign = 1
  Keeps = {10240}
  Eager = TRUE
CHECK_DEADLOCK FALSE
