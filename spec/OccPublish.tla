--------------------------- MODULE OccPublish ---------------------------
(***************************************************************************)
(* Publish path of one partition leader on a one-node server, with          *)
(* optimistic concurrency control (property C16).                           *)
(*                                                                         *)
(*   publisher --gRPC--> api server --NATS--> recvChan --> message          *)
(*   processing loop --> commit log --ack over NATS--> api server --> pub   *)
(*                                                                         *)
(* Abstract state                                                          *)
(*   cfg   = [occ, batch, path, src]  stream has concurrency control (src =  *)
(*           where that comes from: the per-stream option of the request,   *)
(*           the server-wide setting, or the option against the server-wide *)
(*           setting); server                                               *)
(*           batch.max.messages; API path of the publishers: "async"        *)
(*           (PublishAsync stream, sends are pipelined) | "sync" (unary     *)
(*           Publish RPC: one outstanding publish per publisher)            *)
(*   msgs  = every publish issued so far, in send order; msgs[id] =         *)
(*           [p, exp, pol, via, sendT, ackT, res, off]                      *)
(*             p     publisher                                              *)
(*             via   who publishes / the entry point: "api" (gRPC, cfg.path) *)
(*                   | "subj" (PublishToSubject RPC: no expected-offset     *)
(*                   field) | "nats" (envelope written to the NATS subject  *)
(*                   by the publisher itself, with an ack inbox) | "natsq"  *)
(*                   (the same without ack inbox: never answered) | "plain" *)
(*                   (NATS message without envelope: no field at all)       *)
(*             exp   expected offset carried by the message (-1 = waived)   *)
(*             pol   ack policy "leader" | "all" | "none"                   *)
(*             sendT logical time just before the publisher sent it         *)
(*             ackT  logical time just after the publisher got the answer   *)
(*                   (Inf = no answer (yet))                                *)
(*             res   the answer: "ok" | "incorrect_offset" | "bad_request"  *)
(*                   (traces also "noanswer": none, although a later       *)
(*                   publish of the same publisher was acknowledged)       *)
(*                   | "noack" (accepted, ack policy NONE) | "pending"      *)
(*                   (traces also: "timeout", "other")                      *)
(*             off   offset carried by a success ack (-1 otherwise)         *)
(*   net   = ids published to NATS, not yet delivered to the partition      *)
(*   chan  = recvChan of the leader loop (arrival order)                    *)
(*   log   = the partition log, sequence of [off, id]                       *)
(*   ackq  = answers on their way back to the publisher                     *)
(*   clk   = logical clock of the publishers' side (one process)            *)
(*   known = publisher -> the log end (next offset) it believes in          *)
(*   paused = the partition is paused (PauseStream: leader loop stopped,    *)
(*           commit log closed); the next publish that passes the API       *)
(*           preconditions resumes it (api.go resumeStream) before it is    *)
(*           sent to NATS                                                   *)
(*   eocc  = the concurrency-control setting of the RUNNING commit log (what *)
(*           the leader loop and the API preconditions read); cfg.occ = what *)
(*           the stream was created with.  They differ only in defective    *)
(*           variants (a restart / snapshot that loses the setting)         *)
(*   snap  = what the newest persisted Raft snapshot says about the stream: *)
(*           "none" (it does not hold a stream of that name) | "pred" (it   *)
(*           holds the deleted predecessor with the opposite setting) |     *)
(*           "cur" (it holds the stream of the round).  A restart recovers  *)
(*           from the snapshot + the Raft log tail when there is one, by    *)
(*           replaying the whole Raft log otherwise                         *)
(*   infl  = publisher -> in-flight counter of its PublishAsync session     *)
(*   unc   = ids the session's publishLoop has handed to NATS and not yet   *)
(*           counted (publishLoop publishes first and counts afterwards)    *)
(*                                                                         *)
(* Two kinds of formulas:                                                  *)
(*   Do<Action>      the step exactly as the code performs it               *)
(*   P_Process, C16_*  what property C16 demands.  The C16_* formulas are   *)
(*     predicates over the HISTORY (msgs, log) only - what publishers sent  *)
(*     and received and the final log - so that the very same formulas      *)
(*     are invariants of the bounded model (design check: every             *)
(*     interleaving of sends, arrivals, processing and acks) and the        *)
(*     verdict on rounds recorded from the real server (Trace_OccPublish).  *)
(***************************************************************************)
EXTENDS Integers, Sequences, FiniteSets

CONSTANTS Pubs

VARIABLES cfg, msgs, net, chan, log, ackq, clk, known, paused, eocc, snap, infl, unc
vars == <<cfg, msgs, net, chan, log, ackq, clk, known, paused, eocc, snap, infl, unc>>

Inf == 1000000000

SetMax(S) == CHOOSE x \in S : \A y \in S : y <= x
SetMin(S) == CHOOSE x \in S : \A y \in S : x <= y
Max0(x) == IF x < 0 THEN 0 ELSE x

Ids == 1..Len(msgs)

\* who publishes
Raw    == {"nats", "natsq", "plain"}   \* the publisher's own NATS connection
NoExp  == {"plain", "subj"}            \* no expected-offset field at all
Silent == {"natsq", "plain"}           \* no ack inbox: never answered
HasExp(id) == msgs[id].via \notin NoExp
\* messages of one publisher travel in order only over the same connection
Link(id) == IF msgs[id].via \in Raw THEN "raw" ELSE msgs[id].via
SameLine(a, b) == msgs[a].p = msgs[b].p /\ Link(a) = Link(b)
\* a PublishAsync session counts it
InSession(id) == msgs[id].via = "api" /\ cfg.path = "async" /\ msgs[id].pol # "none"
\* the expected offset the leader loop works with: a message without the field
\* is handled as "expected offset 0" (natsToProtoMessage leaves the zero value)
EffExp(id) == IF HasExp(id) THEN msgs[id].exp ELSE 0

-----------------------------------------------------------------------------
(* Publisher side *)

\* the expected offset a publisher derives from what it knows
ExpOf(p, kind) ==
  CASE kind = "waive"  -> -1
    [] kind = "stale"  -> Max0(known[p] - 1)
    [] kind = "equal"  -> known[p]
    [] kind = "future" -> known[p] + 1
    [] kind = "far"    -> known[p] + 2
    \* negative values other than -1 are expectations like any other (only -1
    \* waives the check): they can never be met
    [] kind = "neg"    -> -2
    [] kind = "negbig" -> -1000000

\* PublishAsync / Publish: the API refuses ack policy NONE on a stream with
\* concurrency control before anything else happens (api.go,
\* ensurePublishPreconditions) - whatever the state of the partition; the
\* refusal is the answer.  A publish that passes resumes a paused partition
\* (resumeStream) and is then sent to NATS.
\* Only the gRPC Publish / PublishAsync calls check preconditions and resume a
\* paused partition; everything else goes straight to the NATS subject (a
\* message for a paused partition is lost - nobody is subscribed; such sends
\* are not modelled: no answer cannot be told from slowness).
\* hold: the PublishAsync session is descheduled between its NATS publish and
\* its in-flight count (DoCount is then a step of its own).
SendAs(p, kind, pol, via, hold, refused) ==
  LET id == Len(msgs) + 1
      \* ack policy NONE otherwise: fire and forget, the call returns at once.  (A publisher without
      \* ack inbox never gets an answer; its message counts as "noack" from the moment the leader
      \* has judged it - on recorded rounds: from the answer to a later publish over the same
      \* connection, the fence.)
      answered == pol = "none" /\ via \notin Silent
      session == via = "api" /\ cfg.path = "async" /\ pol # "none" /\ ~refused IN
  /\ via # "api" => ~paused
  \* publishLoop is one goroutine: it takes the next request after the count
  /\ (via = "api" /\ cfg.path = "async") => \A j \in unc : msgs[j].p # p
  /\ msgs' = Append(msgs, [p |-> p, exp |-> IF via \in NoExp THEN -1 ELSE ExpOf(p, kind), pol |-> pol,
                           via |-> via, sendT |-> clk,
                           ackT |-> IF answered THEN clk + 1 ELSE Inf,
                           res |-> IF refused THEN "bad_request" ELSE IF answered \/ via \in Silent THEN "noack" ELSE "pending",
                           off |-> -1])
  /\ net' = IF refused THEN net ELSE net \cup {id}
  /\ paused' = IF refused THEN paused ELSE FALSE
  /\ clk' = clk + 2
  /\ unc' = IF session /\ hold THEN unc \cup {id} ELSE unc
  /\ infl' = IF session /\ ~hold THEN [infl EXCEPT ![p] = @ + 1] ELSE infl
  /\ UNCHANGED <<cfg, chan, log, ackq, known, eocc, snap>>

DoSend(p, kind, pol, via, hold) == SendAs(p, kind, pol, via, hold, via = "api" /\ eocc /\ pol = "none")

\* the session counts the publish it handed to NATS
DoCount(id) ==
  /\ id \in unc
  /\ unc' = unc \ {id}
  /\ infl' = [infl EXCEPT ![msgs[id].p] = @ + 1]
  /\ UNCHANGED <<cfg, msgs, net, chan, log, ackq, clk, known, paused, eocc, snap>>

\* PauseStream while nothing is in flight: the leader loop stops, the commit
\* log is closed (what it holds stays)
DoPause ==
  /\ ~paused /\ net = {} /\ chan = <<>> /\ ackq = {} /\ unc = {}
  /\ paused' = TRUE
  /\ UNCHANGED <<cfg, msgs, net, chan, log, ackq, clk, known, eocc, snap, infl, unc>>

\* the publisher asks the server for the end of the log (partition metadata)
DoRead(p) ==
  /\ known' = [known EXCEPT ![p] = Len(log)]
  /\ UNCHANGED <<cfg, msgs, net, chan, log, ackq, clk, paused, eocc, snap, infl, unc>>

\* the answer reaches the publisher (acks of one publisher arrive in order)
\* (a PublishAsync session decrements its in-flight counter, not below 0 - the
\* ack may overtake the count - and forwards the answer in any case)
DoAckDeliver(id) ==
  /\ id \in ackq
  /\ \A j \in ackq : SameLine(j, id) => id <= j
  /\ ackq' = ackq \ {id}
  /\ infl' = IF InSession(id) THEN [infl EXCEPT ![msgs[id].p] = Max0(@ - 1)] ELSE infl
  /\ msgs' = [msgs EXCEPT ![id].ackT = clk]
  /\ clk' = clk + 1
  /\ known' = [known EXCEPT ![msgs[id].p] =
                 IF msgs[id].res = "ok" /\ msgs[id].off + 1 > @ THEN msgs[id].off + 1 ELSE @]
  /\ UNCHANGED <<cfg, net, chan, log, paused, eocc, snap, unc>>

-----------------------------------------------------------------------------
(* Server side *)

\* NATS delivers into recvChan; messages of one publisher stay in order,
\* messages of different publishers race
DoArrive(id) ==
  /\ id \in net
  /\ \A j \in net : SameLine(j, id) => id <= j
  /\ net' = net \ {id}
  /\ chan' = Append(chan, id)
  /\ UNCHANGED <<cfg, msgs, log, ackq, clk, known, paused, eocc, snap, infl, unc>>

\* messageProcessingLoop: with concurrency control the batch size is forced to 1
BatchSize == IF eocc THEN 1 ELSE cfg.batch

Stamped(b, base) == [i \in 1..Len(b) |-> [off |-> base + i - 1, id |-> b[i]]]
IdxIn(b, id) == CHOOSE i \in 1..Len(b) : b[i] = id
InBatch(b, id) == \E i \in 1..Len(b) : b[i] = id

\* one iteration of the loop: take n messages, commitLog.Append(batch):
\* the expected offset is checked before anything is written; on a mismatch
\* nothing is written and an INCORRECT_OFFSET ack goes to the sender
DoProcess(n) ==
  /\ n \in 1..BatchSize /\ n <= Len(chan)
  /\ LET b    == SubSeq(chan, 1, n)
         base == Len(log)
         bad  == eocc /\ EffExp(b[1]) # -1 /\ EffExp(b[1]) # base
         \* nobody to answer: ack policy NONE / no ack inbox
         mute(id) == msgs[id].pol = "none" \/ msgs[id].via \in Silent
         \* a message without ack inbox has been judged now
         judged(ms) == [id \in DOMAIN ms |-> IF InBatch(b, id) /\ ms[id].via \in Silent
                                              THEN [ms[id] EXCEPT !.ackT = clk] ELSE ms[id]]
     IN /\ chan' = SubSeq(chan, n + 1, Len(chan))
        /\ clk' = IF \E i \in 1..n : msgs[b[i]].via \in Silent THEN clk + 1 ELSE clk
        /\ IF bad THEN
             /\ log' = log
             \* (ack policy NONE cannot get here on a stream with concurrency
             \* control - the API refuses it; if it did, the publisher of the
             \* unary RPC has already been answered and nobody reads the ack)
             /\ msgs' = IF mute(b[1]) THEN judged(msgs)
                        ELSE [msgs EXCEPT ![b[1]].res = "incorrect_offset"]
             /\ ackq' = IF mute(b[1]) THEN ackq ELSE ackq \cup {b[1]}
           ELSE
             /\ log' = log \o Stamped(b, base)
             /\ msgs' = judged([id \in DOMAIN msgs |->
                           IF InBatch(b, id) /\ ~mute(id)
                           THEN [msgs[id] EXCEPT !.res = "ok", !.off = base + IdxIn(b, id) - 1]
                           ELSE msgs[id]])
             /\ ackq' = ackq \cup {b[i] : i \in {j \in 1..n : ~mute(b[j])}}
  /\ UNCHANGED <<cfg, net, known, paused, eocc, snap, infl, unc>>

Quiescent == net = {} /\ chan = <<>> /\ ackq = {} /\ unc = {}

-----------------------------------------------------------------------------
(* How the server comes back *)

\* the metadata Raft group persists a snapshot of its state machine (between
\* two waves): it holds the stream of the round
DoSnapshot ==
  /\ Quiescent
  /\ snap' = "cur"
  /\ UNCHANGED <<cfg, msgs, net, chan, log, ackq, clk, known, paused, eocc, infl, unc>>

\* The server is stopped and started again on the same data directory (nothing
\* in flight).  keeps = the snapshot's copy of the stream carries the
\* concurrency-control setting (TRUE in the code as it is).  With a snapshot
\* that holds the stream the stream comes back from the snapshot's copy, in
\* every other case from its CREATE_STREAM entry in the Raft log (replayed
\* after a snapshot that holds nothing / the deleted predecessor).  The commit
\* log is reopened with that setting; the PublishAsync sessions are new.
DoRestartAs(keeps) ==
  /\ Quiescent
  /\ eocc' = IF snap = "cur" /\ ~keeps THEN FALSE ELSE cfg.occ
  /\ infl' = [p \in DOMAIN infl |-> 0]
  /\ UNCHANGED <<cfg, msgs, net, chan, log, ackq, clk, known, paused, snap, unc>>
DoRestart == DoRestartAs(TRUE)

\* The RUNNING server takes a snapshot and installs it (Server.Restore, what
\* Raft does to a lagging server): every stream is rebuilt from the
\* snapshot's copy, its commit log reopened; the sessions stay.
DoInstallAs(keeps) ==
  /\ Quiescent
  /\ snap' = "cur"
  /\ eocc' = IF keeps THEN cfg.occ ELSE FALSE
  /\ UNCHANGED <<cfg, msgs, net, chan, log, ackq, clk, known, paused, infl, unc>>
DoInstall == DoInstallAs(TRUE)

Init ==
  /\ cfg \in [occ : BOOLEAN, batch : {1, 2}, path : {"async", "sync"}, src : {"request", "server", "override"}]
  /\ msgs = <<>> /\ net = {} /\ chan = <<>> /\ log = <<>> /\ ackq = {}
  /\ clk = 1 /\ known = [p \in Pubs |-> 0] /\ paused = FALSE
  /\ eocc = cfg.occ /\ snap \in {"none", "pred", "cur"}
  /\ infl = [p \in Pubs |-> 0] /\ unc = {}

-----------------------------------------------------------------------------
(* What C16 demands of one iteration of the leader loop (design check only:  *)
(* the iteration is not observable from outside).  Reference semantics: the *)
(* messages of a batch are judged one at a time against the log end.        *)

RECURSIVE RefLog(_, _)
RefLog(b, l) ==
  IF b = <<>> THEN l
  ELSE LET m == msgs[Head(b)]
           \* (a message without the field: as the code handles it today)
           acc == ~cfg.occ \/ EffExp(Head(b)) = -1 \/ EffExp(Head(b)) = Len(l)
       IN RefLog(Tail(b), IF acc THEN Append(l, [off |-> Len(l), id |-> Head(b)]) ELSE l)

InLog(l, id) == \E i \in 1..Len(l) : l[i].id = id
OffIn(l, id) == l[CHOOSE i \in 1..Len(l) : l[i].id = id].off

P_Process(b) ==
  /\ log' = RefLog(b, log)
  /\ \A i \in 1..Len(b) :
       IF InLog(log', b[i])
       THEN \/ msgs[b[i]].pol = "none" \/ msgs[b[i]].via \in Silent
            \/ msgs'[b[i]].res = "ok" /\ msgs'[b[i]].off = OffIn(log', b[i])
       ELSE \/ msgs[b[i]].pol = "none" \/ msgs[b[i]].via \in Silent
            \/ msgs'[b[i]].res = "incorrect_offset" /\ b[i] \in ackq'

-----------------------------------------------------------------------------
(* C16 over the history: what publishers sent and got back + the log        *)

Pos(id) == {i \in 1..Len(log) : log[i].id = id}
Stored(id) == Pos(id) # {}
OffOf(id) == log[CHOOSE i \in Pos(id) : TRUE].off
\* a conditional publish / one that waives the check.  A message without an
\* expected-offset field (plain NATS message, PublishToSubject) is neither: the
\* statement says nothing about it (implementation level: I_NoExpAsZero)
Cond(id) == cfg.occ /\ HasExp(id) /\ msgs[id].exp # -1
Waived(id) == HasExp(id) /\ msgs[id].exp = -1
\* the answer as far as the publisher has seen it
R(id) == IF msgs[id].ackT < Inf THEN msgs[id].res ELSE "pending"
\* explicit refusals by the server ("other" = transport-level error, "timeout":
\* they say nothing about what the server did and are not judged)
Errors == {"incorrect_offset", "bad_request"}

\* the log is dense from offset 0
C16_Dense == \A i \in 1..Len(log) : log[i].off = i - 1

\* only published messages are in the log, each at most once
C16_Once == /\ \A i \in 1..Len(log) : log[i].id \in Ids
            /\ \A id \in Ids : Cardinality(Pos(id)) <= 1

\* stored => assigned exactly the expected offset
C16_StoredAtExpected == \A id \in Ids : (Cond(id) /\ Stored(id)) => OffOf(id) = msgs[id].exp

\* a success ack names the offset at which the message is in the log
C16_AckOffset == \A id \in Ids : R(id) = "ok" => (Stored(id) /\ OffOf(id) = msgs[id].off)

\* an error answer => the log is unchanged (the message is not in it)
C16_RejectNotStored == \A id \in Ids : R(id) \in Errors => ~Stored(id)

\* The log end n(m) at the moment the leader judged message m is not
\* observable, but it is bounded by what the publishers saw (one clock):
\*   every stored x whose success ack was received before m was sent was stored
\*   before m was judged:                         n(m) >= off(x) + 1
\*   every stored x that was sent after m's answer was received was stored
\*   after m was judged:                           n(m) <= off(x)
\*   and n(m) <= the length of the log now.
\* An INCORRECT_OFFSET answer is justified iff exp # n(m); it is refuted
\* when the whole window is the single value exp.
Lo(id) == SetMax({0} \cup {OffOf(x) + 1 : x \in {y \in Ids : Stored(y) /\ R(y) = "ok" /\ msgs[y].ackT < msgs[id].sendT}})
Hi(id) == SetMin({Len(log)} \cup {OffOf(x) : x \in {y \in Ids : Stored(y) /\ msgs[y].sendT > msgs[id].ackT}})

C16_RejectJustified ==
  \A id \in Ids : (R(id) = "incorrect_offset" /\ HasExp(id)) =>
     /\ Cond(id)                                         \* a waived check is never refused
     /\ \E n \in Lo(id)..Hi(id) : n # msgs[id].exp

\* expected offset -1 is always accepted
\* - whoever publishes: never refused, and stored once nothing is in flight
\* (a publisher without ack inbox has nothing but the log to tell)
C16_WaivedAccepted ==
  \A id \in Ids : (Waived(id) /\ ~(cfg.occ /\ msgs[id].via = "api" /\ msgs[id].pol = "none")) =>
     /\ R(id) \notin Errors
     /\ (cfg.occ /\ Quiescent /\ R(id) \notin {"timeout", "other"}) => Stored(id)

\* of the publishes racing with the same expected offset at most one is stored
C16_OneWinner ==
  \A a, b \in Ids : (a # b /\ Cond(a) /\ Cond(b) /\ msgs[a].exp = msgs[b].exp) => ~(Stored(a) /\ Stored(b))

\* ack policy NONE: a conditional publish is never dropped silently - if the
\* server took it without an error it is stored (at the expected offset, see
\* above); no answer at all is not judged (timing)
C16_NoneNotSilent ==
  Quiescent => \A id \in Ids : (Cond(id) /\ msgs[id].via = "api" /\ R(id) = "noack") => Stored(id)

\* "otherwise the publisher gets an incorrect-offset error": once nothing is in
\* flight, a publish that asked for an ack (LEADER or ALL) and is not in the
\* log has been answered with an error.  On recorded rounds "noanswer" = no
\* answer although a later publish of the same publisher (the fence) was
\* acknowledged; "timeout" / "other" say nothing about the server and are not
\* judged.
C16_Answered ==
  Quiescent => \A id \in Ids :
     (msgs[id].pol # "none" /\ msgs[id].via \notin Silent /\ ~Stored(id) /\ R(id) \notin {"timeout", "other"})
        => R(id) \in Errors

\* "stored IF it is assigned exactly that offset", for every publisher - with
\* or without an answer: once nothing is in flight, a conditional publish that
\* the leader judged and that is not in the log met a log end other than its
\* expectation.  The log end it met is at least Lo (see above) and at most Hi
\* when ackT bounds the moment it was judged (an error answer; no answer but a
\* later publish over the same connection acknowledged: "noanswer", and "noack"
\* of a publisher without ack inbox), at most the length of the log now
\* otherwise; refuted when that window is the single value exp.
\* Where the judgement is known only through the fence ("noanswer", "noack"
\* without ack inbox) the order of one connection is what tells: a later stored
\* publish over the same connection was stored after this one was judged.
Fenced(id) == msgs[id].via \in Silent \/ R(id) = "noanswer"
JudgedBy(id) == Fenced(id) \/ R(id) = "incorrect_offset"
HiLine(id) == SetMin({Hi(id)} \cup {OffOf(x) : x \in {y \in Ids : Stored(y) /\ SameLine(y, id) /\ y > id}})
C16_UnstoredJustified ==
  Quiescent => \A id \in Ids :
     (Cond(id) /\ ~Stored(id) /\ R(id) \notin {"timeout", "other", "bad_request", "pending"})
        => \E n \in Lo(id)..(IF Fenced(id) THEN HiLine(id) ELSE IF JudgedBy(id) THEN Hi(id) ELSE Len(log)) :
              n # msgs[id].exp

C16_All == /\ C16_Dense /\ C16_Once /\ C16_StoredAtExpected /\ C16_AckOffset /\ C16_RejectNotStored
           /\ C16_RejectJustified /\ C16_WaivedAccepted /\ C16_OneWinner /\ C16_NoneNotSilent /\ C16_Answered
           /\ C16_UnstoredJustified

-----------------------------------------------------------------------------
(* Implementation level (conformance; a mismatch is drift, never an alarm)  *)

\* every publish that wants an ack is answered, with ok or INCORRECT_OFFSET;
\* ack policy NONE on a stream with concurrency control is refused outright
I_Resolved ==
  Quiescent => \A id \in Ids :
     IF msgs[id].via \in Silent THEN R(id) = "noack"
     ELSE IF msgs[id].pol = "none"
     THEN IF cfg.occ THEN R(id) = "bad_request" /\ ~Stored(id) ELSE Stored(id)
     ELSE R(id) \in {"ok", "incorrect_offset"}

\* without concurrency control the expected offset is ignored
I_NonOccAll == (Quiescent /\ ~cfg.occ) => \A id \in Ids : Stored(id)

\* the log order respects real time and the send order of each publisher
I_Order ==
  \A a, b \in Ids : (Stored(a) /\ Stored(b)) =>
     /\ (R(a) = "ok" /\ msgs[a].ackT < msgs[b].sendT) => OffOf(a) < OffOf(b)
     /\ (SameLine(a, b) /\ a < b) => OffOf(a) < OffOf(b)

\* sharper window for a refusal, using the per-publisher order as well
LoF(id) == SetMax({Lo(id)} \cup {OffOf(x) + 1 : x \in {y \in Ids : Stored(y) /\ SameLine(y, id) /\ y < id}})
HiF(id) == SetMin({Hi(id)} \cup {OffOf(x) : x \in {y \in Ids : Stored(y) /\ SameLine(y, id) /\ y > id}})
I_RejectWindow ==
  \A id \in Ids : R(id) = "incorrect_offset" => \E n \in LoF(id)..HiF(id) : n # EffExp(id)

\* a message without an expected-offset field is handled as "expected offset 0"
I_NoExpAsZero == cfg.occ => \A id \in Ids : (~HasExp(id) /\ Stored(id)) => OffOf(id) = 0

\* the running commit log has the setting the stream was created with
I_OccKept == eocc = cfg.occ

TypeOK ==
  /\ cfg.occ \in BOOLEAN /\ cfg.batch \in Nat
  /\ \A id \in Ids : msgs[id].exp \in Int /\ msgs[id].sendT < msgs[id].ackT
  /\ net \subseteq Ids /\ ackq \subseteq Ids
  /\ paused \in BOOLEAN /\ eocc \in BOOLEAN /\ snap \in {"none", "pred", "cur"}
  /\ unc \subseteq Ids /\ \A id \in unc : InSession(id)
  /\ \A id \in Ids : msgs[id].via \in {"api", "subj"} \cup Raw
  \* a paused partition has nothing in flight (the publish that finds it paused resumes it first)
  /\ paused => (net = {} /\ chan = <<>>)
=============================================================================
