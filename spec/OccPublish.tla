--------------------------- MODULE OccPublish ---------------------------
(***************************************************************************)
(* Publish path of one partition leader on a one-node server, with          *)
(* optimistic concurrency control (property C16).                           *)
(*                                                                         *)
(*   publisher --gRPC--> api server --NATS--> recvChan --> message          *)
(*   processing loop --> commit log --ack over NATS--> api server --> pub   *)
(*                                                                         *)
(* Abstract state                                                          *)
(*   cfg   = [occ, batch, path]  stream has concurrency control; server     *)
(*           batch.max.messages; API path of the publishers: "async"        *)
(*           (PublishAsync stream, sends are pipelined) | "sync" (unary     *)
(*           Publish RPC: one outstanding publish per publisher)            *)
(*   msgs  = every publish issued so far, in send order; msgs[id] =         *)
(*           [p, exp, pol, sendT, ackT, res, off]                           *)
(*             p     publisher                                              *)
(*             exp   expected offset carried by the message (-1 = waived)   *)
(*             pol   ack policy "leader" | "all" | "none"                   *)
(*             sendT logical time just before the publisher sent it         *)
(*             ackT  logical time just after the publisher got the answer   *)
(*                   (Inf = no answer (yet))                                *)
(*             res   the answer: "ok" | "incorrect_offset" | "bad_request"  *)
(*                   (traces also "noanswer": none, although a later       *)
(*                   publish of the same publisher was acknowledged)       *)
(*                   | "noack" (accepted, ack policy NONE) | "pending"      *)
(*                   (traces also: "timeout", "other")                      *)
(*             off   offset carried by a success ack (-1 otherwise)         *)
(*   net   = ids published to NATS, not yet delivered to the partition      *)
(*   chan  = recvChan of the leader loop (arrival order)                    *)
(*   log   = the partition log, sequence of [off, id]                       *)
(*   ackq  = answers on their way back to the publisher                     *)
(*   clk   = logical clock of the publishers' side (one process)            *)
(*   known = publisher -> the log end (next offset) it believes in          *)
(*   paused = the partition is paused (PauseStream: leader loop stopped,    *)
(*           commit log closed); the next publish that passes the API       *)
(*           preconditions resumes it (api.go resumeStream) before it is    *)
(*           sent to NATS                                                   *)
(*                                                                         *)
(* Two kinds of formulas:                                                  *)
(*   Do<Action>      the step exactly as the code performs it               *)
(*   P_Process, C16_*  what property C16 demands.  The C16_* formulas are   *)
(*     predicates over the HISTORY (msgs, log) only - what publishers sent  *)
(*     and received and the final log - so that the very same formulas      *)
(*     are invariants of the bounded model (design check: every             *)
(*     interleaving of sends, arrivals, processing and acks) and the        *)
(*     verdict on rounds recorded from the real server (Trace_OccPublish).  *)
(***************************************************************************)
EXTENDS Integers, Sequences, FiniteSets

CONSTANTS Pubs

VARIABLES cfg, msgs, net, chan, log, ackq, clk, known, paused
vars == <<cfg, msgs, net, chan, log, ackq, clk, known, paused>>

Inf == 1000000000

SetMax(S) == CHOOSE x \in S : \A y \in S : y <= x
SetMin(S) == CHOOSE x \in S : \A y \in S : x <= y
Max0(x) == IF x < 0 THEN 0 ELSE x

Ids == 1..Len(msgs)

-----------------------------------------------------------------------------
(* Publisher side *)

\* the expected offset a publisher derives from what it knows
ExpOf(p, kind) ==
  CASE kind = "waive"  -> -1
    [] kind = "stale"  -> Max0(known[p] - 1)
    [] kind = "equal"  -> known[p]
    [] kind = "future" -> known[p] + 1
    [] kind = "far"    -> known[p] + 2
    \* negative values other than -1 are expectations like any other (only -1
    \* waives the check): they can never be met
    [] kind = "neg"    -> -2
    [] kind = "negbig" -> -1000000

\* PublishAsync / Publish: the API refuses ack policy NONE on a stream with
\* concurrency control before anything else happens (api.go,
\* ensurePublishPreconditions) - whatever the state of the partition; the
\* refusal is the answer.  A publish that passes resumes a paused partition
\* (resumeStream) and is then sent to NATS.
SendAs(p, kind, pol, refused) ==
  LET id == Len(msgs) + 1
      \* ack policy NONE otherwise: fire and forget, the call returns at once
      answered == pol = "none" IN
  /\ msgs' = Append(msgs, [p |-> p, exp |-> ExpOf(p, kind), pol |-> pol, sendT |-> clk,
                           ackT |-> IF answered THEN clk + 1 ELSE Inf,
                           res |-> IF refused THEN "bad_request" ELSE IF answered THEN "noack" ELSE "pending",
                           off |-> -1])
  /\ net' = IF refused THEN net ELSE net \cup {id}
  /\ paused' = IF refused THEN paused ELSE FALSE
  /\ clk' = clk + 2
  /\ UNCHANGED <<cfg, chan, log, ackq, known>>

DoSend(p, kind, pol) == SendAs(p, kind, pol, cfg.occ /\ pol = "none")

\* PauseStream while nothing is in flight: the leader loop stops, the commit
\* log is closed (what it holds stays)
DoPause ==
  /\ ~paused /\ net = {} /\ chan = <<>> /\ ackq = {}
  /\ paused' = TRUE
  /\ UNCHANGED <<cfg, msgs, net, chan, log, ackq, clk, known>>

\* the publisher asks the server for the end of the log (partition metadata)
DoRead(p) ==
  /\ known' = [known EXCEPT ![p] = Len(log)]
  /\ UNCHANGED <<cfg, msgs, net, chan, log, ackq, clk, paused>>

\* the answer reaches the publisher (acks of one publisher arrive in order)
DoAckDeliver(id) ==
  /\ id \in ackq
  /\ \A j \in ackq : msgs[j].p = msgs[id].p => id <= j
  /\ ackq' = ackq \ {id}
  /\ msgs' = [msgs EXCEPT ![id].ackT = clk]
  /\ clk' = clk + 1
  /\ known' = [known EXCEPT ![msgs[id].p] =
                 IF msgs[id].res = "ok" /\ msgs[id].off + 1 > @ THEN msgs[id].off + 1 ELSE @]
  /\ UNCHANGED <<cfg, net, chan, log, paused>>

-----------------------------------------------------------------------------
(* Server side *)

\* NATS delivers into recvChan; messages of one publisher stay in order,
\* messages of different publishers race
DoArrive(id) ==
  /\ id \in net
  /\ \A j \in net : msgs[j].p = msgs[id].p => id <= j
  /\ net' = net \ {id}
  /\ chan' = Append(chan, id)
  /\ UNCHANGED <<cfg, msgs, log, ackq, clk, known, paused>>

\* messageProcessingLoop: with concurrency control the batch size is forced to 1
BatchSize == IF cfg.occ THEN 1 ELSE cfg.batch

Stamped(b, base) == [i \in 1..Len(b) |-> [off |-> base + i - 1, id |-> b[i]]]
IdxIn(b, id) == CHOOSE i \in 1..Len(b) : b[i] = id
InBatch(b, id) == \E i \in 1..Len(b) : b[i] = id

\* one iteration of the loop: take n messages, commitLog.Append(batch):
\* the expected offset is checked before anything is written; on a mismatch
\* nothing is written and an INCORRECT_OFFSET ack goes to the sender
DoProcess(n) ==
  /\ n \in 1..BatchSize /\ n <= Len(chan)
  /\ LET b    == SubSeq(chan, 1, n)
         base == Len(log)
         bad  == cfg.occ /\ msgs[b[1]].exp # -1 /\ msgs[b[1]].exp # base
     IN /\ chan' = SubSeq(chan, n + 1, Len(chan))
        /\ IF bad THEN
             /\ log' = log
             \* (ack policy NONE cannot get here on a stream with concurrency
             \* control - the API refuses it; if it did, the publisher of the
             \* unary RPC has already been answered and nobody reads the ack)
             /\ msgs' = IF msgs[b[1]].pol = "none" THEN msgs
                        ELSE [msgs EXCEPT ![b[1]].res = "incorrect_offset"]
             /\ ackq' = IF msgs[b[1]].pol = "none" THEN ackq ELSE ackq \cup {b[1]}
           ELSE
             /\ log' = log \o Stamped(b, base)
             /\ msgs' = [id \in DOMAIN msgs |->
                           IF InBatch(b, id) /\ msgs[id].pol # "none"
                           THEN [msgs[id] EXCEPT !.res = "ok", !.off = base + IdxIn(b, id) - 1]
                           ELSE msgs[id]]
             /\ ackq' = ackq \cup {b[i] : i \in {j \in 1..n : msgs[b[j]].pol # "none"}}
  /\ UNCHANGED <<cfg, net, clk, known, paused>>

Quiescent == net = {} /\ chan = <<>> /\ ackq = {}

Init ==
  /\ cfg \in [occ : BOOLEAN, batch : {1, 2}, path : {"async", "sync"}]
  /\ msgs = <<>> /\ net = {} /\ chan = <<>> /\ log = <<>> /\ ackq = {}
  /\ clk = 1 /\ known = [p \in Pubs |-> 0] /\ paused = FALSE

-----------------------------------------------------------------------------
(* What C16 demands of one iteration of the leader loop (design check only:  *)
(* the iteration is not observable from outside).  Reference semantics: the *)
(* messages of a batch are judged one at a time against the log end.        *)

RECURSIVE RefLog(_, _)
RefLog(b, l) ==
  IF b = <<>> THEN l
  ELSE LET m == msgs[Head(b)]
           acc == ~cfg.occ \/ m.exp = -1 \/ m.exp = Len(l)
       IN RefLog(Tail(b), IF acc THEN Append(l, [off |-> Len(l), id |-> Head(b)]) ELSE l)

InLog(l, id) == \E i \in 1..Len(l) : l[i].id = id
OffIn(l, id) == l[CHOOSE i \in 1..Len(l) : l[i].id = id].off

P_Process(b) ==
  /\ log' = RefLog(b, log)
  /\ \A i \in 1..Len(b) :
       IF InLog(log', b[i])
       THEN \/ msgs[b[i]].pol = "none"
            \/ msgs'[b[i]].res = "ok" /\ msgs'[b[i]].off = OffIn(log', b[i])
       ELSE \/ msgs[b[i]].pol = "none"
            \/ msgs'[b[i]].res = "incorrect_offset" /\ b[i] \in ackq'

-----------------------------------------------------------------------------
(* C16 over the history: what publishers sent and got back + the log        *)

Pos(id) == {i \in 1..Len(log) : log[i].id = id}
Stored(id) == Pos(id) # {}
OffOf(id) == log[CHOOSE i \in Pos(id) : TRUE].off
Cond(id) == cfg.occ /\ msgs[id].exp # -1
\* the answer as far as the publisher has seen it
R(id) == IF msgs[id].ackT < Inf THEN msgs[id].res ELSE "pending"
\* explicit refusals by the server ("other" = transport-level error, "timeout":
\* they say nothing about what the server did and are not judged)
Errors == {"incorrect_offset", "bad_request"}

\* the log is dense from offset 0
C16_Dense == \A i \in 1..Len(log) : log[i].off = i - 1

\* only published messages are in the log, each at most once
C16_Once == /\ \A i \in 1..Len(log) : log[i].id \in Ids
            /\ \A id \in Ids : Cardinality(Pos(id)) <= 1

\* stored => assigned exactly the expected offset
C16_StoredAtExpected == \A id \in Ids : (Cond(id) /\ Stored(id)) => OffOf(id) = msgs[id].exp

\* a success ack names the offset at which the message is in the log
C16_AckOffset == \A id \in Ids : R(id) = "ok" => (Stored(id) /\ OffOf(id) = msgs[id].off)

\* an error answer => the log is unchanged (the message is not in it)
C16_RejectNotStored == \A id \in Ids : R(id) \in Errors => ~Stored(id)

\* The log end n(m) at the moment the leader judged message m is not
\* observable, but it is bounded by what the publishers saw (one clock):
\*   every stored x whose success ack was received before m was sent was stored
\*   before m was judged:                         n(m) >= off(x) + 1
\*   every stored x that was sent after m's answer was received was stored
\*   after m was judged:                           n(m) <= off(x)
\*   and n(m) <= the length of the log now.
\* An INCORRECT_OFFSET answer is justified iff exp # n(m); it is refuted
\* when the whole window is the single value exp.
Lo(id) == SetMax({0} \cup {OffOf(x) + 1 : x \in {y \in Ids : Stored(y) /\ R(y) = "ok" /\ msgs[y].ackT < msgs[id].sendT}})
Hi(id) == SetMin({Len(log)} \cup {OffOf(x) : x \in {y \in Ids : Stored(y) /\ msgs[y].sendT > msgs[id].ackT}})

C16_RejectJustified ==
  \A id \in Ids : R(id) = "incorrect_offset" =>
     /\ Cond(id)                                         \* a waived check is never refused
     /\ \E n \in Lo(id)..Hi(id) : n # msgs[id].exp

\* expected offset -1 is always accepted
C16_WaivedAccepted ==
  \A id \in Ids : (msgs[id].exp = -1 /\ ~(cfg.occ /\ msgs[id].pol = "none")) => R(id) \notin Errors

\* of the publishes racing with the same expected offset at most one is stored
C16_OneWinner ==
  \A a, b \in Ids : (a # b /\ Cond(a) /\ Cond(b) /\ msgs[a].exp = msgs[b].exp) => ~(Stored(a) /\ Stored(b))

\* ack policy NONE: a conditional publish is never dropped silently - if the
\* server took it without an error it is stored (at the expected offset, see
\* above); no answer at all is not judged (timing)
C16_NoneNotSilent ==
  Quiescent => \A id \in Ids : (Cond(id) /\ R(id) = "noack") => Stored(id)

\* "otherwise the publisher gets an incorrect-offset error": once nothing is in
\* flight, a publish that asked for an ack (LEADER or ALL) and is not in the
\* log has been answered with an error.  On recorded rounds "noanswer" = no
\* answer although a later publish of the same publisher (the fence) was
\* acknowledged; "timeout" / "other" say nothing about the server and are not
\* judged.
C16_Answered ==
  Quiescent => \A id \in Ids :
     (msgs[id].pol # "none" /\ ~Stored(id) /\ R(id) \notin {"timeout", "other"}) => R(id) \in Errors

C16_All == /\ C16_Dense /\ C16_Once /\ C16_StoredAtExpected /\ C16_AckOffset /\ C16_RejectNotStored
           /\ C16_RejectJustified /\ C16_WaivedAccepted /\ C16_OneWinner /\ C16_NoneNotSilent /\ C16_Answered

-----------------------------------------------------------------------------
(* Implementation level (conformance; a mismatch is drift, never an alarm)  *)

\* every publish that wants an ack is answered, with ok or INCORRECT_OFFSET;
\* ack policy NONE on a stream with concurrency control is refused outright
I_Resolved ==
  Quiescent => \A id \in Ids :
     IF msgs[id].pol = "none"
     THEN IF cfg.occ THEN R(id) = "bad_request" /\ ~Stored(id) ELSE Stored(id)
     ELSE R(id) \in {"ok", "incorrect_offset"}

\* without concurrency control the expected offset is ignored
I_NonOccAll == (Quiescent /\ ~cfg.occ) => \A id \in Ids : Stored(id)

\* the log order respects real time and the send order of each publisher
I_Order ==
  \A a, b \in Ids : (Stored(a) /\ Stored(b)) =>
     /\ (R(a) = "ok" /\ msgs[a].ackT < msgs[b].sendT) => OffOf(a) < OffOf(b)
     /\ (msgs[a].p = msgs[b].p /\ a < b) => OffOf(a) < OffOf(b)

\* sharper window for a refusal, using the per-publisher order as well
LoF(id) == SetMax({Lo(id)} \cup {OffOf(x) + 1 : x \in {y \in Ids : Stored(y) /\ msgs[y].p = msgs[id].p /\ y < id}})
HiF(id) == SetMin({Hi(id)} \cup {OffOf(x) : x \in {y \in Ids : Stored(y) /\ msgs[y].p = msgs[id].p /\ y > id}})
I_RejectWindow ==
  \A id \in Ids : R(id) = "incorrect_offset" => \E n \in LoF(id)..HiF(id) : n # msgs[id].exp

TypeOK ==
  /\ cfg.occ \in BOOLEAN /\ cfg.batch \in Nat
  /\ \A id \in Ids : msgs[id].exp \in Int /\ msgs[id].sendT < msgs[id].ackT
  /\ net \subseteq Ids /\ ackq \subseteq Ids
  /\ paused \in BOOLEAN
  \* a paused partition has nothing in flight (the publish that finds it paused resumes it first)
  /\ paused => (net = {} /\ chan = <<>>)
=============================================================================
