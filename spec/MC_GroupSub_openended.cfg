SPECIFICATION MCSpec
CONSTANTS
  Groups = {"g1"}
  GroupOnFollower = FALSE
  OnlyOpenEnded = TRUE
  CleanupById = FALSE
  Consumers = {"c1", "c2", "c3"}
  MaxEpoch = 3
  MaxSubs = 4
  MaxOps = 7
  UsePlain = FALSE
  UseBurst = FALSE
  UseFollower = TRUE
  UseBounded = TRUE
  C0 = "c1"
  UseGrpc = FALSE
  UseRace = FALSE
  MaxElect = 0
  StrandedKnown = TRUE
  UseBad = FALSE
INVARIANTS C13_OneActive
PROPERTIES StepsOK
VIEW MCView
CHECK_DEADLOCK FALSE
