SPECIFICATION MCSpec
CONSTANTS
  Clients = {"alice", "bob"}
  Streams = {"s1", "s2", "__cursors"}
  AuthFirst = TRUE
  GroupAuthz = FALSE
  Callers = {"alice", "bob"}
  DeepReload = TRUE
  LenSet = {0, 1}
  PolicyClients = {"alice", "bob"}
CHECK_DEADLOCK FALSE
