------------------------- MODULE Trace_Subscribe -------------------------
(* Trace validation for Subscribe.tla: every line of trace.ndjson is one   *)
(* step executed on the real server (shaping step, Subscribe + loop run,   *)
(* further loop run, cancel) with the projected log after it and what the  *)
(* subscriber received.  P_* failures are printed as FAIL "P" (violation   *)
(* of C10 on real behaviour), Do* mismatches as FAIL "I" (drift).          *)
EXTENDS Subscribe, TLC, Json

Trace == ndJsonDeserialize("trace.ndjson")

VARIABLES l
tvars == <<vars, l>>

TraceInit ==
  LET e == Trace[1] IN
  /\ log = e.st.log /\ segs = e.st.segs /\ hw = e.st.hw /\ ro = e.st.ro
  /\ subs = [s \in SubIds |-> NoSub]
  /\ obs = e.obs
  /\ l = 2

Fail(kind, e, name) == PrintT(<<"FAIL", kind, e.t, l, e.a, name>>)
Chk(ok, kind, e, name) == IF ok THEN TRUE ELSE Fail(kind, e, name)

\* the message the loop was handing over counts as read unless it has been cleaned
\* away and was not delivered (then the loop had not read it before the clean)
UseHeld(e) ==
  LET h == subs[e.args.id].held IN
  \/ \E i \in 1..Len(log) : log[i] = h
  \/ (e.obs.got # <<>> /\ e.obs.got[1] = h)

NextSubs(e) ==
  CASE e.a = "Open" -> [s \in SubIds |-> NoSub]
    [] e.a = "Sub" -> [subs EXCEPT ![e.args.id] = SubRec(e.args.req, e.args.n, e.obs.got, e.obs.st)]
    [] e.a = "Drain" -> [subs EXCEPT ![e.args.id] = DrainRec(e.args.id, e.args.n, UseHeld(e), e.obs.got, e.obs.st)]
    [] e.a = "Cancel" -> [subs EXCEPT ![e.args.id] = NoSub]
    [] e.a = "Restart" -> [s \in SubIds |-> NoSub]
    [] OTHER -> subs

PropOf(e) ==
  CASE e.a = "Sub" -> P_Sub(e.args.id, e.args.req, e.args.n)
    [] e.a = "Drain" -> P_Drain(e.args.id, e.args.n)
    [] OTHER -> TRUE

\* shaping steps: only their effect on the subscriber-visible log is compared
Grown(n) == /\ Len(log') = Len(log) + n
            /\ SubSeq(log', 1, Len(log)) = log
            /\ \A i \in 1..n : LET r == log'[Len(log) + i] IN r.off = Newest + i /\ r.ts = 10 * (r.off + 1)

ImplOf(e) ==
  CASE e.a = "Sub" -> DoSub(e.args.id, e.args.req, e.args.n)
    [] e.a = "Drain" -> DoDrain(e.args.id, e.args.n, UseHeld(e))
    [] e.a = "Cancel" -> log' = log /\ hw' = hw /\ ro' = ro
    [] e.a = "Publish" -> Grown(e.args.n) /\ hw' = Last(log').off /\ ro' = ro /\ obs'.err = ""
    [] e.a = "Tail" -> Grown(e.args.n) /\ hw' = hw /\ ro' = ro /\ obs'.err = ""
    [] e.a = "Commit" -> log' = log /\ hw' = (IF log = <<>> THEN hw ELSE Last(log).off)
    [] e.a = "Readonly" -> log' = log /\ hw' = hw /\ ro' = e.args.b
    \* the split check of a cleaner tick: an active segment that holds a record is rolled
    \* (the new one is empty, its base offset is the log end), an empty one is kept
    [] e.a = "Roll" -> /\ log' = log /\ hw' = hw /\ ro' = ro /\ obs'.err = ""
                       /\ IF SegRecs(log, segs, Len(segs)) # <<>>
                          THEN obs'.st = "rolled" /\ segs' = Append(segs, Newest + 1)
                          ELSE obs'.st = "kept" /\ segs' = segs
    \* a restart keeps the log, its segments (an empty active one too) and the HW
    [] e.a = "Restart" -> log' = log /\ segs' = segs /\ hw' = hw /\ ro' = ro /\ obs'.err = ""
    \* (with retention the cleaner also deletes whole oldest segments: any subset of the log)
    [] e.a = "Clean" -> hw' = hw /\ ro' = ro /\ \A i \in 1..Len(log') : \E j \in 1..Len(log) : log[j] = log'[i]
    [] OTHER -> TRUE

TraceNext ==
  /\ Trace[l].a # "End"
  /\ l' = l + 1
  /\ LET e == Trace[l] IN
     /\ log' = e.st.log /\ segs' = e.st.segs /\ hw' = e.st.hw /\ ro' = e.st.ro
     /\ obs' = e.obs
     /\ subs' = NextSubs(e)
     /\ IF e.a = "Open" THEN TRUE
        ELSE /\ Chk(PropOf(e), "P", e, "step")
             /\ Chk(ImplOf(e), "I", e, "step")
             /\ Chk(Monotone, "P", e, "Monotone")
     /\ Chk(TypeOK', "I", e, "TypeOK")

TraceSpec == TraceInit /\ [][TraceNext]_tvars

Done == PrintT(<<"DONE", TLCGet("stats").diameter, Len(Trace)>>)
=============================================================================
