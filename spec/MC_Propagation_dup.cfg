SPECIFICATION MCSpec
CONSTANTS
  Servers = {"a", "b", "c"}
  MaxInst = 4
  Barrier = TRUE
  AcqBarrier = TRUE
  NotLeaderPanics = FALSE
  ApplyRefuses = TRUE
  QueueGroup = FALSE
  MaxReq = 2
  MaxTransfers = 2
  MaxCancels = 0
  MaxSlow = 1
  MaxLog = 3
  OpSet = {"create", "delete", "expand", "shrink", "elect"}
INVARIANTS X04_AtMostOneEffect
VIEW MCView
CHECK_DEADLOCK FALSE
