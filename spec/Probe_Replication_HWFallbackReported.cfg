SPECIFICATION MCSpec
CONSTANTS
  R = {"a", "b", "c"}
  MinISR = 2
  FetchMax = 2
  WideEvery = 0
  OffsetReset = "all"
  LateResp = "drop"
  HWFallback = TRUE
  ElectAlive = FALSE
  AllowLag = FALSE
  ElectDown = TRUE
  MaxMsgs = 2
  MaxElect = 0
  MaxCrash = 1
  MaxIsrOps = 0
  MaxRejects = 0
  Policies = {"ALL"}
  UseCheckpoint = FALSE
  MaxPause = 0
  MaxHold = 0
  Batch = 1
  IgnoreTaints = FALSE
INVARIANTS NoBad_HWFallbackReported
VIEW MCView
CHECK_DEADLOCK FALSE
