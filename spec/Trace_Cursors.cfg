SPECIFICATION TraceSpec
CONSTANTS
  Cap = 2
  SegCaps = {1, 2, 3}
  FixStale = TRUE
POSTCONDITION Done
CHECK_DEADLOCK FALSE
