SPECIFICATION TraceSpec
CONSTANTS
  Cap = 2
  SegCap = 2
  FixStale = TRUE
POSTCONDITION Done
CHECK_DEADLOCK FALSE
