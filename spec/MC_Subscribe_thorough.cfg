SPECIFICATION MCSpec
CONSTANTS
  N = 4
  MaxSegs = 3
  MaxOps = 4
  Ids = {"s1"}
  Fix <- FixRepo
INVARIANTS TypeOK
PROPERTIES StepsOK MonotoneOK
VIEW MCView
CHECK_DEADLOCK FALSE
