SPECIFICATION MCSpec
CONSTANTS
  N = 4
  MaxSegs = 3
  MaxOps = 3
  Ids = {"s1"}
  TakeNs <- TakeThorough
  Fix <- FixRepo
INVARIANTS TypeOK
PROPERTIES StepsOK MonotoneOK
VIEW MCView
CHECK_DEADLOCK FALSE
