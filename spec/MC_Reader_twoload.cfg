SPECIFICATION MCSpec
CONSTANTS
  MaxApp = 3
  MaxTog = 0
  Starts = {0, 1, 2}
  CapSet = {2}
  AtomicSet = {TRUE}
  TrackLast = FALSE
  UseRoller = FALSE
  SplitNew = TRUE
  NewLoads = 2
INVARIANTS TypeOK C03_Run C03_NoDeath
PROPERTIES StepsOK
CHECK_DEADLOCK FALSE
