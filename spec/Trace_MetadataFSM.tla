------------------------- MODULE Trace_MetadataFSM -------------------------
(* Trace validation for MetadataFSM.tla.  Every line of trace.ndjson is one  *)
(* real call (Server.apply live or replayed, Snapshot, Persist, a restart,   *)
(* Restore, finishedRecovery / finishRestore) on server A with A's projected state after it, *)
(* plus the projection of server B which applied the same operations and     *)
(* never restarted.                                                          *)
(*   FAIL "P" name tag : a C06 requirement fails on real behaviour           *)
(*   FAIL "I" name tag : the step differs from the action as specified       *)
(* tag = "live" | "after-restart" (whether A restarted earlier in the        *)
(* behaviour).                                                               *)
EXTENDS MetadataFSM, Json

Trace == ndJsonDeserialize("trace.ndjson")

VARIABLES l, other, nres
tvars == <<vars, l, other, nres>>

ToSet(q) == {q[i] : i \in DOMAIN q}
PartOf(j) == [replicas |-> ToSet(j.replicas), isr |-> ToSet(j.isr), leader |-> j.leader, lepoch |-> j.lepoch,
              epoch |-> j.epoch, paused |-> j.paused, ppaused |-> j.ppaused, ro |-> j.ro, roeff |-> j.roeff, rec |-> j.rec, minisr |-> j.minisr]
StreamsOf(js) == [s \in DOMAIN js |-> [tomb |-> js[s].tomb, subj |-> js[s].subj, cfg |-> js[s].cfg, ts |-> js[s].ts, parts |-> [i \in DOMAIN js[s].parts |-> PartOf(js[s].parts[i])]]]
ProtoOf(j) == [replicas |-> ToSet(j.replicas), isr |-> ToSet(j.isr), leader |-> j.leader, lepoch |-> j.lepoch,
               epoch |-> j.epoch, ppaused |-> j.ppaused, ro |-> j.ro]
ProtosOf(js) == [s \in DOMAIN js |-> [i \in DOMAIN js[s] |-> ProtoOf(js[s][i])]]
GroupOf(j) ==
  IF ~j.exists THEN NoGroup
  ELSE [exists |-> TRUE,
        subs |-> [c \in DOMAIN j.subs |-> ToSet(j.subs[c])],
        heap |-> [s \in DOMAIN j.heap |-> ToSet(j.heap[s])],
        asg |-> j.asg, cnt |-> j.cnt, epoch |-> j.epoch, coord |-> j.coord]
GroupsOf(js) == [g \in GroupIds |-> GroupOf(js[g])]
GrecOf(js) == [g \in GroupIds |-> js[g]]
SnapGroupsOf(js) == [g \in DOMAIN js |-> [members |-> [i \in DOMAIN js[g].members |-> [c |-> js[g].members[i].c, S |-> ToSet(js[g].members[i].S)]],
                                           epoch |-> js[g].epoch, coord |-> js[g].coord]]
RefOf(j) == IF ~j.has THEN NoRef
            ELSE [has |-> TRUE, idx |-> j.idx, live |-> ToSet(j.live), frozen |-> ProtosOf(j.frozen), heads |-> j.heads, groups |-> SnapGroupsOf(j.groups), lastPub |-> j.lastPub]
SnapOf(j) == IF ~j.has THEN NoSnap
             ELSE [has |-> TRUE, idx |-> j.idx, streams |-> ProtosOf(j.streams), heads |-> j.heads, groups |-> SnapGroupsOf(j.groups), lastPub |-> j.lastPub]
OpOf(o) ==
  CASE o.op = "CreateStream" -> [op |-> o.op, s |-> o.s, n |-> o.n, R |-> ToSet(o.R), ldr |-> o.ldr, subj |-> o.subj, cfg |-> o.cfg, ts |-> o.ts]
    [] o.op = "Pause" -> [op |-> o.op, s |-> o.s, pids |-> ToSet(o.pids), resumeAll |-> o.resumeAll]
    [] o.op = "Resume" -> [op |-> o.op, s |-> o.s, pids |-> ToSet(o.pids)]
    [] o.op = "SetReadonly" -> [op |-> o.op, s |-> o.s, pids |-> ToSet(o.pids), b |-> o.b]
    [] o.op = "CreateGroup" -> [op |-> o.op, g |-> o.g, c |-> o.c, S |-> ToSet(o.S), coord |-> o.coord]
    [] o.op = "JoinGroup" -> [op |-> o.op, g |-> o.g, c |-> o.c, S |-> ToSet(o.S)]
    [] OTHER -> o

EmptyPre == [streams |-> <<>>, groups |-> [g \in GroupIds |-> NoGroup], disk |-> <<>>]

TraceInit ==
  LET e == Trace[1] IN
  /\ streams = StreamsOf(e.st.streams) /\ groups = GroupsOf(e.st.groups) /\ grec = GrecOf(e.st.grec) /\ lastPub = e.st.lastPub
  /\ disk = e.st.disk /\ applied = e.st.applied /\ mode = e.st.mode /\ nrep = e.st.nrep
  /\ sref = RefOf(e.st.sref) /\ snap = SnapOf(e.st.snap) /\ pre = EmptyPre /\ obs = e.obs
  /\ other = [streams |-> StreamsOf(e.other.streams), groups |-> GroupsOf(e.other.groups)]
  /\ nres = 0
  /\ l = 2

Bind(e) ==
  /\ streams' = StreamsOf(e.st.streams) /\ groups' = GroupsOf(e.st.groups) /\ grec' = GrecOf(e.st.grec) /\ lastPub' = e.st.lastPub
  /\ disk' = e.st.disk /\ applied' = e.st.applied /\ mode' = e.st.mode /\ nrep' = e.st.nrep
  /\ sref' = RefOf(e.st.sref) /\ obs' = e.obs
  \* the persisted snapshot is logged only when it changes
  /\ snap' = (IF "snap" \in DOMAIN e.st THEN SnapOf(e.st.snap) ELSE snap)
  /\ other' = [streams |-> StreamsOf(e.other.streams), groups |-> GroupsOf(e.other.groups)]
  /\ pre' = (IF e.a = "Open" THEN EmptyPre
             ELSE IF e.a \in {"Restart", "Install"} THEN [streams |-> streams, groups |-> groups, disk |-> disk] ELSE pre)
  /\ nres' = (IF e.a = "Open" THEN 0 ELSE IF e.a \in {"Restart", "Install"} THEN nres + 1 ELSE nres)

OpNames == {"CreateStream", "DeleteStream", "Pause", "Resume", "SetReadonly", "ShrinkISR", "ExpandISR", "ChangeLeader",
            "CreateGroup", "JoinGroup", "LeaveGroup", "ChangeCoordinator", "PublishActivity"}

SnapOrder == [g \in DOMAIN sref'.groups |-> [i \in DOMAIN sref'.groups[g].members |-> sref'.groups[g].members[i].c]]

ImplOf(e) ==
  CASE e.a \in OpNames -> (IF e.args.rec THEN DoReplay(OpOf(e.args.o))
                           ELSE IF mode = "catchup" THEN DoCatchup(OpOf(e.args.o)) ELSE DoApply(OpOf(e.args.o)))
    [] e.a = "Install" -> DoInstall
    [] e.a = "CaughtUp" -> DoCaughtUp
    [] e.a = "Snapshot" -> DoSnapshot(SnapOrder)
    [] e.a = "Persist" -> DoPersist
    [] e.a = "PersistWith" -> DoPersistWith(OpOf(e.args.o))
    [] e.a = "Restart" -> DoRestart
    [] e.a = "Restore" -> DoRestore
    [] e.a = "Finish" -> \E ord \in [GroupIds -> Perms(Tombs)] : DoFinish(ord)
    [] e.a = "GoLive" -> DoGoLive
    \* real one-node server (TestVerifMetadataRealRestart): only the state before a
    \* restart (Sync) and after recovery (FinishReal) is recorded, no step-level claim
    [] e.a \in {"Sync", "FinishReal"} -> TRUE
    [] OTHER -> UNCHANGED <<streams, groups, grec, lastPub, disk, applied, mode, nrep, sref, snap, pre>>

\* determinism: while A serves (live), it agrees with B
Live == mode' = "live"
Det_Streams == Live => MetaOf(streams') = MetaOf(other'.streams)
Det_RoEff == Live => (DOMAIN streams' = DOMAIN other'.streams => RoEffOf(streams') = RoEffOf(other'.streams))
Det_GroupMembers == Live => \A g \in GroupIds :
   /\ groups'[g].exists = other'.groups[g].exists
   /\ groups'[g].exists => (groups'[g].subs = other'.groups[g].subs /\ groups'[g].coord = other'.groups[g].coord)
Det_GroupEpoch == Live => \A g \in GroupIds :
   (groups'[g].exists /\ other'.groups[g].exists) => groups'[g].epoch = other'.groups[g].epoch
Det_GroupAsg == Live => \A g \in GroupIds :
   (groups'[g].exists /\ other'.groups[g].exists /\ groups'[g].subs = other'.groups[g].subs) => groups'[g].asg = other'.groups[g].asg

Tag == IF nres' > 0 THEN "after-restart" ELSE "live"
Fail(kind, e, name) == PrintT(<<"FAIL", kind, e.t, l, e.a, name, Tag>>)
Chk(ok, kind, e, name) == IF ok THEN TRUE ELSE Fail(kind, e, name)

TraceNext ==
  /\ Trace[l].a # "End"
  /\ l' = l + 1
  /\ LET e == Trace[l] IN
     /\ Bind(e)
     /\ IF e.a = "Open" THEN TRUE
        ELSE /\ Chk(ImplOf(e), "I", e, "step")
             /\ Chk(NoApplyError, "P", e, "NoApplyError")
             /\ Chk(RS_Streams, "P", e, "RS_Streams")
             /\ Chk(RS_RoEff, "P", e, "RS_RoEff")
             /\ Chk(RS_Started, "P", e, "RS_Started")
             /\ Chk(RS_GroupMembers, "P", e, "RS_GroupMembers")
             /\ Chk(RS_GroupEpoch, "P", e, "RS_GroupEpoch")
             /\ Chk(RS_GroupAsg, "P", e, "RS_GroupAsg")
             /\ Chk(NoDataLoss, "P", e, "NoDataLoss")
             /\ Chk(NoResurrection, "P", e, "NoResurrection")
     /\ Chk(Det_Streams, "P", e, "Det_Streams")
     /\ Chk(Det_RoEff, "P", e, "Det_RoEff")
     /\ Chk(Det_GroupMembers, "P", e, "Det_GroupMembers")
     /\ Chk(Det_GroupEpoch, "P", e, "Det_GroupEpoch")
     /\ Chk(Det_GroupAsg, "P", e, "Det_GroupAsg")
     /\ Chk(NoTombLive', "P", e, "NoTombLive")
     /\ Chk(NoRecLive', "P", e, "NoRecLive")
     /\ Chk(GroupsValid', "P", e, "GroupsValid")
     /\ Chk(GroupsFine', "I", e, "GroupsFine")
     /\ Chk(EpochsFine', "I", e, "EpochsFine")
     /\ Chk(FlagsConsistent', "I", e, "FlagsConsistent")

TraceSpec == TraceInit /\ [][TraceNext]_tvars

Done == PrintT(<<"DONE", TLCGet("stats").diameter, Len(Trace)>>)
=============================================================================
