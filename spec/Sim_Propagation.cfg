SPECIFICATION MCSpec
CONSTANTS
  Servers = {"a", "b", "c"}
  MaxInst = 6
  Barrier = TRUE
  AcqBarrier = TRUE
  NotLeaderPanics = FALSE
  ApplyRefuses = TRUE
  QueueGroup = TRUE
  MaxReq = 3
  MaxTransfers = 2
  MaxCancels = 1
  MaxSlow = 2
  MaxLog = 4
  OpSet = {"create", "delete", "expand", "shrink", "elect"}
CHECK_DEADLOCK FALSE
