SPECIFICATION LiveSpec
CONSTANTS
  Nodes = {"a"}
  SnapCarriesLP = TRUE
  Kinds = {"E"}
  MaxOps = 2
  MaxSys = 0
  MaxFail = 0
  MaxRecFail = 0
  MaxBlock = 1
  MaxTake = 0
  MaxCrash = 1
  MaxStep = 1
  MaxZombie = 0
  MaxSnap = 0
  MaxForeign = 0
  Keeps = {0}
  Eager = FALSE
INVARIANTS TypeOK
PROPERTIES C18_Eventually
VIEW MCView
CHECK_DEADLOCK FALSE
