SPECIFICATION LiveSpec
CONSTANTS
  Nodes = {"a"}
  Kinds = {"E"}
  MaxOps = 2
  MaxSys = 0
  MaxFail = 1
  MaxRecFail = 1
  MaxBlock = 1
  MaxTake = 0
  MaxCrash = 1
  MaxZombie = 0
  MaxSnap = 0
  Keeps = {0}
  Eager = FALSE
INVARIANTS TypeOK
PROPERTIES C18_Eventually
VIEW MCView
CHECK_DEADLOCK FALSE
