----------------------- MODULE Trace_GroupLiveness -----------------------
(* Trace validation for GroupLiveness.tla.  Every line of trace.ndjson is   *)
(* one call (or one period of waiting) executed on a real cluster: server a *)
(* (controller, the only Raft voter), server b (a real second server that   *)
(* follows a's log) and a configured broker c that does not run.  After     *)
(* every step the abstract state is projected from the real objects of both *)
(* servers: the group as each server holds it, the members whose            *)
(* consumer.timer is set on each server, the controller's groupFailovers    *)
(* entry with its witnesses; the expiry handler calls observed during the   *)
(* step (server, member) are part of the observation.                       *)
(* `good` and `armed` are not observable: the specification's own           *)
(* bookkeeping derives them from the recorded calls.                        *)
(*   FAIL "P": the step violates what X01 demands (verdict)                 *)
(*   FAIL "I": the step differs from the specification of today's code, or  *)
(*             a mechanism invariant fails (conformance drift)              *)
EXTENDS GroupLiveness, Json

Trace == ndJsonDeserialize("trace.ndjson")

VARIABLES l, bview
tvars == <<vars, l, bview>>

ToSet(s) == {s[i] : i \in DOMAIN s}
PairSet(s) == {<<s[i][1], s[i][2]>> : i \in DOMAIN s}
HbOf(h) == [m \in Members |-> h[m]]
Partitions == {0, 1}      \* of the stream the members subscribe to

ObsOf(e) == IF e.a = "Wait" /\ e.obs.crash = ""
            THEN [a |-> e.obs.a, err |-> e.obs.err, fired |-> PairSet(e.obs.fired), acc |-> ToSet(e.obs.acc),
                  rej |-> ToSet(e.obs.rej)]
            ELSE IF e.a = "Join" /\ e.obs.err = "" /\ e.obs.crash = ""
            THEN [a |-> e.obs.a, err |-> e.obs.err, rc |-> e.obs.rc, re |-> e.obs.re]
            ELSE [a |-> e.obs.a, err |-> e.obs.err]

Bind(e) ==
  /\ exists' = e.st.exists /\ members' = ToSet(e.st.members) /\ coord' = e.st.coord /\ epoch' = e.st.epoch
  /\ tmr' = [s \in Servers |-> ToSet(e.st.tmr[s])]
  /\ fo' = [on |-> e.st.fo.on, wit |-> ToSet(e.st.fo.wit)]
  /\ pend' = e.st.pend
  /\ pendx' = PairSet(e.st.pendx)
  /\ crashed' = (e.obs.crash # "")
  /\ obs' = ObsOf(e)
  /\ bview' = e.st.views

TraceInit ==
  LET e == Trace[1] IN
  /\ exists = e.st.exists /\ members = ToSet(e.st.members) /\ coord = e.st.coord /\ epoch = e.st.epoch
  /\ tmr = [s \in Servers |-> ToSet(e.st.tmr[s])]
  /\ fo = [on |-> e.st.fo.on, wit |-> ToSet(e.st.fo.wit)]
  /\ pend = e.st.pend
  /\ pendx = PairSet(e.st.pendx) /\ crashed = FALSE
  /\ gen = [m \in Members |-> 0] /\ xgen = [m \in Members |-> 0] /\ taint = FALSE
  /\ obs = [a |-> "Open", err |-> ""]
  /\ bview = e.st.views
  /\ armed = FALSE /\ good = {}
  /\ l = 2

Fail(kind, e, name) == PrintT(<<"FAIL", kind, e.t, l, e.a, name>>)
Chk(ok, kind, e, name) == IF ok THEN TRUE ELSE Fail(kind, e, name)

\* the specification's bookkeeping of the unobservable parts (from the state before the step)
ReportGood(m, c, e) ==
  IF ReportRefusal(m, c, e) # "" THEN good
  ELSE IF WouldElect(m) /\ Candidates # {} THEN {} ELSE good \cup {m}
ReportArmed(m, c, e) ==
  IF ReportRefusal(m, c, e) # "" THEN armed ELSE ~WouldElect(m)
ApplyGood(r) ==
  IF (RecheckAtApply /\ Stale(r.c, r.e)) \/ ~exists THEN good
  ELSE IF WouldElect(r.m) /\ Candidates # {} THEN {} ELSE good \cup {r.m}
ApplyArmed(r) ==
  IF (RecheckAtApply /\ Stale(r.c, r.e)) \/ ~exists THEN armed ELSE ~WouldElect(r.m)

GoodAfter(e) ==
  CASE e.a = "Open" -> {}
    [] e.a = "Report" -> ReportGood(e.args.m, e.args.c, e.args.e)
    [] e.a = "ReportApply" -> ApplyGood(pend[e.args.i])
    [] e.a = "Join" -> IF exists THEN good ELSE {}
    [] e.a = "Leave" -> IF members = {e.args.m} THEN {} ELSE good
    [] e.a = "ExpireApply" -> IF members = {e.args.m} THEN {} ELSE good
    [] e.a \in {"Heartbeat", "ReportCheck", "Skip"} -> good
    [] OTHER -> {}          \* Wait, Lose, Restart
ArmedAfter(e) ==
  CASE e.a = "Open" -> FALSE
    [] e.a = "Report" -> ReportArmed(e.args.m, e.args.c, e.args.e)
    [] e.a = "ReportApply" -> ApplyArmed(pend[e.args.i])
    [] e.a = "Join" -> IF exists THEN armed ELSE FALSE
    [] e.a = "Leave" -> IF members = {e.args.m} THEN FALSE ELSE armed
    [] e.a = "ExpireApply" -> IF members = {e.args.m} THEN FALSE ELSE armed
    [] e.a \in {"Heartbeat", "ReportCheck", "Skip"} -> armed
    [] OTHER -> FALSE

\* generations: a consumer id that joins (successfully) begins a new membership
GenAfter(e) ==
  IF e.a = "Open" THEN [m \in Members |-> 0]
  ELSE IF e.a = "Join" /\ e.obs.err = "" THEN [gen EXCEPT ![e.args.m] = @ + 1]
  ELSE gen
XgenAfter(e) ==
  IF e.a = "Open" THEN [m \in Members |-> 0]
  ELSE IF e.a = "Wait" /\ e.args.park
       THEN [m \in Members |-> IF \E s \in Servers : <<s, m>> \in PairSet(e.obs.fired) THEN gen[m] ELSE xgen[m]]
  ELSE xgen
TaintAfter(e) ==
  IF e.a = "Open" THEN FALSE
  ELSE IF e.a = "ExpireApply" THEN taint \/ (exists /\ e.args.m \in members /\ gen[e.args.m] # xgen[e.args.m])
  ELSE taint

\* the removal of members is followed by a rebalance: when everybody who is left has just fetched its
\* assignments (they all kept heartbeating), every partition of the stream is assigned to exactly one of them
Rebalanced(e) ==
  LET asg == PairSet(e.obs.asg)
      S == ToSet(e.st.members) IN
  (e.st.exists /\ e.st.coord \in Servers /\ \A m \in S : e.args.hb[m] = "good") =>
     /\ \A x \in asg : x[1] \in S
     /\ \A p \in Partitions : Cardinality({m \in S : <<m, p>> \in asg}) = 1

PropOf(e) ==
  CASE e.a = "Join" -> P_Join(e.args.m)
    [] e.a = "Leave" -> P_Leave(e.args.m)
    [] e.a = "Heartbeat" -> P_Heartbeat(e.args.s, e.args.m, e.args.e)
    [] e.a = "Report" -> P_Report(e.args.m, e.args.c, e.args.e)
    [] e.a = "ReportCheck" -> P_ReportCheck(e.args.m, e.args.c, e.args.e)
    [] e.a = "ReportApply" -> P_ReportApply(e.args.i)
    [] e.a = "Wait" -> P_Wait(HbOf(e.args.hb), e.args.park)
    [] e.a = "ExpireApply" -> P_ExpireApply(e.args.s, e.args.m)
    [] e.a = "Restart" -> P_Restart
    [] OTHER -> P_Quiet

ImplOf(e) ==
  CASE e.a = "Join" -> DoJoin(e.args.m, e.st.coord)
    [] e.a = "Leave" -> DoLeave(e.args.m)
    [] e.a = "Heartbeat" -> DoHeartbeat(e.args.s, e.args.m, e.args.e)
    [] e.a = "Report" -> DoReport(e.args.m, e.args.c, e.args.e, e.args.pref)
    [] e.a = "ReportCheck" -> DoReportCheck(e.args.m, e.args.c, e.args.e)
    [] e.a = "ReportApply" -> DoReportApply(e.args.i, e.args.pref)
    [] e.a = "Wait" -> DoWait(HbOf(e.args.hb), e.args.park)
    [] e.a = "ExpireApply" -> DoExpireApply(e.args.s, e.args.m)
    [] e.a = "Lose" -> DoLose
    [] e.a = "Restart" -> DoRestart(e.args.s)
    [] e.a = "Skip" -> UNCHANGED <<exists, members, coord, epoch, tmr, fo, pend, pendx>>
    [] OTHER -> FALSE

\* every running server holds the same group (they applied the same log)
ViewsAgree(e) ==
  \A s \in Servers :
     /\ e.st.views[s].exists = e.st.exists /\ ToSet(e.st.views[s].members) = ToSet(e.st.members)
     /\ e.st.views[s].coord = e.st.coord /\ e.st.views[s].epoch = e.st.epoch

TraceNext ==
  /\ Trace[l].a # "End"
  /\ l' = l + 1
  /\ LET e == Trace[l] IN
     /\ Bind(e)
     /\ IF e.obs.crash # "" THEN
          \* a server died in this step: that is the observation (nothing else was recorded)
          /\ UNCHANGED <<good, armed, gen, xgen, taint>>
          /\ Chk(X01_NoCrash', "P", e, "X01_NoCrash")
        ELSE
          /\ good' = GoodAfter(e)
          /\ armed' = ArmedAfter(e)
          /\ gen' = GenAfter(e) /\ xgen' = XgenAfter(e) /\ taint' = TaintAfter(e)
          /\ IF e.a = "Open" THEN TRUE
             ELSE /\ Chk(PropOf(e), "P", e, "step")
                  /\ Chk(P_Epochs, "P", e, "P_Epochs")
                  /\ Chk(e.a = "Wait" \/ e.obs.fired = <<>>, "P", e, "NoSpontaneousExpiry")
                  /\ Chk(e.a # "Wait" \/ Rebalanced(e), "P", e, "Rebalanced")
                  /\ Chk(ImplOf(e), "I", e, "step")
          /\ Chk(X01_TimersOnlyAtCoordinator', "P", e, "X01_TimersOnlyAtCoordinator")
          /\ Chk(ViewsAgree(e), "I", e, "ViewsAgree")
          /\ Chk(TypeOK', "I", e, "TypeOK")
          /\ Chk(TimersComplete', "I", e, "TimersComplete")
          /\ Chk(StatusLive', "I", e, "StatusLive")
          /\ Chk(WitnessesAreGood', "I", e, "WitnessesAreGood")

TraceSpec == TraceInit /\ [][TraceNext]_tvars

Done == PrintT(<<"DONE", TLCGet("stats").diameter, Len(Trace)>>)
=============================================================================
