SPECIFICATION MCSpec
CONSTANTS
  MaxRecs = 3
  MaxBatch = 2
  MaxOps = 3
  MaxEpoch = 1
  CapSet = {2}
  OccSet = {FALSE, TRUE}
  UseReaders = FALSE
INVARIANTS TypeOK C01_Ordered C01_Dense
CHECK_DEADLOCK FALSE
