--------------------------- MODULE MC_Reader ---------------------------
(* Bounded instance of Reader.tla: exhaustive design check (safety and,   *)
(* under fairness of the readers, liveness) and stimulus generation.      *)
(* `last` names the step (who moved, with which argument) so that a       *)
(* behaviour can be replayed on the real code through the gates; it is    *)
(* frozen (TrackLast = FALSE) in the exhaustive configurations.           *)
EXTENDS Reader, TLC

\* SplitNew: NewReader as the two steps of the code (HW load | rest); FALSE = the whole call as one step (stimuli
\* of the lock-step gated replay: newReaderCommitted has no gate, the driver executes the call in one piece)
CONSTANTS MaxApp, MaxTog, Starts, CapSet, AtomicSet, TrackLast, UseRoller, SplitNew
VARIABLES last, nApp, nTog
mcvars == <<vars, last, nApp, nTog>>

Step(a) == last' = IF TrackLast THEN a ELSE last

MCInit ==
  /\ cfg \in [cap : CapSet, atomic : AtomicSet]
  /\ segs = <<[base |-> 0, n |-> 0]>> /\ active = 1 /\ listed = <<1>>
  /\ hw = -1 /\ ro = FALSE /\ wait = {}
  /\ app = [pc |-> "idle", new |-> 0, res |-> ""]
  /\ rol = [pc |-> "idle", new |-> 0]
  /\ tog = [pc |-> "idle"]
  /\ rd = [r \in Readers |-> NoReader]
  /\ del = [r \in Readers |-> <<>>]
  /\ last = [a |-> "Open"] /\ nApp = 0 /\ nTog = 0

Keep == UNCHANGED <<nApp, nTog>>

MCAppBegin == nApp < MaxApp /\ AppBegin /\ nApp' = nApp + 1 /\ UNCHANGED nTog /\ Step([a |-> "AppBegin"])
MCAppSet == nApp < MaxApp /\ DoAppSet /\ nApp' = nApp + 1 /\ UNCHANGED nTog /\ Step([a |-> "AppSet"])
MCAppStep == (AppSplit \/ AppList \/ AppNoSplit \/ AppWrite) /\ Keep /\ Step([a |-> "Step", p |-> "app"])
MCRolBegin == UseRoller /\ RolSplit /\ Keep /\ Step([a |-> "RolBegin"])
MCRolStep == RolList /\ Keep /\ Step([a |-> "Step", p |-> "rol"])
MCSetHW(h) == DoSetHW(h) /\ Keep /\ Step([a |-> "SetHW", h |-> h])
MCSetHW2(h1, h2) == DoSetHW2(h1, h2) /\ Keep /\ Step([a |-> "SetHW2", h1 |-> h1, h2 |-> h2])
MCTogBegin(b) == nTog < MaxTog /\ b # ro /\ TogStore(b) /\ nTog' = nTog + 1 /\ UNCHANGED nApp
                 /\ Step([a |-> "TogBegin", b |-> b])
MCTogStep == TogNotify /\ Keep /\ Step([a |-> "Step", p |-> "tog"])
\* readers are interchangeable: r2 is created after r1
MCNewReader(r, s) == /\ (r = "r2" => rd["r1"].pc # "none")
                     /\ (IF SplitNew THEN DoNewReader(r, s) ELSE DoNewReaderAtomic(r, s)) /\ Keep /\ Step([a |-> "NewReader", r |-> r, s |-> s])
MCRStep(r) == RNext(r) /\ Keep /\ Step([a |-> "Step", p |-> r])

MCNext ==
  \/ MCAppBegin \/ MCAppStep \/ MCAppSet \/ MCRolBegin \/ MCRolStep
  \/ \E h \in 0..Newest : MCSetHW(h)          \* any step; a stale (lower) value is a no-op
  \/ \E h1, h2 \in 0..Newest : h1 # h2 /\ (h1 > hw \/ h2 > hw) /\ MCSetHW2(h1, h2)   \* two HW writers at once
  \/ \E b \in BOOLEAN : MCTogBegin(b)
  \/ MCTogStep
  \/ \E r \in Readers, s \in Starts : MCNewReader(r, s)
  \/ \E r \in Readers : MCRStep(r)

MCSpec == MCInit /\ [][MCNext]_mcvars

\* liveness: the readers are scheduled fairly; nothing is assumed about anybody else
MCLiveSpec == MCSpec /\ \A r \in Readers : WF_mcvars(MCRStep(r))

\* every step, as the code performs it, satisfies what C03 demands of a step
HWSetOK == CASE TrackLast /\ last'.a = "SetHW" -> P_HWSet({last'.h})
             [] TrackLast /\ last'.a = "SetHW2" -> P_HWSet({last'.h1, last'.h2})
             [] OTHER -> TRUE
StepsOK == [][P_Step /\ HWSetOK]_mcvars

\* once the HW covers a message, every reader positioned at or before it
\* eventually receives it (or is told that the read-only log has ended)
C03_Live == \A r \in Readers : \A o \in 0..(MaxApp - 1) :
   (rd[r].pc # "none" /\ rd[r].start <= o /\ hw >= o) ~> (InSeq(o, del[r]) \/ rd[r].pc = "rodone")

\* gate-to-gate quiescence: when nobody can move, nothing is owed
C03_Quiet == (~ENABLED MCNext) => P_Quiet
=============================================================================
