SPECIFICATION TraceSpec
CONSTANTS
  SageFix = TRUE
POSTCONDITION Done
CHECK_DEADLOCK FALSE
