SPECIFICATION MCSpec
CONSTANTS
  Replicas = {"r1", "r2", "r3", "r4"}
  Outsider = "x"
  Dense = TRUE
  KeepStatus = FALSE
  RecheckAtApply = TRUE
  RecheckElect = TRUE
  RecheckISR = FALSE
  KeepOnFail = FALSE
  CountAll = FALSE
  InitISRs = {{"r1"}, {"r1", "r2"}, {"r1", "r2", "r3"}, {"r1", "r2", "r3", "r4"}}
  L0 = "r1"
  PairSels = {"cur", "first"}
  MaxOps = 6
  Faults = FALSE
  EffectiveOnly = FALSE
  MaxPend = 2
INVARIANTS NoTaint
VIEW MCView
CHECK_DEADLOCK FALSE
