SPECIFICATION MCSpec
CONSTANTS
  Groups = {"g1"}
  GroupOnFollower = FALSE
  OnlyOpenEnded = FALSE
  CleanupById = FALSE
  Consumers = {"c1", "c2", "c3"}
  MaxEpoch = 2
  MaxSubs = 4
  MaxOps = 5
  UsePlain = FALSE
  UseBurst = TRUE
  UseFollower = TRUE
  UseBounded = TRUE
  C0 = "c1"
  UseGrpc = FALSE
  UseRace = TRUE
  MaxElect = 2
  StrandedKnown = TRUE
  UseBad = TRUE
INVARIANTS TypeOK MC_OneActive C13_StreamEnded ActiveRegistered RegOK
PROPERTIES StepsOK
VIEW MCView
CHECK_DEADLOCK FALSE
