------------------------- MODULE MC_Groups -------------------------
(* Bounded instance of Groups for the exhaustive design check and for      *)
(* stimulus generation.  `last` = the last action with its arguments,      *)
(* `nOps` = budget, `taint` = ghost: a restore that was not history-neutral *)
(* happened in this behaviour (open finding C12-assignments-after-restore). *)
(* None of them is part of the VIEW.                                       *)
EXTENDS Groups, Json

CONSTANTS ConsumerSet, StreamSet, MaxParts, MaxOps, Coords, MaxDeletes, GetDs, MaxRestores, Shapes, MaxPauseOps
VARIABLES last, nOps, nDel, nRes, nPz, taint
mcvars == <<vars, last, nOps, nDel, nRes, nPz, taint>>

Rep == CHOOSE v \in Servers : TRUE
G == gs[Rep]
Existing == {s \in StreamSet : Exists(s)}
SeqOf(S) == SortedStreams(S)
\* shape of the stream list of a request: "plain" = every name once; "dup" = the first name repeated at the end
\* (["foo", "bar", "foo"]: a subscription is a SET of streams, whatever the list looks like); "empty" = an empty
\* stream name appended (no such stream: the request is refused like any request naming a missing stream)
ListOf(S, sh) == CASE sh = "dup" -> SeqOf(S) \o <<SeqOf(S)[1]>> [] sh = "empty" -> SeqOf(S) \o <<"">> [] OTHER -> SeqOf(S)
NamesOf(S, sh) == IF sh = "empty" THEN S \cup {""} ELSE S

Step(a) == /\ nOps < MaxOps /\ nOps' = nOps + 1 /\ last' = a

MCInit ==
  /\ gs = [v \in Servers |-> NoGroup]
  /\ parts \in [StreamSet -> 0..MaxParts]
  /\ paused = {}
  /\ idx = 0
  /\ obs = Obs("Open", "", "", <<>>)
  /\ last = [a |-> "Open"] /\ nOps = 0 /\ nDel = 0 /\ nRes = 0 /\ nPz = 0 /\ taint = {}

MCCreateStream(s, n) ==
  /\ ~Exists(s) /\ DoCreateStream(s, n)
  /\ Step([a |-> "CreateStream", s |-> s, n |-> n]) /\ UNCHANGED <<nDel, nRes, nPz, taint>>
MCDeleteStream(s) ==
  /\ Exists(s) /\ nDel < MaxDeletes /\ DoDeleteStream(s)
  /\ Step([a |-> "DeleteStream", s |-> s]) /\ nDel' = nDel + 1 /\ UNCHANGED <<nRes, nPz, taint>>
MCCreateGroup(c, S, coord, sh) ==
  /\ ~GroupExists /\ S # {} /\ DoProposeCreateGroup(c, NamesOf(S, sh), coord)
  /\ Step([a |-> "CreateGroup", c |-> c, streams |-> ListOf(S, sh), coord |-> coord])
  /\ UNCHANGED <<nDel, nRes, nPz, taint>>
MCJoin(c, S, sh) ==
  /\ GroupExists /\ c \notin Members(G) /\ S # {} /\ DoProposeJoin(c, NamesOf(S, sh))
  /\ Step([a |-> "Join", c |-> c, streams |-> ListOf(S, sh)]) /\ UNCHANGED <<nDel, nRes, nPz, taint>>
\* how = "leave" | "expire": an expiry is the coordinator's liveness timer
\* proposing the same operation
MCLeave(c, how) ==
  /\ GroupExists /\ c \in Members(G) /\ (how = "expire" => G.coord \in Servers) /\ DoLeave(c)
  /\ Step([a |-> "Leave", c |-> c, how |-> how]) /\ UNCHANGED <<nDel, nRes, nPz, taint>>
MCChangeCoordinator(coord) ==
  /\ GroupExists /\ coord # G.coord /\ DoChangeCoordinator(coord)
  /\ Step([a |-> "ChangeCoordinator", coord |-> coord]) /\ UNCHANGED <<nDel, nRes, nPz, taint>>
\* pause / resume of one partition that exists (MaxPauseOps of them per behaviour), anywhere between the
\* group operations: the feature interaction pause x groups
MCPause(s, p) ==
  /\ nPz < MaxPauseOps /\ PartExists(s, p) /\ <<s, p>> \notin paused /\ DoPause(s, p)
  /\ Step([a |-> "Pause", s |-> s, p |-> p]) /\ nPz' = nPz + 1 /\ UNCHANGED <<nDel, nRes, taint>>
MCResume(s, p) ==
  /\ nPz < MaxPauseOps /\ <<s, p>> \in paused /\ DoResume(s, p)
  /\ Step([a |-> "Resume", s |-> s, p |-> p]) /\ nPz' = nPz + 1 /\ UNCHANGED <<nDel, nRes, taint>>
AllCPerms == UNION {{q \in [1..Cardinality(S) -> S] : \A i, j \in DOMAIN q : i # j => q[i] # q[j]} : S \in SUBSET ConsumerSet}
MCRestore(v, ord) ==
  /\ nRes < MaxRestores /\ gs[v].exists
  /\ {ord[i] : i \in DOMAIN ord} = Members(gs[v]) /\ Len(ord) = Cardinality(Members(gs[v]))
  /\ DoRestore(v, ord)
  /\ Step([a |-> "Restore", srv |-> v, order |-> ord]) /\ nRes' = nRes + 1 /\ UNCHANGED <<nDel, nPz>>
  /\ taint' = taint \cup (IF RestoreNeutral(gs[v]) THEN {} ELSE {"restored"})
\* not counted: does not change the state
\* d = how far behind the current epoch the client's epoch is
MCGetAssignments(v, c, d) ==
  /\ gs[v].exists /\ gs[v].epoch >= d /\ DoGetAssignments(v, c, gs[v].epoch - d)
  /\ last' = [a |-> "GetAssignments", srv |-> v, c |-> c, d |-> d, e |-> gs[v].epoch - d]
  /\ UNCHANGED <<nOps, nDel, nRes, nPz, taint>>

MCNext ==
  \/ \E s \in StreamSet, n \in 1..MaxParts : MCCreateStream(s, n)
  \/ \E s \in StreamSet : MCDeleteStream(s)
  \/ \E c \in ConsumerSet, S \in SUBSET StreamSet, coord \in Coords, sh \in Shapes : MCCreateGroup(c, S, coord, sh)
  \/ \E c \in ConsumerSet, S \in SUBSET StreamSet, sh \in Shapes : MCJoin(c, S, sh)
  \/ \E c \in ConsumerSet, how \in {"leave", "expire"} : MCLeave(c, how)
  \/ \E coord \in Coords : MCChangeCoordinator(coord)
  \/ \E s \in StreamSet, p \in 0..(MaxParts - 1) : MCPause(s, p) \/ MCResume(s, p)
  \/ \E v \in Servers, ord \in AllCPerms : MCRestore(v, ord)
  \/ \E v \in Servers, c \in ConsumerSet, d \in GetDs : MCGetAssignments(v, c, d)

MCSpec == MCInit /\ [][MCNext]_mcvars

StepOK ==
  LET a == last' IN
  CASE a.a = "GetAssignments" -> P_GetAssignments(a.srv, a.c, a.e)
    [] a.a = "Join" -> IF obs'.err = "precondition" THEN SameGroups ELSE P_Join(a.c, {a.streams[i] : i \in DOMAIN a.streams})
                                 \* (a list with a repeated name subscribes to the SET of its names)
    [] a.a = "CreateGroup" -> IF obs'.err = "precondition" THEN SameGroups
                              ELSE \A v \in Servers : gs'[v].exists /\ Members(gs'[v]) = {a.c}
    [] a.a = "Leave" -> P_Leave(a.c)
    [] a.a = "DeleteStream" -> P_DeleteStream(a.s)
    [] a.a = "Restore" -> P_Restore(a.srv)
    [] OTHER -> P_Other
StepsOK == [][StepOK]_mcvars

Clean == taint = {}
\* a rebuilt group may differ from the live one (known finding), but it must be a
\* VALID assignment whatever its history
Inv_ExactlyOne == C12_ExactlyOne
Inv_NoForeign == C12_NoForeign
Inv_AssignedExist == C12_AssignedExist
Inv_Balanced == C12_Balanced
Inv_SameEpochSame == Clean => C12_SameEpochSame
Inv_Converged == Clean => C12_Converged
Inv_Impl == ImplInv
\* reachability of the open finding C12-assignments-after-restore (checked with a
\* separate config: TLC must report a violation)
Raw_Converged == C12_Converged

MCView == <<gs, parts, paused, idx, nOps, nDel, nRes, nPz, taint>>
=============================================================================
