--------------------------- MODULE Failover ---------------------------
(***************************************************************************)
(* Partition leader failover as the CONTROLLER (metadata leader) performs  *)
(* it: server/metadata.go ReportLeader / ShrinkISR / ExpandISR /           *)
(* electNewPartitionLeader / LostLeadership / removeStream,                *)
(* server/failover.go failoverStatus (witnesses + expiry timer),           *)
(* server/fsm.go apply of CHANGE_LEADER / SHRINK_ISR / EXPAND_ISR (the     *)
(* Raft index of the entry becomes the epoch), server/partition.go         *)
(* SetLeader / RemoveFromISR / AddToISR.  One partition.                   *)
(* Property C07: leadership changes are safe and fenced by epochs.         *)
(*                                                                         *)
(* Abstract state                                                          *)
(*   exists   the stream (and so the partition) exists                     *)
(*   isr      in-sync replica set            leader   current leader       *)
(*   pisr     the PERSISTED copy of the in-sync set (protobuf Partition.Isr,*)
(*            what snapshots and pause/resume rebuild the partition from)  *)
(*   lepoch   leader epoch                   pepoch   partition epoch      *)
(*   e0       leader epoch at creation (constant of a behaviour)           *)
(*   fo       the partition's entry in metadataAPI.partitionFailovers:     *)
(*            [on, wit] - entry present, its witness set                   *)
(*   armed    the entry's expiry timer is running (not observable on the   *)
(*            real object: derived by the specification)                   *)
(*   good     GHOST, what the property talks about: the ids that reported  *)
(*            the CURRENT (leader, epoch) since the last expiry of the     *)
(*            timeout window / controller change / stream removal          *)
(*   obs      result of the last call [a, err]                             *)
(*   pend     reports that are INSIDE metadataAPI.ReportLeader: they have  *)
(*            passed the (leader, epoch) check and have not yet reached    *)
(*            failoverStatus.report (the two are separate critical         *)
(*            sections; sequence of [k, w, l, e] in check order, k =       *)
(*            "report" | "shrink" | "expand": ShrinkISR/ExpandISR have the *)
(*            same shape - pair check, then the Raft proposal)             *)
(*   taint    GHOST: a report took effect although the pair it named was   *)
(*            no longer current at that moment (known finding, see         *)
(*            DoReportApply)                                               *)
(*                                                                         *)
(* Requests carry the (leader, epoch) pair the sender believes in; the     *)
(* controller refuses every request whose pair is not the current one.     *)
(*                                                                         *)
(* Code variants kept as constants (KeepStatus, CountAll: FALSE = the code *)
(* as it is today):                                                        *)
(*   KeepStatus  the failover status stays in partitionFailovers after a   *)
(*               failover attempt, its timer stopped for ever (liftbridge  *)
(*               as shipped; defective: stale witnesses trigger the next   *)
(*               election)                                                 *)
(*   CountAll    every witness id counts towards the quorum, in-sync       *)
(*               follower or not (as shipped; defective)                   *)
(*   RecheckAtApply = FALSE  ReportLeader does not look at the (leader,    *)
(*               epoch) pair again when it registers the witness (as       *)
(*               shipped; defective when reports overlap, see              *)
(*               DoReportApply); TRUE = today's code                       *)
(*   RecheckISR = FALSE  ShrinkISR/ExpandISR do not look at the pair again *)
(*               when the Raft entry is proposed (as shipped; defective    *)
(*               when the request is overtaken by an election, see         *)
(*               DoISRApply); TRUE = today's code                          *)
(*   KeepOnFail = TRUE   the status survives a FAILED election attempt     *)
(*               (timer stopped, so for ever); FALSE = today's code        *)
(*   RecheckElect = FALSE  electNewPartitionLeader proposes CHANGE_LEADER  *)
(*               without comparing the pair again in the Raft precondition *)
(*               (defective when two elections for the same generation are *)
(*               in flight, see DoElectApply); TRUE = today's code         *)
(* They exist to generate the counterexamples that are replayed on the     *)
(* real code.                                                              *)
(***************************************************************************)
EXTENDS Integers, FiniteSets, Sequences

CONSTANTS Replicas,     \* replica ids of the partition (strings)
          Outsider,     \* an id that is not a replica (reports may come from anywhere)
          Dense,        \* TRUE: the next Raft index is epoch + 1 (bounded model);
                        \* FALSE: any larger index (recorded traces: the Raft log is shared)
          KeepStatus, CountAll, RecheckAtApply, RecheckISR, KeepOnFail, RecheckElect

VARIABLES exists, isr, pisr, leader, lepoch, pepoch, e0, fo, armed, good, obs, pend, taint
pvars == <<exists, isr, pisr, leader, lepoch, pepoch, e0>>   \* replicated partition state
vars == <<exists, isr, pisr, leader, lepoch, pepoch, e0, fo, armed, good, obs, pend, taint>>

Reporters == Replicas \cup {Outsider}
NoFo == [on |-> FALSE, wit |-> {}]

Followers == isr \ {leader}                 \* the in-sync followers
Quorum == (Cardinality(isr) - 1) \div 2     \* partitionFailover.Quorum()

\* the Raft index of a newly applied entry, seen from this partition
NewIdx(new, old) == IF Dense THEN new = old + 1 ELSE new > old

Stale(l, e) == ~exists \/ l # leader \/ e # lepoch

Refuse(a, err) ==
  /\ obs' = [a |-> a, err |-> err]
  /\ UNCHANGED <<exists, isr, pisr, leader, lepoch, pepoch, e0, fo, armed, good, pend, taint>>

RefuseStale(a) == IF ~exists THEN Refuse(a, "nopart") ELSE Refuse(a, "stale")

-----------------------------------------------------------------------------
(* Ghost bookkeeping: who reported the current (leader, epoch) in the      *)
(* current window.  Written over pre- and post-state so that the same      *)
(* expressions serve the bounded model and recorded traces.                *)

GoodAfterReport(w, l, e) ==
  IF leader' # leader \/ lepoch' # lepoch THEN {}
  ELSE IF Stale(l, e) THEN good ELSE good \cup {w}
GoodAfterISR == IF leader' # leader \/ lepoch' # lepoch THEN {} ELSE good

\* `armed` is not observable either: a report that was recorded without an
\* election (re)arms the timer, an election attempt stops it
ArmedAfterEffect == obs'.err = "" /\ leader' = leader
ArmedAfterReport(w, l, e) == IF Stale(l, e) THEN armed ELSE ArmedAfterEffect
ArmedAfterApply(l, e) == IF Stale(l, e) /\ obs'.err = "stale" THEN armed ELSE ArmedAfterEffect
\* a parked report took effect although the pair it named was stale
TaintAfterApply(l, e) == taint \/ (Stale(l, e) /\ obs'.err # "stale")

-----------------------------------------------------------------------------
(* The actions as the code performs them *)

\* second half of metadataAPI.ReportLeader: failoverStatus.report(w) -> (quorum
\* reached) electNewPartitionLeader -> Raft CHANGE_LEADER -> SetLeader.  Nothing in
\* here looks at the (leader, epoch) pair of the request again.
ReportEffect(w, l, e, a, ok) ==
    LET wit1    == (IF fo.on THEN fo.wit ELSE {}) \cup {w}
        counted == IF CountAll THEN wit1 ELSE wit1 \cap Followers
        failed  == Cardinality(counted) > Quorum
        after   == IF KeepStatus THEN [on |-> TRUE, wit |-> wit1] ELSE NoFo
    IN IF ~failed THEN
         \* recorded, expiry timer (re)armed
         /\ fo' = [on |-> TRUE, wit |-> wit1]
         /\ obs' = [a |-> a, err |-> ""]
         /\ UNCHANGED pvars
         /\ armed' = ArmedAfterEffect    \* TRUE
         /\ good' = GoodAfterReport(w, l, e)
       ELSE IF Cardinality(isr) <= 1 \/ Followers = {} THEN
         \* timer stopped, "No ISR candidates" (electNewPartitionLeader)
         /\ fo' = after
         /\ obs' = [a |-> a, err |-> "nocand"]
         /\ UNCHANGED pvars
         /\ armed' = ArmedAfterEffect    \* FALSE
         /\ good' = GoodAfterReport(w, l, e)
       ELSE IF ~ok THEN
         \* timer stopped, the CHANGE_LEADER entry cannot be replicated (the
         \* request's deadline is over, Raft unavailable): election attempt fails
         /\ fo' = IF KeepStatus \/ KeepOnFail THEN [on |-> TRUE, wit |-> wit1] ELSE NoFo
         /\ obs' = [a |-> a, err |-> "raft"]
         /\ UNCHANGED pvars
         /\ armed' = ArmedAfterEffect    \* FALSE
         /\ good' = GoodAfterReport(w, l, e)
       ELSE
         \* timer stopped, new leader = least loaded in-sync follower (any)
         /\ \E n \in Followers : leader' = n
         /\ NewIdx(pepoch', pepoch) /\ lepoch' = pepoch'
         /\ UNCHANGED <<exists, isr, pisr, e0>>
         /\ fo' = after
         /\ obs' = [a |-> a, err |-> ""]
         /\ armed' = ArmedAfterEffect    \* FALSE
         /\ good' = GoodAfterReport(w, l, e)

\* metadataAPI.ReportLeader(replica w, leader l, epoch e), one request at a time.
\* ok = FALSE: the controller cannot replicate a Raft entry for this request
\* (fault: the request's deadline is over); it only matters if an election is due.
DoReportLeader(w, l, e, ok) ==
  IF Stale(l, e) THEN RefuseStale("Report")
  ELSE ReportEffect(w, l, e, "Report", ok) /\ UNCHANGED <<pend, taint>>

\* this report would start an election
WouldElect(w) ==
  LET wit1 == (IF fo.on THEN fo.wit ELSE {}) \cup {w}
      counted == IF CountAll THEN wit1 ELSE wit1 \cap Followers
  IN Cardinality(counted) > Quorum /\ Cardinality(isr) > 1 /\ Followers # {}

\* Concurrent requests: the first half of ReportLeader (partition lookup and the
\* (leader, epoch) check) ...
DoReportCheck(w, l, e) ==
  IF Stale(l, e) THEN RefuseStale("ReportCheck")
  ELSE /\ pend' = Append(pend, [k |-> "report", w |-> w, l |-> l, e |-> e])
       /\ obs' = [a |-> "ReportCheck", err |-> ""]
       /\ UNCHANGED <<exists, isr, pisr, leader, lepoch, pepoch, e0, fo, armed, good, taint>>

\* ... and the second half, arbitrarily later, whatever happened in between:
\* under metadataAPI.mu the pair is checked AGAIN (fix "a leader report that was
\* overtaken by a failover is refused"; the code as shipped did not: a report
\* naming a leader or epoch that was stale by now still registered a witness and
\* could trigger an election against the NEW leader - taint), then the status is
\* looked up / created and failoverStatus.report runs.
\* (domain: the stream still exists)
DoReportApply(i) ==
  /\ i \in 1..Len(pend) /\ exists /\ pend[i].k = "report"
  /\ LET r == pend[i] IN
     IF RecheckAtApply /\ Stale(r.l, r.e) THEN
       /\ obs' = [a |-> "ReportApply", err |-> "stale"]
       /\ UNCHANGED <<exists, isr, pisr, leader, lepoch, pepoch, e0, fo, armed, good>>
       /\ taint' = TaintAfterApply(r.l, r.e)     \* unchanged
     ELSE
       /\ ReportEffect(r.w, r.l, r.e, "ReportApply", TRUE)
       /\ taint' = TaintAfterApply(r.l, r.e)
  /\ pend' = SubSeq(pend, 1, i - 1) \o SubSeq(pend, i + 1, Len(pend))

\* Third split point of ReportLeader.  A report that completes the quorum registers
\* its witness, stops the timer, releases the status mutex and calls
\* electNewPartitionLeader, which compares the pair once more and only then picks
\* the candidates and proposes CHANGE_LEADER.  DoElectCheck = everything up to that
\* comparison (gate metadata.elect.checked): the election is decided, the status
\* stays in the map with its witnesses and a stopped timer while the election is in
\* flight.  A report that does not complete the quorum never gets there: it is an
\* ordinary report.
ElectParked == \E i \in 1..Len(pend) : pend[i].k = "elect"

DoElectCheck(w, l, e) ==
  IF Stale(l, e) THEN RefuseStale("ElectCheck")
  ELSE IF ~WouldElect(w) THEN ReportEffect(w, l, e, "ElectCheck", TRUE) /\ UNCHANGED <<pend, taint>>
  ELSE /\ UNCHANGED <<pvars, taint>>
       /\ fo' = [on |-> TRUE, wit |-> (IF fo.on THEN fo.wit ELSE {}) \cup {w}]
       /\ armed' = FALSE
       /\ good' = GoodAfterReport(w, l, e)
       /\ pend' = Append(pend, [k |-> "elect", w |-> w, l |-> l, e |-> e])
       /\ obs' = [a |-> "ElectCheck", err |-> ""]

\* ... and the rest, arbitrarily later: candidates = the in-sync followers of the
\* CURRENT leader, Raft proposal whose precondition compares the pair AGAIN (as
\* shipped + fix 42fc4fc; without it a second election for the same generation -
\* started by a repeated report while the first one was queued - deposes the leader
\* the first one elected, whom nobody reported), then OnExpired of the status the
\* election belongs to (it removes only itself).
\* (domain: the stream still exists; while an election is parked there is no expiry,
\* controller change or Raft fault - then the map's entry, if any, is that status)
DoElectApply(i) ==
  /\ i \in 1..Len(pend) /\ exists /\ pend[i].k = "elect"
  /\ LET r == pend[i] IN
     IF RecheckElect /\ Stale(r.l, r.e) THEN
       /\ obs' = [a |-> "ElectApply", err |-> "stale"]
       /\ UNCHANGED <<exists, isr, pisr, leader, lepoch, pepoch, e0, fo, armed, good>>
       /\ taint' = TaintAfterApply(r.l, r.e)     \* unchanged
     ELSE IF Cardinality(isr) <= 1 \/ Followers = {} THEN
       /\ obs' = [a |-> "ElectApply", err |-> "nocand"]
       /\ UNCHANGED pvars
       /\ fo' = NoFo /\ armed' = FALSE /\ good' = good
       /\ taint' = TaintAfterApply(r.l, r.e)
     ELSE
       /\ \E n \in Followers : leader' = n
       /\ NewIdx(pepoch', pepoch) /\ lepoch' = pepoch'
       /\ UNCHANGED <<exists, isr, pisr, e0>>
       /\ fo' = NoFo /\ armed' = FALSE /\ good' = {}
       /\ obs' = [a |-> "ElectApply", err |-> ""]
       /\ taint' = TaintAfterApply(r.l, r.e)
  /\ pend' = SubSeq(pend, 1, i - 1) \o SubSeq(pend, i + 1, Len(pend))

\* the expiry timer fires: more than ReplicaMaxLeaderTimeout passed without a report
DoExpire ==
  /\ fo' = IF fo.on /\ armed THEN NoFo ELSE fo
  /\ armed' = IF fo.on /\ armed THEN FALSE ELSE armed
  /\ good' = {}
  /\ obs' = [a |-> "Expire", err |-> ""]
  /\ UNCHANGED <<pvars, pend, taint>>

\* metadataAPI.ShrinkISR(replica r, leader l, epoch e) -> Raft SHRINK_ISR -> RemoveFromISR
\* (domain: r is a replica and not the leader named in the request)
DoShrinkISR(r, l, e, ok) ==
  IF Stale(l, e) THEN RefuseStale("Shrink")
  ELSE IF ~ok THEN Refuse("Shrink", "raft")
  ELSE
    /\ isr' = isr \ {r} /\ pisr' = isr'
    /\ NewIdx(pepoch', pepoch)
    /\ UNCHANGED <<exists, leader, lepoch, e0, fo, armed, pend, taint>>
    /\ good' = GoodAfterISR
    /\ obs' = [a |-> "Shrink", err |-> ""]

\* metadataAPI.ExpandISR(replica r, leader l, epoch e) -> Raft EXPAND_ISR -> AddToISR
\* (domain: r is a replica)
DoExpandISR(r, l, e, ok) ==
  IF Stale(l, e) THEN RefuseStale("Expand")
  ELSE IF ~ok THEN Refuse("Expand", "raft")
  ELSE
    /\ isr' = isr \cup {r} /\ pisr' = isr'
    /\ NewIdx(pepoch', pepoch)
    /\ UNCHANGED <<exists, leader, lepoch, e0, fo, armed, pend, taint>>
    /\ good' = GoodAfterISR
    /\ obs' = [a |-> "Expand", err |-> ""]

\* Overlapping ISR requests: first half of ShrinkISR / ExpandISR (partition lookup
\* and the (leader, epoch) check; k = "shrink" | "expand") ...
DoISRCheck(k, r, l, e) ==
  IF Stale(l, e) THEN RefuseStale("ISRCheck")
  ELSE /\ pend' = Append(pend, [k |-> k, w |-> r, l |-> l, e |-> e])
       /\ obs' = [a |-> "ISRCheck", err |-> ""]
       /\ UNCHANGED <<exists, isr, pisr, leader, lepoch, pepoch, e0, fo, armed, good, taint>>

\* ... and the second half, arbitrarily later: the Raft proposal, whose
\* precondition compares the pair AGAIN, atomically with the other metadata
\* changes (fix "ISR changes overtaken by a failover are refused"; as shipped the
\* entry was proposed unconditionally: a shrink request of the deposed leader
\* could still remove a replica - even the NEW leader - from the in-sync set).
\* (domain: the stream still exists)
DoISRApply(i) ==
  /\ i \in 1..Len(pend) /\ exists /\ pend[i].k \in {"shrink", "expand"}
  /\ LET r == pend[i] IN
     IF RecheckISR /\ Stale(r.l, r.e) THEN
       /\ obs' = [a |-> "ISRApply", err |-> "stale"]
       /\ UNCHANGED <<exists, isr, pisr, leader, lepoch, pepoch, e0, fo, armed, good>>
       /\ taint' = TaintAfterApply(r.l, r.e)     \* unchanged
     ELSE
       /\ isr' = IF r.k = "shrink" THEN isr \ {r.w} ELSE isr \cup {r.w}
       /\ pisr' = isr'
       /\ NewIdx(pepoch', pepoch)
       /\ UNCHANGED <<exists, leader, lepoch, e0, fo, armed>>
       /\ good' = GoodAfterISR
       /\ obs' = [a |-> "ISRApply", err |-> ""]
       /\ taint' = TaintAfterApply(r.l, r.e)
  /\ pend' = SubSeq(pend, 1, i - 1) \o SubSeq(pend, i + 1, Len(pend))

\* the controller loses the metadata leadership (and regains it): LostLeadership
\* cancels every timer and forgets every failover status
DoLoseControllership ==
  /\ fo' = NoFo /\ armed' = FALSE /\ good' = {}
  /\ obs' = [a |-> "Lose", err |-> ""]
  /\ UNCHANGED <<pvars, pend, taint>>

\* The partition object is rebuilt from its persisted form.  Two routes lead there:
\*   how = "resume"   pause + resume of the stream (PAUSE_STREAM / RESUME_STREAM ->
\*                    replacePartition -> newPartition(old.Partition))
\*   how = "restore"  the controller's FSM is handed a snapshot of its own state
\*                    (Server.Snapshot -> fsmSnapshot.Persist -> Server.Restore:
\*                    metadata.Reset, applyCreateStream per stream of the snapshot,
\*                    finishRestore) - what a restart behind a Raft snapshot and an
\*                    InstallSnapshot do
\* Either way the in-sync set is what was persisted, leader and both epochs are what
\* the protobuf carried, and the failover status of the old object is out of reach
\* (the map is keyed by the object; Reset also cancels every status).  The abstract
\* effect is the same; `how` selects the code path that is bound.
\* (domain: no request is inside ReportLeader / ShrinkISR / ExpandISR)
DoRebuild(how) ==
  IF ~exists THEN Refuse("Rebuild", "nostream")
  ELSE
    /\ how \in {"resume", "restore"}
    /\ isr' = pisr /\ pisr' = pisr
    /\ fo' = NoFo /\ armed' = FALSE /\ good' = good
    /\ obs' = [a |-> "Rebuild", err |-> ""]
    /\ UNCHANGED <<exists, leader, lepoch, pepoch, e0, pend, taint>>

\* DeleteStream -> Raft DELETE_STREAM -> removeStream
\* (domain: no report is inside ReportLeader)
DoRemoveStream ==
  IF ~exists THEN Refuse("Remove", "nostream")
  ELSE
    /\ exists' = FALSE
    /\ fo' = NoFo /\ armed' = FALSE /\ good' = {}
    /\ obs' = [a |-> "Remove", err |-> ""]
    /\ UNCHANGED <<isr, pisr, leader, lepoch, pepoch, e0, pend, taint>>

-----------------------------------------------------------------------------
(* What property C07 demands *)

\* the leader is in the in-sync set, which is a subset of the replicas
C07_LeaderInISR == exists => (leader \in isr /\ isr \subseteq Replicas)

NoChange == /\ leader' = leader /\ lepoch' = lepoch /\ pepoch' = pepoch
            /\ isr' = isr /\ exists' = exists

\* every step: epochs only increase; one leader per leader epoch (the leader
\* changes only together with a larger leader epoch and a leader epoch never
\* moves without ... a CHANGE_LEADER); a changed in-sync set carries a larger
\* partition epoch
P_Epochs ==
  /\ lepoch' >= lepoch /\ pepoch' >= pepoch
  /\ leader' # leader => (lepoch' > lepoch /\ pepoch' > pepoch)
  /\ lepoch' = lepoch => leader' = leader
  /\ isr' # isr => pepoch' > pepoch

\* the in-sync followers that reported the current (leader, epoch) in this
\* window, the present report included
ValidWitnesses(w) == (good \cup {w}) \cap Followers

P_ReportLeader(w, l, e) ==
  /\ P_Epochs
  /\ IF Stale(l, e) THEN obs'.err # "" /\ NoChange
     ELSE \* a report never adds to the in-sync set
          /\ isr' \subseteq isr /\ exists' = exists
          \* no election: nothing moves
          /\ lepoch' = lepoch => (pepoch' = pepoch /\ isr' = isr)
          \* an election (a new leader epoch):
          /\ lepoch' # lepoch =>
               \* chosen from the current in-sync set, never the reported leader
               /\ leader' \in isr /\ leader' # l
               \* only after more than half of the in-sync followers reported
               /\ 2 * Cardinality(ValidWitnesses(w)) > Cardinality(Followers)

\* a request that is inside ReportLeader takes effect when it reaches
\* failoverStatus.report: if the pair it named is stale by then it must not
\* change anything; otherwise it is judged like any report
P_ReportApply(i) ==
  LET r == pend[i] IN
  /\ P_Epochs
  /\ IF Stale(r.l, r.e) THEN NoChange
     ELSE /\ isr' \subseteq isr /\ exists' = exists
          /\ lepoch' = lepoch => (pepoch' = pepoch /\ isr' = isr)
          /\ lepoch' # lepoch =>
               /\ leader' \in isr /\ leader' # r.l
               /\ 2 * Cardinality(ValidWitnesses(r.w)) > Cardinality(Followers)

\* the same for an ISR request that is inside ShrinkISR / ExpandISR
P_ISRApply(i) ==
  LET r == pend[i] IN
  /\ P_Epochs
  /\ IF Stale(r.l, r.e) THEN NoChange
     ELSE /\ leader' = leader /\ lepoch' = lepoch /\ exists' = exists
          /\ IF r.k = "shrink" THEN isr' \subseteq isr /\ isr \ isr' \subseteq {r.w}
                               ELSE isr \subseteq isr' /\ isr' \ isr \subseteq {r.w}

\* an election is STARTED (the request parks behind the comparison inside
\* electNewPartitionLeader) only with the quorum; otherwise the step is a report
P_ElectCheck(w, l, e) ==
  /\ P_ReportLeader(w, l, e)
  /\ Len(pend') > Len(pend) => 2 * Cardinality(ValidWitnesses(w)) > Cardinality(Followers)

\* ... and takes effect when its proposal is made: if the pair it is about is stale
\* by then it must not change anything; otherwise the new leader comes from the
\* current in-sync set and is not the reported one (the quorum was judged when the
\* election started)
P_ElectApply(i) ==
  LET r == pend[i] IN
  /\ P_Epochs
  /\ IF Stale(r.l, r.e) THEN NoChange
     ELSE /\ isr' = isr /\ exists' = exists
          /\ lepoch' = lepoch => pepoch' = pepoch
          /\ lepoch' # lepoch => (leader' \in isr /\ leader' # r.l)

P_ReportCheck(w, l, e) == NoChange /\ (Stale(l, e) => obs'.err # "")

P_ShrinkISR(r, l, e) ==
  /\ P_Epochs
  /\ IF Stale(l, e) THEN obs'.err # "" /\ NoChange
     ELSE /\ leader' = leader /\ lepoch' = lepoch /\ exists' = exists
          /\ isr' \subseteq isr /\ isr \ isr' \subseteq {r}

P_ExpandISR(r, l, e) ==
  /\ P_Epochs
  /\ IF Stale(l, e) THEN obs'.err # "" /\ NoChange
     ELSE /\ leader' = leader /\ lepoch' = lepoch /\ exists' = exists
          /\ isr \subseteq isr' /\ isr' \ isr \subseteq {r}

\* timer expiry, controller change, rebuild of the partition object from its
\* persisted form: the replicated partition state is untouched
P_Quiet == NoChange
P_Rebuild == NoChange
\* a removed stream: nothing is demanded of what is left of it; a refused removal changes nothing
P_RemoveStream == exists' => NoChange

-----------------------------------------------------------------------------
(* Mechanism invariants (implementation level) *)

\* the persisted copy of the in-sync set is the in-sync set
PersistedISR == exists => pisr = isr
TypeOK == /\ exists \in BOOLEAN /\ armed \in BOOLEAN
          /\ fo.on \in BOOLEAN /\ fo.wit \subseteq Reporters
          /\ lepoch <= pepoch /\ e0 <= lepoch
\* a status that is kept has an armed timer (so that it cannot go stale), and
\* there is none for a partition that does not exist
StatusLive == ~taint => ((fo.on => ((armed \/ ElectParked) /\ exists)) /\ (~fo.on => fo.wit = {}))
\* the recorded witnesses are what the property counts
WitnessesAreGood == ~taint => (fo.on => fo.wit \subseteq good)
NoTaint == ~taint
=============================================================================
