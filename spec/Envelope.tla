------------------------------ MODULE Envelope ------------------------------
(* C14 - no NATS payload can crash or confuse the server.                   *)
(*                                                                          *)
(* A decision-table transcription, not a behavioural model: the functions   *)
(* below are `checkEnvelope`, `unmarshalEnvelope`, `UnmarshalReplication-   *)
(* Response` (server/protocol/envelope.go) and `getMessage` / `natsToProto- *)
(* Message` (server/partition.go) transcribed branch by branch over an      *)
(* ABSTRACT byte string.  The small state machine at the end is the stream  *)
(* subject of a running server: every NATS message that arrives is stored,  *)
(* either decoded or verbatim.                                              *)
(*                                                                          *)
(* Abstract byte string (what the code can distinguish):                    *)
(*   len        number of bytes                                             *)
(*   magicOK    bytes 0..3 = B9 0E 43 B4                                    *)
(*   verOK      byte 4 = 0                                                  *)
(*   hl         byte 5, the HeaderLen field                                 *)
(*   crcFlag    bit 0 of byte 6                                             *)
(*   otherFlags some other bit of byte 6 set                                *)
(*   typeOK     byte 7 = the type the decoder expects                       *)
(*   crcOK      bytes 8..11 = CRC-32C of data[hl..] (meaningful iff         *)
(*              12 <= hl <= len)                                            *)
(* and, for the protobuf layer, pbOK: data[p..] parses as the expected      *)
(* protobuf message, p being the payload position (PayloadPos).             *)
(* Fields that lie beyond `len` do not exist in the concrete bytes; the     *)
(* product still enumerates them (harmless redundancy).                     *)
EXTENDS Integers, Sequences, FiniteSets

CONSTANTS Lens,          \* set of data lengths
          HLs,           \* set of HeaderLen byte values (subset of 0..255)
          BoundsChecked  \* TRUE: checkEnvelope as repaired (fix: commit); FALSE: as pinned

MinHeader == 8           \* envelopeMinHeaderLen
CrcHeader == 12          \* envelopeMinHeaderLen + 4
ReplFixed == 16          \* leader epoch + HW in a replication response

Inputs == [len : Lens, magicOK : BOOLEAN, verOK : BOOLEAN, hl : HLs, crcFlag : BOOLEAN,
           otherFlags : BOOLEAN, typeOK : BOOLEAN, crcOK : BOOLEAN]

Decoders == {"pb", "repl"}   \* the 14 protobuf decoders behave alike; UnmarshalReplicationResponse differs

-----------------------------------------------------------------------------
(* what the envelope documentation calls a well-formed envelope of the      *)
(* expected type (documentation/envelope_protocol.md)                       *)
HeaderInRange(i) == MinHeader <= i.hl /\ i.hl <= i.len
Valid(i) ==
  /\ i.len >= MinHeader /\ i.magicOK /\ i.verOK
  /\ HeaderInRange(i)
  /\ i.typeOK
  /\ i.crcFlag => (i.hl = CrcHeader /\ i.crcOK)

\* where the harness puts the payload message: at hl when hl is a possible
\* payload offset, else right after the minimal header
PayloadPos(i) == IF HeaderInRange(i) THEN i.hl ELSE MinHeader
PayloadLen(i) == IF i.len >= PayloadPos(i) THEN i.len - PayloadPos(i) ELSE 0
\* a protobuf message of exactly one byte does not exist, an empty one is always valid
PbFeasible(i, pbOK) == IF pbOK THEN PayloadLen(i) # 1 ELSE PayloadLen(i) >= 1

\* a marshalled message of n payload bytes, as marshalEnvelope writes it
Encoded(n, crcAny) == [len |-> MinHeader + n, magicOK |-> TRUE, verOK |-> TRUE, hl |-> MinHeader,
                       crcFlag |-> FALSE, otherFlags |-> FALSE, typeOK |-> TRUE, crcOK |-> crcAny]
Canonical(i) == Valid(i) /\ i.hl = MinHeader /\ ~i.crcFlag /\ ~i.otherFlags

-----------------------------------------------------------------------------
(* outcomes *)
Err(why)   == [k |-> "Err",   why |-> why, off |-> -1, n |-> -1]
Crash(why) == [k |-> "Crash", why |-> why, off |-> -1, n |-> -1]
Ok(off, n) == [k |-> "Ok",    why |-> "",  off |-> off, n |-> n]

(* checkEnvelope, branch by branch, in code order.  "Crash" is where the Go *)
(* expression indexes out of range: `payload = data[headerLen:]` is         *)
(* evaluated in the var block BEFORE any comparison of headerLen.           *)
CheckEnvelope(i) ==
  IF i.len < MinHeader THEN Err("short")
  ELSE IF ~i.magicOK THEN Err("magic")
  ELSE IF ~i.verOK THEN Err("version")
  ELSE IF BoundsChecked /\ ~HeaderInRange(i) THEN Err("headerlen")
  ELSE IF ~BoundsChecked /\ i.hl > i.len THEN Crash("data[headerLen:]")
  ELSE IF ~i.typeOK THEN Err("type")
  ELSE IF i.crcFlag /\ i.hl # CrcHeader THEN Err("crcsize")
  ELSE IF i.crcFlag /\ ~i.crcOK THEN Err("crc")
  ELSE Ok(i.hl, i.len - i.hl)

(* unmarshalEnvelope / UnmarshalReplicationResponse.  `same`: the decoded   *)
(* value is the message that was put at the payload position.               *)
UErr(why)   == [k |-> "Err", why |-> why, same |-> FALSE]
UCrash(why) == [k |-> "Crash", why |-> why, same |-> FALSE]
UOk         == [k |-> "Ok", why |-> "", same |-> TRUE]

Unmarshal(dec, i, pbOK) ==
  LET ce == CheckEnvelope(i) IN
  IF ce.k = "Crash" THEN UCrash(ce.why)
  ELSE IF ce.k = "Err" THEN UErr(ce.why)
  ELSE IF dec = "repl" THEN (IF ce.n < ReplFixed THEN UErr("notenough") ELSE UOk)
  ELSE IF ~pbOK THEN UErr("pb")
  ELSE [k |-> "Ok", why |-> "", same |-> ce.off = PayloadPos(i)]

(* natsToProtoMessage: an envelope of type Publish that decodes becomes the *)
(* message it carries, anything else is an opaque value.  In both cases the *)
(* server records the NATS subject and reply subject the bytes arrived with *)
(* in two headers it owns ("subject", "reply"); `same` includes that these  *)
(* name the real subject / reply - an envelope whose own header map uses    *)
(* these names must not be able to dictate them.  Valid payloads are built  *)
(* in three shapes: plain, with a header entry without value, with a header *)
(* entry named like a server-owned header.                                  *)
Store(i, pbOK) ==
  LET u == Unmarshal("pb", i, pbOK) IN
  IF u.k = "Crash" THEN [k |-> "Crash", same |-> FALSE]
  ELSE IF u.k = "Ok" THEN [k |-> "msg", same |-> u.same]
  ELSE [k |-> "raw", same |-> TRUE]

-----------------------------------------------------------------------------
(* What the property statement demands of the outcomes (P level).           *)
(* Deliberately silent on WHICH error is reported and on whether a valid    *)
(* but non-canonical envelope (CRC, longer header, unknown flag bits) is    *)
(* accepted; a marshalled message (Canonical) must decode to itself.        *)
P_CheckEnvelope(o, i) ==
  /\ o.k # "Crash"
  /\ o.k = "Ok" => (Valid(i) /\ o.off = i.hl /\ o.n = i.len - i.hl)
  /\ (i.len >= CrcHeader /\ i.crcFlag /\ ~i.crcOK) => o.k # "Ok"      \* checksum mismatch is rejected

P_Unmarshal(o, dec, i, pbOK) ==
  /\ o.k # "Crash"
  /\ o.k = "Ok" => (Valid(i) /\ o.same)
  /\ (o.k = "Ok" /\ dec = "pb") => pbOK
  /\ (o.k = "Ok" /\ dec = "repl") => i.len - i.hl >= ReplFixed
  /\ (Canonical(i) /\ (IF dec = "pb" THEN pbOK ELSE i.len - i.hl >= ReplFixed)) => o.k = "Ok"   \* round trip

P_Store(o, i, pbOK) ==
  /\ o.k # "Crash"
  /\ o.same                                    \* decoded fields, or the bytes verbatim
  /\ o.k = "msg" => (Valid(i) /\ pbOK)
  /\ (Canonical(i) /\ pbOK) => o.k = "msg"

-----------------------------------------------------------------------------
(* The stream subject of a running server.                                  *)
VARIABLES up,      \* the server process is alive
          stored,  \* the stream's log: sequence of [k : {"msg","raw"}, id]
          obs      \* result of the last call

vars == <<up, stored, obs>>

Init == up = TRUE /\ stored = <<>> /\ obs = [a |-> "Open"]

\* a pure decoder call (protocol.Unmarshal*): no server state involved
DoDecode(dec, i, pbOK) ==
  /\ obs' = [a |-> "Decode", ce |-> CheckEnvelope(i), um |-> Unmarshal(dec, i, pbOK)]
  /\ UNCHANGED <<up, stored>>

\* marshal a message with n payload bytes, then decode it
DoRoundTrip(dec, n) ==
  /\ obs' = [a |-> "RoundTrip", um |-> Unmarshal(dec, Encoded(n, TRUE), TRUE)]
  /\ UNCHANGED <<up, stored>>

\* a NATS client publishes the bytes on the stream's subject; id names the bytes.  Nothing in the property
\* depends on HOW messages arrive: one at a time or in a burst (several pending at once), on an ordinary stream or
\* on one with optimistic concurrency control (envelopes without expected offset) - the harness drives these
\* arrival patterns with the same action, as it does envelopes with very many headers.
DoPublishRaw(i, pbOK, id) ==
  /\ up
  /\ LET s == Store(i, pbOK) IN
     IF s.k = "Crash"
     THEN up' = FALSE /\ stored' = stored /\ obs' = [a |-> "PublishRaw", k |-> "Crash", same |-> FALSE]
     ELSE /\ up' = TRUE
          /\ stored' = Append(stored, [k |-> s.k, id |-> id])
          /\ obs' = [a |-> "PublishRaw", k |-> s.k, same |-> s.same]

P_PublishRaw(i, pbOK, id) ==
  /\ up'
  /\ Len(stored') = Len(stored) + 1
  /\ SubSeq(stored', 1, Len(stored)) = stored          \* nothing stored earlier is disturbed
  /\ stored'[Len(stored')].id = id
  /\ stored'[Len(stored')].k \in {"msg", "raw"}
  /\ P_Store([k |-> stored'[Len(stored')].k, same |-> obs'.same], i, pbOK)

\* a consumer subscribes from the start of the stream and receives what is stored
DoReadBack ==
  /\ up
  /\ obs' = [a |-> "ReadBack", k |-> "ok", same |-> TRUE, got |-> stored]
  /\ UNCHANGED <<up, stored>>

P_ReadBack == up' /\ stored' = stored /\ obs'.k = "ok" /\ obs'.same /\ obs'.got = stored

(* Internal RPC subjects (metadata propagation, server info, partition      *)
(* status, partition notification, replication request, leader-epoch        *)
(* offset request): their NATS handlers decode the bytes with the           *)
(* Unmarshal* of their type and then read fields of the decoded request.    *)
(* Whatever arrives - malformed envelopes of the table above or well-formed *)
(* requests with missing sub-messages / unexpected ids (`shape`) - the      *)
(* server stays up and the stream's log is untouched.                       *)
(* Request shapes of the propagate subject (PropagatedRequest): 0 empty,    *)
(* 1..13 Op = shape without any sub-message, 14 CreateStreamOp without      *)
(* Stream, 15 empty ShrinkISROp, 16..136 Op = X carrying the (empty)        *)
(* sub-message of operation Y for every pair (X, Y) of the 11 operations    *)
(* (matched and MISMATCHED).  The other subjects use shape modulo 2 / 4.    *)
(* 137..150 well-formed operations whose numeric fields take boundary values *)
(* (replication factor / partition id / epochs: negative, zero, min, max).    *)
NumShapes == 16 + 11 * 11 + 14
InternalHandlers == {"propagate", "serverinfo", "partstatus", "notify", "replreq", "leaderoffset"}

DoInternal(h, i, pbOK, shape) ==
  /\ up
  /\ up' = (Unmarshal("pb", i, pbOK).k # "Crash")
  /\ stored' = stored
  /\ obs' = [a |-> "Internal", k |-> "sent", same |-> TRUE]

P_Internal == up' /\ stored' = stored

P_Same == UNCHANGED <<up, stored>>

\* state invariant of the running server
C14_ServerUp == up

TypeOK ==
  /\ up \in BOOLEAN
  /\ \A j \in 1..Len(stored) : stored[j].k \in {"msg", "raw"}
=============================================================================
