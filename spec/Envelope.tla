------------------------------ MODULE Envelope ------------------------------
(* C14 - no NATS payload can crash or confuse the server.                   *)
(*                                                                          *)
(* A decision-table transcription, not a behavioural model: the functions   *)
(* below are `checkEnvelope`, `unmarshalEnvelope`, `UnmarshalReplication-   *)
(* Response` (server/protocol/envelope.go) and `getMessage` / `natsToProto- *)
(* Message` (server/partition.go) transcribed branch by branch over an      *)
(* ABSTRACT byte string.  The small state machine at the end is the stream  *)
(* subject of a running server: every NATS message that arrives is stored,  *)
(* either decoded or verbatim.                                              *)
(*                                                                          *)
(* Abstract byte string (what the code can distinguish):                    *)
(*   len        number of bytes                                             *)
(*   magicOK    bytes 0..3 = B9 0E 43 B4                                    *)
(*   verOK      byte 4 = 0                                                  *)
(*   hl         byte 5, the HeaderLen field                                 *)
(*   crcFlag    bit 0 of byte 6                                             *)
(*   otherFlags some other bit of byte 6 set                                *)
(*   typeOK     byte 7 = the type the decoder expects                       *)
(*   crcOK      bytes 8..11 = CRC-32C of data[hl..] (meaningful iff         *)
(*              12 <= hl <= len)                                            *)
(* and, for the protobuf layer, pbOK: data[p..] parses as the expected      *)
(* protobuf message, p being the payload position (PayloadPos).             *)
(* Fields that lie beyond `len` do not exist in the concrete bytes; the     *)
(* product still enumerates them (harmless redundancy).                     *)
EXTENDS Integers, Sequences, FiniteSets

CONSTANTS Lens,          \* set of data lengths
          HLs,           \* set of HeaderLen byte values (subset of 0..255)
          BoundsChecked  \* TRUE: checkEnvelope as repaired (fix: commit); FALSE: as pinned

MinHeader == 8           \* envelopeMinHeaderLen
CrcHeader == 12          \* envelopeMinHeaderLen + 4
ReplFixed == 16          \* leader epoch + HW in a replication response

Inputs == [len : Lens, magicOK : BOOLEAN, verOK : BOOLEAN, hl : HLs, crcFlag : BOOLEAN,
           otherFlags : BOOLEAN, typeOK : BOOLEAN, crcOK : BOOLEAN]

Decoders == {"pb", "repl"}   \* the 14 protobuf decoders behave alike; UnmarshalReplicationResponse differs

-----------------------------------------------------------------------------
(* what the envelope documentation calls a well-formed envelope of the      *)
(* expected type (documentation/envelope_protocol.md)                       *)
HeaderInRange(i) == MinHeader <= i.hl /\ i.hl <= i.len
Valid(i) ==
  /\ i.len >= MinHeader /\ i.magicOK /\ i.verOK
  /\ HeaderInRange(i)
  /\ i.typeOK
  /\ i.crcFlag => (i.hl = CrcHeader /\ i.crcOK)

\* where the harness puts the payload message: at hl when hl is a possible
\* payload offset, else right after the minimal header
PayloadPos(i) == IF HeaderInRange(i) THEN i.hl ELSE MinHeader
PayloadLen(i) == IF i.len >= PayloadPos(i) THEN i.len - PayloadPos(i) ELSE 0
\* a protobuf message of exactly one byte does not exist, an empty one is always valid
PbFeasible(i, pbOK) == IF pbOK THEN PayloadLen(i) # 1 ELSE PayloadLen(i) >= 1

\* a marshalled message of n payload bytes, as marshalEnvelope writes it
Encoded(n, crcAny) == [len |-> MinHeader + n, magicOK |-> TRUE, verOK |-> TRUE, hl |-> MinHeader,
                       crcFlag |-> FALSE, otherFlags |-> FALSE, typeOK |-> TRUE, crcOK |-> crcAny]
Canonical(i) == Valid(i) /\ i.hl = MinHeader /\ ~i.crcFlag /\ ~i.otherFlags

-----------------------------------------------------------------------------
(* outcomes *)
Err(why)   == [k |-> "Err",   why |-> why, off |-> -1, n |-> -1]
Crash(why) == [k |-> "Crash", why |-> why, off |-> -1, n |-> -1]
Ok(off, n) == [k |-> "Ok",    why |-> "",  off |-> off, n |-> n]

(* checkEnvelope, branch by branch, in code order.  "Crash" is where the Go *)
(* expression indexes out of range: `payload = data[headerLen:]` is         *)
(* evaluated in the var block BEFORE any comparison of headerLen.           *)
CheckEnvelope(i) ==
  IF i.len < MinHeader THEN Err("short")
  ELSE IF ~i.magicOK THEN Err("magic")
  ELSE IF ~i.verOK THEN Err("version")
  ELSE IF BoundsChecked /\ ~HeaderInRange(i) THEN Err("headerlen")
  ELSE IF ~BoundsChecked /\ i.hl > i.len THEN Crash("data[headerLen:]")
  ELSE IF ~i.typeOK THEN Err("type")
  ELSE IF i.crcFlag /\ i.hl # CrcHeader THEN Err("crcsize")
  ELSE IF i.crcFlag /\ ~i.crcOK THEN Err("crc")
  ELSE Ok(i.hl, i.len - i.hl)

(* unmarshalEnvelope / UnmarshalReplicationResponse.  `same`: the decoded   *)
(* value is the message that was put at the payload position.               *)
UErr(why)   == [k |-> "Err", why |-> why, same |-> FALSE]
UCrash(why) == [k |-> "Crash", why |-> why, same |-> FALSE]
UOk         == [k |-> "Ok", why |-> "", same |-> TRUE]

Unmarshal(dec, i, pbOK) ==
  LET ce == CheckEnvelope(i) IN
  IF ce.k = "Crash" THEN UCrash(ce.why)
  ELSE IF ce.k = "Err" THEN UErr(ce.why)
  ELSE IF dec = "repl" THEN (IF ce.n < ReplFixed THEN UErr("notenough") ELSE UOk)
  ELSE IF ~pbOK THEN UErr("pb")
  ELSE [k |-> "Ok", why |-> "", same |-> ce.off = PayloadPos(i)]

(* natsToProtoMessage: an envelope of type Publish that decodes becomes the *)
(* message it carries, anything else is an opaque value.  In both cases the *)
(* server records the NATS subject and reply subject the bytes arrived with *)
(* in two headers it owns ("subject", "reply"); `same` includes that these  *)
(* name the real subject / reply - an envelope whose own header map uses    *)
(* these names must not be able to dictate them.  Valid payloads are built  *)
(* in three shapes: plain, with a header entry without value, with a header *)
(* entry named like a server-owned header.                                  *)
Store(i, pbOK) ==
  LET u == Unmarshal("pb", i, pbOK) IN
  IF u.k = "Crash" THEN [k |-> "Crash", same |-> FALSE]
  ELSE IF u.k = "Ok" THEN [k |-> "msg", same |-> u.same]
  ELSE [k |-> "raw", same |-> TRUE]

-----------------------------------------------------------------------------
(* What the property statement demands of the outcomes (P level).           *)
(* Deliberately silent on WHICH error is reported and on whether a valid    *)
(* but non-canonical envelope (CRC, longer header, unknown flag bits) is    *)
(* accepted; a marshalled message (Canonical) must decode to itself.        *)
P_CheckEnvelope(o, i) ==
  /\ o.k # "Crash"
  /\ o.k = "Ok" => (Valid(i) /\ o.off = i.hl /\ o.n = i.len - i.hl)
  /\ (i.len >= CrcHeader /\ i.crcFlag /\ ~i.crcOK) => o.k # "Ok"      \* checksum mismatch is rejected

P_Unmarshal(o, dec, i, pbOK) ==
  /\ o.k # "Crash"
  /\ o.k = "Ok" => (Valid(i) /\ o.same)
  /\ (o.k = "Ok" /\ dec = "pb") => pbOK
  /\ (o.k = "Ok" /\ dec = "repl") => i.len - i.hl >= ReplFixed
  /\ (Canonical(i) /\ (IF dec = "pb" THEN pbOK ELSE i.len - i.hl >= ReplFixed)) => o.k = "Ok"   \* round trip

P_Store(o, i, pbOK) ==
  /\ o.k # "Crash"
  /\ o.same                                    \* decoded fields, or the bytes verbatim
  /\ o.k = "msg" => (Valid(i) /\ pbOK)
  /\ (Canonical(i) /\ pbOK) => o.k = "msg"

-----------------------------------------------------------------------------
(* The stream subject of a running server.                                  *)
VARIABLES up,      \* the server process is alive
          stored,  \* the stream's log: sequence of [k : {"msg","raw"}, id]
          obs      \* result of the last call

vars == <<up, stored, obs>>

Init == up = TRUE /\ stored = <<>> /\ obs = [a |-> "Open"]

\* a pure decoder call (protocol.Unmarshal*): no server state involved
DoDecode(dec, i, pbOK) ==
  /\ obs' = [a |-> "Decode", ce |-> CheckEnvelope(i), um |-> Unmarshal(dec, i, pbOK)]
  /\ UNCHANGED <<up, stored>>

\* marshal a message with n payload bytes, then decode it
DoRoundTrip(dec, n) ==
  /\ obs' = [a |-> "RoundTrip", um |-> Unmarshal(dec, Encoded(n, TRUE), TRUE)]
  /\ UNCHANGED <<up, stored>>

\* a NATS client publishes the bytes on the stream's subject; id names the bytes.  Nothing in the property
\* depends on HOW messages arrive: one at a time or in a burst (several pending at once), on an ordinary stream or
\* on one with optimistic concurrency control (envelopes without expected offset) - the harness drives these
\* arrival patterns with the same action, as it does envelopes with very many headers.
DoPublishRaw(i, pbOK, id) ==
  /\ up
  /\ LET s == Store(i, pbOK) IN
     IF s.k = "Crash"
     THEN up' = FALSE /\ stored' = stored /\ obs' = [a |-> "PublishRaw", k |-> "Crash", same |-> FALSE]
     ELSE /\ up' = TRUE
          /\ stored' = Append(stored, [k |-> s.k, id |-> id])
          /\ obs' = [a |-> "PublishRaw", k |-> s.k, same |-> s.same]

P_PublishRaw(i, pbOK, id) ==
  /\ up'
  /\ Len(stored') = Len(stored) + 1
  /\ SubSeq(stored', 1, Len(stored)) = stored          \* nothing stored earlier is disturbed
  /\ stored'[Len(stored')].id = id
  /\ stored'[Len(stored')].k \in {"msg", "raw"}
  /\ P_Store([k |-> stored'[Len(stored')].k, same |-> obs'.same], i, pbOK)

\* a consumer subscribes from the start of the stream and receives what is stored
DoReadBack ==
  /\ up
  /\ obs' = [a |-> "ReadBack", k |-> "ok", same |-> TRUE, got |-> stored]
  /\ UNCHANGED <<up, stored>>

P_ReadBack == up' /\ stored' = stored /\ obs'.k = "ok" /\ obs'.same /\ obs'.got = stored

(* Internal RPC subjects (metadata propagation, server info, partition      *)
(* status, partition notification, replication request, leader-epoch        *)
(* offset request): their NATS handlers decode the bytes with the           *)
(* Unmarshal* of their type and then read fields of the decoded request.    *)
(* Whatever arrives - malformed envelopes of the table above or well-formed *)
(* requests with missing sub-messages / unexpected ids (`shape`) - the      *)
(* server stays up and the stream's log is untouched.                       *)
(* Request shapes of the propagate subject (PropagatedRequest): 0 empty,    *)
(* 1..13 Op = shape without any sub-message, 14 CreateStreamOp without      *)
(* Stream, 15 empty ShrinkISROp, 16..136 Op = X carrying the (empty)        *)
(* sub-message of operation Y for every pair (X, Y) of the 11 operations    *)
(* (matched and MISMATCHED).  The other subjects use shape modulo 2 / 4.    *)
(* 137..150 well-formed operations whose numeric fields take boundary values *)
(* (replication factor / partition id / epochs: negative, zero, min, max).    *)
NumShapes == 16 + 11 * 11 + 14
InternalHandlers == {"propagate", "serverinfo", "partstatus", "notify", "replreq", "leaderoffset"}

DoInternal(h, i, pbOK, shape) ==
  /\ up
  /\ up' = (Unmarshal("pb", i, pbOK).k # "Crash")
  /\ stored' = stored
  /\ obs' = [a |-> "Internal", k |-> "sent", same |-> TRUE]

P_Internal == up' /\ stored' = stored

(* ---- The complete inventory of NATS subjects of a server ----------------- *)
(* Every subscription a server makes on NATS (enumerated from the code:      *)
(* server.go Start / leadershipAcquired, partition.go becomeLeader, raft.go, *)
(* api.go, metadata.go, and the Raft transport of nats-on-a-log), with the   *)
(* situation in which it exists (role) and what arrives there (kind):        *)
(*   stream   a stream subject (DoPublishRaw)                                *)
(*   request  a Liftbridge envelope decoded by a handler that then looks up  *)
(*            the entities the request names                                  *)
(*   reply    the server is the requester: acks on an ack inbox, responses on *)
(*            a reply inbox                                                   *)
(*   foreign  not a Liftbridge envelope (Raft transport connect requests)     *)
(*   fatal    bootstrap-misconfiguration detection: a message from ANOTHER    *)
(*            server is fatal by design - not part of the property            *)
(* pat = the subject with namespace, server id, stream name and numbers       *)
(* replaced by NS, ID, STREAM, N.  The harness records the real subscription  *)
(* list of the embedded NATS server (LivePatterns) and checks/c14.py the      *)
(* subscribe / request call sites of the source (SourceSites): a subject      *)
(* added or dropped later shows up as drift of this table.                    *)
Subjects == [
  stream       |-> [pat |-> "STREAM",                           role |-> "partleader", kind |-> "stream"],
  replreq      |-> [pat |-> "NS.STREAM.N.replicate",            role |-> "partleader", kind |-> "request"],
  leaderoffset |-> [pat |-> "NS.STREAM.N.offset",               role |-> "partleader", kind |-> "request"],
  serverinfo   |-> [pat |-> "NS.raft.metadata.info",            role |-> "always",     kind |-> "request"],
  partstatus   |-> [pat |-> "NS.raft.metadata.status.ID",       role |-> "always",     kind |-> "request"],
  notify       |-> [pat |-> "NS.notify.ID",                     role |-> "always",     kind |-> "request"],
  join         |-> [pat |-> "NS.raft.metadata.join",            role |-> "always",     kind |-> "request"],
  propagate    |-> [pat |-> "NS.raft.metadata.propagate",       role |-> "metaleader", kind |-> "request"],
  raftaccept   |-> [pat |-> "NS.raft.metadata.ID.accept",       role |-> "always",     kind |-> "foreign"],
  bootstrap    |-> [pat |-> "NS.raft.metadata.bootstrap",       role |-> "seed",       kind |-> "fatal"],
  bootreply    |-> [pat |-> "NS.raft.metadata.bootstrap.reply", role |-> "seed",       kind |-> "fatal"],
  ack          |-> [pat |-> "(ack inbox of one Publish call)",  role |-> "call",       kind |-> "reply"],
  ackasync     |-> [pat |-> "NS.ack.X",                         role |-> "session",    kind |-> "reply"],
  inforeply    |-> [pat |-> "(reply inbox of FetchMetadata)",   role |-> "peers",      kind |-> "reply"],
  propreply    |-> [pat |-> "(reply inbox of a propagation)",   role |-> "metafollower", kind |-> "reply"],
  statusreply  |-> [pat |-> "(reply inbox of a status query)",  role |-> "peers",      kind |-> "reply"],
  joinreply    |-> [pat |-> "(reply inbox of a join request)",  role |-> "joining",    kind |-> "reply"],
  replresp     |-> [pat |-> "(reply inbox of a fetch)",         role |-> "follower",   kind |-> "reply"],
  offsetresp   |-> [pat |-> "(reply inbox of an offset query)", role |-> "follower",   kind |-> "reply"]]

\* what a one-node server that leads the metadata group and a stream is subscribed to between calls
LiveRoles == {"always", "seed", "metaleader", "partleader"}
LivePatterns == {Subjects[n].pat : n \in {m \in DOMAIN Subjects : Subjects[m].role \in LiveRoles}}
\* the subscribe / request call sites of the source: file:function:call:count
SourceSites == {"api.go:dispatchAcks:Subscribe:1", "api.go:publishSync:SubscribeSync:1",
                "metadata.go:fetchBrokerInfo:SubscribeSync:1", "metadata.go:propagateRequest:RequestWithContext:1",
                "metadata.go:waitForPartitionLeader:RequestWithContext:1", "partition.go:becomeLeader:QueueSubscribe:1",
                "partition.go:becomeLeader:Subscribe:2", "partition.go:sendLeaderOffsetRequest:Request:1",
                "partition.go:sendReplicationRequest:Request:1", "raft.go:createRaftNode:Subscribe:1",
                "raft.go:detectBootstrapMisconfig:Subscribe:2", "raft.go:setupMetadataRaft:Request:1",
                "server.go:Start:Subscribe:3", "server.go:leadershipAcquired:QueueSubscribe:1"}
\* the subjects the live part feeds (DoSubject); the stream subject is DoPublishRaw.  Not fed: the two
\* bootstrap subjects (fatal by design) and the reply inboxes that only exist with a second server.
FedSubjects == {"replreq", "leaderoffset", "serverinfo", "partstatus", "notify", "join", "propagate", "raftaccept",
                "ack", "ackasync"}

(* Entities a well-formed request names, by how they relate to what exists   *)
(* on the receiving server: a stream that is absent / the empty name / a     *)
(* stream that exists; a partition id that is the first / last of that       *)
(* stream, the first id beyond it (count), negative, the extreme int32       *)
(* values; a server id that is the receiver itself / unknown / empty; a      *)
(* leader epoch that is zero / the current one / another / the maximum.      *)
(* For acks `e` is the error code class: OK / a known error / an unknown     *)
(* code / the extreme value.                                                  *)
StreamRefs  == {"absent", "empty", "present"}
PartRefs    == {"first", "last", "count", "neg", "max", "min"}
ReplicaRefs == {"self", "unknown", "empty"}
EpochRefs   == {"zero", "current", "other", "max"}
PartOps     == {"shrink", "expand", "report", "pause", "resume", "readonly"}   \* propagated operations that name a partition
NoEnt == [op |-> "none", s |-> "absent", p |-> "first", r |-> "self", e |-> "zero"]
InRange(x) == x.s = "present" /\ x.p \in {"first", "last"}
\* the dimensions a handler reads; the others stay at their default.  Propagated operations that would
\* legitimately change the stream under test (an existing partition paused, made read-only, its leader
\* reported) are left out: in range only ISR changes naming an unknown replica.
EntsOf(h) ==
  CASE h \in {"notify", "partstatus"} -> {[NoEnt EXCEPT !.s = s, !.p = p] : s \in StreamRefs, p \in PartRefs}
    [] h = "serverinfo" -> {[NoEnt EXCEPT !.r = r] : r \in ReplicaRefs}
    [] h = "replreq" -> {[NoEnt EXCEPT !.r = r, !.e = e] : r \in ReplicaRefs, e \in EpochRefs}
    [] h = "leaderoffset" -> {[NoEnt EXCEPT !.e = e] : e \in EpochRefs}
    [] h \in {"ack", "ackasync"} -> {[NoEnt EXCEPT !.s = s, !.e = e] : s \in StreamRefs, e \in EpochRefs}
    [] h = "propagate" -> {x \in [op : PartOps, s : {"absent", "present"}, p : PartRefs, r : {"unknown"}, e : {"zero", "current"}] :
                             /\ InRange(x) => x.op \in {"shrink", "expand"}
                             /\ ~InRange(x) => x.e = "zero"}
                          \cup {NoEnt}                                        \* NoEnt: the empty request
                          \* an entity that exists created again, one that does not exist deleted
                          \cup {[NoEnt EXCEPT !.op = "create", !.s = "present"], [NoEnt EXCEPT !.op = "delete"]}
                          \* consumer-group operations: s = the stream a joining consumer names / the group a leaving or
                          \* reporting consumer names (absent, present); r = the consumer (a member, unknown, empty id);
                          \* e = the coordinator epoch a report names
                          \cup {[NoEnt EXCEPT !.op = o, !.s = s, !.r = r] : o \in {"joingroup", "leavegroup"}, s \in {"absent", "present"}, r \in ReplicaRefs}
                          \cup {[NoEnt EXCEPT !.op = "reportcoord", !.s = s, !.r = r, !.e = e] :
                                   s \in {"absent", "present"}, r \in ReplicaRefs, e \in {"zero", "current", "max"}}
    [] OTHER -> {NoEnt}          \* join: only the receiver's own id (anything else legitimately changes the cluster)

\* the lookup a handler makes succeeds
Resolves(x) == InRange(x)

\* what comes back, as far as the code fixes it ("resp" = a response of the subject's response type).
\* A late answer is recorded as "none" by the harness, hence the one-sided conformance below.
Reply(h, i, pbOK, x) ==
  LET ok == Unmarshal("pb", i, pbOK).k = "Ok" IN
  CASE Subjects[h].kind = "foreign" -> "any"
    [] h = "ack" -> IF ok THEN "ack" ELSE "error"        \* the Publish call returns the ack / fails
    [] ~ok -> "none"
    [] h = "ackasync" -> IF x.e = "zero" THEN "ack" ELSE "error"
    [] h = "serverinfo" -> IF x.r = "self" /\ PayloadLen(i) > 0 THEN "none" ELSE "resp"   \* no payload = the empty id
    [] h = "partstatus" -> IF Resolves(x) THEN "exists" ELSE "missing"
    [] h \in {"notify", "replreq"} -> "none"
    [] h = "propagate" /\ x.op = "none" -> "none"          \* the empty request names CREATE_STREAM without its payload: dropped
    [] OTHER -> "resp"

DoSubject(h, i, pbOK, x) ==
  /\ up
  /\ up' = (Unmarshal("pb", i, pbOK).k # "Crash")
  /\ stored' = stored
  /\ obs' = [a |-> "Subject", k |-> "sent", same |-> TRUE, reply |-> Reply(h, i, pbOK, x)]

\* conformance of a recorded step (one-sided in the reply: timing can only lose an answer)
SubjectConforms(h, i, pbOK, x) ==
  /\ up' = (Unmarshal("pb", i, pbOK).k # "Crash")
  /\ stored' = stored
  /\ h \in FedSubjects /\ x \in EntsOf(h)
  /\ LET r == Reply(h, i, pbOK, x) IN r = "any" \/ obs'.reply \in {"none", r}

\* property level: the server stays up, the stream's log is untouched, and bytes that are not a
\* well-formed ack are never handed to a publisher as its ack
P_Subject(h, i, pbOK) ==
  /\ P_Internal
  /\ (h \in {"ack", "ackasync"} /\ obs'.reply = "ack") => (Valid(i) /\ pbOK)

P_Same == UNCHANGED <<up, stored>>

\* state invariant of the running server
C14_ServerUp == up

TypeOK ==
  /\ up \in BOOLEAN
  /\ \A j \in 1..Len(stored) : stored[j].k \in {"msg", "raw"}
=============================================================================
