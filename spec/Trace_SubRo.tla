---------------------------- MODULE Trace_SubRo ----------------------------
(* Verdict on subscriptions recorded from a real one-node server (C10's     *)
(* lock-step driver, harness/server/c10) for property C03 at the subscriber *)
(* level.  Every line carries the partition state after the step (log, HW,  *)
(* read-only) and what the subscription of the step received (obs.got) and  *)
(* how it stopped (obs.st: "wait" = its loop blocks at the HW, "more" = the *)
(* subscriber stopped receiving, otherwise the gRPC status that ended it).  *)
(*   C03_Delivery      received offsets are consecutive from the position   *)
(*                     and never above the HW                               *)
(*   C03_HWMonotone    the HW never moves backwards                         *)
(*   C03_SubscriptionEnd  a subscription without a stop position is ended   *)
(*                     only with "end of read-only partition", only on a    *)
(*                     partition that was made read-only, and only after it *)
(*                     received the whole log (HW = log end): committed     *)
(*                     later or not, nothing it was positioned before is    *)
(*                     withheld                                             *)
(* "wait" is never judged (it is observed with a grace period).             *)
EXTENDS Integers, Sequences, TLC, Json

Trace == ndJsonDeserialize("trace.ndjson")
VARIABLES l, pos, hwS, roEver
tvars == <<l, pos, hwS, roEver>>

Fail(kind, e, name) == PrintT(<<"FAIL", kind, e.t, l, e.a, name>>)
Chk(ok, kind, e, name) == IF ok THEN TRUE ELSE Fail(kind, e, name)

Offs(got) == [i \in 1..Len(got) |-> got[i].off]
Newest(e) == IF e.st.log = <<>> THEN -1 ELSE e.st.log[Len(e.st.log)].off
RunOK(got, from, h) == \A i \in 1..Len(got) : got[i].off = from + i - 1 /\ got[i].off <= h
Ended(e) == e.obs.st \notin {"wait", "more", "", "Skip"}
EndOK(e, nxt) == /\ e.obs.st = "ResourceExhausted"
                 /\ roEver' /\ e.st.hw = Newest(e) /\ nxt = Newest(e) + 1

TraceInit == l = 1 /\ pos = <<>> /\ hwS = -1 /\ roEver = FALSE

TraceNext ==
  /\ Trace[l].a # "End"
  /\ l' = l + 1
  /\ LET e == Trace[l] IN
     IF e.a = "Open" THEN pos' = <<>> /\ hwS' = e.st.hw /\ roEver' = e.st.ro
     ELSE
       /\ hwS' = e.st.hw /\ roEver' = (roEver \/ e.st.ro)
       /\ Chk(e.st.hw >= hwS, "P", e, "C03_HWMonotone")
       /\ CASE e.a = "Sub" /\ e.obs.err = "" ->
                 LET from == e.args.req.so
                     nxt  == from + Len(e.obs.got) IN
                 /\ pos' = [i \in (DOMAIN pos) \cup {e.args.id} |-> IF i = e.args.id THEN nxt ELSE pos[i]]
                 /\ Chk(RunOK(e.obs.got, from, e.st.hw), "P", e, "C03_Delivery")
                 /\ Chk(Ended(e) => EndOK(e, nxt), "P", e, "C03_SubscriptionEnd")
            [] e.a = "Drain" /\ e.args.id \in DOMAIN pos ->
                 LET from == pos[e.args.id]
                     nxt  == from + Len(e.obs.got) IN
                 /\ pos' = [pos EXCEPT ![e.args.id] = nxt]
                 /\ Chk(RunOK(e.obs.got, from, e.st.hw), "P", e, "C03_Delivery")
                 /\ Chk(Ended(e) => EndOK(e, nxt), "P", e, "C03_SubscriptionEnd")
            [] OTHER -> UNCHANGED pos

TraceSpec == TraceInit /\ [][TraceNext]_tvars
Done == PrintT(<<"DONE", TLCGet("stats").diameter, Len(Trace) + 1>>)
=============================================================================
