\* defective variant of ONE model decision (the snapshot loses the encryption setting): TLC's counterexample is a
\* behaviour in which exactly that decision matters; checks/c17.py replays it on the real code (GUIDE.md 9.5)
SPECIFICATION MCSpec
CONSTANTS
  BoundsChecked = TRUE
  Masks = {1, 128, 255}
  KSValues = {0,1,2,3,4,5,6,7,8,9,10,11,12,13,14,15,16,17,18,19,20,21,22,23,24,25,26,27,28,29,30,31,32,33,34,35,36,37,38,39,40,41,42,43,44,45,46,47,48,49,50,51,52,53,54,55,56,57,58,59,60,61,62,63,64,65,66,67,68,69,70,71,72,73,74,75,76,77,78,79,80,81,82,83,84,85,86,87,88,89,90,91,92,93,94,95,96,97,98,99,100,101,102,103,104,105,106,107,108,109,110,111,112,113,114,115,116,117,118,119,120,121,122,123,124,125,126,127,128,129,130,131,132,133,134,135,136,137,138,139,140,141,142,143,144,145,146,147,148,149,150,151,152,153,154,155,156,157,158,159,160,161,162,163,164,165,166,167,168,169,170,171,172,173,174,175,176,177,178,179,180,181,182,183,184,185,186,187,188,189,190,191,192,193,194,195,196,197,198,199,200,201,202,203,204,205,206,207,208,209,210,211,212,213,214,215,216,217,218,219,220,221,222,223,224,225,226,227,228,229,230,231,232,233,234,235,236,237,238,239,240,241,242,243,244,245,246,247,248,249,250,251,252,253,254,255}
  Keys = {"k1", "k2"}
  SnapKeeps = FALSE
  Replicas = {"a", "b"}
  Lens = {0, 1, 2, 15, 16, 17, 31, 32, 33, 64, 65, 100, 255, 256, 1000, 4096}
  MKLens = {0, 1, 15, 16, 17, 24, 31, 32, 33, 64}
  TableOn = FALSE
  MaxPub = 3
  MaxBatch = 2
  MaxSteps = 5
  MaxFailBatches = 1
  MaxRestart = 0
  MaxTamper = 0
  MaxEnv = 0
  MaxPause = 1
  MaxSub = 2
  MaxLead = 1
  MaxSnap = 1
  MaxInstall = 1
  PubClasses = {"long"}
  Hows = {"b2b"}
  TamperRegs = {"KS"}
INVARIANTS C17_NoPlaintext
VIEW MCView
CHECK_DEADLOCK FALSE
