------------------------- MODULE Trace_CommitLog -------------------------
(* Trace validation for CommitLog.tla: every line of trace.ndjson is one    *)
(* call executed on the real commit log, with its arguments, results and    *)
(* the projected abstract state after the call.  The state variables are    *)
(* bound to the recorded state, then                                        *)
(*   - P_<action> and the state invariants are evaluated (a failure is a    *)
(*     property violation on real behaviour: printed as FAIL "P" ...),      *)
(*   - the action as the specification performs it is evaluated as a test   *)
(*     (a failure is conformance drift: printed as FAIL "I" ...).           *)
(* Many traces are concatenated; an "Open" line starts the next one.        *)
EXTENDS CommitLog, TLC, Json

Trace == ndJsonDeserialize("trace.ndjson")

VARIABLES l, rb
tvars == <<vars, l, rb>>

Bind(e) ==
  /\ cfg' = e.st.cfg /\ log' = e.st.log /\ segs' = e.st.segs /\ hw' = e.st.hw
  /\ epochs' = e.st.epochs /\ ro' = e.st.ro /\ rd' = e.st.rd
  /\ obs' = e.obs /\ rb' = e.rb

TraceInit ==
  LET e == Trace[1] IN
  /\ cfg = e.st.cfg /\ log = e.st.log /\ segs = e.st.segs /\ hw = e.st.hw
  /\ epochs = e.st.epochs /\ ro = e.st.ro /\ rd = e.st.rd
  /\ obs = e.obs /\ rb = e.rb
  /\ l = 2

StripExp(r) == [off |-> r.off, ep |-> r.ep, ts |-> r.ts, key |-> r.key, val |-> r.val,
                hdr |-> r.hdr, sz |-> r.sz, fp |-> r.fp]

Fail(kind, e, name) == PrintT(<<"FAIL", kind, e.t, l, e.a, name>>)

PropOf(e) ==
  CASE e.a = "Append" -> P_Append(e.args.recs)
    [] e.a = "AppendSet" -> P_AppendSet(e.args.recs)
    [] e.a = "Truncate" -> P_Truncate(e.args.o)
    [] e.a = "SetHW" -> P_SetHW(e.args.h)
    [] e.a = "Drain" -> P_Drain(e.args.r)
    [] e.a = "Read" -> P_Read(e.args.r, e.args.k)
    [] OTHER -> P_Same

ImplOf(e) ==
  CASE e.a = "Append" -> DoAppend(e.args.recs)
    [] e.a = "AppendSet" -> DoAppendSet([i \in 1..Len(e.args.recs) |-> StripExp(e.args.recs[i])])
    [] e.a = "Truncate" -> DoTruncate(e.args.o)
    [] e.a = "SetHW" -> DoSetHW(e.args.h)
    [] e.a = "NewLeaderEpoch" -> DoNewLeaderEpoch(e.args.e)
    [] e.a = "SetReadonly" -> DoSetReadonly(e.args.b)
    [] e.a = "Reopen" -> DoReopen
    [] e.a = "NewReader" -> DoNewReader(e.args.r, e.args.s, e.args.c)
    [] e.a = "Drain" -> DoDrain(e.args.r)
    [] e.a = "Read" -> DoRead(e.args.r, e.args.k)
    [] OTHER -> UNCHANGED <<cfg, log, segs, hw, epochs, ro, rd>>

\* every fresh reader, from every start offset, returns exactly the retained
\* records at or after it (up to the HW when committed), in order
ReadBackOK == \A i \in 1..Len(rb) : rb[i].fps = Fps(ExpectedRead(log, segs, hw, rb[i].s, rb[i].c).recs)
ReadBackKindOK == \A i \in 1..Len(rb) : rb[i].kind = ExpectedRead(log, segs, hw, rb[i].s, rb[i].c).kind

\* IF-THEN-ELSE (not a disjunction) so that TLC evaluates the test as a predicate
Chk(ok, kind, e, name) == IF ok THEN TRUE ELSE Fail(kind, e, name)

TraceNext ==
  /\ Trace[l].a # "End"
  /\ l' = l + 1
  /\ LET e == Trace[l] IN
     /\ Bind(e)
     /\ IF e.a = "Open" THEN TRUE
        ELSE /\ Chk(PropOf(e), "P", e, "step")
             /\ Chk(ImplOf(e), "I", e, "step")
     \* no call makes the commit log panic, and a log that was closed can be opened again
     /\ Chk(~e.crash, "P", e, "C01_NoCrash")
     \* every call returns: a call that keeps burning CPU inside the commit log without returning
     \* (judged by the CPU time of its own thread, never by wall-clock time) is recorded with hang = TRUE
     /\ Chk(~e.hang, "P", e, "C01_NoHang")
     /\ Chk(C01_Ordered', "P", e, "C01_Ordered")
     /\ Chk(C01_Dense', "P", e, "C01_Dense")
     /\ Chk(TypeOK', "I", e, "TypeOK")
     /\ Chk(ReadBackOK', "P", e, "C01_ReadBack")
     /\ Chk(ReadBackKindOK', "I", e, "ReadBackKind")

TraceSpec == TraceInit /\ [][TraceNext]_tvars

Done == PrintT(<<"DONE", TLCGet("stats").diameter, Len(Trace)>>)
=============================================================================
