----------------------------- MODULE Propagation -----------------------------
(* X04 - a metadata request takes effect at most once, only on current      *)
(* state, wherever it enters the cluster.                                   *)
(*                                                                          *)
(* One action per critical section of the code path                         *)
(*   metadata.go   X(): "am I the controller (isLeader flag)? else          *)
(*                 propagateRequest (Raft leader known? NATS request to the *)
(*                 propagate inbox)", early leader-generation check of the  *)
(*                 ISR operations                                           *)
(*   propagation.go/server.go  handlePropagatedRequest on every server that *)
(*                 is subscribed to the inbox (leadershipAcquired           *)
(*                 subscribes, leadershipLost unsubscribes; both run in the *)
(*                 leadership loop, one notification at a time)             *)
(*   raft.go       applyOperation: node mutex, Raft barrier, precondition   *)
(*                 check on the local FSM state, Raft.Apply, future         *)
(*   fsm.go        Apply: the effect; an entry that cannot be applied       *)
(*                 panics (the server dies)                                 *)
(*                                                                          *)
(* The Raft log `log` holds the committed commands in order (a proposal     *)
(* accepted by the Raft leader is committed at once: leadership changes     *)
(* are clean transfers, no entry is ever lost - stated assumption).  Every  *)
(* server applies the log in order; servers in `slow` apply an entry only   *)
(* by an explicit DoApply step (their FSM lags), the others at once.        *)
(* The metadata of a server is the fold of the prefix it has applied.       *)
(* An *instance* is one execution of a metadata.X() call on one server:     *)
(* the root instance is the client's call, a propagated request creates a   *)
(* child instance on every subscribed server.                               *)
EXTENDS Integers, Sequences, FiniteSets, TLC

CONSTANTS Servers,          \* {"a","b","c"}
          MaxInst,          \* instances per behaviour
          Barrier,          \* applyOperation issues the Raft barrier before the precondition check (code: TRUE)
          AcqBarrier,       \* leadershipAcquired issues the barrier before subscribing (code: TRUE)
          NotLeaderPanics,  \* leadershipAcquired of a server that is deposed already: ErrNotLeader -> panic (shipped: TRUE)
          QueueGroup,       \* the propagate inbox is a queue subscription: a request reaches ONE subscribed server
                            \* (repaired: TRUE; shipped: FALSE = every subscribed server gets a copy)
          ApplyRefuses      \* FSM Apply refuses an entry whose stream / partition is not in the required state
                            \* (repaired adbfb33: TRUE; shipped: FALSE = the entry fails in apply and every server panics)

VARIABLES log,       \* committed commands: [op, x, L, E, r]   (r = request that proposed it: ghost)
          applied,   \* [Servers -> 0..Len(log)]
          slow,      \* servers whose FSM is held
          rleader,   \* the Raft leader
          term,      \* number of leadership changes so far (ghost)
          flag,      \* [Servers -> BOOLEAN]   raftNode.isLeader()
          sub,       \* [Servers -> BOOLEAN]   subscribed to the propagate inbox
          evq,       \* [Servers -> Seq(BOOLEAN)]  leadership notifications not yet handled
          lp,        \* [Servers -> [w, bar]]  leadership loop waiting in the barrier of leadershipAcquired
          inst,      \* [1..MaxInst -> instance]
          crashed    \* a server died (FSM panic / leadership loop panic)

vars == <<log, applied, slow, rleader, term, flag, sub, evq, lp, inst, crashed>>

Ops == {"create", "delete", "expand", "shrink", "elect"}
IsrOps == {"expand", "shrink"}
Ids == 1..MaxInst
Free == [r |-> 0, op |-> "-", x |-> "-", L |-> "-", E |-> 0, at |-> "-", par |-> 0, pc |-> "free", res |-> "",
         idx |-> 0, bar |-> 0, term |-> 0]
NoLp == [w |-> FALSE, bar |-> 0]

----------------------------------------------------------------------------
\* metadata = fold of the applied prefix
NoMeta == [ex |-> FALSE, ld |-> "-", le |-> 0, isr |-> {}, bad |-> FALSE]

Bad(M) == IF ApplyRefuses THEN M ELSE [M EXCEPT !.bad = TRUE]
Eff(e, M, k) ==
  IF M.bad THEN M
  ELSE CASE e.op = "create" -> IF M.ex THEN Bad(M)
                               ELSE [ex |-> TRUE, ld |-> e.x, le |-> k, isr |-> Servers, bad |-> FALSE]
         [] e.op = "delete" -> IF M.ex THEN NoMeta ELSE Bad(M)
         [] e.op = "expand" -> IF M.ex THEN [M EXCEPT !.isr = @ \cup {e.x}] ELSE Bad(M)
         [] e.op = "shrink" -> IF M.ex THEN [M EXCEPT !.isr = @ \ {e.x}] ELSE Bad(M)
         [] e.op = "elect"  -> IF M.ex THEN [M EXCEPT !.ld = e.x, !.le = k] ELSE Bad(M)
         [] OTHER -> M

RECURSIVE FoldTo(_, _)
FoldTo(lg, k) == IF k = 0 THEN NoMeta ELSE Eff(lg[k], FoldTo(lg, k - 1), k)
MetaOf(lg, k) == FoldTo(lg, k)
\* entry k can be applied: the stream to be created does not exist, the stream / partition to be changed exists
Applicable(lg, k) == IF lg[k].op = "create" THEN ~FoldTo(lg, k - 1).ex ELSE FoldTo(lg, k - 1).ex
MetaAt(k) == FoldTo(log, k)
View(s) == MetaAt(applied[s])

\* the precondition of a request (what checkXPreconditions evaluates) in a metadata state
Pre(q, M) ==
  CASE q.op = "create" -> ~M.ex
    [] q.op = "delete" -> M.ex
    [] q.op = "elect" /\ q.L = "-" -> M.ex      \* an election whose failed pair is not known (trace: entry without owner)
    [] q.op \in {"expand", "shrink", "elect"} -> M.ex /\ M.ld = q.L /\ M.le = q.E
    [] OTHER -> FALSE

----------------------------------------------------------------------------
\* instances
Used == {i \in Ids : inst[i].pc # "free"}
NextIds(I, n) == LET fr == {i \in Ids : I[i].pc = "free"} IN
                 IF Cardinality(fr) < n THEN {} ELSE {i \in fr : Cardinality({j \in fr : j < i}) < n}
Holder(I, s) == {i \in Ids : I[i].at = s /\ I[i].pc \in {"barrier", "checked"}}
HandlerBusy(I, s) == \E i \in Ids : I[i].at = s /\ I[i].par # 0 /\ I[i].pc \notin {"free", "done"}
SrvOrder == <<"a", "b", "c">>
Rank(s) == CHOOSE k \in 1..3 : SrvOrder[k] = s

\* instance i finishes with result res; a parent waiting for the propagated request takes the first answer
RECURSIVE Fin(_, _, _)
Fin(I, i, res) ==
  LET I1 == [I EXCEPT ![i].pc = "done", ![i].res = res]
      p == I[i].par IN
  IF p # 0 /\ I[p].pc = "fwd" THEN Fin(I1, p, res) ELSE I1

\* several instances finish in one step (lowest id first)
RECURSIVE FinAll(_, _, _)
FinAll(I, S, res) ==
  IF S = {} THEN I
  ELSE LET i == CHOOSE j \in S : \A k \in S : j <= k IN FinAll(Fin(I, i, res), S \ {i}, res)

\* metadata.X() on server s by instance i: leader check, propagation, early check
Dispatch(I, i, s, to) ==
  IF flag[s] \/ rleader = s THEN
     \* performed locally; the ISR operations compare the leader generation with the local (possibly stale) state first
     IF I[i].op \in IsrOps /\ ~Pre(I[i], View(s)) THEN Fin(I, i, "refused")
     ELSE [I EXCEPT ![i].pc = "enter"]
  ELSE
     LET subs == {t \in Servers : sub[t]}
         ids == NextIds(I, Cardinality(subs)) IN
     IF subs = {} THEN Fin(I, i, "internal")          \* no responders
     ELSE IF QueueGroup THEN
          LET j == CHOOSE k \in NextIds(I, 1) : TRUE IN
          [I EXCEPT ![i].pc = "fwd",
                    ![j] = [I[i] EXCEPT !.at = to, !.par = i, !.pc = "recv", !.res = "", !.idx = 0, !.bar = 0, !.term = 0]]
     ELSE [j \in Ids |->
             IF j = i THEN [I[i] EXCEPT !.pc = "fwd"]
             ELSE IF j \in ids THEN
                  LET t == CHOOSE u \in subs : Cardinality({v \in subs : Rank(v) < Rank(u)}) =
                                               Cardinality({k \in ids : k < j}) IN
                  [I[i] EXCEPT !.at = t, !.par = i, !.pc = "recv", !.res = "", !.idx = 0, !.bar = 0, !.term = 0]
             ELSE I[j]]
\* to = the subscribed server that NATS hands the request to ("-" when the request is not propagated or goes to all)
CanDispatch(I, i, s, to) ==
  IF flag[s] \/ rleader = s THEN to = "-"
  ELSE LET subs == {t \in Servers : sub[t]} IN
       IF subs = {} THEN to = "-"
       ELSE IF QueueGroup THEN to \in subs /\ NextIds(I, 1) # {} /\ ~HandlerBusy(I, to)
       ELSE /\ to = "-" /\ NextIds(I, Cardinality(subs)) # {}
            /\ \A t \in subs : ~HandlerBusy(I, t)

\* the precondition check of applyOperation by instance i against metadata M
Checked(I, i, M) ==
  IF Pre(I[i], M) THEN [I EXCEPT ![i].pc = "checked", ![i].term = term] ELSE Fin(I, i, "refused")

\* what happens at server s once its FSM has applied k entries: futures of its proposed instances complete,
\* a barrier in applyOperation completes (then the preconditions are checked), leadershipAcquired completes
RECURSIVE FinApplied(_, _, _)
FinApplied(I, S, lg) ==
  IF S = {} THEN I
  ELSE LET i == CHOOSE j \in S : \A k \in S : j <= k IN
       FinApplied(Fin(I, i, IF Applicable(lg, I[i].idx) THEN "ok" ELSE "refused"), S \ {i}, lg)
Replies(I, lg, s, k) == FinApplied(I, {i \in Ids : I[i].at = s /\ I[i].pc = "proposed" /\ I[i].idx <= k}, lg)
AfterApply(I, lg, s, k) ==
  LET I1 == Replies(I, lg, s, k)
      h == {i \in Ids : I1[i].at = s /\ I1[i].pc = "barrier" /\ I1[i].bar <= k} IN
  IF h = {} THEN I1 ELSE LET i == CHOOSE j \in h : TRUE IN Checked(I1, i, MetaOf(lg, k))

----------------------------------------------------------------------------
Init ==
  /\ log = <<>> /\ applied = [s \in Servers |-> 0]
  /\ slow \in SUBSET Servers
  /\ rleader \in Servers /\ term = 0
  /\ flag = [s \in Servers |-> s = rleader] /\ sub = [s \in Servers |-> s = rleader]
  /\ evq = [s \in Servers |-> <<>>] /\ lp = [s \in Servers |-> NoLp]
  /\ inst = [i \in Ids |-> Free]
  /\ crashed = FALSE

\* a client request r enters at server s
G_Start(r, s, op, x, to) ==
  /\ ~crashed /\ \A i \in Ids : inst[i].r # r
  /\ NextIds(inst, 1) # {}
  /\ op \in IsrOps => (View(s).ex /\ View(s).ld = s /\ ~View(s).bad /\
                       IF op = "expand" THEN x \in Servers \ View(s).isr ELSE x \in View(s).isr \ {s})
  /\ op = "elect" => (flag[s] /\ View(s).ex /\ ~View(s).bad /\ x = "-" /\ Cardinality(View(s).isr \ {View(s).ld}) > 0)
  /\ op \in {"create", "delete"} => x = "-"
  /\ LET i == CHOOSE j \in NextIds(inst, 1) : TRUE
         I0 == [inst EXCEPT ![i] = [Free EXCEPT !.r = r, !.op = op, !.x = x, !.at = s, !.pc = "new",
                                               !.L = IF op \in IsrOps \cup {"elect"} THEN View(s).ld ELSE "-",
                                               !.E = IF op \in IsrOps \cup {"elect"} THEN View(s).le ELSE 0]] IN
     CanDispatch(I0, i, s, to)
N_Start(r, s, op, x, to) ==
  LET i == CHOOSE j \in NextIds(inst, 1) : TRUE
      I0 == [inst EXCEPT ![i] = [Free EXCEPT !.r = r, !.op = op, !.x = x, !.at = s, !.pc = "new",
                                            !.L = IF op \in IsrOps \cup {"elect"} THEN View(s).ld ELSE "-",
                                            !.E = IF op \in IsrOps \cup {"elect"} THEN View(s).le ELSE 0]] IN
  [inst |-> Dispatch(I0, i, s, to), log |-> log, applied |-> applied, rleader |-> rleader, term |-> term, flag |-> flag,
   sub |-> sub, evq |-> evq, lp |-> lp, crashed |-> crashed]

\* a propagated request is taken up by the handler of its server
G_Handle(i, to) == ~crashed /\ i \in Ids /\ inst[i].pc = "recv" /\ CanDispatch(inst, i, inst[i].at, to)
N_Handle(i, to) ==
  [inst |-> Dispatch(inst, i, inst[i].at, to), log |-> log, applied |-> applied, rleader |-> rleader, term |-> term,
   flag |-> flag, sub |-> sub, evq |-> evq, lp |-> lp, crashed |-> crashed]

\* applyOperation: mutex, barrier, precondition check
G_Lock(i) == ~crashed /\ i \in Ids /\ inst[i].pc = "enter" /\ Holder(inst, inst[i].at) = {}
N_Lock(i) ==
  LET s == inst[i].at
      I1 == IF ~Barrier THEN Checked(inst, i, View(s))
            ELSE IF rleader # s THEN Fin(inst, i, "internal")
            ELSE IF applied[s] >= Len(log) THEN Checked(inst, i, View(s))
            ELSE [inst EXCEPT ![i].pc = "barrier", ![i].bar = Len(log)] IN
  [inst |-> I1, log |-> log, applied |-> applied, rleader |-> rleader, term |-> term, flag |-> flag, sub |-> sub,
   evq |-> evq, lp |-> lp, crashed |-> crashed]

\* Raft.Apply of the checked operation (x = the value the code chose for create / elect)
G_Propose(i, x) ==
  /\ ~crashed /\ i \in Ids /\ inst[i].pc = "checked"
  /\ IF inst[i].op = "create" THEN x \in Servers
     ELSE IF inst[i].op = "elect" THEN x \in Servers \ {inst[i].L}
     ELSE x = inst[i].x
N_Propose(i, x) ==
  LET s == inst[i].at IN
  IF rleader # s THEN
     [inst |-> Fin(inst, i, "internal"), log |-> log, applied |-> applied, rleader |-> rleader, term |-> term,
      flag |-> flag, sub |-> sub, evq |-> evq, lp |-> lp, crashed |-> crashed]
  ELSE
     LET e == [op |-> inst[i].op, x |-> x, L |-> inst[i].L, E |-> inst[i].E, r |-> inst[i].r]
         lg == Append(log, e)
         n == Len(lg)
         ap == [t \in Servers |-> IF t \in slow THEN applied[t] ELSE n]
         I0 == [inst EXCEPT ![i].pc = "proposed", ![i].idx = n]
         fast == {t \in Servers : t \notin slow}
         \* the servers that are not held apply the entry at once
         RECURSIVE Sweep(_, _)
         Sweep(I, S) == IF S = {} THEN I
                        ELSE LET t == CHOOSE u \in S : \A v \in S : Rank(u) <= Rank(v) IN
                             Sweep(AfterApply(I, lg, t, n), S \ {t}) IN
     [inst |-> Sweep(I0, fast), log |-> lg, applied |-> ap, rleader |-> rleader, term |-> term, flag |-> flag,
      sub |-> sub, evq |-> evq, lp |-> lp,
      crashed |-> crashed \/ (fast # {} /\ MetaOf(lg, n).bad)]

\* the FSM of a held server applies its next entry
G_Apply(s) == ~crashed /\ s \in slow /\ applied[s] < Len(log)
N_Apply(s) ==
  LET k == applied[s] + 1
      done == lp[s].w /\ lp[s].bar <= k IN
  [inst |-> AfterApply(inst, log, s, k), log |-> log, applied |-> [applied EXCEPT ![s] = k], rleader |-> rleader,
   term |-> term,
   flag |-> IF done THEN [flag EXCEPT ![s] = TRUE] ELSE flag,
   sub |-> IF done THEN [sub EXCEPT ![s] = TRUE] ELSE sub,
   evq |-> evq, lp |-> IF done THEN [lp EXCEPT ![s] = NoLp] ELSE lp,
   crashed |-> crashed \/ MetaAt(k).bad]

\* the client of a propagated root request gives up (its context ends); the controller carries on
G_Cancel(i) == ~crashed /\ i \in Ids /\ inst[i].pc = "fwd" /\ inst[i].par = 0
N_Cancel(i) ==
  [inst |-> [inst EXCEPT ![i].pc = "done", ![i].res = "cancelled"], log |-> log, applied |-> applied,
   rleader |-> rleader, term |-> term, flag |-> flag, sub |-> sub, evq |-> evq, lp |-> lp, crashed |-> crashed]

\* Raft leadership moves to t (clean transfer); both servers are notified
\* the notification channel holds one entry besides the one the loop is working on
Pending(s) == Len(evq[s]) + (IF lp[s].w THEN 1 ELSE 0)
G_Transfer(t) == ~crashed /\ t \in Servers /\ t # rleader /\ Pending(t) < 2 /\ Pending(rleader) < 2
N_Transfer(t) ==
  [inst |-> inst, log |-> log, applied |-> applied, rleader |-> t, term |-> term + 1, flag |-> flag, sub |-> sub,
   evq |-> [evq EXCEPT ![rleader] = Append(@, FALSE), ![t] = Append(@, TRUE)], lp |-> lp, crashed |-> crashed]

\* the leadership loop of s handles its next notification
G_Lost(s) == ~crashed /\ evq[s] # <<>> /\ Head(evq[s]) = FALSE /\ ~lp[s].w
N_Lost(s) ==
  [inst |-> inst, log |-> log, applied |-> applied, rleader |-> rleader, term |-> term,
   flag |-> [flag EXCEPT ![s] = FALSE], sub |-> [sub EXCEPT ![s] = FALSE], evq |-> [evq EXCEPT ![s] = Tail(@)],
   lp |-> lp, crashed |-> crashed]

G_Acquired(s) == ~crashed /\ evq[s] # <<>> /\ Head(evq[s]) = TRUE /\ ~lp[s].w
N_Acquired(s) ==
  LET q == [evq EXCEPT ![s] = Tail(@)]
      base == [inst |-> inst, log |-> log, applied |-> applied, rleader |-> rleader, term |-> term, flag |-> flag,
               sub |-> sub, evq |-> q, lp |-> lp, crashed |-> crashed] IN
  IF AcqBarrier /\ rleader # s THEN [base EXCEPT !.crashed = NotLeaderPanics]
  ELSE IF ~AcqBarrier \/ applied[s] >= Len(log)
       THEN [base EXCEPT !.flag = [flag EXCEPT ![s] = TRUE], !.sub = [sub EXCEPT ![s] = TRUE]]
  ELSE [base EXCEPT !.lp = [lp EXCEPT ![s] = [w |-> TRUE, bar |-> Len(log)]]]

Set(n) ==
  /\ inst' = n.inst /\ log' = n.log /\ applied' = n.applied /\ rleader' = n.rleader /\ term' = n.term
  /\ flag' = n.flag /\ sub' = n.sub /\ evq' = n.evq /\ lp' = n.lp /\ crashed' = n.crashed /\ slow' = slow

DoStart(r, s, op, x, to) == G_Start(r, s, op, x, to) /\ Set(N_Start(r, s, op, x, to))
DoHandle(i, to) == G_Handle(i, to) /\ Set(N_Handle(i, to))
DoLock(i) == G_Lock(i) /\ Set(N_Lock(i))
DoPropose(i, x) == G_Propose(i, x) /\ Set(N_Propose(i, x))
DoApply(s) == G_Apply(s) /\ Set(N_Apply(s))
DoCancel(i) == G_Cancel(i) /\ Set(N_Cancel(i))
DoTransfer(t) == G_Transfer(t) /\ Set(N_Transfer(t))
DoLost(s) == G_Lost(s) /\ Set(N_Lost(s))
DoAcquired(s) == G_Acquired(s) /\ Set(N_Acquired(s))

----------------------------------------------------------------------------
\* What X04 demands (property level)

\* (1) every committed entry finds its precondition true in the state in which it is applied
\*     - or it is refused when applied: it has no effect
Effective(lg, k) == MetaOf(lg, k) # MetaOf(lg, k - 1)
EntryCurrent(lg, k) == Pre(lg[k], MetaOf(lg, k - 1)) \/ ~Effective(lg, k)
X04_Current == \A k \in 1..Len(log) : EntryCurrent(log, k)

\* (2) at most one effect per request
X04_AtMostOneEffect ==
  \A k1, k2 \in 1..Len(log) : (k1 < k2 /\ log[k1].r # 0 /\ log[k1].r = log[k2].r) => ~(Effective(log, k1) /\ Effective(log, k2))

\* (2) a positive answer implies a committed entry of this request; the server that answered a request it
\*     proposed itself has applied it
X04_OkCommitted ==
  \A i \in Ids : (inst[i].pc = "done" /\ inst[i].res = "ok") =>
      /\ \E k \in 1..Len(log) : log[k].r = inst[i].r /\ Applicable(log, k)
      /\ inst[i].idx > 0 => applied[inst[i].at] >= inst[i].idx
\*     a refusal of an instance implies that this instance proposed nothing or that its entry has no effect
X04_RefusedNoEntry ==
  \A i \in Ids : (inst[i].pc = "done" /\ inst[i].res = "refused" /\ inst[i].idx > 0 /\ inst[i].idx <= Len(log))
                   => ~Effective(log, inst[i].idx)

\* no server dies
X04_NoCrash == ~crashed

\* a step appends at most one entry, and only the proposing step does (no unsolicited second proposal)
P_LogStep(isPropose) ==
  /\ Len(log') <= Len(log) + (IF isPropose THEN 1 ELSE 0)
  /\ Len(log') >= Len(log) /\ SubSeq(log', 1, Len(log)) = log

\* the propose step: the appended entry is the request's (X04_Current judges it in the log)
P_Propose(i) ==
  Len(log') = Len(log) + 1 =>
     log'[Len(log')].op = inst[i].op

TypeOK ==
  /\ \A s \in Servers : applied[s] \in 0..Len(log)
  /\ \A s \in Servers : Cardinality(Holder(inst, s)) <= 1
  /\ rleader \in Servers
=============================================================================
