SPECIFICATION MCLive1
CONSTANTS
  F = {"b", "c"}
  MaxRec = 2
  MaxEp = 1
  FetchMax = 1
  WideEvery = 0
  SlowTimeouts = FALSE
  ZombieSteals = FALSE
  MaxTick = 0
  MaxSlow = 0
  MaxIdleT = 0
  MaxKill = 0
  TrackLast = FALSE
INVARIANTS X03_Quiet
PROPERTIES X03_LiveStore X03_LiveHW
CHECK_DEADLOCK FALSE
