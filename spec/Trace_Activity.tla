------------------------- MODULE Trace_Activity -------------------------
(* Trace validation for Activity.tla, property level.  Every line of        *)
(* trace.ndjson is one step executed on real servers with the committed     *)
(* Raft log (one [k, c, pi] per index, read from the log store), the        *)
(* activity stream read back from offset 0, and the replicated state after  *)
(* the step.  rlog and pub are bound to the recorded values; the C18        *)
(* invariants and action properties of Activity.tla are evaluated on every  *)
(* recorded state / transition (FAIL "P" = the property is violated on real *)
(* behaviour).  FAIL "I" lines are implementation-level observations        *)
(* (drift).  Conformance to the actions of the specification is judged by   *)
(* TraceI_Activity.tla (hidden dispatcher steps between two observations).  *)
EXTENDS Activity, TLC, Json

Trace == ndJsonDeserialize("trace.ndjson")

VARIABLES l, floor, mem
tvars == <<vars, l, floor, mem>>

\* only rlog, pub, first (and blocked) carry recorded data in this pass; first = FirstIndex()
\* of the real Raft log store of the server under test (its last value while it is down)
Dummies ==
  /\ up' = up /\ lp' = lp /\ rs' = rs /\ snap' = snap
  /\ ctl' = ctl /\ disp' = disp /\ dead' = dead

TraceInit ==
  LET e == Trace[1] IN
  /\ rlog = e.st.rlog /\ pub = e.st.pub /\ blocked = e.st.blocked
  /\ up = [n \in Nodes |-> TRUE] /\ lp = [n \in Nodes |-> 0] /\ rs = [n \in Nodes |-> 0]
  /\ snap = [n \in Nodes |-> 0] /\ first = [n \in Nodes |-> e.st.first]
  /\ ctl = None /\ disp = [n \in Nodes |-> Off] /\ dead = {}
  /\ floor = 0
  /\ mem = [lp |-> e.st.lp, up |-> e.st.up, leader |-> e.st.leader, disps |-> e.st.dispatchers, ack |-> e.st.ack]
  /\ l = 2

Fail(kind, e, name) == PrintT(<<"FAIL", kind, e.t, l, e.a, name>>)
Chk(ok, kind, e, name) == IF ok THEN TRUE ELSE Fail(kind, e, name)

\* every recorded PUBLISH_ACTIVITY entry names an operation with an event that
\* is already in the stream (publish THEN record)
I_RecordsArePublished ==
  \A i \in 1..Len(rlog) : rlog[i].k = "P" => (Elig(rlog, rlog[i].pi) /\ rlog[i].pi < i /\ rlog[i].pi \in Ids(pub))
\* C18_ControllerDispatches of Activity.tla on the recorded server: it is up, its
\* promotion to controller has run (leader) and the driver counted its dispatcher
\* goroutines (dispatchers >= 0; on a "Stalled" line the count was 0 for seconds
\* while a dispatcher step was awaited).  Evaluated on Stalled lines only: elsewhere
\* a goroutine that was just spawned may not have entered its function yet.
T_ControllerDispatches ==
  (l > 1 /\ Trace[l - 1].a = "Stalled") => ~(mem.up /\ mem.leader /\ mem.disps = 0)

\* C18_IdleMeansPublished on the recorded server: a "Quiet" line is written when the
\* controller (up, promoted, activity partition not blocked, dispatcher goroutine alive
\* and not held by the driver) did nothing at all - no publish, no record, no failure
\* report, Raft idle - for longer than the longest retry interval of the dispatcher.
T_IdleMeansPublished ==
  (l > 1 /\ Trace[l - 1].a = "Quiet") => Pending = {}

\* Assumption of DoDispatchPublish / DoRecordPublished ("publish THEN record"): a publish
\* that returned success has put the event into the stream for good, i.e. the activity
\* publishes wait for the acknowledgement of all in-sync replicas.  The driver leaves the
\* policy at the server's default and records the effective value.
T_PublishMeansCommitted == mem.up => A_DurablePublish(mem.ack)

\* The dispatcher goroutine of the real server PANICKED (the process died: the line is
\* written from the process's panic report - message and stack of the panicking goroutine,
\* which runs the dispatcher function - with the state recorded last).  Not during a stop
\* of the server (shutdown races are not C18's).  A controller whose dispatcher dies with
\* the process lists nothing; the cases met (an entry it has to read is gone from the log
\* store) repeat on every restart.
T_DispatcherSurvives == ~(l > 1 /\ Trace[l - 1].a = "DispatcherPanic")

\* the lowest replicated lastPublished a dispatcher that may still publish can
\* have started from: on one server the value before the step; with several
\* servers the value before the last controller change (the previous
\* controller's goroutine may still be inside one publish)
NextFloor(e) ==
  IF e.a \in {"TakeOver"} THEN LP(rlog)
  ELSE IF e.a = "Open" THEN 0 ELSE floor
FloorNow(e) == IF e.cluster THEN (IF floor < LP(rlog) THEN floor ELSE LP(rlog)) ELSE LP(rlog)

TraceNext ==
  /\ Trace[l].a # "End"
  /\ l' = l + 1
  /\ LET e == Trace[l] IN
     /\ rlog' = e.st.rlog /\ pub' = e.st.pub /\ blocked' = e.st.blocked
     /\ first' = [n \in Nodes |-> e.st.first]
     /\ mem' = [lp |-> e.st.lp, up |-> e.st.up, leader |-> e.st.leader, disps |-> e.st.dispatchers, ack |-> e.st.ack]
     /\ Dummies
     /\ floor' = NextFloor(e)
     /\ IF e.a = "Open" THEN TRUE
        ELSE /\ Chk(e.a = "ForeignOp" => C18_ForeignIsolated, "P", e, "C18_ForeignIsolated")
             /\ Chk(C18_AppendOnly, "P", e, "C18_AppendOnly")
             /\ Chk(C18_ResumeAbove(FloorNow(e)), "P", e, "C18_ResumeAbove")
     /\ Chk(C18_IdContent', "P", e, "C18_IdContent")
     /\ Chk(C18_NoSkip', "P", e, "C18_NoSkip")
     /\ Chk(C18_FirstOrder', "P", e, "C18_FirstOrder")
     /\ Chk(C18_LPSound', "P", e, "C18_LPSound")
     /\ Chk(T_ControllerDispatches', "P", e, "C18_ControllerDispatches")
     /\ Chk(T_IdleMeansPublished', "P", e, "C18_IdleMeansPublished")
     /\ Chk(T_PublishMeansCommitted', "P", e, "C18_PublishMeansCommitted")
     /\ Chk(C18_Obtainable', "P", e, "C18_Obtainable")
     /\ Chk(T_DispatcherSurvives', "P", e, "C18_DispatcherSurvives")
     /\ Chk(I_RecordsArePublished', "I", e, "I_RecordsArePublished")
     /\ Chk(TypeOK', "I", e, "TypeOK")

TraceSpec == TraceInit /\ [][TraceNext]_tvars

Done == PrintT(<<"DONE", TLCGet("stats").diameter, Len(Trace)>>)
=============================================================================
