SPECIFICATION Spec
CONSTANTS
  Fixed = TRUE
  WithReader = TRUE
INVARIANTS TypeOK LO_NoDeadlock
CHECK_DEADLOCK FALSE
