--------------------------- MODULE GroupLiveness ---------------------------
(* Consumer-group liveness and coordinator failover (additional check X01).  *)
(*                                                                           *)
(* One consumer group, as the code handles it:                               *)
(*   server/groups.go    consumerGroup: members, coordinator, epoch, one     *)
(*                       liveness timer per member AT THE COORDINATOR        *)
(*                       (SetCoordinator / AddMember / RemoveMember /        *)
(*                       StartRecovered start and cancel them,               *)
(*                       GetAssignments = heartbeat resets one)              *)
(*   server/metadata.go  JoinConsumerGroup, LeaveConsumerGroup,              *)
(*                       ReportGroupCoordinator, electNewGroupCoordinator,   *)
(*                       the Raft preconditions, LostLeadership              *)
(*   server/failover.go  failoverStatus / groupFailover: witnesses, quorum   *)
(*                       of the members, expiry of the window                *)
(*   server/fsm.go       CREATE/JOIN/LEAVE_CONSUMER_GROUP,                   *)
(*                       CHANGE_CONSUMER_GROUP_COORDINATOR (Raft index =     *)
(*                       new group epoch; a new group starts at epoch 0)     *)
(*                                                                           *)
(* The replicated part (exists, members, coord, epoch) is one copy: the      *)
(* servers apply the same committed log and the driver lets every server     *)
(* catch up after a step.  What differs per server is who runs timers:       *)
(* tmr[s] = members with a liveness timer on server s.                       *)
(*                                                                           *)
(* Time.  The only spontaneous events are timer expiries.  DoWait(hb) = more *)
(* than the timeout passes; hb says what every member does meanwhile:        *)
(* "good" = it keeps fetching its assignments at the coordinator with the    *)
(* current epoch (following epoch changes, as the client does), "stale" =    *)
(* it keeps fetching with an outdated epoch, "wrong" = it keeps fetching at  *)
(* a server that is not the coordinator, "none" = silent.  Timers that are   *)
(* not reset fire, the coordinator proposes LeaveConsumerGroup(expired) for  *)
(* each, the committed operations remove the members (and the group with     *)
(* the last one).  The window of coordinator reports expires in the same     *)
(* step.  For every other step the driver proves by the clock that no timer  *)
(* can have fired.                                                           *)
EXTENDS Integers, FiniteSets, Sequences, TLC

CONSTANTS Brokers,        \* ids in the cluster's Raft configuration = candidates of an election
          Servers,        \* the brokers that really run (hold the group, may run timers); subset of Brokers
          Members,        \* consumer ids
          Dense,          \* TRUE: the next Raft index is epoch + 1 (bounded model); FALSE: any larger (traces)
          RecheckAtApply, \* a report that was overtaken between its pair check and its registration is refused
          \* defective variants of single decisions (FALSE = the code); their counterexamples are directed stimuli
          KeepTimers,     \* SetCoordinator does not cancel the old coordinator's timers
          CountAllWit,    \* every recorded witness counts towards the quorum (not only current members)
          RetryBlind      \* a failed expiry proposal re-arms the timer without looking whether the member is
                          \* still there (as shipped: the server then dies of a nil pointer dereference)

VARIABLES exists, members, coord, epoch,   \* the replicated group
          tmr,                             \* [Servers -> SUBSET Members]: liveness timers per server
          fo,                              \* the group's entry in groupFailovers at the controller
          armed, good,                     \* ghosts: window timer running; who reported the current coordinator in the window
          pend,                            \* reports inside ReportGroupCoordinator: pair checked, not yet registered
          pendx,                           \* expiries in flight: <<server, member>> whose timer fired, Leave not yet proposed
          gen, xgen,                       \* ghosts: how often each member joined; gen of a member when its expiry fired
          taint,                           \* ghost: a known finding has happened (see P_ExpireApply)
          crashed,                         \* a server died
          obs
vars == <<exists, members, coord, epoch, tmr, fo, armed, good, pend, pendx, gen, xgen, taint, crashed, obs>>

NoFo == [on |-> FALSE, wit |-> {}]
NoCoord == "none"
HbModes == {"none", "good", "stale", "wrong"}

TypeOK ==
  /\ exists \in BOOLEAN /\ members \subseteq Members
  /\ coord \in Brokers \cup {NoCoord} /\ epoch \in Nat
  /\ tmr \in [Servers -> SUBSET Members]
  /\ fo.on \in BOOLEAN /\ fo.wit \subseteq Members
  /\ armed \in BOOLEAN /\ good \subseteq Members
  /\ exists <=> members # {}
  /\ exists <=> coord # NoCoord
  /\ pendx \subseteq Servers \X Members
  /\ gen \in [Members -> Nat] /\ xgen \in [Members -> Nat]
  /\ taint \in BOOLEAN /\ crashed \in BOOLEAN

Bump(e, k) == IF Dense THEN epoch' = e + k ELSE epoch' > e   \* Raft indices only grow

GroupSame == UNCHANGED <<exists, members, coord, epoch>>
Ghosts == UNCHANGED <<pendx, gen, xgen, taint, crashed>>
Quiet == GroupSame /\ UNCHANGED <<tmr, fo, armed, good, pend>> /\ Ghosts
Refuse(a, err) == Quiet /\ obs' = [a |-> a, err |-> err]

Stale(c, e) == ~exists \/ c # coord \/ e # epoch

\* ------------------------------------------------------------------ join / leave
\* c0 = the broker selectGroupCoordinator picks for a new group (least coordinator load)
DoJoin(m, c0) ==
  IF ~exists THEN
    /\ c0 \in Brokers
    /\ exists' = TRUE /\ members' = {m} /\ coord' = c0 /\ epoch' = 0
    /\ tmr' = [s \in Servers |-> IF s = c0 THEN {m} ELSE {}]
    /\ fo' = NoFo /\ armed' = FALSE /\ good' = {} /\ UNCHANGED pend
    /\ gen' = [gen EXCEPT ![m] = @ + 1] /\ UNCHANGED <<pendx, xgen, taint, crashed>>
    /\ obs' = [a |-> "Join", err |-> "", rc |-> coord', re |-> epoch']   \* what the client is told
  ELSE IF m \in members THEN Refuse("Join", "member")
  ELSE
    /\ members' = members \cup {m} /\ Bump(epoch, 1)
    /\ tmr' = [s \in Servers |-> IF s = coord THEN tmr[s] \cup {m} ELSE tmr[s]]
    /\ UNCHANGED <<exists, coord, fo, armed, good, pend>>
    /\ gen' = [gen EXCEPT ![m] = @ + 1] /\ UNCHANGED <<pendx, xgen, taint, crashed>>
    /\ obs' = [a |-> "Join", err |-> "", rc |-> coord', re |-> epoch']   \* what the client is told

\* the committed LEAVE_CONSUMER_GROUP operations of the members R (non-empty, subset of members)
RemoveSet(R) ==
  IF members \ R = {} THEN
    \* the last member: the group is deleted (Close stops every timer)
    /\ exists' = FALSE /\ members' = {} /\ coord' = NoCoord /\ epoch' = 0
    /\ tmr' = [s \in Servers |-> {}]
    /\ fo' = NoFo /\ armed' = FALSE /\ good' = {}
  ELSE
    /\ members' = members \ R /\ Bump(epoch, Cardinality(R))
    /\ tmr' = [s \in Servers |-> tmr[s] \ R]
    /\ UNCHANGED <<exists, coord>>

DoLeave(m) ==
  IF ~exists THEN Refuse("Leave", "nogroup")
  ELSE IF m \notin members THEN Refuse("Leave", "notmember")
  ELSE /\ RemoveSet({m})
       /\ IF members = {m} THEN TRUE ELSE UNCHANGED <<fo, armed, good>>
       /\ UNCHANGED pend /\ Ghosts
       /\ obs' = [a |-> "Leave", err |-> ""]

\* ------------------------------------------------------------------ heartbeat
\* FetchConsumerGroupAssignments(m, e) sent to server s
HeartbeatAnswer(s, m, e) ==
  IF ~exists THEN "nogroup"
  ELSE IF coord # s THEN "notcoord"
  ELSE IF e # epoch THEN "epoch"
  ELSE IF m \notin members THEN "notmember"
  ELSE IF m \notin tmr[s] THEN "notimer"
  ELSE ""

DoHeartbeat(s, m, e) == Refuse("Heartbeat", HeartbeatAnswer(s, m, e))   \* a reset timer is still a running timer

\* ------------------------------------------------------------------ coordinator reports
Counting(wit) == IF CountAllWit THEN wit ELSE wit \cap members    \* IsWitness is evaluated when the quorum is
WouldElect(m) == Cardinality(Counting((IF fo.on THEN fo.wit ELSE {}) \cup {m})) > Cardinality(members) \div 2
Candidates == Brokers \ {coord}

\* failoverStatus.report for member m; pref = the candidate the election picks (least coordinator load)
ReportEffect(a, m, pref) ==
  IF ~WouldElect(m) THEN
    /\ fo' = [on |-> TRUE, wit |-> (IF fo.on THEN fo.wit ELSE {}) \cup {m}]
    /\ armed' = TRUE /\ good' = good \cup {m}
    /\ GroupSame /\ UNCHANGED tmr
    /\ obs' = [a |-> a, err |-> ""]
  ELSE IF Candidates = {} THEN
    \* the attempt fails; it ends this round of reports all the same
    /\ fo' = NoFo /\ armed' = FALSE /\ good' = good \cup {m}
    /\ GroupSame /\ UNCHANGED tmr
    /\ obs' = [a |-> a, err |-> "nocand"]
  ELSE
    /\ pref \in Candidates
    /\ coord' = pref /\ Bump(epoch, 1)
    \* the timers move: cancelled at the old coordinator, started at the new one
    /\ tmr' = [s \in Servers |-> IF s = pref THEN members
                                 ELSE IF KeepTimers THEN tmr[s] ELSE {}]
    /\ fo' = NoFo /\ armed' = FALSE /\ good' = {}
    /\ UNCHANGED <<exists, members>>
    /\ obs' = [a |-> a, err |-> ""]

ReportRefusal(m, c, e) ==
  IF ~exists THEN "nogroup"
  ELSE IF c # coord \/ e # epoch THEN "stale"
  ELSE IF m \notin members THEN "notmember"
  ELSE ""

DoReport(m, c, e, pref) ==
  IF ReportRefusal(m, c, e) # "" THEN Refuse("Report", ReportRefusal(m, c, e))
  ELSE ReportEffect("Report", m, pref) /\ UNCHANGED pend /\ Ghosts

\* the same request in two steps: it passes the checks ...
DoReportCheck(m, c, e) ==
  IF ReportRefusal(m, c, e) # "" THEN Refuse("ReportCheck", ReportRefusal(m, c, e))
  ELSE /\ pend' = Append(pend, [m |-> m, c |-> c, e |-> e])
       /\ GroupSame /\ UNCHANGED <<tmr, fo, armed, good>> /\ Ghosts
       /\ obs' = [a |-> "ReportCheck", err |-> ""]

\* ... and reaches the registration of the witness arbitrarily later
DoReportApply(i, pref) ==
  LET r == pend[i] IN
  /\ i \in 1..Len(pend)
  /\ pend' = SubSeq(pend, 1, i - 1) \o SubSeq(pend, i + 1, Len(pend))
  /\ Ghosts
  /\ IF RecheckAtApply /\ Stale(r.c, r.e) THEN
       /\ GroupSame /\ UNCHANGED <<tmr, fo, armed, good>>
       \* (also when the group is gone: the request holds the closed group object, whose epoch moved
       \* with the removal of its last member)
       /\ obs' = [a |-> "ReportApply", err |-> "stale"]
     ELSE IF ~exists THEN
       \* the group object the request holds is closed: nothing visible happens
       /\ GroupSame /\ UNCHANGED <<tmr, fo, armed, good>>
       /\ obs' = [a |-> "ReportApply", err |-> ""]
     ELSE ReportEffect("ReportApply", r.m, pref)

\* ------------------------------------------------------------------ time
\* a timer whose expiry is in flight has fired and is not running (unless a heartbeat re-armed it:
\* outside the domain, see MC)
Fired(hb, s) == {m \in tmr[s] : <<s, m>> \notin pendx /\ ~(s = coord /\ m \in members /\ hb[m] = "good")}
AllFired(hb) == UNION {Fired(hb, s) : s \in Servers}
FiredPairs(hb) == UNION {{<<s, m>> : m \in Fired(hb, s)} : s \in Servers}

\* park = the expiry callbacks that start in this period are held before they propose the removal
\* (the proposal travels to the controller arbitrarily slowly): DoExpireApply lets one proceed
DoWait(hb, park) ==
  /\ hb \in [Members -> HbModes]
  /\ LET R == AllFired(hb) \cap members IN
     IF park THEN
          /\ GroupSame /\ UNCHANGED tmr       \* consumer.timer stays set while the callback runs
          /\ pendx' = pendx \cup FiredPairs(hb)
          /\ xgen' = [m \in Members |-> IF m \in AllFired(hb) THEN gen[m] ELSE xgen[m]]
          /\ fo' = NoFo /\ armed' = FALSE /\ good' = {}
     ELSE /\ IF R = {} THEN /\ GroupSame
                            /\ tmr' = [s \in Servers |-> tmr[s] \ AllFired(hb)]
                            /\ fo' = NoFo /\ armed' = FALSE /\ good' = {}
             ELSE /\ RemoveSet(R)
                  /\ fo' = NoFo /\ armed' = FALSE /\ good' = {}
          /\ UNCHANGED <<pendx, xgen>>
  /\ UNCHANGED <<pend, gen, taint, crashed>>
  /\ obs' = [a |-> "Wait", err |-> "", fired |-> FiredPairs(hb), acc |-> {}, rej |-> {}]

\* the expiry callback of member m on server s goes on: it proposes LeaveConsumerGroup(m, expired).
\* The operation names only the consumer id: it removes whoever is a member under that id now.
DoExpireApply(s, m) ==
  /\ <<s, m>> \in pendx
  /\ pendx' = pendx \ {<<s, m>>}
  /\ UNCHANGED <<pend, gen, xgen>>
  /\ IF exists /\ m \in members THEN
        /\ RemoveSet({m})
        /\ IF members = {m} THEN TRUE ELSE UNCHANGED <<fo, armed, good>>
        /\ taint' = (taint \/ gen[m] # xgen[m])
        /\ UNCHANGED crashed
        /\ obs' = [a |-> "ExpireApply", err |-> ""]
     ELSE
        \* the proposal is refused (the member has left, the group is gone): the callback wants to try
        \* again later and re-arms the timer of a consumer that is not there any more
        /\ GroupSame /\ UNCHANGED <<tmr, fo, armed, good, taint>>
        /\ crashed' = (crashed \/ RetryBlind)
        /\ obs' = [a |-> "ExpireApply", err |-> IF exists THEN "notmember" ELSE "nogroup"]

\* ------------------------------------------------------------------ controller loss, restart
DoLose ==
  /\ GroupSame /\ UNCHANGED <<tmr, pend>> /\ Ghosts
  /\ fo' = NoFo /\ armed' = FALSE /\ good' = {}
  /\ obs' = [a |-> "Lose", err |-> ""]

\* server s stops and starts again: it replays the log in recovery mode and StartRecovered
\* arms the timers of the groups it coordinates.  This takes longer than the timeout:
\* the members keep fetching at the coordinator meanwhile (when it is not s), the
\* window of coordinator reports expires.
DoRestart(s) ==
  /\ s \in Servers
  /\ tmr' = [tmr EXCEPT ![s] = IF exists /\ coord = s THEN members ELSE {}]
  /\ GroupSame /\ UNCHANGED pend /\ Ghosts
  /\ fo' = NoFo /\ armed' = FALSE /\ good' = {}
  /\ obs' = [a |-> "Restart", err |-> ""]

\* ============================================================ what X01 demands
GroupUnchanged == exists' = exists /\ members' = members /\ coord' = coord /\ epoch' = epoch
NoChange == GroupUnchanged /\ tmr' = tmr

\* (c) at most one server runs timers for the group, and it is the coordinator; nobody else's timers
X01_TimersOnlyAtCoordinator ==
  \A s \in Servers : tmr[s] # {} => (exists /\ s = coord /\ tmr[s] \subseteq members)

\* (d) epochs: never decrease while the group lives, and a change of members or coordinator carries a larger one
P_Epochs ==
  (exists /\ exists') =>
     /\ epoch' >= epoch
     /\ (members' # members \/ coord' # coord) => epoch' > epoch

TimersMoved == \A s \in Servers : tmr'[s] = IF s = coord' THEN members' ELSE {}

\* a report by member m that is not refusable
ReportDemands(m) ==
  /\ exists' /\ members' = members
  /\ coord' = coord => (epoch' = epoch /\ tmr' = tmr)
  /\ coord' # coord =>
       /\ coord' \in Brokers \ {coord}                       \* a configured broker, never the reported one
       /\ epoch' > epoch
       /\ 2 * Cardinality((good \cup {m}) \cap members) > Cardinality(members)   \* majority of the members, in the window
       /\ TimersMoved                                          \* (c) started there, cancelled here

P_Report(m, c, e) ==
  IF Stale(c, e) \/ m \notin members THEN obs'.err # "" /\ NoChange
  ELSE ReportDemands(m)

P_ReportCheck(m, c, e) ==
  /\ NoChange
  /\ (Stale(c, e) \/ m \notin members) => obs'.err # ""

P_ReportApply(i) ==
  LET r == pend[i] IN
  IF Stale(r.c, r.e) THEN NoChange       \* overtaken: it must not take effect against the new coordinator / epoch
  ELSE ReportDemands(r.m)

\* (e) a heartbeat is answered positively only for a member, at the coordinator, with the current epoch;
\* (a) and such a heartbeat of a member whose timer runs IS answered positively
P_Heartbeat(s, m, e) ==
  /\ NoChange
  /\ obs'.err = "" => (exists /\ s = coord /\ e = epoch /\ m \in members)
  /\ (exists /\ s = coord /\ e = epoch /\ m \in members /\ m \in tmr[s]) => obs'.err = ""

P_Join(m) ==
  /\ exists'
  /\ obs'.err = "" => (obs'.rc = coord' /\ obs'.re = epoch')    \* the client learns where and with which epoch to fetch
  /\ IF exists /\ m \in members THEN obs'.err # "" /\ NoChange
     ELSE obs'.err = "" =>
            /\ members' = members \cup {m}
            /\ exists => coord' = coord
            /\ coord' \in Brokers
  /\ obs'.err # "" => NoChange

P_Leave(m) ==
  IF ~exists \/ m \notin members THEN obs'.err # "" /\ NoChange
  ELSE /\ obs'.err = "" => members' = members \ {m}
       /\ obs'.err # "" => NoChange
       /\ exists' => coord' = coord

\* time passes: (a) who keeps heartbeating correctly stays and is never refused, (b) who does not is
\* expired (when a running server coordinates the group; with `park` the removal is still in flight: its
\* callback has started), (c) only the coordinator's timers fire and only for such members, (e) heartbeats
\* with a stale epoch or at the wrong server are never accepted
P_Wait(hb, park) ==
  LET f == obs'.fired IN
  /\ \A m \in members : hb[m] = "good" => (m \in members' /\ \A s \in Servers : <<s, m>> \notin f)
  /\ coord \in Servers => \A m \in members : (hb[m] # "good" /\ <<coord, m>> \notin pendx) =>
                              IF park THEN <<coord, m>> \in f ELSE m \notin members'
  /\ \A x \in f : x[1] = coord /\ x[2] \in members /\ hb[x[2]] # "good"
  /\ members' \subseteq members
  /\ \A m \in members \ members' : <<coord, m>> \in f /\ ~park
  /\ exists' => coord' = coord
  /\ obs'.acc = {}
  /\ coord \in Servers => obs'.rej \cap members = {}

\* an expiry in flight reaches the controller: nothing but the removal of that member may happen, and a
\* membership that began after the timer fired (the consumer left and joined again) must not be ended by
\* it (a) - the code cannot tell them apart: known finding, the ghost `taint` marks it on the model
P_ExpireApply(s, m) ==
  /\ members' \subseteq members /\ members \ members' \subseteq {m}
  /\ (m \in members /\ gen[m] # xgen[m]) => m \in members'
  /\ (exists /\ exists') => coord' = coord
  /\ m \notin members => NoChange

X01_NoCrash == ~crashed

P_Quiet == NoChange          \* Lose, Restart (the group is untouched; timers as X01_TimersOnlyAtCoordinator says)
P_Restart == GroupUnchanged

\* ============================================================ mechanism (drift only)
TimersComplete == (exists /\ coord \in Servers) => tmr[coord] = members
StatusLive == fo.on => (armed /\ exists)
WitnessesAreGood == fo.on => fo.wit \subseteq good
=============================================================================
