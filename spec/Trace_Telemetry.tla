--------------------------- MODULE Trace_Telemetry ---------------------------
(* Trace validation for Telemetry.tla.  One line per executed step of a run *)
(* (server level: NewConfig + server.New/Start/Stop with the HTTP transport *)
(* recorded; collector level: telemetry.New/Start/Stop alone).  The         *)
(* observable variables are bound to the recorded projection; `phase` and   *)
(* `running` are not observable and follow the action names.                *)
(* FAIL "P" = the property is violated on real behaviour, "I" = the code    *)
(* differs from the transcription (drift), "C" = the harness could not      *)
(* execute the step (inconclusive).                                         *)
EXTENDS Telemetry, TLC, Json

Trace == ndJsonDeserialize("trace.ndjson")

VARIABLES l
tvars == <<vars, l>>

ToSet(s) == {s[j] : j \in 1..Len(s)}
RouteOf(e) == [file |-> e.route.file, env |-> e.route.env, prog |-> e.route.prog, hasFile |-> e.route.hasFile,
               ival |-> e.route.ival, ivalBy |-> e.route.ivalBy, idfile |-> e.route.idfile, entry |-> e.route.entry,
               progAt |-> e.route.progAt, other |-> e.route.other]

Fail(kind, e, name) == PrintT(<<"FAIL", kind, e.t, l, e.a, name>>)
Chk(ok, kind, e, name) == IF ok THEN TRUE ELSE Fail(kind, e, name)

BindObs(e) ==
  /\ route' = RouteOf(e)
  /\ enabled' = e.st.enabled /\ collector' = e.st.collector /\ userData' = e.st.userData
  /\ sent' = e.st.sent /\ keys' = ToSet(e.st.keys) /\ hdrs' = ToSet(e.st.hdrs) /\ leaks' = ToSet(e.st.leaks)
  /\ idsOK' = e.st.idsOK /\ aged' = e.st.aged

\* the interval timer is real: a slow machine may let more than one interval
\* elapse inside one step, so the conformance level accepts "at least one more"
AtLeastOne == sent' > sent /\ keys' = PayloadKeys /\ hdrs' = SentHeaders /\ leaks' = leaks /\ idsOK' = idsOK
StartLike ==
  /\ collector' = (enabled /\ route.idfile = "ok") /\ (IF collector' THEN AtLeastOne ELSE Silent)
  /\ UNCHANGED <<route, enabled, userData, aged>>
\* command line entry point: main.start loads the configuration AND starts the server in one go, so the
\* harness's LoadConfig step already includes the start (the first beacon may be out)
CliLoadLike ==
  /\ phase = "init" /\ enabled' = DocEnabled(route)
  /\ (IF sent' > sent THEN AtLeastOne ELSE Silent)
  /\ UNCHANGED <<route, userData, aged>>
CliStartLike ==
  /\ phase = "loaded" /\ collector' = enabled
  /\ (IF sent' > sent THEN AtLeastOne ELSE Silent) /\ (collector' => sent' > 0)
  /\ UNCHANGED <<route, enabled, userData, aged>>
TickLike ==
  /\ (IF running THEN AtLeastOne ELSE Silent)
  /\ UNCHANGED <<route, enabled, collector, userData, aged>>
\* an interval may also expire while another step is being executed
MaybeMore == IF running /\ sent' > sent THEN AtLeastOne ELSE Silent
UserDataLike == phase = "started" /\ userData' = TRUE /\ MaybeMore /\ UNCHANGED <<route, enabled, collector, aged>>
StopLike == phase = "started" /\ MaybeMore /\ UNCHANGED <<route, enabled, collector, userData, aged>>
AgeLike == phase = "started" /\ aged' = TRUE /\ MaybeMore /\ UNCHANGED <<route, enabled, collector, userData>>

ImplOf(e) ==
  CASE e.a = "LoadConfig" -> IF route.entry = "cli" THEN CliLoadLike ELSE DoLoadConfig
    [] e.a = "Age" -> AgeLike
    [] e.a = "Start" -> IF route.entry = "cli" THEN CliStartLike ELSE phase = "loaded" /\ StartLike
    [] e.a = "UserData" -> UserDataLike
    [] e.a = "Tick" -> TickLike
    [] e.a = "Stop" -> StopLike
    [] OTHER -> FALSE

\* the first line is the Open line of the first run
TraceInit ==
  /\ route = RouteOf(Trace[1])
  /\ phase = "init" /\ enabled = TRUE /\ collector = FALSE /\ running = FALSE
  /\ userData = FALSE /\ sent = 0 /\ keys = {} /\ hdrs = {} /\ leaks = {} /\ idsOK = TRUE /\ aged = FALSE
  /\ l = 2

TraceNext ==
  /\ Trace[l].a # "End"
  /\ l' = l + 1
  /\ LET e == Trace[l] IN
     IF e.a = "Global"
     THEN /\ Chk(e.unattributed = 0, "P", e, "C19_Unattributed")
          /\ UNCHANGED vars
     ELSE
     /\ BindObs(e)
     /\ phase' = CASE e.a = "Open" -> "init" [] e.a = "LoadConfig" -> "loaded" [] e.a = "Start" -> "started"
                   [] e.a = "Stop" -> "stopped" [] OTHER -> phase
     /\ running' = CASE e.a = "Open" -> FALSE [] e.a = "Start" -> e.st.collector [] e.a = "Stop" -> FALSE
                     [] OTHER -> running
     /\ Chk(e.obs.err = "", "C", e, "step-error")
     /\ Chk(C19_Silent', "P", e, "C19_Silent")
     /\ Chk(C19_NoCollector', "P", e, "C19_NoCollector")
     /\ Chk(C19_Whitelist', "P", e, "C19_Whitelist")
     /\ Chk(C19_NoLeak', "P", e, "C19_NoLeak")
     /\ Chk(C19_InstanceId', "P", e, "C19_InstanceId")
     /\ Chk(Feasible(route'), "C", e, "infeasible-route")
     /\ IF e.a = "Open"
        THEN Chk(sent' = 0, "I", e, "fresh")
        ELSE /\ Chk(route' = route /\ sent' >= sent, "P", e, "C19_Step")
             /\ Chk(ImplOf(e), "I", e, "step")
             /\ Chk(ConfigAsDocumented', "I", e, "ConfigAsDocumented")
             /\ Chk(e.st.urlOK, "I", e, "url")

TraceSpec == TraceInit /\ [][TraceNext]_tvars

Done == PrintT(<<"DONE", TLCGet("stats").diameter, Len(Trace)>>)
=============================================================================
