SPECIFICATION TraceSpec
CONSTANTS
  Brokers = {"a", "b", "c"}
  Servers = {"a", "b"}
  Members = {"m1", "m2", "m3"}
  Dense = FALSE
  RecheckAtApply = TRUE
  KeepTimers = FALSE
  CountAllWit = FALSE
  RetryBlind = FALSE
POSTCONDITION Done
CHECK_DEADLOCK FALSE
