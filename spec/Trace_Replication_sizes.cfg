SPECIFICATION TraceSpec
CONSTANTS
  R = {"a", "b", "c"}
  MinISR = 2
  FetchMax = 2
  WideEvery = 2
  OffsetReset = "all"
  LateResp = "drop"
  HWFallback = TRUE
  ElectAlive = TRUE
  AllowLag = TRUE
  ElectDown = TRUE
POSTCONDITION Done
CHECK_DEADLOCK FALSE
