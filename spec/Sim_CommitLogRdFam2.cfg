SPECIFICATION RdFam2Spec
CONSTANTS
  MaxRecs = 10
  MaxBatch = 2
  MaxOps = 10
  MaxEpoch = 1
  CapSet = {2, 3, 4}
  OccSet = {FALSE}
  UseReaders = TRUE
CHECK_DEADLOCK FALSE
