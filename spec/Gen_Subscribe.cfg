CONSTANTS
  MaxN = 8
