---------------------------- MODULE MC_Envelope ----------------------------
(* Bounded instance of Envelope.tla.                                        *)
(*  - depth-one "table" part: every abstract input x decoder kind x pbOK is *)
(*    one Decode transition from the initial state (TLC enumerates the full *)
(*    product and checks the P_* predicates on the transcription);          *)
(*  - every payload size up to MaxN is marshalled and decoded (RoundTrip);  *)
(*  - server part: sequences of up to MaxPub raw publishes from the smaller *)
(*    product PubLens x PubHLs (also the stimulus generator, -simulate).    *)
EXTENDS Envelope, TLC

CONSTANTS MaxPub, PubLens, PubHLs, MaxN, TableOn, MaxInt, MaxShape, IntAnywhere
VARIABLES last, nPub, nInt
mcvars == <<vars, last, nPub, nInt>>

PubInputs == {i \in [len : PubLens, magicOK : BOOLEAN, verOK : BOOLEAN, hl : PubHLs, crcFlag : BOOLEAN,
                     otherFlags : BOOLEAN, typeOK : BOOLEAN, crcOK : BOOLEAN] :
                \* wrong magic / version are single decision rows: keep one representative of each
                /\ ~i.magicOK => (i.verOK /\ i.typeOK /\ ~i.crcFlag /\ ~i.otherFlags /\ i.crcOK)
                /\ ~i.verOK => (i.typeOK /\ ~i.crcFlag /\ ~i.otherFlags /\ i.crcOK)}

MCInit == Init /\ last = [a |-> "Open"] /\ nPub = 0 /\ nInt = 0

MCDecode(dec, i, pbOK) ==
  /\ TableOn /\ last.a = "Open"
  /\ PbFeasible(i, pbOK) /\ (dec = "repl" => pbOK)
  /\ DoDecode(dec, i, pbOK)
  /\ last' = [a |-> "Decode", dec |-> dec, i |-> i, pbOK |-> pbOK] /\ UNCHANGED <<nPub, nInt>>

MCRoundTrip(dec, n) ==
  /\ TableOn /\ last.a = "Open"
  /\ n # 1 /\ (dec = "repl" => n >= ReplFixed)
  /\ DoRoundTrip(dec, n)
  /\ last' = [a |-> "RoundTrip", dec |-> dec, n |-> n] /\ UNCHANGED <<nPub, nInt>>

MCPublishRaw(i, pbOK) ==
  /\ last.a \in {"Open", "PublishRaw", "ReadBack", "Internal", "Subject"} /\ nPub < MaxPub
  /\ IntAnywhere \/ nInt = 0      \* design check: internal traffic and publishes are explored separately
  /\ PbFeasible(i, pbOK)
  /\ DoPublishRaw(i, pbOK, nPub + 1)
  /\ last' = [a |-> "PublishRaw", i |-> i, pbOK |-> pbOK, id |-> nPub + 1]
  /\ nPub' = nPub + 1 /\ UNCHANGED nInt

\* guards hoisted out of the quantifiers: TLC would otherwise walk the whole product in every state
MCReadBack ==
  /\ last.a = "PublishRaw"
  /\ DoReadBack
  /\ last' = [a |-> "ReadBack"] /\ UNCHANGED <<nPub, nInt>>

\* bytes for an internal RPC subject: the representative inputs of PubInputs with the two lengths that
\* leave room for a request, every handler, every request shape
IntInputs == {i \in PubInputs : i.len \in {8, 28} /\ i.hl \in {8, 12, 255}}
MCInternal(h, i, pbOK, shape) ==
  /\ last.a \in {"Open", "PublishRaw", "ReadBack", "Internal", "Subject"} /\ nInt < MaxInt
  /\ IntAnywhere \/ nPub = 0
  /\ PbFeasible(i, pbOK) /\ (~pbOK => shape = 0)
  /\ DoInternal(h, i, pbOK, shape)
  /\ last' = [a |-> "Internal", h |-> h, i |-> i, pbOK |-> pbOK, shape |-> shape]
  /\ nInt' = nInt + 1 /\ UNCHANGED nPub

\* bytes for any subject of the inventory that the live part feeds, naming entities in every relation to
\* what exists on the receiver (EntsOf).  len 8 = no payload, len 28 = a payload (the harness records the
\* real length of the request it built).
MCSubject(h, i, pbOK, x) ==
  /\ last.a \in {"Open", "PublishRaw", "ReadBack", "Internal", "Subject"} /\ nInt < MaxInt
  /\ IntAnywhere \/ nPub = 0
  /\ PbFeasible(i, pbOK) /\ ((~pbOK \/ i.len = 8) => x = NoEnt)
  \* stimulus generation (IntAnywhere): entity relations in canonical envelopes only - the complete product is
  \* replayed from MC_Envelope_sweep.cfg, the simulation is there for the interleaving with publishes
  /\ IntAnywhere => (x = NoEnt \/ (Canonical(i) /\ i.crcOK))
  /\ DoSubject(h, i, pbOK, x)
  /\ last' = [a |-> "Subject", h |-> h, i |-> i, pbOK |-> pbOK, ent |-> x]
  /\ nInt' = nInt + 1 /\ UNCHANGED nPub

MCNext ==
  \/ (TableOn /\ last.a = "Open") /\ \E dec \in Decoders, i \in Inputs, pbOK \in BOOLEAN : MCDecode(dec, i, pbOK)
  \/ (TableOn /\ last.a = "Open") /\ \E dec \in Decoders, n \in 0..MaxN : MCRoundTrip(dec, n)
  \/ (last.a \in {"Open", "PublishRaw", "ReadBack", "Internal", "Subject"} /\ nPub < MaxPub /\ (IntAnywhere \/ nInt = 0)) /\ \E i \in PubInputs, pbOK \in BOOLEAN : MCPublishRaw(i, pbOK)
  \/ MCReadBack
  \/ (last.a \in {"Open", "PublishRaw", "ReadBack", "Internal", "Subject"} /\ nInt < MaxInt /\ (IntAnywhere \/ nPub = 0)) /\
       \E h \in InternalHandlers, i \in IntInputs, pbOK \in BOOLEAN, shape \in 0..MaxShape : MCInternal(h, i, pbOK, shape)

  \/ (last.a \in {"Open", "PublishRaw", "ReadBack", "Internal", "Subject"} /\ nInt < MaxInt /\ (IntAnywhere \/ nPub = 0)) /\
       \E h \in FedSubjects, i \in IntInputs, pbOK \in BOOLEAN : \E x \in EntsOf(h) : MCSubject(h, i, pbOK, x)

MCSpec == MCInit /\ [][MCNext]_mcvars

StepOK ==
  LET a == last' IN
  CASE a.a = "Decode" -> P_CheckEnvelope(obs'.ce, a.i) /\ P_Unmarshal(obs'.um, a.dec, a.i, a.pbOK) /\ P_Same
    [] a.a = "RoundTrip" -> obs'.um.k = "Ok" /\ obs'.um.same /\ P_Same
    [] a.a = "PublishRaw" -> P_PublishRaw(a.i, a.pbOK, a.id)
    [] a.a = "ReadBack" -> P_ReadBack
    [] a.a = "Internal" -> P_Internal
    [] a.a = "Subject" -> P_Subject(a.h, a.i, a.pbOK)
    [] OTHER -> P_Same
StepsOK == [][StepOK]_mcvars

\* the publish-only view used for the server design check (history hidden)
MCView == <<up, stored, obs, nPub, nInt, last>>
=============================================================================
