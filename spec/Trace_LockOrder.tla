------------------------- MODULE Trace_LockOrder -------------------------
(* Trace validation for LockOrder.tla: every line is one pair (operation    *)
(* applied by the FSM goroutine, LostLeadership / Reset in another one)     *)
(* executed on the real code in the schedule of the model's deadlock trace. *)
(*   FAIL "P" LO_NoDeadlock : a call did not return (deadlock)              *)
(*   FAIL "I" parked        : the applying goroutine never reached the      *)
(*                            point where its rebalance reads the streams   *)
EXTENDS Naturals, Sequences, TLC, Json

Trace == ndJsonDeserialize("trace.ndjson")
VARIABLES l
Fail(kind, e, name) == PrintT(<<"FAIL", kind, e.t, l, e.a, name, IF e.a = "Pair" THEN e.args.fsm \o "+" \o e.args.other ELSE "-">>)
Chk(ok, kind, e, name) == IF ok THEN TRUE ELSE Fail(kind, e, name)
TraceInit == l = 2   \* (the first line is the Open line of the first behaviour)
TraceNext ==
  /\ Trace[l].a # "End"
  /\ l' = l + 1
  /\ LET e == Trace[l] IN
     /\ Chk(e.obs.fsm # "hang" /\ e.obs.other # "hang", "P", e, "LO_NoDeadlock")
     /\ Chk(e.a = "Open" \/ e.obs.parked, "I", e, "parked")
TraceSpec == TraceInit /\ [][TraceNext]_l
Done == PrintT(<<"DONE", TLCGet("stats").diameter, Len(Trace)>>)
=============================================================================
