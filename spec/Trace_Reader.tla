--------------------------- MODULE Trace_Reader ---------------------------
(* Trace validation for Reader.tla: every line of trace.ndjson is one step  *)
(* of one goroutine of the real code, executed gate to gate, with the       *)
(* abstract state projected from the real data structures after the step.   *)
(* The variables are bound to the recorded state, then                      *)
(*   - what C03 demands of a step (P_Step) and, on the last line of a       *)
(*     behaviour, of a quiescent state (P_Quiet) is evaluated: a failure is *)
(*     a property violation on real behaviour (FAIL "P" ...),               *)
(*   - the action as the specification performs it is evaluated as a test:  *)
(*     a failure is conformance drift (FAIL "I" ...).                       *)
EXTENDS Reader, TLC, Json

Trace == ndJsonDeserialize("trace.ndjson")

VARIABLES l
tvars == <<vars, l>>

ToSet(s) == {s[i] : i \in DOMAIN s}

Bind(e) ==
  /\ cfg' = e.st.cfg /\ segs' = e.st.segs /\ active' = e.st.active /\ listed' = e.st.listed
  /\ hw' = e.st.hw /\ ro' = e.st.ro /\ wait' = ToSet(e.st.wait)
  /\ app' = e.st.app /\ rol' = e.st.rol /\ tog' = e.st.tog
  /\ rd' = e.st.rd /\ del' = e.st.del

TraceInit ==
  LET e == Trace[1] IN
  /\ cfg = e.st.cfg /\ segs = e.st.segs /\ active = e.st.active /\ listed = e.st.listed
  /\ hw = e.st.hw /\ ro = e.st.ro /\ wait = ToSet(e.st.wait)
  /\ app = e.st.app /\ rol = e.st.rol /\ tog = e.st.tog
  /\ rd = e.st.rd /\ del = e.st.del
  /\ l = 2

Fail(kind, e, name) == PrintT(<<"FAIL", kind, e.t, l, e.a, name>>)
Chk(ok, kind, e, name) == IF ok THEN TRUE ELSE Fail(kind, e, name)

ImplOf(e) ==
  CASE e.a = "AppBegin" -> AppBegin
    [] e.a = "AppSet" -> DoAppSet /\ e.args.err = ""
    [] e.a = "RolBegin" -> RolSplit
    [] e.a = "SetHW" -> DoSetHW(e.args.h)
    [] e.a = "SetHW2" -> DoSetHW2(e.args.h1, e.args.h2)
    [] e.a = "TogBegin" -> TogStore(e.args.b)
    [] e.a = "NewReader" -> DoNewReaderAtomic(e.args.r, e.args.s)    \* lock-step: both steps back to back
    [] e.a = "Step" ->
         (CASE e.args.p = "app" -> AppSplit \/ AppList \/ AppNoSplit \/ AppWrite
            [] e.args.p = "rol" -> RolList
            [] e.args.p = "tog" -> TogNotify
            [] OTHER -> RNext(e.args.p))
    [] OTHER -> UNCHANGED vars       \* Skip, RolNoop

TraceNext ==
  /\ Trace[l].a # "End"
  /\ l' = l + 1
  /\ LET e == Trace[l] IN
     /\ Bind(e)
     /\ IF e.a = "Open" THEN TRUE
        ELSE IF e.a \in {"Quiet", "Commit"} THEN
             \* all gates open until nothing but blocked readers is left: many
             \* deliveries in one line (C03_Run below judges the whole run).
             \* "Commit" = the epilogue of every behaviour: SetHighWatermark(log
             \* end), then quiescence again - now the whole log is owed
             /\ Chk(P_HW, "P", e, "C03_HWMonotone")
             /\ Chk(e.a = "Commit" => (P_HWSet({e.args.h}) /\ hw' = Newest'), "P", e, "C03_HWMonotone")
             /\ Chk(\A r \in Readers : Len(del'[r]) >= Len(del[r])
                                        /\ SubSeq(del'[r], 1, Len(del[r])) = del[r], "P", e, "C03_Delivery")
             /\ Chk(P_NoDeath, "P", e, "C03_ReaderFailed")
             /\ Chk(P_RoEndRun, "P", e, "C03_RoEnd")
             /\ Chk(P_Quiet', "P", e, "C03_Quiescent")
        ELSE /\ Chk(P_HW, "P", e, "C03_HWMonotone")
             /\ Chk(CASE e.a = "SetHW" -> P_HWSet({e.args.h})
                      [] e.a = "SetHW2" -> P_HWSet({e.args.h1, e.args.h2})
                      [] OTHER -> TRUE, "P", e, "C03_HWMonotone")
             /\ Chk(P_Del, "P", e, "C03_Delivery")
             /\ Chk(P_NoDeath, "P", e, "C03_ReaderFailed")
             /\ Chk(P_RoEnd, "P", e, "C03_RoEnd")
             /\ Chk(ImplOf(e), "I", e, "step")
     /\ Chk(C03_Run', "P", e, "C03_Run")
     /\ Chk(C03_Wakeable', "P", e, "C03_Wakeable")
     /\ Chk(C03_NoLostWakeup', "P", e, "C03_NoLostWakeup")
     /\ Chk(TypeOK', "I", e, "TypeOK")

TraceSpec == TraceInit /\ [][TraceNext]_tvars

Done == PrintT(<<"DONE", TLCGet("stats").diameter, Len(Trace)>>)
=============================================================================
