SPECIFICATION TraceSpec
CONSTANTS
  Fix <- FixRepo
POSTCONDITION Done
CHECK_DEADLOCK FALSE
