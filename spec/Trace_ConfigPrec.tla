-------------------------- MODULE Trace_ConfigPrec --------------------------
(* Trace validation for X07: the variables of ConfigPrec are bound to the   *)
(* recorded state line by line (file and requested overrides are the inputs *)
(* of the stimulus; srv, ex, scfg, eff, opt are projections of the real     *)
(* Config / metadata / partition / commit log / cleaner objects).  For      *)
(* every recorded call the P_* predicates are evaluated (kind "P": verdict) *)
(* and the Do* actions as tests (kind "I": conformance drift).              *)
EXTENDS ConfigPrec, Sequences, TLC, Json
Trace == ndJsonDeserialize("trace.ndjson")
VARIABLES l

Fail(kind, e, n, name) == PrintT(<<"FAIL", kind, e.t, n, e.a, name>>)
Chk(ok, kind, e, n, name) == IF ok THEN TRUE ELSE Fail(kind, e, n, name)

StageOf(e) == IF e.a = "Open" THEN "new" ELSE "up"
Bind(e) ==
  /\ hasFile' = e.st.hasFile /\ file' = e.st.file /\ stage' = StageOf(e) /\ srv' = e.st.srv
  /\ ex' = e.st.ex /\ req' = e.st.req /\ scfg' = e.st.scfg /\ eff' = e.st.eff /\ opt' = e.st.opt

TraceInit ==
  /\ l = 1
  /\ hasFile = Trace[1].st.hasFile /\ file = Trace[1].st.file /\ stage = "new" /\ srv = Trace[1].st.srv
  /\ ex = Trace[1].st.ex /\ req = Trace[1].st.req /\ scfg = Trace[1].st.scfg /\ eff = Trace[1].st.eff
  /\ opt = Trace[1].st.opt

\* name of a broken promise: the setting and where its promised value comes from
EffName(f, o, e) ==
  LET B == Broken(f, o, e) IN
  IF B = {} THEN "none"
  ELSE LET k == CHOOSE x \in B : \A y \in B : (x = "sage" \/ y # "sage")  \* deterministic enough: any member
       IN k \o ":" \o Source(k, f, o)

OpenS == {s \in S : ex'[s] = "open"}
BadS == {s \in OpenS : ~P_Effective(file', req'[s], eff'[s])}
AllEffName == IF BadS = {} THEN "none"
              ELSE LET s == CHOOSE x \in BadS : TRUE IN EffName(file', req'[s], eff'[s])

Moved == {k \in K : \E s \in S : eff'[s][k] # eff[s][k]}
MovedName == IF Moved = {} THEN "none" ELSE CHOOSE k \in Moved : TRUE

Unchanged(s) == \A t \in S \ {s} : scfg'[t] = scfg[t] /\ eff'[t] = eff[t] /\ opt'[t] = opt[t] /\ ex'[t] = ex[t]

CheckLoad(e, n) ==
  /\ Chk(e.err = "", "P", e, n, "X07_Loads")
  /\ Chk(e.err # "" \/ (srv' = LoadCfg(hasFile', file') /\ \A s \in S : ex'[s] = "no"), "I", e, n, "DoParseFile")

CheckCreate(e, n) ==
  LET s == e.args.s
      o == e.args.ovr IN
  /\ Chk(e.err = "" /\ ex'[s] = "open", "P", e, n, "X07_Creates")
  /\ Chk(e.err # "" \/ ex'[s] # "open" \/ P_Effective(file', o, eff'[s]), "P", e, n,
         "X07_Effective:" \o EffName(file', o, eff'[s]))
  /\ Chk(\A t \in S \ {s} : eff'[t] = eff[t], "P", e, n, "X07_OtherStreamUntouched:" \o MovedName)
  /\ Chk(e.err # "" \/ ex'[s] # "open" \/
         (/\ req'[s] = o /\ scfg'[s] = o                              \* DoCreateStream
          /\ eff'[s] = EffOf(srv, o) /\ opt'[s] = OptOf(srv, o)       \* DoOpenPartition
          /\ srv' = srv /\ Unchanged(s)), "I", e, n, "DoCreateStream/DoOpenPartition")

CheckRestart(e, n) ==
  /\ Chk(e.err = "" /\ ex' = ex, "P", e, n, "X07_ComesBack")
  /\ Chk(e.err # "" \/ ex' # ex \/ P_Restart, "P", e, n, "P_Restart:" \o MovedName)
  /\ Chk(e.err # "" \/ ex' # ex \/ BadS = {}, "P", e, n, "X07_Effective:" \o AllEffName)
  /\ Chk(e.err # "" \/ ex' # ex \/ DoRestart(e.args.snap), "I", e, n, "DoRestart")

CheckChange(e, n) ==
  /\ Chk(e.err = "" /\ ex' = ex, "P", e, n, "X07_ComesBack")
  /\ Chk(e.err # "" \/ ex' # ex \/ P_Change, "P", e, n, "P_Change:" \o AllEffName)
  /\ Chk(e.err # "" \/ ex' # ex \/ DoServerConfigChangeAndRestart(e.args.file), "I", e, n,
         "DoServerConfigChangeAndRestart")

CheckPauseResume(e, n) ==
  /\ Chk(e.err = "" /\ ex' = ex, "P", e, n, "X07_ComesBack")
  /\ Chk(e.err # "" \/ ex' # ex \/ P_PauseResume, "P", e, n, "P_PauseResume:" \o MovedName)
  /\ Chk(e.err # "" \/ ex' # ex \/ DoPauseResume(e.args.s), "I", e, n, "DoPauseResume")

TraceNext ==
  /\ Trace[l + 1].a # "End"
  /\ l' = l + 1
  /\ Bind(Trace[l + 1])
  /\ LET e == Trace[l + 1]
         n == l + 1 IN
     CASE e.a = "Open"        -> TRUE
       [] e.a = "Load"        -> CheckLoad(e, n)
       [] e.a = "Create"      -> CheckCreate(e, n)
       [] e.a = "Restart"     -> CheckRestart(e, n)
       [] e.a = "Change"      -> CheckChange(e, n)
       [] e.a = "PauseResume" -> CheckPauseResume(e, n)
       [] OTHER               -> Fail("C", e, n, "unknown line")

TraceSpec == TraceInit /\ [][TraceNext]_<<l, vars>>
Done == PrintT(<<"DONE", TLCGet("stats").diameter, Len(Trace)>>)
=============================================================================
