SPECIFICATION MCSpec
CONSTANTS
  Nodes = {"a"}
  SnapCarriesLP = TRUE
  Kinds = {"E"}
  MaxOps = 3
  MaxSys = 0
  MaxFail = 0
  MaxRecFail = 0
  MaxBlock = 1
  MaxTake = 0
  MaxCrash = 0
  MaxStep = 0
  MaxZombie = 0
  MaxSnap = 1
  MaxForeign = 0
  Keeps = {1}
  Eager = TRUE
INVARIANTS C18_Obtainable
PROPERTIES StepsOK
VIEW MCView
CHECK_DEADLOCK FALSE
