SPECIFICATION MCSpec
CONSTANTS
  Fix = {"tail", "suffix", "epoch"}
  Taints = {}
  GenMode = TRUE
  MaxSkip = 1
  MaxOps = 3
  MaxPost = 0
  MaxRecs = 4
  MaxBatch = 2
  MaxEpoch = 2
  MaxHit = 1
  MaxRecCrash = 0
  CapSet = {2}
  RetSet = {0, 2}
  CompactSet = {FALSE, TRUE}
  AgeSet = {0, 3}
  Keys = {"a", "nil"}
VIEW GenView
CHECK_DEADLOCK FALSE
