--------------------------- MODULE MC_ConfigPrec ---------------------------
(* Bounded instance of ConfigPrec: the decision table is enumerated for     *)
(* every FOCUS of at most FocusSize settings (all their file values x all   *)
(* their override values, absent included; every other setting absent), two *)
(* streams created one after the other, and MaxOps life-cycle operations    *)
(* (restart from the log / from a snapshot, file edited + restart, pause +  *)
(* resume).  The settings are independent of each other in the code except  *)
(* for segment.max.age <- retention.max.age, so pairs cover the table;      *)
(* combinations over all 13 settings are added by checks/x07.py (seeded).   *)
EXTENDS ConfigPrec, TLC
CONSTANTS FocusSize, MaxOps, Streams, ChangeOne
VARIABLES focus, last, nOps

mcvars == <<vars, focus, last, nOps>>

\* representative values: pairwise distinct over the settings of one type, so that a value taken from
\* the wrong field shows; zero everywhere (an explicit zero / false is the interesting override);
\* a negative value where the type allows and the code has a sign test
FV == [rbytes |-> {0, 1024, -1}, rmsgs |-> {0, 100}, rage |-> {0, 3600000}, clean |-> {0, 60000},
       sbytes |-> {0, 4096}, sage |-> {0, 120000}, compact |-> {0, 1}, cgor |-> {0, 3},
       apause |-> {0, 7200000, -1000}, adis |-> {0, 1}, minisr |-> {1, 2}, occ |-> {0, 1}, enc |-> {0, 1}]
OV == [rbytes |-> {0, 2048}, rmsgs |-> {0, 7}, rage |-> {0, 61000}, clean |-> {0, 31000},
       sbytes |-> {0, 8192}, sage |-> {0, 45000}, compact |-> {0, 1}, cgor |-> {0, 2},
       apause |-> {0, 3601000}, adis |-> {0, 1}, minisr |-> {1, 3}, occ |-> {0, 1}, enc |-> {0, 1}]

Foci == {F \in SUBSET K : Cardinality(F) >= 1 /\ Cardinality(F) <= FocusSize}
\* cheaper construction of the same set (TLC cannot enumerate [K -> big set] for 13 settings)
Vary(F, vals) ==
  LET RECURSIVE Build(_, _)
      Build(rest, acc) ==
        IF rest = {} THEN acc
        ELSE LET k == CHOOSE x \in rest : TRUE
             IN Build(rest \ {k}, {[g EXCEPT ![k] = v] : g \in acc, v \in vals[k] \cup {Abs}})
  IN Build(F, {AllAbs})

NoneS == [s \in S |-> AllAbs]

MCInit ==
  /\ focus \in Foci
  /\ hasFile \in BOOLEAN
  /\ file \in (IF hasFile THEN Vary(focus, FV) ELSE {AllAbs})
  /\ stage = "new" /\ srv = AllAbs
  /\ ex = [s \in S |-> "no"] /\ req = NoneS /\ scfg = NoneS /\ eff = NoneS /\ opt = [s \in S |-> NoOpt]
  /\ last = [a |-> "Open"] /\ nOps = 0

Step(a) == last' = a /\ UNCHANGED focus

\* files the operator can change the present one into: one setting of the focus at a time (ChangeOne)
\* or any file over the focus
Changed == IF ChangeOne
           THEN {f \in Vary(focus, FV) : Cardinality({k \in K : f[k] # file[k]}) = 1}
           ELSE Vary(focus, FV) \ {file}

Op == nOps < MaxOps /\ nOps' = nOps + 1 /\ \E s \in Streams : ex[s] = "open"

MCDefault == DoDefault /\ Step([a |-> "Default"]) /\ UNCHANGED nOps
MCParseFile == DoParseFile /\ Step([a |-> "ParseFile"]) /\ UNCHANGED nOps
MCCreate(s, o) ==
  /\ \A t \in Streams : t < s => ex[t] = "open"         \* stream 2 after stream 1
  /\ DoCreateStream(s, o) /\ Step([a |-> "CreateStream", s |-> s, ovr |-> o]) /\ UNCHANGED nOps
MCOpen(s) == DoOpenPartition(s) /\ Step([a |-> "OpenPartition", s |-> s]) /\ UNCHANGED nOps
MCRestart(snap) == Op /\ DoRestart(snap) /\ Step([a |-> "Restart", snap |-> snap])
MCChange(f2) == Op /\ DoServerConfigChangeAndRestart(f2) /\ Step([a |-> "Change", file |-> f2])
MCPauseResume(s) == Op /\ DoPauseResume(s) /\ Step([a |-> "PauseResume", s |-> s])

MCNext ==
  \/ MCDefault
  \/ MCParseFile
  \/ \E s \in Streams, o \in Vary(focus, OV) : MCCreate(s, o)
  \/ \E s \in Streams : MCOpen(s)
  \/ \E snap \in BOOLEAN : MCRestart(snap)
  \/ \E f2 \in Changed : MCChange(f2)
  \/ \E s \in Streams : MCPauseResume(s)

MCSpec == MCInit /\ [][MCNext]_mcvars

\* the action as the code performs it satisfies what the documentation promises
StepOK ==
  CASE last'.a = "OpenPartition" -> P_OpenPartition(last'.s)
    [] last'.a = "Restart"       -> P_Restart
    [] last'.a = "Change"        -> P_Change
    [] last'.a = "PauseResume"   -> P_PauseResume
    [] OTHER                     -> TRUE
StepsOK == [][StepOK]_mcvars

TypeOK ==
  /\ stage \in {"new", "defaulted", "up"}
  /\ \A s \in S : ex[s] \in {"no", "created", "open"}
  /\ \A s \in S : ex[s] # "open" => eff[s] = AllAbs

\* the server-wide object is never written by a stream (no aliasing)
SrvIsFile == stage = "up" => srv = LoadCfg(hasFile, file)

MCView == <<vars, focus, nOps>>
=============================================================================
