SPECIFICATION MCLiveSpec
CONSTANTS
  MaxApp = 3
  MaxTog = 2
  Starts = {0, 1, 2}
  CapSet = {1, 2}
  AtomicSet = {TRUE}
  TrackLast = FALSE
  UseRoller = TRUE
  SplitNew = TRUE
  NewLoads = 1
INVARIANTS C03_Quiet
PROPERTIES C03_Live
CHECK_DEADLOCK FALSE
