SPECIFICATION MCSpec
CONSTANTS
  MaxRecs = 3
  MaxBatch = 2
  MaxOps = 6
  MaxEpoch = 2
  CapSet = {1, 2}
  KeySet = {"nil", "a"}
  AgeSet = {0}
  MsgsSet = {0, 2}
  BytesSet = {0}
  CompactSet = {FALSE, TRUE}
  LagSet = {0}
  BigSet = {FALSE}
  MaxCleans = 2
  MaxTicks = 0
  UseWindow = TRUE
  UseReopen = TRUE
  UseEpochs = TRUE
  OccSet = {FALSE}
  MinCleanSegs = 1
  UseRevReaders = FALSE
  UseFaults = FALSE
  UseReaders = FALSE
INVARIANTS CTypeOK C01_Ordered SegsConsistent NoEmptyInnerSegment
PROPERTIES StepsOK
VIEW MCView
CHECK_DEADLOCK FALSE
