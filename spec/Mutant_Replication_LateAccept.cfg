SPECIFICATION MCSpec
CONSTANTS
  R = {"a", "b", "c"}
  MinISR = 2
  FetchMax = 2
  WideEvery = 0
  OffsetReset = "all"
  LateResp = "accept"
  HWFallback = FALSE
  ElectAlive = TRUE
  AllowLag = TRUE
  ElectDown = FALSE
  MaxMsgs = 2
  MaxElect = 1
  MaxCrash = 0
  MaxIsrOps = 0
  MaxRejects = 0
  Policies = {"ALL"}
  UseCheckpoint = FALSE
  MaxPause = 0
  MaxHold = 1
  Batch = 1
  IgnoreTaints = FALSE
INVARIANTS Inv_NoDivergence
VIEW MCView
CHECK_DEADLOCK FALSE
