SPECIFICATION MCSpec
CONSTANTS
  Brokers = {"a", "b", "c"}
  Servers = {"a", "b"}
  Members = {"m1", "m2", "m3"}
  Dense = TRUE
  RecheckAtApply = TRUE
  KeepTimers = FALSE
  CountAllWit = FALSE
  RetryBlind = FALSE
  MaxOps = 6
  MaxPend = 0
  MaxWaits = 2
  MaxParks = 1
  EpochSels = {"cur"}
  PairSels = {"cur", "old"}
  WaitModes = {"none", "good"}
  ReqServers = {"a"}
  EffectiveOnly = FALSE
INVARIANTS NoTaint
PROPERTIES StepsOK
VIEW MCView
CHECK_DEADLOCK FALSE
