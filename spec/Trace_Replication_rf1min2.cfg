SPECIFICATION TraceSpec
CONSTANTS
  R = {"a"}
  MinISR = 2
  FetchMax = 2
  WideEvery = 0
  OffsetReset = "all"
  HWFallback = TRUE
  ElectAlive = TRUE
  AllowLag = FALSE
  ElectDown = TRUE
POSTCONDITION Done
CHECK_DEADLOCK FALSE
