----------------------------- MODULE ConfigPrec -----------------------------
(***************************************************************************)
(* X07 - configuration precedence: what the operator (configuration file)  *)
(* and the stream creator (CreateStream request) configured is what the    *)
(* partition's commit log / the partition runs with.                       *)
(*                                                                         *)
(* The plumbing, one action per stage, as the code performs it:            *)
(*   DoDefault         NewDefaultConfig()                     (config.go)  *)
(*   DoParseFile       NewConfig(file): viper, parseStreamsConfig,         *)
(*                     parseClusteringConfig, the segment.max.age rule     *)
(*   DoCreateStream    apiServer.CreateStream: getStreamConfig(req) is     *)
(*                     stored with the stream (Raft log / snapshot)        *)
(*   DoOpenPartition   Server.newPartition: copy of Config.Streams (+      *)
(*                     Clustering.MinISR), StreamsConfig.ApplyOverrides,   *)
(*                     commitlog.Options, commitlog.New (its own defaults  *)
(*                     for zero values), cleaners, partition fields        *)
(*   DoRestart         same file, stream configuration re-applied from the *)
(*                     Raft log (snap = FALSE) or the snapshot (TRUE)      *)
(*   DoServerConfigChangeAndRestart   the operator edits the file          *)
(*   DoPauseResume     replacePartition: the partition object and its log  *)
(*                     are built again from the stored configuration       *)
(*                                                                         *)
(* Values are integers throughout (uniform JSON types): durations in       *)
(* milliseconds, booleans 0 / 1, Abs = "not given".                        *)
(***************************************************************************)
EXTENDS Integers, FiniteSets

CONSTANTS SageFix      \* TRUE: an explicit `segment.max.age: 0` in the file is honoured (repaired tree)

Abs == -9              \* the setting is absent from the file / from the request
S == 1 .. 2            \* streams (two: one created after the other - nothing may leak)

K == {"rbytes", "rmsgs", "rage", "clean", "sbytes", "sage", "compact", "cgor",
      "apause", "adis", "minisr", "occ", "enc"}

\* documentation/configuration.md, column "Default" (sage: "value of retention.max.age")
DocDefault == [rbytes |-> 0, rmsgs |-> 0, rage |-> 604800000, clean |-> 300000, sbytes |-> 268435456,
               sage |-> Abs, compact |-> 0, cgor |-> 10, apause |-> 0, adis |-> 0, minisr |-> 1,
               occ |-> 0, enc |-> 0]

\* NewDefaultConfig(): compact.max.goroutines stays 0 in the Config (the compact cleaner turns 0 into 10)
CodeDefault == [DocDefault EXCEPT !.cgor = 0, !.sage = 604800000]

\* settings for which the documentation gives the value 0 no meaning (the commit log substitutes its own default)
ZeroUndef == {"clean", "sbytes", "cgor"}
LogDefault == [clean |-> 300000, sbytes |-> 1073741824, cgor |-> 10]

AllAbs == [k \in K |-> Abs]

(***************************************************************************)
(* The stages as functions (so that they compose and can be evaluated on   *)
(* recorded data).                                                          *)
(***************************************************************************)
ParseFile(d, file) ==
  LET s1 == [k \in K |-> IF k = "sage" THEN (IF file[k] # Abs THEN file[k] ELSE 0)     \* "Reset SegmentMaxAge"
                         ELSE IF file[k] # Abs THEN file[k] ELSE d[k]]
  IN [s1 EXCEPT !.sage = IF SageFix THEN (IF file.sage # Abs THEN file.sage ELSE s1.rage)
                         ELSE (IF s1.sage = 0 THEN s1.rage ELSE s1.sage)]

LoadCfg(hasFile, file) == IF hasFile THEN ParseFile(CodeDefault, file) ELSE CodeDefault

ApplyOverrides(srv, sc) == [k \in K |-> IF sc[k] # Abs THEN sc[k] ELSE srv[k]]

\* what the partition / its log / its cleaners run with
EffOf(srv, sc) ==
  LET a == ApplyOverrides(srv, sc)
  IN [k \in K |-> IF k \in ZeroUndef /\ a[k] = 0 THEN LogDefault[k] ELSE a[k]]

\* the commitlog.Options as handed to commitlog.New (before the log's own defaults)
OptOf(srv, sc) ==
  LET a == ApplyOverrides(srv, sc)
  IN [rbytes |-> a.rbytes, rmsgs |-> a.rmsgs, rage |-> a.rage, cgor |-> a.cgor]
NoOpt == [rbytes |-> Abs, rmsgs |-> Abs, rage |-> Abs, cgor |-> Abs]

(***************************************************************************)
(* What the documentation promises (verdicts only from these).             *)
(***************************************************************************)
SrvRage(file) == IF file.rage # Abs THEN file.rage ELSE DocDefault.rage

Want(k, file, ovr) == IF ovr[k] # Abs THEN ovr[k] ELSE IF file[k] # Abs THEN file[k] ELSE DocDefault[k]

\* "override wins when present; otherwise the server's value; otherwise the documented default";
\* nothing else enters: the promised value of k is a function of k's own sources only (independence)
Promised(k, file, ovr, e) ==
  IF k = "sage" /\ ovr.sage = Abs /\ file.sage = Abs
  THEN e.sage \in {SrvRage(file), e.rage}       \* "value of retention.max.age": of the server or of the stream
  ELSE LET w == Want(k, file, ovr)
       IN IF w = 0 /\ k \in ZeroUndef THEN TRUE ELSE e[k] = w

P_Effective(file, ovr, e) == \A k \in K : Promised(k, file, ovr, e)

\* the settings whose promise is broken (for naming a failure)
Broken(file, ovr, e) == {k \in K : ~Promised(k, file, ovr, e)}

\* where the promised value of k comes from (argument class of a failure)
Source(k, file, ovr) ==
  IF ovr[k] # Abs THEN (IF ovr[k] = 0 THEN "override-zero" ELSE "override")
  ELSE IF file[k] # Abs THEN (IF file[k] = 0 THEN "file-zero" ELSE "file")
  ELSE "default"

(***************************************************************************)
(* State and actions.                                                       *)
(***************************************************************************)
VARIABLES
  hasFile,   \* the server is started with --config
  file,      \* [K -> value | Abs]: what the configuration file says
  stage,     \* "new" | "defaulted" | "up"
  srv,       \* the server-wide Config.Streams (+ Clustering.MinISR) object
  ex,        \* [S -> "no" | "created" | "open"]
  req,       \* [S -> overrides as requested]          (input, kept for the predicates)
  scfg,      \* [S -> proto.StreamConfig stored with the stream]
  eff,       \* [S -> what the partition runs with]
  opt        \* [S -> Options handed to the commit log]

vars == <<hasFile, file, stage, srv, ex, req, scfg, eff, opt>>

Reopen(sv, sc, e) == [s \in S |-> IF e[s] = "open" THEN EffOf(sv, sc[s]) ELSE AllAbs]
ReopenOpt(sv, sc, e) == [s \in S |-> IF e[s] = "open" THEN OptOf(sv, sc[s]) ELSE NoOpt]

DoDefault ==
  /\ stage = "new"
  /\ stage' = "defaulted"
  /\ srv' = CodeDefault
  /\ UNCHANGED <<hasFile, file, ex, req, scfg, eff, opt>>

DoParseFile ==
  /\ stage = "defaulted"
  /\ stage' = "up"
  /\ srv' = IF hasFile THEN ParseFile(srv, file) ELSE srv
  /\ UNCHANGED <<hasFile, file, ex, req, scfg, eff, opt>>

DoCreateStream(s, ovr) ==
  /\ stage = "up" /\ ex[s] = "no"
  /\ ex' = [ex EXCEPT ![s] = "created"]
  /\ req' = [req EXCEPT ![s] = ovr]
  /\ scfg' = [scfg EXCEPT ![s] = ovr]          \* getStreamConfig copies field by field; stored as given
  /\ UNCHANGED <<hasFile, file, stage, srv, eff, opt>>

DoOpenPartition(s) ==
  /\ stage = "up" /\ ex[s] = "created"
  /\ ex' = [ex EXCEPT ![s] = "open"]
  /\ eff' = [eff EXCEPT ![s] = EffOf(srv, scfg[s])]
  /\ opt' = [opt EXCEPT ![s] = OptOf(srv, scfg[s])]
  /\ UNCHANGED <<hasFile, file, stage, srv, req, scfg>>      \* the server-wide object is copied, not written

Settled == stage = "up" /\ \A s \in S : ex[s] # "created"

DoRestart(snap) ==
  /\ Settled
  /\ srv' = LoadCfg(hasFile, file)
  /\ eff' = Reopen(srv', scfg, ex)
  /\ opt' = ReopenOpt(srv', scfg, ex)
  /\ UNCHANGED <<hasFile, file, stage, ex, req, scfg>>

DoServerConfigChangeAndRestart(f2) ==
  /\ Settled /\ hasFile
  /\ file' = f2
  /\ srv' = LoadCfg(hasFile, f2)
  /\ eff' = Reopen(srv', scfg, ex)
  /\ opt' = ReopenOpt(srv', scfg, ex)
  /\ UNCHANGED <<hasFile, stage, ex, req, scfg>>

DoPauseResume(s) ==
  /\ Settled /\ ex[s] = "open"
  /\ eff' = [eff EXCEPT ![s] = EffOf(srv, scfg[s])]
  /\ opt' = [opt EXCEPT ![s] = OptOf(srv, scfg[s])]
  /\ UNCHANGED <<hasFile, file, stage, srv, ex, req, scfg>>

(***************************************************************************)
(* Step predicates over (state before, state after).                       *)
(***************************************************************************)
\* every open stream runs with what its creator and the operator configured
X07_Effective == \A s \in S : ex[s] = "open" => P_Effective(file, req[s], eff[s])

P_OpenPartition(s) == P_Effective(file, req'[s], eff'[s]) /\ \A t \in S \ {s} : eff'[t] = eff[t]
P_Restart          == \A s \in S : eff'[s] = eff[s]                     \* restart-stable
P_Change           == \A s \in S : ex[s] = "open" => P_Effective(file', req[s], eff'[s])
P_PauseResume      == \A s \in S : eff'[s] = eff[s]
=============================================================================
