------------------------- MODULE Trace_GroupSub -------------------------
(* Trace validation for GroupSub.tla.  Every line of trace.ndjson is one    *)
(* step executed on the real partition.Subscribe / subscription.Close /     *)
(* subscribe loop of a one-node server, with the abstract state projected   *)
(* from the real objects after the step.  The variables are bound to the    *)
(* recorded state, then                                                     *)
(*   - P_<step> and C13_OneActive are evaluated: a failure is a violation   *)
(*     of property C13 on real behaviour (FAIL "P"),                        *)
(*   - the step as the specification performs it and the mechanism          *)
(*     invariants are evaluated as tests: a failure is conformance drift    *)
(*     (FAIL "I").                                                          *)
(* Many behaviours are concatenated; an "Open" line starts the next one.    *)
EXTENDS GroupSub, TLC, Json

Trace == ndJsonDeserialize("trace.ndjson")

VARIABLES l, regce, nloops
tvars == <<vars, l, regce, nloops>>

Bind(e) ==
  /\ subs' = e.st.subs /\ reg' = e.st.reg /\ obs' = e.obs /\ ldr' = e.st.ldr
  /\ regce' = e.st.regce /\ nloops' = e.st.nloops

TraceInit ==
  LET e == Trace[1] IN
  /\ subs = e.st.subs /\ reg = e.st.reg /\ obs = e.obs /\ ldr = e.st.ldr
  /\ regce = e.st.regce /\ nloops = e.st.nloops
  /\ l = 2

Fail(kind, e, name) == PrintT(<<"FAIL", kind, e.t, l, e.a, name>>)
Chk(ok, kind, e, name) == IF ok THEN TRUE ELSE Fail(kind, e, name)

Same == subs' = subs /\ reg' = reg /\ ldr' = ldr

PropOf(e) ==
  CASE e.a = "Subscribe" -> P_Subscribe(e.args.q)
    [] e.a = "Burst" -> P_Burst(e.args.g, e.args.cs, e.args.e)
    [] e.a = "Cancel" -> P_Cancel(e.args.s)
    [] e.a = "LoopExit" -> P_LoopExit(e.args.s)
    [] e.a = "Race" -> P_Race(e.args.s, e.args.q)
    [] e.a = "Elect" -> P_Elect
    [] e.a = "Resume" -> P_Resume
    [] OTHER -> Same

ImplOf(e) ==
  CASE e.a = "Subscribe" -> DoSubscribe(e.args.q)
    [] e.a = "Burst" -> DoBurst(e.args.g, e.args.cs, e.args.e)
    [] e.a = "Cancel" -> DoCancelByClient(e.args.s)
    [] e.a = "LoopExit" -> DoLoopExit(e.args.s)
    [] e.a = "Race" -> DoRace(e.args.s, e.args.q)
    [] e.a = "Elect" -> DoElect
    [] e.a = "Resume" -> DoResumeAgain
    [] OTHER -> Same

\* the registered entry carries the ids of the subscription it points to
RegEntryOK == \A n \in Nodes, g \in Groups :
   IF reg[n][g] = 0 THEN regce[n][g].s = 0
   ELSE reg[n][g] \in Idx /\ regce[n][g].c = subs[reg[n][g]].c /\ regce[n][g].e = subs[reg[n][g]].e
\* subscriberCount of each server's partition object = number of its loops that have not returned
NLoopsOK == \A n \in Nodes : nloops[n] = Cardinality({s \in Idx : subs[s].n = n /\ subs[s].loop})

TraceNext ==
  /\ Trace[l].a # "End"
  /\ l' = l + 1
  /\ LET e == Trace[l] IN
     /\ Bind(e)
     /\ IF e.a = "Open" THEN TRUE
        ELSE /\ Chk(PropOf(e), "P", e, "step")
             /\ Chk(ImplOf(e), "I", e, "step")
     /\ Chk(C13_OneActive', "P", e, "C13_OneActive")
     /\ Chk(C13_StreamEnded', "P", e, "C13_StreamEnded")
     /\ Chk(TypeOK', "I", e, "TypeOK")
     /\ Chk(ActiveRegistered', "I", e, "ActiveRegistered")
     /\ Chk(RegOK', "I", e, "RegOK")
     /\ Chk(RegEntryOK', "I", e, "RegEntryOK")
     /\ Chk(NLoopsOK', "I", e, "NLoopsOK")

TraceSpec == TraceInit /\ [][TraceNext]_tvars

Done == PrintT(<<"DONE", TLCGet("stats").diameter, Len(Trace)>>)
=============================================================================
