SPECIFICATION TraceSpec
CONSTANTS
  Groups = {"g1", "g2"}
  CleanupById = FALSE
POSTCONDITION Done
CHECK_DEADLOCK FALSE
