SPECIFICATION TraceSpec
CONSTANTS
  Groups = {"g1", "g2"}
  GroupOnFollower = FALSE
  OnlyOpenEnded = FALSE
  CleanupById = FALSE
POSTCONDITION Done
CHECK_DEADLOCK FALSE
