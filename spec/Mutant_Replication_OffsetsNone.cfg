SPECIFICATION MCSpec
CONSTANTS
  R = {"a", "b", "c"}
  MinISR = 2
  FetchMax = 2
  WideEvery = 0
  OffsetReset = "none"
  LateResp = "drop"
  HWFallback = FALSE
  ElectAlive = TRUE
  AllowLag = FALSE
  ElectDown = FALSE
  MaxMsgs = 4
  MaxElect = 2
  MaxCrash = 0
  MaxIsrOps = 0
  MaxRejects = 0
  Policies = {"ALL"}
  UseCheckpoint = FALSE
  MaxPause = 0
  MaxHold = 0
  Batch = 1
  IgnoreTaints = FALSE
INVARIANTS NoTaint_StaleIsrOffset
VIEW MCView
CHECK_DEADLOCK FALSE
