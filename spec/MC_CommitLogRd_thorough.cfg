SPECIFICATION RdSpec
CONSTANTS
  MaxRecs = 5
  MaxBatch = 2
  MaxOps = 8
  MaxEpoch = 1
  CapSet = {2}
  OccSet = {FALSE}
  UseReaders = TRUE
INVARIANTS TypeOK C01_Ordered C01_Dense
PROPERTIES StepsOK ReaderMonotone
VIEW MCView
CHECK_DEADLOCK FALSE
