--------------------------- MODULE Gen_Subscribe ---------------------------
(* Writes the request space for logs of up to MaxN offsets to reqs.json    *)
(* (one list per n); evaluated by TLC as a constant expression.            *)
EXTENDS SubscribeReqs, Sequences, FiniteSets, Json, SequencesExt

CONSTANT MaxN

ASSUME JsonSerialize("reqs.json", [n \in 1..MaxN + 1 |-> SetToSeq(ReqsFor(n - 1))])
=============================================================================
