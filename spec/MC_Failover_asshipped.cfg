SPECIFICATION MCSpec
CONSTANTS
  Replicas = {"r1", "r2", "r3", "r4"}
  Outsider = "x"
  Dense = TRUE
  KeepStatus = TRUE
  RecheckAtApply = TRUE
  RecheckElect = TRUE
  RecheckISR = TRUE
  KeepOnFail = FALSE
  CountAll = TRUE
  InitISRs = {{"r1"}, {"r1", "r2"}, {"r1", "r2", "r3"}, {"r1", "r2", "r3", "r4"}}
  L0 = "r1"
  PairSels = {"cur", "sl", "prev", "next", "pep", "first", "own"}
  MaxOps = 8
  Faults = TRUE
  EffectiveOnly = FALSE
  MaxPend = 0
INVARIANTS C07_LeaderInISR
PROPERTIES StepsOK
VIEW MCView
CHECK_DEADLOCK FALSE
