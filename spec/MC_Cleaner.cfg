SPECIFICATION MCSpec
CONSTANTS
  MaxRecs = 5
  MaxBatch = 1
  MaxOps = 7
  MaxEpoch = 1
  CapSet = {1, 2}
  KeySet = {"nil", "empty", "a"}
  AgeSet = {0}
  MsgsSet = {0}
  BytesSet = {0}
  CompactSet = {TRUE}
  LagSet = {0}
  BigSet = {FALSE}
  MaxCleans = 2
  MaxTicks = 0
  UseWindow = TRUE
  UseReopen = FALSE
  UseEpochs = FALSE
  OccSet = {FALSE}
  MinCleanSegs = 1
  UseRevReaders = FALSE
  UseFaults = FALSE
  UseReaders = FALSE
INVARIANTS CTypeOK C01_Ordered SegsConsistent NoEmptyInnerSegment
PROPERTIES StepsOK
VIEW MCView
CHECK_DEADLOCK FALSE
