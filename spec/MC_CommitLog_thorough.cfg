SPECIFICATION MCSpec
CONSTANTS
  MaxRecs = 4
  MaxBatch = 2
  MaxOps = 6
  MaxEpoch = 2
  CapSet = {2, 3}
  OccSet = {FALSE, TRUE}
  UseReaders = TRUE
INVARIANTS TypeOK C01_Ordered C01_Dense
PROPERTIES StepsOK ReaderMonotone
VIEW MCView
CHECK_DEADLOCK FALSE
