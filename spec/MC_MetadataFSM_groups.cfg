SPECIFICATION MCSpec
CONSTANTS
  GroupIds = {"g1"}
  StreamSet = {"sa", "sb"}
  MaxParts = 1
  Brokers = {"r1", "r2", "r3"}
  ConsumerSet = {"c1", "c2"}
  Coords = {"A", "X"}
  OpKinds = {"CreateStream", "DeleteStream", "CreateGroup", "JoinGroup", "LeaveGroup", "ChangeCoordinator"}
  Variants = {"plain", "custom"}
  Extras = {}
  MaxOps = 4
  MaxSnaps = 1
  MaxRestarts = 1
INVARIANTS NoTombLive NoRecLive GroupsValid GroupsFine EpochsFine FlagsConsistent
PROPERTIES A_RS_Streams A_RS_RoEff A_RS_GroupMembers A_RS_GroupEpoch A_NoDataLoss A_NoResurrection A_NoApplyError A_RS_Started
VIEW MCView
CHECK_DEADLOCK FALSE
