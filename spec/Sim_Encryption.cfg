SPECIFICATION MCSpec
CONSTANTS
  BoundsChecked = TRUE
  Masks = {1}
  KSValues = {0}
  Keys = {"k1", "k2"}
  SnapKeeps = TRUE
  Replicas = {"a"}
  Lens = {0}
  MKLens = {16}
  TableOn = FALSE
  MaxPub = 8
  MaxBatch = 3
  MaxSteps = 10
  MaxFailBatches = 2
  MaxRestart = 2
  MaxTamper = 2
  MaxEnv = 3
  MaxPause = 2
  MaxSub = 4
  MaxLead = 0
  MaxSnap = 2
  MaxInstall = 1
  PubClasses = {"long"}
  Hows = {"b2b"}
  TamperRegs = {"KS"}
CHECK_DEADLOCK FALSE
