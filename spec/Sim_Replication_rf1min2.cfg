SPECIFICATION MCSpec
CONSTANTS
  R = {"a"}
  MinISR = 2
  FetchMax = 2
  WideEvery = 0
  OffsetReset = "all"
  LateResp = "drop"
  HWFallback = FALSE
  ElectAlive = FALSE
  AllowLag = FALSE
  ElectDown = TRUE
  MaxMsgs = 6
  MaxElect = 0
  MaxCrash = 3
  MaxIsrOps = 0
  MaxRejects = 1
  Policies = {"ALL", "LEADER", "NONE"}
  UseCheckpoint = TRUE
  MaxPause = 1
  MaxHold = 0
  Batch = 1
  IgnoreTaints = TRUE
CHECK_DEADLOCK FALSE
