--------------------------- MODULE MC_LogConc ---------------------------
(* Bounded instance of LogConc.tla: exhaustive design check and stimulus  *)
(* generation (simulation).  `last` names the step so that a behaviour    *)
(* can be replayed through the gates; budgets and ghosts live here.       *)
EXTENDS LogConc, TLC

CONSTANTS MaxApp, MaxTrn, MaxCln, MaxHW, MaxEp, MaxImg, MaxRd, Keys, CapSet, OccSet, CompactSet, MsgsSet,
          MaxBatch, TrackLast, UseReaders, UseSet, UseReopen
VARIABLES last, nApp, nTrn, nCln, nImg, nRd, nId, mep, pre
mcvars == <<vars, last, nApp, nTrn, nCln, nImg, nRd, nId, mep, pre>>

Step(a) == last' = IF TrackLast THEN a ELSE [a |-> a.a]
Keep(V) == UNCHANGED V

MCInit ==
  /\ cfg \in [cap : CapSet, occ : OccSet, compact : CompactSet, msgs : MsgsSet]
  /\ segs = <<NewSeg(0)>> /\ files = {0} /\ listed = <<1>> /\ active = 1
  /\ hw = -1 /\ epochs = <<>>
  /\ app = AppIdle /\ trn = TrnIdle /\ cln = ClnIdle
  /\ rd = [r \in Readers |-> NoReader]
  /\ ever = {} /\ taint = {} /\ obs = NoObs
  /\ last = [a |-> "Open"] /\ nApp = 0 /\ nTrn = 0 /\ nCln = 0 /\ nImg = 0 /\ nRd = 0 /\ nId = 0 /\ mep = 1
  /\ pre = -1

\* batches: 1..MaxBatch messages (one with OCC), epochs never decrease, fresh ids
Batches ==
  LET n == IF cfg.occ THEN {1} ELSE 1..MaxBatch IN
  UNION {[1..k -> [ep : {mep, mep + 1} \cap 1..MaxEp, key : Keys,
                   exp : IF cfg.occ THEN {-1} \cup 0..(Newest + 2) ELSE {-1}]] : k \in n}
EpOK(b) == \A i \in 1..Len(b) - 1 : b[i].ep <= b[i + 1].ep
WithIds(b) == [i \in 1..Len(b) |-> [off |-> -1, ep |-> b[i].ep, key |-> b[i].key, exp |-> b[i].exp, id |-> nId + i]]
\* a replication response: consecutive offsets from the follower's log end (the caller checks that)
SetIds(b) == [i \in 1..Len(b) |-> [off |-> Newest + i, ep |-> b[i].ep, key |-> b[i].key, exp |-> -1, id |-> nId + i]]

Others(V) == UNCHANGED V
Cnt == <<nApp, nTrn, nCln, nImg, nRd, nId, mep>>

MCAppBegin ==
  /\ nApp < MaxApp
  /\ \E b0 \in Batches : EpOK(b0) /\ LET b == WithIds(b0) IN
       /\ G_AppBegin(b) /\ Apply(N_AppBegin(b))
       /\ nApp' = nApp + 1 /\ nId' = nId + Len(b) /\ mep' = b[Len(b)].ep
       /\ Step([a |-> "AppBegin", batch |-> b])
  /\ UNCHANGED <<nTrn, nCln, nImg, nRd, pre>>
MCAppSetBegin ==
  /\ UseSet /\ nApp < MaxApp
  /\ \E b0 \in Batches : EpOK(b0) /\ b0[1].exp = -1 /\ LET b == SetIds(b0) IN
       /\ G_AppSetBegin(b) /\ Apply(N_AppSetBegin(b))
       /\ nApp' = nApp + 1 /\ nId' = nId + Len(b) /\ mep' = b[Len(b)].ep
       /\ Step([a |-> "AppSetBegin", batch |-> b])
  /\ pre' = pre
  /\ UNCHANGED <<nTrn, nCln, nImg, nRd>>
MCReopen ==
  /\ UseReopen /\ nImg < MaxImg /\ obs.a # "Reopen" /\ G_Reopen /\ Apply(N_Reopen)
  /\ nImg' = nImg + 1 /\ UNCHANGED <<nApp, nTrn, nCln, nRd, nId, mep, pre>> /\ Step([a |-> "Reopen"])
MCAppStep ==
  /\ \/ G_AppChk /\ Apply(N_AppChk)
     \/ G_AppPick /\ Apply(N_AppPick)
     \/ G_AppEpoch /\ Apply(N_AppEpoch)
     \/ G_AppWrite /\ Apply(N_AppWrite)
  /\ pre' = segs[active].next
  /\ UNCHANGED Cnt /\ Step([a |-> "Step", p |-> "app"])
MCTrnBegin(o) ==
  /\ nTrn < MaxTrn /\ G_TrnBegin(o) /\ Apply(N_TrnBegin(o))
  /\ nTrn' = nTrn + 1 /\ UNCHANGED <<nApp, nCln, nImg, nRd, nId, mep, pre>>
  /\ Step([a |-> "TrnBegin", o |-> o])
MCTrnStep ==
  /\ \/ G_TrnReplace /\ Apply(N_TrnReplace)
     \/ G_TrnClear /\ Apply(N_TrnClear)
  /\ UNCHANGED Cnt /\ UNCHANGED pre /\ Step([a |-> "Step", p |-> "trn"])
MCClnBegin ==
  /\ nCln < MaxCln /\ G_ClnBegin /\ Apply(N_ClnBegin)
  /\ nCln' = nCln + 1 /\ UNCHANGED <<nApp, nTrn, nImg, nRd, nId, mep, pre>>
  /\ Step([a |-> "ClnBegin"])
MCClnStep ==
  /\ \/ G_ClnWork /\ Apply(N_ClnWork)
     \/ G_ClnDel /\ Apply(N_ClnDel)
     \/ G_ClnSwap /\ Apply(N_ClnSwap)
  /\ UNCHANGED Cnt /\ UNCHANGED pre /\ Step([a |-> "Step", p |-> "cln"])
MCSetHW(h) ==
  /\ h > hw /\ G_SetHW(h) /\ Apply(N_SetHW(h))
  /\ UNCHANGED Cnt /\ UNCHANGED pre /\ Step([a |-> "SetHW", h |-> h])
MCNewEpoch(e) ==
  /\ e > LatestEpoch(epochs) /\ e >= mep /\ app.pc = "idle"
  /\ G_NewEpoch(e) /\ Apply(N_NewEpoch(e))
  /\ mep' = e /\ UNCHANGED <<nApp, nTrn, nCln, nImg, nRd, nId, pre>> /\ Step([a |-> "NewEpoch", e |-> e])
\* the disk image of a clean in progress, as a recovery finds it
MCCrashImage ==
  /\ nImg < MaxImg /\ cln.pc \in {"del", "swap"} /\ obs.a # "CrashImage"
  /\ G_CrashImage /\ Apply(N_CrashImage)
  /\ nImg' = nImg + 1 /\ UNCHANGED <<nApp, nTrn, nCln, nRd, nId, mep, pre>> /\ Step([a |-> "CrashImage"])
MCRdNew(r, c, rev, s) ==
  /\ UseReaders /\ nRd < MaxRd /\ (r = "r2" => rd["r1"].alive)
  /\ G_RdNew(r, c, rev, s) /\ Apply(N_RdNew(r, c, rev, s))
  /\ nRd' = nRd + 1 /\ UNCHANGED <<nApp, nTrn, nCln, nImg, nId, mep, pre>>
  /\ Step([a |-> "RdNew", r |-> r, c |-> c, rev |-> rev, s |-> s])
MCRdNext(r) ==
  /\ UseReaders /\ nRd < MaxRd /\ G_RdNext(r) /\ Apply(N_RdNext(r))
  /\ nRd' = nRd + 1 /\ UNCHANGED <<nApp, nTrn, nCln, nImg, nId, mep, pre>>
  /\ Step([a |-> "RdNext", r |-> r])

MCNext ==
  \/ MCAppBegin \/ MCAppStep \/ MCAppSetBegin \/ MCReopen
  \/ \E o \in 0..(Newest + 1) : MCTrnBegin(o)
  \/ MCTrnStep
  \/ MCClnBegin \/ MCClnStep
  \/ \E h \in 0..Newest : h <= MaxHW /\ MCSetHW(h)
  \/ \E e \in 1..MaxEp : MCNewEpoch(e)
  \/ MCCrashImage
  \/ \E r \in Readers, c \in BOOLEAN, rev \in BOOLEAN, s \in 0..(Newest + 1) : MCRdNew(r, c, rev, s)
  \/ \E r \in Readers : MCRdNext(r)

MCSpec == MCInit /\ [][MCNext]_mcvars

\* every step, as the code performs it, satisfies what the properties demand of it
Ret(a) == obs'.a = a
SO_App == (last'.a = "Step" /\ app.pc # "idle" /\ trn' = trn /\ cln' = cln) =>
        (P_AppendStep /\ (Ret("Append") => P_AppendRet(app.batch, pre')))
SO_Trn == /\ (last'.a = "TrnBegin") => P_TruncateStep(trn'.o) \/ trn'.pc = "idle"
          /\ (trn.pc # "idle" /\ trn' # trn) => P_TruncateStep(trn.o)
SO_ClnSwap == (cln.pc # "idle" /\ cln'.pc = "idle") => P_CleanSwap(cln.b, segs[Last(cln.snap)].base)
SO_ClnStep == (cln.pc # "idle" /\ cln' # cln /\ cln'.pc # "idle") => P_CleanStep
SO_Reopen == Ret("Reopen") => P_Reopen
S_Reopen == [][SO_Reopen]_mcvars
SO_Img == Ret("CrashImage") => P_CrashImage(cln.b)
\* (open finding X05-committed-reader-hw-below-start: not demanded when the HW lies below the log start)
SO_Rd == \A r \in Readers : (Ret("RdNext") /\ rd'[r] # rd[r]) =>
            (P_RdClass(r) /\ P_RdContent(r) /\ P_RdOrder(r) /\ P_RdQuiet(r) /\ (HWBelowStart \/ P_RdCommitted(r)))
StepOK == SO_App /\ SO_Trn /\ SO_ClnSwap /\ SO_ClnStep /\ SO_Img /\ SO_Rd
S_App == [][SO_App]_mcvars
S_Trn == [][SO_Trn]_mcvars
S_ClnSwap == [][SO_ClnSwap]_mcvars
S_ClnStep == [][SO_ClnStep]_mcvars
S_Img == [][SO_Img]_mcvars
S_Rd == [][SO_Rd]_mcvars
StepsOK == [][StepOK]_mcvars

MCView == vars
=============================================================================
