SPECIFICATION MCSpec
CONSTANTS
  MaxRecs = 5
  MaxBatch = 1
  MaxOps = 8
  MaxEpoch = 1
  CapSet = {2, 3}
  KeySet = {"nil", "empty", "a", "b"}
  AgeSet = {0}
  MsgsSet = {0, 3}
  BytesSet = {0}
  CompactSet = {TRUE}
  LagSet = {0}
  BigSet = {FALSE}
  MaxCleans = 2
  MaxTicks = 0
  UseWindow = TRUE
  UseReopen = FALSE
  UseEpochs = FALSE
  OccSet = {FALSE}
  MinCleanSegs = 1
  UseRevReaders = FALSE
  UseFaults = FALSE
  UseReaders = FALSE
INVARIANTS CTypeOK C01_Ordered SegsConsistent NoEmptyInnerSegment
PROPERTIES StepsOK
VIEW MCView
CHECK_DEADLOCK FALSE
