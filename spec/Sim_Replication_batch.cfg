SPECIFICATION MCSpec
CONSTANTS
  R = {"a", "b", "c"}
  MinISR = 2
  FetchMax = 2
  WideEvery = 0
  OffsetReset = "all"
  HWFallback = FALSE
  ElectAlive = TRUE
  AllowLag = FALSE
  ElectDown = FALSE
  MaxMsgs = 6
  MaxElect = 3
  MaxCrash = 3
  MaxIsrOps = 3
  MaxRejects = 2
  Policies = {"ALL", "LEADER", "NONE"}
  UseCheckpoint = TRUE
  MaxPause = 0
  Batch = 2
  IgnoreTaints = TRUE
CHECK_DEADLOCK FALSE
