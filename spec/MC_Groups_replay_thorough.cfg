SPECIFICATION MCSpec
CONSTANTS
  Servers = {"A", "B"}
  ConsumerSet = {"c1", "c2", "c3"}
  StreamSet = {"sa", "sb"}
  MaxParts = 2
  MaxOps = 4
  MaxDeletes = 1
  Coords = {"A", "X"}
  MaxRestores = 1
  MaxPauseOps = 0
  Shapes = {"plain", "dup", "empty"}
  GetDs = {}
VIEW MCView
CHECK_DEADLOCK FALSE
