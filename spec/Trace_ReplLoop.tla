--------------------------- MODULE Trace_ReplLoop ---------------------------
(* Trace validation for ReplLoop.tla.  Every line of trace.ndjson is one step of one goroutine of the    *)
(* real code, executed gate to gate on the replica kit, with the state projected from the real objects   *)
(* after the step.  `st` is the state as the specification computes it from the recorded actions, `hy`   *)
(* the same state with every recorded field replaced by the real value.                                  *)
(*   - what X03 demands is evaluated on hy (FAIL "P" ...): property violation on real behaviour;         *)
(*   - the computed state is compared with the recorded one field by field (FAIL "I" ...): drift.        *)
EXTENDS ReplLoop, TLC, Json

Trace == ndJsonDeserialize("trace.ndjson")

VARIABLES hy, l
tvars == <<st, hy, l>>

Fail(kind, e, name) == PrintT(<<"FAIL", kind, e.t, l, e.a, name>>)
Chk(ok, kind, e, name) == IF ok THEN TRUE ELSE Fail(kind, e, name)

Hyb(s, r) ==
  [s EXCEPT !.up = r.up, !.mute = r.mute, !.ep = r.ep, !.leo = r.leo, !.lhw = r.lhw,
            !.iso = [f \in F |-> r.iso[f]], !.tok = [f \in F |-> r.tok[f]], !.fep = [f \in F |-> r.fep[f]],
            !.wtr = [f \in F |-> r.wtr[f]], !.zn = [f \in F |-> r.zn[f]],
            !.flog = [f \in F |-> r.flog[f]], !.fhw = [f \in F |-> r.fhw[f]],
            !.lp = [f \in F |-> [s.lp[f] EXCEPT !.pc = r.lp[f]]]]

\* the clock decides whether the loop was late at its health check: "yes" / "no" by proof, "maybe" = as observed
WithClock(s, e) ==
  IF e.a \in {"FTimeout", "FSend"} /\ e.obs.late # "-"
  THEN [s EXCEPT !.lp[e.args.f].late = IF e.obs.late = "maybe" THEN Len(e.obs.rp) > 0 ELSE e.obs.late = "yes"]
  ELSE s

GuardOf(e, s) ==
  CASE e.a = "Append" -> G_Append(s)
    [] e.a = "FSend" -> G_FSend(s, e.args.f)
    [] e.a = "LResp" -> G_LResp(s, e.args.f)
    [] e.a = "FRecv" -> G_FRecv(s, e.args.f, e.args.w)
    [] e.a = "FTimeout" -> s.lp[e.args.f].pc = "await"
    [] e.a = "Tick" -> TRUE
    [] e.a = "FIdle" -> G_FIdle(s, e.args.f)
    [] e.a = "LNotify" -> G_LNotify(s, e.args.f)
    [] e.a = "LNotifyOld" -> G_LNotifyOld(s, e.args.f)
    [] e.a = "IdleTimeout" -> G_IdleTimeout(s, e.args.f)
    [] e.a = "NewEpochL" -> s.up /\ \A f \in F : s.rep[f].pc = "recv" /\ s.chq[f] = <<>>
    [] e.a = "NewEpochF" -> G_NewEpochF(s, e.args.f)
    [] e.a = "Kill" -> G_Kill(s)
    [] e.a = "Mute" -> G_Mute(s)
    [] OTHER -> TRUE

NextOf(e, s) ==
  CASE e.a = "Append" -> N_Append(s)
    [] e.a = "FSend" -> N_FSend(s, e.args.f)
    [] e.a = "LResp" -> N_LResp(s, e.args.f)
    [] e.a = "FRecv" -> IF e.obs.stole THEN N_FRecvSteal(s, e.args.f) ELSE N_FRecv(s, e.args.f, e.args.w)
    [] e.a = "FTimeout" -> N_FTimeout(s, e.args.f)
    [] e.a = "Tick" -> IF G_Tick(s, e.args.f) THEN N_Tick(s, e.args.f) ELSE Clr(s)
    [] e.a = "FIdle" -> N_FIdle(s, e.args.f)
    [] e.a = "LNotify" -> N_LNotify(s, e.args.f)
    [] e.a = "LNotifyOld" -> N_LNotifyOld(s, e.args.f)
    [] e.a = "IdleTimeout" -> N_IdleTimeout(s, e.args.f)
    [] e.a = "NewEpochL" -> N_NewEpochL(s)
    [] e.a = "NewEpochF" -> IF e.obs.stole THEN N_NewEpochFSteal(s, e.args.f) ELSE N_NewEpochF(s, e.args.f)
    [] e.a = "Kill" -> N_Kill(s)
    [] e.a = "Mute" -> N_Mute(s)
    [] OTHER -> Clr(s)                  \* Skip, Quiet

\* the recorded projection against the computed state, field by field
Conform(e, s, r) ==
  /\ Chk(s.up = r.up /\ s.mute = r.mute /\ s.ep = r.ep, "I", e, "leader")
  /\ Chk(s.leo = r.leo, "I", e, "leo")
  /\ Chk(s.lhw = r.lhw, "I", e, "lhw")
  /\ Chk(\A f \in F : s.iso[f] = r.iso[f], "I", e, "iso")
  /\ Chk(\A f \in F : s.rep[f].pc = r.rep[f], "I", e, "rep")
  /\ Chk(\A f \in F : Len(s.chq[f]) = r.chq[f], "I", e, "chq")
  /\ Chk(\A f \in F : s.wtr[f] = r.wtr[f], "I", e, "wtr")
  /\ Chk(\A f \in F : s.zn[f] = r.zn[f], "I", e, "zn")
  /\ Chk(\A f \in F : s.tok[f] = r.tok[f], "I", e, "tok")
  /\ Chk(\A f \in F : s.fep[f] = r.fep[f], "I", e, "fep")
  /\ Chk(\A f \in F : s.lp[f].pc = r.lp[f], "I", e, "lp")
  /\ Chk(\A f \in F : (s.zl[f].pc = "resp") = (r.zl[f] = "resp"), "I", e, "zl")
  /\ Chk(\A f \in F : s.flog[f] = r.flog[f], "I", e, "flog")
  /\ Chk(\A f \in F : s.fhw[f] = r.fhw[f], "I", e, "fhw")
  /\ Chk(s.rp = {[f |-> x.f, e |-> x.e] : x \in {e.obs.rp[i] : i \in DOMAIN e.obs.rp}}, "I", e, "rp")

Unans(e, s) == e.a = "FTimeout" \/ (e.a = "FSend" /\ ~s.up)

Demands(e, s, t) ==
  /\ Chk(P_Monotone(s, t), "P", e, "X03_Monotone")
  /\ Chk(X03_InOrder(t), "P", e, "X03_InOrder")
  /\ Chk(X03_HWBound(t), "P", e, "X03_HWBound")
  /\ Chk(X03_WaiterFresh(t), "P", e, "X03_WaiterFresh")
  /\ Chk(X03_ParkedCaughtUp(t), "P", e, "X03_ParkedCaughtUp")
  /\ Chk(e.a = "FRecv" => P_StaleDropped(s, t, e.args.f, e.args.w), "P", e, "X03_StaleDropped")
  /\ Chk(e.a = "FRecv" => P_HWTaken(s, t, e.args.f, e.args.w), "P", e, "X03_HWTaken")
  /\ Chk(\A i \in DOMAIN e.obs.rp :
            LET x == e.obs.rp[i] IN
            /\ Unans(e, s) /\ x.l = "a" /\ x.f = e.args.f /\ x.e = s.lp[e.args.f].e /\ e.obs.late # "no",
         "P", e, "X03_ReportPair")
  /\ Chk((Unans(e, s) /\ e.obs.late = "yes") => Len(e.obs.rp) = 1, "P", e, "X03_ReportMade")
  /\ Chk(e.res = "" \/ e.res = "skip", "P", e, "X03_NoHang")
  /\ Chk(e.a = "Quiet" => X03_Quiescent(t), "P", e, "X03_Quiescent")

TraceInit == st = Init0 /\ hy = Hyb(Init0, Trace[1].st) /\ l = 2

TraceNext ==
  /\ Trace[l].a # "End"
  /\ l' = l + 1
  /\ LET e == Trace[l] IN
     IF e.a = "Open" THEN LET i0 == [Init0 EXCEPT !.fm = e.args.fm, !.we = e.args.we] IN
                          st' = i0 /\ hy' = Hyb(i0, e.st) /\ Conform(e, i0, e.st)
     ELSE LET s0 == WithClock(st, e)
              ok == GuardOf(e, s0)
              s1 == IF ok THEN NextOf(e, s0) ELSE Clr(s0)
              t  == Hyb(s1, e.st)
          IN /\ st' = s1 /\ hy' = t
             /\ Chk(ok, "I", e, "guard")
             /\ Conform(e, s1, e.st)
             /\ Demands(e, WithClock(hy, e), t)

TraceSpec == TraceInit /\ [][TraceNext]_tvars

Done == PrintT(<<"DONE", TLCGet("stats").diameter, Len(Trace)>>)
=============================================================================
