SPECIFICATION MCSpec
CONSTANTS
  MaxRecs = 12
  MaxBatch = 1
  MaxOps = 16
  MaxEpoch = 3
  CapSet = {2, 3, 4}
  OccSet = {TRUE}
  UseReaders = TRUE
CHECK_DEADLOCK FALSE
