SPECIFICATION TraceSpec
POSTCONDITION Done
CHECK_DEADLOCK FALSE
