SPECIFICATION MCSpec
CONSTANTS
  Groups = {"g1"}
  CleanupById = TRUE
  Consumers = {"c1", "c2", "c3"}
  MaxEpoch = 3
  MaxSubs = 4
  MaxOps = 7
  UsePlain = FALSE
  UseBurst = FALSE
  UseBad = FALSE
INVARIANTS C13_OneActive
PROPERTIES StepsOK
VIEW MCView
CHECK_DEADLOCK FALSE
