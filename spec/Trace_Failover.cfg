SPECIFICATION TraceSpec
CONSTANTS
  Replicas = {"r1", "r2", "r3", "r4"}
  Outsider = "x"
  Dense = FALSE
  KeepStatus = FALSE
  RecheckAtApply = TRUE
  RecheckElect = TRUE
  RecheckISR = TRUE
  KeepOnFail = FALSE
  CountAll = FALSE
POSTCONDITION Done
CHECK_DEADLOCK FALSE
