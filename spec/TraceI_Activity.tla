------------------------- MODULE TraceI_Activity -------------------------
(* Conformance of recorded real behaviour to the ACTIONS of Activity.tla.    *)
(* Every line of trace.ndjson is an observation taken after one driver step: *)
(* committed Raft log, activity stream, in-memory lastPublished, "dispatcher *)
(* parked between publish and record".  Between two observations the real    *)
(* servers take steps the driver does not see (dispatcher goroutine, Raft).  *)
(* TLC searches for a sequence of steps of Activity.tla (the environment     *)
(* step named by the line at most once, any number of dispatcher / Raft /    *)
(* operation steps) that leads from a state matching line l-1 to a state     *)
(* matching line l.  The search is guided: the log and the stream may only   *)
(* grow along the recorded ones.  A line that cannot be reached is reported  *)
(* (STUCK) - that is conformance drift, never a verdict.                     *)
EXTENDS Activity, TLC, Json

Trace == ndJsonDeserialize("trace.ndjson")

VARIABLES l, done
tvars == <<vars, l, done>>

OpenLines == {k \in 1..Len(Trace) : Trace[k].a = "Open"}

TraceInit ==
  /\ TLCSet(2, {})
  /\ Init /\ done = FALSE
  /\ \E k \in OpenLines : l = k + 1

Ev == Trace[l]
TR == Trace[l].st.rlog
TP == Trace[l].st.pub
Focus == IF "n" \in DOMAIN Trace[l].args THEN Trace[l].args.n
         ELSE IF ctl # None THEN ctl ELSE CHOOSE n \in Nodes : TRUE

NextK == IF Len(rlog) < Len(TR) THEN TR[Len(rlog) + 1].k ELSE "-"
NextC == IF Len(rlog) < Len(TR) THEN TR[Len(rlog) + 1].c ELSE ""

Guided == IsPrefix(rlog', TR) /\ IsPrefix(pub', TP)

EnvStep ==
  /\ ~done /\ done' = TRUE
  /\ CASE Ev.a \in {"Elect", "TakeOver"} -> DoControllerChange(Ev.args.n)
       [] Ev.a = "StepDown" -> DoStepDown(Ev.args.n)
       [] Ev.a = "Block" -> DoBlock
       [] Ev.a = "Unblock" -> DoUnblock
       [] Ev.a = "Crash" -> DoCrash(Ev.args.n)
       [] Ev.a = "Start" -> DoStart(Ev.args.n)
       [] Ev.a = "Snapshot" -> DoSnapshot(Ev.args.n, Ev.args.keep)
       [] Ev.a = "ForeignOp" -> DoForeignPublish
       [] OTHER -> FALSE

Hidden ==
  /\ Ev.a \notin {"Open", "End"}
  /\ l' = l
  /\ \/ EnvStep
     \/ /\ UNCHANGED done
        /\ \/ NextK \in {"E", "N"} /\ NextC # ActC /\ DoCommitOp(NextK, NextC)
           \/ NextK = "S" /\ DoSysEntry
           \/ \E n \in Nodes :
                \/ DoBecomeLeader(n) \/ DoNoticeLost(n) \/ DoDispatchExit(n)
                \/ DoDispatchSkip(n) \/ DoDispatchPublish(n)
                \/ \E b \in BOOLEAN : DoPublishFail(n, b)
                \/ DoRecordPublished(n)
                \/ \E b \in BOOLEAN : DoRecordFail(n, b)
                \/ DoBackoff(n)
                \/ DoDispatchPanic(n)
  /\ Guided

Running(n) == disp[n].st \in {"run", "pub", "wait"}

Match ==
  /\ Ev.a \notin {"Open", "End"}
  /\ Ev.a \in {"Elect", "TakeOver", "StepDown", "Block", "Unblock", "Crash", "Start", "Snapshot", "ForeignOp"} => done
  /\ rlog = TR /\ pub = TP /\ blocked = Ev.st.blocked
  /\ LET n == Focus IN
     IF Ev.st.up
     THEN /\ up[n]
          /\ Ev.st.parked => disp[n].st = "pub"    \* (the flag is read a moment after the stream)
          /\ Running(n) => lp[n] = Ev.st.lp
          /\ Ev.a = "Snapshot" => first[n] = Ev.st.first   \* compaction as DoSnapshot says
     ELSE Ev.a = "Crash" => ~up[n]
  /\ TLCSet(2, TLCGet(2) \cup {l})
  /\ l' = l + 1 /\ done' = FALSE
  /\ UNCHANGED vars

TraceNext == Hidden \/ Match
TraceSpec == TraceInit /\ [][TraceNext]_tvars

Lines == {k \in 1..Len(Trace) : Trace[k].a \notin {"Open", "End"}}
Post ==
  LET un    == Lines \ TLCGet(2)
      fst   == {k \in un : \A j \in un : Trace[j].t = Trace[k].t => k <= j}
  IN /\ \A k \in fst : PrintT(<<"STUCK", Trace[k].t, k, Trace[k].a>>)
     /\ PrintT(<<"REACHED", Cardinality(TLCGet(2)), Cardinality(Lines)>>)
=============================================================================
