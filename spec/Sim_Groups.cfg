SPECIFICATION MCSpec
CONSTANTS
  Servers = {"A", "B"}
  ConsumerSet = {"c1", "c2", "c3", "c4"}
  StreamSet = {"sa", "sb", "sc"}
  MaxParts = 3
  MaxOps = 14
  MaxDeletes = 3
  Coords = {"A", "B", "X"}
  MaxRestores = 2
  MaxPauseOps = 3
  Shapes = {"plain", "dup", "empty"}
  GetDs = {0, 1}
CHECK_DEADLOCK FALSE
