------------------------- MODULE Trace_Groups -------------------------
(* Trace validation for Groups.tla: every line of trace.ndjson is one step  *)
(* executed on real consumer groups (directly constructed ones, or those of *)
(* real Servers driven through Server.apply), with the projected state of   *)
(* every server after the step.                                             *)
(*   FAIL "P" = a C12 requirement fails on real behaviour (violation)       *)
(*   FAIL "K" = equality with the live server fails in a behaviour in which *)
(*              a group was rebuilt by a restore that is not history-neutral *)
(*              (culprit of the open finding; tag restore-history)          *)
(*   FAIL "I" = the step differs from the action as specified (drift)       *)
EXTENDS Groups, Json

Trace == ndJsonDeserialize("trace.ndjson")

VARIABLES l, taint
tvars == <<vars, l, taint>>

ToSet(q) == {q[i] : i \in DOMAIN q}
GroupOf(j) ==
  IF ~j.exists THEN NoGroup
  ELSE [exists |-> TRUE,
        subs |-> [c \in DOMAIN j.subs |-> ToSet(j.subs[c])],
        heap |-> [s \in DOMAIN j.heap |-> ToSet(j.heap[s])],
        asg |-> j.asg, cnt |-> j.cnt, epoch |-> j.epoch, coord |-> j.coord]

\* {"sa": [0], "sb": []} -> {<<"sa", 0>>}
PausedOf(j) == UNION {{<<s, j[s][i]>> : i \in DOMAIN j[s]} : s \in DOMAIN j}

TraceInit ==
  LET e == Trace[1] IN
  /\ gs = [v \in Servers |-> GroupOf(e.st.gs[v])]
  /\ paused = PausedOf(e.st.paused)
  /\ parts = e.st.parts /\ idx = e.st.idx /\ obs = e.obs
  /\ taint = {}
  /\ l = 2

Bind(e) ==
  /\ gs' = [v \in Servers |-> GroupOf(e.st.gs[v])]
  /\ parts' = e.st.parts /\ idx' = e.st.idx /\ obs' = e.obs
  /\ paused' = PausedOf(e.st.paused)

NewTaint(e) ==
  (IF e.a = "Restore" /\ gs[e.args.srv].exists /\ ~RestoreNeutral(gs[e.args.srv]) THEN {"restored"} ELSE {})

PropOf(e) ==
  CASE e.a = "GetAssignments" -> P_GetAssignments(e.args.srv, e.args.c, e.args.e)
    [] e.a = "Join" -> IF obs'.err = "precondition" THEN SameGroups ELSE P_Join(e.args.c, ToSet(e.args.streams))
    [] e.a = "CreateGroup" /\ obs'.err = "precondition" -> SameGroups
    [] e.a = "CreateGroup" -> \A v \in Servers : gs'[v].exists /\ (~gs[v].exists => Members(gs'[v]) = {e.args.c})
    [] e.a = "Leave" -> P_Leave(e.args.c)
    [] e.a = "DeleteStream" -> IF obs'.err = "precondition" THEN SameGroups ELSE P_DeleteStream(e.args.s)
    [] e.a = "Restore" -> P_Restore(e.args.srv)
    [] e.a = "Skip" -> SameGroups
    \* real one-node server (TestVerifGroupsRealRace): requests through the metadata leader API, two of
    \* them at the same time in a Race; only the resulting states are judged (the invariants below)
    [] e.a \in {"Sync", "Race"} -> TRUE
    \* the server process died while applying what the leader had admitted (Server.Apply panics
    \* on an operation the FSM cannot apply): no group survives that
    [] e.a = "Crash" -> FALSE
    [] OTHER -> P_Other

ImplOf(e) ==
  CASE e.a = "CreateStream" -> DoCreateStream(e.args.s, e.args.n)
    [] e.a = "DeleteStream" -> (IF obs'.err = "precondition" THEN UNCHANGED <<gs, parts, paused, idx>> ELSE DoDeleteStream(e.args.s))
    [] e.a = "CreateGroup" -> DoProposeCreateGroup(e.args.c, ToSet(e.args.streams), e.args.coord)
    [] e.a = "Join" -> DoProposeJoin(e.args.c, ToSet(e.args.streams))
    [] e.a = "Leave" -> DoLeave(e.args.c)
    [] e.a = "ChangeCoordinator" -> DoChangeCoordinator(e.args.coord)
    [] e.a = "Restore" -> DoRestore(e.args.srv, e.args.order)
    [] e.a = "Pause" -> DoPause(e.args.s, e.args.p)
    [] e.a = "Resume" -> DoResume(e.args.s, e.args.p)
    [] e.a \in {"Sync", "Race", "Crash"} -> TRUE
    [] e.a = "GetAssignments" -> DoGetAssignments(e.args.srv, e.args.c, e.args.e)
    [] OTHER -> UNCHANGED <<gs, parts, paused, idx>>

Tag == IF "restored" \in taint' THEN "restore-history" ELSE "-"
Fail(kind, e, name) == PrintT(<<"FAIL", kind, e.t, l, e.a, name, Tag>>)
Chk(ok, kind, e, name) == IF ok THEN TRUE ELSE Fail(kind, e, name)
\* requirement that a known finding breaks: "P" while the behaviour is clean of the culprits in `rel`
ChkK(ok, e, name, rel) == IF ok THEN TRUE ELSE Fail(IF taint' \cap rel = {} THEN "P" ELSE "K", e, name)

TraceNext ==
  /\ Trace[l].a # "End"
  /\ l' = l + 1
  /\ LET e == Trace[l] IN
     /\ Bind(e)
     /\ taint' = (IF e.a = "Open" THEN {} ELSE taint \cup NewTaint(e))
     /\ IF e.a = "Open" THEN TRUE
        ELSE /\ Chk(PropOf(e), "P", e, "step")
             /\ Chk(ImplOf(e), "I", e, "step")
     /\ Chk(C12_NoForeign', "P", e, "C12_NoForeign")
     \* a rebuilt group must be a valid assignment whatever its history ...
     /\ Chk(C12_ExactlyOne', "P", e, "C12_ExactlyOne")
     /\ Chk(C12_AssignedExist', "P", e, "C12_AssignedExist")
     /\ Chk(C12_Balanced', "P", e, "C12_Balanced")
     \* ... but may differ from the live one when the history matters
     /\ ChkK(C12_SameEpochSame', e, "C12_SameEpochSame", {"restored"})
     /\ ChkK(C12_Converged', e, "C12_Converged", {"restored"})
     /\ Chk(ImplInv', "I", e, "ImplInv")

TraceSpec == TraceInit /\ [][TraceNext]_tvars

Done == PrintT(<<"DONE", TLCGet("stats").diameter, Len(Trace)>>)
=============================================================================
