SPECIFICATION TraceSpec
CONSTANTS
  EnvHonoured = TRUE
POSTCONDITION Done
CHECK_DEADLOCK FALSE
