SPECIFICATION TraceSpec
CONSTANTS
  Servers = {"a", "b", "c"}
  MaxInst = 6
  Barrier = TRUE
  AcqBarrier = TRUE
  NotLeaderPanics = FALSE
  ApplyRefuses = TRUE
  QueueGroup = TRUE
POSTCONDITION Done
CHECK_DEADLOCK FALSE
