SPECIFICATION MCSpec
CONSTANTS
  F = {"b"}
  MaxRec = 2
  MaxEp = 2
  FetchMax = 1
  WideEvery = 0
  SlowTimeouts = TRUE
  ZombieSteals = FALSE
  MaxTick = 1
  MaxSlow = 1
  MaxIdleT = 0
  MaxKill = 1
  TrackLast = TRUE
INVARIANTS Inv
PROPERTIES StepsOK
CHECK_DEADLOCK FALSE
