------------------------------ MODULE LogConc ------------------------------
(***************************************************************************)
(* The commit log as a concurrent object (check X05): one appender, one    *)
(* truncator, one cleaner (retention by message count and/or compaction),  *)
(* HW moves, new leader epochs and readers overlapping, at the granularity *)
(* of the locks server/commitlog/commitlog.go takes.  pc-level model of    *)
(*   Append (+ the retry after a racing truncation, fix db248e6),          *)
(*   checkAndPerformSplit/split, append (epoch assignment, segment write), *)
(*   Truncate, Clean (snapshot -> retention -> compaction -> swap+rebase), *)
(*   NewLeaderEpoch, SetHighWatermark, leader_epoch_cache.go               *)
(*   Assign/ClearLatest/ClearEarliest/Rebase/Replace, Close+New.           *)
(*                                                                         *)
(* Every action boundary is a park point of the real code (verifGate or    *)
(* verifCrashPoint, build tag verif), named next to the action, so that a  *)
(* behaviour is replayed 1:1: each process is a goroutine parked at the    *)
(* point named by its pc and released in TLC's order.                      *)
(*                                                                         *)
(*   cfg     [cap, occ, compact, msgs]  records per segment, optimistic    *)
(*           concurrency control, compaction, retention by message count   *)
(*   segs    every segment OBJECT ever created, in creation order:         *)
(*           [base, recs, n, next, closed, repl, del]                      *)
(*           recs = records readable through the index (<<>> once closed), *)
(*           n = records in the file (Position()/unit), next = NextOffset()*)
(*           (both survive Close), repl/del = replaced / marked deleted    *)
(*   files   base offsets of the <base>.log files on disk                  *)
(*   listed  l.segments (indices); active = vActiveSegment                 *)
(*   hw, epochs  high watermark, leader epoch cache <<[e, s]>>             *)
(*   app     appender  [pc, seg, off, batch]   (locals of Append)          *)
(*   trn     truncator [pc, o, k]              (holds l.mu while pc # idle)*)
(*   cln     cleaner   [pc, snap, kept, res, ec, hasEc, b]  b = ghost: the *)
(*           log when the clean took its snapshot                          *)
(*   rd      readers   [alive, c, rev, pos, got]  pos = next offset expected *)
(*   ever    ghost: every record ever written                              *)
(*   taint   ghost: tags of recorded (open) defects, set by exactly the     *)
(*           culprit step; invariants are demanded of untainted behaviour  *)
(*   obs     result of the call that returned in this step [a, ret, err]   *)
(*                                                                         *)
(* A record is [off, ep, key, id]; all records have the same encoded size. *)
(* Each action is a guard G_X and a record N_X of next values (so that the *)
(* trace specification can take unrecorded locals from the model).         *)
(* P_* / X05_* = what the properties demand (C01/C05/C08/C09/C16 predicates*)
(* on the RESULT), judged on recorded behaviour of the real code.          *)
(***************************************************************************)
EXTENDS Integers, Sequences, FiniteSets, LogDefs

VARIABLES cfg, segs, files, listed, active, hw, epochs, app, trn, cln, rd, ever, taint, obs
vars == <<cfg, segs, files, listed, active, hw, epochs, app, trn, cln, rd, ever, taint, obs>>

Readers == {"r1", "r2"}
NoReader == [alive |-> FALSE, c |-> FALSE, rev |-> FALSE, pos |-> 0, got |-> FALSE]
AppIdle == [pc |-> "idle", seg |-> 0, off |-> -1, batch |-> <<>>]
TrnIdle == [pc |-> "idle", o |-> -1, k |-> 0]
ClnIdle == [pc |-> "idle", snap |-> <<>>, kept |-> <<>>, res |-> <<>>, ec |-> <<>>, hasEc |-> FALSE, b |-> <<>>]
NoObs == [a |-> "", ret |-> <<>>, err |-> ""]

S == [segs |-> segs, files |-> files, listed |-> listed, active |-> active, hw |-> hw,
      epochs |-> epochs, app |-> app, trn |-> trn, cln |-> cln, rd |-> rd, obs |-> NoObs]

-----------------------------------------------------------------------------
(* Helpers *)

SetMax(X) == CHOOSE x \in X : \A y \in X : y <= x
SetMin(X) == CHOOSE x \in X : \A y \in X : x <= y
Range(s) == {s[i] : i \in DOMAIN s}
RECURSIVE Flat(_)
Flat(ss) == IF ss = <<>> THEN <<>> ELSE Head(ss) \o Flat(Tail(ss))

NewSeg(b) == [base |-> b, recs |-> <<>>, n |-> 0, next |-> b, closed |-> FALSE, repl |-> FALSE, del |-> FALSE]
Filled(b, recs) == [base |-> b, recs |-> recs, n |-> Len(recs),
                    next |-> IF recs = <<>> THEN b ELSE Last(recs).off + 1,
                    closed |-> FALSE, repl |-> FALSE, del |-> FALSE]
Closed(s, replaced) == [s EXCEPT !.recs = <<>>, !.closed = TRUE, !.repl = replaced \/ s.repl]

\* the log as a reader of l.segments sees it: closed objects cannot be read
\* (nor, by design, segments a retention run has marked deleted: "removed from the read path")
ViewOf(sg, ls) == Flat([i \in 1..Len(ls) |-> IF sg[ls[i]].del THEN <<>> ELSE sg[ls[i]].recs])
View == ViewOf(segs, listed)
Newest == segs[active].next - 1                          \* NewestOffset()
Full(k) == segs[k].n >= cfg.cap                          \* CheckSplit (no age limit)
LockFree == trn.pc = "idle"                              \* nobody holds l.mu between two steps but the truncator

\* findSegment: first listed segment whose next offset is greater than o (position in listed, 0 = nil)
FindPos(o) == LET I == {i \in 1..Len(listed) : segs[listed[i]].next > o}
              IN IF I = {} THEN 0 ELSE SetMin(I)

Stamp(batch, n) == [i \in 1..Len(batch) |->
                      [off |-> n + i - 1, ep |-> batch[i].ep, key |-> batch[i].key, id |-> batch[i].id]]
Offs(recs) == [i \in 1..Len(recs) |-> recs[i].off]
OccBad(batch, n) == cfg.occ /\ batch[1].exp # -1 /\ batch[1].exp # n
\* a batch record is [off, ep, key, id, exp]: off = -1 for Append(msgs) (the log assigns the offsets);
\* AppendMessageSet(bytes) (the follower's replicated append) brings its offsets with the data
IsSet(batch) == batch # <<>> /\ batch[1].off >= 0
Given(batch) == [i \in 1..Len(batch) |-> [off |-> batch[i].off, ep |-> batch[i].ep, key |-> batch[i].key, id |-> batch[i].id]]
Laid(batch, n) == IF IsSet(batch) THEN Given(batch) ELSE Stamp(batch, n)

-----------------------------------------------------------------------------
(* Appender: Append(msgs)                                                   *)

\* `if l.IsReadonly()` ...                                 parks at: append.before_split_check
G_AppBegin(batch) == app.pc = "idle"
N_AppBegin(batch) == [S EXCEPT !.app = [pc |-> "chk", seg |-> 0, off |-> -1, batch |-> batch]]

\* checkAndPerformSplit; split() takes l.mu.Lock           parks at: append.before_write
Split(s) ==
  IF Full(active)
  THEN [s EXCEPT !.segs = Append(segs, NewSeg(segs[active].next)),
                 !.files = files \cup {segs[active].next},
                 !.active = Len(segs) + 1,
                 !.listed = Append(listed, Len(segs) + 1)]
  ELSE s
G_AppChk == app.pc = "chk" /\ (Full(active) => LockFree)
N_AppChk == [Split(S) EXCEPT !.app = [app EXCEPT !.pc = "pick"]]

\* AppendMessageSet(ms): checkAndPerformSplit, pick the active segment, index entries for the offsets
\* in the data - no read-only check, no OCC, no gate before l.append     parks at: append.after_layout
G_AppSetBegin(recs) == app.pc = "idle" /\ (Full(active) => LockFree)
N_AppSetBegin(recs) ==
  LET s == Split(S) IN
  [s EXCEPT !.app = [pc |-> "epoch", seg |-> s.active, off |-> recs[1].off, batch |-> recs]]

\* pick the active segment, lay the batch out for its next offset (OCC check)
Pick(s) ==
  LET sg == s.active
      n  == s.segs[sg].next
  IN IF OccBad(app.batch, n)
     THEN [s EXCEPT !.app = AppIdle, !.obs = [a |-> "Append", ret |-> <<>>, err |-> "incorrect_offset"]]
     ELSE [s EXCEPT !.app = [app EXCEPT !.pc = "epoch", !.seg = sg, !.off = n]]

\* `segment = l.activeSegment() ... newMessageSetFromProto`  parks at: append.after_layout
G_AppPick == app.pc = "pick"
N_AppPick == Pick(S)

\* l.append: new leader epochs are recorded before the write  parks at: append.before_segment_write
G_AppEpoch == app.pc = "epoch"
N_AppEpoch == [S EXCEPT !.epochs = AssignRecs(epochs, Laid(app.batch, app.off)),
                        !.app = [app EXCEPT !.pc = "wr"]]

\* segment.WriteMessageSet; on ErrSegmentClosed: l.mu.RLock, `replaced`, start over on the segment
\* active now (parks at append.after_layout again) or return the error
G_AppWrite == app.pc = "wr" /\ (segs[app.seg].closed => LockFree)
N_AppWrite ==
  IF segs[app.seg].closed
  THEN IF active # app.seg /\ ~IsSet(app.batch) THEN Pick(S)             \* AppendMessageSet has no retry
       ELSE [S EXCEPT !.app = AppIdle, !.obs = [a |-> "Append", ret |-> <<>>, err |-> "closed"]]
  ELSE LET new == Laid(app.batch, app.off) IN
       [S EXCEPT !.segs = [segs EXCEPT ![app.seg].recs = @ \o new, ![app.seg].n = @ + Len(new),
                                       ![app.seg].next = Last(new).off + 1],
                 !.app = AppIdle,
                 !.obs = [a |-> "Append", ret |-> Offs(new), err |-> ""]]

-----------------------------------------------------------------------------
(* Truncator: Truncate(o) - holds l.mu from the first to the last step;     *)
(* serialised with Clean (commitLog.cleanMu, fix in /repo)                  *)

\* find the segment, delete the following ones (and the segment itself when o is its base and it
\* is not the first), rewrite the survivors into the .truncated copy
\*          parks at: truncate.after_rewrite (pc repl) / truncate.before_clear_epochs (pc clear)
G_TrnBegin(o) == trn.pc = "idle" /\ cln.pc = "idle"
N_TrnBegin(o) ==
  LET p == FindPos(o) IN
  IF p = 0 THEN [S EXCEPT !.obs = [a |-> "Truncate", ret |-> <<>>, err |-> ""]]
  ELSE LET k      == listed[p]
           whole  == segs[k].base = o /\ p > 1
           dead   == {listed[i] : i \in {i \in 1..Len(listed) : i > p \/ (i = p /\ whole)}}
           sg     == [i \in 1..Len(segs) |-> IF i \in dead THEN Closed(segs[i], FALSE) ELSE segs[i]]
       IN IF whole
          THEN [S EXCEPT !.segs = sg, !.files = files \ {segs[i].base : i \in dead},
                         !.listed = SubSeq(listed, 1, p - 1), !.active = listed[p - 1],
                         !.trn = [pc |-> "clear", o |-> o, k |-> 0]]
          ELSE [S EXCEPT !.segs = sg, !.files = files \ {segs[i].base : i \in dead},
                         !.trn = [pc |-> "repl", o |-> o, k |-> p]]

\* newSegment.Replace(seg), store the active segment, l.segments = ...   parks at: truncate.before_clear_epochs
G_TrnReplace == trn.pc = "repl"
N_TrnReplace ==
  LET p   == trn.k
      k   == listed[p]
      new == Filled(segs[k].base, SelectSeq(segs[k].recs, LAMBDA r : r.off < trn.o))
      j   == Len(segs) + 1
  IN [S EXCEPT !.segs = Append([segs EXCEPT ![k] = Closed(@, TRUE)], new),
               !.listed = Append(SubSeq(listed, 1, p - 1), j),
               !.active = j,
               !.trn = [trn EXCEPT !.pc = "clear", !.k = 0]]

\* leaderEpochCache.ClearLatest(o), unlock, return
G_TrnClear == trn.pc = "clear"
N_TrnClear == [S EXCEPT !.epochs = ClearLatest(epochs, trn.o), !.trn = TrnIdle,
                        !.obs = [a |-> "Truncate", ret |-> <<>>, err |-> ""]]

-----------------------------------------------------------------------------
(* Cleaner: Clean()                                                         *)

\* l.mu.RLock; oldSegments := l.segments                     parks at: clean.after_snapshot
G_ClnBegin == cln.pc = "idle" /\ LockFree
N_ClnBegin == [S EXCEPT !.cln = [ClnIdle EXCEPT !.pc = "snap", !.snap = listed, !.b = View]]

\* applyMessagesLimit on the snapshot: walk backwards from the last segment, stop at the first
\* segment that makes the running total exceed the limit; everything before it is doomed
Doomed(snap) ==
  LET n      == Len(snap)
      Cnt(i) == segs[snap[i]].n
      RECURSIVE Tot(_)
      Tot(i) == IF i > n THEN 0 ELSE Cnt(i) + Tot(i + 1)
      Keep   == {i \in 1..n : i = n \/ \A j \in i..n - 1 : Tot(j) <= cfg.msgs}
  IN IF cfg.msgs = 0 \/ n <= 1 THEN 0 ELSE SetMin(Keep) - 1

\* compaction of the list `kept` with the HW read now: every segment but the last is rewritten
LatestOff(recs, h, key) ==
  LET X == {recs[i].off : i \in {i \in DOMAIN recs : recs[i].key = key /\ recs[i].off <= h}}
  IN IF X = {} THEN 0 ELSE SetMax(X)

RECURSIVE CompactFrom(_, _, _, _)
\* st = [segs, files, res, ec]; kept = remaining list, all = records scanned by scanKeys.  The rewritten
\* segment objects are locals of Clean() until the swap: res = <<[k, s]>>, k = index of a segment
\* object kept as it is, or 0 and s = the new object
CompactFrom(st, kept, all, h) ==
  IF Len(kept) = 1
  THEN [st EXCEPT !.res = Append(st.res, [k |-> kept[1], s |-> st.segs[kept[1]]]),
                  !.ec = AssignRecs(st.ec, st.segs[kept[1]].recs)]
  ELSE LET k    == kept[1]
           sur  == SelectSeq(st.segs[k].recs, LAMBDA r : r.off = LatestOff(all, h, r.key) \/ r.off >= h)
       IN IF sur = <<>>
          THEN CompactFrom([st EXCEPT !.segs = [st.segs EXCEPT ![k] = Closed(@, TRUE)],
                                      !.files = st.files \ {st.segs[k].base}],
                           Tail(kept), all, h)
          ELSE CompactFrom([st EXCEPT !.segs = [st.segs EXCEPT ![k] = Closed(@, TRUE)],
                                      !.res = Append(st.res, [k |-> 0, s |-> Filled(st.segs[k].base, sur)]),
                                      !.ec = AssignRecs(st.ec, sur)],
                           Tail(kept), all, h)

\* from here the clean goes on to its swap                    parks at: clean.before_swap
Finish(s, kept) ==
  IF cfg.compact /\ Len(kept) > 1
  THEN LET all == ViewOf(s.segs, kept)
           r   == CompactFrom([segs |-> s.segs, files |-> s.files, res |-> <<>>, ec |-> <<>>], kept, all, hw)
       IN [s EXCEPT !.segs = r.segs, !.files = r.files,
                    !.cln = [cln EXCEPT !.pc = "swap", !.kept = kept, !.res = r.res, !.ec = r.ec, !.hasEc = TRUE]]
  ELSE [s EXCEPT !.cln = [cln EXCEPT !.pc = "swap", !.kept = kept,
                                     !.res = [i \in 1..Len(kept) |-> [k |-> kept[i], s |-> s.segs[kept[i]]]],
                                     !.ec = <<>>, !.hasEc = FALSE]]

\* deleteSegments: the files of one doomed segment are removed   parks at: retention.after_delete_segment
\* (the doomed segments still to go are the marked, not yet closed ones of the snapshot, oldest first)
Pending(sg, snap) == SelectSeq(snap, LAMBDA k : sg[k].del /\ ~sg[k].closed)
DeleteOne(s, k) == [s EXCEPT !.segs = [s.segs EXCEPT ![k] = Closed(@, FALSE)], !.files = s.files \ {s.segs[k].base}]

\* deleteCleaner.Clean: mark the doomed segments, delete the first; without doomed segments go on
G_ClnWork == cln.pc = "snap"
N_ClnWork ==
  LET d    == Doomed(cln.snap)
      kept == SubSeq(cln.snap, d + 1, Len(cln.snap))
      mk   == [i \in 1..Len(segs) |-> IF \E j \in 1..d : cln.snap[j] = i THEN [segs[i] EXCEPT !.del = TRUE] ELSE segs[i]]
  IN IF d = 0 THEN Finish(S, kept)
     ELSE [DeleteOne([S EXCEPT !.segs = mk], cln.snap[1]) EXCEPT !.cln = [cln EXCEPT !.pc = "del", !.kept = kept]]

G_ClnDel == cln.pc = "del"
N_ClnDel ==
  LET pend == Pending(segs, cln.snap) IN
  IF pend = <<>> THEN Finish(S, cln.kept) ELSE DeleteOne(S, pend[1])

\* leaderEpochCache.Rebase(from, off)
RECURSIVE RebaseEp(_, _, _)
RebaseEp(c, from, off) ==
  IF from = <<>> THEN c
  ELSE LET x == Head(from) IN
       RebaseEp(IF x.s >= off /\ x.e > LatestEpoch(c) THEN Assign(c, x.e, x.s) ELSE c, Tail(from), off)

\* the swap under l.mu.Lock: segments appended meanwhile are rebased onto the cleaned list; the
\* epoch cache is replaced by the one compaction built (plus what was recorded at or after the
\* snapshot's last segment meanwhile) or trimmed at the new first segment
G_ClnSwap == cln.pc = "swap" /\ LockFree
\* the new objects get their indices now (they become reachable through l.segments)
RECURSIVE Install(_, _, _)
Install(sg, res, acc) ==
  IF res = <<>> THEN [segs |-> sg, list |-> acc]
  ELSE IF Head(res).k # 0 THEN Install(sg, Tail(res), Append(acc, Head(res).k))
       ELSE Install(Append(sg, Head(res).s), Tail(res), Append(acc, Len(sg) + 1))
N_ClnSwap ==
  LET n      == Len(cln.snap)
      rebase == SubSeq(listed, n + 1, Len(listed))
      ins    == Install(segs, cln.res, <<>>)
      ns     == ins.list \o rebase
      ne     == IF cln.hasEc THEN RebaseEp(cln.ec, epochs, LatestStart(cln.ec))
                ELSE ClearEarliest(epochs, ins.segs[ns[1]].base)
      f      == ins.segs[ns[1]]
      first  == IF f.recs = <<>> \/ f.del THEN -1 ELSE f.recs[1].off
  IN [S EXCEPT !.segs = ins.segs, !.listed = ns, !.epochs = ne, !.cln = ClnIdle,
               !.obs = [a |-> "Clean", ret |-> <<first>>, err |-> ""]]

-----------------------------------------------------------------------------
(* Calls executed in one piece while the others are parked                  *)

G_SetHW(h) == LockFree
N_SetHW(h) == [S EXCEPT !.hw = IF h > hw THEN h ELSE hw, !.obs = [a |-> "SetHW", ret |-> <<>>, err |-> ""]]

G_NewEpoch(e) == TRUE
N_NewEpoch(e) == [S EXCEPT !.epochs = Assign(epochs, e, Newest),
                           !.obs = [a |-> "NewLeaderEpoch", ret |-> <<>>, err |-> ""]]

\* the disk as it is now, opened by another process (crash image): the records a recovery finds
\* (content of a file = the open object of that base; a file rewritten by a compaction that has not
\* swapped yet = the object waiting in cln.res)
RECURSIVE Ord(_)
Ord(X) == IF X = {} THEN <<>> ELSE LET b == SetMin(X) IN <<b>> \o Ord(X \ {b})
DiskLog == LET At(b) == LET K == {k \in 1..Len(segs) : segs[k].base = b /\ ~segs[k].closed}
                            P == {i \in DOMAIN cln.res : cln.res[i].k = 0 /\ cln.res[i].s.base = b}
                        IN IF K # {} THEN segs[SetMax(K)].recs
                           ELSE IF P # {} THEN cln.res[SetMin(P)].s.recs ELSE <<>>
               o == Ord(files)
           IN Flat([i \in 1..Len(o) |-> At(o[i])])
\* Close + New on the same directory (clean restart; nobody is inside a call): every object is
\* closed, one new object per file, the epoch cache is trimmed at both ends, the HW is checkpointed
G_Reopen == app.pc = "idle" /\ trn.pc = "idle" /\ cln.pc = "idle"
N_Reopen ==
  LET o     == Ord(files)
      At(b) == LET K == {k \in 1..Len(segs) : segs[k].base = b /\ ~segs[k].closed}
               IN IF K = {} THEN <<>> ELSE segs[SetMax(K)].recs
      old   == [k \in 1..Len(segs) |-> IF segs[k].closed THEN segs[k] ELSE Closed(segs[k], FALSE)]
      new   == [i \in 1..Len(o) |-> Filled(o[i], At(o[i]))]
      n     == Len(segs)
      lastn == new[Len(o)].next
      first == IF new[1].recs = <<>> THEN -1 ELSE new[1].recs[1].off
  IN [S EXCEPT !.segs = old \o new, !.listed = [i \in 1..Len(o) |-> n + i], !.active = n + Len(o),
               !.epochs = ClearEarliest(ClearLatest(epochs, lastn), first),
               !.rd = [r \in Readers |-> NoReader],
               !.obs = [a |-> "Reopen", ret |-> <<>>, err |-> ""]]
P_Reopen == obs'.err = "" /\ ViewOf(segs', listed') = View /\ hw' = hw

G_CrashImage == TRUE
N_CrashImage == [S EXCEPT !.obs = [a |-> "CrashImage", ret |-> DiskLog, err |-> ""]]

\* readers (judged at property level only: what they deliver, not how)
Visible(r) == SelectSeq(View, LAMBDA x : rd[r].c => x.off <= hw)
G_RdNew(r, c, rev, s) == ~rd[r].alive /\ LockFree
N_RdNew(r, c, rev, s) == [S EXCEPT !.rd = [rd EXCEPT ![r] = [alive |-> TRUE, c |-> c, rev |-> rev, pos |-> s, got |-> FALSE]],
                                   !.obs = [a |-> "RdNew", ret |-> <<>>, err |-> ""]]
G_RdNext(r) == rd[r].alive /\ LockFree
N_RdNext(r) ==
  LET v   == Visible(r)
      I   == {i \in DOMAIN v : IF rd[r].rev THEN v[i].off <= rd[r].pos ELSE v[i].off >= rd[r].pos}
      got == IF I = {} THEN <<>> ELSE <<v[IF rd[r].rev THEN SetMax(I) ELSE SetMin(I)]>>
  IN [S EXCEPT !.rd = [rd EXCEPT ![r].pos = IF got = <<>> THEN @ ELSE (IF rd[r].rev THEN got[1].off - 1 ELSE got[1].off + 1),
                                  ![r].got = @ \/ got # <<>>],
               !.obs = [a |-> "RdNext", ret |-> got, err |-> ""]]

-----------------------------------------------------------------------------
\* Open finding "append-overlaps-truncate" (an interleaving the server cannot produce for Append:
\* a leader stops its message loop before it truncates): Append records a new leader epoch in its
\* own critical section, before the write.  (1) Recorded for a layout whose segment a truncation
\* has replaced meanwhile, the entry carries the pre-truncation offset and survives the retry;
\* (2) recorded between the truncation's swap of the active segment and its ClearLatest, the
\* entry is wiped although the record is written.  Either way the history no longer matches.
Tags(n) ==
  IF /\ app.pc = "epoch" /\ n.app.pc = "wr"
     /\ (trn.pc = "clear" \/ (n.epochs # epochs /\ (segs[app.seg].closed \/ active # app.seg)))
  THEN {"append-overlaps-truncate"} ELSE {}

Apply(n) ==
  /\ segs' = n.segs /\ files' = n.files /\ listed' = n.listed /\ active' = n.active
  /\ hw' = n.hw /\ epochs' = n.epochs /\ app' = n.app /\ trn' = n.trn /\ cln' = n.cln
  /\ rd' = n.rd /\ obs' = n.obs
  /\ ever' = ever \cup UNION {Range(n.segs[k].recs) : k \in 1..Len(n.segs)}
  /\ taint' = taint \cup Tags(n)
  /\ UNCHANGED cfg

Init ==
  /\ cfg \in [cap : {2}, occ : {FALSE}, compact : BOOLEAN, msgs : {0, 2}]
  /\ segs = <<NewSeg(0)>> /\ files = {0} /\ listed = <<1>> /\ active = 1
  /\ hw = -1 /\ epochs = <<>>
  /\ app = AppIdle /\ trn = TrnIdle /\ cln = ClnIdle
  /\ rd = [r \in Readers |-> NoReader]
  /\ ever = {} /\ taint = {} /\ obs = NoObs

-----------------------------------------------------------------------------
(* What the properties demand                                               *)

Strict(l) == \A i \in 1..Len(l) - 1 : l[i].off < l[i + 1].off
DenseSeq(l) == \A i \in 1..Len(l) - 1 : l[i + 1].off = l[i].off + 1
IsPrefix(a, b) == Len(a) <= Len(b) /\ a = SubSeq(b, 1, Len(a))

\* C01: no duplicate, no reordering; without compaction no hole (the log is dense from its first offset);
\* the next offset follows the last record
X05_Ordered == Strict(View)
X05_Dense == ~cfg.compact => DenseSeq(View)
X05_NextFollows == LET a == segs[active] IN
                   ~a.closed => (a.next = IF a.recs = <<>> THEN a.base ELSE Last(a.recs).off + 1)
\* C05_Epochs (CommitLogCrash.tla) on the records present: the leader-epoch history matches them.
\* Judged when no mutator is between its epoch step and its write step.
EpochsMatch(sc, ep) ==
  /\ \A i \in 1..Len(ep) - 1 : ep[i].e < ep[i + 1].e /\ ep[i].s <= ep[i + 1].s
  /\ \A i \in 1..Len(ep), j \in 1..Len(sc) :
        /\ sc[j].off < ep[i].s => sc[j].ep < ep[i].e
        /\ sc[j].off > ep[i].s => sc[j].ep >= ep[i].e
  /\ \A j \in 1..Len(sc) : sc[j].ep <= LatestEpoch(ep)
Settled == app.pc \in {"idle", "chk", "pick", "epoch"} /\ trn.pc = "idle"
X05_Epochs == (Settled /\ taint = {}) => EpochsMatch(View, epochs)

\* an append that returns: stored at the offsets returned (the next consecutive ones - X05_Dense),
\* with its content; refused: nothing stored.  C16: stored only at the expected offset, refused for
\* its offset only when it does not match.  pre = next offset of the active segment before the step.
P_AppendRet(batch, pre) ==
  IF obs'.err = ""
  THEN /\ obs'.ret = [i \in 1..Len(batch) |-> obs'.ret[1] + i - 1]
       /\ IsSet(batch) => obs'.ret = [i \in 1..Len(batch) |-> batch[i].off]
       /\ LET v == ViewOf(segs', listed') IN
          \A i \in 1..Len(batch) : \E j \in DOMAIN v :
             v[j] = [off |-> obs'.ret[i], ep |-> batch[i].ep, key |-> batch[i].key, id |-> batch[i].id]
       /\ (cfg.occ /\ batch[1].exp # -1) => obs'.ret[1] = batch[1].exp
  ELSE /\ ViewOf(segs', listed') = View
       /\ obs'.ret = <<>>
       /\ obs'.err = "incorrect_offset" => (cfg.occ /\ batch[1].exp # -1 /\ batch[1].exp # pre)
       \* (AppendMessageSet gives up when its segment was closed under it: ErrSegmentClosed)
       /\ obs'.err \in (IF IsSet(batch) THEN {"closed"} ELSE {"incorrect_offset"})
\* no step of the appender removes or alters anything
P_AppendStep == IsPrefix(View, ViewOf(segs', listed'))

\* a truncation removes exactly a suffix: every step keeps a prefix and everything below o; the step
\* that installs the new segment list leaves nothing at or above o
P_TruncateStep(o) ==
  LET v == ViewOf(segs', listed') IN
  /\ IsPrefix(v, View)
  /\ \A i \in DOMAIN View : View[i].off < o => (i <= Len(v) /\ v[i] = View[i])
  /\ (trn'.pc = "clear" /\ trn.pc # "clear") => \A i \in DOMAIN v : v[i].off < o
  /\ hw' = hw

\* a clean removes only what C08 / C09 allow (b = the log when the clean began, judged on the swap):
\* nothing invented or reordered; what was appended meanwhile is all there; without compaction whole
\* leading segments only, and only while the limit is exceeded; with compaction the latest committed
\* record of every key, everything at or above the HW and the newest segment survive
InSeq(s, x) == \E i \in DOMAIN s : s[i] = x
P_CleanSwap(b, lastBase) ==
  LET v    == ViewOf(segs', listed')
      old  == SelectSeq(v, LAMBDA r : InSeq(b, r))
      new  == SelectSeq(v, LAMBDA r : ~InSeq(b, r))
      grew == SelectSeq(View, LAMBDA r : ~InSeq(b, r))
      Req(r) == \/ r.off >= hw \/ r.off >= lastBase
                \/ ~\E x \in Range(b) \cup Range(v) : x.key = r.key /\ x.off <= hw /\ x.off > r.off
  IN /\ Strict(v) /\ v = old \o new
     /\ new = grew                                                     \* appended meanwhile: all there
     /\ hw' = hw
     /\ \E d \in 0..Len(b) :
           /\ d > 0 => cfg.msgs > 0                                    \* C09: only a configured limit removes segments
           /\ \A i \in 1..d : ~InSeq(v, b[i])                         \* ... from the oldest end
           /\ \A i \in d + 1..Len(b) : InSeq(v, b[i]) \/ (cfg.compact /\ ~Req(b[i]))   \* C08: what must survive survives
           /\ (d > 0 /\ ~cfg.compact) => Len(b) + Len(grew) - d + cfg.cap > cfg.msgs    \* C09: no more than needed
     /\ obs'.ret = <<IF segs'[listed'[1]].recs = <<>> \/ segs'[listed'[1]].del THEN -1 ELSE segs'[listed'[1]].recs[1].off>>
\* no other step of the cleaner changes what readers of the live log can see, except that records
\* it is removing disappear (as whole leading segments / compacted records) - never a hole in what stays
P_CleanStep == LET v == ViewOf(segs', listed') IN
               /\ \A i \in DOMAIN v : InSeq(View, v[i])
               /\ Strict(v) /\ hw' = hw

\* files of an interrupted or overlapping clean never leave a hole in the middle of the retained
\* range: a record of the live log between two records the recovery finds is found too (retention)
P_CrashImage(b) ==
  LET R == obs'.ret
      L == Range(b) \cup Range(View) IN
  /\ Strict(R)
  /\ ~cfg.compact => \A x \in L :
        (\E a, c \in DOMAIN R : R[a].off < x.off /\ x.off < R[c].off) => InSeq(R, x)
  /\ \A i \in DOMAIN R : R[i] \in ever

\* readers deliver increasing offsets with stored content and fail only with the documented class
P_RdClass(r) == obs'.err \in {"", "replaced", "notfound", "closed"}
P_RdContent(r) == \A i \in DOMAIN obs'.ret : obs'.ret[i] \in ever
\* (a committed reader created beyond the HW resumes from the HW it saw, possibly below its start:
\* judged under C10, see CommitLog.tla P_Drain)
P_RdOrder(r) == \A i \in DOMAIN obs'.ret : LET x == obs'.ret[i] IN
                  IF rd[r].rev THEN x.off <= rd[r].pos ELSE (x.off >= rd[r].pos \/ (rd[r].c /\ ~rd[r].got))
P_RdCommitted(r) == \A i \in DOMAIN obs'.ret : rd[r].c => obs'.ret[i].off <= hw
P_RdQuiet(r) == ViewOf(segs', listed') = View /\ hw' = hw
\* the HW lies below the first retained record (retention removed the segment that held it)
HWBelowStart == View # <<>> /\ hw < View[1].off
P_RdNext(r) == P_RdClass(r) /\ P_RdContent(r) /\ P_RdOrder(r) /\ P_RdCommitted(r) /\ P_RdQuiet(r)

P_SetHW(h) == hw' = (IF h > hw THEN h ELSE hw) /\ ViewOf(segs', listed') = View
P_NewEpoch == ViewOf(segs', listed') = View /\ hw' = hw

TypeOK ==
  /\ active \in 1..Len(segs) /\ files \subseteq Int
  /\ \A i \in 1..Len(listed) : listed[i] \in 1..Len(segs)
  /\ EpochsWellFormed(epochs)
  /\ \A i \in 1..Len(listed) - 1 : segs[listed[i]].base < segs[listed[i + 1]].base
\* the active segment is the last listed one whenever nobody holds the log mutex
X05_ActiveListed == LockFree => active = Last(listed)
=============================================================================
