--------------------- MODULE Trace_CommitLogCrash ---------------------
(* Trace validation for CommitLogCrash.tla (property C05).  Every line of   *)
(* trace.ndjson is one step executed on the real commit log:                *)
(*   Open          start of a run: the observed state before it             *)
(*   CrashRecover  a child process executing args.op was SIGKILLed in front *)
(*                 of the args.n-th passage of crash point args.p; the      *)
(*                 directory was reopened with commitlog.New                *)
(*   <operation>   a completed operation (before a crash, or a follow-up)   *)
(* with the projected state after the step: files of the directory, the     *)
(* in-memory segment list, HW, epoch cache, and the observations sc (full   *)
(* uncommitted read-back), nw (NewestOffset), rd (reader opened at every    *)
(* offset).  The variables are bound to the recorded state; then            *)
(*   - the C05 predicates are evaluated on the observations (FAIL "P"),     *)
(*   - the step as the specification performs it is evaluated as a test     *)
(*     (FAIL "I" = conformance drift).                                      *)
EXTENDS CommitLogCrash, TLC, Json

Trace == ndJsonDeserialize("trace.ndjson")

VARIABLES l, sc, nw, rd, scerr
tvars == <<vars, l, sc, nw, rd, scerr>>

LfOf(list) == [k \in {<<list[i].b, list[i].x>> : i \in DOMAIN list} |->
                 list[CHOOSE i \in DOMAIN list : <<list[i].b, list[i].x>> = k].recs]
XfOf(list) == [k \in {<<list[i].b, list[i].x>> : i \in DOMAIN list} |->
                 list[CHOOSE i \in DOMAIN list : <<list[i].b, list[i].x>> = k].ents]
FsOf(j) == [lf |-> LfOf(j.lf), xf |-> XfOf(j.xf), hwf |-> j.hwf, epf |-> j.epf]

Bind(e) ==
  /\ cfg' = e.cfg /\ fs' = FsOf(e.st.fs) /\ mem' = e.st.mem /\ obs' = e.obs
  /\ sc' = e.st.sc /\ nw' = e.st.nw /\ rd' = e.st.rd /\ scerr' = e.st.scerr

TraceInit ==
  LET e == Trace[1] IN
  /\ cfg = e.cfg /\ fs = FsOf(e.st.fs) /\ mem = e.st.mem /\ obs = e.obs
  /\ sc = e.st.sc /\ nw = e.st.nw /\ rd = e.st.rd /\ scerr = e.st.scerr
  /\ l = 2

Fail(kind, e, name) == PrintT(<<"FAIL", kind, e.t, l, e.a, name>>)
\* IF-THEN-ELSE (not a disjunction) so that TLC evaluates the test as a predicate
Chk(ok, kind, e, name) == IF ok THEN TRUE ELSE Fail(kind, e, name)

LastBase == IF mem.segs = <<>> THEN 0 ELSE Last(mem.segs).base
ErrClass(s) == IF s = "hang" THEN "segment_exists_loop" ELSE s

RdOf(f, m) == LET s == ScanOf(f, m)
                  offs == SelectSeq([i \in 1..Len(s) |-> s[i].off],
                                    LAMBDA o : TRUE) IN
              [i \in 1..Len(s) |-> LET r == ReadFirst(f, m, s[i].off) IN
                                   [o |-> s[i].off, off |-> r.off, val |-> r.val]]
\* the harness opens one reader per DISTINCT scanned offset, in scan order
RECURSIVE Dedup(_, _)
Dedup(s, seen) == IF s = <<>> THEN <<>>
                  ELSE IF Head(s).o \in seen THEN Dedup(Tail(s), seen)
                  ELSE <<Head(s)>> \o Dedup(Tail(s), seen \cup {Head(s).o})

\* the model of reading explains what the real readers returned
ObserveOK == /\ mem'.up => ScanOf(fs', mem') = sc'
             /\ mem'.up => NewestOf(mem') = nw'
             /\ mem'.up => Dedup(RdOf(fs', mem'), {}) = rd'

ImplOp(op) == LET S == RunAll(Begin(fs, mem, op)) IN
              /\ fs' = S.fs /\ mem' = S.mem
              /\ obs'.ret = S.ret /\ ErrClass(obs'.err) = S.err

\* a.rcs = further crashes during recovery (the recovering process was killed
\* in front of a crash point of New), then an uninterrupted recovery
\* a.torn >= 0: torn write (the log tail was cut inside the batch, a.torn complete records kept)
\* a.p = "syscall": the process was killed right after one of its file-system calls, at
\* a boundary the code does not name; the recovered state must be the recovery of the
\* state after SOME prefix of the operation's effects
ImplCrashAnywhere(a) ==
  \E k \in 0..Len(Plan(fs, mem, a.op)) :
     LET V == RecoverFS(RunPrefix(Begin(fs, mem, a.op), k).fs) IN fs' = V.fs /\ mem' = V.mem

ImplCrash(a) == IF a.p = "syscall" THEN ImplCrashAnywhere(a) /\ obs'.err = "" ELSE
                LET R == IF a.torn >= 0 THEN TornFS(fs, mem, a.op, a.torn)
                         ELSE LET Q == RunTo(Begin(fs, mem, a.op), a.p, a.n) IN [hit |-> Q.hit, fs |-> Q.S.fs]
                    C == CrashedRecoveries(R.fs, a.rcs)
                    V == RecoverFS(C.fs) IN
                /\ R.hit /\ C.hit
                /\ fs' = V.fs /\ mem' = V.mem /\ obs'.err = ""

StateChecks(e) ==
  /\ Chk(scerr' = "", "P", e, "C05_ScanReadable")
  /\ Chk(C05_NoDup(sc'), "P", e, "C05_NoDup")
  /\ Chk(C05_NewestOK(sc', nw'), "P", e, "C05_NewestOK")
  /\ Chk(C05_ReadAt(sc', rd'), "P", e, "C05_ReadAt")
  /\ Chk(C05_Epochs(sc', mem'.ep), "P", e, "C05_Epochs")
  /\ Chk(C05_EpochsBacked(sc', mem'.ep, nw'), "P", e, "C05_EpochsBacked")

\* follow-up operations: C05_EpochsBacked only when the log the operation started from had no offset gap
\* (see StateOKAfter in CommitLogCrash.tla)
StateChecksAfter(e) ==
  /\ Chk(scerr' = "", "P", e, "C05_ScanReadable")
  /\ Chk(C05_NoDup(sc'), "P", e, "C05_NoDup")
  /\ Chk(C05_NewestOK(sc', nw'), "P", e, "C05_NewestOK")
  /\ Chk(C05_ReadAt(sc', rd'), "P", e, "C05_ReadAt")
  /\ Chk(C05_Epochs(sc', mem'.ep), "P", e, "C05_Epochs")
  /\ Chk(Gappy(sc) \/ C05_EpochsBacked(sc', mem'.ep, nw'), "P", e, "C05_EpochsBacked")

TraceNext ==
  /\ Trace[l].a # "End"
  /\ l' = l + 1
  /\ LET e == Trace[l] IN
     /\ Bind(e)
     /\ IF e.a = "Open" THEN TRUE
        ELSE IF e.a = "CrashRecover" THEN
             /\ Chk(obs'.err = "", "P", e, "C05_ReopenOK")
             /\ IF obs'.err # "" THEN TRUE ELSE
                /\ Chk(C05_Durable(e.args.op, sc, LastBase, mem.hw, sc'), "P", e, "C05_Durable")
                /\ Chk(C05_NoPhantom(e.args.op, sc, nw, sc'), "P", e, "C05_NoPhantom")
                /\ Chk(C05_HW(mem.hw, mem'.hw), "P", e, "C05_HW")
                /\ Chk(C05_NoGhost(Ghostable(e.args.op, sc, LastBase, nw, mem.hw), sc', nw'), "P", e, "C05_NoGhost")
                /\ StateChecks(e)
                /\ Chk(ImplCrash(e.args), "I", e, "step")
                /\ Chk(ObserveOK, "I", e, "observe")
        ELSE /\ Chk(P_Op(e.args, sc, nw, LastBase, mem.hw, obs', sc', mem'.hw), "P", e, "P_Op")
             /\ IF obs'.err # "" THEN TRUE
                ELSE StateChecksAfter(e) /\ Chk(C05_NoGhost(Ghostable(e.args, sc, LastBase, nw, mem.hw), sc', nw'), "P", e, "C05_NoGhost")
             /\ Chk(ImplOp(e.args), "I", e, "step")
             /\ Chk(ObserveOK, "I", e, "observe")

TraceSpec == TraceInit /\ [][TraceNext]_tvars

Done == PrintT(<<"DONE", TLCGet("stats").diameter, Len(Trace)>>)
=============================================================================
