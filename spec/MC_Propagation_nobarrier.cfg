SPECIFICATION MCSpec
CONSTANTS
  Servers = {"a", "b", "c"}
  MaxInst = 3
  Barrier = FALSE
  AcqBarrier = TRUE
  NotLeaderPanics = FALSE
  ApplyRefuses = TRUE
  QueueGroup = TRUE
  MaxReq = 3
  MaxTransfers = 0
  MaxCancels = 0
  MaxSlow = 1
  MaxLog = 3
  OpSet = {"create", "shrink", "elect"}
INVARIANTS Inv_Current
VIEW MCView
CHECK_DEADLOCK FALSE
