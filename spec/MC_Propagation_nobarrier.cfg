SPECIFICATION MCSpec
CONSTANTS
  Servers = {"a", "b", "c"}
  MaxInst = 4
  Barrier = FALSE
  AcqBarrier = TRUE
  NotLeaderPanics = FALSE
  ApplyRefuses = TRUE
  MaxReq = 2
  MaxTransfers = 1
  MaxCancels = 1
  MaxSlow = 1
  MaxLog = 3
  OpSet = {"create", "delete", "expand", "shrink", "elect"}
INVARIANTS Inv_Current
VIEW MCView
CHECK_DEADLOCK FALSE
