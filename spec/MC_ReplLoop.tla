--------------------------- MODULE MC_ReplLoop ---------------------------
(* Bounded instance of ReplLoop.tla: design check (safety; liveness under fairness), stimulus generation. *)
EXTENDS ReplLoop, TLC

CONSTANTS MaxTick, MaxSlow, MaxIdleT, MaxKill, TrackLast    \* budgets of the environment steps; 99 = unbounded
VARIABLES last, nTick, nSlow, nIdleT
mcvars == <<st, last, nTick, nSlow, nIdleT>>

Step(a) == last' = IF TrackLast THEN a ELSE last
Can(n, max) == max >= 99 \/ n < max
Inc(n, max) == IF max >= 99 THEN n ELSE n + 1

MCInit == Init /\ last = [a |-> "Open"] /\ nTick = 0 /\ nSlow = 0 /\ nIdleT = 0
Keep == UNCHANGED <<nTick, nSlow, nIdleT>>

MCAppend == Act(G_Append(st), N_Append(st)) /\ Keep /\ Step([a |-> "Append"])
MCFSend(f) == Act(G_FSend(st, f), N_FSend(st, f)) /\ Keep /\ Step([a |-> "FSend", f |-> f])
MCFRecv(f, w) == Act(G_FRecv(st, f, w), N_FRecv(st, f, w)) /\ Keep /\ Step([a |-> "FRecv", f |-> f, w |-> w])
MCFRecvSteal(f) == Act(G_FRecvSteal(st, f), N_FRecvSteal(st, f)) /\ Keep /\ Step([a |-> "FRecv", f |-> f, w |-> "old"])
MCFTimeout(f) ==
  /\ Act(G_FTimeout(st, f), N_FTimeout(st, f))
  /\ (st.lp[f].lost \/ Can(nSlow, MaxSlow))
  /\ nSlow' = IF st.lp[f].lost THEN nSlow ELSE Inc(nSlow, MaxSlow)
  /\ UNCHANGED <<nTick, nIdleT>> /\ Step([a |-> "FTimeout", f |-> f])
MCFIdle(f) == Act(G_FIdle(st, f), N_FIdle(st, f)) /\ Keep /\ Step([a |-> "FIdle", f |-> f])
MCLResp(f) == Act(G_LResp(st, f), N_LResp(st, f)) /\ Keep /\ Step([a |-> "LResp", f |-> f])
MCTick(f) == /\ Act(G_Tick(st, f), N_Tick(st, f)) /\ Can(nTick, MaxTick) /\ nTick' = Inc(nTick, MaxTick)
             /\ UNCHANGED <<nSlow, nIdleT>> /\ Step([a |-> "Tick", f |-> f])
MCLNotify(f) == Act(G_LNotify(st, f), N_LNotify(st, f)) /\ Keep /\ Step([a |-> "LNotify", f |-> f])
MCLNotifyOld(f) == Act(G_LNotifyOld(st, f), N_LNotifyOld(st, f)) /\ Keep /\ Step([a |-> "LNotifyOld", f |-> f])
MCIdleTimeout(f) == /\ Act(G_IdleTimeout(st, f), N_IdleTimeout(st, f)) /\ Can(nIdleT, MaxIdleT)
                    /\ nIdleT' = Inc(nIdleT, MaxIdleT) /\ UNCHANGED <<nTick, nSlow>>
                    /\ Step([a |-> "IdleTimeout", f |-> f])
MCNewEpochL == Act(G_NewEpochL(st), N_NewEpochL(st)) /\ Keep /\ Step([a |-> "NewEpochL"])
MCNewEpochF(f) == /\ \/ Act(G_NewEpochF(st, f), N_NewEpochF(st, f))
                     \/ Act(G_NewEpochFSteal(st, f), N_NewEpochFSteal(st, f))
                  /\ Keep /\ Step([a |-> "NewEpochF", f |-> f])
MCKill == MaxKill > 0 /\ Act(G_Kill(st), N_Kill(st)) /\ Keep /\ Step([a |-> "Kill"])
MCMute == MaxKill > 0 /\ Act(G_Mute(st), N_Mute(st)) /\ Keep /\ Step([a |-> "Mute"])

Proto == \/ \E f \in F, w \in W : MCFRecv(f, w)
         \/ \E f \in F : \/ MCFSend(f) \/ MCFTimeout(f) \/ MCFIdle(f) \/ MCFRecvSteal(f)
                         \/ MCLResp(f) \/ MCLNotify(f) \/ MCLNotifyOld(f) \/ MCNewEpochF(f)
Env == \/ MCAppend \/ MCNewEpochL \/ MCKill \/ MCMute
       \/ \E f \in F : MCTick(f) \/ MCIdleTimeout(f)
MCNext == Proto \/ Env

MCSpec == MCInit /\ [][MCNext]_mcvars

\* fairness: every step of the protocol itself (goroutines run, messages are delivered, committed metadata
\* is applied - strongly fair, because the model lets a follower apply it only between two requests); nothing
\* about the environment: no timer ever needs to fire
FairProto == /\ \A f \in F, w \in W : WF_mcvars(MCFRecv(f, w) \/ (w = "old" /\ MCFRecvSteal(f)))
             /\ \A f \in F : /\ WF_mcvars(MCFSend(f)) /\ WF_mcvars(MCFTimeout(f)) /\ WF_mcvars(MCFIdle(f))
                             /\ WF_mcvars(MCLResp(f)) /\ WF_mcvars(MCLNotify(f))
                             /\ WF_mcvars(MCLNotifyOld(f)) /\ SF_mcvars(MCNewEpochF(f))
MCLive1 == MCSpec /\ FairProto
\* ... and time passes: idle waits end, the leader timeout runs out
MCLive2 == MCSpec /\ FairProto /\ \A f \in F : WF_mcvars(MCTick(f)) /\ WF_mcvars(MCIdleTimeout(f))

\* every step, as the code performs it, satisfies what X03 demands of a step
StepOK ==
  /\ P_Monotone(st, st')
  /\ (TrackLast /\ last'.a = "FRecv") => P_StaleDropped(st, st', last'.f, last'.w) /\ P_HWTaken(st, st', last'.f, last'.w)
  /\ TrackLast => IF "f" \in DOMAIN last' THEN P_Report(st, st', last'.a, last'.f) ELSE st'.rp = {}
StepsOK == [][StepOK]_mcvars

\* gate-to-gate quiescence: when the protocol cannot move, nothing is owed
X03_Quiet == (~ENABLED Proto) => X03_Quiescent(st)

Alive == st.up /\ ~st.mute
\* no lost wake-up: every record of a live leader reaches every follower, and the leader's HW follows -
\* without any timer
X03_LiveStore == \A f \in F : \A v \in 0..(MaxRec - 1) : (st.leo >= v) ~> (Feo(st, f) >= v \/ ~Alive)
X03_LiveHW == \A v \in 0..(MaxRec - 1) : (st.leo >= v) ~> (st.lhw >= v \/ ~Alive)
\* with the idle wait ending, the follower's HW follows too
X03_LiveFollowerHW == \A f \in F : \A v \in 0..(MaxRec - 1) : (st.leo >= v) ~> (st.fhw[f] >= v \/ ~Alive)
\* a dead or silent leader is reported by every follower, with the epoch the follower follows
X03_LiveDetect == \A f \in F : (~Alive) ~> (\E r \in st.rpts : r.f = f /\ r.e = st.lp[f].e)
=============================================================================
