SPECIFICATION MCSpec
CONSTANTS
  EnvHonoured = TRUE
  MaxTicks = 5
INVARIANTS TypeOK C19_Silent C19_NoCollector C19_Whitelist C19_NoLeak C19_InstanceId ConfigAsDocumented
PROPERTIES C19_Step
VIEW MCView
CHECK_DEADLOCK FALSE
