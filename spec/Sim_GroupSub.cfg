SPECIFICATION MCSpec
CONSTANTS
  Groups = {"g1", "g2"}
  CleanupById = FALSE
  Consumers = {"c1", "c2", "c3"}
  MaxEpoch = 3
  MaxSubs = 7
  MaxOps = 12
  UsePlain = TRUE
  UseBurst = TRUE
  UseBad = TRUE
CHECK_DEADLOCK FALSE
