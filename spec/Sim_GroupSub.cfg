SPECIFICATION MCSpec
CONSTANTS
  Groups = {"g1", "g2"}
  GroupOnFollower = FALSE
  OnlyOpenEnded = FALSE
  CleanupById = FALSE
  Consumers = {"c1", "c2", "c3"}
  MaxEpoch = 3
  MaxSubs = 7
  MaxOps = 12
  UsePlain = TRUE
  UseBurst = TRUE
  UseFollower = TRUE
  UseBounded = TRUE
  C0 = "c1"
  UseGrpc = TRUE
  UseRace = TRUE
  MaxElect = 2
  StrandedKnown = TRUE
  UseBad = TRUE
CHECK_DEADLOCK FALSE
