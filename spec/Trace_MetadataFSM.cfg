SPECIFICATION TraceSpec
CONSTANTS
  GroupIds = {"g1"}
POSTCONDITION Done
CHECK_DEADLOCK FALSE
