SPECIFICATION MCSpec
CONSTANTS
  R = {"a", "b", "c"}
  MinISR = 2
  FetchMax = 2
  WideEvery = 0
  OffsetReset = "all"
  LateResp = "drop"
  HWFallback = TRUE
  ElectAlive = FALSE
  AllowLag = FALSE
  ElectDown = TRUE
  MaxMsgs = 2
  MaxElect = 1
  MaxCrash = 1
  MaxIsrOps = 1
  MaxRejects = 0
  Policies = {"ALL"}
  UseCheckpoint = TRUE
  MaxPause = 0
  MaxHold = 0
  Batch = 1
  IgnoreTaints = FALSE
INVARIANTS Inv_CommittedSurvives Inv_NoDivergence Inv_HWBacked Inv_Nacked Inv_Struct NoTaint_HWFallbackKeptAlone
PROPERTIES AcksOK HWMono
VIEW MCView
CHECK_DEADLOCK FALSE
