-------------------------- MODULE Trace_Propagation --------------------------
(* Trace validation for Propagation.tla.  Every line of trace.ndjson is one *)
(* step executed on a real three-server cluster (real Raft, real handlers,  *)
(* request goroutines parked at the gates); the state after the step is     *)
(* projected from the real objects (committed commands read back from the   *)
(* Raft log store, applied count and stream / partition of every server,    *)
(* Raft leader, isLeader flags, propagate subscriptions, pending leadership *)
(* notifications, position and result of every request goroutine).          *)
(* Ghost parts (owner of an entry, barrier positions, leadership term) are  *)
(* computed by the specification.                                           *)
(*   FAIL "P": what X04 demands is violated (verdict)                       *)
(*   FAIL "I": the step differs from the specification of today's code      *)
EXTENDS Propagation, Json

Trace == ndJsonDeserialize("trace.ndjson")

VARIABLES l, md
tvars == <<vars, l, md>>

ToSet(s) == {s[i] : i \in DOMAIN s}
Fail(kind, e, name) == PrintT(<<"FAIL", kind, e.t, l, e.a, name>>)
Chk(ok, kind, e, name) == IF ok THEN TRUE ELSE Fail(kind, e, name)

ObsInst(x) == [r |-> x.r, op |-> x.op, x |-> x.x, L |-> x.L, E |-> x.E, at |-> x.at, par |-> x.par, pc |-> x.pc,
               res |-> x.res]
ObsEntry(x) == IF x.op = "elect" THEN [op |-> x.op, x |-> x.x, L |-> "-", E |-> 0]
               ELSE [op |-> x.op, x |-> x.x, L |-> x.L, E |-> x.E]
ObsMeta(M) == [ex |-> M.ex, ld |-> M.ld, le |-> M.le, isr |-> M.isr]
RecMeta(m) == [ex |-> m.ex, ld |-> m.ld, le |-> m.le, isr |-> ToSet(m.isr)]

Same == [inst |-> inst, log |-> log, applied |-> applied, rleader |-> rleader, term |-> term, flag |-> flag,
         sub |-> sub, evq |-> evq, lp |-> lp, crashed |-> crashed]

GOf(e) ==
  CASE e.a = "Start" -> G_Start(e.args.r, e.args.s, e.args.op, e.args.x, e.args.to)
    [] e.a = "Handle" -> G_Handle(e.args.i, e.args.to)
    [] e.a = "Lock" -> G_Lock(e.args.i)
    [] e.a = "Propose" -> e.args.i \in Ids /\ inst[e.args.i].pc = "checked" /\ e.args.x \in Servers \cup {"-"}
    [] e.a = "Apply" -> G_Apply(e.args.s)
    [] e.a = "Cancel" -> G_Cancel(e.args.i)
    [] e.a = "Transfer" -> G_Transfer(e.args.t)
    [] e.a = "Lost" -> G_Lost(e.args.s)
    [] e.a = "Acquired" -> G_Acquired(e.args.s)
    [] OTHER -> TRUE
NOf(e) ==
  CASE e.a = "Start" -> N_Start(e.args.r, e.args.s, e.args.op, e.args.x, e.args.to)
    [] e.a = "Handle" -> N_Handle(e.args.i, e.args.to)
    [] e.a = "Lock" -> N_Lock(e.args.i)
    [] e.a = "Propose" -> N_Propose(e.args.i, e.args.x)
    [] e.a = "Apply" -> N_Apply(e.args.s)
    [] e.a = "Cancel" -> N_Cancel(e.args.i)
    [] e.a = "Transfer" -> N_Transfer(e.args.t)
    [] e.a = "Lost" -> N_Lost(e.args.s)
    [] e.a = "Acquired" -> N_Acquired(e.args.s)
    [] OTHER -> Same

\* the next state: what was recorded, with the ghost parts of the specification's next state n
Owner(e, k, n) == IF k <= Len(log) THEN log[k].r
                  ELSE IF e.a = "Propose" /\ k = Len(log) + 1 THEN inst[e.args.i].r ELSE 0
\* a CHANGE_LEADER entry does not carry the (leader, epoch) pair its election was decided for: it is the pair of
\* the request that proposed it
PairOf(e, k) ==
  IF e.st.log[k].op # "elect" THEN <<e.st.log[k].L, e.st.log[k].E>>
  ELSE IF k <= Len(log) THEN <<log[k].L, log[k].E>>
  ELSE IF e.a = "Propose" /\ k = Len(log) + 1 THEN <<inst[e.args.i].L, inst[e.args.i].E>> ELSE <<"-", 0>>
RecLog(e, n) == [k \in 1..Len(e.st.log) |->
                   [op |-> e.st.log[k].op, x |-> e.st.log[k].x, L |-> PairOf(e, k)[1], E |-> PairOf(e, k)[2],
                    r |-> Owner(e, k, n)]]
RecInst(e, n) == [i \in Ids |->
                    LET x == e.st.inst[i] IN
                    [r |-> x.r, op |-> x.op, x |-> x.x, L |-> x.L, E |-> x.E, at |-> x.at, par |-> x.par, pc |-> x.pc,
                     res |-> x.res,
                     idx |-> IF e.a = "Propose" /\ i = e.args.i THEN
                                (IF Len(e.st.log) > Len(log) THEN Len(log) + 1 ELSE 0)
                             ELSE IF e.a = "Open" THEN 0 ELSE inst[i].idx,
                     bar |-> IF e.a = "Open" THEN 0 ELSE n.inst[i].bar,
                     term |-> IF e.a = "Open" THEN 0 ELSE n.inst[i].term]]

Bind(e, n) ==
  /\ log' = RecLog(e, n)
  /\ applied' = [s \in Servers |-> e.st.applied[s]]
  /\ rleader' = e.st.rleader
  /\ flag' = [s \in Servers |-> e.st.flag[s]]
  /\ sub' = [s \in Servers |-> e.st.sub[s]]
  /\ evq' = [s \in Servers |-> e.st.evq[s]]
  /\ lp' = [s \in Servers |-> [w |-> e.st.lpw[s], bar |-> IF e.a = "Open" THEN 0 ELSE n.lp[s].bar]]
  /\ inst' = RecInst(e, n)
  /\ term' = IF e.a = "Open" THEN 0 ELSE n.term
  /\ slow' = ToSet(e.st.slow)
  /\ crashed' = (e.obs.crash # "")
  /\ md' = [s \in Servers |-> RecMeta(e.st.md[s])]

TraceInit ==
  LET e == Trace[1] IN
  /\ log = <<>> /\ applied = [s \in Servers |-> 0] /\ slow = ToSet(e.st.slow)
  /\ rleader = e.st.rleader /\ term = 0
  /\ flag = [s \in Servers |-> e.st.flag[s]] /\ sub = [s \in Servers |-> e.st.sub[s]]
  /\ evq = [s \in Servers |-> <<>>] /\ lp = [s \in Servers |-> NoLp]
  /\ inst = [i \in Ids |-> Free] /\ crashed = FALSE
  /\ md = [s \in Servers |-> RecMeta(e.st.md[s])]
  /\ l = 2

\* (3) every server has applied a prefix of the one log, and holds exactly what that prefix produces
SameSequence ==
  \A s \in Servers : /\ applied[s] \in 0..Len(log)
                     /\ md[s] = ObsMeta(MetaAt(applied[s]))

\* conformance with the specification of today's code, variable by variable
Conform(e, n) ==
  /\ Chk(GOf(e), "I", e, "enabled")
  /\ Chk(Len(e.st.log) = Len(n.log) /\ \A k \in 1..Len(n.log) : ObsEntry(e.st.log[k]) = ObsEntry(n.log[k]), "I", e, "log")
  /\ Chk(\A s \in Servers : e.st.applied[s] = n.applied[s], "I", e, "applied")
  /\ Chk(e.st.rleader = n.rleader, "I", e, "rleader")
  /\ Chk(\A s \in Servers : e.st.flag[s] = n.flag[s] /\ e.st.sub[s] = n.sub[s], "I", e, "flag/sub")
  /\ Chk(\A s \in Servers : e.st.evq[s] = n.evq[s], "I", e, "evq")
  /\ Chk(\A s \in Servers : e.st.lpw[s] = n.lp[s].w, "I", e, "lpw")
  /\ Chk(\A i \in Ids : ObsInst(e.st.inst[i]) = ObsInst(n.inst[i]), "I", e, "inst")
  /\ Chk((e.obs.crash # "") = n.crashed, "I", e, "crashed")

TraceNext ==
  /\ Trace[l].a # "End"
  /\ l' = l + 1
  /\ LET e == Trace[l]
         n == IF GOf(e) THEN NOf(e) ELSE Same IN      \* a step the specification has not enabled: nothing to compare with
     IF e.a = "Open" THEN
        /\ log' = <<>> /\ applied' = [s \in Servers |-> 0] /\ slow' = ToSet(e.st.slow)
        /\ rleader' = e.st.rleader /\ term' = 0
        /\ flag' = [s \in Servers |-> e.st.flag[s]] /\ sub' = [s \in Servers |-> e.st.sub[s]]
        /\ evq' = [s \in Servers |-> <<>>] /\ lp' = [s \in Servers |-> NoLp]
        /\ inst' = [i \in Ids |-> Free] /\ crashed' = FALSE
        /\ md' = [s \in Servers |-> RecMeta(e.st.md[s])]
     ELSE IF e.obs.crash # "" THEN
        \* a server died in this step: that is the observation (nothing else could be recorded)
        /\ UNCHANGED <<log, applied, slow, rleader, term, flag, sub, evq, lp, inst, md>>
        /\ crashed' = TRUE
        /\ Chk(FALSE, "P", e, "X04_NoCrash")
        /\ Chk(GOf(e) /\ n.crashed, "I", e, "crashed")
     ELSE
        /\ Bind(e, n)
        /\ Chk(P_LogStep(e.a = "Propose") \/ e.a = "Drain", "P", e, "X04_OneEntryPerStep")
        /\ Chk(e.a = "Propose" => P_Propose(e.args.i), "P", e, "X04_EntryOfRequest")
        /\ Chk(X04_Current', "P", e, "X04_Current")
        /\ Chk(X04_RefusedNoEntry', "P", e, "X04_RefusedNoEffect")
        /\ Chk(X04_AtMostOneEffect', "P", e, "X04_AtMostOneEffect")
        /\ Chk(e.a = "Drain" \/ X04_OkCommitted', "P", e, "X04_OkCommitted")
        /\ Chk(SameSequence', "P", e, "X04_SameSequence")
        /\ IF e.a \in {"Drain"} THEN TRUE
           ELSE IF e.obs.queued THEN TRUE     \* a request waiting in a busy subscription: outside the specification
           ELSE IF e.obs.stuck # "" THEN
                \* the step could not be driven to its end on this code: an observation, nothing to conform to
                Chk(FALSE, "I", e, "stuck")
           ELSE IF e.a = "Skip" THEN
                Chk(e.st.log = [k \in 1..Len(log) |-> ObsEntry(log[k])]
                    /\ \A i \in Ids : ObsInst(e.st.inst[i]) = ObsInst(inst[i]), "I", e, "skip-changed-state")
           ELSE Conform(e, n)

TraceSpec == TraceInit /\ [][TraceNext]_tvars

Done == PrintT(<<"DONE", TLCGet("stats").diameter, Len(Trace)>>)
=============================================================================
