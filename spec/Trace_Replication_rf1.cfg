SPECIFICATION TraceSpec
CONSTANTS
  R = {"a"}
  MinISR = 1
  FetchMax = 2
  WideEvery = 0
  OffsetReset = "all"
  LateResp = "drop"
  HWFallback = TRUE
  ElectAlive = TRUE
  AllowLag = FALSE
  ElectDown = TRUE
POSTCONDITION Done
CHECK_DEADLOCK FALSE
