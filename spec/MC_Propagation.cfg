SPECIFICATION MCSpec
CONSTANTS
  Servers = {"a", "b", "c"}
  MaxInst = 4
  Barrier = TRUE
  AcqBarrier = TRUE
  NotLeaderPanics = FALSE
  ApplyRefuses = TRUE
  QueueGroup = TRUE
  MaxReq = 2
  MaxTransfers = 1
  MaxCancels = 1
  MaxSlow = 1
  MaxLog = 3
  OpSet = {"create", "delete", "expand", "shrink", "elect"}
INVARIANTS TypeOK Inv_Current Inv_AtMostOneEffect Inv_OkCommitted Inv_RefusedNoEntry Inv_NoCrash
PROPERTIES StepsOK
VIEW MCView
CHECK_DEADLOCK FALSE
