SPECIFICATION MCSpec
CONSTANTS
  Parts = {0, 1}
  SubIds = {"s1"}
  NilFix = TRUE
  MaxOps = 5
  MaxMsgs = 2
  Paths <- AllPaths
  Gates <- AllGates
  Cfgs <- AllCfgs
  SubsetsOf <- PartSets
INVARIANTS TypeOK X02_AckedStored X02_PausedQuiet X02_ActiveServed X02_DeletedGone X02_SubsSeeLog X02_NoCrash
PROPERTIES StepsOK
VIEW MCView
CHECK_DEADLOCK FALSE
