----------------------------- MODULE ReplLoop -----------------------------
(***************************************************************************)
(* X03 - the replication loop makes progress and detects a dead leader.    *)
(* pc-level model of one partition with one leader ("a") and the followers *)
(* F, as the code does it in                                               *)
(*   server/partition.go   replicationRequestLoop, sendReplicationRequest, *)
(*                         handleReplicationRequest / Response,            *)
(*                         checkLeaderHealth, Notify, becomeLeader /       *)
(*                         becomeFollower (stopLeading / stopFollowing),   *)
(*                         pauseReplication                                *)
(*   server/replicator.go  start (request channel), caughtUp (NotifyLEO    *)
(*                         data waiter + notifier goroutine), replicate    *)
(*   server/server.go      handlePartitionNotification                     *)
(* One action per critical section; every action boundary is a gate of the *)
(* build tag verif (verifGateStop / verifLoopGate), so that a behaviour of *)
(* this module is replayed 1:1 on the real code.                           *)
(*                                                                         *)
(* The whole state is one record `st` (every action = guard G + next-state *)
(* function N over the record: the trace specification computes what the   *)
(* harness cannot record and compares the rest field by field).            *)
(*   up, mute   leader process alive / leader ignores requests (p.pause)   *)
(*   ep         leader epoch at the leader (rank 1, 2, ..)                 *)
(*   leo, lhw   leader: newest offset (-1 = empty), high watermark         *)
(*   iso[f]     leader: latest offset known of ISR member f                *)
(*   rep[f]     replicator of f: pc "recv" (at the top of its loop) /      *)
(*              "hold" (took a request: lastSeen, ISR offset, commit,      *)
(*              `latest` read; parked before the caught-up decision)       *)
(*   chq[f]     r.requests (capacity 1)                                    *)
(*   wtr[f]     r.waiter: "none" / "reg" (registered on the segment,       *)
(*              notifier goroutine blocked) / "stale" (channel closed, the *)
(*              notifier goroutine is awake and has not run yet)           *)
(*   wleo[f]    log end the waiter was registered for                      *)
(*   zn[f]      awake notifier goroutines of replicators of older epochs   *)
(*   tok[f]     follower: p.notify (capacity 1)                            *)
(*   fep[f]     follower: p.LeaderEpoch                                    *)
(*   lp[f]      the follower's replication loop, zl[f] the loop of the     *)
(*              previous epoch that was stopped and has not noticed yet:   *)
(*              [pc, e, n, late, tmo, lost, resp]                          *)
(*              pc: top (before_request gate) / await (request out) / resp *)
(*              (response received, nothing stored yet) / prewait (decided *)
(*              to go idle) / idle (in the select) / done / none           *)
(*              late: more than ReplicaMaxLeaderTimeout since last contact *)
(*   fm, we     response size limit in units, which records are wide (fixed per behaviour)           *)
(*   flog[f], fhw[f]  follower log (values = leader offsets) and HW        *)
(*   rp         reports made by the last step: set of [f, e]; rpts: ever   *)
(***************************************************************************)
EXTENDS Integers, Sequences, FiniteSets

CONSTANTS F,            \* followers
          MaxRec,       \* records the leader appends
          MaxEp,        \* leader epochs
          FetchMax,     \* size units per replication response (a plain record = 1 unit)
          WideEvery,    \* > 0: every record whose number is a multiple of it is wide (2 units)
          SlowTimeouts, \* a request that was accepted may time out as well
          ZombieSteals  \* a stopped loop entering its select may take the notify token

VARIABLE st

Max2(a, b) == IF a > b THEN a ELSE b
Min2(a, b) == IF a < b THEN a ELSE b
MinSet(S) == CHOOSE x \in S : \A y \in S : x <= y

NoResp == [e |-> 0, hw |-> -1, from |-> 0, to |-> -1]
NoLoop == [pc |-> "none", e |-> 0, n |-> 0, late |-> FALSE, tmo |-> FALSE, lost |-> FALSE, resp |-> NoResp]
NewLoop(e) == [NoLoop EXCEPT !.pc = "top", !.e = e]
DoneLoop(l) == [NoLoop EXCEPT !.pc = "done", !.e = l.e]
NoRep == [pc |-> "recv", w |-> "cur", n |-> 0, off |-> -1, lat |-> -1]

W == {"cur", "old"}
Loop(s, f, w) == IF w = "cur" THEN s.lp[f] ELSE s.zl[f]
SetLoop(s, f, w, l) == IF w = "cur" THEN [s EXCEPT !.lp[f] = l] ELSE [s EXCEPT !.zl[f] = l]
Feo(s, f) == Len(s.flog[f]) - 1

\* response packing (replicator.replicate): records are added while the batch stays within the byte limit
Units(we, v) == IF we > 0 /\ v % we = 0 THEN 2 ELSE 1
RECURSIVE PackTo(_, _, _, _, _)
PackTo(we, from, newest, room, acc) ==      \* last offset of the batch starting at `from` (from - 1 = nothing fits)
  IF from > newest \/ Units(we, from) > room THEN acc
  ELSE PackTo(we, from + 1, newest, room - Units(we, from), from)

Init0 == [fm |-> FetchMax, we |-> WideEvery, up |-> TRUE, mute |-> FALSE, ep |-> 1, leo |-> -1, lhw |-> -1,
          iso |-> [f \in F |-> -1], rep |-> [f \in F |-> NoRep], chq |-> [f \in F |-> <<>>],
          wtr |-> [f \in F |-> "none"], wleo |-> [f \in F |-> -1], zn |-> [f \in F |-> 0],
          tok |-> [f \in F |-> 0], fep |-> [f \in F |-> 1],
          lp |-> [f \in F |-> NewLoop(1)], zl |-> [f \in F |-> NoLoop],
          flog |-> [f \in F |-> <<>>], fhw |-> [f \in F |-> -1],
          rp |-> {}, rpts |-> {}]

Init == st = Init0

-----------------------------------------------------------------------------
(* shared pieces *)

\* commitLoop (folded into the step that signals commitCheck): HW = min of the ISR offsets
Commit(s) == [s EXCEPT !.lhw = Max2(@, MinSet({s.leo} \cup {s.iso[f] : f \in F}))]

\* partition.Notify() at the follower: wakes the loop in its select, else leaves a token
Notified(s, f) == IF s.lp[f].pc = "idle" THEN [s EXCEPT !.lp[f].pc = "top"] ELSE [s EXCEPT !.tok[f] = 1]

\* replicator.start takes request q: lastSeen, updateISRLatestOffset (+ commit), latest := NewestOffset()
Take(s, f, q) ==
  LET s1 == Commit([s EXCEPT !.iso[f] = Max2(@, q.off)])
  IN [s1 EXCEPT !.rep[f] = [pc |-> "hold", w |-> q.w, n |-> q.n, off |-> q.off, lat |-> s.leo]]

Clr(s) == [s EXCEPT !.rp = {}]

-----------------------------------------------------------------------------
(* leader: messageProcessingLoop appends one record; the segment write closes every registered waiter *)
G_Append(s) == s.up /\ s.leo + 1 < MaxRec
N_Append(s) ==
  Commit([Clr(s) EXCEPT !.leo = s.leo + 1,
                        !.wtr = [f \in F |-> IF s.wtr[f] = "reg" THEN "stale" ELSE s.wtr[f]]])

(* follower loop at the top: stop check; NewestOffset(); request published; the leader's NATS handler
   (handleReplicationRequest, one critical section under p.mu) drops it or puts it on r.requests.
   Nobody listening (leader process gone): the request fails at once ("no responders") -> as FTimeout *)
Failed(s, f) ==
  LET l == s.lp[f]
      rp == IF l.late THEN {[f |-> f, e |-> l.e]} ELSE {}
  IN [s EXCEPT !.rp = rp, !.rpts = @ \cup rp,
               !.lp[f] = [l EXCEPT !.pc = "prewait", !.n = (l.n + 1) % 3, !.tmo = TRUE, !.lost = FALSE]]
G_FSend(s, f) == s.lp[f].pc = "top"
N_FSend(s, f) ==
  LET l  == s.lp[f]
      n  == (l.n + 1) % 3
      q  == [w |-> "cur", n |-> n, off |-> Feo(s, f), e |-> l.e]
      l1 == [l EXCEPT !.pc = "await", !.n = n, !.lost = FALSE]
      s1 == [Clr(s) EXCEPT !.lp[f] = l1]
      drop == [Clr(s) EXCEPT !.lp[f] = [l1 EXCEPT !.lost = TRUE]]
  IN IF ~s.up THEN Failed(s, f)
     ELSE IF s.mute \/ l.e # s.ep THEN drop
     ELSE IF s.chq[f] # <<>> THEN drop                      \* "Dropped replication request"
     ELSE IF s.rep[f].pc = "recv" THEN Take(s1, f, q)
     ELSE [s1 EXCEPT !.chq[f] = <<q>>]

(* replicator: caught up -> register the data waiter (or find the log end moved: fires at once) and send
   the HW; else read a batch and send it.  Then back to the top of its loop (next request, if queued) *)
G_LResp(s, f) == s.up /\ s.rep[f].pc = "hold"
N_LResp(s, f) ==
  LET r == s.rep[f]
      caught == r.off >= r.lat
      resp == IF caught THEN [e |-> s.ep, hw |-> s.lhw, from |-> 0, to |-> -1]
              ELSE [e |-> s.ep, hw |-> s.lhw, from |-> r.off + 1, to |-> PackTo(s.we, r.off + 1, s.leo, s.fm, r.off)]
      s1 == IF caught /\ s.wtr[f] = "none"
            THEN [Clr(s) EXCEPT !.wtr[f] = IF r.lat = s.leo THEN "reg" ELSE "stale", !.wleo[f] = r.lat]
            ELSE Clr(s)
      l == Loop(s1, f, r.w)
      s2 == IF l.pc = "await" /\ l.n = r.n THEN SetLoop(s1, f, r.w, [l EXCEPT !.pc = "resp", !.resp = resp]) ELSE s1
      s3 == [s2 EXCEPT !.rep[f] = NoRep]
  IN IF s.chq[f] # <<>> THEN Take([s3 EXCEPT !.chq[f] = <<>>], f, s.chq[f][1]) ELSE s3

(* follower: handleReplicationResponse (epoch check, HW, offset check, append), leaderLastSeen = now,
   checkLeaderHealth (never reports right after a contact), then more data -> top, else -> go idle.
   The stopped loop of the previous epoch (w = "old") does the same and then ends: its idle-wait gate and
   its select see the closed stop channel *)
G_FRecv(s, f, w) == Loop(s, f, w).pc = "resp"
N_FRecv(s, f, w) ==
  LET l == Loop(s, f, w)
      r == l.resp
      ok == r.e = s.fep[f]
      data == ok /\ r.to >= r.from /\ ~(r.from < Len(s.flog[f]))
      add == IF data THEN [i \in 1..(r.to - r.from + 1) |-> r.from + i - 1] ELSE <<>>
      s1 == [Clr(s) EXCEPT !.fhw[f] = IF ok THEN Max2(@, r.hw) ELSE @, !.flog[f] = @ \o add]
  IN IF w = "old" THEN [s1 EXCEPT !.zl[f] = DoneLoop(l)]
     ELSE [s1 EXCEPT !.lp[f] = [l EXCEPT !.pc = IF Len(add) > 0 THEN "top" ELSE "prewait",
                                         !.late = FALSE, !.tmo = FALSE, !.resp = NoResp]]
\* ... and its select, finding both the stop channel closed and the notify token, may take the token
G_FRecvSteal(s, f) == ZombieSteals /\ s.zl[f].pc = "resp" /\ s.tok[f] = 1
N_FRecvSteal(s, f) == [N_FRecv(s, f, "old") EXCEPT !.tok[f] = 0]

(* follower: the request failed (timeout): stop check, checkLeaderHealth -> report *)
G_FTimeout(s, f) == s.lp[f].pc = "await" /\ (s.lp[f].lost \/ SlowTimeouts)
N_FTimeout(s, f) == Failed(s, f)

(* time: more than ReplicaMaxLeaderTimeout has passed since the loop's last contact *)
G_Tick(s, f) == s.lp[f].pc \notin {"none", "done"} /\ ~s.lp[f].late
N_Tick(s, f) == [Clr(s) EXCEPT !.lp[f].late = TRUE]

(* follower: enters the select { stop, time.After(idle wait), p.notify } *)
G_FIdle(s, f) == s.lp[f].pc = "prewait"
N_FIdle(s, f) ==
  IF s.tok[f] = 1 THEN [Clr(s) EXCEPT !.tok[f] = 0, !.lp[f].pc = "top"]
  ELSE [Clr(s) EXCEPT !.lp[f].pc = "idle"]

(* leader: the notifier goroutine of the waiter: r.waiter = nil, notification -> follower's Notify() *)
G_LNotify(s, f) == s.up /\ s.wtr[f] = "stale"
N_LNotify(s, f) == Notified([Clr(s) EXCEPT !.wtr[f] = "none"], f)
G_LNotifyOld(s, f) == s.up /\ s.zn[f] > 0
N_LNotifyOld(s, f) == Notified([Clr(s) EXCEPT !.zn[f] = @ - 1], f)

(* follower: the idle wait (ReplicaMaxIdleWait minus jitter) is over *)
G_IdleTimeout(s, f) == s.lp[f].pc = "idle"
N_IdleTimeout(s, f) == [Clr(s) EXCEPT !.lp[f].pc = "top"]

(* metadata: the leader is confirmed in a new epoch (CHANGE_LEADER applied at the leader: stopLeading,
   becomeLeader: new replicators, ISR offsets forgotten); applied at a follower later (becomeFollower:
   the old loop is stopped, epoch offset request, a new loop starts) *)
G_NewEpochL(s) == s.up /\ s.ep < MaxEp /\ \A f \in F : s.rep[f].pc = "recv" /\ s.chq[f] = <<>>
N_NewEpochL(s) ==
  [Clr(s) EXCEPT !.ep = s.ep + 1, !.iso = [f \in F |-> -1],
                 !.zn = [f \in F |-> IF s.wtr[f] = "stale" THEN s.zn[f] + 1 ELSE s.zn[f]],
                 !.wtr = [f \in F |-> "none"], !.wleo = [f \in F |-> -1]]
\* the stopped loop ends at once (parked at a gate that sees the stop channel, or in its select), unless
\* it holds a response it has not looked at yet
G_NewEpochF(s, f) == /\ s.up /\ s.fep[f] < s.ep /\ s.zl[f].pc \in {"none", "done"}
                     /\ s.lp[f].pc # "await"
N_NewEpochF(s, f) ==
  [Clr(s) EXCEPT !.fep[f] = s.ep,
                 !.zl[f] = IF s.lp[f].pc = "resp" THEN s.lp[f] ELSE DoneLoop(s.lp[f]),
                 !.lp[f] = NewLoop(s.ep)]
\* a loop stopped on its way into the select may take the token with it
G_NewEpochFSteal(s, f) == ZombieSteals /\ G_NewEpochF(s, f) /\ s.lp[f].pc = "prewait" /\ s.tok[f] = 1
N_NewEpochFSteal(s, f) == [N_NewEpochF(s, f) EXCEPT !.tok[f] = 0]

(* the leader dies / stops answering (pauseReplication) *)
G_Kill(s) == s.up
N_Kill(s) ==
  [Clr(s) EXCEPT !.up = FALSE, !.rep = [f \in F |-> NoRep], !.chq = [f \in F |-> <<>>],
                 !.wtr = [f \in F |-> "none"], !.wleo = [f \in F |-> -1], !.zn = [f \in F |-> 0],
                 !.lp = [f \in F |-> IF s.lp[f].pc = "await" THEN [s.lp[f] EXCEPT !.lost = TRUE] ELSE s.lp[f]]]
G_Mute(s) == s.up /\ ~s.mute
N_Mute(s) == [Clr(s) EXCEPT !.mute = TRUE]

-----------------------------------------------------------------------------
Act(G, N) == G /\ st' = N

Next ==
  \/ Act(G_Append(st), N_Append(st))
  \/ \E f \in F, w \in W : Act(G_FRecv(st, f, w), N_FRecv(st, f, w))
  \/ \E f \in F : \/ Act(G_FSend(st, f), N_FSend(st, f))
                  \/ Act(G_FTimeout(st, f), N_FTimeout(st, f))
                  \/ Act(G_FIdle(st, f), N_FIdle(st, f))
                  \/ Act(G_FRecvSteal(st, f), N_FRecvSteal(st, f))
                  \/ Act(G_LResp(st, f), N_LResp(st, f))
                  \/ Act(G_Tick(st, f), N_Tick(st, f))
                  \/ Act(G_LNotify(st, f), N_LNotify(st, f))
                  \/ Act(G_LNotifyOld(st, f), N_LNotifyOld(st, f))
                  \/ Act(G_IdleTimeout(st, f), N_IdleTimeout(st, f))
                  \/ Act(G_NewEpochF(st, f), N_NewEpochF(st, f))
                  \/ Act(G_NewEpochFSteal(st, f), N_NewEpochFSteal(st, f))
  \/ Act(G_NewEpochL(st), N_NewEpochL(st))
  \/ Act(G_Kill(st), N_Kill(st))
  \/ Act(G_Mute(st), N_Mute(st))

-----------------------------------------------------------------------------
(* What X03 demands.  State predicates take the state record, so that the trace specification can
   evaluate them on the state recorded from the real code. *)

\* a follower stores exactly the leader's records, each once, in order
X03_InOrder(s) == \A f \in F : /\ \A i \in 1..Len(s.flog[f]) : s.flog[f][i] = i - 1
                               /\ Len(s.flog[f]) - 1 <= s.leo
\* the high watermarks never pass what is stored
X03_HWBound(s) == s.lhw <= s.leo /\ \A f \in F : s.fhw[f] <= s.lhw

\* a registered data waiter waits for the current log end (the leader side of "no lost wake-up")
X03_WaiterFresh(s) == \A f \in F : s.wtr[f] = "reg" => s.wleo[f] = s.leo

\* an idle follower (parked in its select after an answer of its leader, no token, nothing on its way)
\* has a waiter registered at the leader for the current log end and is caught up with it
X03_ParkedCaughtUp(s) ==
  \A f \in F : (/\ s.up /\ ~s.mute /\ s.lp[f].pc = "idle" /\ ~s.lp[f].tmo /\ s.lp[f].e = s.ep
                /\ s.tok[f] = 0 /\ s.wtr[f] # "stale" /\ s.zn[f] = 0)
               => (s.wtr[f] = "reg" /\ Feo(s, f) >= s.leo)

\* step level (s = before, t = after)
\* the follower log only grows, the HWs never go back
P_Monotone(s, t) == /\ t.lhw >= s.lhw /\ t.leo >= s.leo
                    /\ \A f \in F : /\ t.fhw[f] >= s.fhw[f]
                                    /\ Len(t.flog[f]) >= Len(s.flog[f])
                                    /\ SubSeq(t.flog[f], 1, Len(s.flog[f])) = s.flog[f]
\* a response of another leader epoch changes nothing at the follower
P_StaleDropped(s, t, f, w) == Loop(s, f, w).resp.e # s.fep[f] => (t.flog[f] = s.flog[f] /\ t.fhw[f] = s.fhw[f])
\* an answer of the follower's own leader epoch hands the leader's HW over (the only way it travels)
P_HWTaken(s, t, f, w) == LET r == Loop(s, f, w).resp IN r.e = s.fep[f] => t.fhw[f] >= r.hw
\* a report names exactly the epoch the reporting loop follows, and is made only after a request
\* that was not answered, by a loop that has had no contact for more than the timeout
Unanswered(s, a) == a = "FTimeout" \/ (a = "FSend" /\ ~s.up)
P_Report(s, t, a, f) ==
  /\ \A r \in t.rp : Unanswered(s, a) /\ r.f = f /\ r.e = s.lp[f].e /\ s.lp[f].late
  /\ (Unanswered(s, a) /\ s.lp[f].late) => t.rp # {}

\* when no step of the protocol is left to take (nobody needs a timer for any of them), every follower of
\* a live leader that went idle after an answer holds everything and the leader's HW covers it
X03_Quiescent(s) ==
  (s.up /\ ~s.mute) =>
     /\ \A f \in F : (s.lp[f].e = s.ep /\ ~s.lp[f].tmo) => Feo(s, f) = s.leo
     /\ (\A f \in F : s.lp[f].e = s.ep /\ ~s.lp[f].tmo) => s.lhw = s.leo

Inv == X03_InOrder(st) /\ X03_HWBound(st) /\ X03_WaiterFresh(st) /\ X03_ParkedCaughtUp(st)
=============================================================================
