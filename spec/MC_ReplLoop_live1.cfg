SPECIFICATION MCLive1
CONSTANTS
  F = {"b"}
  MaxRec = 2
  MaxEp = 2
  FetchMax = 1
  WideEvery = 0
  SlowTimeouts = FALSE
  ZombieSteals = FALSE
  MaxTick = 0
  MaxSlow = 0
  MaxIdleT = 1
  MaxKill = 1
  TrackLast = FALSE
INVARIANTS X03_Quiet
PROPERTIES X03_LiveStore X03_LiveHW
CHECK_DEADLOCK FALSE
