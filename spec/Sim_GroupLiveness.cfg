SPECIFICATION MCSpec
CONSTANTS
  Brokers = {"a", "b", "c"}
  Servers = {"a", "b"}
  Members = {"m1", "m2", "m3"}
  Dense = TRUE
  RecheckAtApply = TRUE
  KeepTimers = FALSE
  CountAllWit = FALSE
  RetryBlind = FALSE
  MaxOps = 12
  MaxPend = 1
  MaxWaits = 2
  MaxParks = 1
  EpochSels = {"cur", "old", "next"}
  PairSels = {"cur", "sc", "old", "next"}
  WaitModes = {"none", "good", "stale", "wrong"}
  ReqServers = {"a", "b"}
  EffectiveOnly = FALSE
CHECK_DEADLOCK FALSE
