SPECIFICATION Spec
CONSTANTS
  Fixed = FALSE
  WithReader = TRUE
INVARIANTS TypeOK
CONSTRAINT ReportDeadlocks
CHECK_DEADLOCK FALSE
