SPECIFICATION MCSpec
CONSTANTS
  Fix = {"tail", "suffix", "epoch"}
  Taints = {}
  GenMode = TRUE
  MaxSkip = 0
  MaxOps = 4
  MaxPost = 0
  MaxRecs = 5
  MaxBatch = 2
  MaxEpoch = 1
  MaxHit = 1
  MaxRecCrash = 0
  CapSet = {2}
  RetSet = {0}
  CompactSet = {TRUE}
  AgeSet = {0}
  Keys = {"a", "nil"}
VIEW GenView
CHECK_DEADLOCK FALSE
