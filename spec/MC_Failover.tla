------------------------- MODULE MC_Failover -------------------------
(* Bounded instance of Failover for the exhaustive design check and for   *)
(* stimulus generation.  Requests name their (leader, epoch) pair by a    *)
(* selector that the driver resolves against the real state (the real     *)
(* epochs are Raft indices):                                              *)
(*   cur    the current pair                                              *)
(*   sl     a stale leader (first replica that is not the leader), current epoch *)
(*   prev   current leader, epoch - 1        next  current leader, epoch + 1 *)
(*   pep    current leader, the partition epoch (= cur until the ISR changed) *)
(*   first  the pair the partition was created with (stale after an election) *)
(*   own    the most recent leadership term of the REAL broker (replica L0;    *)
(*          the other replicas are fictitious)                                *)
(* The real broker runs its real replicators while it leads; the ISR requests *)
(* whose pair is a term the real broker led (first, own, cur while it leads)  *)
(* are built and sent by that term's real replicator (replicator.shrinkISR /  *)
(* expandISR - what a health tick that is still in flight does), so that the  *)
(* requester's side of the epoch fence is part of what is checked.            *)
(* `last` = the step's intent and the resolved pair; nOps = step budget;  *)
(* both outside the VIEW.                                                 *)
EXTENDS Failover, Sequences, TLC

CONSTANTS InitISRs, L0, PairSels, MaxOps, MaxPend, Faults, EffectiveOnly
VARIABLES last, nOps, ownE, hist
mcvars == <<vars, last, nOps, ownE, hist>>

ReplicaOrder == <<"r1", "r2", "r3", "r4">>   \* the driver uses the same (sorted) order
OtherThan(x) == ReplicaOrder[CHOOSE i \in 1..Len(ReplicaOrder) :
                    /\ ReplicaOrder[i] # x
                    /\ \A j \in 1..(i - 1) : ReplicaOrder[j] = x]

Pair(ps) == CASE ps = "cur" -> <<leader, lepoch>>
              [] ps = "sl" -> <<OtherThan(leader), lepoch>>
              [] ps = "prev" -> <<leader, lepoch - 1>>
              [] ps = "next" -> <<leader, lepoch + 1>>
              [] ps = "pep" -> <<leader, pepoch>>
              [] ps = "first" -> <<L0, e0>>
              [] ps = "own" -> <<L0, ownE>>

\* EffectiveOnly (path enumeration): no steps on a removed stream, no faults on
\* ISR requests (both are refusals that leave everything as it is)
Step(a) == /\ nOps < MaxOps /\ nOps' = nOps + 1 /\ last' = a
           /\ EffectiveOnly => exists
           /\ ownE' = IF leader' = L0 /\ lepoch' # lepoch THEN lepoch' ELSE ownE
           /\ hist' = Append(hist, a)

MCInit ==
  /\ exists = TRUE /\ isr \in InitISRs /\ pisr = isr /\ leader = L0
  /\ lepoch = 1 /\ pepoch = 1 /\ e0 = 1
  /\ fo = NoFo /\ armed = FALSE /\ good = {}
  /\ obs = [a |-> "Open", err |-> ""]
  /\ pend = <<>> /\ taint = FALSE
  /\ last = [a |-> "Open"] /\ nOps = 0 /\ ownE = 1 /\ hist = <<>>

\* pref = the in-sync follower the election picks (the least loaded broker: the
\* driver arranges the broker loads accordingly), "none" when nobody is elected
\* ok = FALSE (fault: no Raft entry can be replicated for this request) is only
\* generated where it matters: when the report would start an election
MCReport(w, ps, pref, ok) ==
  LET p == Pair(ps) IN
  /\ ~ok => (Faults /\ ~Stale(p[1], p[2]) /\ WouldElect(w) /\ ~ElectParked)
  /\ DoReportLeader(w, p[1], p[2], ok)
  /\ pref = (IF leader' # leader THEN leader' ELSE "none")
  /\ Step([a |-> "Report", w |-> w, ps |-> ps, l |-> p[1], e |-> p[2], pref |-> pref, ok |-> ok])

\* a report enters ReportLeader and passes the (leader, epoch) check ...
MCReportCheck(w, ps) ==
  LET p == Pair(ps) IN
  /\ Len(pend) < MaxPend
  /\ DoReportCheck(w, p[1], p[2])
  /\ Step([a |-> "ReportCheck", w |-> w, ps |-> ps, l |-> p[1], e |-> p[2]])

\* ... and the i-th of them reaches failoverStatus.report
MCReportApply(i, pref) ==
  /\ i \in 1..Len(pend) /\ pend[i].k = "report"
  /\ DoReportApply(i)
  /\ pref = (IF leader' # leader THEN leader' ELSE "none")
  /\ Step([a |-> "ReportApply", i |-> i, pref |-> pref])

\* a report that completes the quorum gets as far as the comparison inside
\* electNewPartitionLeader (the election is decided and in flight) ...
MCElectCheck(w, ps) ==
  LET p == Pair(ps) IN
  /\ Len(pend) < MaxPend
  /\ ~Stale(p[1], p[2]) /\ WouldElect(w)
  /\ DoElectCheck(w, p[1], p[2])
  /\ Step([a |-> "ElectCheck", w |-> w, ps |-> ps, l |-> p[1], e |-> p[2]])

\* ... and the i-th of them makes its proposal
MCElectApply(i, pref) ==
  /\ i \in 1..Len(pend) /\ pend[i].k = "elect"
  /\ DoElectApply(i)
  /\ pref = (IF leader' # leader THEN leader' ELSE "none")
  /\ Step([a |-> "ElectApply", i |-> i, pref |-> pref])

\* the same for ShrinkISR / ExpandISR
MCISRCheck(k, r, ps) ==
  LET p == Pair(ps) IN
  /\ Len(pend) < MaxPend
  /\ k = "shrink" => r # p[1]
  /\ DoISRCheck(k, r, p[1], p[2])
  /\ Step([a |-> "ISRCheck", k |-> k, r |-> r, ps |-> ps, l |-> p[1], e |-> p[2]])

MCISRApply(i) ==
  /\ i \in 1..Len(pend)
  /\ DoISRApply(i)
  /\ Step([a |-> "ISRApply", i |-> i])

MCShrink(r, ps, ok) ==
  LET p == Pair(ps) IN
  /\ r # p[1]
  /\ ~ok => (Faults /\ ~EffectiveOnly /\ ~Stale(p[1], p[2]) /\ ~ElectParked)
  /\ DoShrinkISR(r, p[1], p[2], ok)
  /\ Step([a |-> "Shrink", r |-> r, ps |-> ps, l |-> p[1], e |-> p[2], ok |-> ok])

MCExpand(r, ps, ok) ==
  LET p == Pair(ps) IN
  /\ ~ok => (Faults /\ ~EffectiveOnly /\ ~Stale(p[1], p[2]) /\ ~ElectParked)
  /\ DoExpandISR(r, p[1], p[2], ok)
  /\ Step([a |-> "Expand", r |-> r, ps |-> ps, l |-> p[1], e |-> p[2], ok |-> ok])

MCExpire == ~ElectParked /\ DoExpire /\ Step([a |-> "Expire"])
MCLose == ~ElectParked /\ DoLoseControllership /\ Step([a |-> "Lose"])
MCRemove == pend = <<>> /\ DoRemoveStream /\ Step([a |-> "Remove"])
MCRebuild(how) == pend = <<>> /\ DoRebuild(how) /\ Step([a |-> "Rebuild", how |-> how])

MCNext ==
  \/ \E w \in Reporters, ps \in PairSels, pref \in Replicas \cup {"none"}, ok \in BOOLEAN : MCReport(w, ps, pref, ok)
  \/ \E w \in Reporters, ps \in PairSels : MCReportCheck(w, ps)
  \/ \E i \in 1..MaxPend, pref \in Replicas \cup {"none"} : MCReportApply(i, pref)
  \/ \E w \in Reporters, ps \in PairSels : MCElectCheck(w, ps)
  \/ \E i \in 1..MaxPend, pref \in Replicas \cup {"none"} : MCElectApply(i, pref)
  \/ \E k \in {"shrink", "expand"}, r \in Replicas, ps \in PairSels : MCISRCheck(k, r, ps)
  \/ \E i \in 1..MaxPend : MCISRApply(i)
  \/ \E r \in Replicas, ps \in PairSels, ok \in BOOLEAN : MCShrink(r, ps, ok)
  \/ \E r \in Replicas, ps \in PairSels, ok \in BOOLEAN : MCExpand(r, ps, ok)
  \/ MCExpire
  \/ MCLose
  \/ MCRemove
  \/ \E how \in {"resume", "restore"} : MCRebuild(how)

MCSpec == MCInit /\ [][MCNext]_mcvars

\* every step, as the code performs it, satisfies what C07 demands of it
\* (steps at or after the known finding - a report that took effect with a stale
\* pair - are exempt here; reachability of the taint is reported separately)
StepOK ==
  LET a == last' IN
  taint' \/
  CASE a.a = "Report" -> P_ReportLeader(a.w, a.l, a.e)
    [] a.a = "ReportCheck" -> P_ReportCheck(a.w, a.l, a.e)
    [] a.a = "ReportApply" -> P_ReportApply(a.i)
    [] a.a = "ISRCheck" -> P_ReportCheck(a.r, a.l, a.e)
    [] a.a = "ISRApply" -> P_ISRApply(a.i)
    [] a.a = "ElectCheck" -> P_ElectCheck(a.w, a.l, a.e)
    [] a.a = "ElectApply" -> P_ElectApply(a.i)
    [] a.a = "Shrink" -> P_ShrinkISR(a.r, a.l, a.e)
    [] a.a = "Expand" -> P_ExpandISR(a.r, a.l, a.e)
    [] a.a = "Remove" -> P_RemoveStream
    [] a.a = "Rebuild" -> P_Rebuild
    [] OTHER -> P_Quiet
StepsOK == [][StepOK]_mcvars

\* with the history in the view the state graph is the tree of all step sequences:
\* used (with current pairs only) to replay EVERY sequence of effective steps up to
\* a small depth - the real system may remember what the model state has forgotten
MCPathView == <<hist, exists, isr>>
MCView == <<ownE, exists, isr, pisr, leader, lepoch, pepoch, fo, armed, good, pend, taint, nOps>>
=============================================================================
