SPECIFICATION MCSpec
CONSTANTS
  Groups = {"g1"}
  GroupOnFollower = FALSE
  OnlyOpenEnded = FALSE
  CleanupById = FALSE
  Consumers = {"c1", "c2", "c3"}
  MaxEpoch = 3
  MaxSubs = 3
  MaxOps = 6
  UsePlain = FALSE
  UseBurst = FALSE
  UseFollower = TRUE
  UseBounded = TRUE
  C0 = "c1"
  UseRace = FALSE
  MaxElect = 0
  StrandedKnown = TRUE
  UseBad = TRUE
INVARIANTS TypeOK MC_OneActive ActiveRegistered RegOK
PROPERTIES StepsOK
VIEW MCView
CHECK_DEADLOCK FALSE
