----------------------- MODULE MC_CommitLogCrash -----------------------
(* Bounded instance of CommitLogCrash: a workload of at most MaxOps        *)
(* operations, at most one crash (in front of any crash point of any       *)
(* operation, at any occurrence), recovery, then at most MaxPost follow-up *)
(* operations (incl. a clean restart).  `last` = the last action with its  *)
(* arguments; `pre` = what was observable before the interrupted operation.*)
EXTENDS CommitLogCrash, TLC, Json

CONSTANTS MaxSkip, MaxOps, MaxPost, MaxRecs, MaxBatch, MaxEpoch, MaxHit, MaxRecCrash, CapSet, RetSet, CompactSet, AgeSet, Keys, Taints, GenMode
VARIABLES phase, pre, last, nOps, nPost, nVal, hist, pts, nRec
mcvars == <<vars, phase, pre, last, nOps, nPost, nVal, hist, pts, nRec>>

NoPre == [sc |-> <<>>, nw |-> -1, lastBase |-> 0, hw |-> -1, op |-> [a |-> "none"], p |-> ""]

Sc == ScanOf(fs, mem)
RdOf(f, m) == LET sc == ScanOf(f, m) IN
              [i \in 1..Len(sc) |-> LET r == ReadFirst(f, m, sc[i].off) IN
                                    [o |-> sc[i].off, off |-> r.off, val |-> r.val]]

CurEpoch == LET sc == ScanOf(fs, mem) IN
            Max(1, IF sc = <<>> THEN LatestEpoch(mem.ep) ELSE Max(Last(sc).ep, LatestEpoch(mem.ep)))

Batch(n, e, key) == [i \in 1..n |-> [ep |-> e, val |-> nVal + i, key |-> key]]

\* the operations offered in the current state
Ops == IF ~mem.up THEN {} ELSE
  {[a |-> "Append", recs |-> Batch(n, CurEpoch + de, key)] :
      n \in {n \in 1..MaxBatch : nVal + n <= MaxRecs}, de \in {d \in 0..1 : CurEpoch + d <= MaxEpoch},
      key \in IF cfg.compact THEN Keys ELSE {"a"}}      \* keys only matter to compaction
  \* a batch whose two records have different keys (compaction then meets a keyed record
  \* and a record without a key, or two keys, in one segment)
  \cup {[a |-> "Append", recs |-> <<[ep |-> CurEpoch, val |-> nVal + 1, key |-> k[1]],
                                   [ep |-> CurEpoch, val |-> nVal + 2, key |-> k[2]]>>] :
         k \in {x \in Keys \X Keys : cfg.compact /\ x[1] # x[2] /\ MaxBatch >= 2 /\ nVal + 2 <= MaxRecs}}
  \* replicated append of two records, the second one in the next leader epoch
  \cup {[a |-> "AppendSet", recs |-> <<[ep |-> CurEpoch, val |-> nVal + 1, key |-> key],
                                      [ep |-> CurEpoch + 1, val |-> nVal + 2, key |-> key]>>] :
         key \in {k \in (IF cfg.compact THEN Keys ELSE {"a"}) : nVal + 2 <= MaxRecs /\ CurEpoch + 1 <= MaxEpoch}}
  \* replicated append from a leader whose log was compacted: the message set has
  \* offset gaps (in front of the first record and / or between the two); same epoch
  \* or the second record in the next one
  \cup {[a |-> "AppendSet", skip |-> <<gg[1], gg[2]>>,
         recs |-> <<[ep |-> CurEpoch, val |-> nVal + 1, key |-> "a"],
                    [ep |-> CurEpoch + de, val |-> nVal + 2, key |-> "a"]>>] :
         gg \in {x \in (0..MaxSkip) \X (0..MaxSkip) : x[1] + x[2] > 0 /\ nVal + 2 <= MaxRecs},
         de \in {d \in 0..1 : CurEpoch + d <= MaxEpoch}}
  \cup {[a |-> "Truncate", o |-> o] : o \in {o \in 0..(NewestOf(mem) + 1) : o > mem.hw}}
  \cup {[a |-> "SetHW", h |-> h] : h \in (mem.hw + 1)..NewestOf(mem)}
  \cup {[a |-> "NewLeaderEpoch", e |-> CurEpoch + 1] : x \in {1} \cap {y \in {1} : CurEpoch + 1 <= MaxEpoch}}
  \cup {[a |-> "Checkpoint"], [a |-> "Clean"], [a |-> "Reopen"]}

\* the crash sites of an operation: every marker of its plan, as (point, occurrence)
Sites(op) == LET ps == PointsOf(fs, mem, op) IN
             {[p |-> ps[i], n |-> Cardinality({j \in 1..i : ps[j] = ps[i]})] : i \in 1..Len(ps)}

\* coverage tags of an operation (generation mode): every crash point it passes
\* with the kind of the operation, and "shrinks" when a Replace installs a log
\* file with fewer records than the one it replaces (then the old index is
\* longer than the new log between the two renames)
Tags(op) ==
  LET pl == Plan(fs, mem, op)
      ps == PointsOf(fs, mem, op)
      written(k) == Len(Flat([i \in 1..Len(pl) |-> IF pl[i].i = "wlog" /\ pl[i].k = k THEN pl[i].recs ELSE <<>>]))
      shrinks == \E i \in 1..Len(pl) : pl[i].i = "mvlog" /\ written(pl[i].k) < Len(Get(fs.lf, pl[i].t))
      \* the operation works on a SPARSE log: offsets missing between two records or in
      \* front of the first record of a segment (compaction, or a replicated message set
      \* of a compacted leader) - every crash point is then a different situation
      \* (index rebuilt from a log whose offsets are not consecutive)
      sc0 == Sc
      sparse == \/ \E i \in 1..Len(sc0) - 1 : sc0[i + 1].off > sc0[i].off + 1
                \/ \E j \in 1..Len(mem.segs) : mem.segs[j].first \notin {-1, mem.segs[j].base}
                \/ ("skip" \in DOMAIN op /\ \E i \in 1..Len(op.skip) : op.skip[i] > 0)
      \* what a compaction meets in the segments it may rewrite: a record without a key
      \* below the HW, a superseded record, the latest committed record of a key with /
      \* without a newer uncommitted record of the same key behind it
      lb == Last(mem.segs).base
      cand == {r \in RangeOf(sc0) : r.off < lb /\ r.off < mem.hw}
      newer(r) == \E q \in RangeOf(sc0) : q.key = r.key /\ q.off > r.off
      sits == IF op.a = "Clean" /\ cfg.compact
              THEN (IF \E r \in cand : r.key = "nil" THEN {"nilkey"} ELSE {})
                   \cup (IF \E r \in cand : Superseded(r, sc0, mem.hw) THEN {"superseded"} ELSE {})
                   \cup (IF \E r \in cand : r.key # "nil" /\ ~Superseded(r, sc0, mem.hw) /\ newer(r)
                         THEN {"latest_shadowed"} ELSE {})
                   \cup (IF \E r \in cand : r.key # "nil" /\ ~newer(r) THEN {"latest"} ELSE {})
              ELSE {}
  IN {<<ps[i], op.a>> : i \in 1..Len(ps)}
     \cup {<<"compact." \o x, op.a, "sit">> : x \in sits}
     \cup (IF shrinks THEN {<<"replace.after_rename_log", op.a, "shrinks">>} ELSE {})
     \cup (IF sparse THEN {<<ps[i], op.a, "sparse">> : i \in 1..Len(ps)} ELSE {})

\* age retention: a segment in front of the last one holds expired and unexpired records
\* (what a reopened log remembers about its write times decides the next clean)
Straddle(f, m) ==
  cfg.age > 0 /\ m.up /\ \E j \in 1..Len(m.segs) - 1 :
     LET rs == {r \in RangeOf(ScanOf(f, m)) : r.off >= m.segs[j].base /\ r.off < m.segs[j + 1].base} IN
     (\E r \in rs : r.val < cfg.age) /\ (\E r \in rs : r.val >= cfg.age)

Snapshot(op, p) == [sc |-> Sc, nw |-> NewestOf(mem), lastBase |-> Last(mem.segs).base, hw |-> mem.hw, op |-> op, p |-> p]

MCInit ==
  /\ cfg \in [cap : CapSet, ret : RetSet, compact : CompactSet, age : AgeSet]
  /\ cfg.age > 0 => (cfg.ret = 0 /\ ~cfg.compact)      \* the age limit is exercised on its own
  /\ LET R == RecoverFS([lf |-> <<>>, xf |-> <<>>, hwf |-> NoHW, epf |-> <<>>]) IN fs = R.fs /\ mem = R.mem
  /\ obs = [a |-> "Open", ret |-> <<>>, err |-> ""]
  /\ phase = "pre" /\ pre = NoPre /\ last = [a |-> "Open"]
  /\ nOps = 0 /\ nPost = 0 /\ nVal = 0 /\ hist = <<>> /\ pts = {} /\ nRec = 0

Count(op) == IF op.a \in {"Append", "AppendSet"} THEN Len(op.recs) ELSE 0

MCOp(op) ==
  /\ phase = "pre" /\ nOps < MaxOps
  /\ DoOp(op)
  /\ last' = op /\ nOps' = nOps + 1 /\ nVal' = nVal + Count(op) /\ hist' = Append(hist, op)
  /\ pts' = IF GenMode
            THEN pts \cup Tags(op) \cup (IF Straddle(fs', mem') THEN {<<"age.straddle", op.a, "sit">>} ELSE {})
            ELSE pts
  /\ UNCHANGED <<phase, pre, nPost, nRec>>

MCCrash(op, p, n) ==
  /\ ~GenMode
  /\ phase = "pre" /\ nOps < MaxOps
  /\ DoCrash(op, p, n)
  /\ phase' = "down" /\ pre' = Snapshot(op, p)
  /\ last' = [a |-> "Crash", op |-> op, p |-> p, n |-> n]
  /\ nVal' = nVal + Count(op) /\ hist' = Append(hist, last')
  /\ UNCHANGED <<nOps, nPost, pts, nRec>>

\* a crash between any two effects of op (boundaries without a named crash point included)
MCCrashAfter(op, k) ==
  /\ ~GenMode
  /\ phase = "pre" /\ nOps < MaxOps
  /\ DoCrashAfter(op, k)
  /\ phase' = "down" /\ pre' = Snapshot(op, "effect")
  /\ last' = [a |-> "Crash", op |-> op, p |-> "effect", n |-> k]
  /\ nVal' = nVal + Count(op) /\ hist' = Append(hist, last')
  /\ UNCHANGED <<nOps, nPost, pts, nRec>>

\* torn write: the append is killed inside its log write, k complete records kept
MCCrashTorn(op, k) ==
  /\ ~GenMode
  /\ phase = "pre" /\ nOps < MaxOps
  /\ DoCrashTorn(op, k)
  /\ phase' = "down" /\ pre' = Snapshot(op, "append.after_log_write")
  /\ last' = [a |-> "Crash", op |-> op, p |-> "append.after_log_write", n |-> 1, torn |-> k]
  /\ nVal' = nVal + Count(op) /\ hist' = Append(hist, last')
  /\ UNCHANGED <<nOps, nPost, pts, nRec>>

MCRecover ==
  /\ phase = "down"
  /\ DoRecover
  /\ phase' = "post" /\ last' = [a |-> "Recover"] /\ hist' = Append(hist, last')
  /\ UNCHANGED <<pre, nOps, nPost, nVal, pts, nRec>>

\* the recovering process is killed too (at most MaxRecCrash times)
MCRecoverCrash(p, n) ==
  /\ phase = "down" /\ nRec < MaxRecCrash
  /\ DoRecoverCrash(p, n)
  /\ nRec' = nRec + 1
  /\ last' = [a |-> "RecoverCrash", p |-> p, n |-> n] /\ hist' = Append(hist, last')
  /\ UNCHANGED <<phase, pre, nOps, nPost, nVal, pts>>

RecSites == IF mem.up THEN {} ELSE
            LET ps == RecoverPointsOf(fs) IN
            {[p |-> ps[i], n |-> Cardinality({j \in 1..i : ps[j] = ps[i]})] : i \in 1..Len(ps)}

MCPost(op) ==
  /\ phase = "post" /\ nPost < MaxPost
  /\ DoOp(op)
  /\ last' = op /\ nPost' = nPost + 1 /\ nVal' = nVal + Count(op) /\ hist' = Append(hist, op)
  /\ pre' = [NoPre EXCEPT !.p = pre.p]
  /\ UNCHANGED <<phase, nOps, pts, nRec>>

\* workload generation (GenMode): no crash, the follow-up operations are drawn
\* after the workload; the harness then enumerates every crash point itself
MCSwitch ==
  /\ GenMode /\ phase = "pre" /\ nOps >= 1
  /\ phase' = "post" /\ last' = [a |-> "Switch"] /\ hist' = Append(hist, last')
  /\ UNCHANGED <<vars, pre, nOps, nPost, nVal, pts, nRec>>

MCNext ==
  \/ MCSwitch
  \/ \E op \in Ops : MCOp(op)
  \* (a crash in front of a named crash point is the crash after the effects that precede the
  \*  marker, so MCCrashAfter subsumes MCCrash(op, p, n); the named form is what the harness injects)
  \/ \E op \in {o \in Ops : o.a \in {"Append", "AppendSet"}} : \E k \in 0..(Len(op.recs) - 1) : MCCrashTorn(op, k)
  \/ \E op \in Ops : \E k \in 0..Len(Plan(fs, mem, op)) : MCCrashAfter(op, k)
  \/ MCRecover
  \/ \E c \in RecSites : MCRecoverCrash(c.p, c.n)
  \/ \E op \in Ops : MCPost(op)

MCSpec == MCInit /\ [][MCNext]_mcvars

\* a defect that is known and left open is not reported again: the crash
\* point that exposes it taints the rest of the behaviour
Tainted == pre.p \in Taints

StateOK1(f, m) == StateOK(ScanOf(f, m), NewestOf(m), RdOf(f, m), m.ep)

StepOK ==
  LET a == last' IN
  CASE a.a = "Crash" -> TRUE
    [] a.a = "RecoverCrash" -> TRUE
    [] a.a = "Switch" -> TRUE
    [] a.a = "Recover" ->
         pre.p \in Taints \/
         (/\ C05_Durable(pre.op, pre.sc, pre.lastBase, pre.hw, ScanOf(fs', mem'))
          /\ C05_NoPhantom(pre.op, pre.sc, pre.nw, ScanOf(fs', mem'))
          /\ C05_HW(pre.hw, mem'.hw)
          /\ C05_NoGhost(Ghostable(pre.op, pre.sc, pre.lastBase, pre.nw, pre.hw), ScanOf(fs', mem'), NewestOf(mem'))
          /\ StateOK1(fs', mem'))
    [] OTHER ->
         Tainted \/
         (/\ P_Op(a, Sc, NewestOf(mem), Last(mem.segs).base, mem.hw, obs', ScanOf(fs', mem'), mem'.hw)
          /\ C05_NoGhost(Ghostable(a, Sc, Last(mem.segs).base, NewestOf(mem), mem.hw), ScanOf(fs', mem'), NewestOf(mem'))
          /\ StateOKAfter(Sc, ScanOf(fs', mem'), NewestOf(mem'), RdOf(fs', mem'), mem'.ep))
StepsOK == [][StepOK]_mcvars

\* named single-oracle variants (to see which oracle a model-level defect trips)
RecoverStep(P) == [][last'.a = "Recover" => P]_mcvars
Prop_Durable == RecoverStep(C05_Durable(pre.op, pre.sc, pre.lastBase, pre.hw, ScanOf(fs', mem')))
Prop_NoPhantom == RecoverStep(C05_NoPhantom(pre.op, pre.sc, pre.nw, ScanOf(fs', mem')))
Prop_NewestOK == [][mem'.up => C05_NewestOK(ScanOf(fs', mem'), NewestOf(mem'))]_mcvars
Prop_NoDup == [][mem'.up => C05_NoDup(ScanOf(fs', mem'))]_mcvars
Prop_ReadAt == [][mem'.up => C05_ReadAt(ScanOf(fs', mem'), RdOf(fs', mem'))]_mcvars
Prop_Epochs == [][mem'.up => C05_Epochs(ScanOf(fs', mem'), mem'.ep)]_mcvars

NoLoop == obs.err # "segment_exists_loop"

\* the in-memory view agrees with the files whenever the process is up
\* (implementation-level sanity of the model itself)
MemMatchesFiles ==
  mem.up => \A i \in 1..Len(mem.segs) :
              LET k == Key(mem.segs[i].base, "") IN
              Has(fs.lf, k) /\ Has(fs.xf, k) /\ mem.segs[i] = SegOf(mem.segs[i].base, fs.xf[k])

MCView == <<cfg, fs, mem, phase, pre, nOps, nPost, nVal, nRec>>
GenView == <<cfg, hist>>
HistJson == ToJson(hist)
=============================================================================
