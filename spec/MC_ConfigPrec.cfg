SPECIFICATION MCSpec
CONSTANTS
  SageFix = TRUE
  FocusSize = 2
  MaxOps = 1
  Streams = {1, 2}
  ChangeOne = TRUE
INVARIANTS TypeOK X07_Effective SrvIsFile
PROPERTIES StepsOK
VIEW MCView
CHECK_DEADLOCK FALSE
