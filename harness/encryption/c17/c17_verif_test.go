//go:build verif

package encryption

// C17 codec level: every abstract corruption case of spec/Encryption.tla (Cases(n))
// is concretised for EVERY byte position of its region and executed on the real
// LocalEncryptionHandler.  The harness records (case, distinct outcomes); it never
// judges - TLC does (Trace_Encryption.tla).
//
// The master key is configured through the environment variable
// LIFTBRIDGE_ENCRYPTION_KEY; the test saves and restores it.

import (
	"bufio"
	"bytes"
	"crypto/aes"
	"crypto/cipher"
	"encoding/json"
	"fmt"
	"math/rand"
	"os"
	"sort"
	"strings"
	"testing"

	"github.com/google/tink/go/kwp/subtle"
)

const (
	vWK    = 40
	vNonce = 12
	vTag   = 16
	vOver  = 1 + vWK + vNonce + vTag
)

type vC17Cfg struct {
	Seed     int64    `json:"seed"`
	Lens     []int    `json:"lens"`
	Fills    []string `json:"fills"`
	Masks    []int    `json:"masks"`
	KSValues []int    `json:"ksvalues"`
	MKLens   []int    `json:"mklens"`
	MK       []int    `json:"mk"` // lengths of the sealing master key
	Only     []struct {
		N    int    `json:"n"`
		Fill string `json:"fill"`
		MK   int    `json:"mk"`
	} `json:"only"`
}

type vCase struct {
	Cor string `json:"cor"`
	Reg string `json:"reg"`
	P   int    `json:"p"`
	Key string `json:"key"`
	Q   int    `json:"q"`
}

type vOut struct {
	K   string `json:"k"`
	Why string `json:"why"`
	Cnt int    `json:"cnt"`
}

type vRec struct {
	C    vCase  `json:"c"`
	NPos int    `json:"npos"`
	Outs []vOut `json:"outs"`
}

type vFrame struct {
	KS   int    `json:"ks"`
	WK   string `json:"wk"`
	Dek  int    `json:"dek"`
	Body string `json:"body"`
	Same bool   `json:"same"`
}

type vSeal struct {
	K        string `json:"k"`
	Len      int    `json:"len"`
	Contains bool   `json:"contains"`
	Equal    bool   `json:"equal"`
	Leak     bool   `json:"leak"`
	Fresh    bool   `json:"fresh"`
	Frame    vFrame `json:"frame"`
}

// ---- keys, values ------------------------------------------------------------

// master key bytes: no NUL (environment), and no byte that a mask could turn into NUL
func vKey(rng *rand.Rand, n int, masks []int) []byte {
	k := make([]byte, n)
	for i := range k {
		for {
			b := byte(1 + rng.Intn(255))
			ok := true
			for _, m := range masks {
				if b^byte(m) == 0 {
					ok = false
				}
			}
			if ok {
				k[i] = b
				break
			}
		}
	}
	return k
}

func vValue(rng *rand.Rand, n int, fill string) []byte {
	v := make([]byte, n)
	switch fill {
	case "zero":
	case "ff":
		for i := range v {
			v[i] = 0xff
		}
	case "text":
		const txt = "The quick brown fox jumps over the lazy dog. "
		for i := range v {
			v[i] = txt[i%len(txt)]
		}
	case "runs": // arbitrary bytes with runs of 0x00 and 0xff
		rng.Read(v)
		for i := 0; i < n; i++ {
			if (i/7)%3 == 0 {
				v[i] = 0x00
			} else if (i/7)%3 == 1 {
				v[i] = 0xff
			}
		}
	default:
		rng.Read(v)
	}
	return v
}

func vComplement(v []byte) []byte {
	w := make([]byte, len(v))
	for i := range v {
		w[i] = ^v[i]
	}
	return w
}

func vSetKey(k []byte) {
	if k == nil {
		os.Unsetenv(masterKeyVarName)
		return
	}
	if err := os.Setenv(masterKeyVarName, string(k)); err != nil {
		panic("INCONCLUSIVE: setenv: " + err.Error())
	}
}

func vNew(k []byte) *LocalEncryptionHandler {
	vSetKey(k)
	h, err := NewLocalEncryptionHandler()
	if err != nil {
		panic("INCONCLUSIVE: handler: " + err.Error())
	}
	return h
}

// ---- executing the real code -------------------------------------------------

func vStage(err error) string {
	m := err.Error()
	switch {
	case strings.HasPrefix(m, "kwp:"):
		return "kwp"
	case strings.Contains(m, "message authentication failed"):
		return "gcm"
	case strings.Contains(m, "invalid key size"):
		return "aes"
	}
	return "frame"
}

// vRead calls the real Read on a copy whose capacity equals its length
func vRead(h *LocalEncryptionHandler, data, v []byte) (o vOut) {
	defer func() {
		if r := recover(); r != nil {
			o = vOut{K: "Crash", Why: ""}
		}
	}()
	d := make([]byte, len(data))
	copy(d, data)
	out, err := h.Read(d)
	if err != nil {
		return vOut{K: "Err", Why: vStage(err)}
	}
	if bytes.Equal(out, v) {
		return vOut{K: "Ok"}
	}
	return vOut{K: "Data"}
}

type vAgg map[vOut]int

func (a vAgg) add(o vOut) { a[o]++ }
func (a vAgg) list() []vOut {
	out := []vOut{}
	for o, c := range a {
		o.Cnt = c
		out = append(out, o)
	}
	sort.Slice(out, func(i, j int) bool { return out[i].K+out[i].Why < out[j].K+out[j].Why })
	return out
}

// vParse: the documented layout, decoded independently of the handler
func vParse(stored, master, v []byte) vFrame {
	f := vFrame{KS: -1, WK: "bad", Body: "bad"}
	if len(stored) < 1 {
		return f
	}
	f.KS = int(stored[0])
	if 1+f.KS > len(stored) {
		return f
	}
	kw, err := subtle.NewKWP(master)
	if err != nil {
		return f
	}
	dek, err := kw.Unwrap(stored[1 : 1+f.KS])
	if err != nil {
		return f
	}
	f.WK, f.Dek = "ok", len(dek)
	blk, err := aes.NewCipher(dek)
	if err != nil {
		return f
	}
	gcm, _ := cipher.NewGCM(blk)
	body := stored[1+f.KS:]
	if len(body) < vNonce+vTag {
		return f
	}
	pt, err := gcm.Open(nil, body[:vNonce], body[vNonce:], nil)
	if err != nil {
		return f
	}
	f.Body, f.Same = "ok", bytes.Equal(pt, v)
	return f
}

func vForeign(rng *rand.Rand, master, v []byte, d int) []byte {
	dek := make([]byte, d)
	rng.Read(dek)
	kw, _ := subtle.NewKWP(master)
	wk, err := kw.Wrap(dek)
	if err != nil {
		panic("INCONCLUSIVE: wrap: " + err.Error())
	}
	out := append([]byte{byte(len(wk))}, wk...)
	blk, err := aes.NewCipher(dek)
	if err != nil { // not an AES key size: the body can be anything
		body := make([]byte, vNonce+len(v)+vTag)
		rng.Read(body)
		return append(out, body...)
	}
	gcm, _ := cipher.NewGCM(blk)
	nonce := make([]byte, vNonce)
	rng.Read(nonce)
	return append(out, gcm.Seal(nonce, nonce, v, nil)...)
}

func vSealOnce(h *LocalEncryptionHandler, v []byte) (s []byte, k string) {
	defer func() {
		if r := recover(); r != nil {
			s, k = nil, "Crash"
		}
	}()
	d := make([]byte, len(v))
	copy(d, v)
	out, err := h.Seal(d)
	if err != nil {
		return nil, "Err"
	}
	return out, "Ok"
}

func vRegion(r string, n int) (int, int) {
	switch r {
	case "KS":
		return 0, 1
	case "WK":
		return 1, vWK
	case "NONCE":
		return 1 + vWK, vNonce
	case "CT":
		return 1 + vWK + vNonce, n
	case "TAG":
		return 1 + vWK + vNonce + n, vTag
	case "BODY":
		return 1 + vWK, vNonce + n + vTag
	case "END":
		return vOver + n, 1
	}
	panic("region " + r)
}

func vTruncSet(n int) []int {
	L := vOver + n
	B := []int{0, 1, 1 + vWK, 1 + vWK + vNonce, 1 + vWK + vNonce + n, L}
	out := []int{}
	for t := 0; t < L; t++ {
		ok := n <= 64
		for _, b := range B {
			if t-b >= -2 && t-b <= 2 {
				ok = true
			}
		}
		if ok {
			out = append(out, t)
		}
	}
	return out
}

// vCodecLine executes every case for one value
func vCodecLine(rng *rand.Rand, cfg *vC17Cfg, n int, fill string, mk int) map[string]interface{} {
	other := 48 - mk // 16 <-> 32
	K1 := vKey(rng, mk, cfg.Masks)
	K2 := vKey(rng, mk, cfg.Masks)
	K3 := vKey(rng, other, cfg.Masks)
	v := vValue(rng, n, fill)
	w := vComplement(v)

	h1 := vNew(K1)
	s, sk := vSealOnce(h1, v)
	// removing the last byte of the wrapped key is the same byte string as removing the first nonce
	// byte when the two are equal: take a seal where they differ, so that every case has one class
	for i := 0; i < 64 && sk == "Ok" && len(s) > vWK+1 && s[vWK] == s[vWK+1]; i++ {
		s, sk = vSealOnce(h1, v)
	}
	seal := vSeal{K: sk}
	if sk != "Ok" {
		return map[string]interface{}{"a": "Codec", "n": n, "fill": fill, "mk": mk, "seal": seal, "recs": []vRec{}, "partial": true}
	}
	seal.Len = len(s)
	seal.Contains = bytes.Contains(s, v)
	seal.Equal = bytes.Equal(s, v)
	sb, _ := vSealOnce(h1, v)
	seal.Fresh = !bytes.Equal(s, sb)
	seal.Frame = vParse(s, K1, v)
	if n >= 1 && n <= 15 {
		var fv, fw [][]byte
		for i := 0; i < 8; i++ {
			a, _ := vSealOnce(vNew(K1), v)
			b, _ := vSealOnce(vNew(K1), w)
			fv, fw = append(fv, a), append(fw, b)
		}
		minLen := len(s)
		for _, x := range append(fv, fw...) {
			if len(x) < minLen {
				minLen = len(x)
			}
		}
		for o := 0; o+n <= minLen && !seal.Leak; o++ {
			allV, allW := true, true
			for i := range fv {
				allV = allV && bytes.Equal(fv[i][o:o+n], v)
				allW = allW && bytes.Equal(fw[i][o:o+n], v)
			}
			seal.Leak = allV && !allW
		}
	}
	line := map[string]interface{}{"a": "Codec", "n": n, "fill": fill, "mk": mk, "seal": seal, "partial": false}
	if len(s) != vOver+n || s[0] != vWK {
		// the layout is not the documented one: the position-wise table cannot be built (drift, judged by TLC)
		line["recs"] = []vRec{}
		line["partial"] = true
		return line
	}

	// other stored forms of values of the same length
	s2, _ := vSealOnce(h1, w)  // the same handler, another message
	h2 := vNew(K1)             // another handler, same master key: another data key
	t2, _ := vSealOnce(h2, w)  //
	h3 := vNew(K2)             // a handler under another master key
	t3, _ := vSealOnce(h3, w)  //
	vSetKey(K1)
	src := map[int][]byte{1: s2, 2: t2, 3: t3}
	srcH := map[int]*LocalEncryptionHandler{1: h1, 2: h2, 3: h3}

	recs := []vRec{}
	run := func(c vCase, reader *LocalEncryptionHandler, inputs func(emit func([]byte))) {
		agg := vAgg{}
		np := 0
		inputs(func(d []byte) {
			np++
			agg.add(vRead(reader, d, v))
		})
		recs = append(recs, vRec{C: c, NPos: np, Outs: agg.list()})
	}
	one := func(d []byte) func(func([]byte)) { return func(emit func([]byte)) { emit(d) } }
	mod := func(f func(d []byte, pos int) []byte, reg string) func(func([]byte)) {
		return func(emit func([]byte)) {
			st, ln := vRegion(reg, n)
			for pos := st; pos < st+ln; pos++ {
				d := make([]byte, len(s))
				copy(d, s)
				emit(f(d, pos))
			}
		}
	}

	// --- untouched form, all readers
	run(vCase{"none", "-", 0, "same", 0}, h1, one(s))
	run(vCase{"none", "-", 0, "twin", 0}, vNew(K1), one(s))
	vSetKey(K2) // the variable changes under a living handler
	run(vCase{"none", "-", 0, "stale", 0}, h1, one(s))
	run(vCase{"none", "-", 0, "other", 4}, vNew(K2), one(s))
	vSetKey(K1)
	run(vCase{"none", "-", 0, "other", 1}, vNew(K2), one(s))
	run(vCase{"none", "-", 0, "other", 2}, vNew(K3), one(s))
	{ // every single-byte alteration of the master key
		agg := vAgg{}
		np := 0
		for pos := 0; pos < len(K1); pos++ {
			for _, m := range cfg.Masks {
				k := append([]byte{}, K1...)
				k[pos] ^= byte(m)
				np++
				agg.add(vRead(vNew(k), s, v))
			}
		}
		recs = append(recs, vRec{C: vCase{"none", "-", 0, "other", 3}, NPos: np, Outs: agg.list()})
		vSetKey(K1)
	}
	twin := vNew(K1)

	// --- key size byte
	for _, p := range cfg.KSValues {
		if p == vWK {
			continue
		}
		d := append([]byte{}, s...)
		d[0] = byte(p)
		run(vCase{"setks", "KS", p, "same", 0}, h1, one(d))
	}
	// --- every byte of every region xor mask
	for _, reg := range []string{"WK", "NONCE", "CT", "TAG"} {
		for _, m := range cfg.Masks {
			mm := byte(m)
			f := func(d []byte, pos int) []byte { d[pos] ^= mm; return d }
			run(vCase{"flip", reg, m, "same", 0}, h1, mod(f, reg))
			run(vCase{"flip", reg, m, "twin", 0}, twin, mod(f, reg))
		}
	}
	// --- every byte removed
	for _, reg := range []string{"KS", "WK", "NONCE", "CT", "TAG"} {
		p := 0
		if reg == "KS" {
			p = int(s[1])
		}
		run(vCase{"drop", reg, p, "same", 0}, h1, mod(func(d []byte, pos int) []byte {
			return append(d[:pos:pos], d[pos+1:]...)
		}, reg))
	}
	// --- a byte inserted before every position
	ins := func(b byte) func(d []byte, pos int) []byte {
		return func(d []byte, pos int) []byte {
			out := make([]byte, 0, len(d)+1)
			out = append(out, d[:pos]...)
			if pos < len(d) && d[pos] == b && pos > 0 {
				// inserting a copy of the byte it displaces equals inserting one position later
				out = append(out, b^0x5a)
			} else {
				out = append(out, b)
			}
			return append(out, d[pos:]...)
		}
	}
	for _, p := range []int{0, 24, vWK, 48, 255} {
		run(vCase{"insert", "KS", p, "same", 0}, h1, mod(ins(byte(p)), "KS"))
	}
	for _, reg := range []string{"WK", "NONCE", "CT", "TAG", "END"} {
		for _, p := range []int{0, 255} {
			run(vCase{"insert", reg, p, "same", 0}, h1, mod(ins(byte(p)), reg))
		}
	}
	// --- truncation, extension
	for _, t := range vTruncSet(n) {
		run(vCase{"trunc", "-", t, "same", 0}, h1, one(s[:t]))
	}
	for _, p := range []int{1, 16} {
		ext := make([]byte, p)
		rng.Read(ext)
		run(vCase{"extend", "-", p, "same", 0}, h1, one(append(append([]byte{}, s...), ext...)))
	}
	// --- a region taken from another stored form
	swaps := [][2]interface{}{{"WK", 2}, {"WK", 3}, {"NONCE", 1}, {"NONCE", 2}, {"TAG", 1}, {"TAG", 2}, {"BODY", 2}, {"BODY", 3}}
	if n >= 1 {
		swaps = append(swaps, [2]interface{}{"CT", 1}, [2]interface{}{"CT", 2})
	}
	for _, sw := range swaps {
		reg, p := sw[0].(string), sw[1].(int)
		st, ln := vRegion(reg, n)
		// a one-byte ciphertext of another message equals this one's once in 256 seals: splicing it
		// would change nothing; take another seal of the other message
		for i := 0; i < 64 && bytes.Equal(src[p][st:st+ln], s[st:st+ln]); i++ {
			src[p], _ = vSealOnce(srcH[p], w)
		}
		d := append([]byte{}, s...)
		copy(d[st:st+ln], src[p][st:st+ln])
		run(vCase{"swap", reg, p, "same", 0}, h1, one(d))
	}
	// --- forms built independently
	for _, dl := range []int{16, 20, 24, 32} {
		run(vCase{"foreign", "-", dl, "same", 0}, h1, one(vForeign(rng, K1, v, dl)))
	}
	run(vCase{"foreign", "-", 32, "other", 1}, vNew(K2), one(vForeign(rng, K1, v, 32)))
	vSetKey(K1)
	line["recs"] = recs
	return line
}

func TestVerifC17Codec(t *testing.T) {
	p := os.Getenv("VERIF_STIMULI")
	if p == "" {
		t.Skip("VERIF_STIMULI not set")
	}
	raw, err := os.ReadFile(p)
	if err != nil {
		t.Fatalf("INCONCLUSIVE: %v", err)
	}
	var cfg vC17Cfg
	if err := json.Unmarshal(raw, &cfg); err != nil {
		t.Fatalf("INCONCLUSIVE: %v", err)
	}
	f, err := os.Create(os.Getenv("VERIF_TRACE_OUT"))
	if err != nil {
		t.Fatalf("INCONCLUSIVE: %v", err)
	}
	defer f.Close()
	w := bufio.NewWriterSize(f, 1<<20)
	defer w.Flush()
	emit := func(v interface{}) {
		b, err := json.Marshal(v)
		if err != nil {
			panic(err)
		}
		w.Write(b)
		w.WriteByte('\n')
	}
	// hermetic: the variable is restored whatever happens
	old, had := os.LookupEnv(masterKeyVarName)
	defer func() {
		if had {
			os.Setenv(masterKeyVarName, old)
		} else {
			os.Unsetenv(masterKeyVarName)
		}
	}()
	defer func() {
		if r := recover(); r != nil {
			w.Flush()
			t.Fatalf("%v", r)
		}
	}()

	tid := 0
	emit(map[string]interface{}{"a": "Open", "t": 0})
	type job struct {
		n    int
		fill string
		mk   int
	}
	jobs := []job{}
	if len(cfg.Only) > 0 {
		for _, o := range cfg.Only {
			jobs = append(jobs, job{o.N, o.Fill, o.MK})
		}
	} else {
		for _, n := range cfg.Lens {
			for fi, fill := range cfg.Fills {
				if n == 0 && fi > 0 {
					continue // there is one empty value
				}
				for _, mk := range cfg.MK {
					jobs = append(jobs, job{n, fill, mk})
				}
			}
		}
	}
	for _, j := range jobs {
		tid++
		rng := rand.New(rand.NewSource(cfg.Seed*1000003 + int64(j.n)*7919 + int64(j.mk)*31 + int64(len(j.fill))))
		line := vCodecLine(rng, &cfg, j.n, j.fill, j.mk)
		line["t"] = tid
		emit(line)
	}
	// NewLocalEncryptionHandler under master keys of every configured length
	if len(cfg.Only) == 0 {
		rng := rand.New(rand.NewSource(cfg.Seed))
		recs := []map[string]interface{}{}
		for _, m := range cfg.MKLens {
			k := "Ok"
			func() {
				defer func() {
					if r := recover(); r != nil {
						k = "Crash"
					}
				}()
				if m == 0 {
					vSetKey(nil)
				} else {
					vSetKey(vKey(rng, m, cfg.Masks))
				}
				if _, err := NewLocalEncryptionHandler(); err != nil {
					k = "Err"
				}
			}()
			recs = append(recs, map[string]interface{}{"m": m, "k": k})
		}
		tid++
		emit(map[string]interface{}{"a": "Keys", "t": tid, "recs": recs})
	}
	_ = fmt.Sprint
}
