//go:build verif

package telemetry

// C19 harness, package telemetry: the collector alone (New / Start / interval
// expiries / Stop) with a short interval and http.DefaultTransport replaced by
// a recorder.  Same trace format as the server-level harness; the collector's
// Config.Enabled is the programmatic route.  The harness records, TLC judges.

import (
	"bufio"
	"bytes"
	"encoding/json"
	"io"
	"net/http"
	"os"
	"regexp"
	"sort"
	"strings"
	"sync"
	"testing"
	"time"

	"github.com/liftbridge-io/liftbridge/server/logger"
)

type vC19Rec struct {
	mu   sync.Mutex
	reqs []vC19Req
}

type vC19Req struct {
	url    string
	body   []byte
	header http.Header
}

func (r *vC19Rec) RoundTrip(req *http.Request) (*http.Response, error) {
	var body []byte
	if req.Body != nil {
		body, _ = io.ReadAll(req.Body)
		req.Body.Close()
	}
	r.mu.Lock()
	r.reqs = append(r.reqs, vC19Req{url: req.URL.String(), body: body, header: req.Header.Clone()})
	r.mu.Unlock()
	return &http.Response{StatusCode: 200, Status: "200 OK", Body: io.NopCloser(bytes.NewReader(nil)),
		Header: http.Header{}, Request: req, Proto: "HTTP/1.1", ProtoMajor: 1, ProtoMinor: 1}, nil
}

func (r *vC19Rec) snapshot() []vC19Req {
	r.mu.Lock()
	defer r.mu.Unlock()
	return append([]vC19Req(nil), r.reqs...)
}

var vC19UUID4 = regexp.MustCompile(`^[0-9a-f]{8}-[0-9a-f]{4}-4[0-9a-f]{3}-[89ab][0-9a-f]{3}-[0-9a-f]{12}$`)

func vC19Paths(prefix string, v interface{}, out map[string]bool) {
	if m, ok := v.(map[string]interface{}); ok {
		for k, x := range m {
			p := k
			if prefix != "" {
				p = prefix + "." + k
			}
			out[p] = true
			vC19Paths(p, x, out)
		}
	}
	if l, ok := v.([]interface{}); ok {
		for _, x := range l {
			vC19Paths(prefix+"[]", x, out)
		}
	}
}

func vC19List(m map[string]bool) []string {
	out := []string{}
	for k := range m {
		out = append(out, k)
	}
	sort.Strings(out)
	return out
}

type vC19Beh struct {
	ID    int                      `json:"id"`
	Cfg   map[string]interface{}   `json:"cfg"`
	Steps []map[string]interface{} `json:"steps"`
}

func TestVerifC19Collector(t *testing.T) {
	p := os.Getenv("VERIF_STIMULI")
	if p == "" {
		t.Skip("VERIF_STIMULI not set")
	}
	raw, err := os.ReadFile(p)
	if err != nil {
		t.Fatal(err)
	}
	var sf struct {
		Behaviours []vC19Beh `json:"behaviours"`
	}
	if err := json.Unmarshal(raw, &sf); err != nil {
		t.Fatal(err)
	}
	f, err := os.Create(os.Getenv("VERIF_TRACE_OUT"))
	if err != nil {
		t.Fatal(err)
	}
	defer f.Close()
	w := bufio.NewWriter(f)
	defer w.Flush()
	emit := func(v interface{}) {
		b, _ := json.Marshal(v)
		w.Write(b)
		w.WriteByte('\n')
		w.Flush() // a collector that panics in its goroutine kills the process: every line is on disk first
	}
	intentPath := os.Getenv("VERIF_INTENT")
	old := http.DefaultTransport
	defer func() { http.DefaultTransport = old }()
	log := logger.NewLogger(0)
	log.Silent(true)

	const interval = 40 * time.Millisecond
	const window = 400 * time.Millisecond
	for _, b := range sf.Behaviours {
		rec := &vC19Rec{}
		http.DefaultTransport = rec
		route := b.Cfg["route"].(map[string]interface{})
		dir, err := os.MkdirTemp("", "c19col")
		if err != nil {
			t.Fatalf("INCONCLUSIVE: %v", err)
		}
		secret := "secretdir"
		var (
			c       *Collector
			cfg     *Config
			last    int
			stopped bool
			started bool
			aged    bool
		)
		state := func() map[string]interface{} {
			reqs := rec.snapshot()
			keys, hdrs, leaks := map[string]bool{}, map[string]bool{}, map[string]bool{}
			urlOK, idsOK := true, true
			host, _ := os.Hostname()
			for _, q := range reqs {
				var pl map[string]interface{}
				id := ""
				if json.Unmarshal(q.body, &pl) == nil {
					id, _ = pl["instance_id"].(string)
				}
				if !vC19UUID4.MatchString(id) || id == host {
					idsOK = false
				}
			}
			// key paths and header names of EVERY request (a field that is only sometimes present must show)
			for _, q := range reqs {
				var pl interface{}
				if json.Unmarshal(q.body, &pl) == nil {
					vC19Paths("", pl, keys)
				} else {
					keys["<not json>"] = true
				}
				for h := range q.header {
					hdrs[h] = true
				}
			}
			for _, q := range reqs {
				hay := q.url + "\n" + string(q.body)
				for h, vs := range q.header {
					hay += "\n" + h + ": " + strings.Join(vs, ",")
				}
				if strings.Contains(hay, dir) || strings.Contains(hay, secret) {
					leaks["datadir"] = true
				}
				if q.url != DefaultEndpoint {
					urlOK = false
				}
			}
			last = len(reqs)
			return map[string]interface{}{"enabled": cfg != nil && cfg.Enabled, "collector": started && c != nil && c.config.Enabled,
				"userData": false, "sent": len(reqs), "keys": vC19List(keys), "hdrs": vC19List(hdrs), "leaks": vC19List(leaks),
				"urlOK": urlOK, "idsOK": idsOK, "aged": aged}
		}
		waitMore := func() {
			deadline := time.Now().Add(window)
			for time.Now().Before(deadline) {
				if len(rec.snapshot()) > last {
					return
				}
				time.Sleep(time.Millisecond)
			}
		}
		emit(map[string]interface{}{"a": "Open", "t": b.ID, "route": route, "st": state(), "obs": map[string]interface{}{"a": "Open", "err": ""}})
		for sn, s := range b.Steps {
			a := s["a"].(string)
			obs := map[string]interface{}{"a": a, "err": ""}
			if intentPath != "" {
				ib, _ := json.Marshal(map[string]interface{}{"t": b.ID, "step": sn, "a": a, "route": route, "st": state()})
				os.WriteFile(intentPath, ib, 0o644)
			}
			switch a {
			case "LoadConfig":
				iv := map[string]time.Duration{"custom": interval, "default": DefaultInterval, "zero": 0, "negative": -5 * time.Second}[route["ival"].(string)]
				cfg = &Config{Enabled: route["prog"] != "false", Interval: iv, DataDir: dir + "/" + secret}
				if route["idfile"] == "unusable" {
					// the instance-id file can be neither read nor written: it is a directory
					if err := os.MkdirAll(cfg.DataDir+"/.instance_id", 0o755); err != nil {
						t.Fatalf("INCONCLUSIVE: %v", err)
					}
				}
				c, err = New(cfg, "v-test", log)
				if err != nil && route["idfile"] != "unusable" {
					obs["err"] = err.Error()
				}
				if err != nil {
					c = nil // no collector: the embedding server carries on without telemetry
				}
			case "Start":
				if c != nil {
					c.Start()
					started = true
				}
				waitMore()
			case "Tick":
				waitMore()
			case "Stop":
				if !stopped && c != nil {
					c.Stop()
					stopped = true
				}
			case "Age":
				// the collector has been up for more than a day (its clock is the start time it keeps)
				if c != nil {
					c.startTime = c.startTime.Add(-25 * time.Hour)
				}
				aged = true
			case "UserData":
			}
			emit(map[string]interface{}{"a": a, "t": b.ID, "route": route, "st": state(), "obs": obs})
		}
		if c != nil && !stopped {
			c.Stop()
		}
		os.RemoveAll(dir)
	}
	emit(map[string]interface{}{"a": "Global", "t": 0, "unattributed": 0, "total": 0})
}
