//go:build verif

package commitlog

// Crash-point fault enumeration for property C05 (CommitLogCrash.tla).
//
// Parent mode (default): for every workload of the stimulus file
//  1. profile run, in process: the workload is executed once with a counting
//     crash hook; the projected state after every operation and the number of
//     passages of every crash point per operation are recorded ("base" trace);
//  2. for every crash point and every occurrence n (bounded by VERIF_MAXOCC)
//     the test binary forks ITSELF in worker mode; the worker executes the same
//     workload on a real commit log and SIGKILLs its own process at the n-th
//     passage of the point (process-crash model: the OS keeps every write,
//     rename and remove issued so far, including dirty MAP_SHARED index pages);
//  3. the parent reopens the directory with New, projects what it finds (files,
//     in-memory segment list, HW, epoch cache, full uncommitted read-back, a
//     reader opened at every offset), executes the follow-up operations and a
//     second clean restart, and logs one ndjson line per step.
// Nothing is judged here: TLC evaluates the C05 predicates on the recorded
// observations (Trace_CommitLogCrash.tla).

import (
	"bytes"
	"crypto/sha1"
	"encoding/binary"
	"encoding/json"
	"fmt"
	"io"
	"os"
	"os/exec"
	"path/filepath"
	"regexp"
	"runtime"
	"sort"
	"strconv"
	"strings"
	"sync"
	"syscall"
	"testing"
	"time"

	proto "github.com/liftbridge-io/liftbridge/server/protocol"
)

// ---- projected state -------------------------------------------------------

type vkRec struct {
	Off int64  `json:"off"`
	Ep  int64  `json:"ep"`
	Val int64  `json:"val"`
	Key string `json:"key"`
}

type vkEnt struct {
	Off int64 `json:"off"`
	Pos int64 `json:"pos"`
}

type vkLogFile struct {
	B    int64   `json:"b"`
	X    string  `json:"x"`
	Recs []vkRec `json:"recs"`
}

type vkIdxFile struct {
	B    int64   `json:"b"`
	X    string  `json:"x"`
	Ents []vkEnt `json:"ents"`
}

type vkFS struct {
	Lf    []vkLogFile `json:"lf"`
	Xf    []vkIdxFile `json:"xf"`
	Hwf   int64       `json:"hwf"`
	Epf   []vEpoch    `json:"epf"`
	Other []string    `json:"other"`
}

type vkSeg struct {
	Base  int64 `json:"base"`
	First int64 `json:"first"`
	Last  int64 `json:"last"`
}

type vkMem struct {
	Up   bool     `json:"up"`
	Segs []vkSeg  `json:"segs"`
	HW   int64    `json:"hw"`
	Ep   []vEpoch `json:"ep"`
}

type vkRd struct {
	O   int64 `json:"o"`
	Off int64 `json:"off"`
	Val int64 `json:"val"`
}

type vkState struct {
	Fs    vkFS    `json:"fs"`
	Mem   vkMem   `json:"mem"`
	Sc    []vkRec `json:"sc"`
	ScErr string  `json:"scerr"`
	Nw    int64   `json:"nw"`
	Rd    []vkRd  `json:"rd"`
}

type vkObs struct {
	A   string  `json:"a"`
	Ret []int64 `json:"ret"`
	Err string  `json:"err"`
}

type vkCfg struct {
	Cap     int64 `json:"cap"`
	Ret     int64 `json:"ret"`
	Compact bool  `json:"compact"`
	Age     int64 `json:"age"` // 0 = no age limit; else the cut-off timestamp ("now - max age")
}

type vkEvent struct {
	T    int                    `json:"t"`
	K    string                 `json:"k"` // "base" | "crash"
	A    string                 `json:"a"`
	Args map[string]interface{} `json:"args"`
	Cfg  vkCfg                  `json:"cfg"`
	St   vkState                `json:"st"`
	Obs  vkObs                   `json:"obs"`
}

func vkValInt(s string) int64 {
	if len(s) > 1 && s[0] == 'v' {
		if n, err := strconv.ParseInt(s[1:], 10, 64); err == nil {
			return n
		}
	}
	return -1
}

func vkFromRec(r vRec) vkRec {
	return vkRec{Off: r.Off, Ep: r.Ep, Val: vkValInt(r.Val), Key: r.Key}
}

// vkParseLog decodes a raw segment log file into records.
func vkParseLog(b []byte) (recs []vkRec) {
	recs = []vkRec{}
	defer func() {
		if p := recover(); p != nil {
			recs = append(recs, vkRec{Off: -9, Ep: -9, Val: -9, Key: fmt.Sprintf("panic:%v", p)})
		}
	}()
	for pos := 0; pos+msgSetHeaderLen <= len(b); {
		ms := messageSet(b[pos:])
		size := int(ms.Size())
		if size < 0 || pos+msgSetHeaderLen+size > len(b) {
			recs = append(recs, vkRec{Off: -8, Ep: -8, Val: -8, Key: "torn"})
			break
		}
		m := SerializedMessage(b[pos+msgSetHeaderLen : pos+msgSetHeaderLen+size])
		r := vDecode(m, ms.Offset(), ms.Timestamp(), ms.LeaderEpoch())
		recs = append(recs, vkFromRec(r))
		pos += msgSetHeaderLen + size
	}
	return recs
}

// vkParseIndex decodes a raw index file: entries up to the first empty slot.
func vkParseIndex(b []byte, base int64) []vkEnt {
	ents := []vkEnt{}
	for pos := 0; pos+entryWidth <= len(b); pos += entryWidth {
		var rel relEntry
		if err := binary.Read(bytes.NewReader(b[pos:pos+entryWidth]), proto.Encoding, &rel); err != nil {
			break
		}
		if rel.Position == 0 && rel.Timestamp == 0 && rel.Size == 0 {
			break
		}
		p := int64(-1)
		if int64(rel.Position)%vUnit == 0 {
			p = int64(rel.Position)/vUnit + 1
		}
		ents = append(ents, vkEnt{Off: base + int64(rel.Offset), Pos: p})
	}
	return ents
}

// vkReadHead reads at most n bytes from the start of a file (an active index
// file is pre-allocated to 10 MB; its entries are at the front).
func vkReadHead(path string, n int) []byte {
	fh, err := os.Open(path)
	if err != nil {
		return nil
	}
	defer fh.Close()
	b := make([]byte, n)
	k, _ := io.ReadFull(fh, b)
	return b[:k]
}

func vkSuffix(s string) (string, bool) {
	switch s {
	case "":
		return "", true
	case cleanedSuffix:
		return "c", true
	case truncatedSuffix:
		return "t", true
	}
	return "", false
}

func vkProjectDir(dir string) vkFS {
	fs := vkFS{Lf: []vkLogFile{}, Xf: []vkIdxFile{}, Hwf: -2, Epf: []vEpoch{}, Other: []string{}}
	files, err := os.ReadDir(dir)
	if err != nil {
		fs.Other = append(fs.Other, "readdir:"+err.Error())
		return fs
	}
	for _, f := range files {
		name := f.Name()
		path := filepath.Join(dir, name)
		switch {
		case name == hwFileName:
			b, _ := os.ReadFile(path)
			if v, err := strconv.ParseInt(string(b), 10, 64); err == nil {
				fs.Hwf = v
			} else {
				fs.Hwf = -3
			}
		case name == leaderEpochFileName:
			fh, err := os.Open(path)
			if err == nil {
				eps, err := readLeaderEpochOffsets(fh)
				fh.Close()
				if err != nil {
					fs.Other = append(fs.Other, "epochfile:"+err.Error())
				}
				for _, e := range eps {
					fs.Epf = append(fs.Epf, vEpoch{E: int64(e.leaderEpoch), S: e.startOffset})
				}
			}
		case len(name) > 20 && strings.HasPrefix(name[20:], logSuffix):
			base, e1 := strconv.ParseInt(name[:20], 10, 64)
			x, ok := vkSuffix(name[20+len(logSuffix):])
			if e1 != nil || !ok {
				fs.Other = append(fs.Other, name)
				continue
			}
			b, _ := os.ReadFile(path)
			fs.Lf = append(fs.Lf, vkLogFile{B: base, X: x, Recs: vkParseLog(b)})
		case len(name) > 20 && strings.HasPrefix(name[20:], indexSuffix):
			base, e1 := strconv.ParseInt(name[:20], 10, 64)
			x, ok := vkSuffix(name[20+len(indexSuffix):])
			if e1 != nil || !ok {
				fs.Other = append(fs.Other, name)
				continue
			}
			fs.Xf = append(fs.Xf, vkIdxFile{B: base, X: x, Ents: vkParseIndex(vkReadHead(path, 1<<16), base)})
		default:
			fs.Other = append(fs.Other, name)
		}
	}
	return fs
}

func vkReadFirst(l *commitLog, o int64) (rd vkRd) {
	rd = vkRd{O: o, Off: -1, Val: -1}
	defer func() {
		if p := recover(); p != nil {
			rd.Off, rd.Val = -2, -2
		}
	}()
	r, err := l.NewReader(o, true)
	if err != nil {
		return rd
	}
	headers := make([]byte, msgSetHeaderLen)
	m, off, ts, ep, err := r.ReadMessage(vDoneCtx(), headers)
	if err != nil {
		return rd
	}
	rec := vDecode(m, off, ts, ep)
	rd.Off, rd.Val = rec.Off, vkValInt(rec.Val)
	return rd
}

func vkProject(l *commitLog, dir string) vkState {
	st := vkState{Fs: vkProjectDir(dir), Sc: []vkRec{}, Rd: []vkRd{}}
	st.Mem = vkMem{Up: true, Segs: []vkSeg{}, HW: l.HighWatermark(), Ep: vEpochs(l)}
	for _, s := range l.Segments() {
		st.Mem.Segs = append(st.Mem.Segs, vkSeg{Base: s.BaseOffset, First: s.FirstOffset(), Last: s.LastOffset()})
	}
	res := vReadFrom(l, 0, false)
	for _, r := range res.Recs {
		st.Sc = append(st.Sc, vkFromRec(r))
	}
	if res.Kind == "panic" {
		st.ScErr = res.Err
	}
	st.Nw = l.NewestOffset()
	seen := map[int64]bool{}
	for _, r := range st.Sc {
		if !seen[r.Off] {
			seen[r.Off] = true
			st.Rd = append(st.Rd, vkReadFirst(l, r.Off))
		}
	}
	return st
}

// ---- executing operations --------------------------------------------------

type vkRun struct {
	dir string
	cfg vkCfg
	l   *commitLog
}

func (r *vkRun) opts() Options {
	o := vOpts(r.dir, r.cfg.Cap*vUnit, false)
	o.MaxLogMessages = r.cfg.Ret
	o.Compact = r.cfg.Compact
	if r.cfg.Age > 0 {
		// age retention with a fixed clock: message timestamps are the value ids, and the
		// package's own test hook computeTTL answers the cut-off of the configuration
		o.MaxLogAge = time.Hour
		cut := r.cfg.Age
		computeTTL = func(time.Duration) int64 { return cut }
	}
	return o
}

func (r *vkRun) open() (err error) {
	defer func() {
		if p := recover(); p != nil {
			err = fmt.Errorf("panic:%v", p)
		}
	}()
	cl, err := New(r.opts())
	if err != nil {
		return err
	}
	r.l = cl.(*commitLog)
	return nil
}

func vkMsgs(step map[string]interface{}) []*Message {
	msgs := []*Message{}
	for _, sr := range vList(step, "recs") {
		rec := map[string]interface{}{"key": vStr(sr, "key"), "val": sr["val"], "ts": sr["val"], "ep": sr["ep"]}
		m, _ := vBuildMsg(rec)
		msgs = append(msgs, m)
	}
	return msgs
}

// vkEffective resolves an intent against the state the log is in: an Append is
// "append as the current leader", so its leader epoch is never below the
// latest epoch the log knows (a leader does not append with a stale epoch).
func (r *vkRun) vkEffective(step map[string]interface{}) map[string]interface{} {
	if a := vStr(step, "a"); a != "Append" && a != "AppendSet" {
		return step
	}
	latest := int64(r.l.LastLeaderEpoch())
	out := map[string]interface{}{"a": vStr(step, "a")}
	recs := []interface{}{}
	for _, sr := range vList(step, "recs") {
		ep := vInt(sr, "ep")
		if ep < latest {
			ep = latest
		}
		latest = ep // epochs never decrease inside a batch either
		recs = append(recs, map[string]interface{}{"ep": float64(ep), "val": sr["val"], "key": sr["key"]})
	}
	out["recs"] = recs
	if sk, ok := step["skip"]; ok {
		out["skip"] = sk
	}
	return out
}

// exec performs one operation (an intent) on the open log and returns the
// operation as it was issued.
func (r *vkRun) exec(in map[string]interface{}) (step map[string]interface{}, obs vkObs) {
	a := vStr(in, "a")
	obs = vkObs{A: a, Ret: []int64{}}
	step = in
	if r.l != nil {
		step = r.vkEffective(in)
	}
	defer func() {
		if p := recover(); p != nil {
			obs.Err = fmt.Sprintf("panic:%v", p)
		}
	}()
	var err error
	switch a {
	case "Append":
		var offs []int64
		offs, err = r.l.Append(vkMsgs(step))
		if offs != nil {
			obs.Ret = offs
		}
	case "AppendSet":
		// replicated path: the message set carries offsets and epochs
		// step["skip"][i] offsets are left out in front of record i: the message set of a leader
		// whose log was compacted (one single-message set per record, concatenated)
		var ms []byte
		off := r.l.NewestOffset() + 1
		skips, _ := step["skip"].([]interface{})
		for i, m := range vkMsgs(step) {
			if i < len(skips) {
				off += int64(skips[i].(float64))
			}
			one, _, e2 := newMessageSetFromProto(off, 0, []*Message{m}, false)
			if e2 != nil {
				panic(e2)
			}
			ms = append(ms, one...)
			off++
		}
		var offs []int64
		offs, err = r.l.AppendMessageSet(ms)
		if offs != nil {
			obs.Ret = offs
		}
	case "Truncate":
		err = r.l.Truncate(vInt(step, "o"))
	case "SetHW":
		r.l.SetHighWatermark(vInt(step, "h"))
	case "Checkpoint":
		r.l.mu.RLock()
		err = r.l.checkpointHW()
		r.l.mu.RUnlock()
	case "NewLeaderEpoch":
		err = r.l.NewLeaderEpoch(uint64(vInt(step, "e")))
	case "Clean":
		err = r.l.Clean()
	case "Reopen":
		if err = r.l.Close(); err == nil {
			err = r.open()
		}
	default:
		panic("unknown action " + a)
	}
	if err != nil {
		obs.Err = "error:" + err.Error()
	}
	return step, obs
}

// ---- worker mode -----------------------------------------------------------

type vkWorkload struct {
	ID    int                      `json:"id"`
	Cfg   vkCfg                    `json:"cfg"`
	Steps []map[string]interface{} `json:"steps"`
	Post  []map[string]interface{} `json:"post"`
}

func vkWorker(t *testing.T) {
	var wl vkWorkload
	b, err := os.ReadFile(os.Getenv("VERIF_WL"))
	if err != nil {
		t.Fatalf("worker: %v", err)
	}
	if err := json.Unmarshal(b, &wl); err != nil {
		t.Fatalf("worker: %v", err)
	}
	// all file-system calls of the workload come from this goroutine: keep it on one thread so
	// that per-thread syscall counts (strace fault injection) are reproducible
	runtime.LockOSThread()
	spec := strings.SplitN(os.Getenv("VERIF_CRASH")+":0", ":", 3)
	point := spec[0]
	nth, _ := strconv.Atoi(spec[1])
	mark := vkEnvInt("VERIF_SYS_MARK", -1)
	hits := 0
	armed := false
	VerifCrashHook = func(name string) {
		if !armed || name != point {
			return
		}
		hits++
		if hits == nth {
			syscall.Kill(os.Getpid(), syscall.SIGKILL)
			select {}
		}
	}
	journal, err := os.OpenFile(os.Getenv("VERIF_JOURNAL"), os.O_CREATE|os.O_WRONLY|os.O_APPEND, 0644)
	if err != nil {
		t.Fatalf("worker: %v", err)
	}
	run := &vkRun{dir: os.Getenv("VERIF_DIR"), cfg: wl.Cfg}
	if os.Getenv("VERIF_RECOVER_ONLY") != "" {
		// a recovering process that is killed itself
		armed = true
		run.open()
		os.Exit(0)
	}
	if err := run.open(); err != nil {
		t.Fatalf("worker open: %v", err)
	}
	armed = true // passages during the initial New are not crash candidates
	for i, st := range wl.Steps {
		if i == mark {
			os.Open("/verif-mark-begin") // visible in a syscall trace, no effect
		}
		run.exec(st)
		if i == mark {
			os.Open("/verif-mark-end")
			os.Exit(0)
		}
		journal.Write([]byte("."))
	}
	_ = wl.Post
	journal.Close()
	os.Exit(0) // without Close: nothing after the last step is of interest
}

// ---- parent mode -----------------------------------------------------------

type vkSysCand struct {
	wl     *vkWorkload
	opIdx  int
	pre    vkState
	wlPath string
	kind   string
	shape  string // kind + the set of named crash points the operation passed (which sub-plans it executed)
	sites  [][2]interface{}
	err    error
}

type vkCrashJob struct {
	tid    int
	wl     *vkWorkload
	point  string
	global int // occurrence counted over the whole workload
	opIdx  int // index of the interrupted step
	local  int // occurrence within the interrupted step
	pre    vkState
	wlPath string
	sysT   string                   // syscall-boundary crash: kill right after the sysN-th call of sysT (strace fault injection)
	sysN   int
	torn   int                      // >= 0: torn write, that many complete records of the batch kept; -1: none
	rcs    []map[string]interface{} // further crashes during recovery: [{"p":..,"n":..}]
	rhits  map[string]int           // crash points the (uncrashed) recovery passed
	events []vkEvent
	note   string
}

var vkMu sync.Mutex

// vkResourceErr: the error text of an exhausted machine (memory, descriptors, threads, disk) - never
// an observation about the code under test
func vkResourceErr(s string) bool {
	for _, pat := range []string{"cannot allocate memory", "out of memory", "too many open files", "no space left on device",
		"resource temporarily unavailable", "failed to create new OS thread", "fork/exec", "signal: killed"} {
		if strings.Contains(s, pat) {
			return true
		}
	}
	return false
}

func (j *vkCrashJob) firstErr() string {
	for _, e := range j.events {
		if e.Obs.Err != "" {
			return e.A + ":" + e.Obs.Err
		}
		if e.St.ScErr != "" {
			return e.A + ":scan:" + e.St.ScErr
		}
	}
	return ""
}

// vkRunCrashJob runs one crash scenario. A scenario is deterministic (same directory, same kill, same
// follow-ups): a failed step (error, death, hang) that does not fail again when the whole scenario is
// repeated was caused by the machine (memory pressure, a killed child), and the run is dropped as
// infrastructure - never judged.
func vkRunCrashJob(j *vkCrashJob, root string) {
	vkRunCrashJobOnce(j, root)
	first := j.firstErr()
	if j.note != "" || first == "" {
		return
	}
	if vkResourceErr(first) {
		j.note = "infra:resource exhaustion: " + first
		j.events = nil
		return
	}
	again := *j
	again.events, again.note, again.rhits = nil, "", nil
	vkRunCrashJobOnce(&again, root)
	if again.note != "" || again.firstErr() != first {
		j.note = fmt.Sprintf("infra:failed step not reproducible (first run %q, second run %q %s)", first, again.firstErr(), again.note)
		j.events = nil
	}
}

func vkRunCrashJobOnce(j *vkCrashJob, root string) {
	dir := filepath.Join(root, fmt.Sprintf("r%d", j.tid))
	journal := dir + ".journal"
	defer os.RemoveAll(dir)
	defer os.Remove(journal)
	cmd := exec.Command(os.Args[0], "-test.run=^TestVerifCrash$")
	cmd.Env = append(os.Environ(), "VERIF_CRASH_WORKER=1", "VERIF_WL="+j.wlPath, "VERIF_DIR="+dir,
		fmt.Sprintf("VERIF_CRASH=%s:%d", j.point, j.global), "VERIF_JOURNAL="+journal)
	if j.sysT != "" {
		// no named crash point: strace kills the worker right after its sysN-th call of sysT
		cmd = exec.Command("strace", "-f", "-qq", "-o", "/dev/null", "-e", "trace="+j.sysT,
			"-e", fmt.Sprintf("inject=%s:signal=SIGKILL:when=%d", j.sysT, j.sysN), os.Args[0], "-test.run=^TestVerifCrash$")
		cmd.Env = append(os.Environ(), "VERIF_CRASH_WORKER=1", "VERIF_WL="+j.wlPath, "VERIF_DIR="+dir,
			"VERIF_CRASH=", "VERIF_JOURNAL="+journal, fmt.Sprintf("VERIF_SYS_MARK=%d", j.opIdx))
	}
	var out bytes.Buffer
	cmd.Stdout, cmd.Stderr = &out, &out
	if err := cmd.Start(); err != nil {
		j.note = "infra:start:" + err.Error()
		return
	}
	done := make(chan error, 1)
	go func() { done <- cmd.Wait() }()
	var werr error
	select {
	case werr = <-done:
	case <-time.After(60 * time.Second):
		cmd.Process.Kill()
		<-done
		j.note = "infra:worker timeout"
		return
	}
	killed := false
	if ee, ok := werr.(*exec.ExitError); ok {
		if ws, ok := ee.Sys().(syscall.WaitStatus); ok && ws.Signaled() && ws.Signal() == syscall.SIGKILL {
			killed = true
		}
	}
	if !killed {
		if werr == nil {
			j.note = "not_reached"
		} else {
			j.note = "infra:worker failed: " + werr.Error() + ": " + out.String()
		}
		return
	}
	jb, _ := os.ReadFile(journal)
	if len(jb) != j.opIdx {
		if j.sysT != "" {
			j.note = "sys_misaligned" // the kill fell outside the intended operation
			return
		}
		j.note = fmt.Sprintf("nondeterministic: worker completed %d steps, profile says %d", len(jb), j.opIdx)
		return
	}
	// torn write: the kill came inside the write call of the message set. The directory is
	// the one at append.after_log_write (log written, index not) with the tail of the active
	// segment's log file cut in the middle of a record of the batch.
	if j.torn >= 0 {
		if err := vkTear(dir, len(vList(j.wl.Steps[j.opIdx], "recs")), j.torn); err != nil {
			j.note = "infra:tear:" + err.Error()
			return
		}
	}
	// further crashes during recovery: a process that only reopens the directory
	// and is killed in front of the given crash point of New
	for _, rc := range j.rcs {
		rcmd := exec.Command(os.Args[0], "-test.run=^TestVerifCrash$")
		rcmd.Env = append(os.Environ(), "VERIF_CRASH_WORKER=1", "VERIF_RECOVER_ONLY=1", "VERIF_WL="+j.wlPath,
			"VERIF_DIR="+dir, fmt.Sprintf("VERIF_CRASH=%s:%d", vStr(rc, "p"), vInt(rc, "n")), "VERIF_JOURNAL="+journal)
		rerr := rcmd.Run()
		rk := false
		if ee, ok := rerr.(*exec.ExitError); ok {
			if ws, ok := ee.Sys().(syscall.WaitStatus); ok && ws.Signaled() && ws.Signal() == syscall.SIGKILL {
				rk = true
			}
		}
		if !rk {
			if rerr == nil {
				j.note = "not_reached"
			} else {
				j.note = "infra:recovery crasher failed: " + rerr.Error()
			}
			return
		}
	}
	j.events = append(j.events, vkEvent{T: j.tid, K: "crash", A: "Open",
		Args: map[string]interface{}{"wl": j.wl.ID, "p": j.openPoint(), "n": j.openN()}, Cfg: j.wl.Cfg, St: j.pre,
		Obs: vkObs{A: "Open", Ret: []int64{}}})
	// reopen + follow-up operations in a second child: a hang or a fatal
	// runtime error there must not take the driver down
	evPath := dir + ".events"
	defer os.Remove(evPath)
	obsCmd := exec.Command(os.Args[0], "-test.run=^TestVerifCrash$")
	obsCmd.Env = append(os.Environ(), "VERIF_CRASH_OBSERVER=1", "VERIF_WL="+j.wlPath, "VERIF_DIR="+dir,
		"VERIF_EVENTS="+evPath, fmt.Sprintf("VERIF_JOB=%d:%d:%d:%s", j.tid, j.opIdx, j.local, j.point),
		"VERIF_RCS="+vkJSON(j.rcs), fmt.Sprintf("VERIF_TORN=%d", j.torn), "VERIF_SYS="+j.sysT)
	var oout bytes.Buffer
	obsCmd.Stdout, obsCmd.Stderr = &oout, &oout
	if err := obsCmd.Start(); err != nil {
		j.note = "infra:start:" + err.Error()
		return
	}
	odone := make(chan error, 1)
	go func() { odone <- obsCmd.Wait() }()
	how := ""
	// A livelock is recognised by CPU time, not by the wall clock: an observer needs a few
	// hundredths of a second of CPU for its whole job; one that has burned cpuBudget without
	// finishing is spinning. An observer that exceeds the (generous) wall limit without having
	// used that much CPU was starved or blocked: infrastructure, never a verdict.
	cpuBudget := time.Duration(vkEnvInt("VERIF_HANG_CPU_MS", 3000)) * time.Millisecond
	wallLimit := time.Duration(vkEnvInt("VERIF_OBS_WALL_MS", 120000)) * time.Millisecond
	start := time.Now()
	tick := time.NewTicker(100 * time.Millisecond)
WAIT:
	for {
		select {
		case err := <-odone:
			if err != nil {
				if ee, ok := err.(*exec.ExitError); ok {
					if ws, ok := ee.Sys().(syscall.WaitStatus); ok && ws.Signaled() && ws.Signal() == syscall.SIGKILL {
						// killed by somebody else (e.g. the OOM killer): not an observation
						tick.Stop()
						j.note = "infra:observer killed externally"
						return
					}
				}
				how = "died:" + err.Error()
			}
			break WAIT
		case <-tick.C:
			if cpu := vkProcCPU(obsCmd.Process.Pid); cpu >= cpuBudget {
				obsCmd.Process.Kill()
				<-odone
				how = "hang"
				break WAIT
			}
			if time.Since(start) > wallLimit {
				obsCmd.Process.Kill()
				<-odone
				tick.Stop()
				j.note = fmt.Sprintf("infra:observer stalled (cpu %v after %v)", vkProcCPU(obsCmd.Process.Pid), wallLimit)
				return
			}
		}
	}
	tick.Stop()
	eb, _ := os.ReadFile(evPath)
	var last *vkEvent
	for _, line := range bytes.Split(eb, []byte("\n")) {
		if len(bytes.TrimSpace(line)) == 0 {
			continue
		}
		var e vkEvent
		if err := json.Unmarshal(line, &e); err != nil {
			break // torn last line of a killed observer
		}
		if e.A == "CrashRecover" {
			if rh, ok := e.Args["rhits"].(map[string]interface{}); ok {
				j.rhits = map[string]int{}
				for k, v := range rh {
					j.rhits[k] = int(v.(float64))
				}
			}
		}
		j.events = append(j.events, e)
		last = &j.events[len(j.events)-1]
	}
	if how != "" {
		// the step the observer was executing did not return
		seq := [][2]interface{}{{"CrashRecover", map[string]interface{}{"op": j.wl.Steps[j.opIdx], "p": j.point, "n": j.local, "torn": j.torn, "sys": j.sysT, "rcs": vkRcs(j.rcs)}}}
		for _, st := range j.wl.Post {
			seq = append(seq, [2]interface{}{vStr(st, "a"), st})
		}
		k := len(j.events) - 1 // observer events so far
		if k < len(seq) {
			st := j.pre
			if last != nil {
				st = last.St
			}
			j.events = append(j.events, vkEvent{T: j.tid, K: "crash", A: seq[k][0].(string),
				Args: seq[k][1].(map[string]interface{}), Cfg: j.wl.Cfg, St: st,
				Obs: vkObs{A: seq[k][0].(string), Ret: []int64{}, Err: how}})
		}
	}
}

// vkObserver: reopen the directory a killed worker left, project, perform the
// follow-up operations; one event per line, written through immediately.
func vkObserver(t *testing.T) {
	var wl vkWorkload
	b, err := os.ReadFile(os.Getenv("VERIF_WL"))
	if err != nil {
		t.Fatalf("observer: %v", err)
	}
	if err := json.Unmarshal(b, &wl); err != nil {
		t.Fatalf("observer: %v", err)
	}
	job := strings.SplitN(os.Getenv("VERIF_JOB"), ":", 4)
	tid, _ := strconv.Atoi(job[0])
	opIdx, _ := strconv.Atoi(job[1])
	local, _ := strconv.Atoi(job[2])
	point := job[3]
	dir := os.Getenv("VERIF_DIR")
	out, err := os.OpenFile(os.Getenv("VERIF_EVENTS"), os.O_CREATE|os.O_WRONLY|os.O_APPEND, 0644)
	if err != nil {
		t.Fatalf("observer: %v", err)
	}
	ev := func(a string, args map[string]interface{}, st vkState, obs vkObs) {
		eb, _ := json.Marshal(vkEvent{T: tid, K: "crash", A: a, Args: args, Cfg: wl.Cfg, St: st, Obs: obs})
		out.Write(append(eb, '\n'))
	}
	run := &vkRun{dir: dir, cfg: wl.Cfg}
	var rcs []map[string]interface{}
	json.Unmarshal([]byte(os.Getenv("VERIF_RCS")), &rcs)
	rhits := map[string]int{}
	VerifCrashHook = func(name string) { rhits[name]++ }
	args := map[string]interface{}{"op": wl.Steps[opIdx], "p": point, "n": local, "torn": vkEnvInt("VERIF_TORN", -1),
		"sys": os.Getenv("VERIF_SYS"), "rcs": vkRcs(rcs), "rhits": rhits}
	err = run.open()
	VerifCrashHook = nil
	if err != nil {
		// reopening failed: nothing more can be observed
		st := vkState{Fs: vkProjectDir(dir), Sc: []vkRec{}, Rd: []vkRd{}, Mem: vkMem{Segs: []vkSeg{}, Ep: []vEpoch{}, HW: -1}}
		ev("CrashRecover", args, st, vkObs{A: "CrashRecover", Ret: []int64{}, Err: "error:" + err.Error()})
		os.Exit(0)
	}
	ev("CrashRecover", args, vkProject(run.l, dir), vkObs{A: "CrashRecover", Ret: []int64{}})
	for _, st := range wl.Post {
		eff, obs := run.exec(st)
		if run.l == nil {
			break
		}
		ev(vStr(st, "a"), eff, vkProject(run.l, dir), obs)
	}
	os.Exit(0)
}

// vkTear cuts the newest segment's log file so that of the nrecs records written
// last only keep complete ones and half of the next one remain.
func vkTear(dir string, nrecs, keep int) error {
	files, err := os.ReadDir(dir)
	if err != nil {
		return err
	}
	name := ""
	for _, f := range files {
		if strings.HasSuffix(f.Name(), logSuffix) && f.Name() > name {
			name = f.Name()
		}
	}
	if name == "" {
		return fmt.Errorf("no log file")
	}
	path := filepath.Join(dir, name)
	info, err := os.Stat(path)
	if err != nil {
		return err
	}
	size := info.Size() - int64(nrecs-keep)*vUnit + vUnit/2
	if size <= 0 || size >= info.Size() {
		return fmt.Errorf("cannot tear %s: size %d, %d records, keep %d", name, info.Size(), nrecs, keep)
	}
	return os.Truncate(path, size)
}

// vkProcCPU is the CPU time (user+system, all threads) a live process has used.
func vkProcCPU(pid int) time.Duration {
	b, err := os.ReadFile(fmt.Sprintf("/proc/%d/stat", pid))
	if err != nil {
		return 0
	}
	// fields after the command name (which is in parentheses and may contain spaces)
	i := bytes.LastIndexByte(b, ')')
	if i < 0 {
		return 0
	}
	f := strings.Fields(string(b[i+1:]))
	if len(f) < 13 {
		return 0
	}
	ut, _ := strconv.ParseInt(f[11], 10, 64) // utime, field 14 of the line
	st, _ := strconv.ParseInt(f[12], 10, 64) // stime
	return time.Duration(ut+st) * (time.Second / 100)
}

func (j *vkCrashJob) openPoint() string {
	if j.sysT != "" {
		return "syscall." + j.sysT
	}
	return j.point
}

func (j *vkCrashJob) openN() int {
	if j.sysT != "" {
		return j.sysN
	}
	return j.global
}

const vkSysSet = "openat,write,pwrite64,renameat,renameat2,rename,unlinkat,unlink,ftruncate"

var vkSysLine = regexp.MustCompile(`^(\d+)\s+(\w+)\((.*)$`)

// vkCalibrate runs the workload up to and including step opIdx under strace and returns, for
// every file-system call the step made that changes the directory, the (syscall, n) pair
// "n-th call of that syscall on the workload's thread".
func vkCalibrate(wlPath string, opIdx int, root string, id int) (out [][2]interface{}, err error) {
	dir := filepath.Join(root, fmt.Sprintf("k%d", id))
	log := dir + ".strace"
	defer os.RemoveAll(dir)
	defer os.Remove(log)
	defer os.Remove(dir + ".journal")
	cmd := exec.Command("strace", "-f", "-qq", "-o", log, "-e", "trace="+vkSysSet, os.Args[0], "-test.run=^TestVerifCrash$")
	cmd.Env = append(os.Environ(), "VERIF_CRASH_WORKER=1", "VERIF_WL="+wlPath, "VERIF_DIR="+dir, "VERIF_CRASH=",
		"VERIF_JOURNAL="+dir+".journal", fmt.Sprintf("VERIF_SYS_MARK=%d", opIdx))
	if b, e := cmd.CombinedOutput(); e != nil {
		return nil, fmt.Errorf("strace run: %v: %s", e, b)
	}
	lb, e := os.ReadFile(log)
	if e != nil {
		return nil, e
	}
	lines := strings.Split(string(lb), "\n")
	// the thread that issued the markers is the workload's thread
	tid := ""
	for _, ln := range lines {
		if strings.Contains(ln, "/verif-mark-begin") {
			if m := vkSysLine.FindStringSubmatch(ln); m != nil {
				tid = m[1]
			}
		}
	}
	if tid == "" {
		return nil, fmt.Errorf("marker not found in syscall trace")
	}
	count := map[string]int{}
	inside := false
	for _, ln := range lines {
		m := vkSysLine.FindStringSubmatch(ln)
		if m == nil || m[1] != tid {
			continue
		}
		name, rest := m[2], m[3]
		count[name]++
		switch {
		case strings.Contains(rest, "/verif-mark-begin"):
			inside = true
			continue
		case strings.Contains(rest, "/verif-mark-end"):
			inside = false
			continue
		}
		if !inside {
			continue
		}
		if name == "openat" && !strings.Contains(rest, "O_CREAT") && !strings.Contains(rest, "O_TRUNC") {
			continue // opening an existing file changes nothing
		}
		out = append(out, [2]interface{}{name, count[name]})
	}
	return out, nil
}

func vkJSON(v interface{}) string {
	b, _ := json.Marshal(v)
	return string(b)
}

// vkRcs is the list of recovery crashes as logged (never null)
func vkRcs(rcs []map[string]interface{}) []map[string]interface{} {
	if rcs == nil {
		return []map[string]interface{}{}
	}
	return rcs
}

func vkEnvInt(k string, d int) int {
	if v, err := strconv.Atoi(os.Getenv(k)); err == nil {
		return v
	}
	return d
}

func TestVerifCrash(t *testing.T) {
	if os.Getenv("VERIF_CRASH_WORKER") != "" {
		vkWorker(t)
		return
	}
	if os.Getenv("VERIF_CRASH_OBSERVER") != "" {
		vkObserver(t)
		return
	}
	p := os.Getenv("VERIF_STIMULI")
	if p == "" {
		t.Skip("VERIF_STIMULI not set")
	}
	b, err := os.ReadFile(p)
	if err != nil {
		t.Fatal(err)
	}
	var sf struct {
		Workloads []*vkWorkload `json:"behaviours"`
	}
	if err := json.Unmarshal(b, &sf); err != nil {
		t.Fatal(err)
	}
	tw := vOpenTrace(t)
	defer tw.Close()
	root := vTempDir(t)
	defer os.RemoveAll(root)
	maxOcc := vkEnvInt("VERIF_MAXOCC", 2)
	par := vkEnvInt("VERIF_PAR", 6)
	only := os.Getenv("VERIF_ONLY") // "point:n" restricts the crash runs (replay)
	sysMax := vkEnvInt("VERIF_SYS_MAX", 0)       // syscall-boundary crash runs (0 = off)
	sysPerKind := vkEnvInt("VERIF_SYS_KIND", 6) // operations calibrated per operation kind
	seenSys := map[[20]byte]bool{}
	sysCands := []vkSysCand{}
	dedup := os.Getenv("VERIF_DEDUP") != ""
	torn := os.Getenv("VERIF_TORN_JOBS") != ""
	seenJob := map[[20]byte]bool{}
	tid := 0
	jobs := []*vkCrashJob{}
	stats := map[string]int{}

	// 1. profile runs (sequential: the crash hook is a package variable)
	for _, wl := range sf.Workloads {
		tid++
		base := tid
		dir := filepath.Join(root, fmt.Sprintf("b%d", base))
		wlPath := dir + ".json"
		var (
			cur   map[string]int
			total = map[string]int{}
		)
		VerifCrashHook = func(name string) {
			if cur != nil {
				cur[name]++
			}
		}
		run := &vkRun{dir: dir, cfg: wl.Cfg}
		if err := run.open(); err != nil {
			t.Fatalf("open: %v", err)
		}
		states := []vkState{vkProject(run.l, dir)}
		tw.Emit(vkEvent{T: base, K: "base", A: "Open", Args: map[string]interface{}{"wl": wl.ID}, Cfg: wl.Cfg,
			St: states[0], Obs: vkObs{A: "Open", Ret: []int64{}}})
		for i, st := range wl.Steps {
			cur = map[string]int{}
			eff, obs := run.exec(st)
			if vkResourceErr(obs.Err) {
				t.Fatalf("machine out of resources during the profile run: %s", obs.Err)
			}
			hits := cur
			cur = nil
			st = eff
			wl.Steps[i] = eff // the operation as issued (epochs resolved)
			states = append(states, vkProject(run.l, dir))
			tw.Emit(vkEvent{T: base, K: "base", A: vStr(st, "a"), Args: st, Cfg: wl.Cfg, St: states[i+1], Obs: obs})
			if sysMax > 0 && vStr(st, "a") != "SetHW" {
				kb, _ := json.Marshal([]interface{}{wl.Cfg, states[i], st})
				if key := sha1.Sum(kb); !seenSys[key] {
					seenSys[key] = true
					hn := make([]string, 0, len(hits))
					for name := range hits {
						hn = append(hn, name)
					}
					sort.Strings(hn)
					sysCands = append(sysCands, vkSysCand{wl: wl, opIdx: i, pre: states[i], wlPath: wlPath, kind: vStr(st, "a"),
						shape: vStr(st, "a") + "|" + strings.Join(hn, ",")})
				}
			}
			names := make([]string, 0, len(hits))
			for name := range hits {
				names = append(names, name)
			}
			sort.Strings(names)
			for _, name := range names {
				for n := 1; n <= hits[name]; n++ {
					g := total[name] + n
					if g > maxOcc {
						stats["skipped_occurrence"]++
						continue
					}
					if only != "" && only != fmt.Sprintf("%s:%d", name, g) {
						continue
					}
					if dedup {
						// the outcome of a crash depends only on the state before the interrupted
						// operation, the operation and the crash site: workloads sharing a prefix
						// would repeat the same scenario
						kb, _ := json.Marshal([]interface{}{wl.Cfg, states[i], st, name, n})
						key := sha1.Sum(kb)
						if seenJob[key] {
							stats["skipped_duplicate_scenario"]++
							continue
						}
						seenJob[key] = true
					}
					tid++
					jobs = append(jobs, &vkCrashJob{tid: tid, wl: wl, point: name, global: g, opIdx: i, local: n,
						pre: states[i], wlPath: wlPath, torn: -1})
					// torn writes of an append: the same kill with the log tail cut inside the batch
					if a := vStr(st, "a"); torn && name == "append.after_log_write" && (a == "Append" || a == "AppendSet") && n == 1 {
						for k := 0; k < len(vList(st, "recs")); k++ {
							tid++
							jobs = append(jobs, &vkCrashJob{tid: tid, wl: wl, point: name, global: g, opIdx: i, local: n,
								pre: states[i], wlPath: wlPath, torn: k})
						}
					}
				}
				total[name] += hits[name]
			}
		}
		VerifCrashHook = nil
		// the follow-up operations also run on the uncrashed log (clean base line)
		for _, st := range wl.Post {
			eff, obs := run.exec(st)
			if vkResourceErr(obs.Err) {
				t.Fatalf("machine out of resources during the profile run: %s", obs.Err)
			}
			tw.Emit(vkEvent{T: base, K: "base", A: vStr(st, "a"), Args: eff, Cfg: wl.Cfg, St: vkProject(run.l, dir), Obs: obs})
		}
		run.l.Close()
		os.RemoveAll(dir)
		wb, _ := json.Marshal(wl)
		os.WriteFile(wlPath, wb, 0644)
	}

	// 1b. syscall-boundary crashes: for a bounded number of operations of every kind the workload is
	// traced once (which file-system calls does the operation make?), then the worker is killed
	// right after each of them - boundaries the code has no named crash point for
	if sysMax > 0 {
		// operations are sampled per SHAPE - the kind of the operation and the set of named crash
		// points it passes, i.e. which sub-plans it executes (roll, epoch flush, whole-segment delete,
		// rewrite + Replace, compaction that empties a segment, ...): a sample per kind alone is
		// dominated by the cheap shapes (a truncation that removes nothing, a clean without work)
		perShape := map[string]int{}
		sel := []*vkSysCand{}
		for i := range sysCands {
			c := &sysCands[i]
			if perShape[c.shape] < sysPerKind {
				perShape[c.shape]++
				sel = append(sel, c)
			}
		}
		stats["sys_shapes"] = len(perShape)
		stats["sys_operations"] = len(sel)
		cch := make(chan int)
		var cwg sync.WaitGroup
		for w := 0; w < par; w++ {
			cwg.Add(1)
			go func() {
				defer cwg.Done()
				for i := range cch {
					sel[i].sites, sel[i].err = vkCalibrate(sel[i].wlPath, sel[i].opIdx, root, i)
				}
			}()
		}
		for i := range sel {
			cch <- i
		}
		close(cch)
		cwg.Wait()
		// round-robin over the operations so that the budget is spread over all kinds
		nsys := 0
		for _, c := range sel {
			if c.err == nil {
				stats["sys_sites"] += len(c.sites)
			}
		}
		for round := 0; nsys < sysMax; round++ {
			any := false
			for _, c := range sel {
				if c.err != nil {
					if round == 0 {
						stats["infra"]++
						t.Logf("VERIF_NOTE wl=%d calibrate op %d: %v", c.wl.ID, c.opIdx, c.err)
					}
					continue
				}
				if round < len(c.sites) && nsys < sysMax {
					any = true
					nsys++
					tid++
					jobs = append(jobs, &vkCrashJob{tid: tid, wl: c.wl, point: "syscall", opIdx: c.opIdx, pre: c.pre,
						wlPath: c.wlPath, torn: -1, sysT: c.sites[round][0].(string), sysN: c.sites[round][1].(int)})
				}
			}
			if !any {
				break
			}
		}
	}

	// 2. crash runs, bounded pool
	ch := make(chan *vkCrashJob)
	var wg sync.WaitGroup
	for w := 0; w < par; w++ {
		wg.Add(1)
		go func() {
			defer wg.Done()
			for j := range ch {
				vkRunCrashJob(j, root)
			}
		}()
	}
	for _, j := range jobs {
		ch <- j
	}
	close(ch)
	wg.Wait()

	// 2b. second wave: for crash runs whose recovery passed crash points, the
	// recovering process is killed there as well (bounded by VERIF_DOUBLE_MAX)
	if dmax := vkEnvInt("VERIF_DOUBLE_MAX", 0); dmax > 0 {
		second := []*vkCrashJob{}
		seen2 := map[[20]byte]bool{}
		type cand struct {
			j    *vkCrashJob
			name string
			n    int
		}
		cands := []cand{}
		for _, j := range jobs {
			if j.note != "" || len(j.events) < 2 || j.rhits == nil || j.sysT != "" {
				continue
			}
			names := make([]string, 0, len(j.rhits))
			for name := range j.rhits {
				names = append(names, name)
			}
			sort.Strings(names)
			for _, name := range names {
				for n := 1; n <= j.rhits[name] && n <= maxOcc; n++ {
					cands = append(cands, cand{j, name, n})
				}
			}
		}
		// the budget goes to the rarer recovery point (epoch flush) first, then by occurrence
		sort.SliceStable(cands, func(a, b int) bool {
			ra, rb := cands[a].name != "epoch.before_flush", cands[b].name != "epoch.before_flush"
			if ra != rb {
				return !ra
			}
			return cands[a].n > cands[b].n
		})
		for _, c := range cands {
			// same crashed directory + same recovery crash site = same scenario
			kb, _ := json.Marshal([]interface{}{c.j.wl.Cfg, c.j.events[1].St.Fs, c.name, c.n})
			key := sha1.Sum(kb)
			if seen2[key] || len(second) >= dmax {
				stats["skipped_double"]++
				continue
			}
			seen2[key] = true
			tid++
			second = append(second, &vkCrashJob{tid: tid, wl: c.j.wl, point: c.j.point, global: c.j.global, opIdx: c.j.opIdx,
				local: c.j.local, pre: c.j.pre, wlPath: c.j.wlPath, torn: c.j.torn,
				rcs: []map[string]interface{}{{"p": c.name, "n": float64(c.n)}}})
		}
		ch2 := make(chan *vkCrashJob)
		var wg2 sync.WaitGroup
		for w := 0; w < par; w++ {
			wg2.Add(1)
			go func() {
				defer wg2.Done()
				for j := range ch2 {
					vkRunCrashJob(j, root)
				}
			}()
		}
		for _, j := range second {
			ch2 <- j
		}
		close(ch2)
		wg2.Wait()
		for _, j := range second {
			if j.note == "" {
				stats["double_crash_runs"]++
				stats["rpoint:"+vStr(j.rcs[0], "p")]++
			}
		}
		jobs = append(jobs, second...)
	}

	// 3. traces in job order
	for _, j := range jobs {
		if j.note != "" {
			key := j.note
			if i := strings.IndexByte(key, ':'); i > 0 {
				key = key[:i]
			}
			stats[key]++
			if key != "not_reached" {
				t.Logf("VERIF_NOTE wl=%d %s:%d %s", j.wl.ID, j.point, j.global, j.note)
			}
			continue
		}
		stats["crash_runs"]++
		stats["point:"+j.point]++
		if j.torn >= 0 {
			stats["torn_runs"]++
		}
		if j.sysT != "" {
			stats["sys_runs"]++
			stats["sys:"+j.sysT+":"+vStr(j.wl.Steps[j.opIdx], "a")]++
		}
		for _, e := range j.events {
			tw.Emit(e)
		}
	}
	sb, _ := json.Marshal(stats)
	fmt.Printf("VERIF_STATS %s\n", sb)
}
