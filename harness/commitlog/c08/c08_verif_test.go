//go:build verif

package commitlog

import "testing"

// TestVerifC08 replays Cleaner.tla behaviours (compaction, optionally with
// retention) on the real commit log; see ../cleaner_common_verif_test.go.
func TestVerifC08(t *testing.T) { vcRunCleaner(t) }
