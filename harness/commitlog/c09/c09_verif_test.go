//go:build verif

package commitlog

import "testing"

// TestVerifC09 replays Cleaner.tla behaviours (retention limits) on the real
// commit log; see ../cleaner_common_verif_test.go.
func TestVerifC09(t *testing.T) { vcRunCleaner(t) }
