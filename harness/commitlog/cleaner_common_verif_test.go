//go:build verif

package commitlog

// Lock-step replay of Cleaner.tla behaviours on the real commit log
// (properties C08 compaction and C09 retention).  Shared by
// harness/commitlog/c08 and harness/commitlog/c09.
//
// Every step is an intent (Append a batch, SetHW, Tick the mocked clock,
// Clean, CleanBegin .. CleanEnd with appends in between through the
// `clean.before_swap` gate, Reopen); it is executed against whatever state the
// real log is in and one ndjson line is written with the arguments, results,
// the projected abstract state after the call and, outside a pending clean, a
// full read-back: a fresh forward reader and a fresh reverse reader from every
// start offset (committed and uncommitted) and timestamp look-ups.  The
// verdict is taken by TLC (Trace_Cleaner.tla).

import (
	"context"
	"fmt"
	"io"
	"os"
	"testing"
	"time"
)

type vcRd struct {
	Alive  bool  `json:"alive"`
	C      bool  `json:"c"`
	Next   int64 `json:"next"`
	Parked bool  `json:"parked"`
	Base   int64 `json:"base"`
}

type vcLogCfg struct {
	MaxBytes int64 `json:"maxBytes"`
	Occ      bool  `json:"occ"`
}

type vcCleanCfg struct {
	Age     int64 `json:"age"`
	Msgs    int64 `json:"msgs"`
	Bytes   int64 `json:"bytes"`
	Compact bool  `json:"compact"`
	Workers int64 `json:"workers"`
}

type vcState struct {
	Cfg    vcLogCfg        `json:"cfg"`
	Log    []vRec          `json:"log"`
	Segs   []vSeg          `json:"segs"`
	HW     int64           `json:"hw"`
	Epochs []vEpoch        `json:"epochs"`
	Ro     bool            `json:"ro"`
	Rd     map[string]vcRd `json:"rd"`
	Cc     vcCleanCfg      `json:"cc"`
	Now    int64           `json:"now"`
}

type vcObs struct {
	A   string      `json:"a"`
	Ret interface{} `json:"ret"` // offsets ([]int64); fingerprints ([]string) for Drain
	Err string      `json:"err"`
}

// vcRead is one read-back: a fresh reader started at S (committed if C),
// forwards or backwards, drained.
type vcRead struct {
	S    int64    `json:"s"`
	C    bool     `json:"c"`
	Kind string   `json:"kind"`
	Fps  []string `json:"fps"`
}

// vcTsLookup is one pair of timestamp look-ups.
type vcTsLookup struct {
	T    int64  `json:"t"`
	E    int64  `json:"e"`    // EarliestOffsetAfterTimestamp
	EErr string `json:"eerr"` // "" | error text
	L    int64  `json:"l"`    // LatestOffsetBeforeTimestamp
	LErr string `json:"lerr"`
}

type vcEvent struct {
	T    int                    `json:"t"`
	A    string                 `json:"a"`
	Args map[string]interface{} `json:"args"`
	St   vcState                `json:"st"`
	Obs  vcObs                  `json:"obs"`
	Win  bool                   `json:"win"` // a clean is between snapshot and swap
	Rb   []vcRead               `json:"rb"`  // forward read-backs
	Rv   []vcRead               `json:"rv"`  // reverse read-backs
	Tl   []vcTsLookup           `json:"tl"`
}

type vcPending struct {
	done    chan error
	release chan struct{}
	preLog  []vRec // the log as observed just before the snapshot
	base    int64  // base offset of the active segment at that moment
}

type vcRun struct {
	t    *testing.T
	dir  string
	cfg  vcLogCfg
	cc   vcCleanCfg
	now  int64
	l    *commitLog
	pend *vcPending
	// a clean failed (injected deletion error) and was not retried successfully yet:
	// the segment list still names closed segments, as inside the window of a clean
	dirty *vcPending
	// persistent readers (kept across cleans)
	readers map[string]*Reader
	rd      map[string]vcRd
	// persistent reverse readers (kept across cleans, also created inside the window)
	revs map[string]*ReverseReader
}

// the mocked clock read by computeTTL and the gate used by the run in progress
var (
	vcNow     int64
	vcArrived chan struct{}
	vcRelease chan struct{}
)

const vcDeadline = 60 * time.Second

func (r *vcRun) open() {
	opts := vOpts(r.dir, r.cfg.MaxBytes, r.cfg.Occ)
	opts.MaxLogAge = time.Duration(r.cc.Age)
	opts.MaxLogMessages = r.cc.Msgs
	opts.MaxLogBytes = r.cc.Bytes
	opts.Compact = r.cc.Compact
	opts.CompactMaxGoroutines = int(r.cc.Workers)
	cl, err := New(opts)
	if err != nil {
		r.t.Fatalf("open commit log: %v", err)
	}
	r.l = cl.(*commitLog)
	r.readers = map[string]*Reader{}
	r.revs = map[string]*ReverseReader{}
	r.rd = map[string]vcRd{"r1": {}, "r2": {}}
}

// scanLog is the content of the log as an uncommitted reader sees it from the
// very beginning.  While a clean is between snapshot and swap the segment
// list still names the old (closed) segments, so the part below the active
// segment of the snapshot is what was observed just before the snapshot and
// only the rest is read now.
func (r *vcRun) scanLog() []vRec {
	p := r.pend
	if p == nil {
		p = r.dirty
	}
	if p == nil {
		return vScanAll(r.l)
	}
	out := []vRec{}
	for _, x := range p.preLog {
		if x.Off < p.base {
			out = append(out, x)
		}
	}
	res := vReadFrom(r.l, p.base, false)
	return append(out, res.Recs...)
}

func (r *vcRun) state() vcState {
	return vcState{
		Cfg:    r.cfg,
		Log:    r.scanLog(),
		Segs:   vSegs(r.l),
		HW:     r.l.HighWatermark(),
		Epochs: vEpochs(r.l),
		Ro:     r.l.IsReadonly(),
		Rd:     map[string]vcRd{"r1": r.rd["r1"], "r2": r.rd["r2"]},
		Cc:     r.cc,
		Now:    r.now,
	}
}

func vcFpsOf(res vReadResult) []string {
	if res.Recs == nil {
		return []string{}
	}
	return vFps(res.Recs)
}

func (r *vcRun) readBacks(st vcState) (fwd, rev []vcRead, tl []vcTsLookup) {
	fwd, rev, tl = []vcRead{}, []vcRead{}, []vcTsLookup{}
	newest, oldest := int64(-1), int64(-1)
	if n := len(st.Log); n > 0 {
		newest, oldest = st.Log[n-1].Off, st.Log[0].Off
	}
	hi := newest + 2
	if hi > 24 {
		hi = 24
	}
	// a committed forward reader is only meaningful when the HW is inside the
	// retained log (what it does below the oldest offset is not C08/C09)
	committedOK := len(st.Log) == 0 || oldest <= st.HW
	for s := int64(-1); s <= hi; s++ {
		for _, c := range []bool{false, true} {
			if !c || (s >= 0 && committedOK) {
				res := vReadFrom(r.l, s, c)
				fwd = append(fwd, vcRead{S: s, C: c, Kind: res.Kind, Fps: vcFpsOf(res)})
			}
			res := vReadReverse(r.l, s, c)
			rev = append(rev, vcRead{S: s, C: c, Kind: res.Kind, Fps: vcFpsOf(res)})
		}
	}
	// timestamp look-ups at, between and outside the timestamps present
	seen := map[int64]bool{}
	for _, x := range st.Log {
		for _, t := range []int64{x.Ts - 1, x.Ts, x.Ts + 1} {
			if !seen[t] && len(seen) < 40 {
				seen[t] = true
				tl = append(tl, r.tsLookup(t))
			}
		}
	}
	return fwd, rev, tl
}

func (r *vcRun) tsLookup(t int64) (out vcTsLookup) {
	out.T = t
	func() {
		defer func() {
			if p := recover(); p != nil {
				out.EErr = fmt.Sprintf("panic:%v", p)
			}
		}()
		o, err := r.l.EarliestOffsetAfterTimestamp(t)
		out.E = o
		if err != nil {
			out.EErr = err.Error()
		}
	}()
	func() {
		defer func() {
			if p := recover(); p != nil {
				out.LErr = fmt.Sprintf("panic:%v", p)
			}
		}()
		o, err := r.l.LatestOffsetBeforeTimestamp(t)
		out.L = o
		if err != nil {
			out.LErr = err.Error()
		}
	}()
	return out
}

func vcErrClass(err error) string {
	switch err {
	case nil:
		return ""
	case ErrCommitLogReadonly:
		return "readonly"
	case ErrIncorrectOffset:
		return "incorrect_offset"
	}
	return "other:" + err.Error()
}

func vcFpAt(log []vRec, off int64) string {
	for _, r := range log {
		if r.Off == off {
			return r.Fp
		}
	}
	return ""
}

func (r *vcRun) bounds() []int64 {
	return []int64{r.l.OldestOffset(), r.l.NewestOffset()}
}

// cleanBegin starts Clean() in a goroutine and waits until it is parked at the
// gate between its snapshot and the swap (or has returned early).
func (r *vcRun) cleanBegin(obs *vcObs) {
	p := &vcPending{done: make(chan error, 1), release: make(chan struct{}), preLog: vScanAll(r.l)}
	segs := r.l.Segments()
	p.base = segs[len(segs)-1].BaseOffset
	vcArrived = make(chan struct{}, 1)
	vcRelease = p.release
	l := r.l
	go func() {
		defer func() {
			if x := recover(); x != nil {
				p.done <- fmt.Errorf("panic:%v", x)
			}
		}()
		p.done <- l.Clean()
	}()
	select {
	case <-vcArrived:
		r.pend = p
	case err := <-p.done:
		// Clean returned before the swap (error in retention/compaction)
		vcRelease = nil
		obs.Err = "early:" + vcErrClass(err)
	case <-time.After(vcDeadline):
		r.t.Fatalf("INCONCLUSIVE: Clean() did not reach the gate clean.before_swap")
	}
}

func (r *vcRun) cleanEnd(obs *vcObs) {
	p := r.pend
	vcRelease = nil
	close(p.release)
	select {
	case err := <-p.done:
		obs.Err = vcErrClass(err)
	case <-time.After(vcDeadline):
		r.t.Fatalf("INCONCLUSIVE: Clean() did not return after the gate was released")
	}
	r.pend = nil
	obs.Ret = r.bounds()
}

func (r *vcRun) step(id int, step map[string]interface{}) vcEvent {
	var (
		a    = vStr(step, "a")
		args = map[string]interface{}{}
		obs  = vcObs{A: a, Ret: []int64{}}
		recs []vArgRec
		fps  []string // what a Drain delivered
	)
	func() {
		defer func() {
			if p := recover(); p != nil {
				obs.Err = fmt.Sprintf("panic:%v", p)
			}
		}()
		switch a {
		case "Append":
			msgs := []*Message{}
			for _, sr := range vList(step, "recs") {
				m, ar := vBuildMsg(sr)
				msgs = append(msgs, m)
				recs = append(recs, ar)
			}
			offs, err := r.l.Append(msgs)
			obs.Err = vcErrClass(err)
			if offs != nil {
				obs.Ret = offs
			}
			if err == nil {
				// the mocked clock is never behind the newest timestamp appended
				for _, m := range msgs {
					if m.Timestamp > r.now {
						r.now = m.Timestamp
					}
				}
				vcNow = r.now
			}
		case "SetHW":
			h := vInt(step, "h")
			args["h"] = h
			r.l.SetHighWatermark(h)
		case "NewLeaderEpoch":
			e := vInt(step, "e")
			args["e"] = e
			obs.Err = vcErrClass(r.l.NewLeaderEpoch(uint64(e)))
		case "Tick":
			d := vInt(step, "d")
			args["d"] = d
			r.now += d
			vcNow = r.now
		case "Clean":
			if r.pend != nil {
				obs.A, a = "Skip", "Skip"
				return
			}
			obs.Err = vcErrClass(r.l.Clean())
			if obs.Err == "" {
				r.dirty = nil
				obs.Ret = r.bounds()
			}
		case "CleanFail":
			// Clean() with a transient I/O error: the file handle of the k-th segment is
			// closed behind its back, so closing (hence deleting) that segment fails once;
			// the handle is repaired as soon as Clean() has returned
			k := vInt(step, "k")
			args["k"] = k
			segs := r.l.Segments()
			if r.pend != nil || r.dirty != nil || k < 1 || int(k) >= len(segs) {
				obs.A, a = "Skip", "Skip"
				return
			}
			before := &vcPending{preLog: vScanAll(r.l), base: segs[len(segs)-1].BaseOffset}
			seg := segs[k-1]
			seg.log.Close()
			err := r.l.Clean()
			seg.Lock()
			if f, e := os.OpenFile(seg.logPath(), os.O_RDWR|os.O_APPEND, 0644); e == nil {
				seg.log, seg.writer, seg.reader = f, f, f
			}
			seg.Unlock()
			if err == nil {
				// the segment was not doomed: an ordinary clean
				obs.A, a = "Clean", "Clean"
				obs.Ret = r.bounds()
			} else {
				obs.Err = "delete-failed"
				r.dirty = before
			}
		case "CleanBegin":
			if r.pend != nil {
				obs.A, a = "Skip", "Skip"
				return
			}
			r.cleanBegin(&obs)
		case "CleanEnd":
			if r.pend == nil {
				obs.A, a = "Skip", "Skip"
				return
			}
			r.cleanEnd(&obs)
		case "NewReader":
			name, s, c := vStr(step, "r"), vInt(step, "s"), vBool(step, "c")
			args["r"], args["s"], args["c"] = name, s, c
			if r.pend != nil {
				obs.A, a = "Skip", "Skip"
				return
			}
			// documented contract: a committed reader beyond the HW (or on an
			// empty log) waits; observed before the call, not predicted
			hwNow := r.l.HighWatermark()
			parked := c && (s > hwNow || r.l.OldestOffset() == -1)
			base := s
			if parked {
				base = hwNow + 1
			}
			rdr, err := r.l.NewReader(s, !c)
			if err != nil {
				obs.Err = "reader"
				r.rd[name] = vcRd{}
				delete(r.readers, name)
			} else {
				r.readers[name] = rdr
				r.rd[name] = vcRd{Alive: true, C: c, Next: s, Parked: parked, Base: base}
			}
		case "Drain":
			name := vStr(step, "r")
			args["r"] = name
			rdr, ok := r.readers[name]
			if !ok || r.pend != nil {
				obs.A, a = "Skip", "Skip"
				return
			}
			got, e := vDrain(rdr)
			for _, x := range got {
				fps = append(fps, x.Fp)
			}
			if e != "" {
				// a reader that failed is not used again
				obs.Err = e
				delete(r.readers, name)
				r.rd[name] = vcRd{}
			}
			if len(got) > 0 {
				st := r.rd[name]
				st.Next = got[len(got)-1].Off + 1
				st.Parked = false
				r.rd[name] = st
			}
		case "NewRev":
			name, s, c := vStr(step, "r"), vInt(step, "s"), vBool(step, "c")
			args["r"], args["s"], args["c"] = name, s, c
			rdr, err := r.l.NewReverseReader(s, !c)
			if err != nil {
				obs.Err = "reader"
				delete(r.revs, name)
			} else {
				r.revs[name] = rdr
			}
		case "RevRead":
			name, all := vStr(step, "r"), vBool(step, "all")
			args["r"], args["all"] = name, all
			rdr, ok := r.revs[name]
			if !ok {
				obs.A, a = "Skip", "Skip"
				return
			}
			fps = []string{}
			headers := make([]byte, msgSetHeaderLen)
			for i := 0; i < vMaxRead; i++ {
				m, off, ts, ep, err := rdr.ReadMessage(context.Background(), headers)
				if err != nil {
					// the reader is finished: end of the log or an explicit error
					delete(r.revs, name)
					switch err {
					case io.EOF:
					case ErrSegmentReplaced, ErrSegmentClosed:
						obs.Err = "dead"
					default:
						obs.Err = "other:" + err.Error()
					}
					break
				}
				fps = append(fps, vDecode(m, off, ts, ep).Fp)
				if !all {
					break
				}
			}
		case "Reopen":
			if r.pend != nil {
				obs.A, a = "Skip", "Skip"
				return
			}
			if err := r.l.Close(); err != nil {
				obs.Err = vcErrClass(err)
			}
			r.open()
		default:
			r.t.Fatalf("unknown action %q", a)
		}
	}()
	st := r.state()
	if recs != nil {
		offs, _ := obs.Ret.([]int64)
		for i := range recs {
			if i < len(offs) {
				recs[i].Fp = vcFpAt(st.Log, offs[i])
			}
		}
		args["recs"] = recs
	}
	if a == "Drain" || a == "RevRead" {
		if fps == nil {
			fps = []string{}
		}
		obs.Ret = fps
	}
	ev := vcEvent{T: id, A: a, Args: args, St: st, Obs: obs, Win: r.pend != nil || r.dirty != nil,
		Rb: []vcRead{}, Rv: []vcRead{}, Tl: []vcTsLookup{}}
	if r.pend == nil && r.dirty == nil {
		ev.Rb, ev.Rv, ev.Tl = r.readBacks(st)
	}
	return ev
}

func vcRunCleaner(t *testing.T) {
	sf := vLoadStimuli(t)
	tw := vOpenTrace(t)
	defer tw.Close()
	ttlBefore, gateBefore := computeTTL, VerifGateHook
	defer func() { computeTTL, VerifGateHook = ttlBefore, gateBefore }()
	computeTTL = func(age time.Duration) int64 { return vcNow - int64(age) }
	VerifGateHook = func(name string) {
		if name != "clean.before_swap" {
			return
		}
		if rel := vcRelease; rel != nil {
			vcArrived <- struct{}{}
			<-rel
		}
	}
	for _, b := range sf.Behaviours {
		run := &vcRun{
			t:   t,
			dir: vTempDir(t),
			cfg: vcLogCfg{MaxBytes: vInt(b.Cfg, "maxBytes"), Occ: vBool(b.Cfg, "occ")},
			cc: vcCleanCfg{Age: vIntDef(b.Cfg, "age", 0), Msgs: vIntDef(b.Cfg, "msgs", 0),
				Bytes: vIntDef(b.Cfg, "bytes", 0), Compact: vBool(b.Cfg, "compact"),
				Workers: vIntDef(b.Cfg, "workers", 1)},
			now: vIntDef(b.Cfg, "now", 10),
		}
		vcNow = run.now
		run.open()
		st := run.state()
		fwd, rev, tl := run.readBacks(st)
		tw.Emit(vcEvent{T: b.ID, A: "Open", Args: map[string]interface{}{}, St: st,
			Obs: vcObs{A: "Open", Ret: []int64{}}, Rb: fwd, Rv: rev, Tl: tl})
		for _, step := range b.Steps {
			tw.Emit(run.step(b.ID, step))
		}
		if run.pend != nil {
			// never leave Clean() parked
			var o vcObs
			run.cleanEnd(&o)
		}
		run.l.Close()
		os.RemoveAll(run.dir)
	}
}
