//go:build verif

package commitlog

// Gate-driven replay of Reader.tla behaviours on the real commit log
// (property C03) and a stress run with real schedules.
//
// Gated replay: every model process (appender, roller = the cleaner loop's
// checkAndPerformSplit, read-only toggler, committed readers r1/r2) is a
// goroutine of the real code.  A goroutine parks at every `verifGate` point;
// the driver releases exactly one goroutine per step, in the order of the
// TLC behaviour, and waits until it stops again (next gate, registered HW
// waiter, or call returned).  After every step the abstract state is projected
// from the real data structures and written as one ndjson line.  The driver
// never judges: the verdict is taken by TLC (Trace_Reader.tla).

import (
	"context"
	"fmt"
	"os"
	"runtime"
	"sort"
	"strconv"
	"strings"
	"sync"
	"sync/atomic"
	"testing"
	"time"

	pkgErrors "github.com/pkg/errors"
)

// ---- goroutine identity -----------------------------------------------------

func v3Goid() int64 {
	var buf [64]byte
	n := runtime.Stack(buf[:], false)
	// "goroutine 123 [running]:"
	f := strings.Fields(string(buf[:n]))
	if len(f) < 2 {
		return -1
	}
	id, err := strconv.ParseInt(f[1], 10, 64)
	if err != nil {
		return -1
	}
	return id
}

// ---- controller -------------------------------------------------------------

type v3Event struct {
	gate string // non-empty: parked at this gate
	ret  bool   // call returned
	off  int64  // delivered offset (readers), appended offset (appender)
	err  string // error class of the returned call
}

type v3Proc struct {
	name       string
	ev         chan v3Event
	release    chan struct{}
	at         string // gate where parked, "blocked", "" = idle/ended
	readStarts int
	rdr        *Reader
	start      int64
	ended      string // "", "rodone", "dead"
	err        string
	res        string // appender: result of the last Append
	busy       bool   // an API call of this process is in flight
	h          int64  // readers: the HW the goroutine loaded before it reached reader.before_resync
	gid        int64  // goroutine id of the process' goroutine
	lostSeen   int    // consecutive observations "asleep in waitForHW, not a registered waiter"
}

type v3Ctl struct {
	t      *testing.T
	l      *commitLog
	mu     sync.Mutex
	byGid  map[int64]*v3Proc
	free   int32 // 1: all gates open (quiescing / stress)
	procs  map[string]*v3Proc
	segIdx map[*segment]int
	segs   []*segment
	del    map[string][]int64
	ctx    context.Context
	cancel context.CancelFunc
	wg     sync.WaitGroup
	cap    int64
	unit   int64
	atomic bool
	nmsg   int64
	fail   string // infrastructure trouble (timeout): reported, never judged
}

var v3Current atomic.Pointer[v3Ctl]

func v3Hook(name string) {
	c := v3Current.Load()
	if c == nil {
		return
	}
	c.hook(name)
}

func (c *v3Ctl) lookup() *v3Proc {
	gid := v3Goid()
	c.mu.Lock()
	defer c.mu.Unlock()
	return c.byGid[gid]
}

func (c *v3Ctl) register(p *v3Proc) {
	gid := v3Goid()
	c.mu.Lock()
	c.byGid[gid] = p
	p.gid = gid
	c.mu.Unlock()
}

func (c *v3Ctl) unregister() {
	gid := v3Goid()
	c.mu.Lock()
	delete(c.byGid, gid)
	c.mu.Unlock()
}

func (c *v3Ctl) hook(name string) {
	p := c.lookup()
	if p == nil {
		return
	}
	if atomic.LoadInt32(&c.free) == 1 {
		return
	}
	if name == "reader.read_start" {
		// ReadMessage = Read(header) + Read(body): only the first is a step
		p.readStarts++
		if p.readStarts > 1 {
			return
		}
	}
	if name == "split.after_cas" {
		// If the splitting goroutine holds the log lock here, CAS and list
		// append are one critical section: not a scheduling point.
		if !c.l.mu.TryLock() {
			return
		}
		c.l.mu.Unlock()
	}
	if strings.HasPrefix(name, "clean.") {
		return
	}
	if _, known := v3PcOfGate[name]; !known {
		// gates of other checks' pc models (X05: append.after_layout, ...)
		return
	}
	p.ev <- v3Event{gate: name}
	<-p.release
}

const v3Deadline = 20 * time.Second

func (c *v3Ctl) registered(p *v3Proc) bool {
	if p.rdr == nil {
		return false
	}
	c.l.mu.RLock()
	_, ok := c.l.hwWaiters[p.rdr.ctxReader]
	c.l.mu.RUnlock()
	return ok
}

// v3Asleep reports whether goroutine gid is parked (status "select": no case
// was ready when it got there, it is not runnable) in the select statement of
// committedReader.waitForHW.  This is the scheduler's state of the goroutine,
// read from the goroutine dump - not a time-out.
func v3Asleep(gid int64) bool {
	if gid <= 0 {
		return false
	}
	buf := make([]byte, 1<<16)
	for {
		n := runtime.Stack(buf, true)
		if n < len(buf) {
			buf = buf[:n]
			break
		}
		buf = make([]byte, 2*len(buf))
	}
	head := fmt.Sprintf("goroutine %d [", gid)
	for _, blk := range strings.Split(string(buf), "\n\n") {
		if !strings.HasPrefix(blk, head) {
			continue
		}
		status := blk[len(head):]
		if i := strings.IndexByte(status, ']'); i >= 0 {
			status = status[:i]
		}
		return strings.HasPrefix(status, "select") && strings.Contains(blk, "(*committedReader).waitForHW")
	}
	return false
}

// sleepsUnregistered: the reader's goroutine sleeps in waitForHW on a channel
// that is not in hwWaiters (and carries no value: it would not sleep).  Nobody
// can wake it except the cancellation of its context.  The wakers send on the
// channel first (the goroutine becomes runnable) and delete the entry second,
// and nobody but the stepped goroutine runs while the driver waits, so on
// code that registers every sleeper this is never observed; it must be
// observed twice in a row all the same.
func (c *v3Ctl) sleepsUnregistered(p *v3Proc) bool {
	if p.rdr == nil || c.registered(p) || !v3Asleep(p.gid) || c.registered(p) || len(p.ev) != 0 {
		p.lostSeen = 0
		return false
	}
	p.lostSeen++
	return p.lostSeen >= 2
}

// waitStop waits until the goroutine of p stops: parked at a gate, registered
// as HW waiter (or asleep in waitForHW without being registered: "blocked"
// as well, the projection of hwWaiters tells the two apart), or returned for
// good.
func (c *v3Ctl) waitStop(p *v3Proc) {
	deadline := time.Now().Add(v3Deadline)
	p.lostSeen = 0
	for tick := 1; ; tick++ {
		select {
		case ev := <-p.ev:
			if ev.gate != "" {
				p.at = ev.gate
				if ev.gate == "reader.before_resync" {
					// the local variable `hw` of the reader is not reachable;
					// nothing ran since it was loaded, so this is its value
					p.h = c.l.HighWatermark()
				}
				return
			}
			// call returned
			if p.rdr != nil {
				if ev.err == "" {
					c.del[p.name] = append(c.del[p.name], ev.off)
					continue // the goroutine calls ReadMessage again
				}
				p.at = ""
				if ev.err == "readonly" {
					p.ended = "rodone"
				} else {
					p.ended, p.err = "dead", ev.err
				}
				return
			}
			p.at = ""
			p.busy = false
			p.res = ev.err
			if ev.err == "" {
				p.res = "ok"
			}
			return
		case <-time.After(200 * time.Microsecond):
			if p.rdr != nil && c.registered(p) {
				p.at = "blocked"
				return
			}
			if tick%8 == 0 && c.sleepsUnregistered(p) {
				p.at = "blocked"
				return
			}
			if time.Now().After(deadline) {
				c.fail = "timeout waiting for " + p.name
				return
			}
		}
	}
}

func (c *v3Ctl) step(p *v3Proc) {
	p.at = ""
	p.release <- struct{}{}
	c.waitStop(p)
}

// settle: readers that were blocked and got notified run on by themselves to
// their next stop.
func (c *v3Ctl) settle() {
	for _, n := range []string{"r1", "r2"} {
		p := c.procs[n]
		if p != nil && p.at == "blocked" && !c.registered(p) {
			p.at = ""
			c.waitStop(p)
		}
	}
}

func v3ErrClass(err error) string {
	if err == nil {
		return ""
	}
	cause := pkgErrors.Cause(err)
	switch {
	case cause == ErrCommitLogReadonly:
		return "readonly"
	case cause == ErrSegmentNotFound:
		return "notfound"
	case cause == ErrIncorrectOffset:
		return "incorrect_offset"
	case strings.Contains(err.Error(), "no segment to consume"):
		return "noseg"
	case strings.Contains(err.Error(), "EOF"):
		return "cancelled"
	}
	return "other:" + err.Error()
}

func (c *v3Ctl) spawn(p *v3Proc, call func() v3Event) {
	p.busy = true
	c.wg.Add(1)
	go func() {
		defer c.wg.Done()
		c.register(p)
		defer c.unregister()
		ev := call()
		ev.ret = true
		select {
		case p.ev <- ev:
		case <-c.ctx.Done():
		}
	}()
}

func (c *v3Ctl) msg() *Message {
	c.nmsg++
	return &Message{MagicByte: 2, Value: []byte(fmt.Sprintf("m%07d", c.nmsg)), Timestamp: c.nmsg, LeaderEpoch: 1, Offset: -1}
}

func (c *v3Ctl) spawnReader(p *v3Proc) {
	c.wg.Add(1)
	go func() {
		defer c.wg.Done()
		c.register(p)
		defer c.unregister()
		headers := make([]byte, msgSetHeaderLen)
		for {
			p.readStarts = 0
			ev := func() (ev v3Event) {
				defer func() {
					if x := recover(); x != nil {
						ev = v3Event{err: "panic"}
					}
				}()
				_, off, _, _, err := p.rdr.ReadMessage(c.ctx, headers)
				return v3Event{off: off, err: v3ErrClass(err)}
			}()
			ev.ret = true
			select {
			case p.ev <- ev:
			case <-c.ctx.Done():
				return
			}
			if ev.err != "" {
				return
			}
		}
	}()
}

// ---- projection -------------------------------------------------------------

type v3Seg struct {
	Base int64 `json:"base"`
	N    int64 `json:"n"`
}

type v3Rd struct {
	Pc    string `json:"pc"`
	Seg   int    `json:"seg"`
	Pos   int64  `json:"pos"`
	HwSeg int    `json:"hwSeg"`
	HwPos int64  `json:"hwPos"`
	Rhw   int64  `json:"rhw"`
	H     int64  `json:"h"`
	Park  bool   `json:"park"`
	Start int64  `json:"start"`
	Err   string `json:"err"`
}

type v3App struct {
	Pc  string `json:"pc"`
	New int    `json:"new"`
	Res string `json:"res"`
}

type v3Rol struct {
	Pc  string `json:"pc"`
	New int    `json:"new"`
}

type v3Tog struct {
	Pc string `json:"pc"`
}

type v3Cfg struct {
	Cap    int64 `json:"cap"`
	Atomic bool  `json:"atomic"`
}

type v3State struct {
	Cfg    v3Cfg              `json:"cfg"`
	Segs   []v3Seg            `json:"segs"`
	Active int                `json:"active"`
	Listed []int              `json:"listed"`
	HW     int64              `json:"hw"`
	Ro     bool               `json:"ro"`
	Wait   []string           `json:"wait"`
	App    v3App              `json:"app"`
	Rol    v3Rol              `json:"rol"`
	Tog    v3Tog              `json:"tog"`
	Rd     map[string]v3Rd    `json:"rd"`
	Del    map[string][]int64 `json:"del"`
}

type v3Line struct {
	T    int                    `json:"t"`
	A    string                 `json:"a"`
	Args map[string]interface{} `json:"args"`
	St   v3State                `json:"st"`
	Note string                 `json:"note"`
}

func (c *v3Ctl) segIndex(s *segment) int {
	if s == nil {
		return 0
	}
	if i, ok := c.segIdx[s]; ok {
		return i
	}
	c.segs = append(c.segs, s)
	c.segIdx[s] = len(c.segs)
	return len(c.segs)
}

var v3PcOfGate = map[string]string{
	"reader.read_start":         "start",
	"reader.before_load_hw":     "load",
	"reader.after_wait_hw":      "load",
	"reader.before_wait_hw":     "gate",
	"reader.before_resync":      "sync",
	"blocked":                   "blocked",
	"append.before_split_check": "chk",
	"split.after_cas":           "list",
	"append.before_write":       "wr",
	"setreadonly.before_notify": "notify",
}

func v3Pc(at string) string {
	if at == "" {
		return "idle"
	}
	if pc, ok := v3PcOfGate[at]; ok {
		return pc
	}
	return "?" + at
}

func (c *v3Ctl) recs(bytes int64) int64 {
	if bytes < 0 {
		return -1
	}
	if bytes%c.unit != 0 {
		return -1000 - bytes
	}
	return bytes / c.unit
}

func (c *v3Ctl) project() v3State {
	l := c.l
	l.mu.RLock()
	listed := append([]*segment{}, l.segments...)
	hw := l.hw
	l.mu.RUnlock()
	// registry in creation order: listed segments first seen, then the active one
	st := v3State{Cfg: v3Cfg{Cap: c.cap, Atomic: c.atomic}, HW: hw, Ro: l.IsReadonly(),
		Listed: []int{}, Wait: []string{}, Rd: map[string]v3Rd{}, Del: map[string][]int64{}}
	act := l.activeSegment()
	// a segment is created (and becomes active) before it is listed
	known := false
	for _, s := range listed {
		if s == act {
			known = true
		}
	}
	if !known {
		// keep creation order: every listed segment that is older than the
		// active one was registered before
		for _, s := range listed {
			if s.BaseOffset < act.BaseOffset {
				c.segIndex(s)
			}
		}
		c.segIndex(act)
	}
	for _, s := range listed {
		st.Listed = append(st.Listed, c.segIndex(s))
	}
	st.Active = c.segIndex(act)
	for _, s := range c.segs {
		st.Segs = append(st.Segs, v3Seg{Base: s.BaseOffset, N: s.NextOffset() - s.BaseOffset})
	}
	app, rol, tog := c.procs["app"], c.procs["rol"], c.procs["tog"]
	st.App = v3App{Pc: v3Pc(app.at), Res: app.res}
	if st.App.Pc == "list" {
		st.App.New = st.Active
	}
	st.Rol = v3Rol{Pc: v3Pc(rol.at)}
	if st.Rol.Pc == "list" {
		st.Rol.New = st.Active
	}
	st.Tog = v3Tog{Pc: v3Pc(tog.at)}
	for _, n := range []string{"r1", "r2"} {
		p := c.procs[n]
		st.Del[n] = append([]int64{}, c.del[n]...)
		if p == nil {
			st.Rd[n] = v3Rd{Pc: "none", Pos: -1, HwPos: -1, Rhw: -1, H: -1, Start: -1}
			continue
		}
		r := v3Rd{Start: p.start, Err: p.err, H: -1, Pos: -1, HwPos: -1, Rhw: -1}
		switch {
		case p.ended != "":
			r.Pc = p.ended
		default:
			r.Pc = v3Pc(p.at)
		}
		if p.rdr != nil {
			if cr, ok := p.rdr.ctxReader.(*committedReader); ok && cr != nil {
				r.Seg, r.HwSeg = c.segIndex(cr.seg), c.segIndex(cr.hwSeg)
				r.Pos, r.HwPos, r.Rhw = c.recs(cr.pos), c.recs(cr.hwPos), cr.hw
				r.Park = cr.seg == nil
				switch r.Pc {
				case "gate":
					r.H = cr.hw
				case "sync":
					r.H = p.h
				}
				if c.registered(p) {
					st.Wait = append(st.Wait, n)
				}
			}
		}
		st.Rd[n] = r
	}
	sort.Strings(st.Wait)
	return st
}

// ---- one behaviour ------------------------------------------------------------

func v3NewCtl(t *testing.T, capRecs int64, atomicMode bool) *v3Ctl {
	c := &v3Ctl{t: t, byGid: map[int64]*v3Proc{}, procs: map[string]*v3Proc{}, segIdx: map[*segment]int{},
		del: map[string][]int64{"r1": {}, "r2": {}}, cap: capRecs, atomic: atomicMode}
	probe := &Message{MagicByte: 2, Value: []byte("m0000000"), Timestamp: 1, LeaderEpoch: 1, Offset: -1}
	ms, _, err := newMessageSetFromProto(0, 0, []*Message{probe}, false)
	if err != nil {
		t.Fatalf("probe message: %v", err)
	}
	c.unit = int64(len(ms))
	c.ctx, c.cancel = context.WithCancel(context.Background())
	for _, n := range []string{"app", "rol", "tog"} {
		c.procs[n] = &v3Proc{name: n, ev: make(chan v3Event, 4), release: make(chan struct{}, 1)}
	}
	return c
}

func (c *v3Ctl) open(dir string) {
	cl, err := New(vOpts(dir, c.cap*c.unit, false))
	if err != nil {
		c.t.Fatalf("open commit log: %v", err)
	}
	c.l = cl.(*commitLog)
	c.segIndex(c.l.activeSegment())
}

// quiesce opens every gate and waits until nothing but blocked readers is left.
func (c *v3Ctl) quiesce() {
	atomic.StoreInt32(&c.free, 1)
	for _, p := range c.procs {
		if p == nil {
			continue
		}
		if p.at != "" && p.at != "blocked" {
			p.release <- struct{}{}
		}
		p.at = ""
	}
	deadline := time.Now().Add(v3Deadline)
	for _, n := range []string{"app", "rol", "tog", "r1", "r2"} {
		p := c.procs[n]
		if p == nil || p.ended != "" || (p.rdr == nil && !p.busy) {
			continue
		}
		p.lostSeen = 0
		for stopped, tick := false, 1; !stopped; tick++ {
			select {
			case ev := <-p.ev:
				switch {
				case ev.gate != "":
					// a gate reached just before the gates were opened
					p.release <- struct{}{}
				case p.rdr != nil && ev.err == "":
					c.del[p.name] = append(c.del[p.name], ev.off)
				case p.rdr != nil:
					if ev.err == "readonly" {
						p.ended = "rodone"
					} else {
						p.ended, p.err = "dead", ev.err
					}
					stopped = true
				default:
					p.busy = false
					p.res = ev.err
					if ev.err == "" {
						p.res = "ok"
					}
					stopped = true
				}
			case <-time.After(500 * time.Microsecond):
				if p.rdr != nil && c.registered(p) && len(p.ev) == 0 {
					p.at = "blocked"
					stopped = true
				} else if tick%8 == 0 && c.sleepsUnregistered(p) {
					p.at = "blocked"
					stopped = true
				} else if time.Now().After(deadline) {
					c.fail = "timeout quiescing " + p.name
					stopped = true
				}
			}
		}
	}
}

func (c *v3Ctl) close(dir string) {
	atomic.StoreInt32(&c.free, 1)
	c.cancel()
	for _, p := range c.procs {
		if p != nil {
			select {
			case p.release <- struct{}{}:
			default:
			}
		}
	}
	done := make(chan struct{})
	go func() { c.wg.Wait(); close(done) }()
	select {
	case <-done:
	case <-time.After(v3Deadline):
		c.t.Logf("goroutines did not exit")
	}
	c.l.Close()
	os.RemoveAll(dir)
}

func (c *v3Ctl) newReader(name string, s int64) {
	p := &v3Proc{name: name, ev: make(chan v3Event, 4), release: make(chan struct{}, 1), start: s}
	c.procs[name] = p
	rdr, err := c.l.NewReader(s, false)
	if err != nil {
		p.ended, p.err = "dead", v3ErrClass(err)
		return
	}
	p.rdr = rdr
	c.spawnReader(p)
	c.waitStop(p)
}

// exec executes one intent of the behaviour and returns the label of the line.
func (c *v3Ctl) exec(step map[string]interface{}, args map[string]interface{}) string {
	a := vStr(step, "a")
	switch a {
	case "AppBegin":
		p := c.procs["app"]
		if p.busy {
			return "Skip"
		}
		p.res = ""
		m := c.msg()
		c.spawn(p, func() v3Event {
			offs, err := c.l.Append([]*Message{m})
			ev := v3Event{off: -1, err: v3ErrClass(err)}
			if len(offs) == 1 {
				ev.off = offs[0]
			}
			return ev
		})
		c.waitStop(p)
	case "AppSet":
		// AppendMessageSet (follower / reconciliation path, allowed on a
		// read-only log), executed by the driver itself: one step
		if c.procs["app"].busy || c.procs["rol"].busy {
			return "Skip"
		}
		ms, _, err := newMessageSetFromProto(c.l.NewestOffset()+1, 0, []*Message{c.msg()}, false)
		if err != nil {
			c.t.Fatalf("message set: %v", err)
		}
		_, err = c.l.AppendMessageSet(ms)
		args["err"] = v3ErrClass(err)
	case "RolBegin":
		p := c.procs["rol"]
		if p.busy {
			return "Skip"
		}
		split := false
		c.spawn(p, func() v3Event {
			did, err := c.l.checkAndPerformSplit()
			split = did
			return v3Event{err: v3ErrClass(err)}
		})
		c.waitStop(p)
		if !p.busy && !split {
			a = "RolNoop"
		}
	case "TogBegin":
		p := c.procs["tog"]
		b := vBool(step, "b")
		args["b"] = b
		if p.busy {
			return "Skip"
		}
		c.spawn(p, func() v3Event {
			c.l.SetReadonly(b)
			return v3Event{}
		})
		c.waitStop(p)
	case "SetHW":
		h := vInt(step, "h")
		args["h"] = h
		c.l.SetHighWatermark(h)
	case "SetHW2":
		// two HW writers at the same time: both calls are started while the driver holds
		// the log mutex (whatever they do first, they wait for it), then released together
		h1, h2 := vInt(step, "h1"), vInt(step, "h2")
		args["h1"], args["h2"] = h1, h2
		var wg sync.WaitGroup
		c.l.mu.Lock()
		for _, h := range []int64{h1, h2} {
			wg.Add(1)
			go func(h int64) {
				defer wg.Done()
				c.l.SetHighWatermark(h)
			}(h)
		}
		time.Sleep(300 * time.Microsecond)
		c.l.mu.Unlock()
		done := make(chan struct{})
		go func() { wg.Wait(); close(done) }()
		select {
		case <-done:
		case <-time.After(v3Deadline):
			c.fail = "timeout in concurrent SetHighWatermark"
		}
	case "NewReader":
		name, s := vStr(step, "r"), vInt(step, "s")
		args["r"], args["s"] = name, s
		if c.procs[name] != nil {
			return "Skip"
		}
		c.newReader(name, s)
	case "Step":
		name := vStr(step, "p")
		args["p"] = name
		p := c.procs[name]
		if p == nil || p.at == "" || p.at == "blocked" {
			return "Skip"
		}
		c.step(p)
	default:
		c.t.Fatalf("unknown action %q", a)
	}
	c.settle()
	return a
}

// v3ProbeAtomic finds out whether split() performs the CAS on the active
// segment and the list append in one critical section of the log lock.
func v3ProbeAtomic(t *testing.T) bool {
	dir := vTempDir(t)
	c := v3NewCtl(t, 1, false)
	c.open(dir)
	v3Current.Store(c)
	defer func() { v3Current.Store(nil); c.close(dir) }()
	if _, err := c.l.Append([]*Message{c.msg()}); err != nil {
		t.Fatalf("probe append: %v", err)
	}
	p := c.procs["rol"]
	c.spawn(p, func() v3Event {
		_, err := c.l.checkAndPerformSplit()
		return v3Event{err: v3ErrClass(err)}
	})
	c.waitStop(p)
	if p.at == "split.after_cas" {
		c.step(p)
		return false
	}
	return true
}

func TestVerifReaderGated(t *testing.T) {
	sf := vLoadStimuli(t)
	tw := vOpenTrace(t)
	defer tw.Close()
	VerifGateHook = v3Hook
	defer func() { VerifGateHook = nil }()
	atomicMode := v3ProbeAtomic(t)
	for _, b := range sf.Behaviours {
		dir := vTempDir(t)
		c := v3NewCtl(t, vInt(b.Cfg, "cap"), atomicMode)
		c.open(dir)
		v3Current.Store(c)
		tw.Emit(v3Line{T: b.ID, A: "Open", Args: map[string]interface{}{}, St: c.project()})
		for _, step := range b.Steps {
			args := map[string]interface{}{}
			a := c.exec(step, args)
			if c.fail != "" {
				break
			}
			tw.Emit(v3Line{T: b.ID, A: a, Args: args, St: c.project()})
		}
		if c.fail == "" {
			c.quiesce()
		}
		if c.fail != "" {
			tw.Emit(v3Line{T: b.ID, A: "Timeout", Args: map[string]interface{}{}, St: c.project(), Note: c.fail})
		} else {
			tw.Emit(v3Line{T: b.ID, A: "Quiet", Args: map[string]interface{}{}, St: c.project()})
			// epilogue of every behaviour: everything appended is committed; at
			// the next quiescence every reader has been handed the whole log
			// from its position on (or was told that the read-only log ended)
			h := c.l.NewestOffset()
			c.l.SetHighWatermark(h)
			c.quiesce()
			if c.fail != "" {
				tw.Emit(v3Line{T: b.ID, A: "Timeout", Args: map[string]interface{}{}, St: c.project(), Note: c.fail})
			} else {
				tw.Emit(v3Line{T: b.ID, A: "Commit", Args: map[string]interface{}{"h": h}, St: c.project()})
			}
		}
		v3Current.Store(nil)
		c.close(dir)
	}
}
