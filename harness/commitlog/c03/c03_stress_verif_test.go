//go:build verif

package commitlog

// Stress run for property C03: real schedules (one appender, one HW setter, a
// roller = the cleaner loop's checkAndPerformSplit, a read-only toggler and N
// committed readers started at arbitrary offsets at arbitrary times).  The gate
// points of the code are used to perturb the schedule (seeded random yields and
// short sleeps exactly at the race windows).  Every call/return is recorded
// with a global sequence number and HighWatermark() sampled after the call
// (number and sample are taken together under one mutex, so samples are
// totally ordered).  The history is judged by TLC (Trace_ReaderEv.tla); the
// driver never judges.

import (
	"context"
	"fmt"
	"math/rand"
	"os"
	"runtime"
	"sync"
	"sync/atomic"
	"testing"
	"time"
)

type v3Ev struct {
	T    int      `json:"t"`
	A    string   `json:"a"`
	Seq  int64    `json:"seq"`
	R    string   `json:"r"`
	Off  int64    `json:"off"`
	HW   int64    `json:"hw"`
	S    int64    `json:"s"`
	Err  string   `json:"err"`
	Rs   []string `json:"rs"`
	Note string   `json:"note"`
	// creation rounds (line "Cre"): offsets handed to the reader, HighWatermark()
	// sampled after each of them, how the drain ended, the HW before the race,
	// the value the concurrent SetHighWatermark was given
	Offs []int64 `json:"offs"`
	Hws  []int64 `json:"hws"`
	End  string  `json:"end"`
	H0   int64   `json:"h0"`
	H1   int64   `json:"h1"`
}

type v3Stress struct {
	mu   sync.Mutex
	seq  int64
	evs  []v3Ev
	l    *commitLog
	id   int
	rng  *rand.Rand
	rmu  sync.Mutex
	pert int32
}

func (s *v3Stress) emit(ev v3Ev) {
	s.mu.Lock()
	s.seq++
	ev.Seq = s.seq
	ev.T = s.id
	ev.HW = s.l.HighWatermark()
	s.evs = append(s.evs, ev)
	s.mu.Unlock()
}

func (s *v3Stress) rnd(n int) int {
	s.rmu.Lock()
	defer s.rmu.Unlock()
	return s.rng.Intn(n)
}

var v3StressCur atomic.Pointer[v3Stress]

// perturbation at the gate points: mostly nothing, sometimes a yield, rarely a sleep
func v3StressHook(name string) {
	s := v3StressCur.Load()
	if s == nil || atomic.LoadInt32(&s.pert) == 0 {
		return
	}
	switch x := s.rnd(100); {
	case x < 30:
		runtime.Gosched()
	case x < 36:
		time.Sleep(time.Duration(20+s.rnd(200)) * time.Microsecond)
	}
}

type v3SReader struct {
	name  string
	rdr   *Reader
	state atomic.Value // "running" | "rodone" | "dead" | "cancelled"
	gid   int64        // goroutine id of the reading goroutine (atomic)
}

// v3SLost: the reader's goroutine sleeps in the select of waitForHW and its
// channel is not in hwWaiters (observed twice, a moment apart): nothing but the
// cancellation of its context wakes it again.
func v3SLost(l *commitLog, sr *v3SReader) bool {
	for i := 0; i < 2; i++ {
		if i > 0 {
			time.Sleep(time.Millisecond)
		}
		if sr.state.Load().(string) != "running" {
			return false
		}
		reg := func() bool {
			l.mu.RLock()
			defer l.mu.RUnlock()
			_, ok := l.hwWaiters[sr.rdr.ctxReader]
			return ok
		}
		if reg() || !v3Asleep(atomic.LoadInt64(&sr.gid)) || reg() {
			return false
		}
	}
	return true
}

func TestVerifReaderStress(t *testing.T) {
	sf := vLoadStimuli(t)
	tw := vOpenTrace(t)
	defer tw.Close()
	VerifGateHook = v3StressHook
	defer func() { VerifGateHook = nil }()
	for _, b := range sf.Behaviours {
		if vStrDef(b.Cfg, "kind", "") == "create" {
			v3CreateRound(t, tw, b)
			continue
		}
		v3StressRound(t, tw, b)
	}
}

func v3StressRound(t *testing.T, tw *vTraceWriter, b vBehaviour) {
	var (
		seed     = vInt(b.Cfg, "seed")
		capRecs  = vInt(b.Cfg, "cap")
		nMsgs    = vInt(b.Cfg, "msgs")
		nReaders = int(vInt(b.Cfg, "readers"))
		toggles  = vBool(b.Cfg, "toggles")
		dir      = vTempDir(t)
	)
	probe := &Message{MagicByte: 2, Value: []byte("m0000000"), Timestamp: 1, LeaderEpoch: 1, Offset: -1}
	ms, _, _ := newMessageSetFromProto(0, 0, []*Message{probe}, false)
	cl, err := New(vOpts(dir, capRecs*int64(len(ms)), false))
	if err != nil {
		t.Fatalf("open: %v", err)
	}
	l := cl.(*commitLog)
	s := &v3Stress{l: l, id: b.ID, rng: rand.New(rand.NewSource(seed)), pert: 1}
	v3StressCur.Store(s)
	ctx, cancel := context.WithCancel(context.Background())
	var (
		wgW, wgR sync.WaitGroup
		appended int64 = 0 // number of messages whose Append has returned
		stopBg   int32
		readers  []*v3SReader
		rmu      sync.Mutex
	)
	names := []string{}
	for i := 0; i < nReaders; i++ {
		names = append(names, fmt.Sprintf("r%d", i+1))
	}
	s.emit(v3Ev{A: "Open", Rs: names, Off: -1, S: -1})

	startReader := func(name string, start int64) {
		rdr, err := l.NewReader(start, false)
		if err != nil {
			s.emit(v3Ev{A: "New", R: name, S: start, Off: -1, Err: v3ErrClass(err)})
			return
		}
		sr := &v3SReader{name: name, rdr: rdr}
		sr.state.Store("running")
		rmu.Lock()
		readers = append(readers, sr)
		rmu.Unlock()
		s.emit(v3Ev{A: "New", R: name, S: start, Off: -1})
		wgR.Add(1)
		go func() {
			defer wgR.Done()
			atomic.StoreInt64(&sr.gid, v3Goid())
			headers := make([]byte, msgSetHeaderLen)
			for {
				off, errc := func() (off int64, errc string) {
					defer func() {
						if x := recover(); x != nil {
							off, errc = -1, fmt.Sprintf("panic:%v", x)
						}
					}()
					_, o, _, _, err := rdr.ReadMessage(ctx, headers)
					return o, v3ErrClass(err)
				}()
				if errc == "" {
					s.emit(v3Ev{A: "Del", R: name, Off: off, S: -1})
					continue
				}
				switch errc {
				case "readonly":
					sr.state.Store("rodone")
				case "cancelled":
					sr.state.Store("cancelled")
					return
				default:
					sr.state.Store("dead")
				}
				s.emit(v3Ev{A: "REnd", R: name, Off: -1, S: -1, Err: errc})
				return
			}
		}()
	}

	// readers: the first half right away (empty log, arbitrary positions), the
	// rest at arbitrary moments
	late := []int{}
	for i, n := range names {
		if i < (nReaders+1)/2 {
			startReader(n, int64(s.rnd(int(nMsgs))/2))
		} else {
			late = append(late, i)
		}
	}
	// appender (single)
	wgW.Add(1)
	go func() {
		defer wgW.Done()
		for i := int64(0); i < nMsgs; {
			m := &Message{MagicByte: 2, Value: []byte(fmt.Sprintf("m%07d", i)), Timestamp: i + 1, LeaderEpoch: 1, Offset: -1}
			_, err := l.Append([]*Message{m})
			if err == ErrCommitLogReadonly {
				time.Sleep(50 * time.Microsecond)
				continue
			}
			if err != nil {
				s.emit(v3Ev{A: "AppendErr", Off: -1, S: -1, Err: err.Error()})
				return
			}
			i++
			atomic.StoreInt64(&appended, i)
			if s.rnd(4) == 0 {
				runtime.Gosched()
			}
			// late readers appear while the log grows
			if len(late) > 0 && s.rnd(int(nMsgs)/(nReaders+1)+1) == 0 {
				k := late[0]
				late = late[1:]
				startReader(names[k], int64(s.rnd(int(i)+3)))
			}
		}
	}()
	// HW setters (two: a leader has the fast path of the message loop and the
	// commit loop, a follower the replication responses): any step, never
	// beyond what has been appended
	for k := 0; k < 2; k++ {
		wgW.Add(1)
		go func() {
			defer wgW.Done()
			for {
				n := atomic.LoadInt64(&appended)
				hw := l.HighWatermark()
				if hw >= nMsgs-1 || atomic.LoadInt32(&stopBg) == 1 {
					return
				}
				if n-1 > hw {
					h := hw + 1 + int64(s.rnd(int(n-1-hw)))
					l.SetHighWatermark(h)
					s.emit(v3Ev{A: "SetHW", Off: h, S: -1})
				}
				if s.rnd(3) == 0 {
					time.Sleep(time.Duration(s.rnd(80)) * time.Microsecond)
				} else {
					runtime.Gosched()
				}
			}
		}()
	}
	// roller: the cleaner loop's split check
	go func() {
		for atomic.LoadInt32(&stopBg) == 0 {
			l.checkAndPerformSplit() // nolint: errcheck
			time.Sleep(time.Duration(s.rnd(60)) * time.Microsecond)
		}
	}()
	// read-only toggler
	if toggles {
		go func() {
			for atomic.LoadInt32(&stopBg) == 0 {
				time.Sleep(time.Duration(200+s.rnd(2000)) * time.Microsecond)
				l.SetReadonly(true)
				s.emit(v3Ev{A: "SetRO", Off: 1, S: -1})
				time.Sleep(time.Duration(s.rnd(300)) * time.Microsecond)
				l.SetReadonly(false)
				s.emit(v3Ev{A: "SetRO", Off: 0, S: -1})
			}
		}()
	}
	done := make(chan struct{})
	go func() { wgW.Wait(); close(done) }()
	note := ""
	select {
	case <-done:
	case <-time.After(60 * time.Second):
		note = "timeout: writers did not finish"
	}
	atomic.StoreInt32(&stopBg, 1)
	time.Sleep(3 * time.Millisecond)
	l.SetReadonly(false)
	atomic.StoreInt32(&s.pert, 0)
	for _, k := range late {
		startReader(names[k], int64(s.rnd(int(nMsgs))))
	}
	// quiescence: every reader is a registered HW waiter or has ended, and
	// nothing changes any more
	deadline := time.Now().Add(30 * time.Second)
	lastSeq, stable := int64(-1), 0
	for note == "" {
		allStopped := true
		rmu.Lock()
		for _, sr := range readers {
			if sr.state.Load().(string) != "running" {
				continue
			}
			l.mu.RLock()
			_, reg := l.hwWaiters[sr.rdr.ctxReader]
			l.mu.RUnlock()
			if !reg && !v3SLost(l, sr) {
				allStopped = false
			}
		}
		rmu.Unlock()
		s.mu.Lock()
		cur := s.seq
		s.mu.Unlock()
		if allStopped && cur == lastSeq {
			stable++
			if stable >= 5 {
				break
			}
		} else {
			stable = 0
		}
		lastSeq = cur
		if time.Now().After(deadline) {
			// a reader that is neither waiting nor finished: reported as such
			break
		}
		time.Sleep(2 * time.Millisecond)
	}
	// final line: state of every reader
	rmu.Lock()
	for _, sr := range readers {
		st := sr.state.Load().(string)
		if st == "running" {
			l.mu.RLock()
			_, reg := l.hwWaiters[sr.rdr.ctxReader]
			l.mu.RUnlock()
			if reg {
				st = "blocked"
			} else if v3SLost(l, sr) {
				st = "lost"
			}
		}
		s.emit(v3Ev{A: "Final", R: sr.name, Off: -1, S: -1, Err: st})
	}
	rmu.Unlock()
	s.emit(v3Ev{A: "Quiet", Off: atomic.LoadInt64(&appended), S: -1, Note: note})
	cancel()
	rdone := make(chan struct{})
	go func() { wgR.Wait(); close(rdone) }()
	select {
	case <-rdone:
	case <-time.After(20 * time.Second):
		t.Logf("stress readers did not exit")
	}
	v3StressCur.Store(nil)
	l.Close()
	os.RemoveAll(dir)
	s.mu.Lock()
	for _, ev := range s.evs {
		v3EmitEv(tw, ev)
	}
	s.mu.Unlock()
}

func v3EmitEv(tw *vTraceWriter, ev v3Ev) {
	if ev.Rs == nil {
		ev.Rs = []string{}
	}
	if ev.Offs == nil {
		ev.Offs = []int64{}
	}
	if ev.Hws == nil {
		ev.Hws = []int64{}
	}
	tw.Emit(ev)
}

// ---------------------------------------------------------------------------
// Creation rounds: committed readers are CREATED while the HW moves (and while
// the log grows / rolls).  newReaderCommitted is not one critical section (HW
// load | segment snapshot, decision "wait" vs "positioned", construction -
// Reader.tla: DoNewReader | RNew); no gate sits between its parts, so the
// interleavings come from real schedules: in every iteration four goroutines
// are released by a spin barrier at the same instant -
//   two creators   NewReader(HW+d, committed), d in {-1, 0, +1, +2}
//   the committer  SetHighWatermark(HW+1 | HW+2)
//   the appender   Append of one message (every other iteration)
// each after a busy-wait of 0..~150 ns chosen per iteration so that the relative
// timing sweeps over windows of a few instructions.  When all four calls have
// returned the driver goroutine - alone now - advances the HW once more and
// drains each new reader with a context that is already cancelled (a reader that
// would block returns instead).  One line per creation: requested offset, the
// offsets handed out, HighWatermark() after each of them, how the drain ended.
// Nothing is inferred from timing; TLC judges the line (Trace_ReaderEv: Cre).

type v3CTask struct {
	kind   int // 0 create, 1 commit, 2 append, 3 nothing
	arg    int64
	jitter int
	rdr    *Reader
	err    error
	panicS string
}

type v3Create struct {
	round int64 // atomic: number of the iteration released
	done  int64 // atomic: calls of the iteration that have returned
	stop  int32
	tasks [4]v3CTask
	l     *commitLog
	next  int64 // payload counter of the appends (driver and appender never run at the same time on it: atomic)
}

func (c *v3Create) appendOne() error {
	i := atomic.AddInt64(&c.next, 1) - 1
	m := &Message{MagicByte: 2, Value: []byte(fmt.Sprintf("m%07d", i%10000000)), Timestamp: i + 1, LeaderEpoch: 1, Offset: -1}
	_, err := c.l.Append([]*Message{m})
	return err
}

func (c *v3Create) worker(w int, wg *sync.WaitGroup) {
	defer wg.Done()
	for n := int64(1); ; n++ {
		for spins := 0; atomic.LoadInt64(&c.round) < n; spins++ {
			if atomic.LoadInt32(&c.stop) == 1 {
				return
			}
			if spins > 20000 {
				runtime.Gosched()
			}
		}
		tk := &c.tasks[w]
		for j := 0; j < tk.jitter; j++ {
			atomic.LoadInt32(&c.stop)
		}
		func() {
			defer func() {
				if x := recover(); x != nil {
					tk.panicS = fmt.Sprintf("panic:%v", x)
				}
			}()
			switch tk.kind {
			case 0:
				tk.rdr, tk.err = c.l.NewReader(tk.arg, false)
			case 1:
				c.l.SetHighWatermark(tk.arg)
			case 2:
				tk.err = c.appendOne()
			}
		}()
		atomic.AddInt64(&c.done, 1)
	}
}

func v3CreateRound(t *testing.T, tw *vTraceWriter, b vBehaviour) {
	var (
		seed    = vInt(b.Cfg, "seed")
		capRecs = vInt(b.Cfg, "cap")
		nIter   = vInt(b.Cfg, "iterations")
		dir     = vTempDir(t)
		rng     = rand.New(rand.NewSource(seed))
	)
	if old := runtime.GOMAXPROCS(0); old < 5 {
		runtime.GOMAXPROCS(5)
		defer runtime.GOMAXPROCS(old)
	}
	probe := &Message{MagicByte: 2, Value: []byte("m0000000"), Timestamp: 1, LeaderEpoch: 1, Offset: -1}
	ms, _, _ := newMessageSetFromProto(0, 0, []*Message{probe}, false)
	cl, err := New(vOpts(dir, capRecs*int64(len(ms)), false))
	if err != nil {
		t.Fatalf("open: %v", err)
	}
	l := cl.(*commitLog)
	c := &v3Create{l: l}
	s := &v3Stress{l: l, id: b.ID, rng: rng}
	s.emit(v3Ev{A: "Open", Off: -1, S: -1})
	var wg sync.WaitGroup
	for w := 0; w < 4; w++ {
		wg.Add(1)
		go c.worker(w, &wg)
	}
	note := ""
	headers := make([]byte, msgSetHeaderLen)
	nCre := 0
	for it := int64(1); it <= nIter && note == ""; it++ {
		h := l.HighWatermark()
		// the log stays well ahead of everything this iteration commits
		for l.NewestOffset() < h+8 {
			if err := c.appendOne(); err != nil {
				note = "append failed: " + err.Error()
				break
			}
		}
		if note != "" {
			break
		}
		step := int64(1)
		if rng.Intn(10) < 3 {
			step = 2
		}
		for w := 0; w < 2; w++ {
			d := []int64{1, 1, 1, 1, 2, 2, 0, 0, -1, -1}[rng.Intn(10)]
			start := h + d
			if start < 0 {
				start = 0
			}
			c.tasks[w] = v3CTask{kind: 0, arg: start, jitter: rng.Intn(120)}
		}
		c.tasks[2] = v3CTask{kind: 1, arg: h + step, jitter: rng.Intn(120)}
		c.tasks[3] = v3CTask{kind: 3}
		if it%2 == 0 {
			c.tasks[3] = v3CTask{kind: 2, jitter: rng.Intn(120)}
		}
		atomic.StoreInt64(&c.done, 0)
		atomic.StoreInt64(&c.round, it) // releases the four goroutines
		deadline := time.Now().Add(30 * time.Second)
		for spins := 0; atomic.LoadInt64(&c.done) < 4; spins++ {
			if spins > 200 {
				runtime.Gosched()
			}
			if spins&0xfff == 0xfff && time.Now().After(deadline) {
				note = "timeout: a call of a creation iteration did not return"
				break
			}
		}
		if note != "" {
			break
		}
		if c.tasks[3].err != nil || c.tasks[3].panicS != "" || c.tasks[2].panicS != "" {
			note = fmt.Sprintf("append/commit of a creation iteration failed: %v %s %s", c.tasks[3].err, c.tasks[3].panicS, c.tasks[2].panicS)
			break
		}
		// alone again: one more advance, then every new reader is drained (both completed
		// SetHighWatermark calls are judged on the Cre lines: h1 + 1 <= hw)
		l.SetHighWatermark(h + step + 1)
		for w := 0; w < 2; w++ {
			tk := &c.tasks[w]
			nCre++
			ev := v3Ev{A: "Cre", R: fmt.Sprintf("c%d", nCre), S: tk.arg, Off: -1, H0: h, H1: h + step}
			if tk.panicS != "" || tk.err != nil {
				ev.Err = tk.panicS
				if ev.Err == "" {
					ev.Err = v3ErrClass(tk.err)
				}
				s.emit(ev)
				continue
			}
			ctx := vDoneCtx()
			for k := 0; ; k++ {
				off, errc := func() (off int64, errc string) {
					defer func() {
						if x := recover(); x != nil {
							off, errc = -1, fmt.Sprintf("panic:%v", x)
						}
					}()
					_, o, _, _, err := tk.rdr.ReadMessage(ctx, headers)
					return o, v3ErrClass(err)
				}()
				if errc == "" && k >= 64 {
					errc = "runaway"
				}
				if errc != "" {
					ev.End = errc // "cancelled" = the reader would block now
					break
				}
				ev.Offs = append(ev.Offs, off)
				ev.Hws = append(ev.Hws, l.HighWatermark())
			}
			s.emit(ev)
		}
	}
	atomic.StoreInt32(&c.stop, 1)
	if note == "" {
		wg.Wait()
	}
	s.emit(v3Ev{A: "Quiet", Off: l.NewestOffset(), S: -1, Note: note})
	l.Close()
	os.RemoveAll(dir)
	for _, ev := range s.evs {
		v3EmitEv(tw, ev)
	}
}
