//go:build verif

package commitlog

// Stress part of check X05: the same operations with REAL schedules (the park
// points only yield or sleep at random), also under the race detector.  One
// appender (Append, new leader epochs now and then), the cleaner, a HW mover,
// two uncommitted readers and - in the rounds that ask for it - a truncator.
// When everybody has finished the abstract state is projected exactly as in the
// gated replay and written with what the calls returned; TLC judges it
// (Trace_LogConc: line "Stress").  A finding here counts only after it has been
// reproduced through the gates.

import (
	"context"
	"math/rand"
	"runtime"
	"sync"
	"sync/atomic"
	"testing"
	"time"
)

type x5Stress struct {
	rng  *rand.Rand
	rmu  sync.Mutex
	pert int32
}

var x5StressCur atomic.Pointer[x5Stress]

func (s *x5Stress) rnd(n int) int {
	s.rmu.Lock()
	defer s.rmu.Unlock()
	return s.rng.Intn(n)
}

func x5StressHook(name string) {
	s := x5StressCur.Load()
	if s == nil || atomic.LoadInt32(&s.pert) == 0 {
		return
	}
	switch x := s.rnd(100); {
	case x < 35:
		runtime.Gosched()
	case x < 45:
		time.Sleep(time.Duration(20+s.rnd(300)) * time.Microsecond)
	}
}

type x5Pair struct {
	Off int64 `json:"off"`
	ID  int64 `json:"id"`
}

func TestVerifLogConcStress(t *testing.T) {
	sf := vLoadStimuli(t)
	tw := vOpenTrace(t)
	defer tw.Close()
	VerifGateHook = x5StressHook
	VerifCrashHook = x5StressHook
	VerifIndexBytes = 16384
	defer func() { VerifGateHook, VerifCrashHook, VerifIndexBytes = nil, nil, 0 }()
	for _, b := range sf.Behaviours {
		x5StressRound(t, tw, b)
	}
}

func x5StressRound(t *testing.T, tw *vTraceWriter, b vBehaviour) {
	dir := vTempDir(t)
	c := x5NewCtl(t, b.Cfg)
	c.open(dir)
	defer c.close()
	s := &x5Stress{rng: rand.New(rand.NewSource(vInt(b.Cfg, "seed"))), pert: 1}
	x5StressCur.Store(s)
	defer x5StressCur.Store(nil)
	var (
		n       = int(vInt(b.Cfg, "n"))
		trunc   = vBool(b.Cfg, "trunc")
		done    int32
		wg      sync.WaitGroup
		mu      sync.Mutex
		stored  = []interface{}{}
		errs    = []interface{}{}
		reads   = [][]x5Pair{{}, {}}
		rerrs   = []interface{}{}
		note    string
		addErr  = func(list *[]interface{}, e string) { mu.Lock(); *list = append(*list, e); mu.Unlock() }
		started = time.Now()
	)
	tw.Emit(x5Line{T: b.ID, A: "Open", Args: map[string]interface{}{}, St: c.project()})
	// appender
	wg.Add(1)
	go func() {
		defer wg.Done()
		defer atomic.StoreInt32(&done, 1)
		ep, id := int64(1), int64(0)
		for i := 0; i < n; i++ {
			if s.rnd(12) == 0 {
				ep++
				if s.rnd(2) == 0 {
					if err := c.l.NewLeaderEpoch(uint64(ep)); err != nil {
						addErr(&errs, "newepoch:"+err.Error())
					}
				}
			}
			k := 1 + s.rnd(2)
			msgs, ids := []*Message{}, []int64{}
			for j := 0; j < k; j++ {
				id++
				ids = append(ids, id)
				msgs = append(msgs, x5Message(ep, string(rune('a'+s.rnd(3))), id, -1))
			}
			offs, err := func() (o []int64, e error) {
				defer func() {
					if x := recover(); x != nil {
						e = errPanic(x)
					}
				}()
				return c.l.Append(msgs)
			}()
			if err != nil {
				addErr(&errs, "append:"+x5ErrClass(err))
				continue
			}
			mu.Lock()
			for j, o := range offs {
				stored = append(stored, x5Pair{Off: o, ID: ids[j]})
			}
			mu.Unlock()
		}
	}()
	// cleaner, HW mover, truncator
	bg := func(f func()) {
		wg.Add(1)
		go func() {
			defer wg.Done()
			for atomic.LoadInt32(&done) == 0 {
				f()
				time.Sleep(time.Duration(50+s.rnd(400)) * time.Microsecond)
			}
		}()
	}
	bg(func() {
		if err := c.l.Clean(); err != nil {
			addErr(&errs, "clean:"+x5ErrClass(err))
		}
	})
	bg(func() {
		if nw := c.l.NewestOffset(); nw >= 0 {
			c.l.SetHighWatermark(nw - int64(s.rnd(3)))
		}
	})
	if trunc {
		bg(func() {
			if s.rnd(6) != 0 {
				return
			}
			if nw := c.l.NewestOffset(); nw >= 1 {
				if err := c.l.Truncate(nw - int64(s.rnd(3))); err != nil {
					addErr(&errs, "truncate:"+x5ErrClass(err))
				}
			}
		})
	}
	// readers (uncommitted, forward, from the start); a reader that fails is re-created at its position
	for ri := 0; ri < 2; ri++ {
		wg.Add(1)
		go func(ri int) {
			defer wg.Done()
			headers := make([]byte, msgSetHeaderLen)
			pos := int64(0)
			var rdr *Reader
			for atomic.LoadInt32(&done) == 0 {
				if rdr == nil {
					r, err := c.l.NewReader(pos, true)
					if err != nil {
						if cl := x5ErrClass(err); cl != "notfound" {
							addErr(&rerrs, "new:"+cl)
						}
						time.Sleep(200 * time.Microsecond)
						continue
					}
					rdr = r
				}
				ctx, cancel := context.WithTimeout(context.Background(), 2*time.Millisecond)
				m, off, _, _, err := rdr.ReadMessage(ctx, headers)
				cancel()
				if err != nil {
					if ctx.Err() != nil {
						continue
					}
					if cl := x5ErrClass(err); cl != "replaced" && cl != "notfound" && cl != "closed" {
						addErr(&rerrs, "read:"+cl)
					}
					rdr = nil
					continue
				}
				reads[ri] = append(reads[ri], x5Pair{Off: off, ID: x5ValueID(m)})
				pos = off + 1
			}
		}(ri)
	}
	fin := make(chan struct{})
	go func() { wg.Wait(); close(fin) }()
	select {
	case <-fin:
	case <-time.After(60 * time.Second):
		note = "stress round did not finish within 60 s"
	}
	atomic.StoreInt32(&s.pert, 0)
	if note != "" {
		tw.Emit(x5Line{T: b.ID, A: "Timeout", Args: map[string]interface{}{}, Note: note})
		return
	}
	c.obs = x5Obs{Ret: []interface{}{}}
	rd := []interface{}{}
	for _, r := range reads {
		l := []interface{}{}
		for _, p := range r {
			l = append(l, p)
		}
		rd = append(rd, l)
	}
	tw.Emit(x5Line{T: b.ID, A: "Stress", St: c.project(), Note: time.Since(started).String(),
		Args: map[string]interface{}{"trunc": trunc, "stored": stored, "errs": errs, "reads": rd, "rerrs": rerrs}})
}

type x5PanicErr struct{ v interface{} }

func (e x5PanicErr) Error() string { return "panic" }
func errPanic(x interface{}) error { return x5PanicErr{x} }

func x5ValueID(m SerializedMessage) (id int64) {
	id = -1
	defer func() { recover() }()
	v := string(m.Value())
	if len(v) == 7 && v[0] == 'v' {
		var n int64
		for _, ch := range v[1:] {
			if ch < '0' || ch > '9' {
				return -1
			}
			n = n*10 + int64(ch-'0')
		}
		id = n
	}
	return id
}
