//go:build verif

package commitlog

// Gate-driven replay of LogConc.tla behaviours on the real commit log (check
// X05): the appender (Append), the truncator (Truncate) and the cleaner (Clean)
// are goroutines of the real code that park at verifGate / verifCrashPoint
// points; the driver releases exactly one per step, in the order of the TLC
// behaviour, and waits until it stops again (next park point or call returned).
// HW moves, new leader epochs, reader calls and crash images (copy of the
// directory opened by a second commit log) are executed by the driver while
// the others are parked.  After every step the abstract state is projected
// from the real objects and the directory; the driver never judges.

import (
	"context"
	"fmt"
	"io"
	"os"
	"path/filepath"
	"runtime"
	"sort"
	"strconv"
	"strings"
	"sync"
	"sync/atomic"
	"testing"
	"time"

	pkgErrors "github.com/pkg/errors"
)

type x5Event struct {
	gate string
	ret  bool
	offs []int64
	err  string
	pan  bool
}

type x5Proc struct {
	name    string
	ev      chan x5Event
	release chan struct{}
	at      string // park point, "" = idle, "running" = released and not stopped yet (blocked on a lock)
	busy    bool
	o       int64
}

type x5Rd struct {
	rdr   *Reader
	rrdr  *ReverseReader
	c     bool
	rev   bool
	pos   int64
	alive bool
	got   bool
}

type x5Ctl struct {
	t       *testing.T
	l       *commitLog
	dir     string
	mu      sync.Mutex
	byGid   map[int64]*x5Proc
	free    int32
	procs   map[string]*x5Proc
	segIdx  map[*segment]int
	segs    []*segment
	rds     map[string]*x5Rd
	wg      sync.WaitGroup
	cap     int64
	unit    int64
	occ     bool
	compact bool
	msgs    int64
	fail    string
	obs     x5Obs
}

var x5Current atomic.Pointer[x5Ctl]

var x5GatePc = map[string]string{
	"append.before_split_check":    "chk",
	"append.before_write":          "pick",
	"append.after_layout":          "epoch",
	"append.before_segment_write":  "wr",
	"truncate.before_clear_epochs": "clear",
	"clean.after_snapshot":         "snap",
	"clean.before_swap":            "swap",
}

var x5CrashPc = map[string]string{
	"truncate.after_rewrite":         "repl",
	"retention.after_delete_segment": "del",
}

func x5PcOf(at string) string {
	if at == "" {
		return "idle"
	}
	if pc, ok := x5GatePc[at]; ok {
		return pc
	}
	if pc, ok := x5CrashPc[at]; ok {
		return pc
	}
	return "?" + at
}

func x5Hook(table map[string]string) func(string) {
	return func(name string) {
		c := x5Current.Load()
		if c == nil || atomic.LoadInt32(&c.free) == 1 {
			return
		}
		if _, ok := table[name]; !ok {
			return
		}
		gid := v3GoidX5()
		c.mu.Lock()
		p := c.byGid[gid]
		c.mu.Unlock()
		if p == nil {
			return
		}
		p.ev <- x5Event{gate: name}
		<-p.release
	}
}

func v3GoidX5() int64 {
	var buf [64]byte
	n := runtime.Stack(buf[:], false)
	f := strings.Fields(string(buf[:n]))
	if len(f) < 2 {
		return -1
	}
	id, err := strconv.ParseInt(f[1], 10, 64)
	if err != nil {
		return -1
	}
	return id
}

const (
	x5Deadline     = 20 * time.Second
	x5BlockedAfter = 1500 * time.Millisecond
)

// waitStop waits until the goroutine of p parks or returns; a goroutine that does
// neither within x5BlockedAfter is waiting for a lock ("running").
func (c *x5Ctl) waitStop(p *x5Proc, mayBlock bool) {
	limit := x5Deadline
	if mayBlock {
		limit = x5BlockedAfter
	}
	select {
	case ev := <-p.ev:
		c.arrived(p, ev)
	case <-time.After(limit):
		if mayBlock {
			p.at = "running"
		} else {
			c.fail = "timeout waiting for " + p.name
		}
	}
}

func (c *x5Ctl) arrived(p *x5Proc, ev x5Event) {
	if ev.gate != "" {
		p.at = ev.gate
		return
	}
	p.at, p.busy = "", false
	switch p.name {
	case "app":
		c.obs = x5Obs{A: "Append", Ret: x5Ints(ev.offs), Err: ev.err}
	case "trn":
		c.obs = x5Obs{A: "Truncate", Ret: []interface{}{}, Err: ev.err}
	case "cln":
		c.obs = x5Obs{A: "Clean", Ret: x5Ints(ev.offs), Err: ev.err}
	}
}

// settle: goroutines that were waiting for a lock may have moved on
func (c *x5Ctl) settle() {
	for _, n := range []string{"app", "trn", "cln"} {
		p := c.procs[n]
		if p.at != "running" {
			continue
		}
		select {
		case ev := <-p.ev:
			c.arrived(p, ev)
		case <-time.After(20 * time.Millisecond):
		}
	}
}

func x5Ints(v []int64) []interface{} {
	out := []interface{}{}
	for _, x := range v {
		out = append(out, x)
	}
	return out
}

func x5ErrClass(err error) string {
	if err == nil {
		return ""
	}
	cause := pkgErrors.Cause(err)
	switch {
	case cause == ErrIncorrectOffset:
		return "incorrect_offset"
	case cause == ErrSegmentClosed:
		return "closed"
	case cause == ErrSegmentReplaced:
		return "replaced"
	case cause == ErrSegmentNotFound:
		return "notfound"
	case cause == ErrCommitLogReadonly:
		return "readonly"
	}
	return "other:" + err.Error()
}

func (c *x5Ctl) spawn(p *x5Proc, call func() x5Event) {
	p.busy = true
	c.wg.Add(1)
	go func() {
		defer c.wg.Done()
		gid := v3GoidX5()
		c.mu.Lock()
		c.byGid[gid] = p
		c.mu.Unlock()
		defer func() {
			c.mu.Lock()
			delete(c.byGid, gid)
			c.mu.Unlock()
		}()
		ev := func() (ev x5Event) {
			defer func() {
				if x := recover(); x != nil {
					ev = x5Event{err: fmt.Sprintf("panic:%v", x), pan: true}
				}
			}()
			return call()
		}()
		ev.ret = true
		p.ev <- ev
	}()
}

// ---- projection -------------------------------------------------------------

type x5Rec struct {
	Off int64  `json:"off"`
	Ep  int64  `json:"ep"`
	Key string `json:"key"`
	ID  int64  `json:"id"`
}

type x5Seg struct {
	Base   int64   `json:"base"`
	Recs   []x5Rec `json:"recs"`
	N      int64   `json:"n"`
	Next   int64   `json:"next"`
	Closed bool    `json:"closed"`
	Repl   bool    `json:"repl"`
	Del    bool    `json:"del"`
}

type x5Cfg struct {
	Cap     int64 `json:"cap"`
	Occ     bool  `json:"occ"`
	Compact bool  `json:"compact"`
	Msgs    int64 `json:"msgs"`
}

type x5Obs struct {
	A   string        `json:"a"`
	Ret []interface{} `json:"ret"`
	Err string        `json:"err"`
}

type x5PcSt struct {
	Pc string `json:"pc"`
}

type x5RdSt struct {
	Alive bool  `json:"alive"`
	C     bool  `json:"c"`
	Rev   bool  `json:"rev"`
	Pos   int64 `json:"pos"`
	Got   bool  `json:"got"`
}

type x5State struct {
	Cfg    x5Cfg             `json:"cfg"`
	Segs   []x5Seg           `json:"segs"`
	Files  []int64           `json:"files"`
	Listed []int             `json:"listed"`
	Active int               `json:"active"`
	HW     int64             `json:"hw"`
	Epochs []vEpoch          `json:"epochs"`
	App    x5PcSt            `json:"app"`
	Trn    x5PcSt            `json:"trn"`
	Cln    x5PcSt            `json:"cln"`
	Rd     map[string]x5RdSt `json:"rd"`
	Obs    x5Obs             `json:"obs"`
}

type x5Line struct {
	T    int                    `json:"t"`
	A    string                 `json:"a"`
	Args map[string]interface{} `json:"args"`
	St   x5State                `json:"st"`
	Note string                 `json:"note"`
}

func (c *x5Ctl) segIndex(s *segment) int {
	if i, ok := c.segIdx[s]; ok {
		return i
	}
	c.segs = append(c.segs, s)
	c.segIdx[s] = len(c.segs)
	return len(c.segs)
}

func x5Decode(ms messageSet) (rec x5Rec) {
	rec = x5Rec{Off: ms.Offset(), Ep: int64(ms.LeaderEpoch()), Key: "?", ID: -1}
	defer func() {
		if recover() != nil {
			rec.Key, rec.ID = "panic", -1
		}
	}()
	m := ms.Message()
	rec.Key = string(m.Key())
	v := string(m.Value())
	if len(v) == 7 && v[0] == 'v' {
		if id, err := strconv.ParseInt(v[1:], 10, 64); err == nil {
			rec.ID = id
		}
	}
	return rec
}

func x5ScanSeg(s *segment) (recs []x5Rec) {
	recs = []x5Rec{}
	defer func() {
		if x := recover(); x != nil {
			recs = append(recs, x5Rec{Off: -1, Ep: -1, Key: "panic", ID: -1})
		}
	}()
	ss := newSegmentScanner(s)
	for i := 0; i < 4096; i++ {
		ms, _, err := ss.Scan()
		if err != nil {
			if err != io.EOF {
				// an index entry that does not lead to a message is content, not an end
				if pkgErrors.Cause(err) != ErrSegmentClosed && pkgErrors.Cause(err) != ErrSegmentReplaced {
					recs = append(recs, x5Rec{Off: -1, Ep: -1, Key: "unreadable", ID: -1})
				}
			}
			return recs
		}
		recs = append(recs, x5Decode(ms))
	}
	return recs
}

func (c *x5Ctl) project() x5State {
	l := c.l
	// no lock: every goroutine of the log is parked (the truncator parks holding l.mu)
	listed := append([]*segment{}, l.segments...)
	act := l.activeSegment()
	st := x5State{Cfg: x5Cfg{Cap: c.cap, Occ: c.occ, Compact: c.compact, Msgs: c.msgs}, HW: l.hw,
		Listed: []int{}, Files: []int64{}, Rd: map[string]x5RdSt{}, Epochs: vEpochs(l)}
	for _, s := range listed {
		st.Listed = append(st.Listed, c.segIndex(s))
	}
	st.Active = c.segIndex(act)
	for _, s := range c.segs {
		s.RLock()
		closed, repl, del, pos := s.closed, s.replaced, s.deleted, s.position
		s.RUnlock()
		ps := x5Seg{Base: s.BaseOffset, Recs: []x5Rec{}, Next: s.NextOffset(), Closed: closed, Repl: repl, Del: del}
		if pos%c.unit == 0 {
			ps.N = pos / c.unit
		} else {
			ps.N = -1000 - pos
		}
		if !closed {
			ps.Recs = x5ScanSeg(s)
		}
		st.Segs = append(st.Segs, ps)
	}
	if ents, err := os.ReadDir(c.dir); err == nil {
		for _, e := range ents {
			if strings.HasSuffix(e.Name(), logFileSuffix) {
				if b, err := strconv.ParseInt(strings.TrimSuffix(e.Name(), logFileSuffix), 10, 64); err == nil {
					st.Files = append(st.Files, b)
				}
			}
		}
	}
	sort.Slice(st.Files, func(i, j int) bool { return st.Files[i] < st.Files[j] })
	st.App = x5PcSt{Pc: x5PcOf(c.procs["app"].at)}
	st.Trn = x5PcSt{Pc: x5PcOf(c.procs["trn"].at)}
	st.Cln = x5PcSt{Pc: x5PcOf(c.procs["cln"].at)}
	for _, n := range []string{"r1", "r2"} {
		r := c.rds[n]
		if r == nil {
			st.Rd[n] = x5RdSt{}
			continue
		}
		st.Rd[n] = x5RdSt{Alive: r.alive, C: r.c, Rev: r.rev, Pos: r.pos, Got: r.got}
	}
	st.Obs = c.obs
	if st.Obs.Ret == nil {
		st.Obs.Ret = []interface{}{}
	}
	return st
}

// ---- one behaviour ------------------------------------------------------------

func x5Message(ep int64, key string, id int64, exp int64) *Message {
	return &Message{MagicByte: 2, Key: []byte(key), Value: []byte(fmt.Sprintf("v%06d", id)), Timestamp: 1000 + id,
		LeaderEpoch: uint64(ep), Offset: exp}
}

func x5Opts(dir string, c *x5Ctl) Options {
	o := vOpts(dir, c.cap*c.unit, c.occ)
	o.Compact = c.compact
	o.CompactMaxGoroutines = 1
	o.MaxLogMessages = c.msgs
	return o
}

func x5NewCtl(t *testing.T, cfg map[string]interface{}) *x5Ctl {
	c := &x5Ctl{t: t, byGid: map[int64]*x5Proc{}, procs: map[string]*x5Proc{}, segIdx: map[*segment]int{},
		rds: map[string]*x5Rd{}, cap: vInt(cfg, "cap"), occ: vBool(cfg, "occ"), compact: vBool(cfg, "compact"),
		msgs: vIntDef(cfg, "msgs", 0)}
	ms, _, err := newMessageSetFromProto(0, 0, []*Message{x5Message(1, "a", 0, -1)}, false)
	if err != nil {
		t.Fatalf("probe message: %v", err)
	}
	c.unit = int64(len(ms))
	for _, n := range []string{"app", "trn", "cln"} {
		c.procs[n] = &x5Proc{name: n, ev: make(chan x5Event, 4), release: make(chan struct{}, 1)}
	}
	return c
}

func (c *x5Ctl) open(dir string) {
	c.dir = dir
	cl, err := New(x5Opts(dir, c))
	if err != nil {
		c.t.Fatalf("open commit log: %v", err)
	}
	c.l = cl.(*commitLog)
	c.segIndex(c.l.activeSegment())
}

// finish opens every gate and lets every call return
func (c *x5Ctl) finish() {
	atomic.StoreInt32(&c.free, 1)
	for _, n := range []string{"trn", "cln", "app"} {
		p := c.procs[n]
		if !p.busy {
			continue
		}
		if p.at != "" && p.at != "running" {
			p.release <- struct{}{}
		}
		deadline := time.After(x5Deadline)
		for p.busy {
			select {
			case ev := <-p.ev:
				if ev.gate != "" {
					p.release <- struct{}{}
					continue
				}
				c.arrived(p, ev)
			case <-deadline:
				c.fail = "timeout finishing " + p.name
				return
			}
		}
	}
}

func (c *x5Ctl) close() {
	atomic.StoreInt32(&c.free, 1)
	done := make(chan struct{})
	go func() { c.wg.Wait(); close(done) }()
	select {
	case <-done:
	case <-time.After(x5Deadline):
		c.t.Logf("goroutines did not exit")
	}
	func() {
		defer func() { recover() }()
		c.l.Close()
	}()
	os.RemoveAll(c.dir)
}

func x5CopyDir(src, dst string) error {
	ents, err := os.ReadDir(src)
	if err != nil {
		return err
	}
	for _, e := range ents {
		if e.IsDir() {
			continue
		}
		b, err := os.ReadFile(filepath.Join(src, e.Name()))
		if err != nil {
			if os.IsNotExist(err) {
				continue
			}
			return err
		}
		if err := os.WriteFile(filepath.Join(dst, e.Name()), b, 0644); err != nil {
			return err
		}
	}
	return nil
}

// crashImage: what a recovery finds on the disk as it is now
func (c *x5Ctl) crashImage() (obs x5Obs) {
	obs = x5Obs{A: "CrashImage", Ret: []interface{}{}}
	dst := vTempDir(c.t)
	defer os.RemoveAll(dst)
	if err := x5CopyDir(c.dir, dst); err != nil {
		c.fail = "copy of the log directory failed: " + err.Error()
		return obs
	}
	func() {
		defer func() {
			if x := recover(); x != nil {
				obs.Err = fmt.Sprintf("reopen-panic:%v", x)
			}
		}()
		cl, err := New(x5Opts(dst, c))
		if err != nil {
			obs.Err = "reopen:" + err.Error()
			return
		}
		l2 := cl.(*commitLog)
		defer l2.Close()
		for _, s := range l2.segments {
			for _, r := range x5ScanSeg(s) {
				obs.Ret = append(obs.Ret, r)
			}
		}
	}()
	return obs
}

func (c *x5Ctl) readNext(r *x5Rd) (obs x5Obs) {
	obs = x5Obs{A: "RdNext", Ret: []interface{}{}}
	defer func() {
		if x := recover(); x != nil {
			obs.Err = fmt.Sprintf("panic:%v", x)
			r.alive = false
		}
	}()
	headers := make([]byte, msgSetHeaderLen)
	var (
		m   SerializedMessage
		off int64
		ep  uint64
		err error
	)
	if r.rev {
		m, off, _, ep, err = r.rrdr.ReadMessage(context.Background(), headers)
	} else {
		m, off, _, ep, err = r.rdr.ReadMessage(vDoneCtx(), headers)
	}
	if err != nil {
		if cause := pkgErrors.Cause(err); cause == io.EOF || cause == ErrCommitLogReadonly {
			return obs // nothing (more) to deliver now
		}
		obs.Err = x5ErrClass(err)
		// an error of the documented class ends this read, not the reader: the caller may try again
		// (e.g. after the clean that replaced its segment has swapped the segment list)
		if obs.Err != "replaced" && obs.Err != "notfound" && obs.Err != "closed" {
			r.alive = false
		}
		return obs
	}
	rec := x5Rec{Off: off, Ep: int64(ep), Key: "?", ID: -1}
	func() {
		defer func() { recover() }()
		rec.Key = string(m.Key())
		v := string(m.Value())
		if len(v) == 7 && v[0] == 'v' {
			if id, e := strconv.ParseInt(v[1:], 10, 64); e == nil {
				rec.ID = id
			}
		}
	}()
	obs.Ret = append(obs.Ret, rec)
	r.got = true
	if r.rev {
		r.pos = off - 1
	} else {
		r.pos = off + 1
	}
	return obs
}

func (c *x5Ctl) exec(step map[string]interface{}, args map[string]interface{}) string {
	a := vStr(step, "a")
	c.obs = x5Obs{Ret: []interface{}{}}
	lockHeld := c.procs["trn"].busy
	switch a {
	case "AppBegin":
		p := c.procs["app"]
		batch := vList(step, "batch")
		args["batch"] = step["batch"]
		if p.busy {
			return "Skip"
		}
		msgs := []*Message{}
		for _, b := range batch {
			msgs = append(msgs, x5Message(vInt(b, "ep"), vStr(b, "key"), vInt(b, "id"), vIntDef(b, "exp", -1)))
		}
		c.spawn(p, func() x5Event {
			offs, err := c.l.Append(msgs)
			return x5Event{offs: offs, err: x5ErrClass(err)}
		})
		c.waitStop(p, false)
	case "AppSetBegin":
		// the follower's replicated append: the offsets come with the data
		p := c.procs["app"]
		batch := vList(step, "batch")
		args["batch"] = step["batch"]
		if p.busy || len(batch) == 0 {
			return "Skip"
		}
		msgs := []*Message{}
		for _, b := range batch {
			msgs = append(msgs, x5Message(vInt(b, "ep"), vStr(b, "key"), vInt(b, "id"), -1))
		}
		ms, _, err := newMessageSetFromProto(vInt(batch[0], "off"), 0, msgs, false)
		if err != nil {
			c.t.Fatalf("message set: %v", err)
		}
		c.spawn(p, func() x5Event {
			offs, err := c.l.AppendMessageSet(ms)
			return x5Event{offs: offs, err: x5ErrClass(err)}
		})
		c.waitStop(p, lockHeld)
		if p.at == "running" {
			a = "Blocked"
		}
	case "Reopen":
		if c.procs["app"].busy || c.procs["trn"].busy || c.procs["cln"].busy {
			return "Skip"
		}
		c.obs = x5Obs{A: "Reopen", Ret: []interface{}{}}
		func() {
			defer func() {
				if x := recover(); x != nil {
					c.obs.Err = fmt.Sprintf("reopen-panic:%v", x)
				}
			}()
			if err := c.l.Close(); err != nil {
				c.obs.Err = "close:" + err.Error()
				return
			}
			cl, err := New(x5Opts(c.dir, c))
			if err != nil {
				c.obs.Err = "reopen:" + err.Error()
				return
			}
			c.l = cl.(*commitLog)
		}()
		for _, r := range c.rds {
			r.alive, r.c, r.rev, r.pos, r.got = false, false, false, 0, false
		}
	case "TrnBegin":
		p := c.procs["trn"]
		o := vInt(step, "o")
		args["o"] = o
		if p.busy {
			return "Skip"
		}
		p.o = o
		c.spawn(p, func() x5Event {
			return x5Event{err: x5ErrClass(c.l.Truncate(o))}
		})
		c.waitStop(p, c.procs["cln"].busy)
		if p.at == "running" {
			a = "Blocked"
		}
	case "ClnBegin":
		p := c.procs["cln"]
		if p.busy || lockHeld {
			return "Skip"
		}
		c.spawn(p, func() x5Event {
			err := c.l.Clean()
			return x5Event{offs: []int64{c.l.OldestOffset()}, err: x5ErrClass(err)}
		})
		c.waitStop(p, false)
	case "Step":
		name := vStr(step, "p")
		args["p"] = name
		p := c.procs[name]
		if p == nil || p.at == "" || p.at == "running" {
			return "Skip"
		}
		// a step that needs the log mutex while the truncator holds it would block
		mayBlock := lockHeld && name != "trn"
		p.at = ""
		p.release <- struct{}{}
		c.waitStop(p, mayBlock)
		if p.at == "running" {
			a = "Blocked"
		}
	case "SetHW":
		h := vInt(step, "h")
		args["h"] = h
		if lockHeld {
			return "Skip"
		}
		c.l.SetHighWatermark(h)
		c.obs = x5Obs{A: "SetHW", Ret: []interface{}{}}
	case "NewEpoch":
		e := vInt(step, "e")
		args["e"] = e
		err := c.l.NewLeaderEpoch(uint64(e))
		c.obs = x5Obs{A: "NewLeaderEpoch", Ret: []interface{}{}, Err: x5ErrClass(err)}
	case "CrashImage":
		c.obs = c.crashImage()
	case "RdNew":
		name := vStr(step, "r")
		cm, rev, s := vBool(step, "c"), vBool(step, "rev"), vInt(step, "s")
		args["r"], args["c"], args["rev"], args["s"] = name, cm, rev, s
		if lockHeld || (c.rds[name] != nil && c.rds[name].alive) {
			return "Skip"
		}
		r := &x5Rd{c: cm, rev: rev, pos: s, alive: true}
		var err error
		func() {
			defer func() {
				if x := recover(); x != nil {
					err = fmt.Errorf("panic:%v", x)
				}
			}()
			if rev {
				r.rrdr, err = c.l.NewReverseReader(s, !cm)
			} else {
				r.rdr, err = c.l.NewReader(s, !cm)
			}
		}()
		c.obs = x5Obs{A: "RdNew", Ret: []interface{}{}, Err: x5ErrClass(err)}
		if err != nil {
			r.alive = false
		}
		c.rds[name] = r
	case "RdNext":
		name := vStr(step, "r")
		args["r"] = name
		r := c.rds[name]
		if lockHeld || r == nil || !r.alive {
			return "Skip"
		}
		c.obs = c.readNext(r)
	default:
		c.t.Fatalf("unknown action %q", a)
	}
	c.settle()
	return a
}

func TestVerifLogConc(t *testing.T) {
	sf := vLoadStimuli(t)
	tw := vOpenTrace(t)
	defer tw.Close()
	VerifGateHook = x5Hook(x5GatePc)
	VerifCrashHook = x5Hook(x5CrashPc)
	VerifIndexBytes = 16384
	defer func() { VerifGateHook, VerifCrashHook, VerifIndexBytes = nil, nil, 0 }()
	for _, b := range sf.Behaviours {
		dir := vTempDir(t)
		c := x5NewCtl(t, b.Cfg)
		c.open(dir)
		x5Current.Store(c)
		tw.Emit(x5Line{T: b.ID, A: "Open", Args: map[string]interface{}{}, St: c.project()})
		for _, step := range b.Steps {
			args := map[string]interface{}{}
			a := c.exec(step, args)
			if c.fail != "" {
				break
			}
			tw.Emit(x5Line{T: b.ID, A: a, Args: args, St: c.project()})
		}
		if c.fail == "" {
			c.obs = x5Obs{Ret: []interface{}{}}
			c.finish()
		}
		if c.fail != "" {
			tw.Emit(x5Line{T: b.ID, A: "Timeout", Args: map[string]interface{}{}, St: x5State{}, Note: c.fail})
		} else {
			tw.Emit(x5Line{T: b.ID, A: "Quiet", Args: map[string]interface{}{}, St: c.project()})
		}
		x5Current.Store(nil)
		c.close()
	}
}
