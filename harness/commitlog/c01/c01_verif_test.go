//go:build verif

package commitlog

// Lock-step replay of CommitLog.tla behaviours on the real commit log
// (properties C01, C16 at commit-log level, safety part of C03).
//
// Every step of a behaviour is an intent (Append a batch, Truncate at o, ...);
// it is executed against whatever state the real log is in and one ndjson line
// is written with the call's arguments, its results and the projected abstract
// state after the call.  The verdict is taken by TLC (Trace_CommitLog.tla).

import (
	"context"
	"fmt"
	"io"
	"os"
	"runtime"
	"strconv"
	"strings"
	"sync"
	"syscall"
	"testing"
	"time"

	pkgErrors "github.com/pkg/errors"
)

type vRdState struct {
	Alive  bool  `json:"alive"`
	C      bool  `json:"c"`
	Next   int64 `json:"next"`
	Parked bool  `json:"parked"`
	Base   int64 `json:"base"`
}

type vCfg struct {
	MaxBytes int64 `json:"maxBytes"`
	Occ      bool  `json:"occ"`
}

type vState struct {
	Cfg    vCfg                `json:"cfg"`
	Log    []vRec              `json:"log"`
	Segs   []vSeg              `json:"segs"`
	HW     int64               `json:"hw"`
	Epochs []vEpoch            `json:"epochs"`
	Ro     bool                `json:"ro"`
	Rd     map[string]vRdState `json:"rd"`
}

type vObs struct {
	A   string      `json:"a"`
	Ret interface{} `json:"ret"`
	Err string      `json:"err"`
}

type vReadBack struct {
	S    int64    `json:"s"`
	C    bool     `json:"c"`
	Kind string   `json:"kind"`
	Fps  []string `json:"fps"`
}

type vEvent struct {
	T    int                    `json:"t"`
	A    string                 `json:"a"`
	Args map[string]interface{} `json:"args"`
	St   vState                 `json:"st"`
	Obs  vObs                   `json:"obs"`
	Rb   []vReadBack            `json:"rb"`
	// Crash: the call panicked inside the commit log, or the log could not be
	// opened again; the behaviour ends here and St is the last recorded state
	Crash bool `json:"crash"`
	// Hang: the call did not return and its goroutine kept burning CPU inside the
	// commit log (a loop that makes no progress); the behaviour ends here and St is
	// the last recorded state
	Hang bool `json:"hang"`
}

// vTail is a persistent reader that is read by its own goroutine with a live
// context, so that it really blocks at the end of the log (or at the HW) and is
// woken by later appends / HW advances / segment rolls.
type vTail struct {
	mu     sync.Mutex
	got    []vRec
	err    string
	done   chan struct{}
	cancel context.CancelFunc
}

func (tl *vTail) take() ([]vRec, string) {
	tl.mu.Lock()
	defer tl.mu.Unlock()
	g, e := tl.got, tl.err
	tl.got = nil
	return g, e
}

func (tl *vTail) count() int {
	tl.mu.Lock()
	defer tl.mu.Unlock()
	return len(tl.got)
}

func vStartTail(rdr *Reader) *vTail {
	ctx, cancel := context.WithCancel(context.Background())
	tl := &vTail{done: make(chan struct{}), cancel: cancel}
	go func() {
		defer close(tl.done)
		defer func() {
			if p := recover(); p != nil {
				tl.mu.Lock()
				tl.err = fmt.Sprintf("panic:%v", p)
				tl.mu.Unlock()
			}
		}()
		headers := make([]byte, msgSetHeaderLen)
		for i := 0; i < vMaxRead; i++ {
			m, off, ts, ep, err := rdr.ReadMessage(ctx, headers)
			if err != nil {
				if ctx.Err() == nil {
					c := pkgErrors.Cause(err)
					if c != ErrCommitLogReadonly && err != ErrCommitLogReadonly {
						tl.mu.Lock()
						tl.err = "error:" + err.Error()
						tl.mu.Unlock()
					}
				}
				return
			}
			rec := vDecode(m, off, ts, ep)
			tl.mu.Lock()
			tl.got = append(tl.got, rec)
			tl.mu.Unlock()
		}
	}()
	return tl
}

// vParked reports whether the reader's goroutine is registered as a waiter
// (for data on a segment, or for the HW on the log).
func vParked(l *commitLog, rdr *Reader) bool {
	switch cr := rdr.ctxReader.(type) {
	case *uncommittedReader:
		for _, s := range l.Segments() {
			s.RLock()
			_, ok := s.waiters[cr]
			s.RUnlock()
			if ok {
				return true
			}
		}
	case *committedReader:
		l.mu.RLock()
		_, ok := l.hwWaiters[cr]
		l.mu.RUnlock()
		return ok
	}
	return false
}

type vC01Run struct {
	tails map[string]*vTail
	t       *testing.T
	dir     string
	cfg     vCfg
	l       *commitLog
	readers map[string]*Reader
	rd      map[string]vRdState
	dead    bool   // the log crashed or could not be reopened: the behaviour ends
	hung    bool   // the last call never returned (see watch): the behaviour ends
	last    vState // state recorded after the previous step
}

func (r *vC01Run) open() error {
	cl, err := New(vOpts(r.dir, r.cfg.MaxBytes, r.cfg.Occ))
	if err != nil {
		return err
	}
	r.l = cl.(*commitLog)
	return nil
}

// vPanicInHarness reports whether the innermost non-runtime frame of a panic is a
// harness file (then it is a harness bug and is not turned into an observation).
// vReadN reads at most n records without blocking.
func vReadN(r *Reader, n int) (recs []vRec, errStr string) {
	headers := make([]byte, msgSetHeaderLen)
	ctx := vDoneCtx()
	for i := 0; i < n; i++ {
		m, off, ts, ep, err := r.ReadMessage(ctx, headers)
		if err != nil {
			if c := pkgErrors.Cause(err); c == io.EOF || c == ErrCommitLogReadonly || err == ErrCommitLogReadonly {
				return recs, ""
			}
			return recs, "error:" + err.Error()
		}
		recs = append(recs, vDecode(m, off, ts, ep))
	}
	return recs, ""
}

func vPanicInHarness() bool {
	pcs := make([]uintptr, 64)
	n := runtime.Callers(3, pcs)
	frames := runtime.CallersFrames(pcs[:n])
	for {
		f, more := frames.Next()
		if !strings.HasPrefix(f.Function, "runtime.") {
			return strings.Contains(f.File, "_verif_test.go")
		}
		if !more {
			return true
		}
	}
}

func (r *vC01Run) state() vState {
	rd := map[string]vRdState{}
	for k, v := range r.rd {
		rd[k] = v
	}
	return vState{
		Cfg:    r.cfg,
		Log:    vScanAll(r.l),
		Segs:   vSegs(r.l),
		HW:     r.l.HighWatermark(),
		Epochs: vEpochs(r.l),
		Ro:     r.l.IsReadonly(),
		Rd:     rd,
	}
}

func (r *vC01Run) readBacks(newest int64) []vReadBack {
	out := []vReadBack{}
	hi := newest + 2
	if hi > 14 {
		hi = 14
	}
	for s := int64(-1); s <= hi; s++ {
		for _, c := range []bool{false, true} {
			if c && s < 0 {
				// a committed reader is only ever started at a real offset
				continue
			}
			res := vReadFrom(r.l, s, c)
			out = append(out, vReadBack{S: s, C: c, Kind: res.Kind, Fps: vFps(res.Recs)})
		}
	}
	return out
}

// collectTail waits until the tailing reader is blocked again (or has ended) and
// returns what it delivered since the last collection.
func (r *vC01Run) collectTail(name string) ([]vRec, string) {
	tl := r.tails[name]
	rdr := r.readers[name]
	deadline := time.Now().Add(2 * time.Second)
	for time.Now().Before(deadline) {
		select {
		case <-tl.done:
			got, e := tl.take()
			delete(r.tails, name)
			if e == "" {
				// the reader ended (read-only end of log): it is an ordinary reader again
				return got, ""
			}
			return got, e
		default:
		}
		if vParked(r.l, rdr) {
			n := tl.count()
			time.Sleep(200 * time.Microsecond)
			if vParked(r.l, rdr) && tl.count() == n {
				got, e := tl.take()
				return got, e
			}
		}
		// An uncommitted reader at the end of a FULL active segment never registers
		// as a waiter (the code spins until the next segment appears): it is
		// quiescent once it has delivered the newest record.
		if _, unc := rdr.ctxReader.(*uncommittedReader); unc {
			act := r.l.activeSegment()
			if act.Position() >= act.maxBytes && r.tailReached(name, tl) {
				time.Sleep(time.Millisecond)
				got, e := tl.take()
				return got, e
			}
		}
		time.Sleep(100 * time.Microsecond)
	}
	got, _ := tl.take()
	return got, "not-parked"
}

// tailReached reports whether the tailing reader has delivered up to the newest offset.
func (r *vC01Run) tailReached(name string, tl *vTail) bool {
	newest := r.l.NewestOffset()
	tl.mu.Lock()
	defer tl.mu.Unlock()
	if n := len(tl.got); n > 0 {
		return tl.got[n-1].Off >= newest
	}
	return r.rd[name].Next > newest
}

// stopTails ends every tailing goroutine (before operations that invalidate or
// replace readers); the readers stay usable for non-blocking drains.
func (r *vC01Run) stopTails() {
	for name, tl := range r.tails {
		tl.cancel()
		<-tl.done
		delete(r.tails, name)
	}
}

func vErrClass(err error) string {
	switch err {
	case nil:
		return ""
	case ErrCommitLogReadonly:
		return "readonly"
	case ErrIncorrectOffset:
		return "incorrect_offset"
	}
	return "other:" + err.Error()
}

func vFpAt(log []vRec, off int64) string {
	for _, r := range log {
		if r.Off == off {
			return r.Fp
		}
	}
	return ""
}

// ---- watchdog ---------------------------------------------------------------
//
// A call into the commit log that never returns is an observation (obs hang,
// judged by C01_NoHang), but only when it is certain that the call is not merely
// slow: the criterion is the CPU time its own OS thread has consumed, which a
// loaded machine cannot inflate (a step of these small logs needs milliseconds
// of CPU; a call that is blocked or starved accumulates none).  A call that is
// still out after the wall-clock limit without having burnt that much CPU ends
// the test run (harness failure -> inconclusive, exit 2), never a verdict.

func vEnvSeconds(name string, def float64) float64 {
	if v, err := strconv.ParseFloat(os.Getenv(name), 64); err == nil && v > 0 {
		return v
	}
	return def
}

// vThreadCPU returns the CPU seconds (user + system) consumed by the OS thread
// tid of this process, or -1 if it cannot be read.
func vThreadCPU(tid int) float64 {
	b, err := os.ReadFile(fmt.Sprintf("/proc/self/task/%d/stat", tid))
	if err != nil {
		return -1
	}
	s := string(b)
	i := strings.LastIndexByte(s, ')')
	if i < 0 {
		return -1
	}
	f := strings.Fields(s[i+1:]) // f[0] = state (field 3); utime, stime = fields 14, 15
	if len(f) < 13 {
		return -1
	}
	ut, err1 := strconv.ParseInt(f[11], 10, 64)
	st, err2 := strconv.ParseInt(f[12], 10, 64)
	if err1 != nil || err2 != nil {
		return -1
	}
	return float64(ut+st) / 100 // USER_HZ
}

// vWhereIs returns the innermost frame of the watched goroutine that lies in
// the commit log package and whether that frame is harness code.
func vWhereIs() (where string, harness bool) {
	buf := make([]byte, 1<<20)
	buf = buf[:runtime.Stack(buf, true)]
	for _, g := range strings.Split(string(buf), "\n\n") {
		if !strings.Contains(g, "vC01Run).watch.func") {
			continue
		}
		lines := strings.Split(g, "\n")
		for i := 1; i+1 < len(lines); i += 2 {
			file := strings.TrimSpace(lines[i+1])
			if strings.Contains(file, "/server/commitlog/") {
				if j := strings.IndexByte(file, ' '); j > 0 {
					file = file[:j]
				}
				fn := lines[i]
				if j := strings.LastIndexByte(fn, '('); j > 0 {
					fn = fn[:j]
				}
				fn = fn[strings.LastIndexByte(fn, '/')+1:]
				file = file[strings.LastIndexByte(file, '/')+1:]
				return fn + " " + file, strings.Contains(file, "_test.go")
			}
		}
	}
	return "", true
}

// watch runs one call into the commit log on its own OS thread.  It returns ""
// when the call returned (a panic of the call is re-raised to the caller, with
// inHarness telling whether it came from harness code) or the place where the
// call is spinning.
func (r *vC01Run) watch(call func()) (where string) {
	var (
		cpuLimit  = vEnvSeconds("VERIF_HANG_CPU_S", 8)
		wallLimit = vEnvSeconds("VERIF_HANG_WALL_S", 300)
		tidCh     = make(chan int, 1)
		done      = make(chan struct{})
		pval      interface{}
		pharness  bool
	)
	go func() {
		defer close(done)
		runtime.LockOSThread()
		defer runtime.UnlockOSThread()
		tidCh <- syscall.Gettid()
		defer func() {
			if p := recover(); p != nil {
				pval, pharness = p, vPanicInHarness()
			}
		}()
		call()
	}()
	tid := <-tidCh
	cpu0 := vThreadCPU(tid)
	start := time.Now()
	tick := time.NewTimer(50 * time.Millisecond)
	defer tick.Stop()
	for {
		select {
		case <-done:
			if pval != nil {
				if pharness {
					panic(pval)
				}
				panic(vLogPanic{pval})
			}
			return ""
		case <-tick.C:
		}
		tick.Reset(250 * time.Millisecond)
		cpu := vThreadCPU(tid)
		if cpu0 >= 0 && cpu >= 0 && cpu-cpu0 >= cpuLimit {
			w, harness := vWhereIs()
			if harness {
				r.t.Fatalf("a step has used %.1f s of CPU in harness code without returning (%s)", cpu-cpu0, w)
			}
			return w
		}
		if time.Since(start).Seconds() > wallLimit {
			w, _ := vWhereIs()
			r.t.Fatalf("a step did not return within %.0f s (%.1f s of CPU used, at %s): blocked or starved, no verdict",
				wallLimit, cpu-cpu0, w)
		}
	}
}

// vLogPanic wraps a panic raised inside the commit log by a watched call.
type vLogPanic struct{ p interface{} }

func (r *vC01Run) step(id int, step map[string]interface{}) vEvent {
	var (
		a    = vStr(step, "a")
		args = map[string]interface{}{}
		obs  = vObs{A: a, Ret: []int64{}}
		recs []vArgRec
	)
	func() {
		defer func() {
			if p := recover(); p != nil {
				if lp, ok := p.(vLogPanic); ok {
					// raised inside the commit log by a watched call
					p = lp.p
				} else if vPanicInHarness() {
					panic(p)
				}
				obs.Err = fmt.Sprintf("panic:%v", p)
				r.dead = true
			}
		}()
		// calls that write to the log run under the watchdog
		watched := func(call func()) {
			if w := r.watch(call); w != "" {
				obs.Err = "hang:" + w
				r.dead, r.hung = true, true
			}
		}
		switch a {
		case "Append":
			msgs := []*Message{}
			for _, sr := range vList(step, "recs") {
				m, ar := vBuildMsg(sr)
				msgs = append(msgs, m)
				recs = append(recs, ar)
			}
			watched(func() {
				offs, err := r.l.Append(msgs)
				obs.Err = vErrClass(err)
				if offs != nil {
					obs.Ret = offs
				}
			})
		case "AppendSet":
			msgs := []*Message{}
			base := r.l.NewestOffset() + 1
			if rl := vList(step, "recs"); len(rl) > 0 {
				// the offsets come with the data (a replica that joins late starts above 0)
				base = vIntDef(rl[0], "off", base)
			}
			for i, sr := range vList(step, "recs") {
				m, ar := vBuildMsg(sr)
				ar.Off = base + int64(i)
				msgs = append(msgs, m)
				recs = append(recs, ar)
			}
			ms, _, err := newMessageSetFromProto(base, 0, msgs, false)
			if err != nil {
				panic(err)
			}
			watched(func() {
				offs, err := r.l.AppendMessageSet(ms)
				obs.Err = vErrClass(err)
				if offs != nil {
					obs.Ret = offs
				}
			})
		case "Truncate":
			r.stopTails()
			o := vInt(step, "o")
			args["o"] = o
			hadRecords := r.l.OldestOffset() != -1
			watched(func() { obs.Err = vErrClass(r.l.Truncate(o)) })
			if r.hung {
				return
			}
			emptied := hadRecords && r.l.OldestOffset() == -1
			for k, v := range r.rd {
				// (a truncation that empties the log ends every reader, see CommitLog.tla)
				if v.Alive && (v.Next >= o || emptied) {
					r.rd[k] = vRdState{}
					delete(r.readers, k)
				}
			}
		case "SetHW":
			h := vInt(step, "h")
			args["h"] = h
			r.l.SetHighWatermark(h)
		case "NewLeaderEpoch":
			e := vInt(step, "e")
			args["e"] = e
			obs.Err = vErrClass(r.l.NewLeaderEpoch(uint64(e)))
		case "SetReadonly":
			b := vBool(step, "b")
			args["b"] = b
			r.l.SetReadonly(b)
		case "Reopen":
			r.stopTails()
			if err := r.l.Close(); err != nil {
				obs.Err = vErrClass(err)
			}
			if err := r.open(); err != nil {
				obs.Err = "open_failed:" + err.Error()
				r.dead = true
				return
			}
			r.readers = map[string]*Reader{}
			r.rd = map[string]vRdState{"r1": {}, "r2": {}}
		case "NewReader":
			name, s, c := vStr(step, "r"), vInt(step, "s"), vBool(step, "c")
			args["r"], args["s"], args["c"] = name, s, c
			// documented contract: a committed reader beyond the HW (or on an
			// empty log) waits; observed before the call, not predicted
			hwNow := r.l.HighWatermark()
			parked := c && (s > hwNow || r.l.OldestOffset() == -1)
			base := s
			if parked {
				base = hwNow + 1
			}
			rdr, err := r.l.NewReader(s, !c)
			if err != nil {
				obs.Err = "reader"
				r.rd[name] = vRdState{}
				delete(r.readers, name)
			} else {
				r.readers[name] = rdr
				r.rd[name] = vRdState{Alive: true, C: c, Next: s, Parked: parked, Base: base}
			}
		case "Drain", "Tail", "Read":
			name := vStr(step, "r")
			args["r"] = name
			rdr, ok := r.readers[name]
			if !ok {
				obs.A, a = "Skip", "Skip"
				return
			}
			var got []vRec
			var e string
			if a == "Tail" && r.tails[name] == nil {
				r.tails[name] = vStartTail(rdr)
			}
			if a == "Read" && r.tails[name] == nil {
				// at most k records, then the reader pauses (it carries on with a later step)
				k := vInt(step, "k")
				args["k"] = k
				obs.A = "Read"
				got, e = vReadN(rdr, int(k))
			} else {
				// (a Read of a reader that is being tailed by its own goroutine is a Drain:
				// the trace records what was really done)
				obs.A, a = "Drain", "Drain"
				if r.tails[name] != nil {
					got, e = r.collectTail(name)
				} else {
					got, e = vDrain(rdr)
				}
			}
			obs.Ret = vFps(got)
			if e != "" {
				// a reader that failed is not used again
				obs.Err = e
				if tl := r.tails[name]; tl != nil {
					tl.cancel()
					delete(r.tails, name)
				}
				delete(r.readers, name)
				r.rd[name] = vRdState{}
			}
			if len(got) > 0 {
				st := r.rd[name]
				st.Next = got[len(got)-1].Off + 1
				st.Parked = false
				r.rd[name] = st
			}
		default:
			r.t.Fatalf("unknown action %q", a)
		}
	}()
	if r.dead {
		if recs != nil {
			args["recs"] = recs
		}
		if r.hung {
			// (the spinning goroutine may still write to obs: record a copy made now)
			return vEvent{T: id, A: a, Args: args, St: r.last, Obs: vObs{A: a, Ret: []int64{}, Err: obs.Err},
				Rb: []vReadBack{}, Hang: true}
		}
		return vEvent{T: id, A: a, Args: args, St: r.last, Obs: obs, Rb: []vReadBack{}, Crash: true}
	}
	st := r.state()
	r.last = st
	if recs != nil {
		offs, _ := obs.Ret.([]int64)
		for i := range recs {
			if i < len(offs) {
				recs[i].Fp = vFpAt(st.Log, offs[i])
			}
		}
		args["recs"] = recs
	}
	newest := int64(-1)
	if n := len(st.Log); n > 0 {
		newest = st.Log[n-1].Off
	}
	return vEvent{T: id, A: a, Args: args, St: st, Obs: obs, Rb: r.readBacks(newest)}
}

func TestVerifCommitLog(t *testing.T) {
	sf := vLoadStimuli(t)
	tw := vOpenTrace(t)
	defer tw.Close()
	hangs := 0
	for _, b := range sf.Behaviours {
		if hangs >= 3 {
			// every hang leaves a goroutine spinning for the rest of the process:
			// three are enough for a verdict, the remaining behaviours are not run
			break
		}
		// index pre-allocation in bytes (0 = the default 10 MiB): small values make index growth reachable
		VerifIndexBytes = vIntDef(b.Cfg, "idx", 0)
		run := &vC01Run{
			t:       t,
			dir:     vTempDir(t),
			cfg:     vCfg{MaxBytes: vInt(b.Cfg, "maxBytes"), Occ: vBool(b.Cfg, "occ")},
			readers: map[string]*Reader{},
			tails:   map[string]*vTail{},
			rd:      map[string]vRdState{"r1": {}, "r2": {}},
		}
		if err := run.open(); err != nil {
			t.Fatalf("open commit log: %v", err)
		}
		st := run.state()
		run.last = st
		tw.Emit(vEvent{T: b.ID, A: "Open", Args: map[string]interface{}{}, St: st,
			Obs: vObs{A: "Open", Ret: []int64{}}, Rb: run.readBacks(-1)})
		for _, step := range b.Steps {
			tw.Emit(run.step(b.ID, step))
			if run.dead {
				break
			}
			// readers that are blocked in their own goroutine were woken by the step:
			// what they delivered is recorded as a Drain of that reader
			for _, name := range []string{"r1", "r2"} {
				if run.tails[name] != nil && vStr(step, "a") != "Tail" && vStr(step, "a") != "Drain" {
					tw.Emit(run.step(b.ID, map[string]interface{}{"a": "Drain", "r": name}))
				}
			}
		}
		run.stopTails()
		if run.hung {
			// the call is still running in this log: leave the log and its files alone
			// (the directory lies in the scratch TMPDIR of the run)
			hangs++
			continue
		}
		if !run.dead {
			run.l.Close()
		}
		os.RemoveAll(run.dir)
	}
}
