//go:build verif

package commitlog

// Shared helpers of the verification harnesses (package commitlog).
// Everything here is test-only and compiled only with `-tags verif`; the files
// are injected with `go test -overlay`, /repo is never modified.

import (
	"bufio"
	"context"
	"encoding/json"
	"fmt"
	"hash/crc32"
	"io"
	"os"
	"sort"
	"strings"
	"testing"
	"time"

	pkgErrors "github.com/pkg/errors"
)

// ---- stimulus / trace I/O -------------------------------------------------

type vStimFile struct {
	Behaviours []vBehaviour `json:"behaviours"`
}

type vBehaviour struct {
	ID    int                      `json:"id"`
	Cfg   map[string]interface{}   `json:"cfg"`
	Steps []map[string]interface{} `json:"steps"`
}

func vLoadStimuli(t *testing.T) *vStimFile {
	p := os.Getenv("VERIF_STIMULI")
	if p == "" {
		t.Skip("VERIF_STIMULI not set")
	}
	b, err := os.ReadFile(p)
	if err != nil {
		t.Fatalf("read stimuli: %v", err)
	}
	var sf vStimFile
	if err := json.Unmarshal(b, &sf); err != nil {
		t.Fatalf("parse stimuli: %v", err)
	}
	return &sf
}

type vTraceWriter struct {
	f *os.File
	w *bufio.Writer
}

func vOpenTrace(t *testing.T) *vTraceWriter {
	p := os.Getenv("VERIF_TRACE_OUT")
	if p == "" {
		t.Fatalf("VERIF_TRACE_OUT not set")
	}
	f, err := os.Create(p)
	if err != nil {
		t.Fatalf("create trace: %v", err)
	}
	return &vTraceWriter{f: f, w: bufio.NewWriterSize(f, 1<<20)}
}

func (tw *vTraceWriter) Emit(ev interface{}) {
	b, err := json.Marshal(ev)
	if err != nil {
		panic(err)
	}
	tw.w.Write(b)
	tw.w.WriteByte('\n')
}

func (tw *vTraceWriter) Close() {
	tw.w.Flush()
	tw.f.Close()
}

func vInt(m map[string]interface{}, k string) int64 {
	v, ok := m[k]
	if !ok {
		panic("missing int field " + k)
	}
	return int64(v.(float64))
}

func vIntDef(m map[string]interface{}, k string, d int64) int64 {
	v, ok := m[k]
	if !ok {
		return d
	}
	return int64(v.(float64))
}

func vStr(m map[string]interface{}, k string) string {
	v, ok := m[k]
	if !ok {
		panic("missing string field " + k)
	}
	return v.(string)
}

func vStrDef(m map[string]interface{}, k, d string) string {
	v, ok := m[k]
	if !ok {
		return d
	}
	return v.(string)
}

func vBool(m map[string]interface{}, k string) bool {
	v, ok := m[k]
	if !ok {
		return false
	}
	return v.(bool)
}

func vList(m map[string]interface{}, k string) []map[string]interface{} {
	v, ok := m[k]
	if !ok {
		return nil
	}
	arr := v.([]interface{})
	out := make([]map[string]interface{}, len(arr))
	for i, x := range arr {
		out[i] = x.(map[string]interface{})
	}
	return out
}

// ---- payloads -------------------------------------------------------------

// vUnit is the encoded size the harness pads "short" records to, so that the
// real log rolls segments exactly where the model (capacity in units) does.
const vUnit = 128

// vRec is the abstract record used in traces.
type vRec struct {
	Off int64  `json:"off"`
	Ep  int64  `json:"ep"`
	Ts  int64  `json:"ts"`
	Key string `json:"key"`
	Val string `json:"val"`
	Hdr string `json:"hdr"`
	Sz  int64  `json:"sz"`
	Fp  string `json:"fp"`
}

// vArgRec is a record as passed to an append (what must be read back).
type vArgRec struct {
	Off int64  `json:"off"`
	Ep  int64  `json:"ep"`
	Ts  int64  `json:"ts"`
	Key string `json:"key"`
	Val string `json:"val"`
	Hdr string `json:"hdr"`
	Sz  int64  `json:"sz"`
	Fp  string `json:"fp"`
	Exp int64  `json:"exp"`
}

func vKeyBytes(class string) []byte {
	switch class {
	case "nil":
		return nil
	case "empty":
		return []byte{}
	case "big":
		return []byte(strings.Repeat("K", 300))
	default:
		return []byte(class)
	}
}

func vKeyClass(b []byte) string {
	if b == nil {
		return "nil"
	}
	if len(b) == 0 {
		return "empty"
	}
	if len(b) == 300 && string(b) == strings.Repeat("K", 300) {
		return "big"
	}
	if len(b) > 16 {
		return fmt.Sprintf("?%d:%08x", len(b), crc32.ChecksumIEEE(b))
	}
	return string(b)
}

func vHdrMap(class string) map[string][]byte {
	switch class {
	case "nil":
		return nil
	case "empty":
		return map[string][]byte{}
	case "one":
		return map[string][]byte{"h": []byte("x")}
	case "two":
		return map[string][]byte{"a": []byte("1"), "b": []byte(strings.Repeat("H", 40))}
	case "emptyval":
		return map[string][]byte{"h": {}}
	case "nilval":
		return map[string][]byte{"h": nil}
	case "mixed2":
		return map[string][]byte{"p": []byte("pv"), "q": nil}
	case "mixed3":
		return map[string][]byte{"a": []byte("trace-1"), "n": nil, "z": {}}
	}
	panic("unknown header class " + class)
}

// vHdrString is the canonical text of a header map (what is compared).
func vHdrString(h map[string][]byte) string {
	if len(h) == 0 {
		return "none"
	}
	keys := make([]string, 0, len(h))
	for k := range h {
		keys = append(keys, k)
	}
	sort.Strings(keys)
	parts := make([]string, 0, len(keys))
	for _, k := range keys {
		v := h[k]
		if v == nil {
			// a nil header value is stored as such (length -1) and is not an empty one
			parts = append(parts, k+"=~nil")
		} else if len(v) > 8 {
			parts = append(parts, fmt.Sprintf("%s=#%d:%08x", k, len(v), crc32.ChecksumIEEE(v)))
		} else {
			parts = append(parts, k+"="+string(v))
		}
	}
	return strings.Join(parts, ",")
}

func vEncodedSize(key, val []byte, hdr map[string][]byte) int64 {
	n := int64(msgSetHeaderLen) + 4 + 1 + 1 + 4 + int64(len(key)) + 4 + int64(len(val)) + 2
	for k, v := range hdr {
		n += 2 + int64(len(k)) + 4 + int64(len(v))
	}
	return n
}

// vValBytes builds the value for id with class vc; "short" values are padded so
// that the whole encoded record is szc*vUnit bytes when that is possible.
func vValBytes(id, vc string, szc int64, key []byte, hdr map[string][]byte) []byte {
	switch vc {
	case "nil":
		return nil
	case "empty":
		return []byte{}
	case "big":
		return []byte(id + "|" + strings.Repeat("B", 1000))
	}
	base := vEncodedSize(key, []byte(id+"|"), hdr)
	pad := szc*vUnit - base
	if pad < 0 {
		pad = 0
	}
	return []byte(id + "|" + strings.Repeat(".", int(pad)))
}

func vValString(b []byte) string {
	if b == nil {
		return "nil"
	}
	if len(b) == 0 {
		return "empty"
	}
	s := string(b)
	i := strings.IndexByte(s, '|')
	if i <= 0 {
		return fmt.Sprintf("?%d:%08x", len(b), crc32.ChecksumIEEE(b))
	}
	rest := s[i+1:]
	if strings.Trim(rest, ".") != "" && rest != strings.Repeat("B", 1000) {
		return fmt.Sprintf("?%d:%08x", len(b), crc32.ChecksumIEEE(b))
	}
	return s[:i]
}

// vBuildMsg turns a stimulus record into a Message plus the abstract record
// that must be read back (without offset and fingerprint).
func vBuildMsg(r map[string]interface{}) (*Message, vArgRec) {
	var (
		kc  = vStrDef(r, "key", "nil")
		vc  = vStrDef(r, "vc", "short")
		hc  = vStrDef(r, "hc", "nil")
		id  = fmt.Sprintf("v%d", vInt(r, "val"))
		szc = vIntDef(r, "sz", 1)
		key = vKeyBytes(kc)
		hdr = vHdrMap(hc)
		val = vValBytes(id, vc, szc, key, hdr)
	)
	m := &Message{
		MagicByte:   2,
		Key:         key,
		Value:       val,
		Headers:     hdr,
		Timestamp:   vInt(r, "ts"),
		LeaderEpoch: uint64(vInt(r, "ep")),
		Offset:      vIntDef(r, "exp", -1),
	}
	a := vArgRec{
		Off: vIntDef(r, "off", -1),
		Ep:  vInt(r, "ep"),
		Ts:  vInt(r, "ts"),
		Key: vKeyClass(key),
		Val: vValString(val),
		Hdr: vHdrString(hdr),
		Sz:  vEncodedSize(key, val, hdr),
		Exp: vIntDef(r, "exp", -1),
	}
	return m, a
}

// ---- projection -----------------------------------------------------------

func vDoneCtx() context.Context {
	ctx, cancel := context.WithCancel(context.Background())
	cancel()
	return ctx
}

func vFingerprint(off, ts int64, ep uint64, m SerializedMessage) string {
	h := crc32.NewIEEE()
	fmt.Fprintf(h, "%d|%d|%d|", off, ts, ep)
	h.Write(m)
	return fmt.Sprintf("%08x", h.Sum32())
}

// vDecode turns what a reader returned into the abstract record; a panic while
// decoding (corrupt bytes) is reported in the record instead of killing the run.
func vDecode(m SerializedMessage, off, ts int64, ep uint64) (rec vRec) {
	rec = vRec{Off: off, Ep: int64(ep), Ts: ts, Sz: int64(len(m)) + msgSetHeaderLen,
		Fp: vFingerprint(off, ts, ep, m)}
	defer func() {
		if p := recover(); p != nil {
			rec.Key, rec.Val, rec.Hdr = "panic", "panic", fmt.Sprintf("panic:%v", p)
		}
	}()
	rec.Key = vKeyClass(m.Key())
	rec.Val = vValString(m.Value())
	rec.Hdr = vHdrString(m.Headers())
	return rec
}

type vReadResult struct {
	Kind string // "ok" | "err" (reader could not be created) | "panic"
	Recs []vRec
	Err  string
}

const vMaxRead = 4096

// vDrain reads everything a reader delivers without blocking (the context is
// already cancelled, so a reader that would wait returns instead).
func vDrain(r *Reader) (recs []vRec, errStr string) {
	defer func() {
		if p := recover(); p != nil {
			errStr = fmt.Sprintf("panic:%v", p)
		}
	}()
	headers := make([]byte, msgSetHeaderLen)
	ctx := vDoneCtx()
	for i := 0; i < vMaxRead; i++ {
		m, off, ts, ep, err := r.ReadMessage(ctx, headers)
		if err != nil {
			if c := pkgErrors.Cause(err); c == io.EOF || c == ErrCommitLogReadonly || err == ErrCommitLogReadonly {
				// the reader would block (cancelled context)
				return recs, ""
			}
			return recs, "error:" + err.Error()
		}
		recs = append(recs, vDecode(m, off, ts, ep))
	}
	return recs, "runaway"
}

func vReadFrom(l *commitLog, start int64, committed bool) (res vReadResult) {
	defer func() {
		if p := recover(); p != nil {
			res.Kind, res.Err = "panic", fmt.Sprintf("%v", p)
		}
	}()
	r, err := l.NewReader(start, !committed)
	if err != nil {
		return vReadResult{Kind: "err", Err: err.Error()}
	}
	recs, e := vDrain(r)
	if e != "" {
		return vReadResult{Kind: "panic", Recs: recs, Err: e}
	}
	return vReadResult{Kind: "ok", Recs: recs}
}

func vReadReverse(l *commitLog, start int64, committed bool) (res vReadResult) {
	defer func() {
		if p := recover(); p != nil {
			res.Kind, res.Err = "panic", fmt.Sprintf("%v", p)
		}
	}()
	r, err := l.NewReverseReader(start, !committed)
	if err != nil {
		return vReadResult{Kind: "err", Err: err.Error()}
	}
	headers := make([]byte, msgSetHeaderLen)
	ctx := context.Background()
	for i := 0; i < vMaxRead; i++ {
		m, off, ts, ep, err := r.ReadMessage(ctx, headers)
		if err != nil {
			return res.withKind("ok")
		}
		res.Recs = append(res.Recs, vDecode(m, off, ts, ep))
	}
	return res.withKind("panic")
}

func (r vReadResult) withKind(k string) vReadResult { r.Kind = k; return r }

// vScanAll is the full content of the log as an uncommitted reader sees it
// from the very beginning.
func vScanAll(l *commitLog) []vRec {
	res := vReadFrom(l, 0, false)
	if res.Recs == nil {
		return []vRec{}
	}
	return res.Recs
}

type vSeg struct {
	Base  int64 `json:"base"`
	Bytes int64 `json:"bytes"`
}

type vEpoch struct {
	E int64 `json:"e"`
	S int64 `json:"s"`
}

func vSegs(l *commitLog) []vSeg {
	out := []vSeg{}
	for _, s := range l.Segments() {
		out = append(out, vSeg{Base: s.BaseOffset, Bytes: s.Position()})
	}
	return out
}

func vEpochs(l *commitLog) []vEpoch {
	out := []vEpoch{}
	l.leaderEpochCache.mu.RLock()
	defer l.leaderEpochCache.mu.RUnlock()
	for _, e := range l.leaderEpochCache.epochOffsets {
		out = append(out, vEpoch{E: int64(e.leaderEpoch), S: e.startOffset})
	}
	return out
}

func vFps(recs []vRec) []string {
	out := make([]string, len(recs))
	for i, r := range recs {
		out[i] = r.Fp
	}
	return out
}

func vOffs(recs []vRec) []int64 {
	out := make([]int64, len(recs))
	for i, r := range recs {
		out[i] = r.Off
	}
	return out
}

func vOpts(dir string, maxBytes int64, occ bool) Options {
	return Options{
		Path:                 dir,
		MaxSegmentBytes:      maxBytes,
		ConcurrencyControl:   occ,
		HWCheckpointInterval: time.Hour,
		CleanerInterval:      time.Hour,
	}
}

func vTempDir(t *testing.T) string {
	d, err := os.MkdirTemp("", "vlog")
	if err != nil {
		t.Fatalf("tempdir: %v", err)
	}
	return d
}
