//go:build verif

package server

// X02 - life cycle of a stream and its partitions on a live one-node server
// (spec/Lifecycle.tla).  The driver executes intents (Publish over the three
// API paths, PauseStream, SetStreamReadonly, DeleteStream, CreateStream,
// Subscribe with/without Resume, quiet periods, restarts, and publishes /
// subscriptions parked at the verif gates while other calls run) against one
// real server and records after every step what the real objects say.  It
// never judges: TLC does (Trace_Lifecycle).

import (
	"context"
	"fmt"
	"os"
	"path/filepath"
	"sort"
	"strconv"
	"strings"
	"sync"
	"testing"
	"time"

	client "github.com/liftbridge-io/liftbridge-api/v2/go"
	"github.com/liftbridge-io/liftbridge/server/commitlog"
	"google.golang.org/grpc"
	"google.golang.org/grpc/codes"
	"google.golang.org/grpc/status"
)

const (
	vX02Cap      = 10 * time.Second       // nothing is waited for longer than this
	vX02Hang     = 40 * time.Second        // a step that takes longer is recorded as a hang (the process ends)
	vX02Unserved = 500 * time.Millisecond // an answer is given up when the partition was not served for this long
)

type vX02SubSt struct {
	P   int    `json:"p"`
	St  string `json:"st"`
	Got []int  `json:"got"`
}

type vX02State struct {
	Exists  bool                 `json:"exists"`
	Dir     bool                 `json:"dir"`
	Paused  []bool               `json:"paused"`
	PPaused []bool               `json:"ppaused"` // the flag in the protobuf (snapshots, metadata responses)
	Ro      []bool               `json:"ro"`
	PRo     []bool               `json:"pro"`
	Leading []bool               `json:"leading"`
	NSub    []bool               `json:"nsub"` // the leader's NATS subscription is live
	SubC    []int                `json:"subc"`
	RA      bool                 `json:"ra"`
	Log     [][]int              `json:"log"`
	LogErr  string               `json:"logerr"`
	Subs    map[string]vX02SubSt `json:"subs"`
	MF      []bool               `json:"mf"` // clock fact: the auto-pause timer of the partition may have fired
	Q       []int                `json:"q"`  // ms since the last proven activity of the partition (information)
}

type vX02Obs struct {
	A   string `json:"a"`
	Res string `json:"res"`
	Err string `json:"err"`
	Ms  int    `json:"ms"`
}

type vX02Event struct {
	T    int                    `json:"t"`
	A    string                 `json:"a"`
	Args map[string]interface{} `json:"args"`
	Cfg  map[string]interface{} `json:"cfg,omitempty"`
	St   vX02State              `json:"st"`
	Obs  vX02Obs                `json:"obs"`
	Wall int                    `json:"wall"` // ms since the behaviour started (information)
}

// ---- gate -------------------------------------------------------------------

type vX02GateT struct {
	mu      sync.Mutex
	armed   string
	reached chan struct{}
	release chan struct{}
}

var vX02Gate vX02GateT

func (g *vX02GateT) hook(name string) {
	g.mu.Lock()
	if g.armed == "" || g.armed != name {
		g.mu.Unlock()
		return
	}
	g.armed = ""
	reached, release := g.reached, g.release
	g.mu.Unlock()
	close(reached)
	<-release
}

func (g *vX02GateT) arm(name string) (reached, release chan struct{}) {
	g.mu.Lock()
	defer g.mu.Unlock()
	g.armed = name
	g.reached, g.release = make(chan struct{}), make(chan struct{})
	return g.reached, g.release
}

func (g *vX02GateT) disarm() {
	g.mu.Lock()
	g.armed = ""
	g.mu.Unlock()
}

var vX02GateNames = map[string]string{
	"checked":    "api.publish.checked",
	"applied":    "metadata.resume_stream.applied",
	"resumed":    "api.publish.resumed",
	"subresumed": "api.subscribe.resumed",
}

// ---- run --------------------------------------------------------------------

type vX02Sub struct {
	p      int
	part   *partition
	sub    *subscription
	cancel context.CancelFunc
	mu     sync.Mutex
	got    []int
	st     string // "wait" or terminal
	done   chan struct{}
}

type vX02Result struct {
	res, err string
}

type vX02Pend struct {
	kind    string
	p       int
	m       int
	s       string
	release chan struct{}
	result  chan vX02Result
	cancel  context.CancelFunc
	sub     *vX02Sub
}

type vX02Run struct {
	t      *testing.T
	id     int
	cfg    *Config
	srv    *Server
	conn   *grpc.ClientConn
	api    client.APIClient
	stream string
	n      int
	auto   time.Duration
	dis    bool
	subs   map[string]*vX02Sub
	pend   *vX02Pend
	act    []time.Time  // per partition: lower bound of the last activity that re-arms the auto-pause timer
	risky  []bool       // per partition: an activity arrived when the timer may already have decided to pause (the pause may still land)
	objs   []*partition // partition objects seen at the end of the last step
	lastSt vX02State    // the last projected state
}

func vX02Class(err error) (string, string) {
	if err == nil {
		return "ok", ""
	}
	st := status.Convert(err)
	msg := st.Message()
	switch {
	case st.Code() == codes.NotFound:
		return "notfound", msg
	case st.Code() == codes.AlreadyExists:
		return "exists", msg
	case st.Code() == codes.DeadlineExceeded, st.Code() == codes.Canceled, err == context.Canceled,
		err == context.DeadlineExceeded, strings.Contains(msg, "context canceled"):
		return "timeout", msg
	case st.Code() == codes.FailedPrecondition && strings.Contains(msg, "readonly"):
		return "readonly", msg
	}
	return "other:" + st.Code().String(), msg
}

func (r *vX02Run) dial() {
	if r.conn != nil {
		r.conn.Close()
	}
	conn, err := grpc.Dial(fmt.Sprintf("127.0.0.1:%d", r.srv.GetListenPort()), grpc.WithInsecure())
	if err != nil {
		r.t.Fatalf("INCONCLUSIVE: dial: %v", err)
	}
	r.conn, r.api = conn, client.NewAPIClient(conn)
}

func (r *vX02Run) part(p int) *partition { return r.srv.metadata.GetPartition(r.stream, int32(p)) }

func (r *vX02Run) subject(p int) string {
	if p == 0 {
		return r.stream
	}
	return fmt.Sprintf("%s.%d", r.stream, p)
}

func vX02IDs(ps []int) []int32 {
	out := make([]int32, len(ps))
	for i, p := range ps {
		out[i] = int32(p)
	}
	return out
}

func vX02Ints(m map[string]interface{}, k string) []int {
	out := []int{}
	if v, ok := m[k]; ok && v != nil {
		for _, x := range v.([]interface{}) {
			out = append(out, int(x.(float64)))
		}
	}
	return out
}

// served: the partition exists, leads and can take a message (projected from the real objects)
func (r *vX02Run) served(p int) bool {
	part := r.part(p)
	if part == nil {
		return false
	}
	part.mu.RLock()
	lead := part.isLeading
	part.mu.RUnlock()
	return lead && !part.IsReadonly()
}

// await waits for the result of a call; it gives up (cancel) when the partition the answer
// would have to come from was not served for vX02Unserved, or after vX02Cap
func (r *vX02Run) await(p int, result chan vX02Result, cancel context.CancelFunc, reached chan struct{}) vX02Result {
	var unservedSince time.Time
	capT := time.After(vX02Cap)
	tick := time.NewTicker(5 * time.Millisecond)
	defer tick.Stop()
	for {
		select {
		case res := <-result:
			return res
		case <-reached:
			return vX02Result{"parked", ""}
		case <-capT:
			cancel()
			return <-result
		case <-tick.C:
			if r.served(p) {
				unservedSince = time.Time{}
			} else if unservedSince.IsZero() {
				unservedSince = time.Now()
			} else if time.Since(unservedSince) > vX02Unserved {
				cancel()
				return <-result
			}
		}
	}
}

// the commit log object is closed or deleted
func vX02LogGone(l commitlog.CommitLog) bool {
	if x, ok := l.(interface {
		IsClosed() bool
		IsDeleted() bool
	}); ok {
		return x.IsClosed() || x.IsDeleted()
	}
	return false
}

func vX02Value(m int) []byte { return []byte("m" + strconv.Itoa(m)) }

func vX02ID(v []byte) int {
	s := string(v)
	if strings.HasPrefix(s, "m") {
		if n, err := strconv.Atoi(s[1:]); err == nil {
			return n
		}
	}
	return -1
}

// startPublish runs the publish in its own goroutine (a panic of the real code is a result)
func (r *vX02Run) startPublish(p, m int, path string) (chan vX02Result, context.CancelFunc) {
	ctx, cancel := context.WithTimeout(context.Background(), time.Hour)
	result := make(chan vX02Result, 1)
	go func() {
		defer func() {
			if x := recover(); x != nil {
				result <- vX02Result{"panic", fmt.Sprint(x)}
			}
		}()
		switch path {
		case "sync":
			resp, err := r.srv.api.Publish(ctx, &client.PublishRequest{Stream: r.stream, Partition: int32(p),
				Value: vX02Value(m), AckPolicy: client.AckPolicy_LEADER})
			res, text := vX02Class(err)
			if err == nil && (resp.Ack == nil || resp.Ack.AckError != client.Ack_OK) {
				res, text = "other:ack", fmt.Sprint(resp.Ack)
			}
			result <- vX02Result{res, text}
		case "subject":
			resp, err := r.srv.api.PublishToSubject(ctx, &client.PublishToSubjectRequest{Subject: r.subject(p),
				Value: vX02Value(m), AckPolicy: client.AckPolicy_LEADER})
			res, text := vX02Class(err)
			if err == nil && (resp.Ack == nil || resp.Ack.AckError != client.Ack_OK) {
				res, text = "other:ack", fmt.Sprint(resp.Ack)
			}
			result <- vX02Result{res, text}
		case "async":
			st, err := r.api.PublishAsync(ctx)
			if err != nil {
				res, text := vX02Class(err)
				result <- vX02Result{res, "open: " + text}
				return
			}
			defer st.CloseSend()
			corr := fmt.Sprintf("%d-%d", r.id, m)
			if err := st.Send(&client.PublishRequest{Stream: r.stream, Partition: int32(p), Value: vX02Value(m),
				AckPolicy: client.AckPolicy_LEADER, CorrelationId: corr}); err != nil {
				res, text := vX02Class(err)
				result <- vX02Result{res, "send: " + text}
				return
			}
			resp, err := st.Recv()
			if err != nil {
				res, text := vX02Class(err)
				result <- vX02Result{res, text}
				return
			}
			if e := resp.AsyncError; e != nil {
				switch e.Code {
				case client.PublishAsyncError_NOT_FOUND:
					result <- vX02Result{"notfound", e.Message}
				case client.PublishAsyncError_READONLY:
					result <- vX02Result{"readonly", e.Message}
				default:
					result <- vX02Result{"other:" + e.Code.String(), e.Message}
				}
				return
			}
			if resp.Ack == nil || resp.Ack.AckError != client.Ack_OK {
				result <- vX02Result{"other:ack", fmt.Sprint(resp.Ack)}
				return
			}
			result <- vX02Result{"ok", ""}
		default:
			panic("unknown publish path " + path)
		}
	}()
	return result, cancel
}

func (r *vX02Run) call(f func(ctx context.Context) error) (string, string) {
	var res, text string
	for attempt := 1; attempt <= 4; attempt++ {
		ctx, cancel := context.WithTimeout(context.Background(), vX02Cap)
		func() {
			defer func() {
				if x := recover(); x != nil {
					res, text = "panic", fmt.Sprint(x)
				}
			}()
			res, text = vX02Class(f(ctx))
		}()
		cancel()
		// a loaded machine can exceed the Raft apply timeout: these calls are idempotent, retry
		if !(strings.HasPrefix(res, "other") && strings.Contains(text, "timed out")) && res != "timeout" {
			break
		}
		time.Sleep(300 * time.Millisecond)
	}
	return res, text
}

// ---- subscriptions ------------------------------------------------------------

func (r *vX02Run) openSub(s string, p int, resume bool, ctx context.Context, cancel context.CancelFunc) (res, text string, sub *vX02Sub) {
	defer func() {
		if x := recover(); x != nil {
			res, text = "panic", fmt.Sprint(x)
		}
	}()
	h, err := r.srv.api.SubscribeInternal(ctx, &client.SubscribeRequest{Stream: r.stream, Partition: int32(p),
		StartPosition: client.StartPosition_EARLIEST, Resume: resume})
	if err != nil {
		cancel()
		st := status.Convert(err)
		if st.Code() == codes.NotFound {
			return "notfound", st.Message(), nil
		}
		if strings.Contains(st.Message(), "closed") {
			return "paused", st.Message(), nil
		}
		return "other:" + st.Code().String(), st.Message(), nil
	}
	sub = &vX02Sub{p: p, part: r.part(p), sub: h, cancel: cancel, st: "wait", done: make(chan struct{}), got: []int{}}
	go func() {
		defer close(sub.done)
		for {
			select {
			case m := <-h.Messages():
				sub.mu.Lock()
				sub.got = append(sub.got, vX02ID(m.Value))
				sub.mu.Unlock()
			case e := <-h.Errors():
				st := "other:" + e.Code().String() + ":" + e.Message()
				switch {
				case e.Code() == codes.FailedPrecondition:
					st = "paused"
				case e.Code() == codes.ResourceExhausted: // the end of a read-only log ("Stop offset reached" / "End of readonly partition")
					st = "readonly"
				case e.Code() == codes.NotFound:
					st = "deleted"
				}
				sub.mu.Lock()
				sub.st = st
				sub.mu.Unlock()
				return
			case <-h.Closed():
				return
			}
		}
	}()
	return "ok", "", sub
}

func (r *vX02Run) closeSub(s string) {
	sub := r.subs[s]
	if sub == nil {
		return
	}
	sub.sub.Close()
	sub.cancel()
	select {
	case <-sub.done:
	case <-time.After(vX02Cap):
	}
	delete(r.subs, s)
}

// settle: every open subscription either has received everything its partition object holds, or
// - when that object was paused / deleted / is read-only at its end - its terminal status
func (r *vX02Run) settle() {
	deadline := time.Now().Add(3 * time.Second)
	for _, s := range r.subNames() {
		sub := r.subs[s]
		for {
			sub.mu.Lock()
			st, n := sub.st, len(sub.got)
			sub.mu.Unlock()
			if st != "wait" {
				break
			}
			part := sub.part
			ended := part == nil || part.IsPaused() || vX02LogGone(part.log)
			if !ended {
				newest := part.log.NewestOffset()
				if int64(n) >= newest+1 && !part.IsReadonly() {
					break
				}
			}
			if time.Now().After(deadline) {
				sub.mu.Lock()
				if sub.st == "wait" {
					sub.st = "stuck"
				}
				sub.mu.Unlock()
				break
			}
			time.Sleep(time.Millisecond)
		}
	}
	// the loops that ended have left (subscriber count of the partition objects)
	want := map[*partition]int64{}
	for _, sub := range r.subs {
		sub.mu.Lock()
		if sub.st == "wait" && sub.part != nil {
			want[sub.part]++
		}
		sub.mu.Unlock()
	}
	for time.Now().Before(deadline) {
		ok := true
		for p := 0; p < r.n; p++ {
			if part := r.part(p); part != nil {
				part.mu.RLock()
				c := part.subscriberCount
				part.mu.RUnlock()
				if c != want[part] {
					ok = false
				}
			}
		}
		if ok {
			break
		}
		time.Sleep(time.Millisecond)
	}
}

func (r *vX02Run) subNames() []string {
	out := []string{}
	for s := range r.subs {
		out = append(out, s)
	}
	sort.Strings(out)
	return out
}

// ---- projection ---------------------------------------------------------------

func vX02ReadLog(l commitlog.CommitLog) ([]int, error) {
	out := []int{}
	newest := l.NewestOffset()
	if newest < 0 {
		return out, nil
	}
	rd, err := l.NewReader(l.OldestOffset(), true)
	if err != nil {
		return out, err
	}
	ctx, cancel := context.WithTimeout(context.Background(), 5*time.Second)
	defer cancel()
	headers := make([]byte, 28)
	for {
		m, off, _, _, err := rd.ReadMessage(ctx, headers)
		if err != nil {
			return out, err
		}
		out = append(out, vX02ID(m.Value()))
		if off >= newest {
			return out, nil
		}
	}
}

func vX02ReadCopy(src string) ([]int, error) {
	tmp, err := os.MkdirTemp("", "x02copy")
	if err != nil {
		return []int{}, err
	}
	defer os.RemoveAll(tmp)
	entries, err := os.ReadDir(src)
	if err != nil {
		return []int{}, err
	}
	for _, e := range entries {
		if e.IsDir() {
			continue
		}
		info, err := e.Info()
		if err != nil {
			return []int{}, err
		}
		if info.Size() > 4<<20 {
			return []int{}, fmt.Errorf("file %s of a closed log has %d bytes (index not shrunk)", e.Name(), info.Size())
		}
		b, err := os.ReadFile(filepath.Join(src, e.Name()))
		if err != nil {
			return []int{}, err
		}
		if err := os.WriteFile(filepath.Join(tmp, e.Name()), b, 0o644); err != nil {
			return []int{}, err
		}
	}
	l, err := commitlog.New(commitlog.Options{Path: tmp, CleanerInterval: 24 * time.Hour, HWCheckpointInterval: time.Hour})
	if err != nil {
		return []int{}, err
	}
	ids, err := vX02ReadLog(l)
	if cerr := l.Close(); err == nil {
		err = cerr
	}
	return ids, err
}

// state: the projection, repeated when a flag changed while it was taken (with a real auto-pause timer a pause
// can land between two reads; a torn projection would describe a state that never existed)
func (r *vX02Run) state(callStart time.Time, publishedOK int) vX02State {
	for attempt := 0; ; attempt++ {
		st := r.state1(callStart, publishedOK)
		if r.auto == 0 || attempt >= 5 {
			return st
		}
		same := true
		if stream := r.srv.metadata.GetStream(r.stream); (stream != nil) != st.Exists || (stream != nil && stream.GetResumeAll() != st.RA) {
			same = false
		}
		for p := 0; p < r.n && same; p++ {
			if part := r.part(p); part != nil {
				part.mu.RLock()
				if part.paused != st.Paused[p] || part.isLeading != st.Leading[p] {
					same = false
				}
				part.mu.RUnlock()
			}
		}
		if same {
			return st
		}
	}
}

func (r *vX02Run) state1(callStart time.Time, publishedOK int) vX02State {
	st := vX02State{Subs: map[string]vX02SubSt{}}
	stream := r.srv.metadata.GetStream(r.stream)
	st.Exists = stream != nil
	dir := filepath.Join(r.srv.config.DataDir, "streams", r.stream)
	if _, err := os.Stat(dir); err == nil {
		st.Dir = true
	}
	if stream != nil {
		st.RA = stream.GetResumeAll()
	}
	now := time.Now()
	pausedNow := make([]bool, r.n)
	for p := 0; p < r.n; p++ {
		part := r.part(p)
		var paused, ppaused, ro, pro, lead, nsub bool
		var subc int
		ids := []int{}
		if part != nil {
			part.mu.RLock()
			paused, ppaused, pro, lead = part.paused, part.Partition.Paused, part.Partition.Readonly, part.isLeading
			nsub = part.sub != nil && part.sub.IsValid()
			subc = int(part.subscriberCount)
			part.mu.RUnlock()
			ro = part.IsReadonly()
			var err error
			if paused || vX02LogGone(part.log) {
				// the log of a paused partition is closed: a COPY of its files is opened the way a resume
				// would open them (the real files are never touched by the projection)
				ids, err = vX02ReadCopy(filepath.Join(dir, strconv.Itoa(p)))
			} else {
				ids, err = vX02ReadLog(part.log)
			}
			if err != nil && st.LogErr == "" {
				st.LogErr = fmt.Sprintf("p%d: %v", p, err)
			}
			// activity that re-arms the auto-pause timer, proven: an acknowledged publish to the
			// partition, or a new partition object (leader start) - not before the call started
			if r.objs[p] != part || publishedOK == p {
				// the timer decides and then proposes the pause through Raft: a decision taken before this
				// activity can still land after it
				if r.auto > 0 && !r.act[p].IsZero() && now.Sub(r.act[p]) >= r.auto {
					r.risky[p] = true
				}
				r.act[p] = callStart
			}
			pausedNow[p] = paused
		}
		r.objs[p] = part
		st.Paused, st.PPaused = append(st.Paused, paused), append(st.PPaused, ppaused)
		st.Ro, st.PRo = append(st.Ro, ro), append(st.PRo, pro)
		st.Leading, st.NSub, st.SubC = append(st.Leading, lead), append(st.NSub, nsub), append(st.SubC, subc)
		st.Log = append(st.Log, ids)
	}
	// clock fact, taken after the flags were read: a timer cannot have paused its partition earlier
	// than one auto-pause time after the last proven activity
	now = time.Now()
	for p := 0; p < r.n; p++ {
		st.Q = append(st.Q, int(now.Sub(r.act[p])/time.Millisecond))
		st.MF = append(st.MF, r.auto > 0 && (now.Sub(r.act[p]) >= r.auto || r.risky[p]))
		if pausedNow[p] {
			r.risky[p] = false // it has landed
		}
	}
	for _, s := range r.subNames() {
		sub := r.subs[s]
		sub.mu.Lock()
		st.Subs[s] = vX02SubSt{P: sub.p, St: sub.st, Got: append([]int{}, sub.got...)}
		sub.mu.Unlock()
	}
	return st
}

// ---- steps ----------------------------------------------------------------------

func (r *vX02Run) create() (string, string) {
	req := &client.CreateStreamRequest{Name: r.stream, Subject: r.stream, Partitions: int32(r.n)}
	if r.auto > 0 {
		req.AutoPauseTime = &client.NullableInt64{Value: r.auto.Milliseconds()}
		req.AutoPauseDisableIfSubscribers = &client.NullableBool{Value: r.dis}
	}
	res, text := r.call(func(ctx context.Context) error {
		_, err := r.srv.api.CreateStream(ctx, req)
		return err
	})
	if res == "ok" {
		r.waitLeading(false)
	}
	return res, text
}

// waitLeading: every partition that is not paused starts its leader loops (bounded wait)
func (r *vX02Run) waitLeading(afterReplay bool) {
	deadline := time.Now().Add(vX02Cap)
	for time.Now().Before(deadline) {
		ok := true
		for p := 0; p < r.n; p++ {
			part := r.part(p)
			if part == nil {
				continue
			}
			part.mu.RLock()
			// (a partition still in recovery mode after the replay has finished will not be started)
			if !part.paused && !part.isLeading && !(afterReplay && part.recovered) {
				ok = false
			}
			part.mu.RUnlock()
		}
		if ok {
			return
		}
		time.Sleep(time.Millisecond)
	}
}

func (r *vX02Run) restart(snap bool) (string, string) {
	for _, s := range r.subNames() {
		r.closeSub(s)
	}
	if snap {
		if err := r.srv.getRaft().Snapshot().Error(); err != nil {
			return "other:snapshot", err.Error()
		}
	}
	if err := r.srv.Stop(); err != nil {
		r.t.Fatalf("INCONCLUSIVE: stop: %v", err)
	}
	r.srv = vOneNodeServer(r.t, r.cfg)
	r.dial()
	// the replay of the Raft log has finished when a barrier returns
	if err := r.srv.getRaft().Barrier(vX02Cap).Error(); err != nil {
		return "other:barrier", err.Error()
	}
	r.waitLeading(true)
	return "ok", ""
}

// idle: a quiet period; waits until every partition whose timer is armed and allowed to fire (real
// objects) is paused, at least 3 and at most 14 auto-pause times (cap given by the stimulus)
func (r *vX02Run) idle(capMs int) {
	start := time.Now()
	min, max := 3*r.auto, time.Duration(capMs)*time.Millisecond
	for {
		waiting := false
		for p := 0; p < r.n; p++ {
			part := r.part(p)
			if part == nil {
				continue
			}
			part.mu.RLock()
			if part.isLeading && part.autoPauseTime > 0 && !(part.autoPauseDisableIfSubscribers && part.subscriberCount > 0) {
				waiting = true
			}
			part.mu.RUnlock()
		}
		el := time.Since(start)
		if (el >= min && !waiting) || el >= max {
			return
		}
		time.Sleep(2 * time.Millisecond)
	}
}

func TestVerifX02(t *testing.T) {
	sf := vLoadStimuli(t)
	tw := vOpenTrace(t)
	defer tw.Close()
	VerifGateHook = vX02Gate.hook
	defer func() { VerifGateHook = nil }()
	defer os.RemoveAll(storagePath)

	cfg := vOneNodeConfig(t, "a")
	cfg.Streams.CleanerInterval = 24 * time.Hour
	cfg.CursorsStream.Partitions = 0
	run := &vX02Run{t: t, cfg: cfg}
	run.srv = vOneNodeServer(t, cfg)
	lastID := 0
	defer func() {
		// the server must stop: loops that never end are an observation, not a harness failure
		done := make(chan struct{})
		go func() {
			select {
			case <-done:
			case <-time.After(vX02Hang):
				tw.Emit(vX02Event{T: lastID, A: "Stop", Args: map[string]interface{}{}, St: run.lastSt,
					Obs: vX02Obs{A: "Stop", Res: "hang", Ms: int(vX02Hang / time.Millisecond)}})
				tw.w.Flush()
				os.Exit(3)
			}
		}()
		run.srv.Stop()
		close(done)
	}()
	run.dial()
	defer func() { run.conn.Close() }()

	for _, b := range sf.Behaviours {
		r := run
		lastID = b.ID
		r.id = b.ID
		r.stream = fmt.Sprintf("x02-%d", b.ID)
		r.n = int(vIntDef(b.Cfg, "parts", 2))
		r.auto = time.Duration(vIntDef(b.Cfg, "auto", 0)) * time.Millisecond
		r.dis = vBool(b.Cfg, "dis")
		r.subs = map[string]*vX02Sub{}
		r.pend = nil
		r.act = make([]time.Time, r.n)
		r.risky = make([]bool, r.n)
		r.objs = make([]*partition, r.n)
		idleCap := int(vIntDef(b.Cfg, "idlecap", 14*vIntDef(b.Cfg, "auto", 0)))

		t0 := time.Now()
		res, text := r.create()
		if res != "ok" {
			t.Fatalf("INCONCLUSIVE: create stream: %s %s", res, text)
		}
		emit := func(a string, args map[string]interface{}, obs vX02Obs, callStart time.Time, pubOK int) {
			r.settle()
			ev := vX02Event{T: b.ID, A: a, Args: args, St: r.state(callStart, pubOK), Obs: obs}
			r.lastSt = ev.St
			ev.Wall = int(time.Since(t0) / time.Millisecond)
			if a == "Open" {
				ev.Cfg = map[string]interface{}{"auto": r.auto > 0, "dis": r.dis, "parts": r.n}
			}
			tw.Emit(ev)
			tw.w.Flush()
		}
		emit("Open", map[string]interface{}{}, vX02Obs{A: "Open", Res: "ok"}, t0, -1)

		for _, step := range b.Steps {
			a := vStr(step, "a")
			args := map[string]interface{}{}
			for k, v := range step {
				if k != "a" {
					args[k] = v
				}
			}
			start := time.Now()
			obs := vX02Obs{A: a}
			pubOK := -1
			// a step that does not come back (e.g. Server.Stop waiting for loops that never end) is an
			// observation: the line is written from the last projected state and the process ends
			stepDone := make(chan struct{})
			go func(a string, args map[string]interface{}) {
				select {
				case <-stepDone:
				case <-time.After(vX02Hang):
					ev := vX02Event{T: b.ID, A: a, Args: args, St: r.lastSt, Obs: vX02Obs{A: a, Res: "hang", Ms: int(vX02Hang / time.Millisecond)}}
					tw.Emit(ev)
					tw.w.Flush()
					os.Exit(3)
				}
			}(a, args)
			switch a {
			case "Publish":
				p, m := int(vInt(step, "p")), int(vInt(step, "m"))
				result, cancel := r.startPublish(p, m, vStr(step, "path"))
				x := r.await(p, result, cancel, nil)
				cancel()
				obs.Res, obs.Err = x.res, x.err
				if x.res == "ok" {
					pubOK = p
				}
			case "PubStart":
				p, m := int(vInt(step, "p")), int(vInt(step, "m"))
				reached, release := vX02Gate.arm(vX02GateNames[vStr(step, "gate")])
				result, cancel := r.startPublish(p, m, "sync")
				// either the call parks at the gate or it finishes
				x := r.await(p, result, cancel, reached)
				if x.res == "parked" {
					obs.Res = "parked"
					r.pend = &vX02Pend{kind: "pub", p: p, m: m, release: release, cancel: cancel, result: result}
				} else {
					vX02Gate.disarm()
					cancel()
					obs.Res, obs.Err = x.res, x.err
					if x.res == "ok" {
						pubOK = p
					}
				}
			case "PubEnd":
				if r.pend == nil || r.pend.kind != "pub" {
					obs.Res = "nopending"
					break
				}
				close(r.pend.release)
				x := r.await(r.pend.p, r.pend.result, r.pend.cancel, nil)
				r.pend.cancel()
				obs.Res, obs.Err = x.res, x.err
				if x.res == "ok" {
					pubOK = r.pend.p
				}
				args["p"], args["m"] = r.pend.p, r.pend.m
				r.pend = nil
			case "Sub", "SubStart":
				s, p := vStr(step, "s"), int(vInt(step, "p"))
				resume := a == "SubStart" || vBool(step, "resume")
				if old := r.subs[s]; old != nil {
					r.closeSub(s)
				}
				ctx, cancel := context.WithCancel(context.Background())
				if a == "Sub" {
					res, text, sub := r.openSub(s, p, resume, ctx, cancel)
					obs.Res, obs.Err = res, text
					if sub != nil {
						r.subs[s] = sub
					}
					break
				}
				reached, release := vX02Gate.arm(vX02GateNames["subresumed"])
				type subRes struct {
					res, text string
					sub       *vX02Sub
				}
				done := make(chan subRes, 1)
				go func() {
					res, text, sub := r.openSub(s, p, true, ctx, cancel)
					done <- subRes{res, text, sub}
				}()
				result := make(chan vX02Result, 1)
				pend := &vX02Pend{kind: "sub", p: p, s: s, release: release, result: result, cancel: cancel}
				go func() {
					x := <-done
					pend.sub = x.sub
					result <- vX02Result{x.res, x.text}
				}()
				select {
				case <-reached:
					obs.Res = "parked"
					r.pend = pend
				case x := <-result:
					vX02Gate.disarm()
					obs.Res, obs.Err = x.res, x.err
					if pend.sub != nil {
						r.subs[s] = pend.sub
					}
				case <-time.After(vX02Cap):
					t.Fatalf("INCONCLUSIVE: subscribe neither parked nor returned")
				}
			case "SubEnd":
				if r.pend == nil || r.pend.kind != "sub" {
					obs.Res = "nopending"
					break
				}
				close(r.pend.release)
				select {
				case x := <-r.pend.result:
					obs.Res, obs.Err = x.res, x.err
				case <-time.After(vX02Cap):
					obs.Res = "hang"
				}
				if r.pend.sub != nil {
					r.subs[r.pend.s] = r.pend.sub
				}
				args["p"], args["s"] = r.pend.p, r.pend.s
				r.pend = nil
			case "Unsub":
				r.closeSub(vStr(step, "s"))
				obs.Res = "ok"
			case "Pause":
				ps, ra := vX02Ints(step, "ps"), vBool(step, "ra")
				obs.Res, obs.Err = r.call(func(ctx context.Context) error {
					_, err := r.srv.api.PauseStream(ctx, &client.PauseStreamRequest{Name: r.stream, Partitions: vX02IDs(ps), ResumeAll: ra})
					return err
				})
			case "Readonly":
				ps, ro := vX02Ints(step, "ps"), vBool(step, "b")
				obs.Res, obs.Err = r.call(func(ctx context.Context) error {
					_, err := r.srv.api.SetStreamReadonly(ctx, &client.SetStreamReadonlyRequest{Name: r.stream, Partitions: vX02IDs(ps), Readonly: ro})
					return err
				})
			case "Delete":
				obs.Res, obs.Err = r.call(func(ctx context.Context) error {
					_, err := r.srv.api.DeleteStream(ctx, &client.DeleteStreamRequest{Name: r.stream})
					return err
				})
			case "Create":
				obs.Res, obs.Err = r.create()
			case "Restart":
				obs.Res, obs.Err = r.restart(vBool(step, "snap"))
			case "Idle":
				r.idle(idleCap)
				for p := range r.risky {
					r.risky[p] = false // whatever was in flight has landed
				}
				obs.Res = "ok"
			case "Wait":
				time.Sleep(r.auto * time.Duration(vInt(step, "pct")) / 100)
				obs.Res = "ok"
			default:
				t.Fatalf("unknown step %q", a)
			}
			obs.Ms = int(time.Since(start) / time.Millisecond)
			emit(a, args, obs, start, pubOK)
			close(stepDone)
		}

		// clean up: nothing of this behaviour keeps running
		if r.pend != nil {
			close(r.pend.release)
			r.pend.cancel() // nobody waits for the answer any more
			select {
			case <-r.pend.result:
			case <-time.After(vX02Cap):
			}
			if r.pend.sub != nil {
				r.subs[r.pend.s] = r.pend.sub
			}
			r.pend = nil
		}
		for _, s := range r.subNames() {
			r.closeSub(s)
		}
		r.call(func(ctx context.Context) error {
			_, err := r.srv.api.DeleteStream(ctx, &client.DeleteStreamRequest{Name: r.stream})
			return err
		})
	}
}
