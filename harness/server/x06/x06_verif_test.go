//go:build verif

package server

// X06 - lock order of the metadata store (spec/LockOrder.tla).  Every pair
// (operation applied by the FSM goroutine, LostLeadership / Reset in another
// goroutine) is executed on a real never-started Server in the schedule of the
// model's deadlock trace: the applying goroutine is parked right before the
// first time its rebalance reads the streams (the group's getStreamPartitions
// callback is wrapped - no hook needed), i.e. while it holds the consumer
// groups mutex and / or the group mutex; then the other goroutine runs as far
// as it gets; then the first one is released.  Recorded: whether both calls
// return.  A call that does not return within the deadline is a recorded
// observation (hang), judged by TLC (Trace_LockOrder.tla).

import (
	"os"
	"path/filepath"
	"sync"
	"testing"
	"time"
)

type vX06Obs struct {
	Fsm    string `json:"fsm"`   // done | hang | nopark
	Other  string `json:"other"` // done | hang
	Parked bool   `json:"parked"`
	Err    string `json:"err"`
}

type vX06Event struct {
	T    int                    `json:"t"`
	A    string                 `json:"a"`
	Args map[string]interface{} `json:"args"`
	Obs  vX06Obs                `json:"obs"`
}

func vX06Wait(ch chan struct{}, d time.Duration) bool {
	select {
	case <-ch:
		return true
	case <-time.After(d):
		return false
	}
}

func TestVerifLockOrder(t *testing.T) {
	sf := vLoadStimuli(t)
	tw := vOpenTrace(t)
	defer tw.Close()
	base, err := os.MkdirTemp("", "vx06")
	if err != nil {
		t.Fatal(err)
	}
	for _, b := range sf.Behaviours {
		fsmOp, otherOp := vStr(b.Cfg, "fsm"), vStr(b.Cfg, "other")
		dir := filepath.Join(base, "s"+itoa(b.ID))
		s := v06NewServer("A", dir)
		idx := uint64(0)
		apply := func(o map[string]interface{}) string {
			idx++
			return v06ApplyErr(s, v06BuildOp(o), idx, false)
		}
		R := []interface{}{"r1", "r2", "r3"}
		setup := []map[string]interface{}{
			{"op": "CreateStream", "s": "sa", "n": float64(2), "R": R, "ldr": "r1"},
			{"op": "CreateStream", "s": "sb", "n": float64(2), "R": R, "ldr": "r1"},
			{"op": "CreateGroup", "g": "g", "c": "c1", "S": []interface{}{"sa", "sb"}, "coord": "A"},
			{"op": "JoinGroup", "g": "g", "c": "c2", "S": []interface{}{"sa"}},
		}
		obs := vX06Obs{}
		for _, o := range setup {
			if e := apply(o); e != "" {
				obs.Err = "setup:" + e
			}
		}
		tw.Emit(vX06Event{T: b.ID, A: "Open", Args: map[string]interface{}{}, Obs: vX06Obs{Fsm: "done", Other: "done"}})
		g := s.metadata.GetConsumerGroup("g")
		if g == nil || obs.Err != "" {
			t.Fatalf("INCONCLUSIVE: setup failed: %s", obs.Err)
		}
		// one-shot park in front of the first look at the streams
		var once sync.Once
		parked, release := make(chan struct{}), make(chan struct{})
		orig := g.getStreamPartitions
		g.mu.Lock()
		g.getStreamPartitions = func(stream string) int32 {
			once.Do(func() {
				close(parked)
				<-release
			})
			return orig(stream)
		}
		g.mu.Unlock()
		var op map[string]interface{}
		switch fsmOp {
		case "leave":
			op = map[string]interface{}{"op": "LeaveGroup", "g": "g", "c": "c2"}
		case "join":
			op = map[string]interface{}{"op": "JoinGroup", "g": "g", "c": "c3", "S": []interface{}{"sa"}}
		case "announce":
			op = map[string]interface{}{"op": "DeleteStream", "s": "sb"}
		default:
			t.Fatalf("unknown fsm operation %s", fsmOp)
		}
		fsmDone, otherDone := make(chan struct{}), make(chan struct{})
		go func() {
			defer close(fsmDone)
			if e := apply(op); e != "" {
				obs.Err = e
			}
		}()
		obs.Parked = vX06Wait(parked, 10*time.Second)
		go func() {
			defer close(otherDone)
			switch otherOp {
			case "lost":
				s.metadata.LostLeadership()
			case "reset":
				s.metadata.Reset()
			}
		}()
		// let the other goroutine get as far as it can: finished, or holding the metadata
		// mutex exclusively (no reader gets in), or simply some time
		deadline := time.Now().Add(500 * time.Millisecond)
		for time.Now().Before(deadline) {
			if vX06Wait(otherDone, 0) {
				break
			}
			if !s.metadata.mu.TryRLock() {
				time.Sleep(20 * time.Millisecond) // it holds (or waits for) the mutex: give it a moment to go on
				break
			}
			s.metadata.mu.RUnlock()
			time.Sleep(time.Millisecond)
		}
		close(release)
		obs.Fsm, obs.Other = "hang", "hang"
		if vX06Wait(fsmDone, 10*time.Second) {
			obs.Fsm = "done"
		}
		if vX06Wait(otherDone, 10*time.Second) {
			obs.Other = "done"
		}
		if !obs.Parked {
			obs.Fsm = "nopark"
		}
		tw.Emit(vX06Event{T: b.ID, A: "Pair", Args: map[string]interface{}{"fsm": fsmOp, "other": otherOp}, Obs: obs})
		if obs.Fsm == "done" && obs.Other == "done" {
			v06Close(s)
			os.RemoveAll(dir)
		}
		// (deadlocked goroutines and their server stay until the process exits; the
		// directory lives under $TMPDIR, which the check removes)
	}
}

func itoa(i int) string {
	if i == 0 {
		return "0"
	}
	out := ""
	for i > 0 {
		out = string(rune('0'+i%10)) + out
		i /= 10
	}
	return out
}
