//go:build verif

package server

// C15 harness: the real apiServer methods are invoked in-process with a context
// that carries the client id (what AuthzUnaryInterceptor/AuthzStreamInterceptor
// put there), authorisation switched on with a casbin enforcer built from
// harness-written model/policy files, policy reloads through the real SIGHUP
// handler.  Streaming methods get fake stream servers.  After every step the
// world (streams, paused, readonly, log length, subscriptions, group entry,
// cursor, group members) and the loaded policy are projected; TLC judges.

import (
	"context"
	"crypto/ecdsa"
	"crypto/elliptic"
	crand "crypto/rand"
	"crypto/tls"
	"crypto/x509"
	"crypto/x509/pkix"
	"fmt"
	"io"
	"math/big"
	"os"
	"path/filepath"
	"reflect"
	"sort"
	"strings"
	"sync"
	"sync/atomic"
	"syscall"
	"testing"
	"time"

	"github.com/casbin/casbin/v2"
	client "github.com/liftbridge-io/liftbridge-api/v2/go"
	"github.com/liftbridge-io/liftbridge/server/logger"
	"google.golang.org/grpc"
	"google.golang.org/grpc/credentials"
	"google.golang.org/grpc/metadata"
)

const (
	vC15Deadline = 20 * time.Second
	vC15Model    = "[request_definition]\nr = sub, obj, act\n\n[policy_definition]\np = sub, obj, act\n\n" +
		"[policy_effect]\ne = some(where (p.eft == allow))\n\n[matchers]\nm = r.sub == p.sub && r.obj == p.obj && r.act == p.act\n"
)

// ---- fake stream servers -----------------------------------------------------

type vC15Stream struct{ ctx context.Context }

func (f *vC15Stream) SetHeader(metadata.MD) error  { return nil }
func (f *vC15Stream) SendHeader(metadata.MD) error { return nil }
func (f *vC15Stream) SetTrailer(metadata.MD)       {}
func (f *vC15Stream) Context() context.Context     { return f.ctx }
func (f *vC15Stream) SendMsg(m interface{}) error  { return nil }
func (f *vC15Stream) RecvMsg(m interface{}) error  { return io.EOF }

type vC15SubServer struct {
	vC15Stream
	once  sync.Once
	first chan struct{}
	n     int64
}

func (f *vC15SubServer) Send(m *client.Message) error {
	atomic.AddInt64(&f.n, 1)
	f.once.Do(func() { close(f.first) })
	return nil
}

type vC15PubServer struct {
	vC15Stream
	reqs  chan *client.PublishRequest
	resps chan *client.PublishResponse
}

func (f *vC15PubServer) Recv() (*client.PublishRequest, error) {
	select {
	case r, ok := <-f.reqs:
		if !ok {
			return nil, io.EOF
		}
		return r, nil
	case <-f.ctx.Done(): // the client cancelled the stream
		return nil, f.ctx.Err()
	}
}

func (f *vC15PubServer) Send(r *client.PublishResponse) error {
	f.resps <- r
	return nil
}

// ---- one held subscription -----------------------------------------------------

type vC15Sub struct {
	owner  string // model client that made the call
	stream string // model name
	group  bool
	cancel context.CancelFunc
	done   chan struct{}
	err    error
}

func (s *vC15Sub) alive() bool {
	select {
	case <-s.done:
		return false
	default:
		return true
	}
}

// one open PublishAsync session of a client
type vC15Sess struct {
	fs     *vC15PubServer
	cancel context.CancelFunc
	done   chan error
}

type vC15Run struct {
	sess       map[string]*vC15Sess
	t          *testing.T
	grpc       client.APIClient            // TLS mode: calls go through a real gRPC/TLS connection (verified certificate)
	grpcBy     map[string]client.APIClient // TLS mode: one connection per way of authenticating (Authz!Creds)
	certCN     string                      // TLS mode: the common name of the client certificate stands for client "alice"
	srv        *Server
	id         int
	dir        string
	version    int
	lastFile   [][]string // what was last written to the policy file
	renameNext bool       // the next policy revision is renamed over the live file instead of written in place
	tornNext   bool       // the next policy revision is written with an unparsable line in its middle
	subs       []*vC15Sub
}

// Real names.  Client ids and resource names may contain dots, and they are chosen so that DIFFERENT
// (client, resource) pairs read the same when they are glued together:  alice = "svc" with s2 = "eu.b7s"
// and bob = "svc.eu" with s1 = "b7s" (likewise the subjects j2 / j1).  An authorisation decision must
// depend on the triple, not on some concatenation of it.
func (r *vC15Run) real(model string) string {
	switch model {
	case "*", "__cursors", "alice", "bob":
		// (consumer ids go over the wire as they are: an entry on a consumer id is an entry on that very name)
		return model
	case "s1":
		return fmt.Sprintf("b%ds", r.id)
	case "s2":
		return fmt.Sprintf("eu.b%ds", r.id)
	case "j1":
		return fmt.Sprintf("b%dj", r.id)
	case "j2":
		return fmt.Sprintf("eu.b%dj", r.id)
	}
	return fmt.Sprintf("b%d%s", r.id, model)
}

func (r *vC15Run) model(real string) string {
	for _, m := range []string{"s1", "s2", "j1", "j2", "*", "__cursors", "alice", "bob"} {
		if r.real(m) == real {
			return m
		}
	}
	return strings.TrimPrefix(real, fmt.Sprintf("b%d", r.id))
}

// who maps a model client to the identity the server sees
func (r *vC15Run) who(c string) string {
	base := "svc"
	if r.certCN != "" {
		base = r.certCN
	}
	switch c {
	case "alice":
		return base
	case "bob":
		return base + ".eu"
	}
	return c
}

func (r *vC15Run) unwho(id string) string {
	for _, c := range []string{"alice", "bob"} {
		if r.who(c) == id {
			return c
		}
	}
	return id
}

// vC15Subj: the NATS subject of a model stream is a name of its own (Authz!SubjOf)
func vC15Subj(modelStream string) string {
	switch modelStream {
	case "s1":
		return "j1"
	case "s2":
		return "j2"
	}
	return "jsys"
}

var vC15Streams = []string{"s1", "s2", "__cursors"}

// reload log lines of the SIGHUP handler (server/signal.go), counted through a wrapping logger
type vC15Logger struct {
	logger.Logger
	failed, reloaded int64
}

func (l *vC15Logger) Errorf(f string, v ...interface{}) {
	if strings.Contains(strings.ToLower(f), "reload") {
		atomic.AddInt64(&l.failed, 1)
	}
	l.Logger.Errorf(f, v...)
}

func (l *vC15Logger) Info(v ...interface{}) {
	if strings.Contains(strings.ToLower(fmt.Sprint(v...)), "reload") {
		atomic.AddInt64(&l.reloaded, 1)
	}
	l.Logger.Info(v...)
}

func (l *vC15Logger) Infof(f string, v ...interface{}) {
	if strings.Contains(strings.ToLower(f), "reload") {
		atomic.AddInt64(&l.reloaded, 1)
	}
	l.Logger.Infof(f, v...)
}

var (
	vC15Log        *vC15Logger
	vC15ReloadDead bool // a reload request was ignored before: do not wait long for the next ones
)

func vC15Ctx(clientID string) context.Context {
	return context.WithValue(context.Background(), "clientID", clientID)
}

// subscribe runs the Subscribe handler with a fake stream; returns the held
// subscription if the handler confirmed it, else the handler's error.
func (r *vC15Run) subscribe(clientID, stream string, resume, grp bool, consumer string, epoch uint64, grace time.Duration) (*vC15Sub, error) {
	ctx, cancel := context.WithCancel(vC15Ctx(r.who(clientID)))
	fs := &vC15SubServer{vC15Stream: vC15Stream{ctx: ctx}, first: make(chan struct{})}
	req := &client.SubscribeRequest{Stream: r.real(stream), StartPosition: client.StartPosition_NEW_ONLY, Resume: resume}
	if grp {
		req.Consumer = &client.Consumer{GroupId: r.real("g1"), ConsumerId: consumer, GroupEpoch: epoch}
	}
	sub := &vC15Sub{owner: clientID, stream: stream, group: grp, cancel: cancel, done: make(chan struct{})}
	go func() {
		sub.err = r.srv.api.Subscribe(req, fs)
		close(sub.done)
	}()
	select {
	case <-fs.first:
		// confirmed; a subscription that cannot be served (paused partition, end of a
		// readonly log) ends right away with a status
		select {
		case <-sub.done:
			cancel()
			if sub.err == nil {
				return nil, fmt.Errorf("subscription ended at once")
			}
			return nil, sub.err
		case <-time.After(grace):
		}
		r.subs = append(r.subs, sub)
		return sub, nil
	case <-sub.done:
		cancel()
		return nil, sub.err
	case <-time.After(vC15Deadline):
		cancel()
		r.t.Fatalf("INCONCLUSIVE: Subscribe handler neither confirmed nor returned")
		return nil, nil
	}
}

func (r *vC15Run) closeSubs() {
	for _, s := range r.subs {
		s.cancel()
	}
	for _, s := range r.subs {
		select {
		case <-s.done:
		case <-time.After(vC15Deadline):
			r.t.Fatalf("INCONCLUSIVE: subscription handler did not return after cancel")
		}
	}
	r.subs = nil
}

// ---- policy --------------------------------------------------------------------

func (r *vC15Run) writePolicy(entries [][]string) {
	r.lastFile = entries
	r.version++
	var b strings.Builder
	fmt.Fprintf(&b, "p, probe, probe, v%d-%d\n", r.id, r.version)
	for k, e := range entries {
		fmt.Fprintf(&b, "p, %s, %s, %s\n", r.who(e[0]), r.real(e[1]), e[2])
		if r.tornNext && k == (len(entries)-1)/2 {
			// the write stopped here once and was resumed by something else: a line no CSV reader accepts
			fmt.Fprintf(&b, "p, \"%s, %s\n", r.who(e[0]), r.real(e[1]))
		}
	}
	if r.tornNext && len(entries) == 0 {
		b.WriteString("p, \"probe, probe\n")
	}
	live := filepath.Join(r.dir, "policy.csv")
	if r.renameNext {
		next := live + ".next"
		old := time.Now().Add(-2 * time.Hour)
		if err := os.WriteFile(next, []byte(b.String()), 0o644); err != nil {
			r.t.Fatalf("INCONCLUSIVE: %v", err)
		}
		if err := os.Chtimes(next, old, old); err != nil {
			r.t.Fatalf("INCONCLUSIVE: %v", err)
		}
		if err := os.Rename(next, live); err != nil {
			r.t.Fatalf("INCONCLUSIVE: %v", err)
		}
		return
	}
	if err := os.WriteFile(live, []byte(b.String()), 0o644); err != nil {
		r.t.Fatalf("INCONCLUSIVE: %v", err)
	}
}

// reload sends the real SIGHUP and reports what the handler did with it: "Ok" (the probe entry of the
// current file version is visible in the enforcer), "Failed" (the handler logged a failed reload),
// "Ignored" (neither, although the signal was sent twice and waited for).
func (r *vC15Run) reload() string {
	if r.srv.authzEnforcer == nil {
		return "Ok" // nothing to reload into (and the pinned SIGHUP handler dereferences the missing enforcer)
	}
	probe := fmt.Sprintf("v%d-%d", r.id, r.version)
	wait := 10 * time.Second
	attempts := 2
	if vC15ReloadDead {
		wait, attempts = 200*time.Millisecond, 1
	}
	for attempt := 0; attempt < attempts; attempt++ {
		failed0 := atomic.LoadInt64(&vC15Log.failed)
		loadable := r.fileThere()
		if err := syscall.Kill(os.Getpid(), syscall.SIGHUP); err != nil {
			r.t.Fatalf("INCONCLUSIVE: kill: %v", err)
		}
		deadline := time.Now().Add(wait)
		for time.Now().Before(deadline) {
			if loadable {
				if ok, _ := r.srv.api.enforcePolicy("probe", "probe", probe); ok {
					return "Ok"
				}
			}
			if atomic.LoadInt64(&vC15Log.failed) > failed0 {
				return "Failed"
			}
			time.Sleep(200 * time.Microsecond)
		}
	}
	vC15ReloadDead = true
	return "Ignored"
}

// fileThere: the policy file can be loaded - decided by the loader the server starts with (a fresh casbin
// enforcer over the same model and policy files), not by the driver's knowledge of what it wrote
func (r *vC15Run) fileThere() bool {
	if _, err := os.Stat(filepath.Join(r.dir, "policy.csv")); err != nil {
		return false
	}
	_, err := casbin.NewEnforcer(filepath.Join(r.dir, "model.conf"), filepath.Join(r.dir, "policy.csv"))
	return err == nil
}

func (r *vC15Run) loadedPolicy() [][]string {
	if r.srv.authzEnforcer == nil {
		return [][]string{}
	}
	r.srv.authzEnforcer.authzLock.RLock()
	pol, _ := r.srv.authzEnforcer.enforcer.GetPolicy()
	r.srv.authzEnforcer.authzLock.RUnlock()
	return r.cleanPolicy(pol)
}

func (r *vC15Run) cleanPolicy(pol [][]string) [][]string {
	out := [][]string{}
	for _, e := range pol {
		if len(e) != 3 || e[0] == "probe" {
			continue
		}
		out = append(out, []string{r.unwho(e[0]), r.model(e[1]), e[2]})
	}
	sort.Slice(out, func(a, b int) bool { return strings.Join(out[a], "|") < strings.Join(out[b], "|") })
	return out
}

func (r *vC15Run) filePolicy() [][]string {
	b, err := os.ReadFile(filepath.Join(r.dir, "policy.csv"))
	if err != nil {
		// the file was removed: what it last held (Authz!policyFile keeps it, fileOK = FALSE)
		out := [][]string{}
		for _, e := range r.lastFile {
			out = append(out, []string{e[0], e[1], e[2]})
		}
		sort.Slice(out, func(a, b int) bool { return strings.Join(out[a], "|") < strings.Join(out[b], "|") })
		return out
	}
	pol := [][]string{}
	for _, line := range strings.Split(string(b), "\n") {
		f := strings.Split(line, ", ")
		if len(f) == 4 && f[0] == "p" {
			pol = append(pol, f[1:])
		}
	}
	return r.cleanPolicy(pol)
}

// ---- projection ------------------------------------------------------------------

func (r *vC15Run) world() map[string]interface{} {
	// let subscription loops start / finish: the server-side subscriber count and
	// group entry must agree with the handlers that are alive, for 20 ms in a row
	quiet := func() bool {
		for _, s := range []string{"s1", "s2", "__cursors"} {
			alive, aliveGroup := int64(0), false
			for _, sub := range r.subs {
				if sub.stream == s && sub.alive() {
					alive++
					aliveGroup = aliveGroup || sub.group
				}
			}
			p := r.srv.metadata.GetPartition(r.real(s), 0)
			if p == nil {
				if alive != 0 {
					return false
				}
				continue
			}
			p.mu.RLock()
			n := p.subscriberCount
			p.mu.RUnlock()
			if n != alive || (p.GetGroupConsumer(r.real("g1")) != nil) != aliveGroup {
				return false
			}
		}
		return true
	}
	deadline := time.Now().Add(2 * time.Second)
	since := time.Time{}
	for time.Now().Before(deadline) {
		if quiet() {
			if since.IsZero() {
				since = time.Now()
			} else if time.Since(since) > 20*time.Millisecond {
				break
			}
		} else {
			since = time.Time{}
		}
		time.Sleep(time.Millisecond)
	}
	st := map[string]interface{}{}
	cur := map[string]interface{}{}
	for _, s := range []string{"s1", "s2", "__cursors"} {
		e := map[string]interface{}{"exists": false, "paused": false, "readonly": false, "len": 0, "plain": 0,
			"gsub": map[string]interface{}{"cid": "", "epoch": -1}}
		if stream := r.srv.metadata.GetStream(r.real(s)); stream != nil {
			e["exists"] = true
			if p := stream.GetPartition(0); p != nil {
				e["paused"] = p.IsPaused()
				e["readonly"] = p.IsReadonly()
				e["len"] = p.log.NewestOffset() + 1
				if g := p.GetGroupConsumer(r.real("g1")); g != nil {
					e["gsub"] = map[string]interface{}{"cid": g.consumerID, "epoch": g.groupEpoch}
				}
			}
		}
		plain := 0
		for _, sub := range r.subs {
			if sub.stream == s && !sub.group && sub.alive() {
				plain++
			}
		}
		e["plain"] = plain
		st[s] = e
		ctx, cancel := context.WithTimeout(context.Background(), vC15Deadline)
		off, status := r.srv.cursors.GetCursor(ctx, r.real(s), "c1", 0)
		cancel()
		if status != nil {
			r.t.Fatalf("INCONCLUSIVE: GetCursor: %v", status.Err())
		}
		cur[s] = off
	}
	members := []string{}
	if g := r.srv.metadata.GetConsumerGroup(r.real("g1")); g != nil {
		for m := range g.GetMembers() {
			members = append(members, m)
		}
	}
	sort.Strings(members)
	sessions := []string{}
	for who := range r.sess {
		sessions = append(sessions, who)
	}
	sort.Strings(sessions)
	return map[string]interface{}{"policy": r.loadedPolicy(), "policyFile": r.filePolicy(), "st": st, "cursors": cur,
		"members": members, "sessions": sessions, "enforcer": r.srv.authzEnforcer != nil, "fileOK": r.fileThere(),
		// in-process calls carry the client id the interceptor would have extracted from a verified certificate
		"clientAuth": r.grpc == nil || r.srv.config.TLSClientAuth}
}

// ---- calls -----------------------------------------------------------------------

func vC15Res(err error) string {
	if err == nil {
		return "Ok"
	}
	if strings.Contains(err.Error(), "not authorized") || strings.Contains(err.Error(), "Failed to retrieve client ID") {
		return "Denied"
	}
	return "Err"
}

func (r *vC15Run) call(c map[string]interface{}) (res string, detail string) {
	defer func() {
		if p := recover(); p != nil {
			res, detail = "Crash", fmt.Sprint(p)
		}
	}()
	var (
		m      = vStr(c, "m")
		who    = vStr(c, "c")
		stream = r.real(vStr(c, "s"))
		api    = r.srv.api
		err    error
	)
	if r.grpc != nil {
		return r.callTLS(c)
	}
	ctx, cancel := context.WithTimeout(vC15Ctx(r.who(who)), 3*time.Second)
	defer cancel()
	switch m {
	case "CreateStream":
		_, err = api.CreateStream(ctx, &client.CreateStreamRequest{Name: stream, Subject: r.real(vC15Subj(vStr(c, "s")))})
	case "DeleteStream":
		_, err = api.DeleteStream(ctx, &client.DeleteStreamRequest{Name: stream})
	case "PauseStream":
		_, err = api.PauseStream(ctx, &client.PauseStreamRequest{Name: stream})
	case "SetStreamReadonly":
		_, err = api.SetStreamReadonly(ctx, &client.SetStreamReadonlyRequest{Name: stream, Readonly: vBool(c, "ro")})
	case "Subscribe":
		_, err = r.subscribe(who, vStr(c, "s"), vBool(c, "resume"), vBool(c, "grp"), who, uint64(vInt(c, "epoch")), 60*time.Millisecond)
	case "FetchMetadata":
		_, err = api.FetchMetadata(ctx, &client.FetchMetadataRequest{})
	case "FetchPartitionMetadata":
		_, err = api.FetchPartitionMetadata(ctx, &client.FetchPartitionMetadataRequest{Stream: stream})
	case "Publish":
		_, err = api.Publish(ctx, &client.PublishRequest{Stream: stream, Value: []byte("v"), AckPolicy: client.AckPolicy_LEADER})
	case "PublishToSubject":
		sctx, scancel := context.WithTimeout(vC15Ctx(r.who(who)), 400*time.Millisecond)
		_, err = api.PublishToSubject(sctx, &client.PublishToSubjectRequest{Subject: r.real(vC15Subj(vStr(c, "s"))), Value: []byte("v"),
			AckPolicy: client.AckPolicy_LEADER})
		scancel()
	case "PublishAsync":
		return r.publishAsync(who, stream)
	case "SetCursor":
		_, err = api.SetCursor(ctx, &client.SetCursorRequest{Stream: stream, CursorId: "c1", Offset: 0})
	case "FetchCursor":
		_, err = api.FetchCursor(ctx, &client.FetchCursorRequest{Stream: stream, CursorId: "c1"})
	case "JoinConsumerGroup":
		_, err = api.JoinConsumerGroup(ctx, &client.JoinConsumerGroupRequest{GroupId: r.real("g1"), ConsumerId: who,
			Streams: []string{stream}})
	case "LeaveConsumerGroup":
		_, err = api.LeaveConsumerGroup(ctx, &client.LeaveConsumerGroupRequest{GroupId: r.real("g1"), ConsumerId: who})
	case "FetchConsumerGroupAssignments":
		epoch := uint64(0)
		if g := r.srv.metadata.GetConsumerGroup(r.real("g1")); g != nil {
			g.mu.RLock()
			epoch = g.epoch
			g.mu.RUnlock()
		}
		_, err = api.FetchConsumerGroupAssignments(ctx, &client.FetchConsumerGroupAssignmentsRequest{GroupId: r.real("g1"),
			ConsumerId: who, Epoch: epoch})
	case "ReportConsumerGroupCoordinator":
		// one witness of the current coordinator generation (no majority: nothing changes)
		coord, cepoch := "none", uint64(0)
		if g := r.srv.metadata.GetConsumerGroup(r.real("g1")); g != nil {
			coord, cepoch = g.GetCoordinator()
		}
		_, err = api.ReportConsumerGroupCoordinator(ctx, &client.ReportConsumerGroupCoordinatorRequest{GroupId: r.real("g1"),
			ConsumerId: who, Coordinator: coord, Epoch: cepoch})
	default:
		return r.generic(m, who)
	}
	if err != nil {
		detail = err.Error()
	}
	return vC15Res(err), detail
}

// callTLS makes the call over gRPC with the client certificate: the client id reaches the handler through
// AuthzUnaryInterceptor / AuthzStreamInterceptor (server/authz.go), not through a hand-made context.
func (r *vC15Run) callTLS(c map[string]interface{}) (string, string) {
	var (
		m      = vStr(c, "m")
		stream = r.real(vStr(c, "s"))
		g      = r.grpcBy[vStrDef(c, "cred", "verified")]
		err    error
	)
	ctx, cancel := context.WithTimeout(context.Background(), 3*time.Second)
	defer cancel()
	switch m {
	case "CreateStream":
		_, err = g.CreateStream(ctx, &client.CreateStreamRequest{Name: stream, Subject: r.real(vC15Subj(vStr(c, "s")))})
	case "DeleteStream":
		_, err = g.DeleteStream(ctx, &client.DeleteStreamRequest{Name: stream})
	case "PauseStream":
		_, err = g.PauseStream(ctx, &client.PauseStreamRequest{Name: stream})
	case "SetStreamReadonly":
		_, err = g.SetStreamReadonly(ctx, &client.SetStreamReadonlyRequest{Name: stream, Readonly: vBool(c, "ro")})
	case "FetchMetadata":
		_, err = g.FetchMetadata(ctx, &client.FetchMetadataRequest{})
	case "FetchPartitionMetadata":
		_, err = g.FetchPartitionMetadata(ctx, &client.FetchPartitionMetadataRequest{Stream: stream})
	case "Publish":
		_, err = g.Publish(ctx, &client.PublishRequest{Stream: stream, Value: []byte("v"), AckPolicy: client.AckPolicy_LEADER})
	case "PublishToSubject":
		sctx, scancel := context.WithTimeout(context.Background(), 400*time.Millisecond)
		_, err = g.PublishToSubject(sctx, &client.PublishToSubjectRequest{Subject: r.real(vC15Subj(vStr(c, "s"))), Value: []byte("v"),
			AckPolicy: client.AckPolicy_LEADER})
		scancel()
	case "SetCursor":
		_, err = g.SetCursor(ctx, &client.SetCursorRequest{Stream: stream, CursorId: "c1", Offset: 0})
	case "FetchCursor":
		_, err = g.FetchCursor(ctx, &client.FetchCursorRequest{Stream: stream, CursorId: "c1"})
	case "Subscribe":
		sctx, scancel := context.WithCancel(context.Background())
		req := &client.SubscribeRequest{Stream: stream, StartPosition: client.StartPosition_NEW_ONLY, Resume: vBool(c, "resume")}
		if vBool(c, "grp") {
			req.Consumer = &client.Consumer{GroupId: r.real("g1"), ConsumerId: "alice", GroupEpoch: uint64(vInt(c, "epoch"))}
		}
		var sub client.API_SubscribeClient
		sub, err = g.Subscribe(sctx, req)
		if err == nil {
			_, err = sub.Recv() // the empty message that confirms the subscription, or the status
		}
		if err == nil {
			// ONE reader for the life of the stream (gRPC allows a single receiver per stream); a subscription
			// that cannot be served ends at once with a status
			held := &vC15Sub{owner: vStr(c, "c"), stream: vStr(c, "s"), group: vBool(c, "grp"), cancel: scancel, done: make(chan struct{})}
			go func() {
				for {
					if _, e := sub.Recv(); e != nil {
						held.err = e
						close(held.done)
						return
					}
				}
			}()
			select {
			case <-held.done:
				err = held.err
			case <-time.After(80 * time.Millisecond):
				r.subs = append(r.subs, held)
			}
		}
		if err != nil {
			scancel()
		}
	case "JoinConsumerGroup":
		_, err = g.JoinConsumerGroup(ctx, &client.JoinConsumerGroupRequest{GroupId: r.real("g1"), ConsumerId: vStr(c, "c"),
			Streams: []string{stream}})
	case "LeaveConsumerGroup":
		_, err = g.LeaveConsumerGroup(ctx, &client.LeaveConsumerGroupRequest{GroupId: r.real("g1"), ConsumerId: vStr(c, "c")})
	case "FetchConsumerGroupAssignments":
		epoch := uint64(0)
		if grp := r.srv.metadata.GetConsumerGroup(r.real("g1")); grp != nil {
			grp.mu.RLock()
			epoch = grp.epoch
			grp.mu.RUnlock()
		}
		_, err = g.FetchConsumerGroupAssignments(ctx, &client.FetchConsumerGroupAssignmentsRequest{GroupId: r.real("g1"),
			ConsumerId: vStr(c, "c"), Epoch: epoch})
	case "ReportConsumerGroupCoordinator":
		coord, cepoch := "none", uint64(0)
		if grp := r.srv.metadata.GetConsumerGroup(r.real("g1")); grp != nil {
			coord, cepoch = grp.GetCoordinator()
		}
		_, err = g.ReportConsumerGroupCoordinator(ctx, &client.ReportConsumerGroupCoordinatorRequest{GroupId: r.real("g1"),
			ConsumerId: vStr(c, "c"), Coordinator: coord, Epoch: cepoch})
	default:
		return "Unsupported", "not driven over TLS: " + m
	}
	if err != nil {
		return vC15Res(err), err.Error()
	}
	return "Ok", ""
}

// publishAsync sends one message on the client's PublishAsync session; the session is opened by the
// client's first message and stays open until the end of the behaviour (the Go client multiplexes all
// publishes of a connection over one such stream).
func (r *vC15Run) publishAsync(who, stream string) (string, string) {
	if r.sess == nil {
		r.sess = map[string]*vC15Sess{}
	}
	se := r.sess[who]
	if se == nil {
		ctx, cancel := context.WithCancel(vC15Ctx(r.who(who)))
		se = &vC15Sess{fs: &vC15PubServer{vC15Stream: vC15Stream{ctx: ctx}, reqs: make(chan *client.PublishRequest, 1),
			resps: make(chan *client.PublishResponse, 16)}, cancel: cancel, done: make(chan error, 1)}
		go func(se *vC15Sess) { se.done <- r.srv.api.PublishAsync(se.fs) }(se)
		r.sess[who] = se
	}
	fs := se.fs
	select {
	case fs.reqs <- &client.PublishRequest{Stream: stream, Value: []byte("v"), AckPolicy: client.AckPolicy_LEADER, CorrelationId: "k"}:
	case err := <-se.done:
		delete(r.sess, who)
		se.cancel()
		return vC15Res(err), fmt.Sprint(err)
	}
	res, detail := "", ""
	wait := 5 * time.Second
collect:
	for {
		select {
		case resp := <-fs.resps:
			switch {
			case resp.AsyncError != nil && resp.AsyncError.Code == client.PublishAsyncError_PERMISSION_DENIED:
				res, detail = "Denied", resp.AsyncError.Message
				wait = 400 * time.Millisecond // a handler that carries on would still publish: give the ack time
			case resp.AsyncError != nil:
				if res == "" {
					res, detail = "Err", resp.AsyncError.Message
				}
				break collect
			default:
				if res == "" {
					res = "Ok"
				}
				break collect
			}
		case <-time.After(wait):
			if res == "" {
				res, detail = "Err", "no response"
			}
			break collect
		}
	}
	return res, detail
}

// cancelCall: the client cancels the streaming call it made (PublishAsync session / subscription); reports
// whether a confirmed subscription of that call was still being served
func (r *vC15Run) cancelCall(c map[string]interface{}) bool {
	who := vStr(c, "c")
	if vStr(c, "m") == "PublishAsync" {
		if se := r.sess[who]; se != nil {
			se.cancel() // the gRPC stream's context ends; Recv fails like on a cancelled stream
			select {
			case <-se.done:
			case <-time.After(vC15Deadline):
				r.t.Fatalf("INCONCLUSIVE: PublishAsync handler did not return after cancel")
			}
			delete(r.sess, who)
		}
		return false
	}
	held := false
	rest := r.subs[:0:0]
	for _, sub := range r.subs {
		if sub.owner != who || sub.stream != vStr(c, "s") || sub.group != vBool(c, "grp") {
			rest = append(rest, sub)
			continue
		}
		held = held || sub.alive()
		sub.cancel()
		select {
		case <-sub.done:
		case <-time.After(vC15Deadline):
			r.t.Fatalf("INCONCLUSIVE: subscription handler did not return after cancel")
		}
	}
	r.subs = rest
	return held
}

func (r *vC15Run) closeSessions() {
	for who, se := range r.sess {
		close(se.fs.reqs)
		select {
		case <-se.done:
		case <-time.After(vC15Deadline):
			r.t.Fatalf("INCONCLUSIVE: PublishAsync handler did not return")
		}
		se.cancel()
		delete(r.sess, who)
	}
}

// generic invokes a unary method the model does not know (newly added to the
// API) with a zero request.
func (r *vC15Run) generic(m, who string) (string, string) {
	fn := reflect.ValueOf(r.srv.api).MethodByName(m)
	if !fn.IsValid() || fn.Type().NumIn() != 2 || fn.Type().NumOut() != 2 {
		return "Unsupported", "cannot invoke " + m
	}
	req := reflect.New(fn.Type().In(1).Elem())
	ctx, cancel := context.WithTimeout(vC15Ctx(r.who(who)), 3*time.Second)
	defer cancel()
	out := fn.Call([]reflect.Value{reflect.ValueOf(ctx), req})
	if e, _ := out[1].Interface().(error); e != nil {
		return vC15Res(e), e.Error()
	}
	return "Ok", ""
}

// ---- set-up of the start situation (authorisation off) ---------------------------

func (r *vC15Run) setup(cfg map[string]interface{}) {
	// the state of a server with authorisation switched off: the flag is off AND no enforcer exists (a handler
	// may gate on either); both are put back afterwards
	enf := r.srv.authzEnforcer
	r.srv.config.TLSClientAuthz, r.srv.authzEnforcer = false, nil
	defer func() { r.srv.config.TLSClientAuthz, r.srv.authzEnforcer = true, enf }()
	api := r.srv.api
	must := func(what string, err error) {
		if err != nil {
			r.t.Fatalf("INCONCLUSIVE: set-up %s: %v", what, err)
		}
	}
	st := cfg["st"].(map[string]interface{})
	cur := cfg["cursors"].(map[string]interface{})
	members := cfg["members"].([]interface{})
	for _, s := range []string{"s2", "s1"} {
		e := st[s].(map[string]interface{})
		name := r.real(s)
		if vBool(e, "exists") {
			_, err := api.CreateStream(context.Background(), &client.CreateStreamRequest{Name: name, Subject: r.real(vC15Subj(s))})
			must("create", err)
			deadline := time.Now().Add(vC15Deadline)
			for {
				if p := r.srv.metadata.GetPartition(name, 0); p != nil && p.IsLeader() {
					break
				}
				if time.Now().After(deadline) {
					r.t.Fatalf("INCONCLUSIVE: partition did not start")
				}
				time.Sleep(200 * time.Microsecond)
			}
			for k := int64(0); k < vInt(e, "len"); k++ {
				ctx, cancel := context.WithTimeout(context.Background(), vC15Deadline)
				_, err := api.Publish(ctx, &client.PublishRequest{Stream: name, Value: []byte("v"), AckPolicy: client.AckPolicy_LEADER})
				cancel()
				must("publish", err)
			}
		}
		if int64(cur[s].(float64)) >= 0 {
			ctx, cancel := context.WithTimeout(context.Background(), vC15Deadline)
			_, err := api.SetCursor(ctx, &client.SetCursorRequest{Stream: name, CursorId: "c1", Offset: 0})
			cancel()
			must("set cursor", err)
		}
	}
	for _, m := range members {
		ctx, cancel := context.WithTimeout(context.Background(), vC15Deadline)
		_, err := api.JoinConsumerGroup(ctx, &client.JoinConsumerGroupRequest{GroupId: r.real("g1"), ConsumerId: m.(string),
			Streams: []string{r.real("s2")}})
		cancel()
		must("join", err)
	}
	for _, s := range []string{"s2", "s1"} {
		e := st[s].(map[string]interface{})
		name := r.real(s)
		if !vBool(e, "exists") {
			continue
		}
		for k := int64(0); k < vInt(e, "plain"); k++ {
			_, err := r.subscribe("owner", s, false, false, "", 0, 0)
			must("plain subscription", err)
		}
		if g := e["gsub"].(map[string]interface{}); vStr(g, "cid") != "" {
			_, err := r.subscribe("owner", s, false, true, vStr(g, "cid"), uint64(vInt(g, "epoch")), 0)
			must("group subscription", err)
		}
		if vBool(e, "readonly") {
			_, err := api.SetStreamReadonly(context.Background(), &client.SetStreamReadonlyRequest{Name: name, Readonly: true})
			must("readonly", err)
		}
		if vBool(e, "paused") {
			_, err := api.PauseStream(context.Background(), &client.PauseStreamRequest{Name: name})
			must("pause", err)
		}
	}
}

// vC15SelfSigned: a certificate nobody vouches for, claiming the given common name
func vC15SelfSigned(t *testing.T, cn string) tls.Certificate {
	key, err := ecdsa.GenerateKey(elliptic.P256(), crand.Reader)
	if err != nil {
		t.Fatalf("INCONCLUSIVE: %v", err)
	}
	tmpl := &x509.Certificate{SerialNumber: big.NewInt(42), Subject: pkix.Name{CommonName: cn},
		NotBefore: time.Now().Add(-time.Hour), NotAfter: time.Now().Add(24 * time.Hour),
		KeyUsage: x509.KeyUsageDigitalSignature, ExtKeyUsage: []x509.ExtKeyUsage{x509.ExtKeyUsageClientAuth}}
	der, err := x509.CreateCertificate(crand.Reader, tmpl, tmpl, &key.PublicKey, key)
	if err != nil {
		t.Fatalf("INCONCLUSIVE: %v", err)
	}
	return tls.Certificate{Certificate: [][]byte{der}, PrivateKey: key}
}

func vC15Entries(v interface{}) [][]string {
	out := [][]string{}
	for _, e := range v.([]interface{}) {
		t := e.([]interface{})
		out = append(out, []string{t[0].(string), t[1].(string), t[2].(string)})
	}
	return out
}

func TestVerifC15(t *testing.T)    { vC15Main(t, false) }
func TestVerifC15TLS(t *testing.T) { vC15Main(t, true) }

func vC15Main(t *testing.T, tlsMode bool) {
	sf := vLoadStimuli(t)
	tw := vOpenTrace(t)
	defer tw.Close()
	defer os.RemoveAll(storagePath)

	cfg := vOneNodeConfig(t, "a")
	cfg.CursorsStream.Partitions = 1
	cfg.Groups.ConsumerTimeout = time.Hour
	cfg.Groups.CoordinatorTimeout = time.Hour
	dir := filepath.Join(storagePath, "authz")
	if err := os.MkdirAll(dir, 0o755); err != nil {
		t.Fatalf("INCONCLUSIVE: %v", err)
	}
	os.WriteFile(filepath.Join(dir, "model.conf"), []byte(vC15Model), 0o644)
	os.WriteFile(filepath.Join(dir, "policy.csv"), []byte("p, probe, probe, v0\n"), 0o644)
	var (
		srv    *Server
		gc     client.APIClient
		grpcBy map[string]client.APIClient
		certCN string
	)
	if tlsMode {
		// the server's own set-up: TLS with client certificates and the enforcer built by Server.startAPIServer
		cfg.TLSCert, cfg.TLSKey = "./configs/certs/server/server-cert.pem", "./configs/certs/server/server-key.pem"
		cfg.TLSClientAuth, cfg.TLSClientAuthCA = true, "./configs/certs/ca-cert.pem"
		cfg.TLSClientAuthz = true
		cfg.TLSClientAuthzModel, cfg.TLSClientAuthzPolicy = filepath.Join(dir, "model.conf"), filepath.Join(dir, "policy.csv")
		// configuration route: authorisation enabled but the policy / model path is missing from the configuration
		route := os.Getenv("VERIF_C15_ENFORCER")
		switch route {
		case "nopolicy":
			cfg.TLSClientAuthzPolicy = ""
		case "nomodel":
			cfg.TLSClientAuthzModel = ""
		}
		// configuration route: authorisation on, but client certificates are not verified
		if os.Getenv("VERIF_C15_CLIENTAUTH") == "off" {
			cfg.TLSClientAuth, cfg.TLSClientAuthCA = false, ""
		}
		srv = vOneNodeServer(t, cfg)
		defer srv.Stop()
		if srv.authzEnforcer == nil && route == "" {
			t.Fatalf("INCONCLUSIVE: server did not build an enforcer")
		}
		pool := x509.NewCertPool()
		ca, err := os.ReadFile("./configs/certs/ca-cert.pem")
		if err != nil {
			t.Fatalf("INCONCLUSIVE: %v", err)
		}
		pool.AppendCertsFromPEM(ca)
		cert, err := tls.LoadX509KeyPair("./configs/certs/client/client-cert.pem", "./configs/certs/client/client-key.pem")
		if err != nil {
			t.Fatalf("INCONCLUSIVE: %v", err)
		}
		leaf, err := x509.ParseCertificate(cert.Certificate[0])
		if err != nil {
			t.Fatalf("INCONCLUSIVE: %v", err)
		}
		certCN = leaf.Subject.CommonName
		// three ways of authenticating: the certificate signed by the CA, a self-signed certificate that
		// merely claims the same common name, no certificate at all
		forged := vC15SelfSigned(t, certCN)
		grpcBy = map[string]client.APIClient{}
		for cred, certs := range map[string][]tls.Certificate{"verified": {cert}, "forged": {forged}, "none": nil} {
			conn, err := grpc.Dial(fmt.Sprintf("localhost:%d", srv.GetListenPort()), grpc.WithTransportCredentials(
				credentials.NewTLS(&tls.Config{ServerName: "localhost", Certificates: certs, RootCAs: pool})))
			if err != nil {
				t.Fatalf("INCONCLUSIVE: dial: %v", err)
			}
			defer conn.Close()
			grpcBy[cred] = client.NewAPIClient(conn)
		}
		gc = grpcBy["verified"]
	} else {
		srv = vOneNodeServer(t, cfg)
		defer srv.Stop()
		enf, err := casbin.NewEnforcer(filepath.Join(dir, "model.conf"), filepath.Join(dir, "policy.csv"))
		if err != nil {
			t.Fatalf("INCONCLUSIVE: enforcer: %v", err)
		}
		srv.authzEnforcer = &authzEnforcer{enforcer: enf}
		srv.config.TLSClientAuthz = true
	}
	vC15Log = &vC15Logger{Logger: srv.logger}
	srv.logger = vC15Log
	vC15ReloadDead = false
	// wait until the cursors stream is served
	deadline := time.Now().Add(vC15Deadline)
	for {
		if p := srv.metadata.GetPartition(cursorsStream, 0); p != nil && p.IsLeader() {
			break
		}
		if time.Now().After(deadline) {
			t.Fatalf("INCONCLUSIVE: cursors stream did not start")
		}
		time.Sleep(time.Millisecond)
	}

	// the methods of the generated client API, by reflection
	it := reflect.TypeOf((*client.APIServer)(nil)).Elem()
	apiMethods := []string{}
	for i := 0; i < it.NumMethod(); i++ {
		if it.Method(i).PkgPath == "" {
			apiMethods = append(apiMethods, it.Method(i).Name)
		}
	}
	sort.Strings(apiMethods)
	tw.Emit(map[string]interface{}{"a": "Methods", "t": 0, "methods": apiMethods})

	for _, b := range sf.Behaviours {
		r := &vC15Run{t: t, srv: srv, id: b.ID, dir: dir, grpc: gc, grpcBy: grpcBy, certCN: certCN}
		r.setup(b.Cfg)
		r.writePolicy(vC15Entries(b.Cfg["policy"]))
		if res := r.reload(); res != "Ok" && srv.authzEnforcer != nil {
			// the start situation could not be loaded: recorded, the Open line then shows policy # policyFile
			t.Logf("initial policy load of behaviour %d: %s", b.ID, res)
		}
		tw.Emit(map[string]interface{}{"a": "Open", "t": b.ID, "args": map[string]interface{}{}, "st": r.world(),
			"obs": map[string]interface{}{"a": "Open", "res": "Ok"}})
		for _, s := range b.Steps {
			a := vStr(s, "a")
			obs := map[string]interface{}{"a": a, "res": "Ok"}
			args := map[string]interface{}{}
			switch a {
			case "Call":
				c := s["call"].(map[string]interface{})
				res, detail := r.call(c)
				obs["res"] = res
				obs["detail"] = detail
				args["call"] = c
			case "EditPolicy":
				// how the operator puts the new revision in place: written in place, or prepared earlier
				// and renamed over the live file (which keeps the OLD modification time of the prepared file)
				r.renameNext = vStrDef(s, "how", "inplace") == "rename"
				r.writePolicy(vC15Entries(s["policy"]))
				r.renameNext = false
			case "BreakFile":
				if vStrDef(s, "kind", "removed") == "torn" {
					r.tornNext = true
					r.writePolicy(vC15Entries(s["policy"]))
					r.tornNext = false
				} else {
					os.Remove(filepath.Join(dir, "policy.csv"))
				}
			case "Cancel":
				c := s["call"].(map[string]interface{})
				args["call"] = c
				args["held"] = r.cancelCall(c)
			case "Reload":
				obs["res"] = r.reload()
			}
			tw.Emit(map[string]interface{}{"a": a, "t": b.ID, "args": args, "st": r.world(), "obs": obs})
		}
		r.closeSessions()
		r.closeSubs()
	}
}
