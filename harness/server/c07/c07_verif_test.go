//go:build verif

package server

// Lock-step replay of Failover.tla behaviours on a REAL one-node controller
// (property C07: partition leadership changes are safe and fenced by epochs).
//
// Every worker owns a one-node server (embedded NATS on a private port,
// single-node Raft, this node is the metadata leader).  A behaviour gets a fresh
// stream whose partition has FICTITIOUS replicas (r1..r4; the controller itself is
// not a replica), created by proposing a real CREATE_STREAM entry to Raft.  The
// real metadataAPI.ReportLeader / ShrinkISR / ExpandISR / DeleteStream, the real
// failoverStatus with its real expiry timer (ReplicaMaxLeaderTimeout = 120 ms),
// electNewPartitionLeader and the FSM apply path then run unmodified.
//
// Steps are intents; requests name their (leader, epoch) pair by a selector that is
// resolved against the real state (real epochs are Raft indices).  After every
// step the abstract state is projected from the real objects (partition leader,
// epochs, ISR; the partition's entry in partitionFailovers and its witness set).
// The verdict is TLC's (Trace_Failover.tla); this file never decides pass/fail.
//
// Time: the only spontaneous event is the expiry timer.  For every step that is
// not an Expire step the driver PROVES by the clock that the timer cannot have
// fired (less than 60% of the timeout passed since the start of the last report);
// otherwise the behaviour is re-executed on a fresh stream.  An Expire step waits
// until the entry is gone, or - when it stays - until a canary timer armed after
// the last report has fired plus half a timeout.

import (
	"bytes"
	"context"
	"fmt"
	"io"
	"os"
	"runtime"
	"sort"
	"strconv"
	"strings"
	"sync"
	"testing"
	"time"

	"google.golang.org/grpc/codes"
	"google.golang.org/grpc/status"

	"github.com/liftbridge-io/liftbridge/server/logger"
	proto "github.com/liftbridge-io/liftbridge/server/protocol"
)

const (
	vC07Timeout  = 120 * time.Millisecond
	vC07Deadline = 20 * time.Second
	vC07Attempts = 6
)

var vC07Replicas = []string{"r1", "r2", "r3", "r4"}

// time spent per kind of step (reported at the end, for budgeting)
var (
	vC07StatsMu sync.Mutex
	vC07Stats   = map[string][2]int64{}
)

func vC07Stat(kind string, d time.Duration) {
	vC07StatsMu.Lock()
	x := vC07Stats[kind]
	x[0]++
	x[1] += int64(d / time.Microsecond)
	vC07Stats[kind] = x
	vC07StatsMu.Unlock()
}

type vC07Fo struct {
	On  bool     `json:"on"`
	Wit []string `json:"wit"`
}

// a report that is inside metadataAPI.ReportLeader: it has passed the (leader,
// epoch) check and is parked at the gate before the witness registration
type vC07Pend struct {
	K       string `json:"k"` // report | shrink | expand | elect
	W       string `json:"w"`
	L       string `json:"l"`
	E       int64  `json:"e"`
	gate    string // the gate this request parks at
	parked  chan struct{}
	release chan struct{}
	done    chan *status.Status
}

var vC07Slots sync.Map // goroutine id -> *vC07Pend

func vGoID() uint64 {
	var buf [64]byte
	n := runtime.Stack(buf[:], false)
	s := strings.TrimPrefix(string(buf[:n]), "goroutine ")
	id, _ := strconv.ParseUint(s[:strings.IndexByte(s, ' ')], 10, 64)
	return id
}

// vC07Gate parks the calling goroutine at the gate in ReportLeader if the driver
// registered a slot for it (ordinary, atomic reports pass straight through)
func vC07Gate(name string) {
	switch name {
	case "metadata.report_leader.checked", "metadata.shrink_isr.checked", "metadata.expand_isr.checked",
		"metadata.elect.checked":
	default:
		return
	}
	if v, ok := vC07Slots.Load(vGoID()); ok {
		slot := v.(*vC07Pend)
		if slot.gate != name {
			return
		}
		close(slot.parked)
		<-slot.release
	}
}

// vC07Sink is the raft.SnapshotSink the controller's snapshot is persisted into
type vC07Sink struct {
	bytes.Buffer
	cancelled bool
}

func (s *vC07Sink) ID() string    { return "c07" }
func (s *vC07Sink) Cancel() error { s.cancelled = true; return nil }
func (s *vC07Sink) Close() error  { return nil }

type vC07State struct {
	Exists bool       `json:"exists"`
	Isr    []string   `json:"isr"`
	Pisr   []string   `json:"pisr"` // the persisted copy (protobuf Partition.Isr)
	Leader string     `json:"leader"`
	LEpoch int64      `json:"lepoch"`
	PEpoch int64      `json:"pepoch"`
	E0     int64      `json:"e0"`
	Fo     vC07Fo     `json:"fo"`
	Pend   []vC07Pend `json:"pend"`
}

type vC07Obs struct {
	A   string `json:"a"`
	Err string `json:"err"`
}

type vC07Event struct {
	T    int                    `json:"t"`
	A    string                 `json:"a"`
	Args map[string]interface{} `json:"args"`
	St   vC07State              `json:"st"`
	Obs  vC07Obs                `json:"obs"`
}

type vC07Run struct {
	t        *testing.T
	srv      *Server
	id       int
	stream   string
	p        *partition
	e0       int64
	armStart time.Time // start of the last report since the last window end (zero: none)
	pend     []*vC07Pend
	// the replicators the real broker r1 started in each of its leadership terms of
	// this partition (leader epoch -> replica -> replicator): a health tick that is
	// still in flight when r1 is deposed belongs to one of them
	terms map[int64]map[string]*replicator
}

// The real broker of every worker IS replica r1 of the partitions (the other
// replicas are fictitious): when r1 leads it runs its real replicators, and the ISR
// requests of r1's terms are built by the real replicator.shrinkISR / expandISR
// (the call a health tick makes), not by the driver.
const vC07Self = "r1"

// vC07Logger records what the calling goroutine logged as an error: the replicator
// reports the controller's answer to its ISR request only there.
type vC07Logger struct {
	logger.Logger
	errs sync.Map // goroutine id -> []string
}

func (l *vC07Logger) Errorf(format string, v ...interface{}) {
	gid := vGoID()
	if cur, ok := l.errs.Load(gid); ok {
		l.errs.Store(gid, append(cur.([]string), fmt.Sprintf(format, v...)))
	}
	l.Logger.Errorf(format, v...)
}

// viaReplicator lets the replicator issue its request and returns the class of the
// controller's answer as the replicator logged it
func (r *vC07Run) viaReplicator(rr *replicator, shrink bool) string {
	lg, _ := r.srv.logger.(*vC07Logger)
	gid := vGoID()
	if lg != nil {
		lg.errs.Store(gid, []string{})
		defer lg.errs.Delete(gid)
	}
	if shrink {
		rr.shrinkISR()
	} else {
		rr.expandISR()
	}
	if lg == nil {
		return "other:no logger"
	}
	cur, _ := lg.errs.Load(gid)
	for _, m := range cur.([]string) {
		switch {
		case strings.Contains(m, "Leader generation mismatch"):
			return "stale"
		case strings.Contains(m, "No such partition"), strings.Contains(m, "partition does not exist"),
			strings.Contains(m, "stream does not exist"):
			return "nopart"
		case strings.Contains(m, "ISR"):
			return "other:" + m
		}
	}
	return ""
}

// captureTerm remembers the replicators of r1's current leadership term
func (r *vC07Run) captureTerm() {
	if r.p == nil {
		return
	}
	r.p.mu.RLock()
	defer r.p.mu.RUnlock()
	if !r.p.isLeading || r.p.Leader != vC07Self || len(r.p.replicators) == 0 {
		return
	}
	m := map[string]*replicator{}
	for k, v := range r.p.replicators {
		m[k] = v
	}
	if r.terms == nil {
		r.terms = map[int64]map[string]*replicator{}
	}
	r.terms[int64(r.p.LeaderEpoch)] = m
}

// requester: the replicator of the term (l, e) that would send an ISR request about
// replica rep, if the real broker led that term
func (r *vC07Run) requester(rep, l string, e uint64) *replicator {
	if l != vC07Self {
		return nil
	}
	if m := r.terms[int64(e)]; m != nil {
		return m[rep]
	}
	return nil
}

func (r *vC07Run) create(isr []string) error {
	ctx, cancel := context.WithTimeout(context.Background(), vC07Deadline)
	defer cancel()
	op := &proto.RaftLog{
		Op: proto.Op_CREATE_STREAM,
		CreateStreamOp: &proto.CreateStreamOp{Stream: &proto.Stream{
			Name:    r.stream,
			Subject: r.stream,
			Partitions: []*proto.Partition{{
				Stream:            r.stream,
				Subject:           r.stream,
				Id:                0,
				ReplicationFactor: int32(len(vC07Replicas)),
				Replicas:          append([]string{}, vC07Replicas...),
				Isr:               append([]string{}, isr...),
				Leader:            "r1",
			}},
			CreationTimestamp: time.Now().UnixNano(),
		}},
	}
	future, err := r.srv.getRaft().applyOperation(ctx, op, r.srv.metadata.checkCreateStreamPreconditions)
	if err != nil {
		return err
	}
	if err := future.Error(); err != nil {
		return err
	}
	r.p = r.srv.metadata.GetPartition(r.stream, 0)
	if r.p == nil {
		return fmt.Errorf("partition missing after create")
	}
	_, e := r.p.GetLeader()
	r.e0 = int64(e)
	r.captureTerm()
	return nil
}

func (r *vC07Run) electParked() bool {
	for _, x := range r.pend {
		if x.K == "elect" {
			return true
		}
	}
	return false
}

func (r *vC07Run) failover() *failoverStatus {
	m := r.srv.metadata
	m.mu.RLock()
	defer m.mu.RUnlock()
	return m.partitionFailovers[r.p]
}

func (r *vC07Run) state() vC07State {
	leader, le := r.p.GetLeader()
	isr := r.p.GetISR()
	sort.Strings(isr)
	r.p.mu.RLock()
	pisr := append([]string{}, r.p.Isr...)
	r.p.mu.RUnlock()
	sort.Strings(pisr)
	st := vC07State{
		Exists: r.srv.metadata.GetPartition(r.stream, 0) != nil,
		Isr:    isr,
		Pisr:   pisr,
		Leader: leader,
		LEpoch: int64(le),
		PEpoch: int64(r.p.GetEpoch()),
		E0:     r.e0,
		Fo:     vC07Fo{Wit: []string{}},
		Pend:   []vC07Pend{},
	}
	for _, x := range r.pend {
		st.Pend = append(st.Pend, vC07Pend{K: x.K, W: x.W, L: x.L, E: x.E})
	}
	if f := r.failover(); f != nil {
		f.mu.Lock()
		st.Fo.On = true
		for w := range f.witnesses {
			st.Fo.Wit = append(st.Fo.Wit, w)
		}
		f.mu.Unlock()
		sort.Strings(st.Fo.Wit)
	}
	return st
}

func vC07ErrClass(st *status.Status) string {
	if st == nil {
		return ""
	}
	msg := st.Message()
	switch {
	case st.Code() == codes.FailedPrecondition && strings.HasPrefix(msg, "Leader generation mismatch"):
		return "stale"
	case st.Code() == codes.FailedPrecondition && strings.HasPrefix(msg, "No such partition"):
		return "nopart"
	case st.Code() == codes.FailedPrecondition && msg == "No ISR candidates":
		return "nocand"
	case st.Code() == codes.NotFound:
		return "nostream"
	case st.Code() == codes.Internal && strings.HasPrefix(msg, "Failed to "):
		return "raft" // the Raft entry could not be replicated (deadline over)
	}
	return "other:" + st.Code().String() + ":" + msg
}

// pair resolves a (leader, epoch) selector against the real state
func (r *vC07Run) pair(ps string) (string, uint64) {
	leader, le := r.p.GetLeader()
	switch ps {
	case "cur":
		return leader, le
	case "sl":
		for _, x := range vC07Replicas {
			if x != leader {
				return x, le
			}
		}
	case "prev":
		return leader, le - 1
	case "next":
		return leader, le + 1
	case "pep":
		return leader, r.p.GetEpoch()
	case "first":
		return "r1", uint64(r.e0)
	case "own":
		// the most recent leadership term of the real broker
		own := r.e0
		for e := range r.terms {
			if e > own {
				own = e
			}
		}
		return vC07Self, uint64(own)
	}
	panic("unknown pair selector " + ps)
}

// prefer arranges the broker loads (the environment of an election) so that every
// wrong candidate list shows: the current leader is the least loaded broker of all,
// then the replicas OUTSIDE the in-sync set, then `pref` (the in-sync follower the
// model picks), then the other in-sync followers.  A correct election (candidates =
// in-sync followers) elects `pref`; one that forgets to exclude the reported leader
// re-elects it; one that takes its candidates from outside the ISR elects an
// out-of-sync replica.
func (r *vC07Run) prefer(pref string) {
	m := r.srv.metadata
	leader, _ := r.p.GetLeader()
	inISR := map[string]bool{}
	for _, x := range r.p.GetISR() {
		inISR[x] = true
	}
	m.stats.Lock()
	for _, x := range vC07Replicas {
		if inISR[x] {
			m.stats.brokerLeaderLoad[x] = 5
		} else {
			m.stats.brokerLeaderLoad[x] = 1
		}
	}
	if pref != "" && pref != "none" {
		m.stats.brokerLeaderLoad[pref] = 2
	}
	m.stats.brokerLeaderLoad[leader] = 0
	m.stats.Unlock()
}

// step executes one intent; ok=false: the clock could not rule out a spontaneous
// timer expiry (the behaviour is repeated)
func (r *vC07Run) step(step map[string]interface{}) (ev vC07Event, ok bool) {
	a := vStr(step, "a")
	args := map[string]interface{}{}
	obs := vC07Obs{A: a}
	ctx, cancel := context.WithTimeout(context.Background(), vC07Deadline)
	defer cancel()
	// fault "no Raft entry can be replicated for this request": the request arrives
	// with its deadline already over (every Raft proposal of the call times out)
	okFlag := true
	if v, has := step["ok"]; has {
		okFlag = v.(bool)
	}
	reqCtx := ctx
	if !okFlag {
		c3, cancel3 := context.WithDeadline(context.Background(), time.Now().Add(-time.Hour))
		defer cancel3()
		reqCtx = c3
	}
	faultMissed := false
	timing := false // timing interference seen by the step itself: repeat the behaviour
	pepochBefore := int64(r.p.GetEpoch())
	expire := false
	t0 := time.Now()
	defer func() { vC07Stat(a, time.Since(t0)) }()
	func() {
		defer func() {
			if p := recover(); p != nil {
				obs.Err = fmt.Sprintf("panic:%v", p)
			}
		}()
		switch a {
		case "Report":
			w, ps := vStr(step, "w"), vStr(step, "ps")
			l, e := r.pair(ps)
			args["w"], args["ps"], args["l"], args["e"] = w, ps, l, int64(e)
			args["pref"] = vStrDef(step, "pref", "none")
			args["ok"] = okFlag
			r.prefer(vStrDef(step, "pref", "none"))
			_, leBefore := r.p.GetLeader()
			start := time.Now()
			st := r.srv.metadata.ReportLeader(reqCtx, &proto.ReportLeaderOp{
				Stream: r.stream, Partition: 0, Replica: w, Leader: l, LeaderEpoch: e})
			obs.Err = vC07ErrClass(st)
			if _, leAfter := r.p.GetLeader(); !okFlag && leAfter != leBefore {
				faultMissed = true // the proposal got through although its deadline was over
			}
			if obs.Err == "" {
				// an accepted report (re)arms the entry's timer, at the earliest at `start`
				r.armStart = start
			}
		case "ReportCheck":
			w, ps := vStr(step, "w"), vStr(step, "ps")
			l, e := r.pair(ps)
			args["w"], args["ps"], args["l"], args["e"] = w, ps, l, int64(e)
			slot := &vC07Pend{K: "report", W: w, L: l, E: int64(e), gate: "metadata.report_leader.checked", parked: make(chan struct{}),
				release: make(chan struct{}), done: make(chan *status.Status, 1)}
			go func() {
				gid := vGoID()
				vC07Slots.Store(gid, slot)
				defer vC07Slots.Delete(gid)
				c2, cancel2 := context.WithTimeout(context.Background(), vC07Deadline)
				defer cancel2()
				slot.done <- r.srv.metadata.ReportLeader(c2, &proto.ReportLeaderOp{
					Stream: r.stream, Partition: 0, Replica: w, Leader: l, LeaderEpoch: e})
			}()
			select {
			case <-slot.parked:
				r.pend = append(r.pend, slot)
			case st := <-slot.done:
				obs.Err = vC07ErrClass(st)
				if st == nil {
					obs.Err = "other:returned without reaching the gate"
				}
			case <-time.After(vC07Deadline):
				panic("report neither parked nor returned")
			}
		case "ElectCheck":
			// a report that may complete the quorum: it runs up to the comparison inside
			// electNewPartitionLeader (gate metadata.elect.checked) and parks there; a
			// report that does not start an election simply returns
			w, ps := vStr(step, "w"), vStr(step, "ps")
			l, e := r.pair(ps)
			args["w"], args["ps"], args["l"], args["e"] = w, ps, l, int64(e)
			slot := &vC07Pend{K: "elect", W: w, L: l, E: int64(e), gate: "metadata.elect.checked", parked: make(chan struct{}),
				release: make(chan struct{}), done: make(chan *status.Status, 1)}
			start := time.Now()
			go func() {
				gid := vGoID()
				vC07Slots.Store(gid, slot)
				defer vC07Slots.Delete(gid)
				c2, cancel2 := context.WithTimeout(context.Background(), vC07Deadline)
				defer cancel2()
				slot.done <- r.srv.metadata.ReportLeader(c2, &proto.ReportLeaderOp{
					Stream: r.stream, Partition: 0, Replica: w, Leader: l, LeaderEpoch: e})
			}()
			select {
			case <-slot.parked:
				r.pend = append(r.pend, slot)
				r.armStart = time.Time{} // report() stopped the timer before the election
			case st := <-slot.done:
				obs.Err = vC07ErrClass(st)
				if obs.Err == "" {
					r.armStart = start
				}
			case <-time.After(vC07Deadline):
				panic("report neither parked nor returned")
			}
		case "ElectApply":
			i := int(vInt(step, "i"))
			args["i"] = i
			args["pref"] = vStrDef(step, "pref", "none")
			if i < 1 || i > len(r.pend) || r.pend[i-1].K != "elect" ||
				r.srv.metadata.GetPartition(r.stream, 0) == nil {
				obs.A, a = "Skip", "Skip"
				return
			}
			slot := r.pend[i-1]
			r.prefer(vStrDef(step, "pref", "none"))
			close(slot.release)
			st := <-slot.done
			r.pend = append(append([]*vC07Pend{}, r.pend[:i-1]...), r.pend[i:]...)
			obs.Err = vC07ErrClass(st)
		case "ISRCheck":
			k, rep, ps := vStr(step, "k"), vStr(step, "r"), vStr(step, "ps")
			l, e := r.pair(ps)
			args["k"], args["r"], args["ps"], args["l"], args["e"] = k, rep, ps, l, int64(e)
			if k == "shrink" && rep == l {
				obs.A, a = "Skip", "Skip" // outside the domain, see Shrink
				return
			}
			slot := &vC07Pend{K: k, W: rep, L: l, E: int64(e), gate: "metadata." + k + "_isr.checked", parked: make(chan struct{}),
				release: make(chan struct{}), done: make(chan *status.Status, 1)}
			go func() {
				gid := vGoID()
				vC07Slots.Store(gid, slot)
				defer vC07Slots.Delete(gid)
				c2, cancel2 := context.WithTimeout(context.Background(), vC07Deadline)
				defer cancel2()
				if rr := r.requester(rep, l, e); rr != nil {
					cls := r.viaReplicator(rr, k == "shrink")
					switch cls {
					case "":
						slot.done <- nil
					case "stale":
						slot.done <- status.New(codes.FailedPrecondition, "Leader generation mismatch (logged by the replicator)")
					case "nopart":
						slot.done <- status.New(codes.FailedPrecondition, "No such partition (logged by the replicator)")
					default:
						slot.done <- status.New(codes.Unknown, cls)
					}
					return
				}
				if k == "shrink" {
					slot.done <- r.srv.metadata.ShrinkISR(c2, &proto.ShrinkISROp{
						Stream: r.stream, Partition: 0, ReplicaToRemove: rep, Leader: l, LeaderEpoch: e})
				} else {
					slot.done <- r.srv.metadata.ExpandISR(c2, &proto.ExpandISROp{
						Stream: r.stream, Partition: 0, ReplicaToAdd: rep, Leader: l, LeaderEpoch: e})
				}
			}()
			select {
			case <-slot.parked:
				r.pend = append(r.pend, slot)
			case st := <-slot.done:
				obs.Err = vC07ErrClass(st)
				if st == nil {
					obs.Err = "other:returned without reaching the gate"
				}
			case <-time.After(vC07Deadline):
				panic("ISR request neither parked nor returned")
			}
		case "ISRApply":
			i := int(vInt(step, "i"))
			args["i"] = i
			if i < 1 || i > len(r.pend) || (r.pend[i-1].K != "shrink" && r.pend[i-1].K != "expand") ||
				r.srv.metadata.GetPartition(r.stream, 0) == nil {
				obs.A, a = "Skip", "Skip"
				return
			}
			slot := r.pend[i-1]
			close(slot.release)
			st := <-slot.done
			r.pend = append(append([]*vC07Pend{}, r.pend[:i-1]...), r.pend[i:]...)
			obs.Err = vC07ErrClass(st)
		case "ReportApply":
			i := int(vInt(step, "i"))
			args["i"] = i
			args["pref"] = vStrDef(step, "pref", "none")
			if i < 1 || i > len(r.pend) || r.pend[i-1].K != "report" ||
				r.srv.metadata.GetPartition(r.stream, 0) == nil {
				obs.A, a = "Skip", "Skip"
				return
			}
			slot := r.pend[i-1]
			r.prefer(vStrDef(step, "pref", "none"))
			start := time.Now()
			close(slot.release)
			st := <-slot.done
			r.pend = append(append([]*vC07Pend{}, r.pend[:i-1]...), r.pend[i:]...)
			obs.Err = vC07ErrClass(st)
			if obs.Err == "" {
				r.armStart = start
			}
		case "Shrink", "Expand":
			rep, ps := vStr(step, "r"), vStr(step, "ps")
			l, e := r.pair(ps)
			args["r"], args["ps"], args["l"], args["e"] = rep, ps, l, int64(e)
			if a == "Shrink" && rep == l {
				// outside the domain (the in-tree sender never asks to remove the
				// leader it names): the intent is not executed
				obs.A, a = "Skip", "Skip"
				return
			}
			args["ok"] = okFlag
			if rr := r.requester(rep, l, e); rr != nil && okFlag {
				// the request of a term the real broker led: built and sent by its
				// real replicator (l, e = what that term's requests must carry)
				args["via"] = "replicator"
				obs.Err = r.viaReplicator(rr, a == "Shrink")
				return
			}
			args["via"] = "driver"
			var st *status.Status
			if a == "Shrink" {
				st = r.srv.metadata.ShrinkISR(reqCtx, &proto.ShrinkISROp{
					Stream: r.stream, Partition: 0, ReplicaToRemove: rep, Leader: l, LeaderEpoch: e})
			} else {
				st = r.srv.metadata.ExpandISR(reqCtx, &proto.ExpandISROp{
					Stream: r.stream, Partition: 0, ReplicaToAdd: rep, Leader: l, LeaderEpoch: e})
			}
			obs.Err = vC07ErrClass(st)
			if !okFlag && obs.Err == "" {
				faultMissed = true
			}
		case "Rebuild":
			// rebuild the partition object from its persisted form.
			// how = resume: pause the stream (real PauseStream) and resume it (real
			// RESUME_STREAM entry through Raft; ResumeStream itself would then wait for
			// the fictitious leader's status).
			// how = restore: the controller's FSM takes a snapshot of its state (real
			// Server.Snapshot + fsmSnapshot.Persist) and is handed it back (real
			// Server.Restore on the running server, as Raft's InstallSnapshot does).
			how := vStrDef(step, "how", "resume")
			args["how"] = how
			if len(r.pend) > 0 {
				obs.A, a = "Skip", "Skip" // outside the domain
				return
			}
			if how == "restore" {
				fs, err := r.srv.Snapshot()
				if err != nil {
					obs.Err = "other:snapshot:" + err.Error()
					return
				}
				sink := &vC07Sink{}
				if err := fs.Persist(sink); err != nil || sink.cancelled {
					obs.Err = fmt.Sprintf("other:persist:%v", err)
					return
				}
				fs.Release()
				err = r.srv.Restore(io.NopCloser(bytes.NewReader(sink.Bytes())))
				if np := r.srv.metadata.GetPartition(r.stream, 0); np != nil {
					r.p = np
				}
				r.armStart = time.Time{}
				switch {
				case err != nil:
					obs.Err = "other:restore:" + err.Error()
				case r.srv.metadata.GetPartition(r.stream, 0) == nil:
					obs.Err = "nostream" // the snapshot holds no such stream
				}
				return
			}
			st := r.srv.metadata.PauseStream(ctx, &proto.PauseStreamOp{Stream: r.stream})
			obs.Err = vC07ErrClass(st)
			if st != nil {
				return
			}
			op := &proto.RaftLog{Op: proto.Op_RESUME_STREAM,
				ResumeStreamOp: &proto.ResumeStreamOp{Stream: r.stream, Partitions: []int32{0}}}
			future, err := r.srv.getRaft().applyOperation(ctx, op, r.srv.metadata.checkResumeStreamPreconditions)
			if err == nil {
				err = future.Error()
			}
			if err != nil {
				obs.Err = "other:resume:" + err.Error()
				return
			}
			if np := r.srv.metadata.GetPartition(r.stream, 0); np != nil {
				r.p = np
			}
			r.armStart = time.Time{}
		case "Expire":
			if r.electParked() {
				obs.A, a = "Skip", "Skip" // outside the domain
				return
			}
			expire = true
			if !r.expire() {
				timing = true
			}
		case "Lose":
			if r.electParked() {
				obs.A, a = "Skip", "Skip" // outside the domain
				return
			}
			raft := r.srv.getRaft()
			if err := r.srv.leadershipLost(raft); err != nil {
				obs.Err = "other:" + err.Error()
				return
			}
			if err := r.srv.leadershipAcquired(raft); err != nil {
				obs.Err = "other:" + err.Error()
			}
			r.armStart = time.Time{}
		case "Remove":
			if len(r.pend) > 0 {
				// outside the domain: no report is inside ReportLeader when the stream goes
				obs.A, a = "Skip", "Skip"
				return
			}
			st := r.srv.metadata.DeleteStream(ctx, &proto.DeleteStreamOp{Stream: r.stream})
			obs.Err = vC07ErrClass(st)
		default:
			panic("unknown action " + a)
		}
	}()
	if !okFlag && r.p != nil {
		// The expired deadline makes the call give up on its Raft proposal, but the
		// proposal may already be queued ("timed out" is not "not applied").  Flush
		// the Raft pipeline and see whether anything was applied after all: then the
		// injected fault did not take and the behaviour is repeated.
		if err := r.srv.getRaft().Barrier(vC07Deadline).Error(); err != nil {
			faultMissed = true
		}
		if int64(r.p.GetEpoch()) != pepochBefore {
			faultMissed = true
		}
	}
	r.captureTerm()
	st := r.state()
	ok = true
	if !expire && !r.armStart.IsZero() && time.Since(r.armStart) > vC07Timeout*6/10 {
		ok = false
	}
	if faultMissed || timing {
		ok = false // the injected fault did not take / timing interference: repeat the behaviour
	}
	if !st.Fo.On {
		r.armStart = time.Time{}
	}
	return vC07Event{T: r.id, A: a, Args: args, St: st, Obs: obs}, ok
}

// expire lets more than the timeout pass without a report.  The step must end in a
// PROVEN situation, whatever the machine load does to this process:
//   - the entry is gone, or
//   - the entry stays and its timer is not running (stopped: it stays for ever), or
//   - the entry stays and its timer is still pending after two full periods (it was
//     armed with a longer period than the window).
// A timer that is merely late (runtime / callback starved) is never recorded as
// "stays": the real timer is asked (Stop() tells whether it was pending).
// false: the outcome could not be established (the behaviour is repeated).
func (r *vC07Run) expire() bool {
	defer func() { r.armStart = time.Time{} }()
	f := r.failover()
	if f == nil {
		return true // nothing that could expire
	}
	for round := 1; ; round++ {
		// until the entry is gone or a canary timer armed AFTER the entry's last
		// (re)arming has fired plus half a timeout
		fired := make(chan struct{})
		canary := time.AfterFunc(vC07Timeout, func() { close(fired) })
		var graceEnd time.Time
	wait:
		for {
			if r.failover() == nil {
				canary.Stop()
				return true
			}
			select {
			case <-fired:
				if graceEnd.IsZero() {
					graceEnd = time.Now().Add(vC07Timeout / 2)
				} else if time.Now().After(graceEnd) {
					break wait
				}
				time.Sleep(time.Millisecond)
			case <-time.After(time.Millisecond):
			}
		}
		if cur := r.failover(); cur != f {
			return cur == nil // replaced (only this driver makes reports): repeat
		}
		// The entry is still there.  Ask the real timer.
		f.mu.Lock()
		pending := f.timer != nil && f.timer.Stop()
		if pending {
			f.timer.Reset(f.failover.Timeout()) // put it back: a full period again
		}
		f.mu.Unlock()
		if !pending {
			break
		}
		// pending although a timer armed later with the window's period fired long
		// ago: the runtime is late (load), or the period is longer than the window
		if round == 2 {
			vC07Stat("expire-long-period", 0)
			return true // two full periods: the entry stays, its timer runs on a longer period
		}
		vC07Stat("expire-late-timer", 0)
	}
	// Not pending: the timer was stopped earlier, or it has fired and its callback
	// (which takes metadataAPI.mu and deletes the entry) is still on its way.  Give
	// the callback a long time - wall clock AND scheduling rounds of this goroutine.
	t0 := time.Now()
	for polls := 0; polls < 200 || time.Since(t0) < 600*time.Millisecond; polls++ {
		if r.failover() == nil {
			vC07Stat("expire-late-callback", time.Since(t0))
			return true
		}
		time.Sleep(time.Millisecond)
		runtime.Gosched()
	}
	vC07Stat("expire-entry-stays", time.Since(t0))
	return true // the entry stays: its timer is not running
}

func (r *vC07Run) cleanup() {
	for _, slot := range r.pend {
		close(slot.release)
		<-slot.done
	}
	r.pend = nil
	if r.p == nil {
		return
	}
	if r.srv.metadata.GetPartition(r.stream, 0) != nil {
		ctx, cancel := context.WithTimeout(context.Background(), vC07Deadline)
		r.srv.metadata.DeleteStream(ctx, &proto.DeleteStreamOp{Stream: r.stream})
		cancel()
	}
}

func vC07Behaviour(t *testing.T, srv *Server, b vBehaviour) ([]vC07Event, bool, error) {
	isr := []string{}
	for _, x := range b.Cfg["isr"].([]interface{}) {
		isr = append(isr, x.(string))
	}
	var lastErr error
	for attempt := 1; attempt <= vC07Attempts; attempt++ {
		run := &vC07Run{t: t, srv: srv, id: b.ID, stream: fmt.Sprintf("c07-%d-%d", b.ID, attempt)}
		tc := time.Now()
		err := run.create(isr)
		vC07Stat("create", time.Since(tc))
		if err != nil {
			// a Raft proposal that does not get through within its deadline is, on a
			// starved machine, a matter of load: the attempt is repeated; only when
			// every attempt fails the run is abandoned (inconclusive)
			lastErr = err
			vC07Stat("create-failed", 0)
			continue
		}
		evs := []vC07Event{{T: b.ID, A: "Open", Args: map[string]interface{}{}, St: run.state(),
			Obs: vC07Obs{A: "Open"}}}
		good := true
		for _, step := range b.Steps {
			ev, ok := run.step(step)
			if !ok {
				good = false
				break
			}
			evs = append(evs, ev)
		}
		tc = time.Now()
		run.cleanup()
		vC07Stat("cleanup", time.Since(tc))
		if good {
			return evs, true, nil
		}
	}
	if lastErr != nil {
		return nil, false, fmt.Errorf("behaviour %d: create stream: %v", b.ID, lastErr)
	}
	return nil, false, nil
}

func TestVerifFailover(t *testing.T) {
	sf := vLoadStimuli(t)
	tw := vOpenTrace(t)
	defer tw.Close()
	defer os.RemoveAll(storagePath)

	workers := 6
	if v := os.Getenv("VERIF_WORKERS"); v != "" {
		fmt.Sscanf(v, "%d", &workers)
	}
	if workers > len(sf.Behaviours) {
		workers = len(sf.Behaviours)
	}
	if workers < 1 {
		workers = 1
	}
	VerifGateHook = vC07Gate
	defer func() { VerifGateHook = nil }()
	// a deposed r1 follows a fictitious leader: its replication loop is parked
	// (it would otherwise report the unreachable leader on its own)
	VerifGateStopHook = func(name, id string, stop <-chan struct{}) {
		if name == "follower.before_request" {
			<-stop
		}
	}
	defer func() { VerifGateStopHook = nil }()
	servers := make([]*Server, workers)
	for i := range servers {
		cfg := vOneNodeConfig(t, fmt.Sprintf("c07n%d", i))
		cfg.Clustering.ReplicaMaxLeaderTimeout = vC07Timeout
		// the broker is replica r1 of every partition; its health ticks and its
		// follower loop never act on their own (the driver plays the ticks)
		cfg.Clustering.ServerID = vC07Self
		cfg.Clustering.ReplicaMaxLagTime = 24 * time.Hour
		servers[i] = vOneNodeServer(t, cfg)
		servers[i].logger = &vC07Logger{Logger: servers[i].logger}
	}
	defer func() {
		for _, s := range servers {
			s.Stop()
		}
	}()

	results := make([][]vC07Event, len(sf.Behaviours))
	dropped := make([]bool, len(sf.Behaviours))
	errs := make([]error, workers)
	var wg sync.WaitGroup
	for w := 0; w < workers; w++ {
		wg.Add(1)
		go func(w int) {
			defer wg.Done()
			for i := w; i < len(sf.Behaviours); i += workers {
				evs, ok, err := vC07Behaviour(t, servers[w], sf.Behaviours[i])
				if err != nil {
					errs[w] = err
					return
				}
				results[i], dropped[i] = evs, !ok
			}
		}(w)
	}
	wg.Wait()
	for _, err := range errs {
		if err != nil {
			t.Fatalf("INCONCLUSIVE: %v", err)
		}
	}
	nd := 0
	for i, evs := range results {
		if dropped[i] {
			nd++
			continue
		}
		for _, ev := range evs {
			tw.Emit(ev)
		}
	}
	fmt.Printf("VERIF-C07 behaviours=%d dropped_for_timing=%d\n", len(sf.Behaviours), nd)
	for k, v := range vC07Stats {
		fmt.Printf("VERIF-C07-STAT %s n=%d total_ms=%d avg_us=%d\n", k, v[0], v[1]/1000, v[1]/(v[0]+1))
	}
}
