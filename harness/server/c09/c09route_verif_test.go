//go:build verif

package server

// Replay of CleanerConfig.tla on the real server code (property C09, also C08):
// the route by which the retention limits a stream is configured with reach
// the cleaner of its commit log.  Every step creates a partition on a real
// Server (newPartition, no network) whose server-wide defaults
// (Config.Streams.Retention*, Compact) and CreateStream overrides
// (proto.StreamConfig, nullable fields: absent / explicit 0 / value) are given
// by the stimulus, and records what arrived in the options of the commit log
// and in the retention settings of its delete cleaner.  TLC judges
// (Trace_CleanerConfig.tla).

import (
	"fmt"
	"os"
	"reflect"
	"testing"
	"time"

	proto "github.com/liftbridge-io/liftbridge/server/protocol"
)

type vrLimits struct {
	Age     int64 `json:"age"` // milliseconds
	Msgs    int64 `json:"msgs"`
	Bytes   int64 `json:"bytes"`
	Compact bool  `json:"compact"`
}

type vrRet struct {
	Age   int64 `json:"age"`
	Msgs  int64 `json:"msgs"`
	Bytes int64 `json:"bytes"`
}

type vrObs struct {
	Opts vrLimits `json:"opts"`
	Ret  vrRet    `json:"ret"`
	Err  string   `json:"err"`
}

type vrEvent struct {
	T    int                    `json:"t"`
	A    string                 `json:"a"`
	Args map[string]interface{} `json:"args"`
	Obs  vrObs                  `json:"obs"`
}

func vrNullable(m map[string]interface{}, k string) *proto.NullableInt64 {
	v := vInt(m, k)
	if v < 0 {
		return nil // absent from the StreamConfig
	}
	return &proto.NullableInt64{Value: v}
}

// vrObserve reads what the real commit log of the partition was given: the
// exported Options embedded in it and the retention settings of its delete
// cleaner (read-only reflection, nothing is modified).
func vrObserve(p *partition) (obs vrObs) {
	defer func() {
		if x := recover(); x != nil {
			obs.Err = fmt.Sprintf("panic:%v", x)
		}
	}()
	l := reflect.ValueOf(p.log).Elem()
	o := l.FieldByName("Options")
	obs.Opts = vrLimits{
		Age:     o.FieldByName("MaxLogAge").Int() / int64(time.Millisecond),
		Msgs:    o.FieldByName("MaxLogMessages").Int(),
		Bytes:   o.FieldByName("MaxLogBytes").Int(),
		Compact: o.FieldByName("Compact").Bool(),
	}
	r := l.FieldByName("deleteCleaner").Elem().FieldByName("Retention")
	obs.Ret = vrRet{
		Age:   r.FieldByName("Age").Int() / int64(time.Millisecond),
		Msgs:  r.FieldByName("Messages").Int(),
		Bytes: r.FieldByName("Bytes").Int(),
	}
	return obs
}

func TestVerifC09Route(t *testing.T) {
	sf := vLoadStimuli(t)
	tw := vOpenTrace(t)
	defer tw.Close()
	dir, err := os.MkdirTemp("", "vroute")
	if err != nil {
		t.Fatal(err)
	}
	defer os.RemoveAll(dir)
	n := 0
	for _, b := range sf.Behaviours {
		config := getTestConfig("a", true, 0)
		config.DataDir = dir
		server := New(config)
		tw.Emit(vrEvent{T: b.ID, A: "Open", Args: map[string]interface{}{}})
		for _, step := range b.Steps {
			def := step["def"].(map[string]interface{})
			ovr := step["ovr"].(map[string]interface{})
			server.config.Streams.RetentionMaxAge = time.Duration(vInt(def, "age")) * time.Millisecond
			server.config.Streams.RetentionMaxMessages = vInt(def, "msgs")
			server.config.Streams.RetentionMaxBytes = vInt(def, "bytes")
			server.config.Streams.Compact = vBool(def, "compact")
			sc := &proto.StreamConfig{
				RetentionMaxAge:      vrNullable(ovr, "age"),
				RetentionMaxMessages: vrNullable(ovr, "msgs"),
				RetentionMaxBytes:    vrNullable(ovr, "bytes"),
			}
			switch vStr(ovr, "compact") {
			case "true":
				sc.CompactEnabled = &proto.NullableBool{Value: true}
			case "false":
				sc.CompactEnabled = &proto.NullableBool{Value: false}
			}
			n++
			name := fmt.Sprintf("s%d", n)
			ev := vrEvent{T: b.ID, A: "Route", Args: map[string]interface{}{"def": def, "ovr": ovr}}
			p, err := server.newPartition(&proto.Partition{Subject: name, Stream: name,
				Replicas: []string{"a"}, Leader: "a", Isr: []string{"a"}}, false, sc)
			if err != nil {
				ev.Obs.Err = "newPartition:" + err.Error()
			} else {
				ev.Obs = vrObserve(p)
				p.Close()
			}
			tw.Emit(ev)
		}
	}
}
