//go:build verif

package server

// Lock-step replay of Propagation.tla behaviours on a REAL three-server cluster
// (additional check X04: a metadata request takes effect at most once, only on
// current state, wherever it enters the cluster).
//
// Servers a, b, c are real Servers with real Raft (all voters); a carries the
// embedded NATS server.  Requests are issued through the real entry points
// (api.CreateStream / api.DeleteStream, metadata.ExpandISR / ShrinkISR with the
// (leader, epoch) pair read from the entry server's own partition object - the
// way the partition leader's replicator does it -, metadata.electNewPartitionLeader
// with the pair the failover was created for).  Every goroutine that executes a
// request is parked at the gates
//   propagate.received.<id>   handlePropagatedRequest, before the request is handled
//   raft.apply.enter          applyOperation, before the node mutex
//   raft.apply.checked        applyOperation, between precondition check and Raft.Apply
// and released when the behaviour says so; the FSM of the servers in `slow` is
// parked at fsm.apply.<id> before every entry; the leadership loop is parked at
// leadership.acquired.<id> / leadership.lost.<id>.  A controller change is a real
// Raft leadership transfer.
//
// After every step the state is projected from the real objects: the committed
// commands read back from the Raft log store, per server the number of applied
// commands (Raft log listener) and the stream / partition as the server holds it,
// Raft leader, isLeader flag, propagate subscription, pending leadership
// notifications, where every request goroutine is and what it returned.
// TLC judges (Trace_Propagation.tla); this file never decides.

import (
	"context"
	"encoding/json"
	"fmt"
	"os"
	"runtime"
	"sort"
	"strconv"
	"strings"
	"sync"
	"sync/atomic"
	"testing"
	"time"

	"github.com/hashicorp/raft"
	client "github.com/liftbridge-io/liftbridge-api/v2/go"
	"google.golang.org/grpc/codes"
	"google.golang.org/grpc/status"

	proto "github.com/liftbridge-io/liftbridge/server/protocol"
)

const (
	v4Deadline = 25 * time.Second
	v4MaxInst  = 6
)

var v4IDs = []string{"a", "b", "c"}

func v4Fatal(format string, v ...interface{}) {
	fmt.Printf("INCONCLUSIVE: "+format+"\n", v...)
	os.Exit(3)
}

func v4GoID() uint64 {
	var buf [64]byte
	n := runtime.Stack(buf[:], false)
	s := strings.TrimPrefix(string(buf[:n]), "goroutine ")
	id, _ := strconv.ParseUint(s[:strings.IndexByte(s, ' ')], 10, 64)
	return id
}

type v4Park struct {
	name string
	goid uint64
	rel  chan struct{}
}

type v4Listener struct{ last uint64 }

func (l *v4Listener) Receive(rl *RaftLog) { atomic.StoreUint64(&l.last, rl.Index) }

// one execution of a metadata call on one server
type v4Inst struct {
	id     int
	r      int
	op, x  string
	L      string
	E      int64 // ordinal of the epoch in the behaviour's log
	realE  uint64
	at     string
	par    int
	pc     string
	res    string
	goid   uint64
	cancel context.CancelFunc
	bar    int // commands committed when the barrier was issued
	idx    int
	t0     time.Time
}

type v4Entry struct {
	Op  string `json:"op"`
	X   string `json:"x"`
	L   string `json:"L"`
	E   int64  `json:"E"`
	idx uint64
}

type v4Cluster struct {
	t      *testing.T
	srv    map[string]*Server
	lis    map[string]*v4Listener
	mu     sync.Mutex
	gating bool
	slow   map[string]bool
	parked []*v4Park
	byGo   map[uint64]*v4Inst
	insts  []*v4Inst
	acqw   map[string]int // leadership loop waiting in the barrier of leadershipAcquired: commands committed then (-1 = not waiting)
	base   uint64         // Raft index at the start of the behaviour
	stream string
	nstr   int
	log    []v4Entry
	intent string
	stuck  string
	queued bool
}

var v4C *v4Cluster

func v4Gate(name string) {
	c := v4C
	if c == nil {
		return
	}
	c.mu.Lock()
	if !c.gating {
		c.mu.Unlock()
		return
	}
	g := v4GoID()
	park := false
	switch {
	case strings.HasPrefix(name, "fsm.apply."):
		park = c.slow[name[len("fsm.apply."):]]
	case strings.HasPrefix(name, "leadership."), strings.HasPrefix(name, "propagate.received."):
		park = true
	case name == "raft.apply.enter" || name == "raft.apply.checked":
		_, park = c.byGo[g]
	}
	if !park {
		c.mu.Unlock()
		return
	}
	p := &v4Park{name: name, goid: g, rel: make(chan struct{})}
	c.parked = append(c.parked, p)
	c.mu.Unlock()
	<-p.rel
}

func v4ErrClass(code codes.Code, ok bool) string {
	if ok {
		return "ok"
	}
	switch code {
	case codes.AlreadyExists, codes.NotFound, codes.FailedPrecondition:
		return "refused"
	}
	return "internal"
}

func v4Trace(ev string, fields ...interface{}) {
	c := v4C
	if c == nil || ev != "propagate.responded" || len(fields) < 2 {
		return
	}
	resp, _ := fields[1].(*proto.PropagatedResponse)
	g := v4GoID()
	c.mu.Lock()
	defer c.mu.Unlock()
	if in, ok := c.byGo[g]; ok && in.par != 0 && in.pc != "done" {
		in.pc = "done"
		if resp == nil || resp.Error == nil {
			in.res = "ok"
		} else {
			in.res = v4ErrClass(codes.Code(resp.Error.Code), false)
		}
		delete(c.byGo, g)
	}
}

// ---- cluster ------------------------------------------------------------------

func v4Config(cfg *Config, id string) {
	cfg.Clustering.ServerID = id
	cfg.Clustering.ReplicaMaxLagTime = time.Hour
	cfg.Clustering.ReplicaMaxLeaderTimeout = time.Hour
	cfg.Clustering.ReplicaMaxIdleWait = 200 * time.Millisecond
	cfg.Clustering.ReplicaFetchTimeout = time.Second
	cfg.LogRaft = false
}

func v4Start(t *testing.T) *v4Cluster {
	c := &v4Cluster{t: t, srv: map[string]*Server{}, lis: map[string]*v4Listener{}, slow: map[string]bool{},
		byGo: map[uint64]*v4Inst{}, acqw: map[string]int{"a": -1, "b": -1, "c": -1}}
	tag := fmt.Sprintf("x04-%d", os.Getpid())
	cfgA := vOneNodeConfig(t, tag+"-a")
	v4Config(cfgA, "a")
	var first *Config
	for _, id := range v4IDs {
		var cfg *Config
		if id == "a" {
			cfg = cfgA
			first = cfgA
		} else {
			cfg = vJoinConfig(t, tag+"-"+id, first)
			v4Config(cfg, id)
		}
		s := New(cfg)
		l := &v4Listener{}
		s.AddRaftLogListener(l)
		if err := s.Start(); err != nil {
			t.Fatalf("INCONCLUSIVE: server %s did not start: %v", id, err)
		}
		c.srv[id], c.lis[id] = s, l
		if id == "a" {
			deadline := time.Now().Add(30 * time.Second)
			for !(s.IsRunning() && s.getRaft() != nil && s.IsLeader()) {
				if time.Now().After(deadline) {
					t.Fatalf("INCONCLUSIVE: server a did not become metadata leader")
				}
				time.Sleep(2 * time.Millisecond)
			}
		}
	}
	deadline := time.Now().Add(60 * time.Second)
	for {
		fut := c.srv["a"].getRaft().GetConfiguration()
		n := 0
		if fut.Error() == nil {
			for _, s := range fut.Configuration().Servers {
				if s.Suffrage == raft.Voter {
					n++
				}
			}
		}
		if n == 3 {
			break
		}
		if time.Now().After(deadline) {
			t.Fatalf("INCONCLUSIVE: the servers did not join")
		}
		time.Sleep(5 * time.Millisecond)
	}
	return c
}

func (c *v4Cluster) leader() string {
	for _, id := range v4IDs {
		if c.srv[id].getRaft().State() == raft.Leader {
			return id
		}
	}
	return ""
}

func (c *v4Cluster) await(what string, cond func() bool) {
	deadline := time.Now().Add(v4Deadline)
	for !cond() {
		if time.Now().After(deadline) {
			v4Fatal("waiting for %s", what)
		}
		time.Sleep(100 * time.Microsecond)
	}
}

// stepAwait waits for what a step of a behaviour should bring about.  When it does not come about (the code
// under test deviates from what the behaviour was generated for) the step is recorded as stuck - an
// observation - and the behaviour ends there.
func (c *v4Cluster) stepAwait(what string, cond func() bool) {
	if c.stuck != "" {
		return
	}
	if !c.awaitFor(12*time.Second, cond) {
		c.stuck = what
	}
}

// awaitFor is await with a bounded patience: false = the condition did not come about
func (c *v4Cluster) awaitFor(d time.Duration, cond func() bool) bool {
	deadline := time.Now().Add(d)
	for !cond() {
		if time.Now().After(deadline) {
			return false
		}
		time.Sleep(100 * time.Microsecond)
	}
	return true
}

func (c *v4Cluster) parkOf(pred func(p *v4Park) bool) *v4Park {
	c.mu.Lock()
	defer c.mu.Unlock()
	for _, p := range c.parked {
		if pred(p) {
			return p
		}
	}
	return nil
}

func (c *v4Cluster) release(p *v4Park) {
	c.mu.Lock()
	for i, q := range c.parked {
		if q == p {
			c.parked = append(append([]*v4Park{}, c.parked[:i]...), c.parked[i+1:]...)
			break
		}
	}
	c.mu.Unlock()
	close(p.rel)
}

func (c *v4Cluster) instPark(in *v4Inst, name string) *v4Park {
	return c.parkOf(func(p *v4Park) bool { return p.goid == in.goid && (name == "" || p.name == name) })
}

func (c *v4Cluster) fsmPark(id string) *v4Park {
	return c.parkOf(func(p *v4Park) bool { return p.name == "fsm.apply."+id })
}

func (c *v4Cluster) leadPark(id string) *v4Park {
	return c.parkOf(func(p *v4Park) bool {
		return p.name == "leadership.acquired."+id || p.name == "leadership.lost."+id
	})
}

func (c *v4Cluster) pcOf(in *v4Inst) (string, string) {
	c.mu.Lock()
	defer c.mu.Unlock()
	return in.pc, in.res
}

func (c *v4Cluster) setPc(in *v4Inst, pc string) {
	c.mu.Lock()
	if in.pc != "done" {
		in.pc = pc
	}
	c.mu.Unlock()
}

// readLog reads the committed commands of this behaviour back from the Raft log store
func (c *v4Cluster) readLog() []v4Entry {
	id := c.leader()
	if id == "" {
		id = "a"
	}
	node := c.srv[id].getRaft()
	ci := node.getCommitIndex()
	out := []v4Entry{}
	for i := c.base + 1; i <= ci; i++ {
		l := &raft.Log{}
		if err := node.store.GetLog(i, l); err != nil {
			continue
		}
		if l.Type != raft.LogCommand {
			continue
		}
		op := &proto.RaftLog{}
		if err := op.Unmarshal(l.Data); err != nil {
			v4Fatal("unreadable Raft entry %d: %v", i, err)
		}
		e := v4Entry{idx: i, X: "-", L: "-"}
		switch op.Op {
		case proto.Op_CREATE_STREAM:
			e.Op = "create"
			if ps := op.CreateStreamOp.Stream.Partitions; len(ps) > 0 {
				e.X = ps[0].Leader
			}
		case proto.Op_DELETE_STREAM:
			e.Op = "delete"
		case proto.Op_EXPAND_ISR:
			e.Op, e.X, e.L = "expand", op.ExpandISROp.ReplicaToAdd, op.ExpandISROp.Leader
			e.E = c.ordinal(out, op.ExpandISROp.LeaderEpoch)
		case proto.Op_SHRINK_ISR:
			e.Op, e.X, e.L = "shrink", op.ShrinkISROp.ReplicaToRemove, op.ShrinkISROp.Leader
			e.E = c.ordinal(out, op.ShrinkISROp.LeaderEpoch)
		case proto.Op_CHANGE_LEADER:
			e.Op, e.X = "elect", op.ChangeLeaderOp.Leader
		default:
			e.Op = "other:" + op.Op.String()
		}
		out = append(out, e)
	}
	return out
}

// ordinal maps a real epoch (a Raft index) to the position of that entry in the behaviour's log
func (c *v4Cluster) ordinal(log []v4Entry, epoch uint64) int64 {
	for k, e := range log {
		if e.idx == epoch {
			return int64(k + 1)
		}
	}
	if epoch == 0 {
		return 0
	}
	return -1
}

func (c *v4Cluster) appliedOf(id string, log []v4Entry) int {
	last := atomic.LoadUint64(&c.lis[id].last)
	n := 0
	for _, e := range log {
		if e.idx <= last {
			n++
		}
	}
	return n
}

// settle waits until nothing moves any more: every server knows the commit index, every FSM has applied
// what it may apply, every request goroutine that can run on has reached its next gate or returned
func (c *v4Cluster) settle() {
	ld := c.leader()
	if ld == "" {
		c.stepAwait("a Raft leader", func() bool { return c.leader() != "" })
		if ld = c.leader(); ld == "" {
			return
		}
	}
	ci := c.srv[ld].getRaft().getCommitIndex()
	for _, id := range v4IDs {
		id := id
		c.stepAwait("commit index at "+id, func() bool { return c.srv[id].getRaft().getCommitIndex() >= ci })
	}
	c.log = c.readLog()
	for _, id := range v4IDs {
		id := id
		c.stepAwait("FSM of "+id, func() bool { return c.fsmPark(id) != nil || c.appliedOf(id, c.log) == len(c.log) })
	}
	for _, in := range c.insts {
		in := in
		pc, _ := c.pcOf(in)
		ap := c.appliedOf(in.at, c.log)
		switch {
		case pc == "proposed" && in.idx > 0 && ap >= in.idx:
			c.awaitFor(10*time.Second, func() bool { p, _ := c.pcOf(in); return p == "done" })
		case pc == "barrier" && ap >= in.bar:
			c.awaitFor(10*time.Second, func() bool {
				p, _ := c.pcOf(in)
				return p == "done" || c.instPark(in, "raft.apply.checked") != nil
			})
			if c.instPark(in, "raft.apply.checked") != nil {
				c.setPc(in, "checked")
			}
		}
	}
	for _, id := range v4IDs {
		id := id
		if w := c.acqw[id]; w >= 0 && c.appliedOf(id, c.log) >= w {
			c.awaitFor(10*time.Second, func() bool { return c.srv[id].getRaft().isLeader() })
			if c.srv[id].getRaft().isLeader() {
				c.acqw[id] = -1
			}
		}
	}
	// a parent takes the first answer of its children
	for _, in := range c.insts {
		in := in
		if pc, _ := c.pcOf(in); pc == "fwd" {
			for _, ch := range c.insts {
				if cp, _ := c.pcOf(ch); ch.par == in.id && cp == "done" {
					c.awaitFor(10*time.Second, func() bool { p, _ := c.pcOf(in); return p == "done" })
					break
				}
			}
		}
	}
}

// ---- recorded state -------------------------------------------------------------

type v4Meta struct {
	Ex  bool     `json:"ex"`
	Ld  string   `json:"ld"`
	Le  int64    `json:"le"`
	Isr []string `json:"isr"`
}

type v4InstRec struct {
	R   int    `json:"r"`
	Op  string `json:"op"`
	X   string `json:"x"`
	L   string `json:"L"`
	E   int64  `json:"E"`
	At  string `json:"at"`
	Par int    `json:"par"`
	Pc  string `json:"pc"`
	Res string `json:"res"`
}

type v4State struct {
	Log     []v4Entry         `json:"log"`
	Applied map[string]int    `json:"applied"`
	Md      map[string]v4Meta `json:"md"`
	Slow    []string          `json:"slow"`
	Rleader string            `json:"rleader"`
	Flag    map[string]bool   `json:"flag"`
	Sub     map[string]bool   `json:"sub"`
	Evq     map[string][]bool `json:"evq"`
	Lpw     map[string]bool   `json:"lpw"`
	Inst    []v4InstRec       `json:"inst"`
}

type v4Event struct {
	T    int                    `json:"t"`
	A    string                 `json:"a"`
	Args map[string]interface{} `json:"args"`
	St   v4State                `json:"st"`
	Obs  map[string]interface{} `json:"obs"`
}

func (c *v4Cluster) meta(id string, log []v4Entry) v4Meta {
	m := v4Meta{Ld: "-", Isr: []string{}}
	p := c.srv[id].metadata.GetPartition(c.stream, 0)
	if p == nil {
		return m
	}
	m.Ex = true
	ld, ep := p.GetLeader()
	m.Ld, m.Le = ld, c.ordinal(log, ep)
	m.Isr = append(m.Isr, p.GetISR()...)
	sort.Strings(m.Isr)
	return m
}

func (c *v4Cluster) state() v4State {
	st := v4State{Log: c.log, Applied: map[string]int{}, Md: map[string]v4Meta{}, Slow: []string{}, Flag: map[string]bool{},
		Sub: map[string]bool{}, Evq: map[string][]bool{}, Lpw: map[string]bool{}, Inst: []v4InstRec{}}
	if st.Log == nil {
		st.Log = []v4Entry{}
	}
	st.Rleader = c.leader()
	for _, id := range v4IDs {
		s := c.srv[id]
		st.Applied[id] = c.appliedOf(id, c.log)
		st.Md[id] = c.meta(id, c.log)
		if c.slow[id] {
			st.Slow = append(st.Slow, id)
		}
		st.Flag[id] = s.getRaft().isLeader()
		st.Sub[id] = s.leaderSub != nil
		q := []bool{}
		n := len(s.getRaft().notifyCh)
		if p := c.leadPark(id); p != nil {
			k := strings.HasPrefix(p.name, "leadership.acquired.")
			q = append(q, k)
			for i := 0; i < n; i++ {
				k = !k
				q = append(q, k)
			}
		} else if n > 0 {
			// the loop is busy (waiting in the barrier of leadershipAcquired): what is buffered follows an "acquired"
			k := true
			for i := 0; i < n; i++ {
				k = !k
				q = append(q, k)
			}
		}
		st.Evq[id] = q
		st.Lpw[id] = c.acqw[id] >= 0
	}
	c.mu.Lock()
	for _, in := range c.insts {
		st.Inst = append(st.Inst, v4InstRec{R: in.r, Op: in.op, X: in.x, L: in.L, E: in.E, At: in.at, Par: in.par, Pc: in.pc, Res: in.res})
	}
	c.mu.Unlock()
	for len(st.Inst) < v4MaxInst {
		st.Inst = append(st.Inst, v4InstRec{Op: "-", X: "-", L: "-", At: "-", Pc: "free"})
	}
	return st
}

// ---- steps ----------------------------------------------------------------------

func (c *v4Cluster) newInst(r int, op, x, at string, par int) *v4Inst {
	in := &v4Inst{id: len(c.insts) + 1, r: r, op: op, x: x, L: "-", at: at, par: par, pc: "new"}
	c.mu.Lock()
	c.insts = append(c.insts, in)
	c.mu.Unlock()
	return in
}

// children: the handler goroutines that are parked at propagate.received and belong to no instance yet
func (c *v4Cluster) adoptChildren(parent *v4Inst) string {
	n := 0
	to := "-"
	for _, id := range v4IDs {
		p := c.parkOf(func(p *v4Park) bool {
			if p.name != "propagate.received."+id {
				return false
			}
			_, known := c.byGo[p.goid]
			return !known
		})
		if p == nil {
			continue
		}
		ch := c.newInst(parent.r, parent.op, parent.x, id, parent.id)
		c.mu.Lock()
		ch.L, ch.E, ch.realE = parent.L, parent.E, parent.realE
		ch.pc, ch.goid = "recv", p.goid
		c.byGo[p.goid] = ch
		c.mu.Unlock()
		n++
		if n == 1 {
			to = id
		} else {
			to = "-" // several copies
		}
	}
	return to
}

func (c *v4Cluster) unadopted() int {
	c.mu.Lock()
	defer c.mu.Unlock()
	n := 0
	for _, p := range c.parked {
		if strings.HasPrefix(p.name, "propagate.received.") {
			if _, known := c.byGo[p.goid]; !known {
				n++
			}
		}
	}
	return n
}

// queuedAt names a server whose propagate subscription holds a request that its (busy) handler has not taken yet
func (c *v4Cluster) queuedAt() string {
	for _, id := range v4IDs {
		sub := c.srv[id].leaderSub
		if sub == nil {
			continue
		}
		busy := false
		c.mu.Lock()
		for _, in := range c.insts {
			if in.par != 0 && in.at == id && in.pc != "done" {
				busy = true
			}
		}
		c.mu.Unlock()
		if n, _, err := sub.Pending(); err == nil && n > 0 && busy {
			return id
		}
	}
	return ""
}

func (c *v4Cluster) nsub() int {
	n := 0
	for _, id := range v4IDs {
		if c.srv[id].leaderSub != nil {
			n++
		}
	}
	return n
}

// afterDispatch waits until the instance that was just let into metadata.X() is parked before the node
// mutex, has returned, or has propagated the request (its copies are parked in the handlers)
func (c *v4Cluster) afterDispatch(in *v4Inst) string {
	nsub := c.nsub()
	c.stepAwait(fmt.Sprintf("instance %d after dispatch", in.id), func() bool {
		if pc, _ := c.pcOf(in); pc == "done" {
			return true
		}
		if c.instPark(in, "raft.apply.enter") != nil {
			return true
		}
		if nsub > 0 && c.unadopted() >= 1 {
			return true
		}
		return c.queuedAt() != ""
	})
	if q := c.queuedAt(); q != "" && c.unadopted() == 0 && c.instPark(in, "raft.apply.enter") == nil {
		// NATS handed the request to a subscriber whose handler is busy with an earlier request: it waits in that
		// subscription (the specification lets one request at a time through to a subscriber; not judged further)
		c.queued = true
		c.stuck = "queued behind the request in the handler of " + q
		c.setPc(in, "fwd")
		return q
	}
	if pc, _ := c.pcOf(in); pc == "done" {
		return "-"
	}
	if c.instPark(in, "raft.apply.enter") != nil {
		c.setPc(in, "enter")
		return "-"
	}
	if c.unadopted() == 0 {
		return "-"
	}
	// the request was propagated: one subscribed server gets it (queue subscription); copies that other
	// subscribers would get arrive at the same time
	time.Sleep(20 * time.Millisecond)
	to := c.adoptChildren(in)
	c.setPc(in, "fwd")
	return to
}

func (c *v4Cluster) call(in *v4Inst, ctx context.Context, part *partition) (bool, codes.Code) {
	s := c.srv[in.at]
	var err error
	switch in.op {
	case "create":
		_, err = s.api.CreateStream(ctx, &client.CreateStreamRequest{Name: c.stream, Subject: c.stream,
			ReplicationFactor: 3, Partitions: 1})
	case "delete":
		_, err = s.api.DeleteStream(ctx, &client.DeleteStreamRequest{Name: c.stream})
	case "expand":
		if st := s.metadata.ExpandISR(ctx, &proto.ExpandISROp{Stream: c.stream, Partition: 0, ReplicaToAdd: in.x,
			Leader: in.L, LeaderEpoch: in.realE}); st != nil {
			err = st.Err()
		}
	case "shrink":
		if st := s.metadata.ShrinkISR(ctx, &proto.ShrinkISROp{Stream: c.stream, Partition: 0, ReplicaToRemove: in.x,
			Leader: in.L, LeaderEpoch: in.realE}); st != nil {
			err = st.Err()
		}
	case "elect":
		if st := s.metadata.electNewPartitionLeader(ctx, part, in.L, in.realE); st != nil {
			err = st.Err()
		}
	}
	if err == nil {
		return true, codes.OK
	}
	return false, status.Code(err)
}

func (c *v4Cluster) step(step map[string]interface{}) (ev v4Event) {
	a := vStr(step, "a")
	args := map[string]interface{}{}
	for k, v := range step {
		if k != "a" {
			args[k] = v
		}
	}
	ev = v4Event{A: a, Args: args, Obs: map[string]interface{}{"crash": "", "stuck": "", "queued": false}}
	skip := func(why string) v4Event {
		ev.A = "Skip"
		ev.Args = map[string]interface{}{"of": a, "why": why}
		ev.St = c.state()
		return ev
	}
	inst := func() *v4Inst {
		i := int(vInt(step, "i"))
		if i < 1 || i > len(c.insts) {
			return nil
		}
		return c.insts[i-1]
	}
	switch a {
	case "Start":
		s, op, x := vStr(step, "s"), vStr(step, "op"), vStr(step, "x")
		if len(c.insts) >= v4MaxInst {
			return skip("instances")
		}
		var part *partition
		view := c.meta(s, c.log)
		L, realE, E := "-", uint64(0), int64(0)
		if op == "expand" || op == "shrink" || op == "elect" {
			part = c.srv[s].metadata.GetPartition(c.stream, 0)
			if part == nil {
				return skip("no partition at the entry server")
			}
			L, realE = part.GetLeader()
			E = view.Le
			if op != "elect" && L != s {
				return skip("the entry server is not the partition leader in its own view")
			}
			if op == "elect" && !c.srv[s].getRaft().isLeader() {
				return skip("elect on a server that is not controller")
			}
		}
		in := c.newInst(int(vInt(step, "r")), op, x, s, 0)
		in.L, in.E, in.realE = L, E, realE
		ctx, cancel := context.WithTimeout(context.Background(), 90*time.Second)
		in.cancel = cancel
		ready := make(chan struct{})
		go func() {
			g := v4GoID()
			c.mu.Lock()
			in.goid = g
			c.byGo[g] = in
			c.mu.Unlock()
			close(ready)
			ok, code := c.call(in, ctx, part)
			c.mu.Lock()
			if in.pc != "done" {
				in.pc, in.res = "done", v4ErrClass(code, ok)
			}
			delete(c.byGo, g)
			c.mu.Unlock()
		}()
		<-ready
		ev.Args["to"] = c.afterDispatch(in)
		ev.Args["L"], ev.Args["E"] = L, E
	case "Handle":
		in := inst()
		if in == nil {
			return skip("no such instance")
		}
		p := c.instPark(in, "propagate.received."+in.at)
		if p == nil {
			return skip("not parked in the handler")
		}
		in.t0 = time.Now()
		c.release(p)
		ev.Args["to"] = c.afterDispatch(in)
	case "Lock":
		in := inst()
		if in == nil {
			return skip("no such instance")
		}
		p := c.instPark(in, "raft.apply.enter")
		if p == nil {
			return skip("not parked before the mutex")
		}
		for _, o := range c.insts {
			if pc, _ := c.pcOf(o); o != in && o.at == in.at && (pc == "barrier" || pc == "checked") {
				return skip("the node mutex is held")
			}
		}
		node := c.srv[in.at].getRaft()
		li := node.LastIndex()
		in.bar = len(c.log)
		c.setPc(in, "barrier")
		c.release(p)
		c.stepAwait(fmt.Sprintf("instance %d in applyOperation", in.id), func() bool {
			if pc, _ := c.pcOf(in); pc == "done" {
				return true
			}
			if c.instPark(in, "raft.apply.checked") != nil {
				return true
			}
			// the barrier entry was appended and the FSM is held: the barrier waits
			return node.LastIndex() > li && c.fsmPark(in.at) != nil
		})
		if c.instPark(in, "raft.apply.checked") != nil {
			c.setPc(in, "checked")
		}
	case "Propose":
		in := inst()
		if in == nil {
			return skip("no such instance")
		}
		p := c.instPark(in, "raft.apply.checked")
		if p == nil {
			return skip("not parked after the precondition check")
		}
		n := len(c.log)
		c.setPc(in, "proposed")
		c.release(p)
		c.stepAwait(fmt.Sprintf("instance %d proposing", in.id), func() bool {
			if pc, _ := c.pcOf(in); pc == "done" {
				return true
			}
			return len(c.readLog()) > n
		})
		if lg := c.readLog(); len(lg) > n {
			in.idx = n + 1
			ev.Args["x"] = lg[n].X
		}
	case "Apply":
		s := vStr(step, "s")
		p := c.fsmPark(s)
		if p == nil {
			return skip("the FSM is not held on an entry")
		}
		before := atomic.LoadUint64(&c.lis[s].last)
		c.release(p)
		c.stepAwait("apply at "+s, func() bool { return atomic.LoadUint64(&c.lis[s].last) > before })
	case "Cancel":
		in := inst()
		if in == nil || in.par != 0 || in.cancel == nil {
			return skip("no such root instance")
		}
		if pc, _ := c.pcOf(in); pc != "fwd" {
			return skip("not waiting for a propagated request")
		}
		in.cancel()
		c.stepAwait("cancelled request", func() bool { pc, _ := c.pcOf(in); return pc == "done" })
		c.mu.Lock()
		in.res = "cancelled"
		c.mu.Unlock()
	case "Transfer":
		t := vStr(step, "t")
		old := c.leader()
		if old == "" || old == t {
			return skip("no transfer possible")
		}
		pend := func(id string) int {
			n := len(c.srv[id].getRaft().notifyCh)
			if c.leadPark(id) != nil || c.acqw[id] >= 0 {
				n++
			}
			return n
		}
		po, pt := pend(old), pend(t)
		if po >= 2 || pt >= 2 {
			return skip("notification queue full")
		}
		// a transfer that Raft gives up (the target did not catch up within an election timeout on a loaded
		// machine) has changed nothing and is tried again
		for try := 0; ; try++ {
			err := c.srv[old].getRaft().LeadershipTransferToServer(raft.ServerID(t), raft.ServerAddress(t)).Error()
			if err == nil {
				break
			}
			time.Sleep(50 * time.Millisecond)
			if c.leader() != old || pend(old) != po || pend(t) != pt || try >= 8 {
				if c.srv[t].getRaft().State() != raft.Leader {
					c.stuck = fmt.Sprintf("leadership transfer %s -> %s: %v", old, t, err)
				}
				break
			}
		}
		c.stepAwait("leadership at "+t, func() bool {
			if c.srv[t].getRaft().State() != raft.Leader {
				return false
			}
			for _, id := range v4IDs {
				if string(c.srv[id].getRaft().Leader()) != t {
					return false
				}
			}
			return pend(old) == po+1 && pend(t) == pt+1
		})
		if c.stuck != "" {
			for _, id := range v4IDs {
				c.stuck += fmt.Sprintf(" [%s state=%v leader=%s pend=%d]", id, c.srv[id].getRaft().State(), c.srv[id].getRaft().Leader(), pend(id))
			}
			c.stuck += fmt.Sprintf(" po=%d pt=%d", po, pt)
		}
	case "Lost", "Acquired":
		s := vStr(step, "s")
		p := c.leadPark(s)
		want := "leadership." + strings.ToLower(a) + "." + s
		if p == nil || p.name != want || c.acqw[s] >= 0 {
			return skip("no such notification at the head")
		}
		node := c.srv[s].getRaft()
		li := node.LastIndex()
		isLd := node.State() == raft.Leader
		more := len(node.notifyCh)
		c.release(p)
		if a == "Lost" {
			c.stepAwait("leadershipLost at "+s, func() bool { return !node.isLeader() && c.srv[s].leaderSub == nil })
		} else {
			c.stepAwait("leadershipAcquired at "+s, func() bool {
				if node.isLeader() {
					return true
				}
				if isLd && node.LastIndex() > li && c.fsmPark(s) != nil {
					return true
				}
				// refused (the server is not the Raft leader any more): the loop goes on to its next notification
				return !isLd && more > 0 && c.leadPark(s) != nil
			})
			if !node.isLeader() && isLd {
				c.acqw[s] = len(c.log)
			}
		}
	default:
		return skip("unknown step")
	}
	c.settle()
	ev.St = c.state()
	ev.Obs["stuck"] = c.stuck
	ev.Obs["queued"] = c.queued
	return ev
}

// ---- behaviours -----------------------------------------------------------------

func (c *v4Cluster) noteIntent(id int, evs []v4Event, step map[string]interface{}) {
	if c.intent == "" {
		return
	}
	b, err := json.Marshal(map[string]interface{}{"t": id, "events": evs, "step": step})
	if err != nil {
		return
	}
	os.WriteFile(c.intent, b, 0o644)
}

func (c *v4Cluster) open(b vBehaviour) {
	c.nstr++
	c.stream = fmt.Sprintf("x04s%d", c.nstr)
	c.insts = nil
	c.log = nil
	c.base = c.srv[c.leader()].getRaft().LastIndex()
	c.mu.Lock()
	c.slow = map[string]bool{}
	if sl, ok := b.Cfg["slow"].([]interface{}); ok {
		for _, x := range sl {
			c.slow[x.(string)] = true
		}
	}
	c.byGo = map[uint64]*v4Inst{}
	c.gating = true
	c.mu.Unlock()
}

// quiet waits until every leadership loop has handled its notifications (a transfer that meets a server in
// the middle of leadershipAcquired makes that server step down by itself)
func (c *v4Cluster) quiet() {
	c.awaitFor(10*time.Second, func() bool {
		ld := c.leader()
		if ld == "" {
			return false
		}
		for _, id := range v4IDs {
			s := c.srv[id]
			if len(s.getRaft().notifyCh) > 0 || s.getRaft().isLeader() != (id == ld) {
				return false
			}
		}
		return true
	})
}

// cleanup lets everything run to its end and brings the cluster back to "a leads, no stream"
func (c *v4Cluster) cleanup() {
	c.mu.Lock()
	c.gating = false
	ps := c.parked
	c.parked = nil
	c.mu.Unlock()
	for _, p := range ps {
		close(p.rel)
	}
	for _, in := range c.insts {
		in := in
		if !c.awaitFor(40*time.Second, func() bool { p, _ := c.pcOf(in); return p == "done" || in.par != 0 }) {
			v4Fatal("request %d did not return", in.id)
		}
		if in.cancel != nil {
			in.cancel()
		}
	}
	for _, id := range v4IDs {
		c.acqw[id] = -1
	}
	// leadership settles (notifications in flight are handled now), then a leads again
	c.await("a Raft leader", func() bool { return c.leader() != "" })
	for try := 0; c.leader() != "a"; try++ {
		c.quiet()
		ld := c.leader()
		if ld != "" {
			c.srv[ld].getRaft().LeadershipTransferToServer(raft.ServerID("a"), raft.ServerAddress("a")).Error()
		}
		c.awaitFor(3*time.Second, func() bool { return c.leader() == "a" })
		if try > 10 {
			v4Fatal("leadership did not return to a")
		}
	}
	c.await("controller a", func() bool {
		for _, id := range v4IDs {
			s := c.srv[id]
			if len(s.getRaft().notifyCh) > 0 || s.getRaft().isLeader() != (id == "a") || (s.leaderSub != nil) != (id == "a") {
				return false
			}
			if string(s.getRaft().Leader()) != "a" {
				return false
			}
		}
		return true
	})
	if c.srv["a"].metadata.GetStream(c.stream) != nil {
		ctx, cancel := context.WithTimeout(context.Background(), v4Deadline)
		c.srv["a"].api.DeleteStream(ctx, &client.DeleteStreamRequest{Name: c.stream})
		cancel()
	}
	if err := c.srv["a"].getRaft().Barrier(v4Deadline).Error(); err != nil {
		v4Fatal("barrier: %v", err)
	}
	li := c.srv["a"].getRaft().getCommitIndex()
	for _, id := range v4IDs {
		id := id
		c.await("catch-up of "+id, func() bool {
			return c.srv[id].getRaft().AppliedIndex() >= li && c.srv[id].metadata.GetStream(c.stream) == nil
		})
	}
}

func v4Behaviour(c *v4Cluster, b vBehaviour) []v4Event {
	c.open(b)
	open := v4Event{T: b.ID, A: "Open", Args: map[string]interface{}{}, St: c.state(), Obs: map[string]interface{}{"crash": "", "stuck": "", "queued": false}}
	evs := []v4Event{open}
	for _, step := range b.Steps {
		c.noteIntent(b.ID, evs, step)
		ev := c.step(step)
		ev.T = b.ID
		evs = append(evs, ev)
		if c.stuck != "" {
			break
		}
	}
	stuck := c.stuck
	c.stuck = ""
	c.queued = false
	// everything in flight runs to its end: the final state is judged as well
	c.noteIntent(b.ID, evs, map[string]interface{}{"a": "Drain"})
	c.mu.Lock()
	c.gating = false
	ps := c.parked
	c.parked = nil
	c.mu.Unlock()
	for _, p := range ps {
		close(p.rel)
	}
	for _, in := range c.insts {
		in := in
		if !c.awaitFor(8*time.Second, func() bool { p, _ := c.pcOf(in); return p == "done" }) && in.par == 0 && in.cancel != nil {
			// a propagated request that sat in the subscription of a server that has unsubscribed meanwhile is
			// dropped by NATS: its client gives up
			in.cancel()
			c.awaitFor(30*time.Second, func() bool { p, _ := c.pcOf(in); return p == "done" })
		}
	}
	c.await("a Raft leader", func() bool { return c.leader() != "" })
	c.quiet()
	c.settle()
	if c.stuck != "" {
		v4Fatal("after behaviour %d (stuck at %q): %s", b.ID, stuck, c.stuck)
	}
	for _, id := range v4IDs {
		c.acqw[id] = -1
	}
	fin := v4Event{T: b.ID, A: "Drain", Args: map[string]interface{}{}, St: c.state(), Obs: map[string]interface{}{"crash": "", "stuck": "", "queued": false}}
	evs = append(evs, fin)
	c.noteIntent(b.ID, nil, map[string]interface{}{"a": "cleanup"})
	c.cleanup()
	return evs
}

func TestVerifPropagation(t *testing.T) {
	sf := vLoadStimuli(t)
	tw := vOpenTrace(t)
	defer tw.Close()
	defer os.RemoveAll(storagePath)
	c := v4Start(t)
	c.intent = os.Getenv("VERIF_TRACE_OUT") + ".intent.0"
	v4C = c
	VerifGateHook = v4Gate
	VerifTraceHook = v4Trace
	defer func() { VerifGateHook = nil; VerifTraceHook = nil; v4C = nil }()
	defer func() {
		for _, id := range []string{"c", "b", "a"} {
			c.srv[id].Stop()
		}
	}()
	t0 := time.Now()
	for _, b := range sf.Behaviours {
		evs := v4Behaviour(c, b)
		for _, ev := range evs {
			tw.Emit(ev)
		}
		tw.w.Flush()
	}
	os.Remove(c.intent)
	fmt.Printf("VERIF-X04 behaviours=%d wall_ms=%d\n", len(sf.Behaviours), time.Since(t0)/time.Millisecond)
}
