//go:build verif

package server

// X03 - the replication loop makes progress and detects a dead leader.
// spec/ReplLoop.tla replayed gate to gate on the replica kit of C02 (harness/server/c02: real un-started
// Servers over one NATS server, metadata operations fed through Server.apply).  Every goroutine of the
// replication protocol (the follower's replicationRequestLoop, the leader's replicator loop per follower,
// the notifier goroutine of a data waiter) is parked at the gate named by its pc in the model and released
// when the TLC behaviour takes its step; the driver then waits for the next arrival of that goroutine
// (never for an amount of time, except the real timers: ReplicaFetchTimeout and ReplicaMaxLeaderTimeout
// are small, ReplicaMaxIdleWait is hours and played by a token).  After every step the abstract state is
// projected from the real objects.  TLC judges (spec/Trace_ReplLoop.tla).

import (
	"fmt"
	"os"
	"sync"
	"testing"
	"time"

	gnatsd "github.com/nats-io/nats-server/v2/server"

	proto "github.com/liftbridge-io/liftbridge/server/protocol"
)

const (
	x3FetchTimeout  = 500 * time.Millisecond
	x3LeaderTimeout = 300 * time.Millisecond
	x3Deadline      = 6 * time.Second
	x3Leader        = "a"
)

var x3Followers = []string{"b", "c"}

// ---- gates ------------------------------------------------------------------

type x3Park struct {
	name, id string
	ch       chan struct{}
	stop     <-chan struct{}
	old      bool // belongs to a loop / replicator of an earlier epoch
	dead     bool // its process was killed
	gone     bool // released by the driver
}

type x3Gates struct {
	mu       sync.Mutex
	parked   []*x3Park
	count    map[string]int
	open     bool
	lastResp map[string]time.Time // timed part: when a follower last received a replication response
}

var (
	x3Mu  sync.Mutex
	x3Cur *x3Gates
)

func x3Hook(name, id string, stop <-chan struct{}) {
	x3Mu.Lock()
	g := x3Cur
	x3Mu.Unlock()
	if g == nil {
		return
	}
	g.hook(name, id, stop)
}

func (g *x3Gates) hook(name, id string, stop <-chan struct{}) {
	g.mu.Lock()
	g.count[name+"|"+id]++
	if g.lastResp != nil && name == "follower.response_received" {
		g.lastResp[id] = time.Now()
	}
	if g.open || name == "leader.request_handled" || name == "follower.notified" {
		g.mu.Unlock()
		return
	}
	pk := &x3Park{name: name, id: id, ch: make(chan struct{}), stop: stop}
	g.parked = append(g.parked, pk)
	g.mu.Unlock()
	select {
	case <-pk.ch:
	case <-stop:
	}
	g.mu.Lock()
	for i, x := range g.parked {
		if x == pk {
			g.parked = append(g.parked[:i], g.parked[i+1:]...)
			break
		}
	}
	g.mu.Unlock()
}

func (g *x3Gates) cnt(name, id string) int {
	g.mu.Lock()
	defer g.mu.Unlock()
	return g.count[name+"|"+id]
}

func x3Closed(ch <-chan struct{}) bool {
	if ch == nil {
		return false
	}
	select {
	case <-ch:
		return true
	default:
		return false
	}
}

// find returns the goroutines parked at a gate (not about to leave through a closed stop channel)
func (g *x3Gates) find(name, id string, pred func(*x3Park) bool) []*x3Park {
	g.mu.Lock()
	defer g.mu.Unlock()
	out := []*x3Park{}
	for _, x := range g.parked {
		if x.name == name && x.id == id && !x.dead && !x.gone && !x3Closed(x.stop) && (pred == nil || pred(x)) {
			out = append(out, x)
		}
	}
	return out
}

func (g *x3Gates) mark(name, id string, f func(*x3Park)) {
	g.mu.Lock()
	defer g.mu.Unlock()
	for _, x := range g.parked {
		if x.name == name && (id == "" || x.id == id) {
			f(x)
		}
	}
}

func (g *x3Gates) release(pk *x3Park) {
	g.mu.Lock()
	pk.gone = true
	g.mu.Unlock()
	select {
	case pk.ch <- struct{}{}:
	case <-time.After(x3Deadline):
	}
}

func (g *x3Gates) openAll() {
	g.mu.Lock()
	g.open = true
	ps := append([]*x3Park{}, g.parked...)
	g.mu.Unlock()
	for _, pk := range ps {
		select {
		case pk.ch <- struct{}{}:
		case <-time.After(50 * time.Millisecond):
		}
	}
}

// ---- reports (verifTrace "follower.report_leader") -----------------------------

type x3Report struct {
	F string `json:"f"`
	L string `json:"l"`
	E int64  `json:"e"`
	e uint64
}

var (
	x3RepMu    sync.Mutex
	x3Reports  []x3Report
	x3ReportAt []time.Time
)

func x3Trace(ev string, fields ...interface{}) {
	if ev != "follower.report_leader" || len(fields) != 1 {
		return
	}
	req, ok := fields[0].(*proto.ReportLeaderOp)
	if !ok || req == nil {
		return
	}
	x3RepMu.Lock()
	x3Reports = append(x3Reports, x3Report{F: req.Replica, L: req.Leader, e: req.LeaderEpoch})
	x3ReportAt = append(x3ReportAt, time.Now())
	x3RepMu.Unlock()
}

// ---- kit ----------------------------------------------------------------------

type x3Kit struct {
	*vKit
	g       *x3Gates
	epochs  []uint64             // leader epochs in order (rank = index + 1)
	pend    map[string][]vRaftOp // leader changes a follower has not applied yet
	lastRel map[string]string    // last gate the follower's current loop was released from
	tSend   map[string]time.Time
	seenLo  map[string]time.Time
	seenHi  map[string]time.Time
	live    map[string]bool // the current loop's request was accepted and is unanswered
	orphan  map[string]int  // accepted requests whose loop gave up
	next    int64
	dead    struct {
		ep, leo, lhw int64
	}
	deadIso  map[string]int64
	deadMute bool
	stuck    string
	timed    *x3Timing // timed part: real timers of the servers
}

func (k *x3Kit) rank(e uint64) int64 {
	for i, x := range k.epochs {
		if x == e {
			return int64(i + 1)
		}
	}
	return 0
}

type x3Timing struct{ idle, fetch, timeout time.Duration }

func (k *x3Kit) x3Server(id string) *Server {
	s := k.newServer(id)
	s.config.Clustering.ReplicaMaxIdleWait = 10 * time.Hour
	s.config.Clustering.ReplicaMaxLeaderTimeout = x3LeaderTimeout
	s.config.Clustering.ReplicaFetchTimeout = x3FetchTimeout
	if k.timed != nil {
		s.config.Clustering.ReplicaMaxIdleWait = k.timed.idle
		s.config.Clustering.ReplicaMaxLeaderTimeout = k.timed.timeout
		s.config.Clustering.ReplicaFetchTimeout = k.timed.fetch
	}
	// the follower "is" the metadata leader of its own (un-started) server: a report is handled locally
	// (one witness out of two followers never reaches the quorum, nothing is proposed)
	rn := &raftNode{}
	rn.setLeader(true)
	s.setRaft(rn)
	// what Start() does for the replication protocol: the partition notification subject
	if _, err := s.ncRepl.Subscribe(s.getPartitionNotificationInbox(id), s.handlePartitionNotification); err != nil {
		k.t.Fatalf("notification subject: %v", err)
	}
	s.ncRepl.Flush()
	return s
}

func (k *x3Kit) waitFor(what string, cond func() bool) bool {
	deadline := time.Now().Add(x3Deadline)
	for !cond() {
		if time.Now().After(deadline) {
			if k.stuck == "" {
				k.stuck = "stuck:" + what
			}
			return false
		}
		time.Sleep(100 * time.Microsecond)
	}
	return true
}

func (k *x3Kit) curStop(f string) <-chan struct{} {
	p := k.part(f)
	if p == nil {
		return nil
	}
	p.mu.RLock()
	defer p.mu.RUnlock()
	return p.stopFollower
}

// curAt: the follower's current loop parked at the gate (nil if it is not there)
func (k *x3Kit) curAt(gate, f string) *x3Park {
	var ps []*x3Park
	if gate == "follower.response_received" {
		ps = k.g.find(gate, f, func(x *x3Park) bool { return !x.old })
	} else {
		cs := k.curStop(f)
		ps = k.g.find(gate, f, func(x *x3Park) bool { return x.stop == cs })
	}
	if len(ps) == 0 {
		return nil
	}
	return ps[0]
}

func (k *x3Kit) pos(f string) string {
	if k.lastRel[f] == "request" && k.curAt("follower.before_wait", f) != nil {
		// its request has failed meanwhile; that is a step of its own which has not been recorded yet
		return "await"
	}
	switch {
	case k.curAt("follower.before_request", f) != nil:
		return "top"
	case k.curAt("follower.response_received", f) != nil:
		return "resp"
	case k.curAt("follower.before_wait", f) != nil:
		return "prewait"
	case k.lastRel[f] == "wait":
		return "idle"
	}
	return "await"
}

// createOpen: as create, for the timed part (gates open: nothing parks)
func (k *x3Kit) createOpen() {
	for _, id := range k.ids {
		k.srv[id] = k.x3Server(id)
		k.hwDisk[id] = -1
		k.isr[id] = true
	}
	k.leader = x3Leader
	op := k.commit(&proto.RaftLog{
		Op: proto.Op_CREATE_STREAM,
		CreateStreamOp: &proto.CreateStreamOp{Stream: &proto.Stream{
			Name: k.stream, Subject: k.subject, CreationTimestamp: time.Now().UnixNano(),
			Partitions: []*proto.Partition{{
				Subject: k.subject, Stream: k.stream, Id: 0, ReplicationFactor: int32(len(k.ids)),
				Replicas: append([]string{}, k.ids...), Isr: append([]string{}, k.ids...), Leader: x3Leader,
			}},
		}},
	})
	k.lepoch = op.idx
	k.epochs = []uint64{op.idx}
	for _, id := range k.ids {
		if err := k.applyTo(id, op, false); err != nil {
			k.t.Fatalf("create on %s: %v", id, err)
		}
	}
}

func (k *x3Kit) create() {
	for _, id := range k.ids {
		k.srv[id] = k.x3Server(id)
		k.hwDisk[id] = -1
		k.isr[id] = true
	}
	k.leader = x3Leader
	op := k.commit(&proto.RaftLog{
		Op: proto.Op_CREATE_STREAM,
		CreateStreamOp: &proto.CreateStreamOp{Stream: &proto.Stream{
			Name: k.stream, Subject: k.subject, CreationTimestamp: time.Now().UnixNano(),
			Partitions: []*proto.Partition{{
				Subject: k.subject, Stream: k.stream, Id: 0, ReplicationFactor: int32(len(k.ids)),
				Replicas: append([]string{}, k.ids...), Isr: append([]string{}, k.ids...), Leader: x3Leader,
			}},
		}},
	})
	k.lepoch = op.idx
	k.epochs = []uint64{op.idx}
	t0 := time.Now()
	for _, id := range k.ids {
		if err := k.applyTo(id, op, false); err != nil {
			k.t.Fatalf("create on %s: %v", id, err)
		}
	}
	for _, f := range x3Followers {
		f := f
		k.seenLo[f] = t0
		k.waitFor("loop-start-"+f, func() bool { return k.curAt("follower.before_request", f) != nil })
		k.waitFor("replicator-start-"+f, func() bool { return len(k.g.find("replicator.loop_top", f, nil)) > 0 })
		k.seenHi[f] = time.Now()
	}
}

func (k *x3Kit) replicator(f string) *replicator {
	p := k.part(x3Leader)
	if p == nil {
		return nil
	}
	p.mu.RLock()
	defer p.mu.RUnlock()
	return p.replicators[f]
}

func (k *x3Kit) wtr(f string) string {
	r := k.replicator(f)
	if r == nil {
		return "none"
	}
	r.mu.RLock()
	w := r.waiter
	r.mu.RUnlock()
	if w == nil {
		return "none"
	}
	if x3Closed(w) {
		return "stale"
	}
	return "reg"
}

func (k *x3Kit) chq(f string) int {
	r := k.replicator(f)
	if r == nil {
		return 0
	}
	return len(r.requests)
}

func (k *x3Kit) tok(f string) int {
	p := k.part(f)
	if p == nil {
		return 0
	}
	return len(p.notify)
}

type x3State struct {
	Up   bool               `json:"up"`
	Mute bool               `json:"mute"`
	Ep   int64              `json:"ep"`
	Leo  int64              `json:"leo"`
	Lhw  int64              `json:"lhw"`
	Iso  map[string]int64   `json:"iso"`
	Rep  map[string]string  `json:"rep"`
	Chq  map[string]int     `json:"chq"`
	Wtr  map[string]string  `json:"wtr"`
	Zn   map[string]int     `json:"zn"`
	Tok  map[string]int     `json:"tok"`
	Fep  map[string]int64   `json:"fep"`
	Lp   map[string]string  `json:"lp"`
	Zl   map[string]string  `json:"zl"`
	Flog map[string][]int64 `json:"flog"`
	Fhw  map[string]int64   `json:"fhw"`
}

func (k *x3Kit) state() x3State {
	st := x3State{Iso: map[string]int64{}, Rep: map[string]string{}, Chq: map[string]int{}, Wtr: map[string]string{},
		Zn: map[string]int{}, Tok: map[string]int{}, Fep: map[string]int64{}, Lp: map[string]string{},
		Zl: map[string]string{}, Flog: map[string][]int64{}, Fhw: map[string]int64{}}
	lp := k.part(x3Leader)
	st.Up = lp != nil
	if lp != nil {
		lp.mu.RLock()
		st.Mute = lp.pause
		st.Ep = k.rank(lp.LeaderEpoch)
		for _, f := range x3Followers {
			st.Iso[f] = -1
			if rep, ok := lp.isr[f]; ok {
				st.Iso[f] = rep.getLatestOffset()
			}
		}
		lp.mu.RUnlock()
		st.Leo, st.Lhw = lp.log.NewestOffset(), lp.log.HighWatermark()
		k.dead.ep, k.dead.leo, k.dead.lhw = st.Ep, st.Leo, st.Lhw
	} else {
		st.Ep, st.Leo, st.Lhw = k.dead.ep, k.dead.leo, k.dead.lhw
		st.Mute = k.deadMute
	}
	for _, f := range x3Followers {
		if lp == nil {
			st.Iso[f], st.Rep[f], st.Chq[f], st.Wtr[f], st.Zn[f] = k.deadIso[f], "recv", 0, "none", 0
		} else {
			st.Rep[f] = "recv"
			if len(k.g.find("replicator.before_respond", f, nil)) > 0 {
				st.Rep[f] = "hold"
			}
			st.Chq[f] = k.chq(f)
			st.Wtr[f] = k.wtr(f)
			st.Zn[f] = len(k.g.find("replicator.before_notify", f, func(x *x3Park) bool { return x.old }))
			k.deadIso[f] = st.Iso[f]
		}
		st.Tok[f] = k.tok(f)
		p := k.part(f)
		p.mu.RLock()
		st.Fep[f] = k.rank(p.LeaderEpoch)
		p.mu.RUnlock()
		st.Lp[f] = k.pos(f)
		st.Zl[f] = "none"
		if len(k.g.find("follower.response_received", f, func(x *x3Park) bool { return x.old })) > 0 {
			st.Zl[f] = "resp"
		}
		vals := []int64{}
		for _, r := range vReadRepLog(p.log) {
			vals = append(vals, r.V)
		}
		st.Flog[f] = vals
		st.Fhw[f] = p.log.HighWatermark()
	}
	return st
}

type x3Event struct {
	T    int                    `json:"t"`
	A    string                 `json:"a"`
	Args map[string]interface{} `json:"args"`
	Res  string                 `json:"res"`
	St   x3State                `json:"st"`
	Obs  map[string]interface{} `json:"obs"`
}

// takeReports: the reports made by follower f ("*": by anybody) since they were last taken
func (k *x3Kit) takeReports(f string) []x3Report {
	x3RepMu.Lock()
	defer x3RepMu.Unlock()
	out, rest := []x3Report{}, []x3Report{}
	for _, r := range x3Reports {
		if f == "*" || r.F == f {
			r.E = k.rank(r.e)
			out = append(out, r)
		} else {
			rest = append(rest, r)
		}
	}
	x3Reports, x3ReportAt = rest, nil
	return out
}

// lateClass: what the clock proves about "more than the leader timeout since the loop's last contact"
// at the health check that ran between checkLo and now
func (k *x3Kit) lateClass(f string, checkLo time.Time) string {
	must := checkLo.Sub(k.seenHi[f]) > x3LeaderTimeout
	may := time.Since(k.seenLo[f]) > x3LeaderTimeout
	if must {
		return "yes"
	}
	if !may {
		return "no"
	}
	return "maybe"
}

func (k *x3Kit) emit(tw *vTraceWriter, id int, a string, args map[string]interface{}, res, late string, stole bool) {
	if k.stuck != "" && res == "" {
		res = k.stuck
	}
	// a report belongs to the step in which its follower's request failed; whatever is left at the end
	// of the behaviour is shown with the last line
	who := ""
	if f, ok := args["f"].(string); ok && late != "-" {
		who = f
	}
	if a == "Quiet" {
		who = "*"
	}
	tw.Emit(x3Event{T: id, A: a, Args: args, Res: res, St: k.state(),
		Obs: map[string]interface{}{"rp": k.takeReports(who), "late": late, "stole": stole}})
}

// sync: a request that timed out by itself (the driver or the machine was slow) is a step of its own
func (k *x3Kit) sync(tw *vTraceWriter, id int) {
	for _, f := range x3Followers {
		if k.lastRel[f] == "request" && k.curAt("follower.before_wait", f) != nil {
			k.timedOut(f)
			k.emit(tw, id, "FTimeout", map[string]interface{}{"f": f, "w": "cur"}, "", k.lateClass(f, k.tSend[f]), false)
		}
	}
}

func (k *x3Kit) timedOut(f string) {
	k.lastRel[f] = ""
	if k.live[f] {
		k.live[f] = false
		k.orphan[f]++
	}
}

// awake notifier goroutines are at their gate (a goroutine that never shows up is not waited for
// longer than half a second: the state is recorded as it is and TLC judges what follows from it)
func (k *x3Kit) settleNotifiers() {
	for _, f := range x3Followers {
		if k.part(x3Leader) == nil || k.wtr(f) != "stale" {
			continue
		}
		deadline := time.Now().Add(500 * time.Millisecond)
		for time.Now().Before(deadline) {
			if len(k.g.find("replicator.before_notify", f, func(x *x3Park) bool { return !x.old })) > 0 {
				break
			}
			time.Sleep(100 * time.Microsecond)
		}
	}
}

func (k *x3Kit) armReplicator(f string) {
	// a queued request is taken by the replicator as soon as it is back at the top of its loop
	if k.chq(f) == 0 {
		return
	}
	ps := k.g.find("replicator.loop_top", f, nil)
	if len(ps) == 0 {
		return
	}
	c0 := k.g.cnt("replicator.before_respond", f)
	k.g.release(ps[0])
	k.waitFor("replicator-take-"+f, func() bool { return k.g.cnt("replicator.before_respond", f) > c0 })
	k.settle()
}

func (k *x3Kit) step(tw *vTraceWriter, id int, step map[string]interface{}) {
	a := vStr(step, "a")
	f := vStrDef(step, "f", "")
	w := vStrDef(step, "w", "cur")
	args := map[string]interface{}{}
	if f != "" {
		args["f"], args["w"] = f, w
	}
	k.sync(tw, id)
	res, late, stole := "", "-", false
	skip := func() { a, res = "Skip", "skip" }
	leaderUp := k.part(x3Leader) != nil
	switch a {
	case "Append":
		if !leaderUp {
			skip()
			break
		}
		reg := map[string]int{}
		for _, x := range x3Followers {
			if k.wtr(x) == "reg" {
				reg[x] = k.g.cnt("replicator.before_notify", x)
			}
		}
		v := k.next
		k.next++
		if r := k.publish(v, "LEADER", false); r != "" {
			res = "stuck:" + r
		}
		for x, c0 := range reg {
			x, c0 := x, c0
			k.waitFor("waiter-wake-"+x, func() bool { return k.g.cnt("replicator.before_notify", x) > c0 })
		}
		k.settleNotifiers()
	case "FSend":
		pk := k.curAt("follower.before_request", f)
		if pk == nil {
			skip()
			break
		}
		h0 := k.g.cnt("leader.request_handled", x3Leader)
		q0 := k.chq(f)
		k.tSend[f] = time.Now()
		k.g.release(pk)
		k.lastRel[f] = "request"
		if leaderUp {
			k.waitFor("request-handled", func() bool { return k.g.cnt("leader.request_handled", x3Leader) > h0 })
			if k.chq(f) > q0 {
				k.live[f] = true
				if len(k.g.find("replicator.before_respond", f, nil)) == 0 {
					k.armReplicator(f)
				}
			}
		} else {
			// nobody listens: the request fails at once
			k.waitFor("request-failed-"+f, func() bool { return k.curAt("follower.before_wait", f) != nil })
			k.timedOut(f)
			late = k.lateClass(f, k.tSend[f])
		}
	case "LResp":
		ps := k.g.find("replicator.before_respond", f, nil)
		if !leaderUp || len(ps) == 0 {
			skip()
			break
		}
		c0 := k.g.cnt("replicator.loop_top", f)
		r0 := k.g.cnt("follower.response_received", f)
		before := k.state()
		k.g.release(ps[0])
		k.waitFor("replicator-done-"+f, func() bool { return k.g.cnt("replicator.loop_top", f) > c0 })
		if s := k.srv[x3Leader]; s != nil {
			s.ncRepl.Flush()
		}
		if k.orphan[f] > 0 {
			k.orphan[f]--
		} else if k.live[f] {
			k.live[f] = false
			// the answer arrives - unless the request has timed out meanwhile (slow machine): then the
			// loop shows up at its idle decision instead, and that timeout is recorded first
			k.waitFor("response-"+f, func() bool {
				return k.g.cnt("follower.response_received", f) > r0 || k.curAt("follower.before_wait", f) != nil
			})
			if k.g.cnt("follower.response_received", f) == r0 && k.lastRel[f] == "request" {
				// the timeout came first (the answer went to an inbox nobody listens to any more): its line
				// shows the state projected just before the replicator was released, with the loop where it is now
				k.timedOut(f)
				before.Lp[f] = "prewait"
				tw.Emit(x3Event{T: id, A: "FTimeout", Args: map[string]interface{}{"f": f, "w": "cur"}, St: before,
					Obs: map[string]interface{}{"rp": k.takeReports(f), "late": k.lateClass(f, k.tSend[f]), "stole": false}})
			}
		}
		k.armReplicator(f)
		k.settleNotifiers()
	case "FRecv":
		var pk *x3Park
		if w == "old" {
			if ps := k.g.find("follower.response_received", f, func(x *x3Park) bool { return x.old }); len(ps) > 0 {
				pk = ps[0]
			}
		} else {
			pk = k.curAt("follower.response_received", f)
		}
		if pk == nil {
			skip()
			break
		}
		tok0 := k.tok(f)
		if w == "old" {
			k.g.release(pk)
			// the stopped loop runs on to its select and ends there; it may take the token with it
			time.Sleep(20 * time.Millisecond)
			stole = tok0 == 1 && k.tok(f) == 0
		} else {
			k.seenLo[f] = time.Now()
			k.g.release(pk)
			k.lastRel[f] = "response"
			k.waitFor("after-response-"+f, func() bool {
				return k.curAt("follower.before_request", f) != nil || k.curAt("follower.before_wait", f) != nil
			})
			k.seenHi[f] = time.Now()
			k.lastRel[f] = ""
		}
	case "FTimeout":
		if k.lastRel[f] != "request" {
			skip()
			break
		}
		k.waitFor("request-timeout-"+f, func() bool { return k.curAt("follower.before_wait", f) != nil })
		k.timedOut(f)
		late = k.lateClass(f, k.tSend[f])
	case "Tick":
		// more than the leader timeout passes; a request that times out meanwhile is a step of its own
		end := time.Now().Add(x3LeaderTimeout + 30*time.Millisecond)
		for time.Now().Before(end) {
			time.Sleep(2 * time.Millisecond)
			k.sync(tw, id)
		}
	case "FIdle":
		pk := k.curAt("follower.before_wait", f)
		if pk == nil {
			skip()
			break
		}
		tok0 := k.tok(f)
		k.g.release(pk)
		if tok0 == 1 {
			k.waitFor("wake-"+f, func() bool { return k.curAt("follower.before_request", f) != nil })
			k.lastRel[f] = ""
		} else {
			k.lastRel[f] = "wait"
		}
	case "LNotify", "LNotifyOld":
		ps := k.g.find("replicator.before_notify", f, func(x *x3Park) bool { return x.old == (a == "LNotifyOld") })
		if !leaderUp || len(ps) == 0 {
			skip()
			break
		}
		n0 := k.g.cnt("follower.notified", f)
		idle := k.pos(f) == "idle"
		k.g.release(ps[0])
		k.waitFor("notified-"+f, func() bool { return k.g.cnt("follower.notified", f) > n0 })
		if idle {
			k.waitFor("wake-"+f, func() bool { return k.curAt("follower.before_request", f) != nil })
			k.lastRel[f] = ""
		}
		// (not idle: the handler has returned, the token is there or it is not - recorded as it is)
	case "IdleTimeout":
		if k.pos(f) != "idle" {
			skip()
			break
		}
		// the idle wait is hours long; its end is played by the token the same select listens to
		select {
		case k.part(f).notify <- struct{}{}:
		default:
		}
		k.waitFor("wake-"+f, func() bool { return k.curAt("follower.before_request", f) != nil })
		k.lastRel[f] = ""
	case "NewEpochL":
		busy := !leaderUp
		for _, x := range x3Followers {
			if leaderUp && (len(k.g.find("replicator.before_respond", x, nil)) > 0 || k.chq(x) > 0) {
				busy = true
			}
		}
		if busy {
			skip()
			break
		}
		c0 := map[string]int{}
		for _, x := range x3Followers {
			c0[x] = k.g.cnt("replicator.loop_top", x)
		}
		k.g.mark("replicator.before_notify", "", func(x *x3Park) { x.old = true })
		op := k.commit(&proto.RaftLog{Op: proto.Op_CHANGE_LEADER, ChangeLeaderOp: &proto.ChangeLeaderOp{
			Stream: k.stream, Partition: 0, Leader: x3Leader}})
		k.lepoch = op.idx
		k.epochs = append(k.epochs, op.idx)
		if err := k.applyTo(x3Leader, op, false); err != nil {
			res = "stuck:apply-" + err.Error()
		}
		for _, x := range x3Followers {
			x := x
			k.pend[x] = append(k.pend[x], op)
			k.waitFor("replicator-restart-"+x, func() bool {
				return k.g.cnt("replicator.loop_top", x) > c0[x] && len(k.g.find("replicator.loop_top", x, nil)) > 0
			})
			k.live[x], k.orphan[x] = false, 0
		}
		k.settle()
	case "NewEpochF":
		if !leaderUp || len(k.pend[f]) == 0 || k.pos(f) == "await" ||
			len(k.g.find("follower.response_received", f, func(x *x3Park) bool { return x.old })) > 0 {
			skip()
			break
		}
		tok0 := k.tok(f)
		wasPre := k.pos(f) == "prewait"
		k.g.mark("follower.response_received", f, func(x *x3Park) { x.old = true })
		k.seenLo[f] = time.Now()
		ops := k.pend[f]
		k.pend[f] = nil
		for _, op := range ops {
			if err := k.applyTo(f, op, false); err != nil {
				res = "stuck:apply-" + err.Error()
			}
		}
		k.lastRel[f] = ""
		k.waitFor("loop-restart-"+f, func() bool { return k.curAt("follower.before_request", f) != nil })
		k.seenHi[f] = time.Now()
		if wasPre && tok0 == 1 {
			time.Sleep(20 * time.Millisecond)
			stole = k.tok(f) == 0
		}
	case "Kill":
		if !leaderUp {
			skip()
			break
		}
		st := k.state()
		k.dead.ep, k.dead.leo, k.dead.lhw = st.Ep, st.Leo, st.Lhw
		k.deadMute = st.Mute
		k.g.mark("replicator.before_notify", "", func(x *x3Park) { x.dead = true })
		s := k.srv[x3Leader]
		p := k.part(x3Leader)
		s.closeNATSConns()
		p.Close()
		delete(k.srv, x3Leader)
		for _, x := range x3Followers {
			k.orphan[x] = 0
		}
	case "Mute":
		p := k.part(x3Leader)
		if p == nil {
			skip()
			break
		}
		p.mu.RLock()
		m := p.pause
		p.mu.RUnlock()
		if m {
			skip()
			break
		}
		p.pauseReplication()
	case "Quiet":
	case "Drain":
		k.drain(tw, id)
		a, res = "Skip", "skip"
	default:
		k.t.Fatalf("unknown action %q", a)
	}
	k.emit(tw, id, a, args, res, late, stole)
}

// drain: every step of the protocol that can be taken without a timer, until none is left
func (k *x3Kit) drain(tw *vTraceWriter, id int) {
	for n := 0; n < 120 && k.stuck == ""; n++ {
		var st map[string]interface{}
		leaderUp := k.part(x3Leader) != nil
		for _, f := range x3Followers {
			old := func(x *x3Park) bool { return x.old }
			switch {
			case st != nil:
			case leaderUp && len(k.g.find("replicator.before_respond", f, nil)) > 0:
				st = map[string]interface{}{"a": "LResp", "f": f}
			case len(k.g.find("follower.response_received", f, old)) > 0:
				st = map[string]interface{}{"a": "FRecv", "f": f, "w": "old"}
			case k.curAt("follower.response_received", f) != nil:
				st = map[string]interface{}{"a": "FRecv", "f": f, "w": "cur"}
			case leaderUp && len(k.g.find("replicator.before_notify", f, old)) > 0:
				st = map[string]interface{}{"a": "LNotifyOld", "f": f}
			case leaderUp && len(k.g.find("replicator.before_notify", f, func(x *x3Park) bool { return !x.old })) > 0:
				st = map[string]interface{}{"a": "LNotify", "f": f}
			case leaderUp && len(k.pend[f]) > 0 && k.pos(f) != "await":
				st = map[string]interface{}{"a": "NewEpochF", "f": f}
			case k.curAt("follower.before_wait", f) != nil:
				st = map[string]interface{}{"a": "FIdle", "f": f}
			case k.curAt("follower.before_request", f) != nil:
				st = map[string]interface{}{"a": "FSend", "f": f}
			case k.lastRel[f] == "request" && !k.live[f]:
				// a request nobody will answer: its timeout is a step of the protocol
				st = map[string]interface{}{"a": "FTimeout", "f": f}
			}
		}
		if st == nil {
			break
		}
		k.step(tw, id, st)
	}
}

// tail of every behaviour: drain; one more record (whatever the history, the wake-up chain must still
// work); drain; the quiescent state is judged
func (k *x3Kit) tail(tw *vTraceWriter, id int) {
	k.drain(tw, id)
	if k.stuck == "" && k.part(x3Leader) != nil {
		k.step(tw, id, map[string]interface{}{"a": "Append"})
		k.drain(tw, id)
	}
	k.step(tw, id, map[string]interface{}{"a": "Quiet"})
}

func (k *x3Kit) shutdown() {
	k.g.openAll()
	for _, id := range k.upIDs() {
		if p := k.part(id); p != nil {
			p.Close()
		}
		k.srv[id].closeNATSConns()
	}
	k.nc.Close()
	k.g.openAll()
	os.RemoveAll(k.base)
	time.Sleep(5 * time.Millisecond)
}

func x3Run(t *testing.T, ns *gnatsd.Server, b vBehaviour, tw *vTraceWriter) string {
	g := &x3Gates{count: map[string]int{}}
	x3Mu.Lock()
	x3Cur = g
	x3Mu.Unlock()
	x3RepMu.Lock()
	x3Reports = nil
	x3RepMu.Unlock()
	// response packing: at most fetchMax plain records per response; every record whose number is a
	// multiple of wideEvery is stored with twice the size
	fm, we := int(vIntDef(b.Cfg, "fetchMax", 1)), int(vIntDef(b.Cfg, "wideEvery", 0))
	base := newVKit(t, ns, newVFollowGate(), b.ID, 1, fm, vKitIDs, 1)
	base.wideEvery = we
	k := &x3Kit{vKit: base, g: g, pend: map[string][]vRaftOp{}, lastRel: map[string]string{},
		tSend: map[string]time.Time{}, seenLo: map[string]time.Time{}, seenHi: map[string]time.Time{},
		live: map[string]bool{}, orphan: map[string]int{}, deadIso: map[string]int64{}}
	defer k.shutdown()
	k.create()
	k.emit(tw, b.ID, "Open", map[string]interface{}{"fm": fm, "we": we}, "", "-", false)
	for _, step := range b.Steps {
		if k.stuck != "" {
			break
		}
		k.step(tw, b.ID, step)
	}
	if k.stuck == "" && vBool(b.Cfg, "drain") {
		k.tail(tw, b.ID)
	}
	return k.stuck
}

func TestVerifReplLoop(t *testing.T) {
	sf := vLoadStimuli(t)
	tw := vOpenTrace(t)
	defer tw.Close()
	ns := vStartNATS(t)
	defer ns.Shutdown()
	VerifLoopGateHook = x3Hook
	VerifGateStopHook = x3Hook
	VerifTraceHook = x3Trace
	defer func() { VerifLoopGateHook = nil; VerifGateStopHook = nil; VerifTraceHook = nil }()
	stuck := 0
	for _, b := range sf.Behaviours {
		if s := x3Run(t, ns, b, tw); s != "" {
			stuck++
			fmt.Printf("VERIF-X03-STUCK behaviour=%d %s\n", b.ID, s)
		}
	}
	fmt.Printf("VERIF-X03 behaviours=%d stuck=%d\n", len(sf.Behaviours), stuck)
}
