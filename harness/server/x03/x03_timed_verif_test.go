//go:build verif

package server

// X03, timed part: the same three servers with every gate open and the real timers small (idle wait,
// fetch timeout, leader timeout); the driver only calls (append, leader epoch change, mute, kill), waits for
// observable effects under generous deadlines and records what it saw with clock bounds.  TLC judges the
// recorded history (spec/Trace_ReplTimed.tla).  Anything that did not happen before a deadline is recorded
// as "missing" and makes the run inconclusive - load can never produce an alarm; what CAN be an alarm is
// load independent: follower logs out of order, a report with the wrong pair, a report made although the
// follower had received an answer less than the timeout before (upper bound of the elapsed time).

import (
	"fmt"
	"testing"
	"time"

	gnatsd "github.com/nats-io/nats-server/v2/server"

	proto "github.com/liftbridge-io/liftbridge/server/protocol"
)

type x3tReport struct {
	F     string `json:"f"`
	L     string `json:"l"`
	E     int64  `json:"e"`
	GapMs int64  `json:"gap"` // upper bound of the time since the loop's last contact, as the clock shows
}

type x3tState struct {
	Up   bool               `json:"up"`
	Ep   int64              `json:"ep"`
	Leo  int64              `json:"leo"`
	Lhw  int64              `json:"lhw"`
	Fep  map[string]int64   `json:"fep"`
	Flog map[string][]int64 `json:"flog"`
	Fhw  map[string]int64   `json:"fhw"`
}

type x3tEvent struct {
	T    int                    `json:"t"`
	A    string                 `json:"a"`
	Args map[string]interface{} `json:"args"`
	Res  string                 `json:"res"`
	St   x3tState               `json:"st"`
	Rp   []x3tReport            `json:"rp"`
	Ms   int64                  `json:"ms"` // how long the step took
}

type x3tKit struct {
	*x3Kit
	timeoutMs int64
	start     map[string]time.Time // lower bound of the start of the follower's current loop
	taken     int
}

// tstate reads the followers before the leader (and a HW before the log it belongs to): every value only
// grows, so the bounds the specification demands between them hold for values read in this order
func (k *x3tKit) tstate() x3tState {
	st := x3tState{Fep: map[string]int64{}, Flog: map[string][]int64{}, Fhw: map[string]int64{}}
	for _, f := range x3Followers {
		p := k.part(f)
		p.mu.RLock()
		st.Fep[f] = k.rank(p.LeaderEpoch)
		p.mu.RUnlock()
		st.Fhw[f] = p.log.HighWatermark()
		vals := []int64{}
		for _, r := range vReadRepLog(p.log) {
			vals = append(vals, r.V)
		}
		st.Flog[f] = vals
	}
	lp := k.part(x3Leader)
	st.Up = lp != nil
	if lp != nil {
		lp.mu.RLock()
		st.Ep = k.rank(lp.LeaderEpoch)
		lp.mu.RUnlock()
		st.Lhw = lp.log.HighWatermark()
		st.Leo = lp.log.NewestOffset()
		k.dead.ep, k.dead.leo, k.dead.lhw = st.Ep, st.Leo, st.Lhw
	} else {
		st.Ep, st.Leo, st.Lhw = k.dead.ep, k.dead.leo, k.dead.lhw
	}
	return st
}

// reports made since the last line, each with the clock's upper bound of the loop's silence
func (k *x3tKit) reports() []x3tReport {
	x3RepMu.Lock()
	rs := append([]x3Report{}, x3Reports[k.taken:]...)
	ts := append([]time.Time{}, x3ReportAt[k.taken:]...)
	k.taken = len(x3Reports)
	x3RepMu.Unlock()
	out := []x3tReport{}
	for i, r := range rs {
		last := k.start[r.F]
		k.g.mu.Lock()
		if t, ok := k.g.lastResp[r.F]; ok && t.After(last) {
			last = t
		}
		k.g.mu.Unlock()
		out = append(out, x3tReport{F: r.F, L: r.L, E: k.rank(r.e), GapMs: ts[i].Sub(last).Milliseconds()})
	}
	return out
}

func (k *x3tKit) await(d time.Duration, cond func() bool) bool {
	end := time.Now().Add(d)
	for !cond() {
		if time.Now().After(end) {
			return false
		}
		time.Sleep(time.Millisecond)
	}
	return true
}

func (k *x3tKit) step(tw *vTraceWriter, id int, step map[string]interface{}) {
	a := vStr(step, "a")
	args := map[string]interface{}{}
	res := ""
	t0 := time.Now()
	leader := k.part(x3Leader)
	switch a {
	case "Append":
		n := int(vIntDef(step, "n", 1))
		args["n"] = n
		for i := 0; i < n && leader != nil; i++ {
			if r := k.publish(k.next, "LEADER", false); r != "" {
				res = "missing:" + r
				break
			}
			k.next++
		}
	case "AwaitStored":
		// every follower holds what the leader holds, and the leader's HW covers it
		if leader == nil {
			break
		}
		ok := k.await(12*time.Second, func() bool {
			leo := leader.log.NewestOffset()
			for _, f := range x3Followers {
				if k.part(f).log.NewestOffset() < leo {
					return false
				}
			}
			return leader.log.HighWatermark() >= leo
		})
		if !ok {
			res = "missing:stored"
		}
	case "Sleep":
		ms := vIntDef(step, "ms", 100)
		args["ms"] = ms
		time.Sleep(time.Duration(ms) * time.Millisecond)
	case "NewEpoch":
		if leader == nil {
			break
		}
		op := k.commit(&proto.RaftLog{Op: proto.Op_CHANGE_LEADER, ChangeLeaderOp: &proto.ChangeLeaderOp{
			Stream: k.stream, Partition: 0, Leader: x3Leader}})
		k.lepoch = op.idx
		k.epochs = append(k.epochs, op.idx)
		for _, id := range k.ids {
			if id != x3Leader {
				k.start[id] = time.Now()
			}
			if err := k.applyTo(id, op, false); err != nil {
				res = "missing:apply-" + err.Error()
			}
		}
	case "Mute":
		if leader != nil {
			leader.pauseReplication()
		}
	case "Kill":
		if leader != nil {
			s := k.srv[x3Leader]
			k.tstate()
			s.closeNATSConns()
			leader.Close()
			delete(k.srv, x3Leader)
		}
	case "AwaitReports":
		// every follower has reported since this step began (idle wait + fetch timeouts + leader timeout)
		x3RepMu.Lock()
		from := len(x3Reports)
		x3RepMu.Unlock()
		ok := k.await(15*time.Second, func() bool {
			x3RepMu.Lock()
			defer x3RepMu.Unlock()
			seen := map[string]bool{}
			for _, r := range x3Reports[from:] {
				seen[r.F] = true
			}
			return len(seen) == len(x3Followers)
		})
		if !ok {
			res = "missing:reports"
		}
	default:
		k.t.Fatalf("unknown timed action %q", a)
	}
	tw.Emit(x3tEvent{T: id, A: a, Args: args, Res: res, St: k.tstate(), Rp: k.reports(), Ms: time.Since(t0).Milliseconds()})
}

func x3tRun(t *testing.T, ns *gnatsd.Server, b vBehaviour, tw *vTraceWriter) {
	g := &x3Gates{count: map[string]int{}, open: true, lastResp: map[string]time.Time{}}
	x3Mu.Lock()
	x3Cur = g
	x3Mu.Unlock()
	x3RepMu.Lock()
	x3Reports, x3ReportAt = nil, nil
	x3RepMu.Unlock()
	base := newVKit(t, ns, newVFollowGate(), b.ID, 1, int(vIntDef(b.Cfg, "fetchMax", 2)), vKitIDs, 1)
	base.wideEvery = int(vIntDef(b.Cfg, "wideEvery", 0))
	kk := &x3Kit{vKit: base, g: g, pend: map[string][]vRaftOp{}, lastRel: map[string]string{},
		tSend: map[string]time.Time{}, seenLo: map[string]time.Time{}, seenHi: map[string]time.Time{},
		live: map[string]bool{}, orphan: map[string]int{}, deadIso: map[string]int64{}}
	kk.timed = &x3Timing{
		idle:    time.Duration(vIntDef(b.Cfg, "idleMs", 2300)) * time.Millisecond,
		fetch:   time.Duration(vIntDef(b.Cfg, "fetchMs", 150)) * time.Millisecond,
		timeout: time.Duration(vIntDef(b.Cfg, "timeoutMs", 400)) * time.Millisecond,
	}
	k := &x3tKit{x3Kit: kk, timeoutMs: vIntDef(b.Cfg, "timeoutMs", 400), start: map[string]time.Time{}}
	defer kk.shutdown()
	t0 := time.Now()
	for _, f := range x3Followers {
		k.start[f] = t0
	}
	kk.createOpen()
	tw.Emit(x3tEvent{T: b.ID, A: "Open", Args: map[string]interface{}{"timeout": k.timeoutMs}, St: k.tstate(), Rp: k.reports()})
	for _, step := range b.Steps {
		k.step(tw, b.ID, step)
	}
}

func TestVerifReplLoopTimed(t *testing.T) {
	sf := vLoadStimuli(t)
	tw := vOpenTrace(t)
	defer tw.Close()
	ns := vStartNATS(t)
	defer ns.Shutdown()
	VerifLoopGateHook = x3Hook
	VerifGateStopHook = x3Hook
	VerifTraceHook = x3Trace
	defer func() { VerifLoopGateHook = nil; VerifGateStopHook = nil; VerifTraceHook = nil }()
	for _, b := range sf.Behaviours {
		x3tRun(t, ns, b, tw)
	}
	fmt.Printf("VERIF-X03T behaviours=%d\n", len(sf.Behaviours))
}
