//go:build verif

package server

// C16 at server level: rounds of concurrent conditional publishes against a
// real one-node server (gRPC PublishAsync / Publish -> NATS -> leader loop ->
// commit log -> ack), spec/OccPublish.tla.
//
// A round = one fresh stream (with or without optimistic concurrency control)
// on a server whose batching settings were set for the round, and a list of
// waves.  In a wave every publisher runs its own list of steps concurrently
// with the others (sends are pipelined: a publisher does not wait for an
// answer before its next send on the async path); at the end of the wave every
// publisher waits for its answers.  The expected offset of a send is computed
// by the publisher from what it knows (its last success ack, or the log end it
// read) - the driver records what was actually sent and what came back, stamps
// both with one process-wide logical clock, reads the partition log at the end
// and writes one "Round" line.  It never judges; TLC does (Trace_OccPublish).

import (
	"context"
	"encoding/binary"
	"fmt"
	"io"
	"os"
	"path/filepath"
	"sort"
	"strings"
	"sync"
	"sync/atomic"
	"testing"
	"time"

	"github.com/hashicorp/raft"
	client "github.com/liftbridge-io/liftbridge-api/v2/go"
	"github.com/nats-io/nats.go"
	"google.golang.org/grpc"
	"google.golang.org/grpc/codes"
	"google.golang.org/grpc/status"

	proto "github.com/liftbridge-io/liftbridge/server/protocol"
)

const (
	vC16Inf      = int64(1000000000)
	vC16Deadline = 10 * time.Second
	// how long a PublishAsync session is kept between its NATS publish and its
	// in-flight count when the answer does not come (a bound, not a verdict)
	vC16HoldMax = 2 * time.Second
)

// Sessions parked at the gate api.publish_async.published (hook in
// publishLoop between ncPublishes.Publish and inflight++): a send with "hold"
// registers its correlation id; the session then counts the publish only after
// the publisher has the answer (schedule Publish, Arrive, Process, Ack, Count of
// OccPublish.tla), or after vC16HoldMax.
var (
	vC16HoldMu sync.Mutex
	vC16Holds  = map[string]*vC16Pending{}
)

func vC16GateHook(name, id string, stop <-chan struct{}) {
	if name != "api.publish_async.published" {
		return
	}
	vC16HoldMu.Lock()
	pd := vC16Holds[id]
	delete(vC16Holds, id)
	vC16HoldMu.Unlock()
	if pd == nil {
		return
	}
	select {
	case <-pd.done:
		atomic.StoreInt32(&pd.held, 1) // counted after the answer
	case <-time.After(vC16HoldMax):
		atomic.StoreInt32(&pd.held, 2) // no answer while parked
	}
}

type vC16Msg struct {
	P     string `json:"p"`
	Exp   int64  `json:"exp"`
	Pol   string `json:"pol"`
	SendT int64  `json:"sendT"`
	AckT  int64  `json:"ackT"`
	Res   string `json:"res"`
	Off   int64  `json:"off"`
	Via   string `json:"via"`  // who publishes: api | subj | nats | natsq | plain
	Hold  string `json:"hold"` // "" | "counted after the answer" | "no answer while parked" (information only)
	Kind  string `json:"kind"` // the intent (information only)
	Seq   int    `json:"seq"`  // per publisher sequence number (information only)
	Err   string `json:"err"`  // error text (information only)
	pd    *vC16Pending
}

type vC16Entry struct {
	Off int64 `json:"off"`
	ID  int   `json:"id"`
}

type vC16Cfg struct {
	Occ     bool   `json:"occ"`
	Batch   int    `json:"batch"`
	BatchMs int    `json:"batchMs"`
	Path    string `json:"path"`
	Snap0   string `json:"snap0"` // where a snapshot was taken while the stream was set up (information only)
	// where the setting comes from: "request" (the per-stream option of CreateStream when on, nothing when
	// off), "server" (no per-stream option, the server-wide streams.concurrency.control), "override" (the
	// per-stream option says it explicitly, the server-wide setting says the opposite)
	Src  string `json:"src"`
	Occ0 bool   `json:"occ0"` // the setting of the commit log right after the creation (information only)
}

type vC16Event struct {
	T        int              `json:"t"`
	A        string           `json:"a"`
	Cfg      *vC16Cfg         `json:"cfg,omitempty"`
	Msgs     []vC16Msg        `json:"msgs"`
	Log      []vC16Entry      `json:"log"`
	Clk      int64            `json:"clk"`
	Known    map[string]int64 `json:"known"`
	Timeouts int              `json:"timeouts"`
	NoAnswer int              `json:"noanswer"` // publishes without an answer although a later fence was acknowledged
	Paused   bool             `json:"paused"` // the partition was paused when the round ended
	Pauses   int              `json:"pauses"` // PauseStream calls of the round (information only)
	Restarts int              `json:"restarts"` // server restarts of the round (information only)
	Recreate bool             `json:"recreate"` // the stream had a deleted predecessor with the opposite setting
	Eocc     bool             `json:"eocc"`     // concurrency control of the running commit log when the round ended
	Snap     string           `json:"snap"`     // what the newest snapshot in the Raft snapshot store holds: none | pred | cur
	Snaps    int              `json:"snaps"`    // snapshots taken in the round (information only)
	Installs int              `json:"installs"` // snapshot installs on the running server (information only)
	Holds    int              `json:"holds"`    // sends whose session counted them after the answer (information only)
	Note     string           `json:"note,omitempty"`
}

type vC16Pending struct {
	msg  *vC16Msg
	done chan struct{}
	held int32
}

type vC16Pub struct {
	name  string
	run   *vC16Round
	mu    sync.Mutex
	known int64
	seq   int
	msgs  []*vC16Msg
	// async path
	stream  client.API_PublishAsyncClient
	cancel  context.CancelFunc
	pending map[string]*vC16Pending
	waiting []*vC16Pending
	// the publisher's own NATS connection (raw publishes) and its ack inbox
	nc    *nats.Conn
	inbox string
}

type vC16Round struct {
	t      *testing.T
	id     int
	srv    *Server
	api    client.APIClient
	part   *partition
	stream string
	cfg    vC16Cfg
	clk    *int64
	pubs   map[string]*vC16Pub
	pauses int
	note   string
	env      *vC16Env
	restarts int
	snaps    int
	installs int
}

// cur returns the partition object now in the metadata (resuming a paused
// partition replaces the object and its commit log).
func (r *vC16Round) cur() *partition {
	if p := r.srv.metadata.GetPartition(r.stream, 0); p != nil {
		r.part = p
	}
	return r.part
}

// pause: PauseStream and wait until the partition reports it.
func (r *vC16Round) pause() {
	ctx, cancel := context.WithTimeout(context.Background(), vC16Deadline)
	defer cancel()
	var err error
	for attempt := 1; attempt <= 4; attempt++ {
		if _, err = r.srv.api.PauseStream(ctx, &client.PauseStreamRequest{Name: r.stream}); err == nil {
			break
		}
		time.Sleep(300 * time.Millisecond)
	}
	if err != nil {
		r.note = "pause failed: " + err.Error()
		return
	}
	deadline := time.Now().Add(vC16Deadline)
	for !r.cur().IsPaused() {
		if time.Now().After(deadline) {
			r.note = "partition did not pause"
			return
		}
		time.Sleep(200 * time.Microsecond)
	}
	r.pauses++
}

func (r *vC16Round) tick() int64 { return atomic.AddInt64(r.clk, 1) }

func vC16Policy(pol string) client.AckPolicy {
	switch pol {
	case "all":
		return client.AckPolicy_ALL
	case "none":
		return client.AckPolicy_NONE
	}
	return client.AckPolicy_LEADER
}

// the expected offset the publisher derives from what it knows
func vC16Exp(kind string, known int64) int64 {
	var e int64
	switch kind {
	case "waive", "fence":
		return -1
	case "neg": // negative values other than -1 do not waive the check
		return -2
	case "negbig":
		return -1000000
	case "stale":
		e = known - 1
	case "equal":
		e = known
	case "future":
		e = known + 1
	case "far":
		e = known + 2
	default:
		panic("unknown kind " + kind)
	}
	if e < 0 {
		e = 0
	}
	return e
}

func vC16ClassifyAsync(resp *client.PublishResponse) (res string, off int64, text string) {
	if e := resp.AsyncError; e != nil {
		switch e.Code {
		case client.PublishAsyncError_INCORRECT_OFFSET:
			return "incorrect_offset", -1, e.Message
		case client.PublishAsyncError_BAD_REQUEST:
			return "bad_request", -1, e.Message
		}
		return "other", -1, e.Code.String() + ":" + e.Message
	}
	if resp.Ack == nil {
		return "other", -1, "response without ack"
	}
	if resp.Ack.AckError != client.Ack_OK {
		return "other", -1, "ack error " + resp.Ack.AckError.String()
	}
	return "ok", resp.Ack.Offset, ""
}

func vC16ClassifySync(resp *client.PublishResponse, err error) (res string, off int64, text string) {
	if err != nil {
		st := status.Convert(err)
		switch {
		case st.Code() == codes.DeadlineExceeded:
			return "timeout", -1, st.Message()
		case st.Code() == codes.InvalidArgument:
			return "bad_request", -1, st.Message()
		case strings.Contains(st.Message(), "incorrect expected offset"):
			return "incorrect_offset", -1, st.Message()
		}
		return "other", -1, st.Code().String() + ":" + st.Message()
	}
	if resp.Ack == nil {
		// accepted, fire and forget
		return "noack", -1, ""
	}
	if resp.Ack.AckError != client.Ack_OK {
		return "other", -1, "ack error " + resp.Ack.AckError.String()
	}
	return "ok", resp.Ack.Offset, ""
}

func (p *vC16Pub) openAsync() error {
	ctx, cancel := context.WithCancel(context.Background())
	st, err := p.run.api.PublishAsync(ctx)
	if err != nil {
		cancel()
		return err
	}
	p.stream, p.cancel = st, cancel
	p.pending = map[string]*vC16Pending{}
	go func() {
		for {
			resp, err := st.Recv()
			at := p.run.tick() // stamped right after the answer was received
			if err != nil {
				return
			}
			res, off, text := vC16ClassifyAsync(resp)
			key := resp.CorrelationId
			if key == "" && resp.Ack != nil {
				key = resp.Ack.CorrelationId
			}
			p.resolve(key, at, res, off, text)
		}
	}()
	return nil
}

// resolve files the answer to the publish with that correlation id.
func (p *vC16Pub) resolve(key string, at int64, res string, off int64, text string) {
	p.mu.Lock()
	pd := p.pending[key]
	if pd != nil && pd.msg.Res == "noanswer" {
		// an answer after the fence was acknowledged: recorded, the verdict stands
		pd.msg.Err = "late answer after the fence: " + res
		delete(p.pending, key)
		pd = nil
	}
	if pd != nil {
		delete(p.pending, key)
		pd.msg.AckT, pd.msg.Res, pd.msg.Off, pd.msg.Err = at, res, off, text
		if res == "ok" && off+1 > p.known {
			p.known = off + 1
		}
	}
	p.mu.Unlock()
	if pd != nil {
		close(pd.done)
	}
}

// openRaw: the publisher's own NATS connection and ack inbox (a publisher that
// writes Liftbridge envelopes / plain messages to the stream's subject itself).
func (p *vC16Pub) openRaw() error {
	if p.nc != nil {
		return nil
	}
	nc, err := nats.Connect(p.run.env.cfg.NATS.Servers[0])
	if err != nil {
		return err
	}
	inbox := nats.NewInbox()
	_, err = nc.Subscribe(inbox, func(m *nats.Msg) {
		at := p.run.tick() // stamped right after the answer was received
		ack, err := proto.UnmarshalAck(m.Data)
		if err != nil {
			return
		}
		res, off, text := "ok", ack.Offset, ""
		switch ack.AckError {
		case client.Ack_OK:
		case client.Ack_INCORRECT_OFFSET:
			res, off = "incorrect_offset", -1
		default:
			res, off, text = "other", -1, "ack error "+ack.AckError.String()
		}
		p.resolve(ack.CorrelationId, at, res, off, text)
	})
	if err == nil {
		err = nc.Flush()
	}
	if err != nil {
		nc.Close()
		return err
	}
	p.nc, p.inbox = nc, inbox
	return nil
}

func (p *vC16Pub) closeRaw() {
	if p.nc != nil {
		p.nc.Close()
		p.nc = nil
	}
}

func (p *vC16Pub) send(kind, pol, via string, hold bool) {
	r := p.run
	p.mu.Lock()
	p.seq++
	m := &vC16Msg{P: p.name, Pol: pol, Via: via, Kind: kind, Seq: p.seq, AckT: vC16Inf, Res: "pending", Off: -1}
	m.Exp = vC16Exp(kind, p.known)
	if via == "plain" || via == "subj" {
		m.Exp = -1 // no expected-offset field at all
	}
	p.msgs = append(p.msgs, m)
	corr := fmt.Sprintf("%d|%s|%d", r.id, p.name, p.seq)
	switch via {
	case "nats", "natsq", "plain":
		// the publisher writes to the stream's NATS subject itself
		var data []byte
		if via == "plain" {
			data = []byte(corr)
		} else {
			env := &client.Message{Value: []byte(corr), Stream: r.stream, Subject: r.stream, CorrelationId: corr,
				AckPolicy: vC16Policy(pol), Offset: m.Exp}
			if via == "nats" {
				env.AckInbox = p.inbox
			}
			var err error
			if data, err = proto.MarshalPublish(env); err != nil {
				panic(err)
			}
		}
		var pd *vC16Pending
		if via == "nats" {
			pd = &vC16Pending{msg: m, done: make(chan struct{})}
			m.pd = pd
			p.pending[corr] = pd
			p.waiting = append(p.waiting, pd)
		}
		m.SendT = r.tick() // stamped just before the send
		p.mu.Unlock()
		if err := p.nc.Publish(r.stream, data); err != nil {
			p.mu.Lock()
			m.AckT, m.Res, m.Err = r.tick(), "other", "nats publish: "+err.Error()
			if pd != nil {
				if _, still := p.pending[corr]; still {
					delete(p.pending, corr)
					close(pd.done)
				}
			}
			p.mu.Unlock()
		}
		return
	case "subj":
		// PublishToSubject: unary RPC, returns with the first ack
		m.SendT = r.tick()
		p.mu.Unlock()
		ctx, cancel := context.WithTimeout(context.Background(), vC16Deadline)
		resp, err := r.api.PublishToSubject(ctx, &client.PublishToSubjectRequest{Subject: r.stream, Value: []byte(corr),
			CorrelationId: corr, AckPolicy: vC16Policy(pol)})
		at := r.tick()
		cancel()
		res, off, text := "ok", int64(-1), ""
		switch {
		case err != nil && status.Code(err) == codes.DeadlineExceeded:
			res, text = "timeout", err.Error()
		case err != nil:
			res, text = "other", err.Error()
		case resp.Ack == nil:
			res = "noack"
		case resp.Ack.AckError == client.Ack_INCORRECT_OFFSET:
			res = "incorrect_offset"
		case resp.Ack.AckError != client.Ack_OK:
			res, text = "other", "ack error "+resp.Ack.AckError.String()
		default:
			off = resp.Ack.Offset
		}
		p.mu.Lock()
		m.Res, m.Off, m.Err = res, off, text
		if res != "timeout" {
			m.AckT = at
		}
		if res == "ok" && off+1 > p.known {
			p.known = off + 1
		}
		p.mu.Unlock()
		return
	}
	req := &client.PublishRequest{
		Stream:         r.stream,
		Value:          []byte(corr),
		CorrelationId:  corr,
		AckPolicy:      vC16Policy(pol),
		ExpectedOffset: m.Exp,
	}
	if r.cfg.Path == "async" {
		pd := &vC16Pending{msg: m, done: make(chan struct{})}
		m.pd = pd
		p.pending[corr] = pd
		p.waiting = append(p.waiting, pd)
		if hold && pol != "none" {
			vC16HoldMu.Lock()
			vC16Holds[corr] = pd
			vC16HoldMu.Unlock()
		}
		m.SendT = r.tick() // stamped just before the send
		p.mu.Unlock()
		if err := p.stream.Send(req); err != nil {
			p.mu.Lock()
			if _, still := p.pending[corr]; still {
				delete(p.pending, corr)
				m.AckT, m.Res, m.Err = r.tick(), "other", "send: "+err.Error()
				close(pd.done)
			}
			p.mu.Unlock()
		}
		return
	}
	m.SendT = r.tick()
	p.mu.Unlock()
	ctx, cancel := context.WithTimeout(context.Background(), vC16Deadline)
	resp, err := r.api.Publish(ctx, req)
	at := r.tick()
	cancel()
	res, off, text := vC16ClassifySync(resp, err)
	p.mu.Lock()
	m.Res, m.Off, m.Err = res, off, text
	if res != "timeout" {
		m.AckT = at
	}
	if res == "ok" && off+1 > p.known {
		p.known = off + 1
	}
	p.mu.Unlock()
}

// await waits for the answers of everything this publisher sent in the wave.
// On a stream without concurrency control a publish with ack policy NONE gets
// no answer by design: it is not waited for.
func (p *vC16Pub) await() (timeouts int) {
	p.mu.Lock()
	ws := p.waiting
	p.waiting = nil
	p.mu.Unlock()
	deadline := time.After(vC16Deadline)
	for _, pd := range ws {
		if pd.msg.Pol == "none" && !p.run.cfg.Occ {
			continue
		}
		if pd.msg.Pol == "none" {
			// the refusal of ack policy NONE comes from the API at once; if the API took the
			// publish there may be no answer at all - unknown ("timeout"), not waited for long
			select {
			case <-pd.done:
			case <-time.After(3 * time.Second):
			}
			continue
		}
		select {
		case <-pd.done:
		case <-deadline:
			timeouts++
			deadline = time.After(time.Millisecond)
		}
	}
	return timeouts
}

// fence: some publishes of this publisher (ack policy LEADER/ALL) got no answer
// before the deadline.  Whether that is slowness or an answer that was never
// sent is decided by a fence: one more publish of the same publisher over the
// same path (check waived, ack policy LEADER).  The leader loop handles the
// messages of one publisher in order and sends a refusal before it takes the
// next message, and answers travel in order, so once the fence is acknowledged
// every earlier publish has been judged by the leader and a refusal for it
// would have arrived: what is still unanswered is recorded as "noanswer" (an
// observation TLC judges); without the fence's ack it stays "timeout" (unknown).
//
// The same over the publisher's own NATS connection (messages of one connection
// to one subject are delivered in order): an enveloped publish with ack inbox,
// check waived.  Publishes without ack inbox never get an answer; once the raw
// fence is acknowledged they have been judged ("noack", stamped with the fence's
// answer time) and the log tells what became of them.
func (p *vC16Pub) fence() {
	p.fenceLink(false)
	p.fenceLink(true)
}

func vC16Raw(via string) bool { return via == "nats" || via == "natsq" || via == "plain" }

func (p *vC16Pub) fenceLink(raw bool) {
	p.mu.Lock()
	var open []*vC16Msg
	for _, m := range p.msgs {
		if m.Via == "subj" || vC16Raw(m.Via) != raw {
			continue
		}
		if m.AckT >= vC16Inf && (m.Pol != "none" || raw) {
			open = append(open, m)
		}
	}
	p.mu.Unlock()
	if len(open) == 0 {
		return
	}
	if raw {
		if err := p.openRaw(); err != nil {
			return
		}
		p.send("fence", "leader", "nats", false)
	} else {
		p.send("fence", "leader", "api", false)
	}
	p.await()
	p.mu.Lock()
	defer p.mu.Unlock()
	f := p.msgs[len(p.msgs)-1]
	if f.Kind != "fence" || f.Res != "ok" {
		return
	}
	for _, m := range open {
		if m.AckT >= vC16Inf {
			if m.Via == "natsq" || m.Via == "plain" {
				m.AckT, m.Res = f.AckT, "noack"
			} else {
				m.AckT, m.Res = f.AckT, "noanswer"
			}
		}
	}
}

func (r *vC16Round) readEnd() int64 { return r.cur().log.NewestOffset() + 1 }

// readLog reads the whole partition log (uncommitted reader from offset 0).
func (r *vC16Round) readLog() (out []struct {
	off int64
	val string
}, err error) {
	part := r.cur()
	newest := part.log.NewestOffset()
	if newest < 0 {
		return nil, nil
	}
	rd, err := part.log.NewReader(0, true)
	if err != nil {
		return nil, err
	}
	ctx, cancel := context.WithTimeout(context.Background(), vC16Deadline)
	defer cancel()
	headers := make([]byte, 28)
	for {
		m, off, _, _, err := rd.ReadMessage(ctx, headers)
		if err != nil {
			return out, err
		}
		out = append(out, struct {
			off int64
			val string
		}{off, string(m.Value())})
		if off >= newest {
			return out, nil
		}
	}
}

func (r *vC16Round) runWave(wave map[string]interface{}) (timeouts int) {
	var (
		start = make(chan struct{})
		wg    sync.WaitGroup
		mu    sync.Mutex
	)
	// driver steps of the wave (before the publishers start)
	if ctl, ok := wave["#"]; ok {
		for _, s := range ctl.([]interface{}) {
			switch a := vStr(s.(map[string]interface{}), "a"); a {
			case "Pause":
				r.pause()
			case "Restart":
				r.restart()
			case "Snapshot":
				r.snapshot()
			case "Install":
				r.install()
			default:
				panic("unknown driver step " + a)
			}
		}
	}
	names := make([]string, 0, len(wave))
	for name := range wave {
		if name != "#" {
			names = append(names, name)
		}
	}
	sort.Strings(names)
	for _, name := range names {
		p := r.pubs[name]
		if p == nil {
			r.t.Fatalf("round %d: unknown publisher %q", r.id, name)
		}
		steps := wave[name].([]interface{})
		for _, s := range steps {
			if vC16Raw(vStrDef(s.(map[string]interface{}), "via", "api")) {
				if err := p.openRaw(); err != nil {
					r.t.Fatalf("INCONCLUSIVE: nats connection of publisher %s: %v", name, err)
				}
			}
		}
		wg.Add(1)
		go func(p *vC16Pub, steps []interface{}) {
			defer wg.Done()
			<-start
			for _, s := range steps {
				st := s.(map[string]interface{})
				switch vStr(st, "a") {
				case "Send":
					hold, _ := st["hold"].(bool)
					p.send(vStr(st, "kind"), vStrDef(st, "pol", "leader"), vStrDef(st, "via", "api"), hold)
				case "Read":
					e := r.readEnd()
					p.mu.Lock()
					p.known = e
					p.mu.Unlock()
				default:
					panic("unknown step " + vStr(st, "a"))
				}
			}
			n := p.await()
			p.fence()
			mu.Lock()
			timeouts += n
			mu.Unlock()
		}(p, steps)
	}
	close(start)
	wg.Wait()
	return timeouts
}

// vC16Env is the one-node server of the run; a round may restart it (same data
// directory: the metadata is rebuilt from the Raft log / snapshot, the streams
// and their commit logs are reopened).
type vC16Env struct {
	t    *testing.T
	cfg  *Config
	srv  *Server
	conn *grpc.ClientConn
	api  client.APIClient
}

func (e *vC16Env) start() {
	e.srv = vOneNodeServer(e.t, e.cfg)
	conn, err := grpc.Dial(fmt.Sprintf("127.0.0.1:%d", e.srv.GetListenPort()), grpc.WithInsecure())
	if err != nil {
		e.t.Fatalf("INCONCLUSIVE: dial: %v", err)
	}
	e.conn, e.api = conn, client.NewAPIClient(conn)
}

func (e *vC16Env) stop() {
	if e.conn != nil {
		e.conn.Close()
	}
	if e.srv != nil {
		e.srv.Stop()
	}
}

func (r *vC16Round) waitLeader() {
	deadline := time.Now().Add(3 * vC16Deadline)
	for {
		r.part = r.srv.metadata.GetPartition(r.stream, 0)
		if r.part != nil {
			if l, _ := r.part.GetLeader(); l == "a" && r.part.IsLeader() {
				return
			}
		}
		if time.Now().After(deadline) {
			r.t.Fatalf("INCONCLUSIVE: partition did not start")
		}
		time.Sleep(200 * time.Microsecond)
	}
}

func (r *vC16Round) createStream(occ bool, src string) {
	req := &client.CreateStreamRequest{Name: r.stream, Subject: r.stream}
	switch src {
	case "server": // no per-stream option
	case "override":
		req.OptimisticConcurrencyControl = &client.NullableBool{Value: occ}
	default:
		if occ {
			req.OptimisticConcurrencyControl = &client.NullableBool{Value: true}
		}
	}
	for attempt := 1; ; attempt++ {
		// a loaded machine can exceed the 5 s Raft apply timeout: retry
		_, err := r.srv.api.CreateStream(context.Background(), req)
		if err == nil || status.Code(err) == codes.AlreadyExists {
			break
		}
		if attempt >= 6 {
			r.t.Fatalf("INCONCLUSIVE: create stream: %v", err)
		}
		time.Sleep(time.Second)
	}
	r.waitLeader()
}

// snapshotStore opens the Raft snapshot store of the server.
func (r *vC16Round) snapshotStore() (raft.SnapshotStore, []*raft.SnapshotMeta) {
	store, err := raft.NewFileSnapshotStore(filepath.Join(r.env.cfg.DataDir, "raft"), 2, io.Discard)
	if err != nil {
		r.t.Fatalf("INCONCLUSIVE: snapshot store: %v", err)
	}
	metas, err := store.List()
	if err != nil {
		r.t.Fatalf("INCONCLUSIVE: snapshot list: %v", err)
	}
	return store, metas
}

// snapHolds: what the newest persisted snapshot says about the stream of the
// round - read from the snapshot store: "none" (no stream of that name), "cur"
// (the stream as it exists now, by creation time), "pred" (an earlier one).
func (r *vC16Round) snapHolds() string {
	store, metas := r.snapshotStore()
	if len(metas) == 0 {
		return "none"
	}
	_, rc, err := store.Open(metas[0].ID)
	if err != nil {
		r.t.Fatalf("INCONCLUSIVE: snapshot open: %v", err)
	}
	defer rc.Close()
	b, err := io.ReadAll(rc)
	if err != nil || len(b) < 4 || int(binary.BigEndian.Uint32(b[:4])) != len(b)-4 {
		r.t.Fatalf("INCONCLUSIVE: snapshot is not size + data (%d bytes, %v)", len(b), err)
	}
	snap := &proto.MetadataSnapshot{}
	if err := snap.Unmarshal(b[4:]); err != nil {
		r.t.Fatalf("INCONCLUSIVE: snapshot: %v", err)
	}
	for _, st := range snap.Streams {
		if st.Name != r.stream {
			continue
		}
		if live := r.srv.metadata.GetStream(r.stream); live != nil && live.GetCreationTime().UnixNano() == st.CreationTimestamp {
			return "cur"
		}
		return "pred"
	}
	return "none"
}

// snapshot: the metadata Raft group persists a snapshot of its state machine now.
func (r *vC16Round) snapshot() {
	var err error
	for attempt := 1; attempt <= 4; attempt++ {
		err = r.srv.getRaft().Snapshot().Error()
		if err == nil || err == raft.ErrNothingNewToSnapshot {
			r.snaps++
			return
		}
		time.Sleep(300 * time.Millisecond)
	}
	r.t.Fatalf("INCONCLUSIVE: raft snapshot: %v", err)
}

// install: the running server takes a snapshot and is handed it back (the real
// Server.Restore, as Raft does when a server installs a snapshot): every stream
// is rebuilt from the snapshot's copy.  The publishers' sessions stay.
func (r *vC16Round) install() {
	wasPaused := r.cur().IsPaused()
	r.snapshot()
	store, metas := r.snapshotStore()
	if len(metas) == 0 {
		r.t.Fatalf("INCONCLUSIVE: no snapshot to install")
	}
	_, rc, err := store.Open(metas[0].ID)
	if err != nil {
		r.t.Fatalf("INCONCLUSIVE: snapshot open: %v", err)
	}
	if err := r.srv.Restore(rc); err != nil {
		r.note = "restore failed: " + err.Error()
		return
	}
	if !wasPaused {
		r.waitLeader()
	}
	r.installs++
}

// restart: stop the server and start it again on the same data directory
// (between two waves: nothing is in flight), then reconnect the publishers.
func (r *vC16Round) restart() {
	wasPaused := r.cur().IsPaused()
	for _, p := range r.pubs {
		if p.stream != nil {
			p.stream.CloseSend()
			p.cancel()
			p.stream = nil
		}
		p.closeRaw()
	}
	r.env.stop()
	r.env.start()
	r.srv, r.api = r.env.srv, r.env.api
	if !wasPaused {
		r.waitLeader()
	}
	for _, p := range r.pubs {
		if r.cfg.Path == "async" {
			if err := p.openAsync(); err != nil {
				r.t.Fatalf("INCONCLUSIVE: reopen publish stream: %v", err)
			}
		}
	}
	r.restarts++
}

func TestVerifC16Server(t *testing.T) {
	sf := vLoadStimuli(t)
	tw := vOpenTrace(t)
	defer tw.Close()
	emit := func(ev interface{}) {
		tw.Emit(ev)
		tw.w.Flush()
	}

	defer os.RemoveAll(storagePath)
	// private embedded-NATS port (other server harnesses run on this machine)
	env := &vC16Env{t: t, cfg: vOneNodeConfig(t, "a")}
	env.start()
	defer func() { env.stop() }()
	VerifGateStopHook = vC16GateHook
	defer func() { VerifGateStopHook = nil }()
	emit(vC16Event{T: 0, A: "Open", Msgs: []vC16Msg{}, Log: []vC16Entry{}, Known: map[string]int64{}})

	timedOutRounds := 0
	for _, b := range sf.Behaviours {
		if timedOutRounds >= 3 {
			// answers are missing again and again: every further round would wait for its deadlines
			emit(vC16Event{T: b.ID, A: "Aborted", Msgs: []vC16Msg{}, Log: []vC16Entry{}, Known: map[string]int64{},
				Note: "3 rounds had publishes without an answer; remaining rounds not executed"})
			break
		}
		emit(vC16Event{T: b.ID, A: "Begin", Msgs: []vC16Msg{}, Log: []vC16Entry{}, Known: map[string]int64{}})
		var clk int64
		srv := env.srv
		r := &vC16Round{t: t, id: b.ID, srv: env.srv, api: env.api, env: env, clk: &clk, pubs: map[string]*vC16Pub{},
			stream: fmt.Sprintf("c16-%d", b.ID)}
		r.cfg = vC16Cfg{Batch: int(vInt(b.Cfg, "batch")), BatchMs: int(vIntDef(b.Cfg, "batchMs", 0)),
			Path: vStrDef(b.Cfg, "path", "async"), Snap0: vStrDef(b.Cfg, "snap0", "none")}
		vC16HoldMu.Lock()
		vC16Holds = map[string]*vC16Pending{}
		vC16HoldMu.Unlock()
		// batching settings of the server for the leader loop of this round's stream
		srv.config.BatchMaxMessages = r.cfg.Batch
		srv.config.BatchMaxTime = time.Duration(r.cfg.BatchMs) * time.Millisecond
		// the server-wide setting (read when a partition object is built: creation, restart, restore)
		r.cfg.Src = vStrDef(b.Cfg, "src", "request")
		wide := false
		switch r.cfg.Src {
		case "server":
			wide = vBool(b.Cfg, "occ")
		case "override":
			wide = !vBool(b.Cfg, "occ")
		}
		srv.config.Streams.ConcurrencyControl = wide
		env.cfg.Streams.ConcurrencyControl = wide
		if vBool(b.Cfg, "recreate") {
			// an earlier incarnation of the stream with the opposite setting: created,
			// written to, deleted - then the stream of the round is created
			r.createStream(!vBool(b.Cfg, "occ"), "override")
			ctx, cancel := context.WithTimeout(context.Background(), vC16Deadline)
			r.srv.api.Publish(ctx, &client.PublishRequest{Stream: r.stream, Value: []byte("old"), // nolint: errcheck
				AckPolicy: client.AckPolicy_LEADER, ExpectedOffset: -1})
			cancel()
			if r.cfg.Snap0 == "pred" {
				r.snapshot() // the newest snapshot holds the predecessor
			}
			for attempt := 1; ; attempt++ {
				_, err := r.srv.api.DeleteStream(context.Background(), &client.DeleteStreamRequest{Name: r.stream})
				if err == nil || status.Code(err) == codes.NotFound {
					break
				}
				if attempt >= 6 {
					t.Fatalf("INCONCLUSIVE: delete stream: %v", err)
				}
				time.Sleep(time.Second)
			}
			dl := time.Now().Add(vC16Deadline)
			for r.srv.metadata.GetStream(r.stream) != nil && time.Now().Before(dl) {
				time.Sleep(time.Millisecond)
			}
			if r.cfg.Snap0 == "gap" {
				r.snapshot() // taken between the deletion and the creation: holds no stream of that name
			}
		}
		r.createStream(vBool(b.Cfg, "occ"), r.cfg.Src)
		if r.cfg.Snap0 == "cur" {
			r.snapshot() // the newest snapshot holds the stream of the round
		}
		// the stream is one with concurrency control when its configuration says so (per-stream option, else
		// the server-wide setting); what the commit log got is observed next to it
		r.cfg.Occ = vBool(b.Cfg, "occ")
		r.cfg.Occ0 = r.part.log.IsConcurrencyControlEnabled()

		for _, x := range b.Cfg["pubs"].([]interface{}) {
			p := &vC16Pub{name: x.(string), run: r, pending: map[string]*vC16Pending{}}
			r.pubs[p.name] = p
			if r.cfg.Path == "async" {
				if err := p.openAsync(); err != nil {
					t.Fatalf("INCONCLUSIVE: open publish stream: %v", err)
				}
			}
		}
		timeouts := 0
		for _, w := range b.Steps {
			timeouts += r.runWave(w)
		}
		// the round is over: final log and the history (a paused partition's log is
		// closed: resume it, as the next publish would, to read it)
		endedPaused := r.cur().IsPaused()
		if endedPaused {
			ctx, cancel := context.WithTimeout(context.Background(), vC16Deadline)
			if err := r.srv.api.resumeStream(ctx, r.stream, 0); err != nil && r.note == "" {
				r.note = "resume for the final read failed: " + err.Error()
			}
			cancel()
			deadline := time.Now().Add(vC16Deadline)
			for r.cur().IsPaused() && time.Now().Before(deadline) {
				time.Sleep(200 * time.Microsecond)
			}
		}
		entries, rerr := r.readLog()
		eocc := r.cur().log.IsConcurrencyControlEnabled()
		snapHolds := r.snapHolds()
		holds := 0
		all := []*vC16Msg{}
		known := map[string]int64{}
		for _, p := range r.pubs {
			p.mu.Lock()
			all = append(all, p.msgs...)
			known[p.name] = p.known
			p.mu.Unlock()
		}
		sort.Slice(all, func(i, j int) bool { return all[i].SendT < all[j].SendT })
		ids := map[string]int{}
		unanswered, noanswer := 0, 0
		msgs := make([]vC16Msg, len(all))
		for i, m := range all {
			msgs[i] = *m
			msgs[i].pd = nil
			if m.pd != nil {
				switch atomic.LoadInt32(&m.pd.held) {
				case 1:
					msgs[i].Hold = "counted after the answer"
					holds++
				case 2:
					msgs[i].Hold = "no answer while parked"
				}
			}
			ids[fmt.Sprintf("%d|%s|%d", r.id, m.P, m.Seq)] = i + 1
			if m.AckT >= vC16Inf && !(m.Pol == "none" && !r.cfg.Occ) {
				msgs[i].Res = "timeout"
				if m.Pol != "none" {
					unanswered++
				}
			}
			if m.Res == "noanswer" {
				noanswer++
			}
		}
		logOut := make([]vC16Entry, len(entries))
		for i, e := range entries {
			logOut[i] = vC16Entry{Off: e.off, ID: ids[e.val]} // 0 = not a message of this round
		}
		ev := vC16Event{T: b.ID, A: "Round", Cfg: &r.cfg, Msgs: msgs, Log: logOut,
			Clk: atomic.LoadInt64(r.clk) + 1, Known: known, Timeouts: unanswered, NoAnswer: noanswer, Paused: endedPaused, Pauses: r.pauses, Restarts: r.restarts, Recreate: vBool(b.Cfg, "recreate"),
			Eocc: eocc, Snap: snapHolds, Snaps: r.snaps, Installs: r.installs, Holds: holds}
		if rerr != nil {
			ev.A, ev.Note = "Unreadable", "reading the final log: "+rerr.Error()
		} else if r.note != "" {
			ev.A, ev.Note = "Unreadable", r.note
		}
		emit(ev)
		_ = timeouts
		if unanswered+noanswer > 0 {
			timedOutRounds++
		}
		for _, p := range r.pubs {
			if p.stream != nil {
				p.stream.CloseSend()
				p.cancel()
			}
			p.closeRaw()
		}
		if _, err := r.srv.api.DeleteStream(context.Background(), &client.DeleteStreamRequest{Name: r.stream}); err != nil {
			t.Logf("delete stream: %v", err)
		}
	}
}
