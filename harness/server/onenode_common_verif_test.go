//go:build verif

package server

// One-node server (embedded NATS + single-node Raft) on PRIVATE ports.
// The embedded NATS server listens on 4222 by default; two server harnesses (or a
// harness and a repo test) running at the same time on this machine would collide
// and the NATS server then calls os.Exit(1) silently.  vOneNodeConfig picks a free
// port for the embedded NATS server and points the liftbridge NATS client at it.
// Add-only; shared by the C07 and C13 harnesses.

import (
	"fmt"
	"net"
	"os"
	"path/filepath"
	"testing"
	"time"
)

func vFreePort(t *testing.T) int {
	l, err := net.Listen("tcp", "127.0.0.1:0")
	if err != nil {
		t.Fatalf("INCONCLUSIVE: no free port: %v", err)
	}
	defer l.Close()
	return l.Addr().(*net.TCPAddr).Port
}

func vOneNodeConfig(t *testing.T, id string) *Config {
	cfg := getTestConfig(id, true, 0)
	port := vFreePort(t)
	if err := os.MkdirAll(storagePath, 0o755); err != nil {
		t.Fatalf("INCONCLUSIVE: %v", err)
	}
	f := filepath.Join(storagePath, fmt.Sprintf("nats-%s-%d.conf", id, port))
	if err := os.WriteFile(f, []byte(fmt.Sprintf("host: 127.0.0.1\nport: %d\n", port)), 0o644); err != nil {
		t.Fatalf("INCONCLUSIVE: %v", err)
	}
	cfg.EmbeddedNATSConfig = f
	cfg.NATS.Servers = []string{fmt.Sprintf("nats://127.0.0.1:%d", port)}
	return cfg
}

// vOneNodeServer starts the server and waits until it is the metadata leader.
func vOneNodeServer(t *testing.T, cfg *Config) *Server {
	srv, err := RunServerWithConfig(cfg)
	if err != nil {
		t.Fatalf("INCONCLUSIVE: server did not start: %v", err)
	}
	deadline := time.Now().Add(30 * time.Second)
	for !(srv.IsRunning() && srv.getRaft() != nil && srv.IsLeader()) {
		if time.Now().After(deadline) {
			t.Fatalf("INCONCLUSIVE: server did not become metadata leader")
		}
		time.Sleep(2 * time.Millisecond)
	}
	return srv
}

// vJoinConfig is the configuration of a further server of the cluster whose first
// server runs with `first` (it uses the first server's embedded NATS).
func vJoinConfig(t *testing.T, id string, first *Config) *Config {
	cfg := getTestConfig(id, false, 0)
	cfg.NATS.Servers = append([]string{}, first.NATS.Servers...)
	return cfg
}
